(* Proofs/PevBlock.v — a block of operators that all bind tighter than both of its neighbours is evaluated first:
   in a chain evaluated by precedence, such a block may be replaced by its value.  (Parenthesised sub-expressions
   flattened with a priority offset are such blocks.)  Exact equalities: PevFold with R := eq. *)
From Coq Require Import List Arith Lia Bool ZArith.
Import ListNotations.
From Exmex.Model Require Import Base EvalBinary Lexer Flat.
From Exmex.Proofs Require Import Pev PevFold.
Open Scope nat_scope.

Section PevBlock.
Context {D : Type}.
Variable C : carrier D.
Local Notation pv := (pv C).

Definition above (M : Z) (blk : list (fop * D)) : Prop := forall o y, In (o, y) blk -> (M < fprio o)%Z.
Definition head_at_most (l : list (fop * D)) (M : Z) : Prop := match l with [] => True | (o, _) :: _ => (fprio o <= M)%Z end.

Lemma eq_bin : forall k (a a' b b' : D), a = a' -> b = b' -> binf C k a b = binf C k a' b'.
Proof. intros; subst; reflexivity. Qed.
Lemma eq_un : forall k (a a' : D), a = a' -> unf C k a = unf C k a'.
Proof. intros; subst; reflexivity. Qed.

(* the leftmost operator of maximal priority *)
Lemma leftmost_max : forall blk : list (fop * D), blk <> [] ->
  exists b1 o b b2, blk = b1 ++ (o, b) :: b2 /\
    (forall o' y', In (o', y') b1 -> (fprio o' < fprio o)%Z) /\ (forall o' y', In (o', y') b2 -> (fprio o' <= fprio o)%Z).
Proof.
  induction blk as [|[o y] tl IH]; intros Hne; [congruence|].
  destruct tl as [|p tl'].
  - exists [], o, y, []. split; [reflexivity|]. split; intros ? ? [].
  - destruct (IH ltac:(discriminate)) as (b1 & o2 & b & b2 & E & H1 & H2).
    destruct (Z_lt_ge_dec (fprio o) (fprio o2)) as [Hlt|Hge].
    + exists ((o, y) :: b1), o2, b, b2. rewrite E. split; [reflexivity|]. split; [|exact H2].
      intros o' y' [Heq|Hin]; [inversion Heq; subst; exact Hlt|exact (H1 o' y' Hin)].
    + exists [], o, y, (p :: tl'). split; [reflexivity|]. split; [intros ? ? []|].
      intros o' y' Hin. rewrite E in Hin. apply in_app_or in Hin. destruct Hin as [Hin|[Heq|Hin]].
      * specialize (H1 o' y' Hin). lia.
      * inversion Heq; subst. lia.
      * specialize (H2 o' y' Hin). lia.
Qed.

Lemma headle_of (l : list (fop * D)) (o : fop) M : head_at_most l M -> (M <= fprio o)%Z -> headle l o.
Proof. destruct l as [|[o' y'] l]; cbn; [trivial|lia]. Qed.
Lemma headle_app_in (b2 l2 : list (fop * D)) (o : fop) M :
  (forall o' y', In (o', y') b2 -> (fprio o' <= fprio o)%Z) -> head_at_most l2 M -> (M <= fprio o)%Z -> headle (b2 ++ l2) o.
Proof.
  intros H2 Hh HM. destruct b2 as [|[o' y'] b2]; cbn [app]; [exact (headle_of l2 o M Hh HM)|]. cbn. apply (H2 o' y'). left. reflexivity.
Qed.

Lemma nil_or_last {A} (l : list A) : l = [] \/ exists l' a, l = l' ++ [a].
Proof. destruct l as [|a0 l0]; [left; reflexivity|right]. destruct (@exists_last A (a0 :: l0) ltac:(discriminate)) as (l' & a & E). exists l', a. exact E. Qed.

Local Notation fold_head := (pv_fold_head C eq (@eq_refl D) eq_bin eq_un).
Local Notation fold_mid := (pv_fold_mid C eq (@eq_refl D) eq_bin eq_un).

Lemma above_after_head M o b (b2 : list (fop * D)) : above M ((o, b) :: b2) -> above M b2.
Proof. intros H o' y' Hin. apply (H o' y'). right. exact Hin. Qed.
Lemma above_after_mid M b1' ol a o b c (b2 : list (fop * D)) : above M ((b1' ++ [(ol, a)]) ++ (o, b) :: b2) -> above M (b1' ++ (ol, c) :: b2).
Proof.
  intros H o' y' Hin. apply in_app_or in Hin. destruct Hin as [Hin|[Heq|Hin]].
  - apply (H o' y'). apply in_or_app. left. apply in_or_app. left. exact Hin.
  - inversion Heq; subst o' y'. apply (H ol a). apply in_or_app. left. apply in_or_app. right. left. reflexivity.
  - apply (H o' y'). apply in_or_app. right. right. exact Hin.
Qed.

(* a block at the very beginning *)
Lemma pv_block_head : forall n (blk : list (fop * D)), length blk <= n -> forall x l2 M, above M blk -> head_at_most l2 M ->
  pv x (blk ++ l2) = pv (pv x blk) l2.
Proof.
  induction n as [|n IH]; intros blk Hn x l2 M Hab Hh.
  - destruct blk; [reflexivity|cbn in Hn; lia].
  - destruct blk as [|p0 blk0] eqn:Eb; [reflexivity|]. rewrite <- Eb in *.
    destruct (leftmost_max blk ltac:(rewrite Eb; discriminate)) as (b1 & o & b & b2 & E & H1 & H2).
    assert (HMo : (M < fprio o)%Z) by (apply (Hab o b); rewrite E; apply in_or_app; right; left; reflexivity).
    assert (Hlen : length b1 + length b2 <= n) by (rewrite E, app_length in Hn; cbn in Hn; lia).
    assert (Hh1 : headle (b2 ++ l2) o) by (apply (headle_app_in b2 l2 o M H2 Hh); lia).
    assert (Hh2 : headle b2 o) by (rewrite <- (app_nil_r b2); apply (headle_app_in b2 [] o M H2 I); lia).
    destruct (nil_or_last b1) as [->|(b1' & [ol a] & ->)].
    + cbn [app] in E. rewrite E in *. cbn [app].
      rewrite <- (fold_head (length (b2 ++ l2)) x o b (b2 ++ l2) (le_n _) Hh1).
      rewrite <- (fold_head (length b2) x o b b2 (le_n _) Hh2).
      apply (IH b2 ltac:(cbn in Hlen; lia) _ _ M (above_after_head M o b b2 Hab) Hh).
    + rewrite E in *. rewrite <- !app_assoc. cbn [app].
      assert (Hleft : (fprio ol < fprio o)%Z \/ (fprio ol = fprio o /\ forall u v w : D, apply_op C ol u (apply_op C o v w) = apply_op C o (apply_op C ol u v) w)).
      { left. apply (H1 ol a). apply in_or_app. right. left. reflexivity. }
      rewrite app_length in Hlen. cbn [length] in Hlen.
      rewrite <- (fold_mid (S (length b1' + length (b2 ++ l2))) x b1' ol a o b (b2 ++ l2) (Nat.lt_succ_diag_r _) Hh1 Hleft).
      rewrite <- (fold_mid (S (length b1' + length b2)) x b1' ol a o b b2 (Nat.lt_succ_diag_r _) Hh2 Hleft).
      replace (b1' ++ (ol, apply_op C o a b) :: b2 ++ l2) with ((b1' ++ (ol, apply_op C o a b) :: b2) ++ l2) by (rewrite <- app_assoc; reflexivity).
      apply (IH (b1' ++ (ol, apply_op C o a b) :: b2)) with (M := M); [rewrite app_length; cbn [length]; lia|exact (above_after_mid M b1' ol a o b _ b2 Hab)|exact Hh].
Qed.

(* a block behind an operator that binds no tighter than M *)
Lemma pv_block_mid : forall n (blk : list (fop * D)), length blk <= n -> forall x l1 o1 y0 l2 M, above M blk -> (fprio o1 <= M)%Z -> head_at_most l2 M ->
  pv x (l1 ++ (o1, y0) :: blk ++ l2) = pv x (l1 ++ (o1, pv y0 blk) :: l2).
Proof.
  induction n as [|n IH]; intros blk Hn x l1 o1 y0 l2 M Hab Ho1 Hh.
  - destruct blk; [reflexivity|cbn in Hn; lia].
  - destruct blk as [|p0 blk0] eqn:Eb; [reflexivity|]. rewrite <- Eb in *.
    destruct (leftmost_max blk ltac:(rewrite Eb; discriminate)) as (b1 & o & b & b2 & E & H1 & H2).
    assert (HMo : (M < fprio o)%Z) by (apply (Hab o b); rewrite E; apply in_or_app; right; left; reflexivity).
    assert (Hlen : length b1 + length b2 <= n) by (rewrite E, app_length in Hn; cbn in Hn; lia).
    assert (Hh1 : headle (b2 ++ l2) o) by (apply (headle_app_in b2 l2 o M H2 Hh); lia).
    assert (Hh2 : headle b2 o) by (rewrite <- (app_nil_r b2); apply (headle_app_in b2 [] o M H2 I); lia).
    destruct (nil_or_last b1) as [->|(b1' & [ol a] & ->)].
    + cbn [app] in E. rewrite E in *. cbn [app].
      assert (Hleft : (fprio o1 < fprio o)%Z \/ (fprio o1 = fprio o /\ forall u v w : D, apply_op C o1 u (apply_op C o v w) = apply_op C o (apply_op C o1 u v) w)) by (left; lia).
      rewrite <- (fold_mid (S (length l1 + length (b2 ++ l2))) x l1 o1 y0 o b (b2 ++ l2) (Nat.lt_succ_diag_r _) Hh1 Hleft).
      rewrite <- (fold_head (length b2) y0 o b b2 (le_n _) Hh2).
      apply (IH b2 ltac:(cbn in Hlen; lia) _ _ _ _ _ M (above_after_head M o b b2 Hab) Ho1 Hh).
    + rewrite E in *. rewrite <- !app_assoc. cbn [app].
      assert (Hleft : (fprio ol < fprio o)%Z \/ (fprio ol = fprio o /\ forall u v w : D, apply_op C ol u (apply_op C o v w) = apply_op C o (apply_op C ol u v) w)).
      { left. apply (H1 ol a). apply in_or_app. right. left. reflexivity. }
      rewrite app_length in Hlen. cbn [length] in Hlen.
      replace (l1 ++ (o1, y0) :: b1' ++ (ol, a) :: (o, b) :: b2 ++ l2) with ((l1 ++ (o1, y0) :: b1') ++ (ol, a) :: (o, b) :: (b2 ++ l2)) by (rewrite <- app_assoc; reflexivity).
      rewrite <- (fold_mid (S (length (l1 ++ (o1, y0) :: b1') + length (b2 ++ l2))) x (l1 ++ (o1, y0) :: b1') ol a o b (b2 ++ l2) (Nat.lt_succ_diag_r _) Hh1 Hleft).
      rewrite <- (fold_mid (S (length b1' + length b2)) y0 b1' ol a o b b2 (Nat.lt_succ_diag_r _) Hh2 Hleft).
      replace ((l1 ++ (o1, y0) :: b1') ++ (ol, apply_op C o a b) :: b2 ++ l2) with (l1 ++ (o1, y0) :: (b1' ++ (ol, apply_op C o a b) :: b2) ++ l2)
        by (rewrite <- !app_assoc; reflexivity).
      apply (IH (b1' ++ (ol, apply_op C o a b) :: b2)) with (M := M); [rewrite app_length; cbn [length]; lia|exact (above_after_mid M b1' ol a o b _ b2 Hab)|exact Ho1|exact Hh].
Qed.
End PevBlock.
