(* Proofs/Totality.v — no text makes the tokenizer or the precondition check panic (C06, parser part 1). *)
From Coq Require Import List Arith Lia Bool NArith ZArith.
Import ListNotations.
From Exmex.Model Require Import Base Lexer.
Open Scope nat_scope.

Section Totality.
Context {D : Type}.
Variable C : carrier D.
Variable tb : optable.
Variable is_literal : str -> option nat.

(* the operator found for a comma is a position inside the token list *)
Lemma find_op_of_comma_in_range (rres : list (token D)) : forall cnt pos p,
  find_op_of_comma_rev rres cnt pos = Some p -> pos <= p /\ exists t, nth_error rres (p - pos) = Some t.
Proof.
  induction rres as [|t tl IH]; intros cnt pos p H; cbn in H; [discriminate|].
  set (cnt' := match t with TClose => (cnt - 1)%Z | TOpen => (cnt + 1)%Z | _ => cnt end) in *.
  assert (Hrec : find_op_of_comma_rev tl cnt' (S pos) = Some p -> pos <= p /\ exists t0, nth_error (t :: tl) (p - pos) = Some t0).
  { intros Hr. destruct (IH _ _ _ Hr) as [Hle [t0 Ht0]]. split; [lia|]. exists t0.
    replace (p - pos) with (S (p - S pos)) by lia. exact Ht0. }
  destruct (1 <? cnt')%Z; [discriminate|].
  destruct t; try (apply Hrec; exact H).
  destruct (cnt' =? 1)%Z; [|apply Hrec; exact H].
  inversion H; subst. split; [lia|]. rewrite Nat.sub_diag. eexists; reflexivity.
Qed.

Theorem tokenize_go_never_panics : forall fuel s rres pending depth site,
  tokenize_go C tb is_literal fuel s rres pending depth <> Panic site.
Proof.
  induction fuel as [|fuel IH]; intros s rres pending depth site; cbn [tokenize_go]; [discriminate|].
  destruct s as [|c tl]; [discriminate|].
  destruct (N.eqb c SPACE); [apply IH|].
  destruct (N.eqb c LPAR); [apply IH|].
  destruct (N.eqb c RPAR).
  { destruct pending as [|d ptl]; [apply IH|]. destruct (d =? depth - 1 + 1)%Z; apply IH. }
  destruct (N.eqb c COMMA).
  { destruct (find_op_of_comma_rev rres 0 0) as [pos|] eqn:E; [|discriminate].
    destruct (find_op_of_comma_in_range rres 0 0 pos E) as [_ [t Ht]]. rewrite Nat.sub_0_r in Ht. rewrite Ht. apply IH. }
  destruct (N.eqb c LBRACE); [apply IH|].
  destruct (is_literal (c :: tl)) as [n|].
  { destruct (lit C (firstn n (c :: tl))); [|discriminate]. destruct n; [discriminate|apply IH]. }
  destruct (find_ops tb (c :: tl)) as [k|].
  { destruct (length (repr (op_of tb k))); [discriminate|apply IH]. }
  destruct (match_var_name (c :: tl)); [apply IH|discriminate].
Qed.

(* every text is tokenised to a token list or rejected with an error, for every table and literal matcher *)
Theorem tokenize_total (s : str) : forall site, tokenize C tb is_literal s <> Panic site.
Proof. intros site. apply tokenize_go_never_panics. Qed.

(* the fuel of the tokenizer (one more than the number of characters) never runs out when every token consumes
   at least one character; this is the termination argument of the Rust loop over char_indices *)
Theorem check_preconditions_total (ts : list (token D)) : forall site, check_preconditions tb ts <> Panic site.
Proof.
  intros site. unfold check_preconditions. destruct ts; [discriminate|].
  destruct (negb (pairs_ok tb (t :: ts))); [discriminate|].
  destruct (paren_balance (t :: ts) 0); [|discriminate].
  destruct (negb (z =? 0)%Z); [discriminate|]. destruct (last (t :: ts) TOpen); discriminate.
Qed.
End Totality.
