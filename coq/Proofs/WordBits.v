(* Proofs/WordBits.v — 64-bit words as bit functions: rotate_right, leading_ones, trailing_ones, the operations of
   `impl NumberTracker for usize`, and setting a bit. *)
From Coq Require Import ZArith NArith List Lia Bool Arith ZifyBool ZifyN ZifyNat.
Import ListNotations.
From Exmex.Model Require Import Base Tracker.
From Exmex.Proofs Require Import Runs.
Ltac Zify.zify_post_hook ::= Z.div_mod_to_equations.

Definition clean (w : N) : Prop := forall j : N, (64 <= j)%N -> N.testbit w j = false.
Definition wb (w : N) (j : nat) : bool := N.testbit w (N.of_nat j).

Lemma clean_0 : clean 0%N.
Proof. intros j _. apply N.bits_0. Qed.

Lemma rotr_bit x idx i : clean x -> idx < 64 -> i < 64 ->
  wb (rotr x (N.of_nat idx + 1)) i = wb x ((i + idx + 1) mod 64).
Proof.
  intros Hx Hidx Hi. unfold wb, rotr, W.
  set (k := ((N.of_nat idx + 1) mod 64)%N).
  assert (Hk : (k < 64)%N) by (apply N.mod_lt; lia).
  assert (Ek : k = N.of_nat ((idx + 1) mod 64)).
  { unfold k. destruct (Nat.eq_dec idx 63) as [->|Hne]; [reflexivity|].
    rewrite N.mod_small by lia. rewrite Nat.mod_small by lia. lia. }
  rewrite N.lor_spec, N.shiftr_spec by lia.
  rewrite N.land_spec, N.ones_spec_low by lia. rewrite andb_true_r.
  destruct (N.ltb_spec (N.of_nat i + k) 64) as [Hlt|Hge].
  - assert (Esh : N.testbit (N.shiftl x (64 - k)) (N.of_nat i) = false).
    { destruct (N.eq_dec k 0) as [E0|Hk0].
      - rewrite E0, N.sub_0_r. apply N.shiftl_spec_low. lia.
      - apply N.shiftl_spec_low. lia. }
    rewrite Esh, orb_false_r. f_equal. rewrite Ek in *.
    assert ((i + idx + 1) mod 64 = i + (idx + 1) mod 64).
    { destruct (Nat.eq_dec idx 63) as [->|Hne].
      - replace (i + 63 + 1) with (i + 1 * 64) by lia. rewrite Nat.mod_add by lia. rewrite Nat.mod_small by lia. cbn. lia.
      - rewrite (Nat.mod_small (idx + 1)) in * by lia. rewrite Nat.mod_small by lia. lia. }
    lia.
  - rewrite (Hx (N.of_nat i + k)%N) by lia. cbn [orb].
    rewrite N.shiftl_spec_high' by lia. f_equal. rewrite Ek in *.
    assert (idx <> 63) by (intros ->; cbn in Hge; lia).
    rewrite (Nat.mod_small (idx + 1)) in * by lia.
    assert ((i + idx + 1) mod 64 = i + idx + 1 - 64).
    { replace (i + idx + 1) with ((i + idx + 1 - 64) + 1 * 64) at 1 by lia. rewrite Nat.mod_add by lia. apply Nat.mod_small. lia. }
    lia.
Qed.

Lemma lead_from_run x n : lead_from x n = down_run (wb x) n.
Proof. induction n as [|n IH]; [reflexivity|]. cbn [lead_from down_run]. unfold wb at 1. rewrite IH. reflexivity. Qed.
Lemma trail_from_run x : forall f pos, trail_from x pos f = up_run (wb x) pos f.
Proof. induction f as [|f IH]; intros pos; [reflexivity|]. cbn [trail_from up_run]. unfold wb at 1. rewrite IH. reflexivity. Qed.

(* the bits idx, idx-1, ..., 0 of x are the top idx+1 bits of the rotated word *)
Lemma word_prev x idx : clean x -> idx < 64 ->
  w_get_previous x idx =
  if Nat.eqb (down_run (wb x) (S idx)) (S idx)
  then S idx + down_run (wb (rotr x (N.of_nat idx + 1))) (63 - idx)
  else down_run (wb x) (S idx).
Proof.
  intros Hx Hidx. unfold w_get_previous, leading_ones. rewrite lead_from_run.
  replace 64 with ((63 - idx) + S idx) at 1 by lia. rewrite down_run_split.
  rewrite (down_run_ext (fun j => wb (rotr x (N.of_nat idx + 1)) (63 - idx + j)) (wb x) (S idx)); [reflexivity|].
  intros j Hj. rewrite rotr_bit by (try assumption; lia).
  replace (63 - idx + j + idx + 1) with (j + 1 * 64) by lia. rewrite Nat.mod_add by lia. rewrite Nat.mod_small by lia. reflexivity.
Qed.
Lemma word_prev_capped x idx : clean x -> idx < 64 ->
  Nat.min (w_get_previous x idx) (S idx) = down_run (wb x) (S idx).
Proof.
  intros Hx Hidx. rewrite (word_prev x idx Hx Hidx). pose proof (down_run_le (wb x) (S idx)).
  destruct (Nat.eqb_spec (down_run (wb x) (S idx)) (S idx)); lia.
Qed.
Lemma down_run_lt_of_false b n : n > 0 -> b 0 = false -> down_run b n < n.
Proof.
  intros Hn H0. induction n as [|n IH]; [lia|]. cbn. destruct n as [|n']; [rewrite H0; lia|]. destruct (b (S n')); [specialize (IH ltac:(lia)); lia|lia].
Qed.
Lemma word_prev_exact x idx : clean x -> idx < 64 -> wb x 0 = false ->
  w_get_previous x idx = down_run (wb x) (S idx).
Proof.
  intros Hx Hidx H0. rewrite (word_prev x idx Hx Hidx). pose proof (down_run_lt_of_false (wb x) (S idx) ltac:(lia) H0).
  destruct (Nat.eqb_spec (down_run (wb x) (S idx)) (S idx)); [lia|reflexivity].
Qed.

(* the bits idx+1, ..., 63 of x are the low 63-idx bits of the rotated word; then bit 0, 1, ... follow *)
Lemma rot_low_run x idx : clean x -> idx < 64 -> forall f pos, pos + f <= 63 - idx ->
  up_run (wb (rotr x (N.of_nat idx + 1))) pos f = up_run (wb x) (S idx + pos) f.
Proof.
  intros Hx Hidx. induction f as [|f IH]; intros pos Hp; [reflexivity|]. cbn [up_run].
  rewrite rotr_bit by (try assumption; lia). rewrite Nat.mod_small by lia.
  replace (pos + idx + 1) with (S idx + pos) by lia. destruct (wb x (S idx + pos)); [|reflexivity].
  rewrite IH by lia. replace (S idx + S pos) with (S (S idx + pos)) by lia. reflexivity.
Qed.
Lemma word_next x idx : clean x -> idx < 64 ->
  w_get_next x idx =
  S (if Nat.eqb (up_run (wb x) (S idx) (63 - idx)) (63 - idx)
     then (63 - idx) + up_run (wb (rotr x (N.of_nat idx + 1))) (63 - idx) (S idx)
     else up_run (wb x) (S idx) (63 - idx)).
Proof.
  intros Hx Hidx. unfold w_get_next, trailing_ones. rewrite trail_from_run. f_equal.
  replace 64 with ((63 - idx) + S idx) at 1 by lia. rewrite up_run_split. rewrite Nat.add_0_l.
  rewrite (rot_low_run x idx Hx Hidx (63 - idx) 0) by lia. rewrite Nat.add_0_r. reflexivity.
Qed.
Lemma word_next_capped x idx : clean x -> idx < 64 ->
  Nat.min (w_get_next x idx) (64 - idx) = S (up_run (wb x) (S idx) (63 - idx)).
Proof.
  intros Hx Hidx. rewrite (word_next x idx Hx Hidx). pose proof (up_run_le (wb x) (S idx) (63 - idx)).
  destruct (Nat.eqb_spec (up_run (wb x) (S idx) (63 - idx)) (63 - idx)); lia.
Qed.
Lemma word_next_exact x idx : clean x -> idx < 64 -> wb x 0 = false ->
  w_get_next x idx = S (up_run (wb x) (S idx) (63 - idx)).
Proof.
  intros Hx Hidx H0. rewrite (word_next x idx Hx Hidx).
  destruct (Nat.eqb_spec (up_run (wb x) (S idx) (63 - idx)) (63 - idx)) as [E|]; [|reflexivity].
  (* the scan wraps around to bit 0, which is not set *)
  cbn [up_run]. rewrite rotr_bit by (try assumption; lia).
  replace (63 - idx + idx + 1) with (0 + 1 * 64) by lia. rewrite Nat.mod_add by lia. rewrite Nat.mod_small by lia.
  rewrite H0. lia.
Qed.

(* all ones *)
Lemma maxw_bits w : clean w -> (N.eqb w MAXW = true <-> forall j, j < 64 -> wb w j = true).
Proof.
  intros Hw. rewrite N.eqb_eq. unfold MAXW. split.
  - intros -> j Hj. unfold wb. apply N.ones_spec_low. lia.
  - intros H. apply N.bits_inj. intros n. destruct (N.ltb_spec n 64) as [Hlt|Hge].
    + rewrite N.ones_spec_low by lia. specialize (H (N.to_nat n) ltac:(lia)). unfold wb in H. rewrite N2Nat.id in H. exact H.
    + rewrite N.ones_spec_high by lia. apply Hw. exact Hge.
Qed.
Lemma down_run_full b n : down_run b n = n <-> forall j, j < n -> b j = true.
Proof.
  induction n as [|n IH]; [split; [intros _ j Hj; lia|reflexivity]|]. cbn [down_run]. pose proof (down_run_le b n). split.
  - destruct (b n) eqn:E; [|lia]. intros H' j Hj. destruct (Nat.eq_dec j n) as [->|]; [exact E|]. apply IH; lia.
  - intros Hall. rewrite (Hall n) by lia. f_equal. apply IH. intros j Hj. apply Hall. lia.
Qed.
Lemma up_run_full b : forall f pos, up_run b pos f = f <-> forall j, pos <= j < pos + f -> b j = true.
Proof.
  induction f as [|f IH]; intros pos; [split; [intros _ j Hj; lia|reflexivity]|]. cbn [up_run]. pose proof (up_run_le b (S pos) f). split.
  - destruct (b pos) eqn:E; [|lia]. intros H' j Hj. destruct (Nat.eq_dec j pos) as [->|]; [exact E|]. apply (IH (S pos)); lia.
  - intros Hall. rewrite (Hall pos) by lia. f_equal. apply IH. intros j Hj. apply Hall. lia.
Qed.
Lemma scan_word_down w : clean w ->
  (if N.eqb w MAXW then 64 else leading_ones w) = down_run (wb w) 64 /\ (N.eqb w MAXW = true <-> down_run (wb w) 64 = 64).
Proof.
  intros Hw. unfold leading_ones. rewrite lead_from_run. pose proof (maxw_bits w Hw) as Hm. pose proof (down_run_full (wb w) 64) as Hf.
  destruct (N.eqb w MAXW) eqn:E.
  - assert (down_run (wb w) 64 = 64) by (apply (proj2 Hf); apply (proj1 Hm); reflexivity). split; [lia|tauto].
  - split; [reflexivity|]. split; [discriminate|]. intros H. pose proof (proj2 Hm (proj1 Hf H)). discriminate.
Qed.
Lemma scan_word_up w : clean w ->
  (if N.eqb w MAXW then 64 else trailing_ones w) = up_run (wb w) 0 64 /\ (N.eqb w MAXW = true <-> up_run (wb w) 0 64 = 64).
Proof.
  intros Hw. unfold trailing_ones. rewrite trail_from_run. pose proof (maxw_bits w Hw) as Hm. pose proof (up_run_full (wb w) 64 0) as Hf.
  destruct (N.eqb w MAXW) eqn:E.
  - assert (up_run (wb w) 0 64 = 64) by (apply (proj2 Hf); intros j Hj; apply (proj1 Hm); [reflexivity|lia]). split; [lia|tauto].
  - split; [reflexivity|]. split; [discriminate|]. intros H. pose proof (proj1 Hf H) as H'. assert (Hc : false = true) by (apply (proj2 Hm); intros j Hj; apply H'; lia). discriminate.
Qed.

(* setting a bit *)
Lemma set_bit x bit : clean x -> bit < 64 ->
  clean (N.lor x (N.shiftl 1 (N.of_nat bit))) /\
  forall j, wb (N.lor x (N.shiftl 1 (N.of_nat bit))) j = wb x j || Nat.eqb j bit.
Proof.
  intros Hx Hb. rewrite N.shiftl_1_l. split.
  - intros j Hj. rewrite N.lor_spec, (Hx j Hj), N.pow2_bits_eqb. cbn [orb]. apply N.eqb_neq. lia.
  - intros j. unfold wb. rewrite N.lor_spec, N.pow2_bits_eqb. f_equal.
    destruct (Nat.eqb_spec j bit) as [->|Hne]; [apply N.eqb_refl|apply N.eqb_neq; lia].
Qed.
