(* Proofs/PevFold.v — applying one operator of a chain early.
   In a chain  x o1 y1 o2 y2 ...  evaluated by precedence (Pev.pev), the operator o between two neighbouring values a, b
   may be replaced by its result  (a o b)  when the operator to its left has lower priority — or the same priority and
   regrouping the two is invisible modulo R — and the operator to its right has lower or equal priority. *)
From Coq Require Import List Arith Lia Bool ZArith.
Import ListNotations.
From Exmex.Model Require Import Base EvalBinary Lexer Flat.
From Exmex.Proofs Require Import Pev.
Open Scope nat_scope.

Lemma app_align {A} : forall (l0 la : list A) u v m n, l0 ++ u :: m = la ++ v :: n ->
  (l0 = la /\ u = v /\ m = n) \/ (exists k, la = l0 ++ u :: k /\ m = k ++ v :: n) \/ (exists k, l0 = la ++ v :: k /\ n = k ++ u :: m).
Proof.
  induction l0 as [|h l0 IH]; intros la u v m n H.
  - destruct la as [|h' la]; cbn in H.
    + inversion H; subst. left. auto.
    + inversion H; subst. right. left. exists la. auto.
  - destruct la as [|h' la]; cbn in H.
    + inversion H; subst. right. right. exists l0. auto.
    + inversion H as [[Hh Ht]]. subst h'. destruct (IH la u v m n Ht) as [(E1 & E2 & E3)|[(k & E1 & E2)|(k & E1 & E2)]].
      * left. subst. auto.
      * right. left. exists k. subst. auto.
      * right. right. exists k. subst. auto.
Qed.

Section PevFold.
Context {D : Type}.
Variable C : carrier D.
Variable R : D -> D -> Prop.
Hypothesis R_refl : forall a, R a a.
Hypothesis R_sym : forall a b, R a b -> R b a.
Hypothesis R_trans : forall a b c, R a b -> R b c -> R a c.
Hypothesis R_bin : forall k a a' b b', R a a' -> R b b' -> R (binf C k a b) (binf C k a' b').
Hypothesis R_un : forall k a a', R a a' -> R (unf C k a) (unf C k a').

Lemma R_apply_un' us a a' : R a a' -> R (apply_un C us a) (apply_un C us a').
Proof. intros H. induction us as [|u us IH]; cbn; [exact H|apply R_un; exact IH]. Qed.
Lemma R_apply_op o a a' b b' : R a a' -> R b b' -> R (apply_op C o a b) (apply_op C o a' b').
Proof. intros Ha Hb. unfold apply_op. apply R_apply_un'. apply R_bin; assumption. Qed.

(* precedence evaluation with enough fuel *)
Definition pv (x : D) (l : list (fop * D)) : D := pev C (length l) x l.

Lemma pv_nil x : pv x [] = x.
Proof. reflexivity. Qed.

Lemma pv_at_root x l1 o y l2 :
  (forall o' y', In (o', y') l1 -> (fprio o <= fprio o')%Z) ->
  (forall o' y', In (o', y') l2 -> (fprio o < fprio o')%Z) ->
  pv x (l1 ++ (o, y) :: l2) = apply_op C o (pv x l1) (pv y l2).
Proof.
  intros H1 H2. unfold pv. rewrite app_length. cbn [length].
  replace (length l1 + S (length l2)) with (S (length l1 + length l2)) by lia.
  rewrite (pev_at_root C _ x l1 o y l2 H1 H2). f_equal; apply pev_fuel; lia.
Qed.

Lemma root_split (l : list (fop * D)) : l <> [] ->
  exists la o y lb, l = la ++ (o, y) :: lb /\
    (forall o' y', In (o', y') la -> (fprio o <= fprio o')%Z) /\
    (forall o' y', In (o', y') lb -> (fprio o < fprio o')%Z).
Proof.
  intros Hne. destruct (root_idx_is_root l Hne) as (o & y & Hn & Hb & Ha).
  destruct (nth_error_split l _ Hn) as (la & lb & El & Hlen).
  exists la, o, y, lb. split; [exact El|]. split.
  - intros o' y' Hin. destruct (In_nth_error _ _ Hin) as [i Hi].
    assert (Hil : i < length la) by (apply nth_error_Some; congruence).
    apply (Hb i o' y'); [lia|]. rewrite El, nth_error_app1 by exact Hil. exact Hi.
  - intros o' y' Hin. destruct (In_nth_error _ _ Hin) as [i Hi].
    apply (Ha (S (length la + i)) o' y'); [lia|]. rewrite El, nth_error_app2 by lia.
    replace (S (length la + i) - length la) with (S i) by lia. exact Hi.
Qed.

(* the operator at the head of the rest, if any, does not bind tighter than o *)
Definition headle (l2 : list (fop * D)) (o : fop) : Prop :=
  match l2 with [] => True | (o', _) :: _ => (fprio o' <= fprio o)%Z end.

Lemma headle_prefix k v n o : headle (k ++ v :: n) o -> headle k o.
Proof. destruct k as [|[o' y'] k]; cbn; [trivial|exact (fun H => H)]. Qed.

(* the leftmost operator applied early *)
Lemma pv_fold_head : forall m x o b l2, length l2 <= m -> headle l2 o ->
  R (pv (apply_op C o x b) l2) (pv x ((o, b) :: l2)).
Proof.
  induction m as [|m IH]; intros x o b l2 Hlen Hh.
  - destruct l2; [|cbn in Hlen; lia]. apply R_refl.
  - destruct (root_split ((o, b) :: l2) ltac:(discriminate)) as (la & or & y & lb & El & Hla & Hlb).
    destruct la as [|h la'].
    + cbn in El. inversion El; subst or y lb.
      destruct l2 as [|[o' y'] l2']; [apply R_refl|]. cbn in Hh. specialize (Hlb o' y' (or_introl eq_refl)). lia.
    + cbn in El. inversion El as [[Hh' Hl2]]. subst h.
      change ((o, b) :: la' ++ (or, y) :: lb) with (((o, b) :: la') ++ (or, y) :: lb).
      rewrite (pv_at_root x ((o, b) :: la') or y lb Hla Hlb).
      rewrite (pv_at_root (apply_op C o x b) la' or y lb (fun o' y' H => Hla o' y' (or_intror H)) Hlb).
      apply R_apply_op; [|apply R_refl].
      apply IH; [rewrite Hl2, app_length in Hlen; cbn in Hlen; lia|].
      rewrite Hl2 in Hh. exact (headle_prefix _ _ _ _ Hh).
Qed.

(* an operator in the middle applied early *)
Lemma pv_fold_mid : forall m x l0 ol a o b l2, length l0 + length l2 < m -> headle l2 o ->
  ((fprio ol < fprio o)%Z \/
   (fprio ol = fprio o /\ forall u v w, R (apply_op C ol u (apply_op C o v w)) (apply_op C o (apply_op C ol u v) w))) ->
  R (pv x (l0 ++ (ol, apply_op C o a b) :: l2)) (pv x (l0 ++ (ol, a) :: (o, b) :: l2)).
Proof.
  induction m as [|m IH]; intros x l0 ol a o b l2 Hlen Hh Hleft; [lia|].
  - destruct (root_split (l0 ++ (ol, a) :: (o, b) :: l2) ltac:(destruct l0; discriminate)) as (la & or & y & lb & El & Hla & Hlb).
    destruct (app_align l0 la (ol, a) (or, y) ((o, b) :: l2) lb El) as [(E1 & E2 & E3)|[(k & E1 & E2)|(k & E1 & E2)]].
    + (* the left neighbour is the root *)
      subst la lb. inversion E2; subst or y.
      rewrite (pv_at_root x l0 ol a ((o, b) :: l2) Hla Hlb).
      rewrite (pv_at_root x l0 ol (apply_op C o a b) l2 Hla (fun o' y' H => Hlb o' y' (or_intror H))).
      apply R_apply_op; [apply R_refl|]. apply (pv_fold_head (length l2)); [lia|exact Hh].
    + destruct k as [|h k].
      * (* o itself is the root *)
        cbn in E2. inversion E2; subst or y lb. subst la.
        assert (Hge : (fprio o <= fprio ol)%Z) by (apply (Hla ol a); apply in_or_app; right; left; reflexivity).
        destruct Hleft as [Hlt|[Heq Hassoc]]; [lia|].
        destruct l2 as [|[o' y'] l2']; [|cbn in Hh; specialize (Hlb o' y' (or_introl eq_refl)); lia].
        replace (l0 ++ (ol, a) :: [(o, b)]) with ((l0 ++ [(ol, a)]) ++ [(o, b)]) by (rewrite <- app_assoc; reflexivity).
        rewrite (pv_at_root x (l0 ++ [(ol, a)]) o b [] Hla Hlb).
        assert (Hl0 : forall o' y', In (o', y') l0 -> (fprio ol <= fprio o')%Z).
        { intros o' y' Hin. rewrite Heq. apply (Hla o' y'). apply in_or_app. left. exact Hin. }
        rewrite (pv_at_root x l0 ol a [] Hl0 (fun _ _ H => match H with end)).
        rewrite (pv_at_root x l0 ol (apply_op C o a b) [] Hl0 (fun _ _ H => match H with end)).
        rewrite !pv_nil. apply Hassoc.
      * (* the root lies to the right *)
        cbn in E2. inversion E2 as [[Hh' Hl2]]. subst h la. subst l2.
        replace (l0 ++ (ol, a) :: (o, b) :: k ++ (or, y) :: lb) with ((l0 ++ (ol, a) :: (o, b) :: k) ++ (or, y) :: lb)
          by (rewrite <- app_assoc; reflexivity).
        rewrite (pv_at_root x (l0 ++ (ol, a) :: (o, b) :: k) or y lb Hla Hlb).
        replace (l0 ++ (ol, apply_op C o a b) :: k ++ (or, y) :: lb) with ((l0 ++ (ol, apply_op C o a b) :: k) ++ (or, y) :: lb)
          by (rewrite <- app_assoc; reflexivity).
        rewrite (pv_at_root x (l0 ++ (ol, apply_op C o a b) :: k) or y lb).
        -- apply R_apply_op; [|apply R_refl]. apply IH; [rewrite app_length in Hlen; cbn in Hlen; lia| |exact Hleft].
           exact (headle_prefix _ _ _ _ Hh).
        -- intros o' y' Hin. apply in_app_or in Hin. destruct Hin as [Hin|[Hin|Hin]].
           ++ apply (Hla o' y'). apply in_or_app. left. exact Hin.
           ++ inversion Hin; subst o' y'. apply (Hla ol a). apply in_or_app. right. left. reflexivity.
           ++ apply (Hla o' y'). apply in_or_app. right. right. right. exact Hin.
        -- exact Hlb.
    + (* the root lies to the left *)
      subst l0 lb.
      rewrite <- !app_assoc. cbn [app].
      rewrite (pv_at_root x la or y (k ++ (ol, a) :: (o, b) :: l2) Hla Hlb).
      rewrite (pv_at_root x la or y (k ++ (ol, apply_op C o a b) :: l2) Hla).
      * apply R_apply_op; [apply R_refl|]. apply IH; [rewrite app_length in Hlen; cbn in Hlen; lia|exact Hh|exact Hleft].
      * intros o' y' Hin. apply in_app_or in Hin. destruct Hin as [Hin|[Hin|Hin]].
        -- apply (Hlb o' y'). apply in_or_app. left. exact Hin.
        -- inversion Hin; subst o' y'. apply (Hlb ol a). apply in_or_app. right. left. reflexivity.
        -- apply (Hlb o' y'). apply in_or_app. right. right. right. exact Hin.
Qed.
End PevFold.
