(* Proofs/Unparse.v — what a deep expression prints (deep.rs:120 unparse_raw), at the level of tokens: the printed text is
   the concatenation of the texts of a token list; that token list is the rendering of a surface tree whose reference
   value is the denotation of the expression.  Hence (C03) parsing the printed tokens gives an expression over the names
   that occur, with the same value at every assignment.  (That the tokenizer maps the printed text back to these tokens is
   left to the correspondence.) *)
From Coq Require Import List Arith Lia Bool ZArith.
Import ListNotations.
From Exmex.Model Require Import Base EvalBinary Lexer Flat Deep.
From Exmex.Spec Require Import RefSem.
From Exmex.Proofs Require Import Vars DeepVars Pev PevFold DeepSem DeepSubs C11Main DeepParse C03Main FlSem WalkSim Accept.
Open Scope nat_scope.

Section Unparse.
Context {D : Type}.
Variable C : carrier D.
Variable tb : optable.

(* ---- the printed tokens ---- *)
Definition tok_text (t : token D) : str :=
  match t with
  | TNum d => show C d | TVar x => LBRACE :: x ++ [RBRACE] | TOp k => repr_of tb k | TOpen => [LPAR] | TClose => [RPAR]
  end.
Definition render (ts : list (token D)) : str := flat_map tok_text ts.
Lemma render_app a b : render (a ++ b) = render a ++ render b.
Proof. unfold render. apply flat_map_app. Qed.

Fixpoint utoks (e : deepex D) : list (token D) :=
  match e with
  | DE nodes bops uop _ =>
      flat_map (fun k => [TOp k; TOpen]) uop ++
      (match nodes with
       | [] => []
       | n0 :: ntl =>
           (match n0 with
            | DNum d => [TNum d] | DVar _ x => [TVar x]
            | DExpr e' => match duop e' with [] => TOpen :: utoks e' ++ [TClose] | _ => utoks e' end
            end) ++
           (fix go (l : list (dnode D)) (ops : list dbop) : list (token D) :=
              match l, ops with
              | n :: tl, o :: otl =>
                  TOp (bidx o) ::
                  (match n with
                   | DNum d => [TNum d] | DVar _ x => [TVar x]
                   | DExpr e' => match duop e' with [] => TOpen :: utoks e' ++ [TClose] | _ => utoks e' end
                   end) ++ go tl otl
              | _, _ => []
              end) ntl bops
       end) ++ repeat TClose (length uop)
  end.
Definition ntoks (n : dnode D) : list (token D) :=
  match n with
  | DNum d => [TNum d] | DVar _ x => [TVar x]
  | DExpr e' => match duop e' with [] => TOpen :: utoks e' ++ [TClose] | _ => utoks e' end
  end.
Fixpoint rtoks (l : list (dnode D)) (ops : list dbop) : list (token D) :=
  match l, ops with n :: tl, o :: otl => TOp (bidx o) :: ntoks n ++ rtoks tl otl | _, _ => [] end.
Definition body_toks (nodes : list (dnode D)) (bops : list dbop) : list (token D) :=
  match nodes with [] => [] | n0 :: ntl => ntoks n0 ++ rtoks ntl bops end.
Lemma utoks_unfold nodes bops uop vars :
  utoks (DE nodes bops uop vars) = flat_map (fun k => [TOp k; TOpen]) uop ++ body_toks nodes bops ++ repeat TClose (length uop).
Proof.
  destruct nodes as [|n0 ntl]; [reflexivity|]. cbn [utoks body_toks].
  match goal with |- _ ++ (_ ++ ?F ntl bops) ++ _ = _ => assert (E : forall l ops, F l ops = rtoks l ops) end.
  { induction l as [|n tl IH]; intros ops; [reflexivity|]. destruct ops as [|o otl]; [reflexivity|]. simpl. rewrite IH. destruct n; reflexivity. }
  rewrite E. destruct n0; reflexivity.
Qed.

(* ---- unparse prints these tokens ---- *)
Definition node_str (n : dnode D) : option str :=
  match n with
  | DNum d => Some (show C d)
  | DVar _ x => Some (LBRACE :: x ++ [RBRACE])
  | DExpr e' => match unparse C tb e' with
                | Some s => Some (match duop e' with [] => LPAR :: s ++ [RPAR] | _ => s end)
                | None => None
                end
  end.
Fixpoint go_str (l : list (dnode D)) (ops : list dbop) (acc : str) : option str :=
  match l with
  | [] => Some acc
  | n :: tl => match ops, node_str n with
               | o :: otl, Some s => go_str tl otl (acc ++ repr_of tb (bidx o) ++ s)
               | _, _ => None
               end
  end.
Lemma unparse_unfold nodes bops uop vars :
  unparse C tb (DE nodes bops uop vars) =
  match nodes with
  | [] => None
  | n0 :: ntl =>
      match node_str n0 with
      | None => None
      | Some s0 =>
          match go_str ntl bops s0 with
          | None => None
          | Some body => Some (match uop with [] => body | _ => flat_map (fun k => repr_of tb k ++ [LPAR]) uop ++ body ++ repeat RPAR (length uop) end)
          end
      end
  end.
Proof.
  cbn [unparse]. destruct nodes as [|n0 ntl]; [reflexivity|].
  change (match n0 with DNum d => Some (show C d) | DVar _ x => Some (LBRACE :: x ++ [RBRACE])
          | DExpr e' => match unparse C tb e' with Some s => Some (match duop e' with [] => LPAR :: s ++ [RPAR] | _ => s end) | None => None end end) with (node_str n0).
  destruct (node_str n0) as [s0|]; [|reflexivity].
  match goal with |- match ?F ntl bops s0 with _ => _ end = _ => assert (E : forall l ops acc, F l ops acc = go_str l ops acc) end.
  { induction l as [|n tl IH]; intros ops acc; [reflexivity|]. cbn [go_str]. destruct ops as [|o otl]; [destruct n; reflexivity|].
    change (match n with DNum d => Some (show C d) | DVar _ x => Some (LBRACE :: x ++ [RBRACE])
            | DExpr e' => match unparse C tb e' with Some s => Some (match duop e' with [] => LPAR :: s ++ [RPAR] | _ => s end) | None => None end end) with (node_str n).
    destruct (node_str n); [apply IH|reflexivity]. }
  rewrite E. reflexivity.
Qed.

Section Structure.
(* operand counts at every level *)
Variable okop : dbop -> Prop.
Variable okvar : nat -> str -> Prop.
Variable okvars : list str -> Prop.
Lemma render_close n : render (repeat TClose n) = repeat RPAR n.
Proof. induction n as [|n IH]; [reflexivity|]. cbn [repeat render flat_map tok_text app]. unfold render in IH. rewrite IH. reflexivity. Qed.
Lemma render_open us : render (flat_map (fun k => [TOp k; TOpen]) us) = flat_map (fun k => repr_of tb k ++ [LPAR]) us.
Proof.
  induction us as [|u us IH]; [reflexivity|]. cbn [flat_map]. rewrite render_app, IH. unfold render. cbn [flat_map tok_text app].
  rewrite ?app_nil_r, <- ?app_assoc. reflexivity.
Qed.
Theorem unparse_is_render : forall e, dwf okop okvar okvars e -> unparse C tb e = Some (render (utoks e)).
Proof.
  induction e as [nodes bops uop vars IH] using deep_ind. intros Hwf. rewrite dwf_unfold in Hwf. destruct Hwf as (Hlen & _ & _ & Hn).
  assert (Hnode : forall n, In n nodes -> node_str n = Some (render (ntoks n))).
  { intros n Hin. rewrite Forall_forall in Hn. specialize (Hn n Hin). destruct n as [e'|d|i x]; cbn [node_str ntoks nwf] in *.
    - rewrite (IH e' Hin Hn). destruct (duop e'); [|reflexivity]. change (TOpen :: utoks e' ++ [TClose]) with ([TOpen] ++ utoks e' ++ [TClose]). rewrite !render_app. reflexivity.
    - unfold render. cbn [flat_map tok_text]. rewrite ?app_nil_r. reflexivity.
    - unfold render. cbn [flat_map tok_text]. rewrite ?app_nil_r. reflexivity. }
  rewrite unparse_unfold, utoks_unfold. destruct nodes as [|n0 ntl]; [cbn in Hlen; discriminate|].
  rewrite (Hnode n0 (or_introl eq_refl)).
  assert (Hgo : forall l ops acc, length l = length ops -> (forall n, In n l -> node_str n = Some (render (ntoks n))) ->
            go_str l ops acc = Some (acc ++ render (rtoks l ops))).
  { induction l as [|n tl IHl]; intros ops acc Hl Hs; [cbn; rewrite app_nil_r; reflexivity|].
    destruct ops as [|o otl]; [discriminate|]. cbn [go_str rtoks]. rewrite (Hs n (or_introl eq_refl)).
    rewrite (IHl otl _ ltac:(cbn in Hl; lia) (fun m Hm => Hs m (or_intror Hm))).
    f_equal. change (TOp (bidx o) :: ntoks n ++ rtoks tl otl) with ([TOp (bidx o)] ++ ntoks n ++ rtoks tl otl).
    rewrite !render_app. change (render [TOp (bidx o)]) with (repr_of tb (bidx o) ++ []). rewrite ?app_nil_r, <- ?app_assoc. reflexivity. }
  rewrite (Hgo ntl bops _ ltac:(cbn in Hlen; lia) (fun m Hm => Hnode m (or_intror Hm))).
  f_equal. cbn [body_toks]. destruct uop as [|u us].
  - cbn [flat_map length repeat app]. rewrite app_nil_r, render_app. reflexivity.
  - rewrite !render_app, render_open, render_close. reflexivity.
Qed.
End Structure.

(* ---- the surface tree of a deep expression ---- *)
Fixpoint wrapu (us : list nat) (a0 : atom (D:=D)) (rest : list (nat * atom (D:=D))) : atom (D:=D) :=
  match us with
  | [] => AGroup [] a0 rest
  | u :: us' => match us' with [] => AGroup [u] a0 rest | _ => AGroup [u] (wrapu us' a0 rest) [] end
  end.
Fixpoint eatom (e : deepex D) : atom (D:=D) :=
  match e with
  | DE nodes bops uop _ =>
      match nodes with
      | [] => wrapu uop (ALeaf [] (LNum (dflt C))) []
      | n0 :: ntl =>
          wrapu uop
            (match n0 with DNum d => ALeaf [] (LNum d) | DVar _ x => ALeaf [] (LVar x) | DExpr e' => eatom e' end)
            ((fix go (l : list (dnode D)) (ops : list dbop) : list (nat * atom (D:=D)) :=
                match l, ops with
                | n :: tl, o :: otl =>
                    (bidx o, match n with DNum d => ALeaf [] (LNum d) | DVar _ x => ALeaf [] (LVar x) | DExpr e' => eatom e' end) :: go tl otl
                | _, _ => []
                end) ntl bops)
      end
  end.
Definition natom (n : dnode D) : atom (D:=D) :=
  match n with DNum d => ALeaf [] (LNum d) | DVar _ x => ALeaf [] (LVar x) | DExpr e' => eatom e' end.
Fixpoint rrest (l : list (dnode D)) (ops : list dbop) : list (nat * atom (D:=D)) :=
  match l, ops with n :: tl, o :: otl => (bidx o, natom n) :: rrest tl otl | _, _ => [] end.
Lemma eatom_unfold n0 ntl bops uop vars : eatom (DE (n0 :: ntl) bops uop vars) = wrapu uop (natom n0) (rrest ntl bops).
Proof.
  cbn [eatom].
  match goal with |- wrapu uop _ (?F ntl bops) = _ => assert (E : forall l ops, F l ops = rrest l ops) end.
  { induction l as [|n tl IH]; intros ops; [reflexivity|]. destruct ops as [|o otl]; [reflexivity|]. simpl. rewrite IH. destruct n; reflexivity. }
  rewrite E. destruct n0; reflexivity.
Qed.
Definition chain_of (e : deepex D) : chain (D:=D) :=
  match e with
  | DE (n0 :: ntl) bops [] _ => (natom n0, rrest ntl bops)
  | _ => (eatom e, [])
  end.

(* rendering *)
Lemma flatten_wrapu us a0 rest :
  flatten_atom (wrapu us a0 rest) =
  match us with
  | [] => TOpen :: flatten_atom a0 ++ flatten_rest rest ++ [TClose]
  | _ => flat_map (fun k => [TOp k; TOpen]) us ++ flatten_atom a0 ++ flatten_rest rest ++ repeat TClose (length us)
  end.
Proof.
  induction us as [|u us IH]; [cbn [wrapu]; rewrite flatten_atom_group; reflexivity|].
  cbn [wrapu]. destruct us as [|u2 us2].
  - rewrite flatten_atom_group. cbn. rewrite <- ?app_assoc. reflexivity.
  - rewrite flatten_atom_group, IH. set (m := u2 :: us2). cbn [map flatten_rest app].
    change (flat_map (fun k : nat => [@TOp D k; TOpen]) (u :: m)) with ([@TOp D u; TOpen] ++ flat_map (fun k : nat => [@TOp D k; TOpen]) m).
    change (length (u :: m)) with (S (length m)). rewrite <- !app_assoc. cbn [app]. do 2 f_equal. do 3 f_equal.
    change (TClose :: nil) with (repeat (@TClose D) 1). rewrite <- repeat_app. f_equal. lia.
Qed.

Section Tree.
Variable okop : dbop -> Prop.
Variable okvar : nat -> str -> Prop.
Variable okvars : list str -> Prop.
Theorem utoks_is_flatten : forall e, dwf okop okvar okvars e ->
  flatten_atom (eatom e) = (match duop e with [] => TOpen :: utoks e ++ [TClose] | _ => utoks e end) /\
  flatten (chain_of e) = utoks e.
Proof.
  induction e as [nodes bops uop vars IH] using deep_ind. intros Hwf. rewrite dwf_unfold in Hwf. destruct Hwf as (Hlen & _ & _ & Hn).
  assert (Hnode : forall n, In n nodes -> flatten_atom (natom n) = ntoks n).
  { intros n Hin. rewrite Forall_forall in Hn. specialize (Hn n Hin). destruct n as [e'|d|i x]; cbn [natom ntoks nwf] in *; try reflexivity.
    exact (proj1 (IH e' Hin Hn)). }
  destruct nodes as [|n0 ntl]; [cbn in Hlen; discriminate|].
  assert (Hrest : forall l ops, (forall n, In n l -> flatten_atom (natom n) = ntoks n) -> flatten_rest (rrest l ops) = rtoks l ops).
  { induction l as [|n tl IHl]; intros ops Hs; [reflexivity|]. destruct ops as [|o otl]; [reflexivity|].
    cbn [rrest flatten_rest rtoks]. rewrite (Hs n (or_introl eq_refl)), (IHl otl (fun m Hm => Hs m (or_intror Hm))). reflexivity. }
  assert (Hbody : flatten_atom (natom n0) ++ flatten_rest (rrest ntl bops) = body_toks (n0 :: ntl) bops).
  { cbn [body_toks]. rewrite (Hnode n0 (or_introl eq_refl)), (Hrest ntl bops (fun m Hm => Hnode m (or_intror Hm))). reflexivity. }
  rewrite eatom_unfold, flatten_wrapu, utoks_unfold. cbn [duop]. split.
  - destruct uop as [|u us].
    + cbn [flat_map length repeat app]. rewrite app_nil_r, <- Hbody, <- app_assoc. reflexivity.
    + rewrite <- Hbody, <- !app_assoc. reflexivity.
  - unfold chain_of. destruct uop as [|u us].
    + unfold flatten. cbn [fst snd flat_map length repeat app]. rewrite app_nil_r. exact Hbody.
    + unfold flatten. cbn [fst snd flatten_rest]. rewrite app_nil_r, eatom_unfold, flatten_wrapu, <- Hbody, <- !app_assoc. reflexivity.
Qed.
End Tree.

(* ---- well-formedness of the tree: binary operators from the table, unary operators unary ---- *)
Fixpoint uok (e : deepex D) : Prop :=
  match e with
  | DE nodes _ uop _ =>
      forallb (is_un tb) uop = true /\
      (fix all (l : list (dnode D)) : Prop := match l with [] => True | n :: tl => (match n with DExpr c => uok c | _ => True end) /\ all tl end) nodes
  end.
Definition nuok (n : dnode D) : Prop := match n with DExpr c => uok c | _ => True end.
Lemma uok_unfold nodes bops uop vars : uok (DE nodes bops uop vars) <-> forallb (is_un tb) uop = true /\ Forall nuok nodes.
Proof.
  cbn [uok].
  assert (H : (fix all (l : list (dnode D)) : Prop := match l with [] => True | n :: tl => (match n with DExpr c => uok c | _ => True end) /\ all tl end) nodes <-> Forall nuok nodes).
  { induction nodes as [|n tl IH]; [split; [constructor|trivial]|]. split.
    - intros [H1 H2]. constructor; [exact H1|apply IH; exact H2].
    - intros H. inversion H; subst. split; [assumption|apply IH; assumption]. }
  rewrite H. reflexivity.
Qed.
Lemma wf_wrapu us a0 rest : forallb (is_un tb) us = true -> wf_atom tb a0 = true -> wf_rest tb rest = true -> wf_atom tb (wrapu us a0 rest) = true.
Proof.
  intros Hu Ha Hr. induction us as [|u us IH]; [cbn [wrapu]; rewrite wf_group, Ha, Hr; reflexivity|].
  cbn [forallb] in Hu. apply andb_prop in Hu. destruct Hu as [Hu1 Hu2]. cbn [wrapu]. destruct us as [|u2 us2].
  - rewrite wf_group. cbn [forallb]. rewrite Hu1, Ha, Hr. reflexivity.
  - rewrite wf_group. cbn [forallb wf_rest]. rewrite Hu1, (IH Hu2). reflexivity.
Qed.
Section WfTree.
Variable okvar : nat -> str -> Prop.
Variable okvars : list str -> Prop.
Theorem chain_of_wf : forall e, dwf (flagged tb) okvar okvars e -> uok e -> wf_atom tb (eatom e) = true /\ wf_chain tb (chain_of e) = true.
Proof.
  induction e as [nodes bops uop vars IH] using deep_ind. intros Hwf Hu. rewrite dwf_unfold in Hwf. destruct Hwf as (Hlen & _ & Hf & Hn).
  rewrite uok_unfold in Hu. destruct Hu as [Hu1 Hu2].
  assert (Hnode : forall n, In n nodes -> wf_atom tb (natom n) = true).
  { intros n Hin. rewrite Forall_forall in Hn, Hu2. specialize (Hn n Hin). specialize (Hu2 n Hin).
    destruct n as [e'|d|i x]; cbn [natom nwf nuok] in *; try reflexivity. exact (proj1 (IH e' Hin Hn Hu2)). }
  destruct nodes as [|n0 ntl]; [cbn in Hlen; discriminate|].
  assert (Hrest : forall l ops, (forall n, In n l -> wf_atom tb (natom n) = true) -> (forall o, In o ops -> flagged tb o) -> wf_rest tb (rrest l ops) = true).
  { induction l as [|n tl IHl]; intros ops Hs Ho; [reflexivity|]. destruct ops as [|o otl]; [reflexivity|].
    cbn [rrest wf_rest]. rewrite (proj2 (proj2 (from_table_entry tb o (Ho o (or_introl eq_refl))))), (Hs n (or_introl eq_refl)).
    rewrite (IHl otl (fun m Hm => Hs m (or_intror Hm)) (fun o' Ho' => Ho o' (or_intror Ho'))). reflexivity. }
  pose proof (Hrest ntl bops (fun m Hm => Hnode m (or_intror Hm)) Hf) as Hr.
  pose proof (Hnode n0 (or_introl eq_refl)) as H0.
  assert (Ha : wf_atom tb (eatom (DE (n0 :: ntl) bops uop vars)) = true) by (rewrite eatom_unfold; apply wf_wrapu; assumption).
  split; [exact Ha|]. unfold chain_of, wf_chain. destruct uop; cbn [fst snd wf_rest]; [rewrite H0, Hr|rewrite Ha]; reflexivity.
Qed.
End WfTree.

(* ---- the reference value of the tree is the denotation, variables by name ---- *)
Section TreeValue.
Variable vars : list str.
Variable vals : list D.
Definition look_name : nat -> str -> D := fun _ x => nth (var_pos vars x) vals (dflt C).
Variable okvar : nat -> str -> Prop.
Variable okvars : list str -> Prop.
Lemma ref_wrapu us a0 rest :
  ref_atom C tb vars vals (wrapu us a0 rest) = apply_un C us (prec C tb (length rest) (ref_atom C tb vars vals a0) (ref_rest C tb vars vals rest)).
Proof.
  induction us as [|u us IH]; [cbn [wrapu]; apply ref_atom_group|].
  cbn [wrapu]. destruct us as [|u2 us2]; [apply ref_atom_group|].
  rewrite ref_atom_group, IH. reflexivity.
Qed.
Lemma from_table_dop (o : dbop) : flagged tb o -> dop tb (bidx o) = o.
Proof.
  intros H. destruct (from_table_entry tb o H) as (H1 & H2 & _). destruct o as [p i c]. unfold dop. cbn [bidx bprio bcomm] in *. rewrite H1, H2. reflexivity.
Qed.
Theorem tree_value : forall e, dwf (flagged tb) okvar okvars e ->
  ref_atom C tb vars vals (eatom e) = dden C look_name e /\ ref_chain C tb vars vals (chain_of e) = dden C look_name e.
Proof.
  induction e as [nodes bops uop vs IH] using deep_ind. intros Hwf. rewrite dwf_unfold in Hwf. destruct Hwf as (Hlen & _ & Hf & Hn).
  assert (Hnode : forall n, In n nodes -> ref_atom C tb vars vals (natom n) = nden C look_name n).
  { intros n Hin. rewrite Forall_forall in Hn. specialize (Hn n Hin). destruct n as [e'|d|i x]; cbn [natom nden nwf] in *; try reflexivity.
    exact (proj1 (IH e' Hin Hn)). }
  destruct nodes as [|n0 ntl]; [cbn in Hlen; discriminate|].
  assert (Hrest : forall l ops, length l = length ops -> (forall n, In n l -> ref_atom C tb vars vals (natom n) = nden C look_name n) ->
            (forall o, In o ops -> flagged tb o) ->
            map snd (ref_rest C tb vars vals (rrest l ops)) = map (nden C look_name) l /\
            map (dop tb) (map fst (ref_rest C tb vars vals (rrest l ops))) = ops).
  { induction l as [|n tl IHl]; intros ops Hl Hs Ho; [destruct ops; [split; reflexivity|discriminate]|].
    destruct ops as [|o otl]; [discriminate|]. cbn [rrest ref_rest map fst snd].
    destruct (IHl otl ltac:(cbn in Hl; lia) (fun m Hm => Hs m (or_intror Hm)) (fun o' Ho' => Ho o' (or_intror Ho'))) as [E1 E2].
    rewrite E1, E2, (Hs n (or_introl eq_refl)), (from_table_dop o (Ho o (or_introl eq_refl))). split; reflexivity. }
  destruct (Hrest ntl bops ltac:(cbn in Hlen; lia) (fun m Hm => Hnode m (or_intror Hm)) Hf) as [E1 E2].
  assert (Hlevel : prec C tb (length (rrest ntl bops)) (ref_atom C tb vars vals (natom n0)) (ref_rest C tb vars vals (rrest ntl bops)) =
                   level_val C (map (nden C look_name) (n0 :: ntl)) bops).
  { rewrite <- (ref_rest_length C tb vars vals (rrest ntl bops)).
    rewrite <- (level_val_prec C tb [] [] eq_refl). cbn [map]. rewrite E1, E2, (Hnode n0 (or_introl eq_refl)). reflexivity. }
  rewrite dden_unfold. split.
  - rewrite eatom_unfold, ref_wrapu, Hlevel. reflexivity.
  - unfold chain_of. destruct uop as [|u us].
    + unfold ref_chain. cbn [fst snd]. rewrite Hlevel. reflexivity.
    + unfold ref_chain. cbn [fst snd length ref_rest]. rewrite eatom_unfold, ref_wrapu, Hlevel. reflexivity.
Qed.
End TreeValue.

(* ---- printing and parsing back ---- *)
Section RoundTrip.
Variable R : D -> D -> Prop.
Hypothesis R_refl : forall a, R a a.
Hypothesis R_sym : forall a b, R a b -> R b a.
Hypothesis R_trans : forall a b c, R a b -> R b c -> R a c.
Hypothesis R_bin : forall k a a' b b', R a a' -> R b b' -> R (binf C k a b) (binf C k a' b').
Hypothesis R_un : forall k a a', R a a' -> R (unf C k a) (unf C k a').
Hypothesis table_assoc : forall o, comm_of tb o = true -> forall a b c, R (binf C o (binf C o a b) c) (binf C o a (binf C o b c)).

Theorem print_parse_tokens (okvar : nat -> str -> Prop) (okvars : list str -> Prop) (e : deepex D) :
  dwf (flagged tb) okvar okvars e -> uok e ->
  unparse C tb e = Some (render (utoks e)) /\
  forall vals, length vals = length (find_parsed_vars (utoks e)) ->
  exists e' v, parse_deep_tokens C tb (utoks e) = Ok e' /\ dvars e' = find_parsed_vars (utoks e) /\
               eval_deep C e' vals = Ok v /\ R v (dden C (look_name (find_parsed_vars (utoks e)) vals) e).
Proof.
  intros Hwf Hu. split; [exact (unparse_is_render (flagged tb) okvar okvars e Hwf)|].
  intros vals Hl. destruct (utoks_is_flatten (flagged tb) okvar okvars e Hwf) as [_ Hfl].
  destruct (chain_of_wf okvar okvars e Hwf Hu) as [_ Hwc].
  rewrite <- Hfl in *.
  destruct (deep_parse_is_reference C tb R R_refl R_sym R_trans R_bin R_un table_assoc (chain_of e) vals Hwc Hl) as (e' & v & Hp & Hv & He & Hr).
  exists e', v. split; [unfold parse_deep_tokens; rewrite (rendering_accepted tb (chain_of e) Hwc); cbn [bind]; rewrite Hp; reflexivity|].
  split; [exact Hv|]. split; [exact He|].
  rewrite (proj2 (tree_value (find_parsed_vars (flatten (chain_of e))) vals okvar okvars e Hwf)) in Hr. exact Hr.
Qed.

(* when every listed variable occurs in the printed text: the same variables, the same value at every assignment *)
Theorem print_parse_same (e : deepex D) :
  dindexed (flagged tb) (dvars e) e -> uok e -> dvars e = find_parsed_vars (utoks e) ->
  exists e', parse_deep_tokens C tb (utoks e) = Ok e' /\ dvars e' = dvars e /\
    forall vals, length vals = length (dvars e) ->
    exists v v', eval_deep C e vals = Ok v /\ eval_deep C e' vals = Ok v' /\ R v' v.
Proof.
  intros Hi Hu Hv. pose proof Hi as [Hwf _].
  destruct (print_parse_tokens _ _ e Hwf Hu) as [_ Hp].
  destruct (Hp (map (fun _ => dflt C) (dvars e)) ltac:(rewrite map_length, Hv; reflexivity)) as (e' & _ & He' & Hd' & _ & _).
  exists e'. split; [exact He'|]. split; [congruence|]. intros vals Hl.
  destruct (Hp vals ltac:(rewrite <- Hv; exact Hl)) as (e'' & v' & He'' & _ & Hev & Hr). rewrite He' in He''. inversion He''; subst e''.
  destruct (eval_consistent C R R_refl R_sym R_trans R_bin R_un (flagged tb) (flagged_op_assoc C tb R table_assoc) (dvars e) vals e Hi Hl) as (v & Ev & Rv).
  exists v, v'. split; [exact Ev|]. split; [exact Hev|].
  eapply R_trans; [exact Hr|]. apply R_sym. rewrite <- Hv.
  assert (E : dden C (look_name (dvars e) vals) e = dden C (nlook (env_of C (dvars e) vals)) e).
  { change (look_name (dvars e) vals) with (nlook (fun x => nth (var_pos (dvars e) x) vals (dflt C))).
    apply (ddenN_ext C (flagged tb) (dvars e)); [|exact (dindexed_closed (flagged tb) _ _ Hi)].
    intros x Hx. unfold env_of, var_pos. destruct (index_of_complete x (dvars e) 0 Hx) as [j Hj]. rewrite Hj. reflexivity. }
  rewrite E. exact Rv.
Qed.
End RoundTrip.
End Unparse.
