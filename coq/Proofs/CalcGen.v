(* Proofs/CalcGen.v — the overloaded arithmetic operators of deep expressions with their neutral-element shortcuts, for
   EVERY data type and table: if the table has + - * / ^ as binary operators and the data type satisfies, modulo the
   relation R, the laws the shortcuts use (0 neutral for +, 1 neutral and 0 absorbing for *, 0/x = 0, x/1 = x, x^0 = 1,
   x^1 = x; its equality test answers true only on R-related values), then each operator, when it succeeds on
   expressions in compile normal form whose names lie in their variable lists, yields such an expression over the sorted
   union of the variables whose value at every assignment is R-related to the operation of the table applied to the
   operands' values (for the power with a literal zero base: R-related to zero). *)
From Coq Require Import List Arith Lia Bool Sorted.
Import ListNotations.
From Exmex.Model Require Import Base EvalBinary Lexer Flat Deep Convert Calc.
From Exmex.Spec Require Import RefSem.
From Exmex.Proofs Require Import Vars DeepVars Pev PevFold DeepSem DeepCompile DeepSubs C11Main DeepOps NormalForm.
Open Scope nat_scope.

Section CalcGen.
Context {D : Type}.
Variable C : carrier D.
Variable DC : dcarrier D.
Variable tb : optable.
Variable R : D -> D -> Prop.
Hypothesis R_refl : forall a, R a a.
Hypothesis R_sym : forall a b, R a b -> R b a.
Hypothesis R_trans : forall a b c, R a b -> R b c -> R a c.
Hypothesis R_bin : forall k a a' b b', R a a' -> R b b' -> R (binf C k a b) (binf C k a' b').
Hypothesis R_un : forall k a a', R a a' -> R (unf C k a) (unf C k a').
Hypothesis table_assoc : forall k, comm_of tb k = true -> forall a b c, R (binf C k (binf C k a b) c) (binf C k a (binf C k b c)).
(* the five names *)
Variables kadd ksub kmul kdiv kpow : nat.
Hypothesis f_add : find_op s_plus tb 0 = Some kadd.   Hypothesis b_add : is_bin tb kadd = true.
Hypothesis f_sub : find_op s_minus tb 0 = Some ksub.  Hypothesis b_sub : is_bin tb ksub = true.
Hypothesis f_mul : find_op s_mul tb 0 = Some kmul.    Hypothesis b_mul : is_bin tb kmul = true.
Hypothesis f_div : find_op s_div tb 0 = Some kdiv.    Hypothesis b_div : is_bin tb kdiv = true.
Hypothesis f_pow : find_op s_pow tb 0 = Some kpow.    Hypothesis b_pow : is_bin tb kpow = true.
(* the laws the shortcuts use *)
Local Notation zero := (dc_zero DC). Local Notation one := (dc_one DC).
Hypothesis eqb_sound : forall a b, dc_eqb DC a b = true -> R a b.
Hypothesis add_0_l : forall a, R (binf C kadd zero a) a.
Hypothesis add_0_r : forall a, R (binf C kadd a zero) a.
Hypothesis mul_1_l : forall a, R (binf C kmul one a) a.
Hypothesis mul_1_r : forall a, R (binf C kmul a one) a.
Hypothesis mul_0_l : forall a, R (binf C kmul zero a) zero.
Hypothesis mul_0_r : forall a, R (binf C kmul a zero) zero.
Hypothesis div_0_l : forall a, R (binf C kdiv zero a) zero.
Hypothesis div_1_r : forall a, R (binf C kdiv a one) a.
Hypothesis pow_0_r : forall a, R (binf C kpow a zero) one.
Hypothesis pow_1_r : forall a, R (binf C kpow a one) a.

Local Notation tfl := (tflagged tb).
Local Notation ddenN rho := (dden C (nlook rho)).
Definition Wg (a : deepex D) : Prop := dclosed tfl (dvars a) a /\ nf a.

Lemma In_sorted' l y : In y (sort_strs l) <-> In y l.
Proof. apply sort_strs_spec. Qed.
Lemma incl_l a b : incl a (sort_strs (a ++ b)).
Proof. intros y Hy. apply In_sorted'. apply in_or_app. left. exact Hy. Qed.
Lemma incl_r a b : incl b (sort_strs (a ++ b)).
Proof. intros y Hy. apply In_sorted'. apply in_or_app. right. exact Hy. Qed.

Theorem op_bin_gen name k a b r : find_op name tb 0 = Some k -> is_bin tb k = true -> Wg a -> Wg b ->
  operate_bin C tb a b name = Ok r ->
  Wg r /\ dvars r = sort_strs (dvars a ++ dvars b) /\ forall rho, R (ddenN rho r) (binf C k (ddenN rho a) (ddenN rho b)).
Proof.
  intros Hf Hb [Ca Na] [Cb Nb] H.
  destruct (operate_bin_ok C tb R R_refl R_sym R_trans R_bin R_un table_assoc a b name k Hf Hb Ca Cb) as (e & He & Hc & Hd).
  rewrite H in He. inversion He; subst e. pose proof (dconsistent_vars _ _ _ Hc) as Hv.
  split; [split; [rewrite Hv; apply dconsistent_closed; exact Hc|exact (operate_bin_nf C tb a b r name Na Nb H)]|].
  split; [exact Hv|exact Hd].
Qed.
Theorem union_gen a b a' b' : Wg a -> Wg b -> var_names_union a b = Ok (a', b') ->
  let all := sort_strs (dvars a ++ dvars b) in
  Wg a' /\ Wg b' /\ dvars a' = all /\ dvars b' = all /\ (forall rho, ddenN rho a' = ddenN rho a) /\ (forall rho, ddenN rho b' = ddenN rho b).
Proof.
  intros [Ca Na] [Cb Nb] H all. unfold var_names_union, union_names in H. fold all in H.
  destruct (reset_vars_ok C tfl all a (dclosed_mono tfl _ _ a (incl_l _ _) Ca)) as (a1 & Ea & Ha1 & Da).
  destruct (reset_vars_ok C tfl all b (dclosed_mono tfl _ _ b (incl_r _ _) Cb)) as (b1 & Eb & Hb1 & Db).
  rewrite Ea in H. cbn [bind] in H. rewrite Eb in H. cbn [bind] in H. inversion H; subst a1 b1.
  pose proof (dconsistent_vars _ _ _ Ha1) as Va. pose proof (dconsistent_vars _ _ _ Hb1) as Vb.
  repeat split; try assumption.
  - rewrite Va. apply dconsistent_closed. exact Ha1.
  - exact (proj1 (reset_vars_nf all a a' Na Ea)).
  - rewrite Vb. apply dconsistent_closed. exact Hb1.
  - exact (proj1 (reset_vars_nf all b b' Nb Eb)).
Qed.
Lemma const_Wg (d : D) vars : Wg (DE [DNum d] [] [] vars).
Proof.
  split.
  - unfold dclosed. rewrite dwf_unfold. split; [reflexivity|]. split; [exact I|]. split; [intros o []|constructor; [exact I|constructor]].
  - rewrite nf_unfold. split; [reflexivity|constructor; [exact I|constructor]].
Qed.
Theorem is_num_gen e num : Wg e -> is_num C DC e num = true -> forall rho, R (ddenN rho e) num.
Proof.
  intros [Ce Ne] H rho. destruct (is_num_shape C DC e num Ne H) as (d & bops & uop & vars & -> & Hd).
  apply eqb_sound in Hd. rewrite dden_unfold. cbn [map nden level_val]. rewrite combine_nil. rewrite pv_nil. exact Hd.
Qed.
Lemma sorted_u a b : StronglySorted str_lt (sort_strs (a ++ b)).
Proof. apply sort_strs_spec. Qed.

Theorem d_add_gen a b r : Wg a -> Wg b -> d_add C DC tb a b = Ok r ->
  Wg r /\ dvars r = sort_strs (dvars a ++ dvars b) /\ forall rho, R (ddenN rho r) (binf C kadd (ddenN rho a) (ddenN rho b)).
Proof.
  intros Wa Wb H. unfold d_add in H. destruct (var_names_union a b) as [[s1 s2]| |] eqn:Eu; cbn [bind] in H; try discriminate.
  destruct (union_gen a b s1 s2 Wa Wb Eu) as (W1 & W2 & V1 & V2 & D1 & D2).
  destruct (is_zero C DC s1) eqn:Z1.
  { inversion H; subst r. split; [exact W2|]. split; [exact V2|]. intros rho. rewrite D2.
    apply R_sym. eapply R_trans; [|apply add_0_l]. apply R_bin; [rewrite <- D1; exact (is_num_gen s1 _ W1 Z1 rho)|apply R_refl]. }
  destruct (is_zero C DC s2) eqn:Z2.
  { inversion H; subst r. split; [exact W1|]. split; [exact V1|]. intros rho. rewrite D1.
    apply R_sym. eapply R_trans; [|apply add_0_r]. apply R_bin; [apply R_refl|rewrite <- D2; exact (is_num_gen s2 _ W2 Z2 rho)]. }
  destruct (op_bin_gen s_plus kadd s1 s2 r f_add b_add W1 W2 H) as (Wr & Vr & Dr).
  split; [exact Wr|]. split; [rewrite Vr, V1, V2; apply sort_strs_double; apply sorted_u|].
  intros rho. specialize (Dr rho). rewrite D1, D2 in Dr. exact Dr.
Qed.
Theorem d_sub_gen a b r : Wg a -> Wg b -> d_sub C tb a b = Ok r ->
  Wg r /\ dvars r = sort_strs (dvars a ++ dvars b) /\ forall rho, R (ddenN rho r) (binf C ksub (ddenN rho a) (ddenN rho b)).
Proof. intros Wa Wb H. exact (op_bin_gen s_minus ksub a b r f_sub b_sub Wa Wb H). Qed.
Lemma zero_like_gen s1 r : (do z <- d_zero C DC; Ok (like_other z s1)) = Ok r ->
  Wg r /\ dvars r = dvars s1 /\ forall rho, ddenN rho r = zero.
Proof. intros H. cbn in H. inversion H; subst r. split; [apply const_Wg|]. split; reflexivity. Qed.
Lemma one_like_gen s1 r : (do z <- d_one C DC; Ok (like_other z s1)) = Ok r ->
  Wg r /\ dvars r = dvars s1 /\ forall rho, ddenN rho r = one.
Proof. intros H. cbn in H. inversion H; subst r. split; [apply const_Wg|]. split; reflexivity. Qed.

Theorem d_mul_gen a b r : Wg a -> Wg b -> d_mul C DC tb a b = Ok r ->
  Wg r /\ dvars r = sort_strs (dvars a ++ dvars b) /\ forall rho, R (ddenN rho r) (binf C kmul (ddenN rho a) (ddenN rho b)).
Proof.
  intros Wa Wb H. unfold d_mul in H. destruct (var_names_union a b) as [[f1 f2]| |] eqn:Eu; cbn [bind] in H; try discriminate.
  destruct (union_gen a b f1 f2 Wa Wb Eu) as (W1 & W2 & V1 & V2 & D1 & D2).
  destruct (is_zero C DC f1 || is_zero C DC f2) eqn:Z.
  { destruct (zero_like_gen f1 r H) as (Wr & Vr & Dr). split; [exact Wr|]. split; [rewrite Vr; exact V1|].
    intros rho. rewrite Dr. apply R_sym. apply orb_prop in Z. destruct Z as [Z|Z].
    - eapply R_trans; [|apply (mul_0_l (ddenN rho b))]. apply R_bin; [rewrite <- D1; exact (is_num_gen f1 _ W1 Z rho)|apply R_refl].
    - eapply R_trans; [|apply (mul_0_r (ddenN rho a))]. apply R_bin; [apply R_refl|rewrite <- D2; exact (is_num_gen f2 _ W2 Z rho)]. }
  destruct (is_one C DC f1) eqn:O1.
  { inversion H; subst r. split; [exact W2|]. split; [exact V2|]. intros rho. rewrite D2.
    apply R_sym. eapply R_trans; [|apply mul_1_l]. apply R_bin; [rewrite <- D1; exact (is_num_gen f1 _ W1 O1 rho)|apply R_refl]. }
  destruct (is_one C DC f2) eqn:O2.
  { inversion H; subst r. split; [exact W1|]. split; [exact V1|]. intros rho. rewrite D1.
    apply R_sym. eapply R_trans; [|apply mul_1_r]. apply R_bin; [apply R_refl|rewrite <- D2; exact (is_num_gen f2 _ W2 O2 rho)]. }
  destruct (op_bin_gen s_mul kmul f1 f2 r f_mul b_mul W1 W2 H) as (Wr & Vr & Dr).
  split; [exact Wr|]. split; [rewrite Vr, V1, V2; apply sort_strs_double; apply sorted_u|].
  intros rho. specialize (Dr rho). rewrite D1, D2 in Dr. exact Dr.
Qed.
Theorem d_div_gen a b r : Wg a -> Wg b -> d_div C DC tb a b = Ok r ->
  Wg r /\ dvars r = sort_strs (dvars a ++ dvars b) /\ forall rho, R (ddenN rho r) (binf C kdiv (ddenN rho a) (ddenN rho b)).
Proof.
  intros Wa Wb H. unfold d_div in H. destruct (var_names_union a b) as [[n d]| |] eqn:Eu; cbn [bind] in H; try discriminate.
  destruct (union_gen a b n d Wa Wb Eu) as (W1 & W2 & V1 & V2 & D1 & D2).
  destruct (is_zero C DC n && negb (is_zero C DC d)) eqn:Z.
  { destruct (zero_like_gen n r H) as (Wr & Vr & Dr). split; [exact Wr|]. split; [rewrite Vr; exact V1|].
    intros rho. rewrite Dr. apply R_sym. apply andb_prop in Z. destruct Z as [Z _].
    eapply R_trans; [|apply (div_0_l (ddenN rho b))]. apply R_bin; [rewrite <- D1; exact (is_num_gen n _ W1 Z rho)|apply R_refl]. }
  destruct (is_one C DC d) eqn:O2.
  { inversion H; subst r. split; [exact W1|]. split; [exact V1|]. intros rho. rewrite D1.
    apply R_sym. eapply R_trans; [|apply div_1_r]. apply R_bin; [apply R_refl|rewrite <- D2; exact (is_num_gen d _ W2 O2 rho)]. }
  destruct (op_bin_gen s_div kdiv n d r f_div b_div W1 W2 H) as (Wr & Vr & Dr).
  split; [exact Wr|]. split; [rewrite Vr, V1, V2; apply sort_strs_double; apply sorted_u|].
  intros rho. specialize (Dr rho). rewrite D1, D2 in Dr. exact Dr.
Qed.
Theorem d_pow_gen a b r : Wg a -> Wg b -> d_pow C DC tb a b = Ok r ->
  Wg r /\ dvars r = sort_strs (dvars a ++ dvars b) /\
  ((forall rho, R (ddenN rho r) (binf C kpow (ddenN rho a) (ddenN rho b))) \/
   ((forall rho, R (ddenN rho a) zero) /\ (forall rho, ddenN rho r = zero))).
Proof.
  intros Wa Wb H. unfold d_pow in H. destruct (var_names_union a b) as [[base ex]| |] eqn:Eu; cbn [bind] in H; try discriminate.
  destruct (union_gen a b base ex Wa Wb Eu) as (W1 & W2 & V1 & V2 & D1 & D2).
  destruct (is_zero C DC base && is_zero C DC ex); [discriminate|].
  destruct (is_zero C DC base) eqn:Z1.
  { destruct (zero_like_gen base r H) as (Wr & Vr & Dr). split; [exact Wr|]. split; [rewrite Vr; exact V1|].
    right. split; [|exact Dr]. intros rho. rewrite <- D1. exact (is_num_gen base _ W1 Z1 rho). }
  destruct (is_zero C DC ex) eqn:Z2.
  { destruct (one_like_gen base r H) as (Wr & Vr & Dr). split; [exact Wr|]. split; [rewrite Vr; exact V1|]. left. intros rho.
    rewrite Dr. apply R_sym. eapply R_trans; [|apply (pow_0_r (ddenN rho a))]. apply R_bin; [apply R_refl|rewrite <- D2; exact (is_num_gen ex _ W2 Z2 rho)]. }
  destruct (is_one C DC ex) eqn:O2.
  { inversion H; subst r. split; [exact W1|]. split; [exact V1|]. left. intros rho. rewrite D1.
    apply R_sym. eapply R_trans; [|apply pow_1_r]. apply R_bin; [apply R_refl|rewrite <- D2; exact (is_num_gen ex _ W2 O2 rho)]. }
  destruct (op_bin_gen s_pow kpow base ex r f_pow b_pow W1 W2 H) as (Wr & Vr & Dr).
  split; [exact Wr|]. split; [rewrite Vr, V1, V2; apply sort_strs_double; apply sorted_u|].
  left. intros rho. specialize (Dr rho). rewrite D1, D2 in Dr. exact Dr.
Qed.
End CalcGen.
