(* Proofs/Precond.v — what check_preconditions rejects, for ALL token lists (C07), and what the two
   parsers inherit from it. *)
From Coq Require Import List Arith Lia Bool ZArith.
Import ListNotations.
From Exmex.Model Require Import Base EvalBinary Lexer Flat Deep.

Section Precond.
Context {D : Type}.
Variable C : carrier D.
Variable tb : optable.

Definition is_err {A} (r : res A) : Prop := exists e, r = Err e.

Lemma check_empty : check_preconditions tb (@nil (token D)) = Err E_EMPTY.
Proof. reflexivity. Qed.

(* unbalanced parentheses: the balance goes negative somewhere or does not end at zero *)
Theorem unbalanced_rejected (ts : list (token D)) :
  paren_balance ts 0 <> Some 0%Z -> is_err (check_preconditions tb ts).
Proof.
  intros Hb. unfold check_preconditions, is_err.
  destruct ts as [|t tl]; [eauto|].
  destruct (pairs_ok tb (t :: tl)); cbn [negb]; [|eauto].
  destruct (paren_balance (t :: tl) 0) as [cnt|] eqn:E; [|eauto].
  destruct (cnt =? 0)%Z eqn:Ez; cbn [negb]; [|eauto].
  apply Z.eqb_eq in Ez. subst. congruence.
Qed.

Lemma last_app_single {A} (l : list A) (x d : A) : last (l ++ [x]) d = x.
Proof.
  induction l as [|a l IH]; [reflexivity|].
  change ((a :: l) ++ [x]) with (a :: (l ++ [x])).
  destruct (l ++ [x]) as [|b m] eqn:E; [destruct l; discriminate|].
  change (last (a :: b :: m) d) with (last (b :: m) d). exact IH.
Qed.

(* a text ending in an operator *)
Theorem trailing_op_rejected (ts : list (token D)) (k : nat) :
  is_err (check_preconditions tb (ts ++ [TOp k])).
Proof.
  unfold check_preconditions, is_err.
  destruct (ts ++ [TOp k]) as [|t tl] eqn:E; [eauto|]. rewrite <- E.
  destruct (pairs_ok tb (ts ++ [TOp k])); cbn [negb]; [|eauto].
  destruct (paren_balance (ts ++ [TOp k]) 0) as [cnt|]; [|eauto].
  destruct (cnt =? 0)%Z; cbn [negb]; [|eauto].
  rewrite last_app_single. eauto.
Qed.

(* what acceptance implies *)
Theorem accepted_tokens (ts : list (token D)) :
  check_preconditions tb ts = Ok tt ->
  ts <> [] /\ pairs_ok tb ts = true /\ paren_balance ts 0 = Some 0%Z /\ (forall k, last ts TOpen <> TOp k).
Proof.
  unfold check_preconditions. intros H.
  destruct ts as [|t tl]; [discriminate|].
  destruct (pairs_ok tb (t :: tl)) eqn:Ep; cbn [negb] in H; [|discriminate].
  destruct (paren_balance (t :: tl) 0) as [cnt|] eqn:Eb; [|discriminate].
  destruct (cnt =? 0)%Z eqn:Ez; cbn [negb] in H; [|discriminate].
  apply Z.eqb_eq in Ez. subst.
  split; [discriminate|]. split; [reflexivity|]. split; [reflexivity|].
  intros k Hk. rewrite Hk in H. discriminate.
Qed.

(* the pair rules: an opening parenthesis directly followed by a closing one, an operand directly in front of an
   opening parenthesis, an operand or an opening parenthesis directly after a closing one, ... are rejected wherever they occur *)
Lemma pairs_ok_app (a b : list (token D)) (x y : token D) :
  pairs_ok tb (a ++ x :: y :: b) = true -> pair_ok tb x y = true.
Proof.
  induction a as [|t a IH]; cbn [app].
  - cbn [pairs_ok]. intros H. apply andb_prop in H. tauto.
  - intros H. apply IH. clear IH.
    destruct (a ++ x :: y :: b) as [|u m] eqn:E; [destruct a; discriminate|].
    cbn [pairs_ok] in H. apply andb_prop in H. tauto.
Qed.
Theorem bad_pair_rejected (a b : list (token D)) (x y : token D) :
  pair_ok tb x y = false -> is_err (check_preconditions tb (a ++ x :: y :: b)).
Proof.
  intros Hp. unfold check_preconditions, is_err.
  destruct (a ++ x :: y :: b) as [|t tl] eqn:E; [eauto|]. rewrite <- E.
  destruct (pairs_ok tb (a ++ x :: y :: b)) eqn:Ep; cbn [negb]; [|eauto].
  apply pairs_ok_app in Ep. congruence.
Qed.

(* both parsers reject whatever check_preconditions rejects *)
Theorem flat_rejects (text : str) (ts : list (token D)) :
  is_err (check_preconditions tb ts) -> forall fb, is_err (parse_tokens_wo tb fb text ts).
Proof. intros [e He] fb. unfold parse_tokens_wo. rewrite He. cbn. eexists; reflexivity. Qed.
Theorem deep_rejects (ts : list (token D)) :
  is_err (check_preconditions tb ts) -> is_err (parse_deep_tokens C tb ts).
Proof. intros [e He]. unfold parse_deep_tokens. rewrite He. cbn. eexists; reflexivity. Qed.

(* operand count: an accepted flat expression has exactly one more node than operators *)
Theorem flat_count (fb : bool) (text : str) (ts : list (token D)) (vars : list str) (fx : flatex D) :
  make_expression tb fb text ts vars = Ok fx -> length (fnodes fx) = S (length (fops fx)).
Proof.
  unfold make_expression. intros H.
  destruct (walk tb (S (length ts)) [] ts vars [] [] 0 []) as [[nodes ops]|e|s]; cbn [bind] in H; try discriminate.
  destruct (Nat.eqb (S (length ops)) (length nodes)) eqn:E; [|discriminate].
  apply Nat.eqb_eq in E. inversion H; subst; cbn. symmetry. exact E.
Qed.
End Precond.
