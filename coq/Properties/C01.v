(* C01 — evaluation follows the documented operator semantics.  Property theorems only; proofs are in Proofs/. *)
From Coq Require Import List Arith ZArith.
Import ListNotations.
From Exmex.Model Require Import Base EvalBinary Lexer Flat.
From Exmex.Spec Require Import RefSem.
From Exmex.Proofs Require Import ChainMachine SortedRef EvalBinaryCorrect FlatEval WalkSim C01Main C01Vars Accept LexSpaced LexFlex LexLocal.
Open Scope nat_scope.

(* The main theorem.  For EVERY data type (carrier C), every operator table whose binary priorities lie in 0..99,
   every well-formed surface tree c (any shape, depth, number of operands; unary chains, redundant parentheses and
   sign chains are constructors of the tree type, Spec/RefSem.v) and every assignment of the right length:
   the flat parser applied to the token rendering of c succeeds, reports the variable list, and the expression
   evaluates to a value R-equivalent to the reference semantics (parentheses first, unary operators tighter than any
   binary one and composed right to left, binary operators in descending priority and left to right among equals),
   for every equivalence R that the operator functions respect and modulo which the operators FLAGGED commutative are
   associative: "operands of an operator flagged commutative may only be regrouped in ways that are invisible when that
   operator really is associative".  Variables: the list the parsers compute for the rendering. *)
Theorem C01_eval_is_reference :
  forall (D : Type) (C : carrier D) (tb : optable) (R : D -> D -> Prop),
  wf_table tb = true ->
  (forall a, R a a) -> (forall a b, R a b -> R b a) -> (forall a b c, R a b -> R b c -> R a c) ->
  (forall k a a' b b', R a a' -> R b b' -> R (binf C k a b) (binf C k a' b')) ->
  (forall k a a', R a a' -> R (unf C k a) (unf C k a')) ->
  (forall o, comm_of tb o = true -> forall a b c, R (binf C o (binf C o a b) c) (binf C o a (binf C o b c))) ->
  forall (c : chain (D:=D)) (text : str) (vals : list D),
  wf_chain tb c = true ->
  length vals = length (find_parsed_vars (flatten c)) ->
  exists fx v,
    make_expression tb true text (flatten c) (find_parsed_vars (flatten c)) = Ok fx /\
    fvars fx = find_parsed_vars (flatten c) /\
    eval_flat C fx vals = Ok v /\
    R v (ref_chain C tb (find_parsed_vars (flatten c)) vals c).
Proof.
  intros D C tb R Hwf Hr Hs Ht Hb Hu Ha c text vals Hwfc Hlen.
  destruct (vars_in_chain c) as [Hv0 Hvr].
  exact (flat_parse_is_reference C tb Hwf R Hr Hs Ht Hb Hu Ha (find_parsed_vars (flatten c)) vals Hlen c text Hwfc Hv0 Hvr).
Qed.

(* ... and the precondition check (the pair rules, the parenthesis balance, the last token) accepts the rendering of
   every well-formed tree, so the same holds for the entry point on token lists, parse_tokens_wo *)
Theorem C01_token_entry_point :
  forall (D : Type) (C : carrier D) (tb : optable) (R : D -> D -> Prop),
  wf_table tb = true ->
  (forall a, R a a) -> (forall a b, R a b -> R b a) -> (forall a b c, R a b -> R b c -> R a c) ->
  (forall k a a' b b', R a a' -> R b b' -> R (binf C k a b) (binf C k a' b')) ->
  (forall k a a', R a a' -> R (unf C k a) (unf C k a')) ->
  (forall o, comm_of tb o = true -> forall a b c, R (binf C o (binf C o a b) c) (binf C o a (binf C o b c))) ->
  forall (c : chain (D:=D)) (text : str) (vals : list D),
  wf_chain tb c = true ->
  length vals = length (find_parsed_vars (flatten c)) ->
  check_preconditions tb (flatten c) = Ok tt /\
  exists fx v,
    parse_tokens_wo tb true text (flatten c) = Ok fx /\
    fvars fx = find_parsed_vars (flatten c) /\
    eval_flat C fx vals = Ok v /\
    R v (ref_chain C tb (find_parsed_vars (flatten c)) vals c).
Proof.
  intros D C tb R Hwf Hr Hs Ht Hb Hu Ha c text vals Hwfc Hlen.
  pose proof (rendering_accepted tb c Hwfc) as Hacc. split; [exact Hacc|].
  destruct (C01_eval_is_reference D C tb R Hwf Hr Hs Ht Hb Hu Ha c text vals Hwfc Hlen) as (fx & v & H1 & H2 & H3 & H4).
  exists fx, v. unfold parse_tokens_wo. rewrite Hacc. cbn [bind]. repeat split; assumption.
Qed.

(* ... and through the TEXT entry point, for the canonical text rendering of the tree (every token followed by one
   space, numbers by their Debug text, variables in braces, operators by name: stext), whenever every token of the tree
   is readable in front of a space (lexable: the literal matcher matches exactly the Debug text of each number and reads it
   back, matches no operator name, and the tokenizer finds each operator by its name -- which follows from distinct names
   without spaces, LexSpaced.find_ops_spaced): tokenizing the text gives back the tokens, so parsing the text evaluates to
   the reference semantics *)
Theorem C01_text_entry_point :
  forall (D : Type) (C : carrier D) (tb : optable) (is_literal : str -> option nat) (R : D -> D -> Prop),
  wf_table tb = true ->
  (forall a, R a a) -> (forall a b, R a b -> R b a) -> (forall a b c, R a b -> R b c -> R a c) ->
  (forall k a a' b b', R a a' -> R b b' -> R (binf C k a b) (binf C k a' b')) ->
  (forall k a a', R a a' -> R (unf C k a) (unf C k a')) ->
  (forall o, comm_of tb o = true -> forall a b c, R (binf C o (binf C o a b) c) (binf C o a (binf C o b c))) ->
  forall (c : chain (D:=D)) (vals : list D),
  wf_chain tb c = true -> Forall (lexable C tb is_literal) (flatten c) ->
  length vals = length (find_parsed_vars (flatten c)) ->
  tokenize C tb is_literal (stext C tb (flatten c)) = Ok (flatten c) /\
  exists fx v,
    parse_wo_compile C tb true is_literal (stext C tb (flatten c)) = Ok fx /\
    fvars fx = find_parsed_vars (flatten c) /\
    eval_flat C fx vals = Ok v /\
    R v (ref_chain C tb (find_parsed_vars (flatten c)) vals c).
Proof.
  intros D C tb is_literal R Hwf Hr Hs Ht Hb Hu Ha c vals Hwfc Hlex Hlen.
  pose proof (tokenize_spaced C tb is_literal (flatten c) Hlex) as Htok. split; [exact Htok|].
  destruct (C01_token_entry_point D C tb R Hwf Hr Hs Ht Hb Hu Ha c (stext C tb (flatten c)) vals Hwfc Hlen) as (_ & fx & v & H1 & H2 & H3 & H4).
  exists fx, v. unfold parse_wo_compile. rewrite Htok. cbn [bind]. repeat split; assumption.
Qed.

(* ... and with free spacing (Proofs/LexFlex.v): every token of the rendering followed by any number of spaces, also none,
   a number or an operator name being followed by a terminator (space, parenthesis, opening brace) or the end of the text *)
Theorem C01_text_entry_point_free_spacing :
  forall (D : Type) (C : carrier D) (tb : optable) (is_literal : str -> option nat) (R : D -> D -> Prop),
  wf_table tb = true ->
  (forall a, R a a) -> (forall a b, R a b -> R b a) -> (forall a b c, R a b -> R b c -> R a c) ->
  (forall k a a' b b', R a a' -> R b b' -> R (binf C k a b) (binf C k a' b')) ->
  (forall k a a', R a a' -> R (unf C k a) (unf C k a')) ->
  (forall o, comm_of tb o = true -> forall a b c, R (binf C o (binf C o a b) c) (binf C o a (binf C o b c))) ->
  forall (c : chain (D:=D)) (gaps : list nat) (vals : list D),
  wf_chain tb c = true -> length gaps = length (flatten c) ->
  Forall (flexable C tb is_literal) (flatten c) -> gaps_ok C tb (combine (flatten c) gaps) ->
  length vals = length (find_parsed_vars (flatten c)) ->
  tokenize C tb is_literal (ftext C tb (combine (flatten c) gaps)) = Ok (flatten c) /\
  exists fx v,
    parse_wo_compile C tb true is_literal (ftext C tb (combine (flatten c) gaps)) = Ok fx /\
    fvars fx = find_parsed_vars (flatten c) /\
    eval_flat C fx vals = Ok v /\
    R v (ref_chain C tb (find_parsed_vars (flatten c)) vals c).
Proof.
  intros D C tb is_literal R Hwf Hr Hs Ht Hb Hu Ha c gaps vals Hwfc Hgl Hlex Hg Hlen.
  assert (Em : forall (l : list (token D)) (gs : list nat), length gs = length l -> map fst (combine l gs) = l).
  { clear. induction l as [|t l IH]; intros gs Hgl; [reflexivity|]. destruct gs as [|g gs]; [discriminate|]. cbn [combine map fst]. f_equal. apply IH. cbn in Hgl. congruence. }
  specialize (Em (flatten c) gaps Hgl).
  pose proof (tokenize_flex C tb is_literal (combine (flatten c) gaps) ltac:(rewrite Em; exact Hlex) Hg) as Htok. rewrite Em in Htok. split; [exact Htok|].
  destruct (C01_token_entry_point D C tb R Hwf Hr Hs Ht Hb Hu Ha c (ftext C tb (combine (flatten c) gaps)) vals Hwfc Hlen) as (_ & fx & v & H1 & H2 & H3 & H4).
  exists fx, v. unfold parse_wo_compile. rewrite Htok. cbn [bind]. repeat split; assumption.
Qed.


(* ... and for ANY text that is locally readable (Proofs/LexLocal.v): pieces -- numbers, parentheses, braced or BARE variables,
   operator names, names of constants -- with any spacing, no terminator asked for (`2*x-sin(y)+PI`), whose tokens are the
   rendering of a well-formed tree *)
Theorem C01_text_entry_point_locally_readable :
  forall (D : Type) (C : carrier D) (tb : optable) (is_literal : str -> option nat) (R : D -> D -> Prop),
  wf_table tb = true ->
  (forall a, R a a) -> (forall a b, R a b -> R b a) -> (forall a b c, R a b -> R b c -> R a c) ->
  (forall k a a' b b', R a a' -> R b b' -> R (binf C k a b) (binf C k a' b')) ->
  (forall k a a', R a a' -> R (unf C k a) (unf C k a')) ->
  (forall o, comm_of tb o = true -> forall a b c, R (binf C o (binf C o a b) c) (binf C o a (binf C o b c))) ->
  forall (c : chain (D:=D)) (items : list (piece (D:=D) * nat)) (vals : list D),
  wf_chain tb c = true -> map (ptok C) (map fst items) = flatten c ->
  all_readable C tb is_literal items [] ->
  length vals = length (find_parsed_vars (flatten c)) ->
  exists fx v,
    parse_wo_compile C tb true is_literal (ptexts C tb items) = Ok fx /\
    fvars fx = find_parsed_vars (flatten c) /\
    eval_flat C fx vals = Ok v /\
    R v (ref_chain C tb (find_parsed_vars (flatten c)) vals c).
Proof.
  intros D C tb is_literal R Hwf Hr Hs Ht Hb Hu Ha c items vals Hwfc Htoks Hread Hlen.
  pose proof (tokenize_local C tb is_literal items Hread) as Htok. rewrite Htoks in Htok.
  destruct (C01_token_entry_point D C tb R Hwf Hr Hs Ht Hb Hu Ha c (ptexts C tb items) vals Hwfc Hlen) as (_ & fx & v & H1 & H2 & H3 & H4).
  exists fx, v. unfold parse_wo_compile. rewrite Htok. cbn [bind]. repeat split; assumption.
Qed.

(* when the flagged operators really are associative the two values are EQUAL *)
Corollary C01_exact_when_flags_are_sound :
  forall (D : Type) (C : carrier D) (tb : optable),
  wf_table tb = true ->
  (forall o, comm_of tb o = true -> forall a b c, binf C o (binf C o a b) c = binf C o a (binf C o b c)) ->
  forall (c : chain (D:=D)) (text : str) (vals : list D),
  wf_chain tb c = true -> length vals = length (find_parsed_vars (flatten c)) ->
  exists fx,
    make_expression tb true text (flatten c) (find_parsed_vars (flatten c)) = Ok fx /\
    eval_flat C fx vals = Ok (ref_chain C tb (find_parsed_vars (flatten c)) vals c).
Proof.
  intros D C tb Hwf Ha c text vals Hwfc Hlen.
  destruct (C01_eval_is_reference D C tb eq Hwf (@eq_refl D) (@eq_sym D) (@eq_trans D)
              ltac:(intros; subst; reflexivity) ltac:(intros; subst; reflexivity) Ha c text vals Hwfc Hlen) as (fx & v & H1 & _ & H3 & H4).
  exists fx. subst v. split; assumption.
Qed.

(* on the free term algebra (the data type of the correspondence check) the result is the reference TERM up to the
   associativity congruence of the flagged operators; with no flagged operator it is the reference term itself *)
Corollary C01_free_terms :
  forall (tb : optable), wf_table tb = true ->
  forall (c : chain (D:=term)) (text : str) (vals : list term),
  wf_chain tb c = true -> length vals = length (find_parsed_vars (flatten c)) ->
  exists fx t,
    make_expression tb true text (flatten c) (find_parsed_vars (flatten c)) = Ok fx /\
    eval_flat term_carrier fx vals = Ok t /\
    aeq tb t (ref_chain term_carrier tb (find_parsed_vars (flatten c)) vals c).
Proof.
  intros tb Hwf c text vals Hwfc Hlen.
  destruct (C01_eval_is_reference term term_carrier tb (aeq tb) Hwf (aeq_refl tb) (aeq_sym tb) (aeq_trans tb)
              (fun k a a' b b' => aeq_bin tb k a a' b b') (fun k a a' => aeq_un tb k a a')
              (fun o Ho a b c0 => aeq_assoc tb o a b c0 Ho) c text vals Hwfc Hlen) as (fx & t & H1 & _ & H3 & H4).
  exists fx, t. repeat split; assumption.
Qed.

(* evaluation of ANY flat expression (parsed or not) is the precedence reference of its keys *)
Theorem C01_any_flat_expression_is_precedence :
  forall (D : Type) (C : carrier D) (fixed_bump : bool)
         (nodes : list (fnode D)) (ops : list fop) (x : D) (rest : list D),
  length rest = length ops ->
  eval_numbers C (x :: rest) ops (prioritized_indices_flat fixed_bump ops nodes)
  = Ok (@ref_val D (op_at C ops) (key fixed_bump nodes ops) (length ops) x
          (chain_from D (vals_of D (dflt C) (x :: rest)) 0 (length ops))).
Proof. exact @eval_numbers_is_ref. Qed.

(* non-vacuity: -(a+b)*sin cos c ^ 2 + 3 + 4 over a five-operator table, evaluated through the theorem's own objects *)
Definition ex_tb : optable :=
  [ {| repr := [43]%N; obin := Some {| prio := 0; comm := true |}; ounary := true; oconst := false |};
    {| repr := [45]%N; obin := Some {| prio := 1; comm := false |}; ounary := true; oconst := false |};
    {| repr := [42]%N; obin := Some {| prio := 2; comm := true |}; ounary := false; oconst := false |};
    {| repr := [94]%N; obin := Some {| prio := 4; comm := false |}; ounary := false; oconst := false |};
    {| repr := [115;105;110]%N; obin := None; ounary := true; oconst := false |};
    {| repr := [99;111;115]%N; obin := None; ounary := true; oconst := false |} ].
Definition ex_chain : chain (D:=term) :=
  (AGroup [1] (ALeaf [] (LVar [97%N])) [(0, ALeaf [] (LVar [98%N]))],
   [(2, ALeaf [4; 5] (LVar [99%N])); (3, ALeaf [] (LNum (Lit [50%N]))); (0, ALeaf [] (LNum (Lit [51%N]))); (0, ALeaf [] (LNum (Lit [52%N])))]).
Example C01_example_hypotheses : wf_table ex_tb = true /\ wf_chain ex_tb ex_chain = true /\ length (find_parsed_vars (flatten ex_chain)) = 3.
Proof. vm_compute. repeat split; reflexivity. Qed.
Example C01_example_value :
  (do fx <- make_expression ex_tb true [] (flatten ex_chain) (find_parsed_vars (flatten ex_chain)); eval_flat term_carrier fx [V 0; V 1; V 2])
  = Ok (Bin 0 (Bin 0 (Bin 2 (Un 1 (Bin 0 (V 0) (V 1))) (Bin 3 (Un 4 (Un 5 (V 2))) (Lit [50%N]))) (Lit [51%N])) (Lit [52%N])).
Proof. vm_compute. reflexivity. Qed.

(* Still outside the theorem (covered by the correspondence of this check: model = implementation evaluated in Coq,
   implementation = reference interpreter on random trees, renderings and tables): the tokenizer on the TEXT renderings
   of a tree (whitespace, braces, call form; C08 and C13 have the theorems about the tokenizer's parts). *)
Print Assumptions C01_eval_is_reference.
Print Assumptions C01_token_entry_point.
Print Assumptions C01_exact_when_flags_are_sound.
Print Assumptions C01_free_terms.
Print Assumptions C01_any_flat_expression_is_precedence.
Print Assumptions C01_text_entry_point.
Print Assumptions C01_text_entry_point_free_spacing.
Print Assumptions C01_text_entry_point_locally_readable.
