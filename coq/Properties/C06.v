(* C06 — no input text can crash the library.  Property theorems only. *)
From Coq Require Import List.
From Exmex.Model Require Import Base Lexer.
From Exmex.Proofs Require Import Totality.

(* `_partial`: the tokenizer and the precondition check, for EVERY text, operator table, data type and literal
   matcher, return a token list / unit or an error value; no panic site of parser.rs (find_var_index aside, which is
   called by the expression builders) is reachable: the replace at the comma position is in range.
   Missing for the full statement: the same for make_expression (flat and deep), compile, the conversions, unparse
   and partial (their panic sites are explicit `Panic` outcomes in the model; the correspondence runs every entry
   point and follow-up call under catch_unwind, exhaustively for short strings); stack depth is a runtime fact
   (child processes, DESIGN.md C06, known finding F10). *)
Theorem C06_tokenizer_total_partial :
  forall (D : Type) (C : carrier D) (tb : optable) (is_literal : str -> option nat) (text : str) (site : nat),
  tokenize C tb is_literal text <> Panic site.
Proof. exact @tokenize_total. Qed.
Theorem C06_preconditions_total_partial :
  forall (D : Type) (tb : optable) (ts : list (token D)) (site : nat), check_preconditions tb ts <> Panic site.
Proof. exact @check_preconditions_total. Qed.

Print Assumptions C06_tokenizer_total_partial.
Print Assumptions C06_preconditions_total_partial.
