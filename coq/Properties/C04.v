(* C04 — variables are found, ordered and bound exactly as documented.  Property theorems only. *)
From Coq Require Import List Arith Sorting.Sorted.
Import ListNotations.
From Exmex.Model Require Import Base EvalBinary Lexer Flat Deep.
From Exmex.Spec Require Import RefSem.
From Exmex.Proofs Require Import Vars DeepSem DeepSubs C11Main DeepOps.
Open Scope nat_scope.

(* The variable list computed by both parsers (find_parsed_vars) is, for EVERY token list: strictly increasing in
   Rust string order (lexicographic on code points = UTF-8 byte order), hence duplicate free, and contains exactly
   the names of the variable tokens.  `{x}` and `x` produce the same token TVar x in the tokenizer, so braced
   and bare spellings are one variable. *)
Theorem C04_vars_sorted_distinct_complete : forall (D : Type) (ts : list (token D)),
  StronglySorted str_lt (find_parsed_vars ts) /\ NoDup (find_parsed_vars ts) /\
  (forall x, In x (find_parsed_vars ts) <-> In (TVar x) ts).
Proof. exact @find_parsed_vars_spec. Qed.

(* binding: the index a variable node receives is the position of its name in that list, and every name that
   occurs has one (find_var_index cannot panic on parser-produced input) *)
Theorem C04_binding_is_position : forall (x : str) (vars : list str) (i : nat),
  var_index vars x = Ok i -> nth_error vars i = Some x.
Proof.
  intros x vars i H. unfold var_index in H. destruct (index_of x vars 0) as [j|] eqn:E; [|discriminate].
  inversion H; subst. destruct (index_of_spec x vars 0 i E) as [_ Hn]. rewrite Nat.sub_0_r in Hn. exact Hn.
Qed.
Theorem C04_every_variable_has_an_index : forall (D : Type) (ts : list (token D)) (x : str),
  In (TVar x) ts -> exists i, var_index (find_parsed_vars ts) x = Ok i.
Proof.
  intros D ts x Hin. unfold var_index.
  destruct (index_of_complete x (find_parsed_vars ts) 0) as [j Hj]; [apply find_parsed_vars_spec; exact Hin|].
  rewrite Hj. eauto.
Qed.

(* arity: evaluation with the wrong number of values is an error, never a result; the relaxed variant rejects too few *)
Theorem C04_arity_flat : forall (D : Type) (C : carrier D) (fx : flatex D) (vals : list D),
  length vals <> length (fvars fx) -> eval_flat C fx vals = Err E_ARITY.
Proof.
  intros D C fx vals H. unfold eval_flat. destruct (Nat.eqb_spec (length (fvars fx)) (length vals)); [congruence|reflexivity].
Qed.
Theorem C04_arity_flat_relaxed : forall (D : Type) (C : carrier D) (fx : flatex D) (vals : list D),
  length vals < length (fvars fx) -> eval_flat_relaxed C fx vals = Err E_ARITY.
Proof.
  intros D C fx vals H. unfold eval_flat_relaxed. destruct (Nat.ltb_spec (length vals) (length (fvars fx))); [reflexivity|].
  exfalso. apply (Nat.lt_irrefl (length vals)). eapply Nat.lt_le_trans; eassumption.
Qed.
Theorem C04_arity_deep : forall (D : Type) (C : carrier D) (dx : deepex D) (vals : list D),
  length vals <> length (dvars dx) -> eval_deep C dx vals = Err E_ARITY.
Proof.
  intros D C dx vals H. unfold eval_deep. destruct (Nat.eqb_spec (length (dvars dx)) (length vals)); [congruence|reflexivity].
Qed.
(* relaxed evaluation with surplus values is evaluation proper on the flat form *)
Theorem C04_relaxed_ignores_surplus : forall (D : Type) (C : carrier D) (fx : flatex D) (vals : list D),
  length (fvars fx) <= length vals -> eval_flat_relaxed C fx vals = eval_cloning C fx vals.
Proof.
  intros D C fx vals H. unfold eval_flat_relaxed. destruct (Nat.ltb_spec (length vals) (length (fvars fx))); [|reflexivity].
  exfalso. apply (Nat.lt_irrefl (length vals)). eapply Nat.lt_le_trans; eassumption.
Qed.

(* derived expressions: binary operator application lists the sorted union of the names of its operands, unary
   application keeps the list, substitution lists the sorted names that remain or come in with the replacements -- for
   every data type and table (the trivial relation is used for the semantic parameters of the underlying theorems; only
   their structural conclusions are taken).  A derivative lists exactly the names of its antiderivative: C09. *)
Theorem C04_binary_application_lists_the_sorted_union :
  forall (D : Type) (C : carrier D) (tb : optable) (a b : deepex D) (name : str) (k : nat),
  find_op name tb 0 = Some k -> is_bin tb k = true ->
  dclosed (tflagged tb) (dvars a) a -> dclosed (tflagged tb) (dvars b) b ->
  exists e, operate_bin C tb a b name = Ok e /\ dvars e = sort_strs (dvars a ++ dvars b) /\
            StronglySorted str_lt (dvars e) /\ (forall x, In x (dvars e) <-> In x (dvars a) \/ In x (dvars b)).
Proof.
  intros D C tb a b name k Hf Hb Ha Hbb.
  destruct (operate_bin_ok C tb (fun _ _ => True) (fun _ => I) (fun _ _ _ => I) (fun _ _ _ _ _ => I) (fun _ _ _ _ _ _ _ => I) (fun _ _ _ _ => I)
              (fun _ _ _ _ _ => I) a b name k Hf Hb Ha Hbb) as (e & He & Hc & _).
  exists e. split; [exact He|]. pose proof (dconsistent_vars _ _ _ Hc) as Hv. split; [exact Hv|]. rewrite Hv.
  destruct (sort_strs_spec (dvars a ++ dvars b)) as (H1 & _ & H3). split; [exact H1|]. intros x. rewrite H3, in_app_iff. reflexivity.
Qed.
Theorem C04_substitution_lists_the_sorted_names :
  forall (D : Type) (C : carrier D) (okop : dbop -> Prop) (sub : str -> option (deepex D)),
  (forall x r, sub x = Some r -> dclosed okop (dvars r) r) ->
  forall e : deepex D, dstruct okop e ->
  exists e', subs C sub e = Ok e' /\ dvars e' = sort_strs (snames sub e) /\ StronglySorted str_lt (dvars e').
Proof.
  intros D C okop sub Hsub e Hs.
  destruct (subs_ok C (fun _ _ => True) (fun _ => I) (fun _ _ _ => I) (fun _ _ _ _ _ => I) (fun _ _ _ _ _ _ _ => I) (fun _ _ _ _ => I) okop (fun _ _ _ _ _ _ => I) sub Hsub e Hs) as (e' & He & Hc & _).
  exists e'. split; [exact He|]. pose proof (dconsistent_vars _ _ _ Hc) as Hv. split; [exact Hv|]. rewrite Hv. apply sort_strs_spec.
Qed.

Print Assumptions C04_vars_sorted_distinct_complete.
Print Assumptions C04_binding_is_position.
Print Assumptions C04_every_variable_has_an_index.
Print Assumptions C04_arity_flat.
Print Assumptions C04_binary_application_lists_the_sorted_union.
Print Assumptions C04_substitution_lists_the_sorted_names.
