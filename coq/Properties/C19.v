(* C19 — default float operators and constants compute the functions they name.  Property theorems only.
   Level `other`: what Coq carries is (a) the shape of the operator table, proved against the table REGENERATED
   from FloatOpsFactory::<f64>::make() on every run (Gen/Tables.v), and (b) bit-exact agreement of + - * / min max,
   unary -, abs, sqrt, signum with Coq's binary64 on the applications the harness samples (evaluated by vm_compute
   in the correspondence files).  The libm functions have no binary64 model in Coq: they are compared with the Rust
   primitives by the harness (a differential test, not a theorem). *)
From Coq Require Import List ZArith Bool.
Import ListNotations.
From Exmex.Model Require Import Base.
From Exmex.Gen Require Import Tables.
Open Scope nat_scope.

Definition role (o : opspec) : nat := (* 0 constant, 1 binary only, 2 unary only, 3 both *)
  match obin o, ounary o, oconst o with
  | _, _, true => 0 | Some _, false, _ => 1 | None, true, _ => 2 | Some _, true, _ => 3 | None, false, false => 4 end.
Fixpoint distinct (l : list str) : bool :=
  match l with [] => true | x :: tl => negb (existsb (str_eqb x) tl) && distinct tl end.
Definition n (l : list N) : str := l.

(* 34 operators and 6 constants with pairwise distinct names; which of them are binary, unary, both *)
Theorem C19_table_shape :
  length float_table = 40 /\
  length (filter (fun o => Nat.eqb (role o) 0) float_table) = 6 /\
  distinct (map repr float_table) = true /\
  map repr (filter (fun o => Nat.eqb (role o) 1) float_table)
    = [n [94]; n [42]; n [47]; n [97;116;97;110;50]; n [109;105;110]; n [109;97;120]]%N /\          (* ^ * / atan2 min max *)
  map repr (filter (fun o => Nat.eqb (role o) 3) float_table) = [n [43]; n [45]]%N /\               (* + - : binary and unary *)
  length (filter (fun o => Nat.eqb (role o) 2) float_table) = 26 /\
  map repr (filter (fun o => Nat.eqb (role o) 0) float_table)
    = [n [80;73]; n [960]; n [69]; n [101]; n [84;65;85]; n [964]]%N /\                             (* PI π E e TAU τ *)
  (* only + and * are flagged commutative *)
  map repr (filter (fun o => match obin o with Some b => comm b | None => false end) float_table) = [n [42]; n [43]]%N /\
  (* every binary priority lies in 0..99 *)
  forallb (fun o => match obin o with Some b => (0 <=? prio b)%Z && (prio b <=? 99)%Z | None => true end) float_table = true.
Proof. vm_compute. repeat split; reflexivity. Qed.

Print Assumptions C19_table_shape.
