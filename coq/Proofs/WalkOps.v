(* Proofs/WalkOps.v — every operator record the flat parser emits, for ANY token list it accepts, carries the index and
   the commutativity flag of one binary table entry. *)
From Coq Require Import List Arith Lia Bool ZArith.
Import ListNotations.
From Exmex.Model Require Import Base EvalBinary Lexer Flat.
From Exmex.Spec Require Import RefSem.
Open Scope nat_scope.

Section WalkOps.
Context {D : Type}.
Variable tb : optable.

Definition okop (o : fop) : Prop := fcomm o = comm_of tb (fidx o).

Lemma okop_update pos us : forall rops, (forall o, In o rops -> okop o) -> forall o, In o (update_nth pos (add_un us) rops) -> okop o.
Proof.
  intros rops. revert pos. induction rops as [|a rops IH]; intros pos H o Hin; [destruct pos; destruct Hin|].
  destruct pos; cbn in Hin.
  - destruct Hin as [<-|Hin]; [|apply H; right; exact Hin]. unfold okop, add_un. cbn. apply (H a). left. reflexivity.
  - destruct Hin as [<-|Hin]; [apply H; left; reflexivity|]. apply (IH pos); [|exact Hin]. intros o' Ho'. apply H. right. exact Ho'.
Qed.

Lemma walk_ops_ok : forall fuel rp rest vars (rnodes : list (fnode D)) rops depth ustack nodes ops,
  (forall o, In o rops -> okop o) ->
  walk tb fuel rp rest vars rnodes rops depth ustack = Ok (nodes, ops) ->
  forall o, In o ops -> okop o.
Proof.
  induction fuel as [|fuel IH]; intros rp rest vars rnodes rops depth ustack nodes ops Hok H; [discriminate|].
  cbn [walk] in H. destruct rest as [|t rest'].
  - inversion H; subst. intros o Ho. apply Hok. apply in_rev. exact Ho.
  - unfold bind in H.
    destruct t as [d| | |k|x].
    + destruct (create_node tb rp (FNum d)); try discriminate. exact (IH _ _ _ _ _ _ _ _ _ Hok H).
    + exact (IH _ _ _ _ _ _ _ _ _ Hok H).
    + destruct (lowest_trailing rops depth 0 None) as [pos|].
      * destruct (match ustack with (urp, d) :: tl => if (d =? depth - 1)%Z then Some (urp, tl) else None | [] => None end) as [[urp tl]|].
        -- destruct (subsequent_unaries tb urp []) as [us| |]; try discriminate.
           exact (IH _ _ _ _ _ _ _ _ _ (okop_update pos us rops Hok) H).
        -- exact (IH _ _ _ _ _ _ _ _ _ Hok H).
      * destruct rnodes as [|n ntl]; [discriminate|].
        destruct (match ustack with (urp, d) :: tl => if (d =? depth - 1)%Z then Some (urp, tl) else None | [] => None end) as [[urp tl]|].
        -- destruct (subsequent_unaries tb urp []); try discriminate. exact (IH _ _ _ _ _ _ _ _ _ Hok H).
        -- exact (IH _ _ _ _ _ _ _ _ _ Hok H).
    + destruct (is_operator_binary tb k (hd_error rp)) as [b| |]; try discriminate. destruct b.
      * destruct (obin (op_of tb k)) as [bs|] eqn:Eb; [|discriminate].
        match type of H with walk _ _ _ _ _ _ ?r _ _ = _ => assert (Hok' : forall o, In o r -> okop o) end.
        { intros o [<-|Hin]; [|apply Hok; exact Hin]. unfold okop, comm_of. cbn [fcomm fidx]. unfold op_of in Eb. rewrite Eb. reflexivity. }
        exact (IH _ _ _ _ _ _ _ _ _ Hok' H).
      * destruct rest' as [|t' rest'']; [discriminate|].
        destruct t'; try discriminate; exact (IH _ _ _ _ _ _ _ _ _ Hok H).
    + destruct (var_index vars x) as [vi| |]; try discriminate. destruct (create_node tb rp (FVar vi)); try discriminate. exact (IH _ _ _ _ _ _ _ _ _ Hok H).
Qed.

Lemma make_expression_shape fb text ts vars (fx : flatex D) : make_expression tb fb text ts vars = Ok fx ->
  length (fnodes fx) = S (length (fops fx)) /\ fprios fx = prioritized_indices_flat fb (fops fx) (fnodes fx) /\
  fvars fx = vars /\ ftext fx = text /\ (forall o, In o (fops fx) -> okop o).
Proof.
  unfold make_expression. destruct (walk tb (S (length ts)) [] ts vars [] [] 0 []) as [[nodes ops]| |] eqn:Ew; try discriminate.
  cbn [bind]. destruct (Nat.eqb_spec (S (length ops)) (length nodes)) as [E|]; [|discriminate].
  intros H. inversion H; subst. cbn. repeat split; try reflexivity; [lia|].
  apply (walk_ops_ok _ _ _ _ _ _ _ _ _ _ (fun o (Ho : In o []) => match Ho with end) Ew).
Qed.
End WalkOps.
