(* Model/Calc.v — arithmetic on deep expressions with the neutral-element shortcuts:
   deep.rs is_num/is_zero/is_one, one/zero, var_names_like_other, pow, the std::ops impls
   (Add, Sub, Mul, Div, Neg), the named unary helpers. *)
From Exmex.Model Require Import Base EvalBinary Lexer Flat Deep.

(* what DiffDataType / NeutralElts add to a data type *)
Record dcarrier (D : Type) := {
  dc_zero : D;        (* T::from(0u8) *)
  dc_one : D;         (* T::from(1u8) *)
  dc_two : D;         (* T::from(2.0f32) *)
  dc_ten : D;         (* T::from(10.0f32) *)
  dc_eqb : D -> D -> bool   (* PartialEq *)
}.
Arguments dc_zero {D}. Arguments dc_one {D}. Arguments dc_two {D}. Arguments dc_ten {D}. Arguments dc_eqb {D}.

Definition term_dcarrier : dcarrier term :=
  {| dc_zero := Lit [48%N]; dc_one := Lit [49%N]; dc_two := Lit [50%N]; dc_ten := Lit [49%N; 48%N]; dc_eqb := term_eqb |}.

Section Calc.
Context {D : Type}.
Variable C : carrier D.
Variable DC : dcarrier D.
Variable tb : optable.

(* deep.rs:89 is_num (the unary operator of an outer wrapper is ignored, as in the Rust) *)
Fixpoint is_num (e : deepex D) (num : D) : bool :=
  match e with
  | DE [n] _ uop _ =>
      match n with
      | DNum d => dc_eqb DC (apply_un C uop d) num
      | DExpr e' => is_num e' num
      | DVar _ _ => false
      end
  | _ => false
  end.
Definition is_zero (e : deepex D) : bool := is_num e (dc_zero DC).
Definition is_one (e : deepex D) : bool := is_num e (dc_one DC).

Definition from_num (d : D) : res (deepex D) := new_deepex C [DNum d] [] [].
Definition d_zero : res (deepex D) := from_num (dc_zero DC).
Definition d_one : res (deepex D) := from_num (dc_one DC).
Definition like_other (e other : deepex D) : deepex D := with_vars e (dvars other).

Definition str_of (l : list N) : str := l.
Definition s_plus := str_of [43%N]. Definition s_minus := str_of [45%N]. Definition s_mul := str_of [42%N].
Definition s_div := str_of [47%N]. Definition s_pow := str_of [94%N].

Definition d_add (a b : deepex D) : res (deepex D) :=
  do ' (s1, s2) <- var_names_union a b;
  if is_zero s1 then Ok s2 else if is_zero s2 then Ok s1 else operate_bin C tb s1 s2 s_plus.
Definition d_sub (a b : deepex D) : res (deepex D) := operate_bin C tb a b s_minus.
Definition d_mul (a b : deepex D) : res (deepex D) :=
  do ' (f1, f2) <- var_names_union a b;
  if is_zero f1 || is_zero f2 then do z <- d_zero; Ok (like_other z f1)
  else if is_one f1 then Ok f2
  else if is_one f2 then Ok f1
  else operate_bin C tb f1 f2 s_mul.
Definition d_div (a b : deepex D) : res (deepex D) :=
  do ' (n, d) <- var_names_union a b;
  if is_zero n && negb (is_zero d) then do z <- d_zero; Ok (like_other z n)
  else if is_one d then Ok n
  else operate_bin C tb n d s_div.
Definition d_pow (a b : deepex D) : res (deepex D) :=
  do ' (base, ex) <- var_names_union a b;
  if is_zero base && is_zero ex then Err E_POW00
  else if is_zero base then do z <- d_zero; Ok (like_other z base)
  else if is_zero ex then do o <- d_one; Ok (like_other o base)
  else if is_one ex then Ok base
  else operate_bin C tb base ex s_pow.
Definition d_neg (a : deepex D) : res (deepex D) := operate_unary C tb a s_minus.
End Calc.
