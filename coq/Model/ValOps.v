(* Model/ValOps.v — value.rs: the operators of ValOpsFactory::<i32, f64> on the mixed value type.
   Integers are mathematical integers with explicit range tests (i32).  Floats are Coq's primitive
   binary64 floats for the operations IEEE 754 fixes (+ - * / sqrt abs neg, comparisons, conversions);
   results of libm functions (sin, powf, ...) are not computed: they are `FAny`, "some float". *)
From Coq Require Import List ZArith Bool Floats.
Import ListNotations.
From Exmex.Model Require Import Base.
Open Scope Z_scope.

Inductive fval := FExact (f : float) | FAny.
Inductive val :=
| VArr (l : list fval) | VInt (z : Z) | VFloat (f : fval) | VBool (b : bool) | VErr | VNone
| VUnknown.      (* not decided by the model (a comparison of an FAny float) *)

Definition I_MIN : Z := - 2 ^ 31.
Definition I_MAX : Z := 2 ^ 31 - 1.
Definition I_BITS : Z := 32.
Definition in_range (z : Z) : bool := (I_MIN <=? z) && (z <=? I_MAX).
Definition checked (z : Z) : val := if in_range z then VInt z else VErr.
(* two's complement wrap-around (only `<<` wraps in the Rust) *)
Definition wrap (z : Z) : Z := (z + 2 ^ 31) mod 2 ^ 32 - 2 ^ 31.

(* ---- floats ---- *)
Definition f_of_Z (z : Z) : float :=      (* exact for |z| < 2^53 *)
  if z <? 0 then PrimFloat.opp (PrimFloat.of_uint63 (Uint63.of_Z (- z))) else PrimFloat.of_uint63 (Uint63.of_Z z).
Definition f_is_nan (f : float) : bool := negb (PrimFloat.eqb f f).
(* truncation toward zero of a finite float; None for NaN and infinities *)
Definition f_trunc_Z (f : float) : option Z :=
  match Prim2SF f with
  | S754_zero _ => Some 0
  | S754_finite s m e =>
      let mag := if 0 <=? e then Z.pos m * 2 ^ e else Z.shiftr (Z.pos m) (- e) in
      Some (if s then - mag else mag)
  | _ => None
  end.
Definition fv1 (op : float -> float) (a : fval) : fval := match a with FExact x => FExact (op x) | FAny => FAny end.
Definition fv2 (op : float -> float -> float) (a b : fval) : fval :=
  match a, b with FExact x, FExact y => FExact (op x y) | _, _ => FAny end.
(* f64::min / f64::max: the non-NaN operand wins; the sign of a zero result is not specified *)
Definition f_min (x y : float) : float := if f_is_nan x then y else if f_is_nan y then x else if PrimFloat.ltb y x then y else x.
Definition f_max (x y : float) : float := if f_is_nan x then y else if f_is_nan y then x else if PrimFloat.ltb x y then y else x.

Inductive cmp3 := CLt | CEq | CGt | CNone | CUnknown.
Definition f_cmp (a b : fval) : cmp3 :=
  match a, b with
  | FExact x, FExact y => if PrimFloat.ltb x y then CLt else if PrimFloat.eqb x y then CEq else if PrimFloat.ltb y x then CGt else CNone
  | _, _ => CUnknown
  end.
(* PartialOrd for Val (value.rs:252) *)
Definition v_cmp (a b : val) : cmp3 :=
  match a, b with
  | VFloat x, VFloat y => f_cmp x y
  | VInt x, VInt y => if x <? y then CLt else if x =? y then CEq else CGt
  | VFloat x, VInt y => f_cmp x (FExact (f_of_Z y))
  | VInt x, VFloat y => f_cmp (FExact (f_of_Z x)) y
  | _, _ => CNone
  end.
(* PartialEq for Val (value.rs:234); None = cannot be decided in the model (FAny operand) *)
Definition v_eq (a b : val) : option bool :=
  match a, b with
  | VBool x, VBool y => Some (Bool.eqb x y)
  | VFloat _, VFloat _ | VInt _, VInt _ | VFloat _, VInt _ | VInt _, VFloat _ =>
      match v_cmp a b with CEq => Some true | CUnknown => None | _ => Some false end
  | _, _ => Some false
  end.
Definition of_obool (o : option bool) : val := match o with Some b => VBool b | None => VUnknown end.
Definition cmp_op (f : cmp3 -> bool) (a b : val) : val :=
  match v_cmp a b with CUnknown => VUnknown | c => VBool (f c) end.

(* ---- arithmetic (base_arith!) ---- *)
Definition base_arith (fop : float -> float -> float) (iop : Z -> Z -> val) (a b : val) : val :=
  match a, b with
  | VFloat x, VFloat y => VFloat (fv2 fop x y)
  | VFloat y, VArr x => VArr (map (fun xi => fv2 fop xi y) x)          (* element OP scalar, also for scalar OP array *)
  | VArr x, VFloat y => VArr (map (fun xi => fv2 fop xi y) x)
  | VInt y, VArr x => VArr (map (fun xi => fv2 fop xi (FExact (f_of_Z y))) x)
  | VArr x, VInt y => VArr (map (fun xi => fv2 fop xi (FExact (f_of_Z y))) x)
  | VArr x, VArr y => VArr (map (fun p => fv2 fop (fst p) (snd p)) (combine x y))
  | VInt x, VInt y => iop x y
  | VFloat x, VInt y => VFloat (fv2 fop x (FExact (f_of_Z y)))
  | VInt x, VFloat y => VFloat (fv2 fop (FExact (f_of_Z x)) y)
  | VErr, _ => VErr
  | _, VErr => VErr
  | _, _ => VErr
  end.
Definition v_add := base_arith PrimFloat.add (fun x y => checked (x + y)).
Definition v_sub := base_arith PrimFloat.sub (fun x y => checked (x - y)).
Definition v_mul := base_arith PrimFloat.mul (fun x y => checked (x * y)).
(* checked_div: None for a zero divisor and for MIN / -1; Rust division truncates toward zero *)
Definition v_div_raw := base_arith PrimFloat.div (fun x y => if y =? 0 then VErr else checked (Z.quot x y)).
Definition v_div (a b : val) : val :=
  match a, b with VInt _, VInt 0 => VErr | _, _ => v_div_raw a b end.
Definition v_min := base_arith f_min (fun x y => VInt (Z.min x y)).
Definition v_max := base_arith f_max (fun x y => VInt (Z.max x y)).

(* single_type_arith! on Int *)
Definition int_only (f : Z -> Z -> val) (a b : val) : val :=
  match a, b with
  | VInt x, VInt y => f x y
  | VErr, _ => VErr | _, VErr => VErr
  | _, _ => VErr
  end.
Definition v_rem := int_only (fun a b => if b =? 0 then VErr else if (a =? I_MIN) && (b =? -1) then VErr else VInt (Z.rem a b)).
Definition v_bor := int_only (fun a b => VInt (Z.lor a b)).
Definition v_band := int_only (fun a b => VInt (Z.land a b)).
Definition v_bxor := int_only (fun a b => VInt (Z.lxor a b)).
Definition v_shr := int_only (fun a b => if (0 <=? b) && (b <? I_BITS) then VInt (Z.shiftr a b) else VErr).
Definition v_shl := int_only (fun a b => if (0 <=? b) && (b <? I_BITS) then VInt (wrap (Z.shiftl a b)) else VErr).

(* pow (value.rs:271): Int^Int through checked_pow; float powers are libm *)
Definition v_pow (a b : val) : val :=
  match a, b with
  | VFloat _, VFloat _ => VFloat FAny
  | VFloat _, VInt _ => VFloat FAny
  | VInt x, VInt y =>
      if y <? 0 then VErr
      else if (x =? 0) || (x =? 1) then VInt (if y =? 0 then 1 else x)
      else if x =? -1 then VInt (if Z.even y then 1 else -1)
      else if 64 <? y then VErr                        (* |x| >= 2: 2^64 is already out of range *)
      else checked (x ^ y)
  | VErr, _ => VErr | _, VErr => VErr
  | _, _ => VErr
  end.

Definition v_and (a b : val) : val :=
  match a, b with
  | VBool x, VBool y => VBool (x && y)
  | _, _ => match v_cmp a b with CLt | CEq => a | CUnknown => VUnknown | _ => b end
  end.
Definition v_or (a b : val) : val :=
  match a, b with
  | VBool x, VBool y => VBool (x || y)
  | _, _ => match v_cmp a b with CGt | CEq => a | CUnknown => VUnknown | _ => b end
  end.

Definition to_float_val (a : val) : val :=
  match a with
  | VBool b => VFloat (FExact (if b then 1%float else 0%float))
  | VInt n => VFloat (FExact (f_of_Z n))
  | VFloat x => VFloat x
  | _ => VErr
  end.
Definition v_atan2 (a b : val) : val :=
  match to_float_val a, to_float_val b with
  | VFloat _, VFloat _ => VFloat FAny
  | _, _ => VErr
  end.

Definition to_bool (c : val) : option (option bool) :=      (* None = error, Some None = undecided *)
  match c with
  | VBool b => Some (Some b)
  | VInt n => Some (Some (negb (n =? 0)))
  | VFloat (FExact x) => Some (Some (negb (PrimFloat.eqb x 0%float)))
  | VFloat FAny => Some None
  | _ => None
  end.
Definition v_if (v cond : val) : val :=
  match to_bool cond with
  | None => VErr
  | Some (Some true) => v
  | Some (Some false) => VNone
  | Some None => VUnknown
  end.
Definition v_else (r v : val) : val := match r with VNone => v | _ => r end.

Definition v_dot (a b : val) : val :=
  match a, b with
  | VArr x, VArr y =>
      if negb (Nat.eqb (length x) (length y)) then VErr
      else VFloat (fold_left (fun acc p => fv2 PrimFloat.add acc (fv2 PrimFloat.mul (fst p) (snd p))) (combine x y) (FExact 0%float))
  | VErr, _ => VErr | _, VErr => VErr
  | _, _ => VErr
  end.
Definition v_length (a : val) : val :=
  match v_dot a a with VFloat x => VFloat (fv1 PrimFloat.sqrt x) | _ => VErr end.
Definition v_cross (a b : val) : val :=
  match a, b with
  | VArr [a0; a1; a2], VArr [b0; b1; b2] =>
      let m := fv2 PrimFloat.mul in let s := fv2 PrimFloat.sub in
      VArr [s (m a1 b2) (m a2 b1); s (m a2 b0) (m a0 b2); s (m a0 b1) (m a1 b0)]
  | VArr _, VArr _ => VErr
  | VErr, _ => VErr | _, VErr => VErr
  | _, _ => VErr
  end.
Definition v_component (a i : val) : val :=
  match a, i with
  | VArr x, VInt n => if (n <? 0) || (Z.of_nat (length x) <=? n) then VErr
                      else match nth_error x (Z.to_nat n) with Some f => VFloat f | None => VErr end
  | VErr, _ => VErr | _, VErr => VErr
  | _, _ => VErr
  end.

(* ---- unary ---- *)
Definition float_only (f : fval -> fval) (a : val) : val :=
  match a with VFloat x => VFloat (f x) | VErr => VErr | _ => VErr end.
Definition libm : val -> val := float_only (fun _ => FAny).
Definition v_signum (a : val) : val :=
  match a with
  | VFloat x => VFloat (fv1 (fun f => if f_is_nan f then f
                                      else match Prim2SF f with
                                           | S754_zero true | S754_finite true _ _ | S754_infinity true => (-1)%float
                                           | _ => 1%float end) x)
  | VInt n => VInt (Z.sgn n)
  | _ => VErr
  end.
Definition v_abs (a : val) : val :=
  match a with
  | VInt n => if in_range (- n) then VInt (Z.abs n) else VErr
  | VFloat x => VFloat (fv1 PrimFloat.abs x)
  | _ => VErr
  end.
Definition v_minus (a : val) : val :=
  match a with
  | VInt n => checked (- n)
  | VFloat x => VFloat (fv1 PrimFloat.opp x)
  | VArr l => VArr (map (fv1 PrimFloat.opp) l)
  | _ => VErr
  end.
Fixpoint fact_nat (n : nat) : Z := match n with O => 1 | S m => Z.of_nat n * fact_nat m end.
Definition v_fact (a : val) : val :=
  match a with
  | VInt n => if n <? 0 then VErr else if 20 <? n then VErr else checked (fact_nat (Z.to_nat n))
  | _ => VErr
  end.
(* byte swap of an i32 *)
Definition swap32 (z : Z) : Z :=
  let u := z mod 2 ^ 32 in
  let b0 := u mod 256 in let b1 := (u / 256) mod 256 in let b2 := (u / 65536) mod 256 in let b3 := u / 16777216 in
  wrap (b0 * 16777216 + b1 * 65536 + b2 * 256 + b3).
Definition int_unary (f : Z -> Z) (a : val) : val := match a with VInt n => VInt (f n) | _ => VErr end.
Definition v_to_int (a : val) : val :=
  match a with
  | VInt n => VInt n
  | VFloat (FExact x) => match f_trunc_Z x with Some z => checked z | None => VErr end
  | VFloat FAny => VUnknown
  | VBool b => VInt (if b then 1 else 0)
  | _ => VErr
  end.
Definition v_to_float (a : val) : val :=
  match a with
  | VFloat x => VFloat x
  | VInt n => VFloat (FExact (f_of_Z n))
  | VBool b => VFloat (FExact (if b then 1%float else 0%float))
  | _ => VErr
  end.

(* operator tables by name; None = the name is not an operator of that kind *)
Definition S (l : list N) : str := l.
Definition vbin_table : list (str * (val -> val -> val)) :=
  [ (S [94]%N, v_pow); (S [43]%N, v_add); (S [45]%N, v_sub); (S [99;114;111;115;115]%N, v_cross); (S [100;111;116]%N, v_dot);
    (S [42]%N, v_mul); (S [47]%N, v_div); (S [97;116;97;110;50]%N, v_atan2); (S [37]%N, v_rem);
    (S [124]%N, v_bor); (S [38]%N, v_band); (S [88;79;82]%N, v_bxor); (S [62;62]%N, v_shr); (S [60;60]%N, v_shl);
    (S [38;38]%N, v_and); (S [124;124]%N, v_or);
    (S [61;61]%N, fun a b => of_obool (v_eq a b));
    (S [62;61]%N, cmp_op (fun c => match c with CGt | CEq => true | _ => false end));
    (S [62]%N, cmp_op (fun c => match c with CGt => true | _ => false end));
    (S [60;61]%N, cmp_op (fun c => match c with CLt | CEq => true | _ => false end));
    (S [60]%N, cmp_op (fun c => match c with CLt => true | _ => false end));
    (S [33;61]%N, fun a b => of_obool (option_map negb (v_eq a b)));
    (S [105;102]%N, v_if); (S [101;108;115;101]%N, v_else);
    (S [109;105;110]%N, v_min); (S [109;97;120]%N, v_max); (S [46]%N, v_component) ].
Definition vun_table : list (str * (val -> val)) :=
  [ (S [43]%N, fun x => x); (S [45]%N, v_minus);
    (S [115;105;103;110;117;109]%N, v_signum); (S [97;98;115]%N, v_abs);
    (S [115;105;110]%N, libm); (S [99;111;115]%N, libm); (S [116;97;110]%N, libm); (S [97;115;105;110]%N, libm); (S [97;99;111;115]%N, libm);
    (S [97;116;97;110]%N, libm); (S [115;105;110;104]%N, libm); (S [99;111;115;104]%N, libm); (S [116;97;110;104]%N, libm);
    (S [97;115;105;110;104]%N, libm); (S [97;99;111;115;104]%N, libm); (S [97;116;97;110;104]%N, libm);
    (S [102;108;111;111;114]%N, libm); (S [99;101;105;108]%N, libm); (S [116;114;117;110;99]%N, libm); (S [102;114;97;99;116]%N, libm);
    (S [101;120;112]%N, libm); (S [115;113;114;116]%N, float_only (fv1 PrimFloat.sqrt)); (S [99;98;114;116]%N, libm);
    (S [114;111;117;110;100]%N, libm); (S [108;110]%N, libm); (S [108;111;103;49;48]%N, libm); (S [108;111;103;50]%N, libm); (S [108;111;103]%N, libm);
    (S [115;119;97;112;95;98;121;116;101;115]%N, int_unary swap32); (S [116;111;95;108;101]%N, int_unary (fun z => z));
    (S [116;111;95;98;101]%N, int_unary swap32);
    (S [102;97;99;116]%N, v_fact); (S [116;111;95;105;110;116]%N, v_to_int); (S [116;111;95;102;108;111;97;116]%N, v_to_float);
    (S [108;101;110;103;116;104]%N, v_length) ].
Definition vbin (name : str) (a b : val) : option val :=
  match find (fun p => str_eqb (fst p) name) vbin_table with Some p => Some (snd p a b) | None => None end.
Definition vun (name : str) (a : val) : option val :=
  match find (fun p => str_eqb (fst p) name) vun_table with Some p => Some (snd p a) | None => None end.

(* ---- comparison of an observed value with the model's (floats bit for bit, zero signs of min/max aside) ---- *)
Definition f_same (x y : float) : bool :=
  match Prim2SF x, Prim2SF y with
  | S754_zero a, S754_zero b => Bool.eqb a b
  | S754_infinity a, S754_infinity b => Bool.eqb a b
  | S754_nan, S754_nan => true
  | S754_finite a m e, S754_finite b m' e' => Bool.eqb a b && Pos.eqb m m' && Z.eqb e e'
  | _, _ => false
  end.
Definition fv_same (zero_sign_free : bool) (a b : fval) : bool :=
  match a, b with
  | FExact x, FExact y => f_same x y || (zero_sign_free && PrimFloat.eqb x y && PrimFloat.eqb x 0%float)
  | _, _ => true          (* FAny on either side: only the kind is compared *)
  end.
Fixpoint fvs_same (z : bool) (a b : list fval) : bool :=
  match a, b with
  | [], [] => true
  | x :: a', y :: b' => fv_same z x y && fvs_same z a' b'
  | _, _ => false
  end.
Definition val_same (zero_sign_free : bool) (model impl : val) : bool :=
  match model, impl with
  | VUnknown, _ => true               (* the model could not decide a comparison on an FAny operand *)
  | VArr a, VArr b => fvs_same zero_sign_free a b
  | VInt a, VInt b => a =? b
  | VFloat a, VFloat b => fv_same zero_sign_free a b
  | VBool a, VBool b => Bool.eqb a b
  | VErr, VErr => true
  | VNone, VNone => true
  | _, _ => false
  end.
