//! Surface trees (the domain of "all well-formed expressions"), random generation, renderings,
//! and the independent reference interpreter (oracle) written from the documentation.
use crate::term::{OpSpec, Term};

pub struct Rng(pub u64);
impl Rng {
    pub fn new(seed: u64) -> Rng { Rng(seed.wrapping_mul(0x9E3779B97F4A7C15) | 1) }
    pub fn next(&mut self) -> u64 { self.0 ^= self.0 << 13; self.0 ^= self.0 >> 7; self.0 ^= self.0 << 17; self.0 }
    pub fn below(&mut self, n: usize) -> usize { if n == 0 { 0 } else { ((self.next() >> 11) % n as u64) as usize } }
    pub fn chance(&mut self, num: usize, den: usize) -> bool { self.below(den) < num }
    pub fn pick<'a, T>(&mut self, v: &'a [T]) -> &'a T { &v[self.below(v.len())] }
}

#[derive(Clone, Debug)]
pub enum Atom {
    Lit(String),
    Cst(usize),
    Var(String),
    /// non-empty list of unary operators in text order applied to an atom: `sin cos x`, `--x`
    Un(Vec<usize>, Box<Atom>),
    /// parenthesised chain with (possibly empty) unary operators in front: `(c)`, `sin(c)`, `-sin(c)`
    Group(Vec<usize>, Chain),
    /// binary operator in call form `op(a, b)`; semantically Group([], a op b) with a, b grouped
    Call(usize, Chain, Chain),
}
#[derive(Clone, Debug)]
pub struct Chain { pub first: Box<Atom>, pub rest: Vec<(usize, Atom)> }

pub struct GenCfg { pub max_depth: usize, pub lits: Vec<String>, pub vars: Vec<String>, pub lit_bias: usize, pub call_form: bool, pub max_chain: usize }
impl GenCfg {
    pub fn default_for(_tb: &[OpSpec]) -> GenCfg {
        GenCfg { max_depth: 5, lits: ["1","2","3","4","5","7","0.5","2.5","10"].iter().map(|s| s.to_string()).collect(),
                 // mixed-case names: their byte order (the order of the variable list) differs from their case-insensitive order
                 vars: ["x","Y","z","W","q","B"].iter().map(|s| s.to_string()).collect(), lit_bias: 5, call_form: false, max_chain: 5 }
    }
}
fn bins(tb: &[OpSpec]) -> Vec<usize> { (0..tb.len()).filter(|k| tb[*k].bin.is_some()).collect() }
fn uns(tb: &[OpSpec]) -> Vec<usize> { (0..tb.len()).filter(|k| tb[*k].unary).collect() }
fn csts(tb: &[OpSpec]) -> Vec<usize> { (0..tb.len()).filter(|k| tb[*k].constant).collect() }
pub fn is_alpha_name(s: &str) -> bool { s.chars().next().map(|c| c.is_alphabetic() || c == '_').unwrap_or(false) }

pub fn gen_chain(r: &mut Rng, tb: &[OpSpec], cfg: &GenCfg, depth: usize, size: &mut i32) -> Chain {
    let b = bins(tb);
    let n = if *size <= 0 || b.is_empty() { 0 } else { r.below(cfg.max_chain + 1) };
    let first = Box::new(gen_atom(r, tb, cfg, depth, size));
    let mut rest = vec![];
    for _ in 0..n { *size -= 1; let op = *r.pick(&b); rest.push((op, gen_atom(r, tb, cfg, depth, size))); }
    Chain { first, rest }
}
fn gen_leaf(r: &mut Rng, tb: &[OpSpec], cfg: &GenCfg) -> Atom {
    let c = csts(tb);
    if !c.is_empty() && r.chance(1, 10) { return Atom::Cst(*r.pick(&c)); }
    if r.below(10) < cfg.lit_bias { Atom::Lit(r.pick(&cfg.lits).clone()) } else { Atom::Var(r.pick(&cfg.vars).clone()) }
}
pub fn gen_atom(r: &mut Rng, tb: &[OpSpec], cfg: &GenCfg, depth: usize, size: &mut i32) -> Atom {
    let u = uns(tb);
    let c = r.below(10);
    let base = if c < 4 || depth >= cfg.max_depth || *size <= 0 { gen_leaf(r, tb, cfg) }
      else if c < 8 {
          let ch = gen_chain(r, tb, cfg, depth + 1, size);
          let alpha_bins: Vec<usize> = bins(tb).into_iter().filter(|k| is_alpha_name(&tb[*k].repr)).collect();
          if cfg.call_form && ch.rest.len() == 1 && alpha_bins.contains(&ch.rest[0].0) && r.chance(2, 3) {
              let (op, b) = ch.rest[0].clone();
              Atom::Call(op, Chain { first: ch.first, rest: vec![] }, Chain { first: Box::new(b), rest: vec![] })
          } else if cfg.call_form && !alpha_bins.is_empty() && r.chance(1, 3) {
              *size -= 1;
              let other = gen_chain(r, tb, cfg, depth + 1, size);
              Atom::Call(*r.pick(&alpha_bins), ch, other)
          } else { Atom::Group(vec![], ch) }
      }
      else if !u.is_empty() { let nu = 1 + r.below(2); let us = (0..nu).map(|_| *r.pick(&u)).collect(); Atom::Group(us, gen_chain(r, tb, cfg, depth + 1, size)) }
      else { Atom::Group(vec![], gen_chain(r, tb, cfg, depth + 1, size)) };
    if !u.is_empty() && r.chance(1, 5) {
        let nu = 1 + r.below(3); let us: Vec<usize> = (0..nu).map(|_| *r.pick(&u)).collect();
        match base {
            Atom::Group(u0, ch) if u0.is_empty() => Atom::Group(us, ch),
            Atom::Group(mut u0, ch) => { let mut v = us; v.append(&mut u0); Atom::Group(v, ch) }
            b => Atom::Un(us, Box::new(b)),
        }
    } else { base }
}

// ---- variables
pub fn vars_of_chain(c: &Chain, v: &mut Vec<String>) { vars_of_atom(&c.first, v); for (_, a) in &c.rest { vars_of_atom(a, v) } }
pub fn vars_of_atom(a: &Atom, v: &mut Vec<String>) {
    match a {
        Atom::Var(s) => if !v.contains(s) { v.push(s.clone()) },
        Atom::Un(_, a) => vars_of_atom(a, v),
        Atom::Group(_, c) => vars_of_chain(c, v),
        Atom::Call(_, a, b) => { vars_of_chain(a, v); vars_of_chain(b, v) }
        _ => (),
    }
}
pub fn sorted_vars(c: &Chain) -> Vec<String> { let mut v = vec![]; vars_of_chain(c, &mut v); v.sort(); v }
pub fn n_operands(c: &Chain) -> usize { n_operands_atom(&c.first) + c.rest.iter().map(|(_, a)| n_operands_atom(a)).sum::<usize>() }
fn n_operands_atom(a: &Atom) -> usize { match a { Atom::Un(_, a) => n_operands_atom(a), Atom::Group(_, c) => n_operands(c), Atom::Call(_, a, b) => n_operands(a) + n_operands(b), _ => 1 } }
pub fn depth_of(c: &Chain) -> usize { std::iter::once(&*c.first).chain(c.rest.iter().map(|(_, a)| a)).map(depth_atom).max().unwrap_or(0) }
fn depth_atom(a: &Atom) -> usize { match a { Atom::Un(_, a) => depth_atom(a), Atom::Group(_, c) => 1 + depth_of(c), Atom::Call(_, a, b) => 2 + depth_of(a).max(depth_of(b)), _ => 0 } }

// ---- reference semantics, straight from the documentation
pub fn ref_atom(a: &Atom, tb: &[OpSpec], vars: &[String]) -> Term {
    match a {
        Atom::Lit(s) => Term::Lit(s.clone()),
        Atom::Cst(k) => Term::Cst(*k),
        Atom::Var(s) => Term::Var(vars.iter().position(|x| x == s).expect("var")),
        Atom::Un(us, a) => us.iter().rev().fold(ref_atom(a, tb, vars), |t, u| Term::Un(*u, Box::new(t))),
        Atom::Group(us, c) => us.iter().rev().fold(ref_chain(c, tb, vars), |t, u| Term::Un(*u, Box::new(t))),
        Atom::Call(op, a, b) => Term::Bin(*op, Box::new(ref_chain(a, tb, vars)), Box::new(ref_chain(b, tb, vars))),
    }
}
pub fn ref_chain(c: &Chain, tb: &[OpSpec], vars: &[String]) -> Term {
    let mut vals: Vec<Term> = vec![ref_atom(&c.first, tb, vars)];
    let mut ops: Vec<usize> = vec![];
    for (op, a) in &c.rest { ops.push(*op); vals.push(ref_atom(a, tb, vars)); }
    fn go(vals: &[Term], ops: &[usize], tb: &[OpSpec]) -> Term {
        if ops.is_empty() { return vals[0].clone() }
        // the operator applied last: lowest priority, the rightmost among equals (left-to-right evaluation)
        let mut r = 0; for i in 0..ops.len() { if tb[ops[i]].bin.unwrap().0 <= tb[ops[r]].bin.unwrap().0 { r = i } }
        Term::Bin(ops[r], Box::new(go(&vals[..=r], &ops[..r], tb)), Box::new(go(&vals[r + 1..], &ops[r + 1..], tb)))
    }
    go(&vals, &ops, tb)
}

// ---- renderings
#[derive(Clone, Copy)]
pub struct RenderCfg { pub spaces: bool, pub braces: bool, pub redundant_parens: bool, pub call_space: bool }
impl RenderCfg { pub fn plain() -> Self { RenderCfg { spaces: false, braces: false, redundant_parens: false, call_space: false } } }

struct Out { s: String }
impl Out {
    /// appends a token, inserting a space where two tokens would otherwise lex as one
    fn tok(&mut self, t: &str, r: &mut Rng, cfg: &RenderCfg) {
        let last = self.s.chars().last();
        let first = t.chars().next();
        let glue = match (last, first) {
            (Some(a), Some(b)) => {
                let idc = |c: char| c.is_alphanumeric() || c == '_' || c == '.';
                (idc(a) && idc(b)) || (!idc(a) && !idc(b) && !"(){},".contains(a) && !"(){},".contains(b) && a != ' ')
            }
            _ => false,
        };
        if glue || (cfg.spaces && r.chance(1, 3)) { self.s.push(' '); if cfg.spaces && r.chance(1, 6) { self.s.push(' ') } }
        self.s.push_str(t);
    }
}
pub fn render(c: &Chain, tb: &[OpSpec], r: &mut Rng, cfg: &RenderCfg) -> String {
    let mut o = Out { s: String::new() };
    if cfg.spaces && r.chance(1, 5) { o.s.push(' ') }
    render_chain(c, tb, r, cfg, &mut o);
    if cfg.spaces && r.chance(1, 5) { o.s.push(' ') }
    o.s
}
fn render_chain(c: &Chain, tb: &[OpSpec], r: &mut Rng, cfg: &RenderCfg, o: &mut Out) {
    render_atom(&c.first, tb, r, cfg, o);
    for (op, a) in &c.rest { o.tok(&tb[*op].repr, r, cfg); render_atom(a, tb, r, cfg, o); }
}
fn render_atom(a: &Atom, tb: &[OpSpec], r: &mut Rng, cfg: &RenderCfg, o: &mut Out) {
    let wrap = cfg.redundant_parens && r.chance(1, 8) && !matches!(a, Atom::Un(..));
    if wrap { o.tok("(", r, cfg) }
    match a {
        Atom::Lit(s) => o.tok(s, r, cfg),
        Atom::Cst(k) => o.tok(&tb[*k].repr, r, cfg),
        Atom::Var(s) => {
            let plain_ident = s.chars().all(|c| c.is_ascii_alphanumeric() || c == '_' || ('α'..='ω').contains(&c) || ('Α'..='Ω').contains(&c))
                && s.chars().next().map(|c| !c.is_ascii_digit()).unwrap_or(false);
            if !plain_ident || (cfg.braces && r.chance(1, 3)) { o.tok(&format!("{{{s}}}"), r, cfg) } else { o.tok(s, r, cfg) }
        }
        Atom::Un(us, a) => { for u in us { o.tok(&tb[*u].repr, r, cfg) } render_atom(a, tb, r, cfg, o) }
        Atom::Group(us, ch) => {
            for u in us { o.tok(&tb[*u].repr, r, cfg) }
            o.tok("(", r, cfg); render_chain(ch, tb, r, cfg, o); o.tok(")", r, cfg)
        }
        Atom::Call(op, x, y) => {
            o.tok(&tb[*op].repr, r, cfg); o.tok("(", r, cfg); render_chain(x, tb, r, cfg, o);
            o.tok(",", r, cfg); if cfg.call_space { o.s.push(' ') }
            render_chain(y, tb, r, cfg, o); o.tok(")", r, cfg)
        }
    }
    if wrap { o.tok(")", r, cfg) }
}
/// the same tree with every call written as ((a) op (b))
pub fn uncall_chain(c: &Chain) -> Chain { Chain { first: Box::new(uncall_atom(&c.first)), rest: c.rest.iter().map(|(o, a)| (*o, uncall_atom(a))).collect() } }
fn uncall_atom(a: &Atom) -> Atom {
    match a {
        Atom::Un(u, a) => Atom::Un(u.clone(), Box::new(uncall_atom(a))),
        Atom::Group(u, c) => Atom::Group(u.clone(), uncall_chain(c)),
        Atom::Call(op, x, y) => Atom::Group(vec![], Chain { first: Box::new(Atom::Group(vec![], uncall_chain(x))), rest: vec![(*op, Atom::Group(vec![], uncall_chain(y)))] }),
        x => x.clone(),
    }
}

// ---- operator tables
pub fn std_tables() -> Vec<Vec<OpSpec>> {
    vec![
        // float-like
        vec![OpSpec::bin_un("+", 0, true), OpSpec::bin_un("-", 1, false), OpSpec::bin("*", 2, true), OpSpec::bin("/", 3, false), OpSpec::bin("^", 4, false),
             OpSpec::un("sin"), OpSpec::un("cos"), OpSpec::bin("atan2", 0, false), OpSpec::cst("PI"), OpSpec::bin("max", 0, false), OpSpec::un("ln")],
        // equal priorities shared by commutative and non-commutative operators
        vec![OpSpec::bin_un("+", 3, true), OpSpec::bin_un("-", 3, false), OpSpec::bin("*", 4, true), OpSpec::bin("/", 5, false), OpSpec::bin("%", 5, false),
             OpSpec::bin("&", 3, true), OpSpec::un("sin"), OpSpec::un("!"), OpSpec::bin("min", 0, false), OpSpec::cst("E")],
        // extreme priorities, all flagged
        vec![OpSpec::bin("+", 99, true), OpSpec::bin("#", 99, true), OpSpec::bin_un("-", 0, false), OpSpec::un("f"), OpSpec::bin("@", 98, true), OpSpec::bin("mod", 50, false)],
        // no flags at all
        vec![OpSpec::bin_un("+", 1, false), OpSpec::bin_un("-", 1, false), OpSpec::bin("*", 2, false), OpSpec::bin("<", 0, false), OpSpec::bin("<=", 0, false),
             OpSpec::bin("<<", 2, false), OpSpec::un("log"), OpSpec::un("log2"), OpSpec::un("log10"), OpSpec::cst("π"), OpSpec::cst("e")],
    ]
}
pub fn random_table(r: &mut Rng) -> Vec<OpSpec> {
    let prios = [0i64, 1, 2, 50, 98, 99];
    let sym = ["+", "-", "*", "/", "^", "%", "&", "|", "<", "<=", "<<", "==", "!=", "#", "@", "~", "!"];
    let alpha = ["sin", "cos", "log", "log2", "log10", "lo", "l", "min", "max", "mod", "atan2", "f", "g", "neg", "abs"];
    let mut used: Vec<&str> = vec![];
    let mut tb = vec![];
    let nb = 2 + r.below(6); let nu = 1 + r.below(4); let nc = r.below(3);
    let mut fresh = |r: &mut Rng, pool: &[&'static str], used: &mut Vec<&'static str>| -> Option<&'static str> {
        for _ in 0..20 { let c = *r.pick(pool); if !used.contains(&c) { used.push(c); return Some(c) } } None };
    let mut used2: Vec<&'static str> = vec![];
    let _ = &mut used;
    for _ in 0..nb {
        let pool: &[&'static str] = if r.chance(3, 4) { &sym } else { &alpha };
        if let Some(n) = fresh(r, pool, &mut used2) {
            if n == "!" || n == "~" { tb.push(OpSpec::un(n)); continue }
            let p = *r.pick(&prios); let c = r.chance(1, 2);
            if (n == "+" || n == "-") && r.chance(3, 4) { tb.push(OpSpec::bin_un(n, p, c)) } else { tb.push(OpSpec::bin(n, p, c)) }
        }
    }
    for _ in 0..nu { if let Some(n) = fresh(r, &alpha, &mut used2) { tb.push(OpSpec::un(n)) } }
    let cn = ["PI", "E", "TAU", "π", "K"];
    for _ in 0..nc { if let Some(n) = fresh(r, &cn, &mut used2) { tb.push(OpSpec::cst(n)) } }
    if !tb.iter().any(|o| o.bin.is_some()) { tb.push(OpSpec::bin("+", 1, true)) }
    tb
}
