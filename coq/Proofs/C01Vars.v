(* Proofs/C01Vars.v — the variable list the parsers compute for the rendering of a surface tree contains every variable
   of the tree; the free term algebra with the associativity congruence of the flagged operators. *)
From Coq Require Import List Arith Lia Bool ZArith Sorting.Sorted.
Import ListNotations.
From Exmex.Model Require Import Base EvalBinary Lexer Flat.
From Exmex.Spec Require Import RefSem.
From Exmex.Proofs Require Import Vars FlStruct FlSem WalkSim.
Open Scope nat_scope.

Section VarsOfTree.
Context {D : Type}.

Lemma In_flatten_rest (l : list (nat * atom (D:=D))) o b t : In (o, b) l -> In t (flatten_atom b) -> In t (flatten_rest l).
Proof.
  induction l as [|[o' b'] l IH]; intros Hin Ht; [destruct Hin|]. cbn [flatten_rest].
  destruct Hin as [Heq|Hin]; [inversion Heq; subst; right; apply in_or_app; left; exact Ht|right; apply in_or_app; right; apply IH; assumption].
Qed.

Lemma vars_in_tokens (ts : list (token D)) : forall n,
  (forall a, asize a <= n -> (forall t, In t (flatten_atom a) -> In t ts) -> vars_in_atom (find_parsed_vars ts) a) /\
  (forall l, rsize l <= n -> (forall t, In t (flatten_rest l) -> In t ts) -> vars_in_rest (find_parsed_vars ts) l).
Proof.
  induction n as [|n [IHa IHr]].
  - split; [intros a H; pose proof (asize_pos a); lia|]. intros l H _. destruct l as [|[o b] tl]; [exact I|]. cbn in H. pose proof (asize_pos b). lia.
  - assert (Hatom : forall a, asize a <= S n -> (forall t, In t (flatten_atom a) -> In t ts) -> vars_in_atom (find_parsed_vars ts) a).
    { intros a Hs Hsub. destruct a as [us [v|x]|us a0 rest].
      - exact I.
      - cbn [vars_in_atom]. apply index_of_complete. apply find_parsed_vars_spec. apply Hsub. cbn [flatten_atom]. apply in_or_app. right. left. reflexivity.
      - rewrite asize_group in Hs. apply vars_in_group. rewrite flatten_atom_group in Hsub. split.
        + apply IHa; [lia|]. intros t Ht. apply Hsub. apply in_or_app. right. right. apply in_or_app. left. exact Ht.
        + apply IHr; [lia|]. intros t Ht. apply Hsub. apply in_or_app. right. right. apply in_or_app. right. apply in_or_app. left. exact Ht. }
    split; [exact Hatom|].
    intros l Hs Hsub. destruct l as [|[o b] tl]; [exact I|]. cbn [rsize] in Hs. cbn [vars_in_rest]. pose proof (asize_pos b). split.
    + apply Hatom; [lia|]. intros t Ht. apply Hsub. cbn [flatten_rest]. right. apply in_or_app. left. exact Ht.
    + apply IHr; [lia|]. intros t Ht. apply Hsub. cbn [flatten_rest]. right. apply in_or_app. right. exact Ht.
Qed.

Theorem vars_in_chain (c : chain (D:=D)) :
  vars_in_atom (find_parsed_vars (flatten c)) (fst c) /\ vars_in_rest (find_parsed_vars (flatten c)) (snd c).
Proof.
  destruct c as [a0 rest]. cbn [fst snd]. unfold flatten. cbn [fst snd].
  destruct (vars_in_tokens (flatten_atom a0 ++ flatten_rest rest) (asize a0)) as [Ha _].
  destruct (vars_in_tokens (flatten_atom a0 ++ flatten_rest rest) (rsize rest)) as [_ Hr].
  split; [apply Ha; [lia|]|apply Hr; [lia|]]; intros t Ht; apply in_or_app; [left|right]; exact Ht.
Qed.
End VarsOfTree.

(* ---- the free term algebra modulo associativity of the flagged operators ---- *)
Section Aeq.
Variable tb : optable.
Inductive aeq : term -> term -> Prop :=
| aeq_refl t : aeq t t
| aeq_sym s t : aeq s t -> aeq t s
| aeq_trans r s t : aeq r s -> aeq s t -> aeq r t
| aeq_assoc k a b c : comm_of tb k = true -> aeq (Bin k (Bin k a b) c) (Bin k a (Bin k b c))
| aeq_un k a a' : aeq a a' -> aeq (Un k a) (Un k a')
| aeq_bin k a a' b b' : aeq a a' -> aeq b b' -> aeq (Bin k a b) (Bin k a' b').

(* when no operator is flagged the congruence is equality *)
Lemma aeq_eq_when_unflagged : (forall k, comm_of tb k = false) -> forall s t, aeq s t -> s = t.
Proof.
  intros Hno s t H. induction H; try congruence.
Qed.

(* every interpretation in which the flagged operators are associative respects the congruence *)
Section Interp.
Context {D : Type}.
Variable C : carrier D.
Variable env : nat -> D.
Hypothesis Hassoc : forall k, comm_of tb k = true -> forall a b c, binf C k (binf C k a b) c = binf C k a (binf C k b c).
Fixpoint interp (t : term) : D :=
  match t with
  | Lit s => match lit C s with Some d => d | None => dflt C end
  | Cst k => cst C k
  | V i => env i
  | Un k a => unf C k (interp a)
  | Bin k a b => binf C k (interp a) (interp b)
  | Dflt => dflt C
  end.
Lemma interp_aeq s t : aeq s t -> interp s = interp t.
Proof. intros H. induction H; cbn [interp]; try congruence. apply Hassoc. exact H. Qed.
End Interp.
End Aeq.
