(* C04 — variables are found, ordered and bound exactly as documented.  Property theorems only. *)
From Coq Require Import List Arith Sorting.Sorted.
Import ListNotations.
From Exmex.Model Require Import Base EvalBinary Lexer Flat Deep.
From Exmex.Proofs Require Import Vars.
Open Scope nat_scope.

(* The variable list computed by both parsers (find_parsed_vars) is, for EVERY token list: strictly increasing in
   Rust string order (lexicographic on code points = UTF-8 byte order), hence duplicate free, and contains exactly
   the names of the variable tokens.  `{x}` and `x` produce the same token TVar x in the tokenizer, so braced
   and bare spellings are one variable. *)
Theorem C04_vars_sorted_distinct_complete : forall (D : Type) (ts : list (token D)),
  StronglySorted str_lt (find_parsed_vars ts) /\ NoDup (find_parsed_vars ts) /\
  (forall x, In x (find_parsed_vars ts) <-> In (TVar x) ts).
Proof. exact @find_parsed_vars_spec. Qed.

(* binding: the index a variable node receives is the position of its name in that list, and every name that
   occurs has one (find_var_index cannot panic on parser-produced input) *)
Theorem C04_binding_is_position : forall (x : str) (vars : list str) (i : nat),
  var_index vars x = Ok i -> nth_error vars i = Some x.
Proof.
  intros x vars i H. unfold var_index in H. destruct (index_of x vars 0) as [j|] eqn:E; [|discriminate].
  inversion H; subst. destruct (index_of_spec x vars 0 i E) as [_ Hn]. rewrite Nat.sub_0_r in Hn. exact Hn.
Qed.
Theorem C04_every_variable_has_an_index : forall (D : Type) (ts : list (token D)) (x : str),
  In (TVar x) ts -> exists i, var_index (find_parsed_vars ts) x = Ok i.
Proof.
  intros D ts x Hin. unfold var_index.
  destruct (index_of_complete x (find_parsed_vars ts) 0) as [j Hj]; [apply find_parsed_vars_spec; exact Hin|].
  rewrite Hj. eauto.
Qed.

(* arity: evaluation with the wrong number of values is an error, never a result; the relaxed variant rejects too few *)
Theorem C04_arity_flat : forall (D : Type) (C : carrier D) (fx : flatex D) (vals : list D),
  length vals <> length (fvars fx) -> eval_flat C fx vals = Err E_ARITY.
Proof.
  intros D C fx vals H. unfold eval_flat. destruct (Nat.eqb_spec (length (fvars fx)) (length vals)); [congruence|reflexivity].
Qed.
Theorem C04_arity_flat_relaxed : forall (D : Type) (C : carrier D) (fx : flatex D) (vals : list D),
  length vals < length (fvars fx) -> eval_flat_relaxed C fx vals = Err E_ARITY.
Proof.
  intros D C fx vals H. unfold eval_flat_relaxed. destruct (Nat.ltb_spec (length vals) (length (fvars fx))); [reflexivity|].
  exfalso. apply (Nat.lt_irrefl (length vals)). eapply Nat.lt_le_trans; eassumption.
Qed.
Theorem C04_arity_deep : forall (D : Type) (C : carrier D) (dx : deepex D) (vals : list D),
  length vals <> length (dvars dx) -> eval_deep C dx vals = Err E_ARITY.
Proof.
  intros D C dx vals H. unfold eval_deep. destruct (Nat.eqb_spec (length (dvars dx)) (length vals)); [congruence|reflexivity].
Qed.
(* relaxed evaluation with surplus values is evaluation proper on the flat form *)
Theorem C04_relaxed_ignores_surplus : forall (D : Type) (C : carrier D) (fx : flatex D) (vals : list D),
  length (fvars fx) <= length vals -> eval_flat_relaxed C fx vals = eval_cloning C fx vals.
Proof.
  intros D C fx vals H. unfold eval_flat_relaxed. destruct (Nat.ltb_spec (length vals) (length (fvars fx))); [|reflexivity].
  exfalso. apply (Nat.lt_irrefl (length vals)). eapply Nat.lt_le_trans; eassumption.
Qed.

Print Assumptions C04_vars_sorted_distinct_complete.
Print Assumptions C04_binding_is_position.
Print Assumptions C04_every_variable_has_an_index.
Print Assumptions C04_arity_flat.
