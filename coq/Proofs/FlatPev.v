(* Proofs/FlatPev.v — evaluation of ANY flat expression whose schedule is the one prioritized_indices_flat computes
   is, modulo R, the precedence evaluation (Pev) of its operator records over its node values. *)
From Coq Require Import List Arith Lia Bool ZArith.
Import ListNotations.
From Exmex.Model Require Import Base EvalBinary Lexer Flat.
From Exmex.Proofs Require Import ChainMachine SortedRef EvalBinaryCorrect FlatEval Pev PevFold FlVals BumpInst.
Open Scope nat_scope.

(* ref_val only looks at the operators and keys of the ids that occur in the list *)
Section RefValExt.
Context {D : Type}.
Lemma root_of_ext (key key' : nat -> Z) : forall (tl : pairs D) best,
  (forall i, In i (best :: map fst tl) -> key i = key' i) -> @root_of D key tl best = @root_of D key' tl best.
Proof.
  induction tl as [|[j y] tl IH]; intros best H; [reflexivity|]. cbn [root_of].
  assert (E : later key best j = later key' best j).
  { unfold later. rewrite (H best (or_introl eq_refl)), (H j (or_intror (or_introl eq_refl))). reflexivity. }
  rewrite E. apply IH. intros i Hi. apply H. destruct (later key' best j); cbn in *; intuition.
Qed.
Lemma split_at_ids : forall (l : pairs D) r l1 y l2, @split_at D r l = Some (l1, y, l2) ->
  (forall i, In i (map fst l1) -> In i (map fst l)) /\ (forall i, In i (map fst l2) -> In i (map fst l)) /\ In r (map fst l).
Proof.
  induction l as [|[j z] tl IH]; intros r l1 y l2 H; [discriminate|]. cbn [split_at] in H.
  destruct (Nat.eqb_spec r j) as [->|Hne].
  - inversion H; subst. cbn. intuition.
  - destruct (split_at r tl) as [[[l1' y'] l2']|] eqn:E; [|discriminate]. inversion H; subst.
    destruct (IH _ _ _ _ E) as (H1 & H2 & H3). cbn. repeat split; intros; intuition.
Qed.
Lemma ref_val_ext (opf opf' : nat -> D -> D -> D) (key key' : nat -> Z) : forall n x (l : pairs D),
  (forall i, In i (map fst l) -> key i = key' i /\ forall a b, opf i a b = opf' i a b) ->
  @ref_val D opf key n x l = @ref_val D opf' key' n x l.
Proof.
  induction n as [|n IH]; intros x l H; [reflexivity|].
  destruct l as [|[j z] tl]; [reflexivity|]. cbn [ref_val].
  rewrite (root_of_ext key key' tl j) by (intros i Hi; apply H; exact Hi).
  destruct (split_at (root_of key' tl j) ((j, z) :: tl)) as [[[l1 y] l2]|] eqn:E; [|reflexivity].
  destruct (split_at_ids _ _ _ _ _ E) as (H1 & H2 & H3).
  rewrite (proj2 (H _ H3)). rewrite (IH x l1), (IH y l2); [reflexivity| |]; intros i Hi; apply H; auto.
Qed.
End RefValExt.


(* list algebra: the records of a contiguous chain *)
Lemma map_nth_combine {A B} (d1 : A) (d2 : B) : forall (l : list A) (m : list B) off, length m = length l ->
  map (fun j => (nth (j - off) l d1, nth (j - off) m d2)) (seq off (length l)) = combine l m.
Proof.
  induction l as [|a l IH]; intros m off Hl; [reflexivity|]. destruct m as [|b m]; [discriminate|].
  cbn [length seq map combine]. rewrite Nat.sub_diag. cbn [nth]. f_equal.
  rewrite <- (IH m (S off)) by (cbn in Hl; lia).
  apply map_ext_in. intros j Hj. apply in_seq in Hj. replace (j - off) with (S (j - S off)) by lia. reflexivity.
Qed.
Lemma to_recs_chain_from {D : Type} (C : carrier D) (ops : list fop) (x : D) (rest : list D) (dummy : fop) : length rest = length ops ->
  to_recs (fun i => nth i ops dummy) (chain_from D (EvalBinaryCorrect.vals_of D (dflt C) (x :: rest)) 0 (length ops)) = combine ops rest.
Proof.
  intros Hl. unfold to_recs, chain_from. rewrite map_map. cbn [fst snd].
  rewrite <- (map_nth_combine dummy (dflt C) ops rest 0 Hl).
  apply map_ext. intros j. rewrite Nat.sub_0_r. reflexivity.
Qed.


Section FlatPev.
Context {D : Type}.
Variable C : carrier D.
Variable R : D -> D -> Prop.
Hypothesis R_refl : forall a, R a a.
Hypothesis R_sym : forall a b, R a b -> R b a.
Hypothesis R_trans : forall a b c, R a b -> R b c -> R a c.
Hypothesis R_bin : forall k a a' b b', R a a' -> R b b' -> R (binf C k a b) (binf C k a' b').
Hypothesis R_un : forall k a a', R a a' -> R (unf C k a) (unf C k a').
Variable vals : list D.
Local Notation nval := (nval C vals).

Definition in_range (nodes : list (fnode D)) : Prop := forall n i, In n nodes -> nkind n = FVar i -> i < length vals.

Lemma mapM_node_val_range nodes : in_range nodes -> mapM (node_val C vals) nodes = Ok (map nval nodes).
Proof.
  induction nodes as [|n nodes IH]; intros Hok; [reflexivity|]. cbn [mapM map].
  assert (Hn : node_val C vals n = Ok (nval n)).
  { unfold node_val, FlVals.nval. destruct (nkind n) as [v|i] eqn:Ek; [reflexivity|].
    pose proof (Hok n i (or_introl eq_refl) Ek) as Hi. destruct (nth_error vals i) as [v|] eqn:En; [|apply nth_error_None in En; lia].
    rewrite (nth_error_nth _ _ (dflt C) En). reflexivity. }
  rewrite Hn. cbn [bind]. rewrite IH by (intros m i Hin; apply Hok; right; exact Hin). reflexivity.
Qed.

(* out of range: the same panic whatever else the expression contains, as long as the variable nodes are the same *)
Definition var_nodes (nodes : list (fnode D)) : list nat :=
  flat_map (fun n => match nkind n with FVar i => [i] | FNum _ => [] end) nodes.
Lemma mapM_node_val_fail nodes : ~ in_range nodes -> mapM (node_val C vals) nodes = Panic 319.
Proof.
  induction nodes as [|n nodes IH]; intros Hno.
  - exfalso. apply Hno. intros ? ? [].
  - cbn [mapM]. unfold node_val at 1. destruct (nkind n) as [v|i] eqn:Ek.
    + cbn [bind]. rewrite IH; [reflexivity|]. intros Hr. apply Hno. intros m j [<-|Hin] Hk; [congruence|eauto].
    + destruct (nth_error vals i) as [v|] eqn:En; [|reflexivity]. cbn [bind].
      rewrite IH; [reflexivity|]. intros Hr. apply Hno. intros m j [<-|Hin] Hk; [|eauto].
      rewrite Ek in Hk. inversion Hk; subst. apply nth_error_Some. congruence.
Qed.
Lemma in_range_var_nodes nodes : in_range nodes <-> forall i, In i (var_nodes nodes) -> i < length vals.
Proof.
  unfold in_range, var_nodes. split.
  - intros H i Hin. apply in_flat_map in Hin. destruct Hin as (n & Hn & Hi). destruct (nkind n) as [v|j] eqn:Ek; [destruct Hi|].
    destruct Hi as [<-|[]]. eauto.
  - intros H n i Hn Hk. apply H. apply in_flat_map. exists n. split; [exact Hn|]. rewrite Hk. left. reflexivity.
Qed.

Theorem eval_numbers_is_pev (n0 : fnode D) (nt : list (fnode D)) (ops : list fop) :
  length nt = length ops ->
  (forall o, In o ops -> fcomm o = true ->
     forall a b c, R (binf C (fidx o) (binf C (fidx o) a b) c) (binf C (fidx o) a (binf C (fidx o) b c))) ->
  exists v, eval_numbers C (map nval (n0 :: nt)) ops (prioritized_indices_flat true ops (n0 :: nt)) = Ok v /\
            R v (pv C (nval n0) (combine ops (map nval nt))).
Proof.
  intros Hl Hassoc. cbn [map]. set (x := nval n0). set (restv := map nval nt).
  assert (Hlr : length restv = length ops) by (unfold restv; rewrite map_length; exact Hl).
  rewrite (eval_numbers_is_ref C true (n0 :: nt) ops x restv Hlr).
  eexists. split; [reflexivity|].
  set (l := chain_from D (EvalBinaryCorrect.vals_of D (dflt C) (x :: restv)) 0 (length ops)).
  assert (Hcontig : @Bump.contig D 0 l).
  { unfold Bump.contig, l. rewrite chain_from_ids. unfold chain_from. rewrite map_length, seq_length. reflexivity. }
  assert (Hll : length l <= length ops) by (unfold l, chain_from; rewrite map_length, seq_length; lia).
  pose proof (bump_invisible_flat C R R_refl R_sym R_trans R_bin R_un (n0 :: nt) ops Hassoc (length ops) x l 0 Hll Hcontig) as Hbump.
  unfold keyb in Hbump.
  eapply R_trans; [exact Hbump|].
  set (dummy := {| fprio := 0; fidx := 0; fcomm := false; fun_ := [] |}).
  rewrite (ref_val_ext (op_at C ops) (fun i a b => apply_op C (nth i ops dummy) a b) (BumpInst.key0 ops) (fun i => (fprio (nth i ops dummy) * 10)%Z)).
  2:{ intros i Hi. unfold l in Hi. change (map fst (chain_from D _ 0 (length ops))) with (ids (chain_from D (EvalBinaryCorrect.vals_of D (dflt C) (x :: restv)) 0 (length ops))) in Hi.
      rewrite chain_from_ids in Hi. apply in_seq in Hi.
      destruct (nth_error ops i) as [o|] eqn:En; [|apply nth_error_None in En; lia].
      unfold BumpInst.key0, op_at. rewrite En. rewrite (nth_error_nth _ _ dummy En). split; [reflexivity|reflexivity]. }
  rewrite (ref_val_is_pev C (fun i => nth i ops dummy) (length ops) x l 0) by (unfold l; apply chain_from_inc).
  unfold l. rewrite (to_recs_chain_from C ops x restv dummy Hlr).
  unfold pv. rewrite combine_length, Hlr, Nat.min_id. apply R_refl.
Qed.
End FlatPev.
