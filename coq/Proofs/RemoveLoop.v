(* Proofs/RemoveLoop.v — a reduction loop in the style of partial.rs / FlatEx::compile (schedule of operator indices, an
   array with the current position of the left operand of every scheduled operator, the right operand removed and the
   later positions shifted) with a FALLIBLE combining operation, simulated by the chain machine over semantic values:
   if the loop succeeds, the chain machine run over the related values yields related values. *)
From Coq Require Import List Arith Lia Bool.
Import ListNotations.
From Exmex.Model Require Import Base.
From Exmex.Proofs Require Import ChainMachine CompileRefine.
Open Scope nat_scope.

Section RemoveLoop.
Context {A V : Type}.
Variable opA : nat -> A -> A -> res A.
Variable opS : nat -> V -> V -> V.
Variable Rel : A -> V -> Prop.
Hypothesis op_sim : forall k a b c sa sb, Rel a sa -> Rel b sb -> opA k a b = Ok c -> Rel c (opS k sa sb).

Fixpoint rloop (sigma : list nat) (i : nat) (num_inds : list nat) (nodes : list A) : res (list A) :=
  match sigma with
  | [] => Ok nodes
  | b :: stl =>
      match nth_error num_inds i with
      | None => Panic 326
      | Some p =>
          match nth_error nodes p, nth_error nodes (S p) with
          | Some n1, Some n2 =>
              do c <- opA b n1 n2;
              rloop stl (S i) (map (fun j => if Nat.ltb p j then pred j else j) num_inds) (remove_nth (S p) (set_nth p c nodes))
          | _, _ => Panic 327
          end
      end
  end.

Local Notation pairs := (@ChainMachine.pairs V).
Local Notation ids := (@ChainMachine.ids V).
Local Notation step := (@ChainMachine.step V opS).
Local Notation run := (@ChainMachine.run V opS).

(* one step of the chain machine, by position *)
Lemma step_pos : forall (l : pairs) (x : V) p i y, nth_error l p = Some (i, y) -> ~ In i (ids (firstn p l)) ->
  exists a, nth_error (x :: map snd l) p = Some a /\
    exists x' l', step i x l = Some (x', l') /\
      x' :: map snd l' = remove_nth (S p) (set_nth p (opS i a y) (x :: map snd l)) /\ ids l' = remove_nth p (ids l).
Proof.
  induction l as [|[j z] tl IH]; intros x p i y Hn Hnin; [destruct p; discriminate|].
  destruct p.
  - cbn in Hn. inversion Hn; subst j z. exists x. split; [reflexivity|]. cbn [ChainMachine.step]. rewrite Nat.eqb_refl.
    exists (opS i x y), tl. repeat split; reflexivity.
  - cbn in Hn. cbn [firstn ChainMachine.ids map fst] in Hnin.
    assert (Hne : i <> j) by (intros E; apply Hnin; left; symmetry; exact E).
    destruct (IH z p i y Hn (fun H => Hnin (or_intror H))) as (a & Ha & x' & l' & Hs & Hv & Hi).
    exists a. split; [exact Ha|]. cbn [ChainMachine.step]. destruct (Nat.eqb_spec i j) as [E|_]; [contradiction|].
    rewrite Hs. exists x, ((j, x') :: l'). split; [reflexivity|]. cbn [map snd fst ChainMachine.ids] in *. cbn [set_nth remove_nth].
    rewrite Hv. unfold ChainMachine.ids in Hi. rewrite Hi. split; reflexivity.
Qed.

Lemma Forall2_set_nth : forall (l : list A) (m : list V) p a s, Forall2 Rel l m -> Rel a s -> Forall2 Rel (set_nth p a l) (set_nth p s m).
Proof.
  intros l m p a s H. revert p. induction H as [|x y l m Hxy Hl IH]; intros p Has; [destruct p; constructor|].
  destruct p; cbn [set_nth]; constructor; try assumption. apply IH. exact Has.
Qed.
Lemma Forall2_remove_nth : forall (l : list A) (m : list V) p, Forall2 Rel l m -> Forall2 Rel (remove_nth p l) (remove_nth p m).
Proof.
  intros l m p H. revert p. induction H as [|x y l m Hxy Hl IH]; intros p; [destruct p; constructor|].
  destruct p; cbn [remove_nth]; [exact Hl|constructor; auto].
Qed.
Lemma Forall2_nth_error : forall (l : list A) (m : list V) p a, Forall2 Rel l m -> nth_error l p = Some a ->
  exists s, nth_error m p = Some s /\ Rel a s.
Proof.
  intros l m p a H. revert p. induction H as [|x y l m Hxy _ IH]; intros p Hn; [destruct p; discriminate|].
  destruct p; [cbn in Hn; inversion Hn; subst; exists y; split; [reflexivity|exact Hxy]|]. exact (IH p Hn).
Qed.

Definition pos_ok (rest : list nat) (k : nat) (num_inds : list nat) (l : pairs) : Prop :=
  forall t j, nth_error rest t = Some j -> exists q, nth_error num_inds (k + t) = Some q /\ nth_error (ids l) q = Some j.

Theorem rloop_sim : forall rest k num_inds nodes (sx : V) (sl : pairs) nodes',
  Forall2 Rel nodes (sx :: map snd sl) -> NoDup (ids sl) -> NoDup rest -> pos_ok rest k num_inds sl ->
  rloop rest k num_inds nodes = Ok nodes' ->
  exists sx' sl', run rest sx sl = Some (sx', sl') /\ Forall2 Rel nodes' (sx' :: map snd sl').
Proof.
  induction rest as [|i rest IH]; intros k num_inds nodes sx sl nodes' HR NDl NDr Hpos H.
  - cbn in H. inversion H; subst. exists sx, sl. split; [reflexivity|exact HR].
  - cbn [rloop] in H. cbn [ChainMachine.run].
    destruct (Hpos 0 i eq_refl) as (q & Hq & Hqi). rewrite Nat.add_0_r in Hq. rewrite Hq in H.
    unfold ChainMachine.ids in Hqi. rewrite nth_error_map in Hqi. destruct (nth_error sl q) as [[i' sy]|] eqn:Elq; [|discriminate].
    cbn in Hqi. inversion Hqi; subst i'. clear Hqi.
    assert (Hnin : ~ In i (ids (firstn q sl))).
    { unfold ChainMachine.ids. rewrite <- firstn_map. apply NoDup_nth_notin_firstn; [exact NDl|]. rewrite nth_error_map, Elq. reflexivity. }
    destruct (step_pos sl sx q i sy Elq Hnin) as (sa & Hsa & sx' & sl' & Hs & Hv & Hi). rewrite Hs.
    destruct (nth_error nodes q) as [n1|] eqn:E1; [|discriminate]. destruct (nth_error nodes (S q)) as [n2|] eqn:E2; [|discriminate].
    destruct (opA i n1 n2) as [c| |] eqn:Ec; cbn [bind] in H; try discriminate.
    destruct (Forall2_nth_error _ _ _ _ HR E1) as (s1 & Hs1 & R1). rewrite Hsa in Hs1. inversion Hs1; subst s1.
    destruct (Forall2_nth_error _ _ _ _ HR E2) as (s2 & Hs2 & R2). cbn [nth_error] in Hs2. rewrite nth_error_map, Elq in Hs2. cbn in Hs2. inversion Hs2; subst s2.
    refine (IH (S k) _ _ sx' sl' nodes' _ _ _ _ H).
    + rewrite Hv. apply Forall2_remove_nth. apply Forall2_set_nth; [exact HR|]. exact (op_sim i n1 n2 c sa sy R1 R2 Ec).
    + rewrite Hi. apply NoDup_remove_nth. exact NDl.
    + inversion NDr; assumption.
    + intros t j Ht. destruct (Hpos (S t) j Ht) as (q' & H1 & H2).
      assert (Hne : j <> i).
      { intros E. subst j. inversion NDr as [|? ? Hni _]; subst. apply Hni. eapply nth_error_In; exact Ht. }
      assert (Hqq : q' <> q).
      { intros E. subst q'. unfold ChainMachine.ids in H2. rewrite nth_error_map, Elq in H2. cbn in H2. congruence. }
      exists (if Nat.ltb q q' then pred q' else q'). split.
      * replace (S k + t) with (k + S t) by lia. rewrite nth_error_map, H1. reflexivity.
      * rewrite Hi. destruct (Nat.ltb_spec q q') as [Hlt'|Hge].
        -- rewrite nth_error_remove_nth_gt by exact Hlt'. exact H2.
        -- rewrite nth_error_remove_nth_lt by lia. exact H2.
Qed.

(* started on the full chain with the schedule as position array *)
Lemma pos_ok_init (sigma : list nat) (l : pairs) n : ids l = seq 0 n -> (forall j, In j sigma -> j < n) -> pos_ok sigma 0 sigma l.
Proof.
  intros Hl Hlt t j Ht. exists j. split; [exact Ht|]. rewrite Hl. pose proof (Hlt j (nth_error_In _ _ Ht)) as Hj.
  rewrite nth_error_nth' with (d := 0) by (rewrite seq_length; exact Hj). rewrite seq_nth by exact Hj. reflexivity.
Qed.
End RemoveLoop.

(* ---- totality: a result that is a value with property P or the one expected error; never a panic ---- *)
Definition fine {A} (P : A -> Prop) (r : res A) : Prop :=
  match r with Ok x => P x | Err e => e = E_POW00 | Panic _ => False end.
Lemma fine_bind {A B} (P : A -> Prop) (Q : B -> Prop) (m : res A) (k : A -> res B) :
  fine P m -> (forall x, P x -> fine Q (k x)) -> fine Q (bind m k).
Proof. intros Hm Hk. destruct m as [x| |]; cbn [bind fine] in *; [exact (Hk x Hm)|exact Hm|exact Hm]. Qed.
Lemma fine_weaken {A} (P Q : A -> Prop) r : (forall x, P x -> Q x) -> fine P r -> fine Q r.
Proof. intros H. destruct r; cbn; auto. Qed.

Section RemoveLoopTotal.
Context {A : Type}.
Variable opA : nat -> A -> A -> res A.
Variable P : A -> Prop.
Variable ok_idx : nat -> Prop.
Hypothesis op_fine : forall k a b, ok_idx k -> P a -> P b -> fine P (opA k a b).
Local Notation pairs := (@ChainMachine.pairs unit).
Local Notation ids := (@ChainMachine.ids unit).

Lemma Forall_set_nth' : forall (l : list A) p a, Forall P l -> P a -> Forall P (set_nth p a l).
Proof. induction l as [|x l IH]; intros p a Hl Ha; [destruct p; constructor|]. inversion Hl; subst. destruct p; cbn [set_nth]; constructor; auto. Qed.
Lemma Forall_remove_nth' : forall (l : list A) p, Forall P l -> Forall P (remove_nth p l).
Proof. induction l as [|x l IH]; intros p Hl; [destruct p; constructor|]. inversion Hl; subst. destruct p; cbn [remove_nth]; [assumption|constructor; auto]. Qed.

(* the chain of remaining operator identifiers; node q is the left operand of the operator at chain position q *)
Theorem rloop_fine : forall rest k num_inds (nodes : list A) (chain : list nat),
  Forall P nodes -> length nodes = S (length chain) -> NoDup chain -> NoDup rest -> (forall j, In j rest -> ok_idx j) ->
  (forall t j, nth_error rest t = Some j -> exists q, nth_error num_inds (k + t) = Some q /\ nth_error chain q = Some j) ->
  fine (fun nodes' => Forall P nodes' /\ length nodes' + length rest = length nodes) (rloop opA rest k num_inds nodes).
Proof.
  induction rest as [|i rest IH]; intros k num_inds nodes chain HP Hlen NDc NDr Hok Hpos.
  - cbn. split; [exact HP|cbn; lia].
  - cbn [rloop]. destruct (Hpos 0 i eq_refl) as (q & Hq & Hqi). rewrite Nat.add_0_r in Hq. rewrite Hq.
    assert (Hql : q < length chain) by (apply nth_error_Some; congruence).
    destruct (nth_error nodes q) as [n1|] eqn:E1; [|apply nth_error_None in E1; lia].
    destruct (nth_error nodes (S q)) as [n2|] eqn:E2; [|apply nth_error_None in E2; lia].
    rewrite Forall_forall in HP.
    apply (fine_bind P _ _ _ (op_fine i n1 n2 (Hok i (or_introl eq_refl)) (HP n1 (nth_error_In _ _ E1)) (HP n2 (nth_error_In _ _ E2)))).
    intros c Pc.
    assert (HP' : Forall P (remove_nth (S q) (set_nth q c nodes))).
    { apply Forall_remove_nth'. apply Forall_set_nth'; [apply Forall_forall; exact HP|exact Pc]. }
    assert (Hlen' : length (remove_nth (S q) (set_nth q c nodes)) = S (length (remove_nth q chain))).
    { assert (R1 : forall (X : Type) (l : list X) p, p < length l -> length (remove_nth p l) = pred (length l)).
      { intros X l. induction l as [|x l IHl]; intros p Hp; [cbn in Hp; lia|]. destruct p; [reflexivity|]. cbn [remove_nth length]. rewrite IHl by (cbn in Hp; lia). cbn in Hp. destruct l; [cbn in Hp; lia|reflexivity]. }
      assert (S1 : forall (X : Type) (l : list X) p x, length (set_nth p x l) = length l).
      { intros X l. induction l as [|y l IHl]; intros p x; [destruct p; reflexivity|]. destruct p; cbn; [reflexivity|]. rewrite IHl. reflexivity. }
      rewrite R1 by (rewrite S1; lia). rewrite S1, R1 by exact Hql. lia. }
    refine (fine_weaken _ _ _ _ (IH (S k) _ _ (remove_nth q chain) HP' Hlen' (NoDup_remove_nth _ _ NDc) ltac:(inversion NDr; assumption) (fun j Hj => Hok j (or_intror Hj)) _)).
    + intros nodes' [H1 H2]. split; [exact H1|]. cbn [length]. rewrite Hlen' in *.
      assert (R1 : length (remove_nth q chain) = pred (length chain)).
      { clear -Hql. revert q Hql. induction chain as [|x l IHl]; intros p Hp; [cbn in Hp; lia|]. destruct p; [reflexivity|]. cbn [remove_nth length]. rewrite IHl by (cbn in Hp; lia). cbn in Hp. destruct l; [cbn in Hp; lia|reflexivity]. }
      lia.
    + intros t j Ht. destruct (Hpos (S t) j Ht) as (q' & H1 & H2).
      assert (Hne : j <> i).
      { intros E. subst j. inversion NDr as [|? ? Hni _]; subst. apply Hni. eapply nth_error_In; exact Ht. }
      assert (Hqq : q' <> q).
      { intros E. subst q'. rewrite Hqi in H2. congruence. }
      exists (if Nat.ltb q q' then pred q' else q'). split.
      * replace (S k + t) with (k + S t) by lia. rewrite nth_error_map, H1. reflexivity.
      * destruct (Nat.ltb_spec q q') as [Hlt'|Hge].
        -- rewrite nth_error_remove_nth_gt by exact Hlt'. exact H2.
        -- rewrite nth_error_remove_nth_lt by lia. exact H2.
Qed.
End RemoveLoopTotal.

