(* Proofs/EvalBinaryCorrect.v — eval_binary (array + boolean tracker) computes, for ANY duplicate-free
   complete schedule, the Cartesian tree of the schedule: the operator scheduled last is the root, its
   operands are the results of the sub-schedules on either side; every operand is a leaf exactly once. *)
From Coq Require Import List Arith Lia Bool.
Import ListNotations.
From Exmex.Model Require Import Base EvalBinary.
From Exmex.Proofs Require Import ChainMachine TrackerRefine.

Arguments ids {D} l. Arguments inc {D} lo l. Arguments step {D} opf i x l. Arguments run {D} opf sigma x l.

Inductive tree := Leaf (i : nat) | Node (op : nat) (l r : tree).
Fixpoint leaves (t : tree) : list nat :=
  match t with Leaf i => [i] | Node _ l r => leaves l ++ leaves r end.
Fixpoint tree_ops (t : tree) : list nat :=
  match t with Leaf _ => [] | Node o l r => tree_ops l ++ o :: tree_ops r end.

(* cart sigma lo: sigma lists exactly the operators lo .. hi-1 in the order they are applied *)
Fixpoint cart (fuel : nat) (sigma : list nat) (lo : nat) : tree :=
  match fuel with
  | O => Leaf lo
  | S f =>
      match rev sigma with
      | [] => Leaf lo
      | r :: _ => Node r (cart f (filter (lt_r r) sigma) lo) (cart f (filter (gt_r r) sigma) (S r))
      end
  end.

Section Correct.
Variable D : Type.
Variable dflt : D.
Variable opf : nat -> D -> D -> D.

Fixpoint eval_tree (val : nat -> D) (t : tree) : D :=
  match t with Leaf i => val i | Node o l r => opf o (eval_tree val l) (eval_tree val r) end.

(* contiguous chain lo .. hi-1 built from a value function: operand lo is the head, pair j carries operand j+1 *)
Definition chain_from (val : nat -> D) (lo n : nat) : pairs D := map (fun j => (j, val (S j))) (seq lo n).

Lemma chain_from_ids val lo n : ids (chain_from val lo n) = seq lo n.
Proof. unfold chain_from, ids. rewrite map_map. cbn. apply map_id. Qed.
Lemma chain_from_inc val lo n : inc lo (chain_from val lo n).
Proof. revert lo; induction n as [|n IH]; intros lo; cbn; [exact I|]. split; [lia|apply IH]. Qed.
Lemma chain_from_split val lo n k : k < n ->
  chain_from val lo n = chain_from val lo k ++ (lo + k, val (S (lo + k))) :: chain_from val (S (lo + k)) (n - S k).
Proof.
  intros Hk. unfold chain_from.
  replace n with (k + S (n - S k)) at 1 by lia.
  rewrite seq_app, map_app. cbn. reflexivity.
Qed.

Lemma filter_app_last {A} (f : A -> bool) l x : filter f (l ++ [x]) = filter f l ++ (if f x then [x] else []).
Proof. induction l as [|a l IH]; cbn; [reflexivity|]. rewrite IH. destruct (f a); reflexivity. Qed.

Lemma filter_length_le {A} (f : A -> bool) l : length (filter f l) <= length l.
Proof. induction l as [|a l IH]; cbn; [lia|]. destruct (f a); cbn; lia. Qed.

Lemma NoDup_filter' {A} (f : A -> bool) l : NoDup l -> NoDup (filter f l).
Proof.
  induction 1 as [|a l Hn ND IH]; cbn; [constructor|].
  destruct (f a); [constructor; [rewrite filter_In; tauto|assumption]|assumption].
Qed.

Lemma NoDup_app_last {A} (l : list A) r : NoDup (l ++ [r]) -> NoDup l /\ ~ In r l.
Proof.
  intros H. split.
  - pose proof (NoDup_remove_1 l [] r H) as H1. rewrite app_nil_r in H1. exact H1.
  - pose proof (NoDup_remove_2 l [] r H) as H2. rewrite app_nil_r in H2. exact H2.
Qed.

(* Cartesian-tree theorem for the chain machine *)
Theorem run_is_cart : forall fuel sigma val lo n,
  length sigma <= fuel -> NoDup sigma -> (forall i, In i sigma <-> lo <= i < lo + n) ->
  run opf sigma (val lo) (chain_from val lo n) = Some (eval_tree val (cart fuel sigma lo), []).
Proof.
  induction fuel as [|f IH]; intros sigma val lo n Hlen ND Hiff.
  - destruct sigma; [|cbn in Hlen; lia].
    destruct n as [|n]; [reflexivity|]. exfalso. apply (proj2 (Hiff lo)). lia.
  - destruct (rev sigma) as [|r rs] eqn:Er.
    + assert (sigma = []) by (rewrite <- (rev_involutive sigma), Er; reflexivity). subst sigma.
      cbn [cart]. cbn [rev].
      destruct n as [|n]; [reflexivity|]. exfalso. apply (proj2 (Hiff lo)). lia.
    + assert (Es : sigma = rev rs ++ [r]) by (rewrite <- (rev_involutive sigma), Er; reflexivity).
      cbn [cart]. rewrite Er.
      set (s' := rev rs) in *.
      assert (Hr : lo <= r < lo + n) by (apply Hiff; rewrite Es; apply in_or_app; right; left; reflexivity).
      rewrite Es in ND.
      destruct (NoDup_app_last s' r ND) as [ND' Hnr].
      rewrite (chain_from_split val lo n (r - lo)) by lia.
      replace (lo + (r - lo)) with r by lia.
      assert (Hin' : forall i, In i s' <-> In i (ids (chain_from val lo (r - lo))) \/ In i (ids (chain_from val (S r) (n - S (r - lo))))).
      { intros i. rewrite !chain_from_ids, !in_seq. split.
        - intros Hi. assert (lo <= i < lo + n) by (apply Hiff; rewrite Es; apply in_or_app; left; exact Hi).
          assert (i <> r) by (intro; subst; tauto). lia.
        - intros Hi. assert (Hi' : In i sigma) by (apply Hiff; lia).
          rewrite Es in Hi'. apply in_app_or in Hi'. destruct Hi' as [|[|[]]]; [assumption|subst; lia]. }
      destruct (run_last_is_root D opf s' r (val lo) (chain_from val lo (r - lo)) (val (S r)) (chain_from val (S r) (n - S (r - lo))) lo)
        as (vl & vr & Hl & Hrr & Hall).
      * apply chain_from_inc.
      * apply Forall_forall. intros [j y] Hj. cbn.
        assert (In j (ids (chain_from val lo (r - lo)))) by (apply in_map_iff; exists (j, y); auto).
        rewrite chain_from_ids, in_seq in H. lia.
      * apply chain_from_inc.
      * exact ND.
      * exact Hin'.
      * rewrite <- Es in Hall. rewrite Es at 1. rewrite <- Es. rewrite Hall.
        assert (Hfl : filter (lt_r r) sigma = filter (lt_r r) s').
        { rewrite Es, filter_app_last. unfold lt_r. rewrite Nat.ltb_irrefl, app_nil_r. reflexivity. }
        assert (Hfr : filter (gt_r r) sigma = filter (gt_r r) s').
        { rewrite Es, filter_app_last. unfold gt_r. rewrite Nat.ltb_irrefl, app_nil_r. reflexivity. }
        rewrite Hfl, Hfr.
        assert (Hlen' : length s' <= f).
        { rewrite Es, app_length in Hlen. cbn in Hlen. lia. }
        rewrite (IH (filter (lt_r r) s') val lo (r - lo)) in Hl.
        -- rewrite (IH (filter (gt_r r) s') val (S r) (n - S (r - lo))) in Hrr.
           ++ inversion Hl; inversion Hrr; subst. reflexivity.
           ++ pose proof (filter_length_le (gt_r r) s'). lia.
           ++ apply NoDup_filter'; exact ND'.
           ++ intros i. rewrite filter_In. unfold gt_r. rewrite Nat.ltb_lt. rewrite Hin', !chain_from_ids, !in_seq. lia.
        -- pose proof (filter_length_le (lt_r r) s'). lia.
        -- apply NoDup_filter'; exact ND'.
        -- intros i. rewrite filter_In. unfold lt_r. rewrite Nat.ltb_lt. rewrite Hin', !chain_from_ids, !in_seq. lia.
Qed.

(* every operand is a leaf exactly once, in text order; every operator is a node exactly once *)
Lemma cart_leaves : forall fuel sigma lo n,
  length sigma <= fuel -> NoDup sigma -> (forall i, In i sigma <-> lo <= i < lo + n) ->
  leaves (cart fuel sigma lo) = seq lo (S n).
Proof.
  induction fuel as [|f IH]; intros sigma lo n Hlen ND Hiff.
  - destruct sigma; [|cbn in Hlen; lia].
    destruct n as [|n]; [reflexivity|]. exfalso. apply (proj2 (Hiff lo)). lia.
  - destruct (rev sigma) as [|r rs] eqn:Er.
    + assert (sigma = []) by (rewrite <- (rev_involutive sigma), Er; reflexivity). subst sigma.
      cbn [cart rev leaves].
      destruct n as [|n]; [reflexivity|]. exfalso. apply (proj2 (Hiff lo)). lia.
    + assert (Es : sigma = rev rs ++ [r]) by (rewrite <- (rev_involutive sigma), Er; reflexivity).
      cbn [cart]. rewrite Er. cbn [leaves].
      assert (Hr : lo <= r < lo + n) by (apply Hiff; rewrite Es; apply in_or_app; right; left; reflexivity).
      assert (Hlen' : length (rev rs) <= f) by (rewrite Es, app_length in Hlen; cbn in Hlen; lia).
      assert (Hnr : ~ In r (rev rs)).
      { rewrite Es in ND. apply (NoDup_app_last _ _ ND). }
      rewrite (IH (filter (lt_r r) sigma) lo (r - lo)).
      * rewrite (IH (filter (gt_r r) sigma) (S r) (n - S (r - lo))).
        -- replace (S n) with (S (r - lo) + S (n - S (r - lo))) by lia.
           rewrite seq_app. f_equal. f_equal. lia.
        -- pose proof (filter_length_le (gt_r r) sigma). rewrite Es, filter_app_last in *. unfold gt_r in *.
           rewrite Nat.ltb_irrefl, app_nil_r in *. pose proof (filter_length_le (fun i => r <? i) (rev rs)). lia.
        -- apply NoDup_filter'; exact ND.
        -- intros i. rewrite filter_In, Hiff. unfold gt_r. rewrite Nat.ltb_lt. lia.
      * pose proof (filter_length_le (lt_r r) sigma). rewrite Es, filter_app_last in *. unfold lt_r in *.
        rewrite Nat.ltb_irrefl, app_nil_r in *. pose proof (filter_length_le (fun i => i <? r) (rev rs)). lia.
      * apply NoDup_filter'; exact ND.
      * intros i. rewrite filter_In, Hiff. unfold lt_r. rewrite Nat.ltb_lt. lia.
Qed.

(* ---- from the chain machine to the array machine ---- *)
Local Notation seg := (D * nat)%type.
Local Notation astep := (astep dflt opf).
Local Notation arun := (arun dflt opf).

(* iterating astep_refines along a schedule *)
Lemma arun_refines : forall sigma v k rest lo,
  inc lo (chain_tl D (S k) rest) -> NoDup sigma ->
  (forall i, In i sigma -> In i (ids (chain_tl D (S k) rest))) ->
  exists v' k' rest',
    arun sigma (conc_n D dflt ((v, k) :: rest), conc_i D ((v, k) :: rest))
      = Some (conc_n D dflt ((v', k') :: rest'), conc_i D ((v', k') :: rest')) /\
    run opf sigma v (chain_tl D (S k) rest) = Some (v', chain_tl D (S k') rest').
Proof.
  induction sigma as [|i s IH]; intros v k rest lo Hinc ND Hsub.
  - exists v, k, rest. split; reflexivity.
  - inversion ND as [|? ? Hni ND']; subst.
    destruct (astep_refines D dflt opf v k rest i (Hsub i (or_introl eq_refl))) as (v1 & k1 & rest1 & Ha & Hs).
    destruct (step_ids D opf _ _ _ _ _ lo Hs Hinc) as (Hinc1 & Hids).
    destruct (IH v1 k1 rest1 lo Hinc1 ND') as (v' & k' & rest' & Ha' & Hr').
    { intros j Hj. apply Hids. split; [apply Hsub; right; exact Hj|intro; subst; tauto]. }
    exists v', k', rest'. split.
    + cbn [EvalBinary.arun]. rewrite Ha. exact Ha'.
    + cbn [run]. rewrite Hs. exact Hr'.
Qed.

(* initial state: every number is the head of its own segment *)
Definition init_segs (nums : list D) : list seg := map (fun v => (v, 0)) nums.
Lemma conc_n_init nums : conc_n D dflt (init_segs nums) = nums.
Proof. unfold conc_n. induction nums as [|a l IH]; cbn; [reflexivity|]. f_equal. exact IH. Qed.
Lemma conc_i_init nums : conc_i D (init_segs nums) = repeat false (length nums).
Proof. unfold conc_i. induction nums as [|a l IH]; cbn; [reflexivity|]. f_equal. exact IH. Qed.
Lemma chain_tl_init : forall rest off, 1 <= off ->
  chain_tl D off (init_segs rest) = map (fun j => (j, nth (j + 1 - off) rest dflt)) (seq (off - 1) (length rest)).
Proof.
  induction rest as [|a l IH]; intros off Hoff; [reflexivity|].
  change (init_segs (a :: l)) with ((a, 0) :: init_segs l).
  cbn [chain_tl length seq map]. f_equal.
  - f_equal. replace (off - 1 + 1 - off) with 0 by lia. reflexivity.
  - rewrite (IH (off + 1)) by lia. replace (off + 1 - 1) with (S (off - 1)) by lia.
    apply map_ext_in. intros j Hj. apply in_seq in Hj. f_equal.
    replace (j + 1 - off) with (S (j + 1 - (off + 1))) by lia. reflexivity.
Qed.

Definition vals_of (nums : list D) : nat -> D := fun i => nth i nums dflt.

Lemma chain_init x rest : chain_tl D 1 (init_segs rest) = chain_from (vals_of (x :: rest)) 0 (length rest).
Proof.
  rewrite chain_tl_init by lia. unfold chain_from. cbn [Nat.sub].
  apply map_ext_in. intros j Hj. unfold vals_of. cbn. replace (j + 1 - 1) with j by lia. reflexivity.
Qed.

(* the array machine computes what the chain machine computes *)
Theorem eval_binary_run : forall (x : D) (rest : list D) (sigma : list nat) (v : D),
  NoDup sigma -> (forall i, In i sigma <-> i < length rest) ->
  run opf sigma x (chain_from (vals_of (x :: rest)) 0 (length rest)) = Some (v, []) ->
  eval_binary dflt opf (x :: rest) (length rest) sigma = Ok v.
Proof.
  intros x rest sigma v ND Hiff Hrun.
  unfold eval_binary.
  assert (Hall : forallb (fun i => i <? length rest) sigma = true).
  { apply forallb_forall. intros i Hi. apply Nat.ltb_lt. apply Hiff. exact Hi. }
  rewrite Hall. cbn [negb].
  destruct (arun_refines sigma x 0 (init_segs rest) 0) as (v' & k' & rest' & Ha & Hr).
  - rewrite (chain_init x). apply chain_from_inc.
  - exact ND.
  - intros i Hi. rewrite (chain_init x), chain_from_ids. apply in_seq. apply Hiff in Hi. lia.
  - change ((x, 0) :: init_segs rest) with (init_segs (x :: rest)) in Ha.
    rewrite conc_n_init, conc_i_init in Ha. rewrite Ha.
    rewrite (chain_init x) in Hr. rewrite Hrun in Hr.
    inversion Hr; subst. reflexivity.
Qed.

(* C14, abstract tracker: for every n >= 1 and every permutation sigma of the operators 0..n-2 *)
Theorem eval_binary_is_cart : forall (nums : list D) (sigma : list nat),
  nums <> [] -> NoDup sigma -> (forall i, In i sigma <-> i < length nums - 1) ->
  eval_binary dflt opf nums (length nums - 1) sigma
    = Ok (eval_tree (vals_of nums) (cart (length sigma) sigma 0)).
Proof.
  intros nums sigma Hne ND Hiff.
  destruct nums as [|x rest]; [congruence|].
  replace (length (x :: rest) - 1) with (length rest) in * by (cbn [length]; lia).
  apply eval_binary_run; [exact ND|exact Hiff|].
  assert (Hc := run_is_cart (length sigma) sigma (vals_of (x :: rest)) 0 (length rest) (le_n _) ND).
  change (vals_of (x :: rest) 0) with x in Hc.
  apply Hc. intros i. rewrite Hiff. lia.
Qed.

Theorem eval_binary_leaves : forall (nums : list D) (sigma : list nat),
  nums <> [] -> NoDup sigma -> (forall i, In i sigma <-> i < length nums - 1) ->
  leaves (cart (length sigma) sigma 0) = seq 0 (length nums).
Proof.
  intros nums sigma Hne ND Hiff.
  destruct nums as [|x rest]; [congruence|].
  replace (length (x :: rest) - 1) with (length rest) in * by (cbn [length]; lia).
  apply (cart_leaves (length sigma) sigma 0 (length rest)); [lia|exact ND|].
  intros i. rewrite Hiff. lia.
Qed.
End Correct.
