"""Per-property configuration of ./check: which theorems pin the property, which axioms they may use,
which harness modes provide the correspondence cases."""

REAL_AXIOMS = ["ClassicalDedekindReals.sig_forall_dec", "ClassicalDedekindReals.sig_not_dec",
               "FunctionalExtensionality.functional_extensionality_dep", "Classical_Prop.classic"]

PROPS = {
    "C14": {
        "theorems": ["C14_any_schedule", "C14_each_operand_once"],
        "axioms": [],
        "modes": [{"name": "c14", "quick_n": 2, "thorough_n": 10, "shard": 60}],
        "rule": "chains v0 o v1 o ... over a 32-operator table with pairwise distinct priorities: all application orders of up to 6 (quick) / 7 (thorough) operators exhaustively, structured (ascending, descending, runs, alternating, inside-out) and random orders at lengths around 32/64/128/192(/257/513); evaluated through FlatEx (single-word tracker <= 64 operands, slice tracker above), DeepEx (always slice tracker), flat->deep (tracker inside flatex_to_deepex) and deep->flat; non-trivial = at least 2 operands; distinct = distinct (program text)",
        "assumptions": ["the machine-word trackers of number_tracker.rs are covered by the correspondence (the proof is about the boolean-vector tracker they implement)"],
    },

    "C01": {"theorems": ["C01_flat_eval_is_precedence_partial"], "axioms": [],
            "modes": [{"name": "c01", "quick_n": 1500, "thorough_n": 12000, "shard": 120}]},
    "C02": {"theorems": [], "modes": [{"name": "c02", "quick_n": 500, "thorough_n": 4000, "shard": 120}]},
    "C03": {"theorems": [], "modes": [{"name": "c03", "quick_n": 500, "thorough_n": 4000, "shard": 150}]},
    "C04": {"theorems": [], "modes": [{"name": "c04", "quick_n": 250, "thorough_n": 2000, "shard": 25}]},
    "C07": {"theorems": [], "modes": [{"name": "c07", "quick_n": 250, "thorough_n": 2500, "shard": 250}]},
    "C08": {"theorems": [], "modes": [{"name": "c08", "quick_n": 800, "thorough_n": 6000, "shard": 120}]},
    "C10": {"theorems": [], "modes": [{"name": "c10", "quick_n": 400, "thorough_n": 3000, "shard": 40}, {"name": "c10s", "quick_n": 400, "thorough_n": 3000, "shard": 40}]},
    "C11": {"theorems": [], "modes": [{"name": "c11", "quick_n": 400, "thorough_n": 3000, "shard": 40}]},
    "C12": {"theorems": [], "modes": [{"name": "c12", "quick_n": 400, "thorough_n": 3000, "shard": 60}, {"name": "c12d", "quick_n": 150, "thorough_n": 1500, "shard": 20}]},
    "C13": {"theorems": [], "modes": [{"name": "c13", "quick_n": 3, "thorough_n": 12, "shard": 120}]},
    "C15": {"theorems": [], "modes": [{"name": "c15", "quick_n": 150, "thorough_n": 1500, "shard": 60}]},
    "C05": {"theorems": [], "modes": [{"name": "c05", "quick_n": 400, "thorough_n": 3000, "shard": 30}]},
    "C09": {"theorems": [], "modes": [{"name": "c09", "quick_n": 200, "thorough_n": 1500, "shard": 20}]},
    "C18": {"theorems": [], "modes": [{"name": "c18", "quick_n": 300, "thorough_n": 2500, "shard": 30}]},
}
