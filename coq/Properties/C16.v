(* C16 — value-typed arithmetic follows the documented typing and error rules.  Property theorems only
   (about Model/ValOps.v; ints are mathematical integers with the i32 range test, floats are binary64). *)
From Coq Require Import List ZArith Floats.
Import ListNotations.
From Exmex.Model Require Import Base Lexer ValOps.
From Exmex.Gen Require Import Tables.
From Exmex.Proofs Require Import ValFacts.
Open Scope Z_scope.

(* integer with integer stays integer: the mathematical result when it fits into i32, an error value otherwise
   (overflow, division or remainder by zero, MIN / -1, MIN % -1, shift amounts outside 0..31, negative exponents) *)
Theorem C16_int_add_sub_mul : forall a b,
  v_add (VInt a) (VInt b) = (if in_range (a + b) then VInt (a + b) else VErr) /\
  v_sub (VInt a) (VInt b) = (if in_range (a - b) then VInt (a - b) else VErr) /\
  v_mul (VInt a) (VInt b) = (if in_range (a * b) then VInt (a * b) else VErr).
Proof. intros; split; [apply add_int|split; [apply sub_int|apply mul_int]]. Qed.
Theorem C16_int_div_rem : forall a b,
  v_div (VInt a) (VInt b) = (if b =? 0 then VErr else if in_range (Z.quot a b) then VInt (Z.quot a b) else VErr) /\
  v_rem (VInt a) (VInt b) = (if b =? 0 then VErr else if (a =? I_MIN) && (b =? -1) then VErr else VInt (Z.rem a b)).
Proof. intros; split; [apply div_int|apply rem_int]. Qed.
Theorem C16_int_shifts_and_powers : forall a b,
  v_shl (VInt a) (VInt b) = (if (0 <=? b) && (b <? 32) then VInt (wrap (Z.shiftl a b)) else VErr) /\
  v_shr (VInt a) (VInt b) = (if (0 <=? b) && (b <? 32) then VInt (Z.shiftr a b) else VErr) /\
  (b < 0 -> v_pow (VInt a) (VInt b) = VErr).
Proof. intros; split; [apply shift_int|split; [apply shift_int|apply pow_int_negative]]. Qed.
(* never wrapped: every integer result of the arithmetic operators on i32 operands is an i32 *)
Theorem C16_int_results_in_range : forall a b z,
  in_range a = true -> in_range b = true ->
  In (VInt z) [v_add (VInt a) (VInt b); v_sub (VInt a) (VInt b); v_mul (VInt a) (VInt b); v_div (VInt a) (VInt b);
               v_rem (VInt a) (VInt b); v_min (VInt a) (VInt b); v_max (VInt a) (VInt b); v_shl (VInt a) (VInt b);
               v_minus (VInt a); v_abs (VInt a)] ->
  in_range z = true.
Proof. exact arith_results_in_range. Qed.

(* in + - * / min max an integer meeting a float is promoted to float *)
Theorem C16_promotion : forall a y,
  v_add (VInt a) (VFloat (FExact y)) = VFloat (FExact (PrimFloat.add (f_of_Z a) y)) /\
  v_add (VFloat (FExact y)) (VInt a) = VFloat (FExact (PrimFloat.add y (f_of_Z a))) /\
  v_sub (VInt a) (VFloat (FExact y)) = VFloat (FExact (PrimFloat.sub (f_of_Z a) y)) /\
  v_mul (VFloat (FExact y)) (VInt a) = VFloat (FExact (PrimFloat.mul y (f_of_Z a))) /\
  v_div (VFloat (FExact y)) (VInt a) = VFloat (FExact (PrimFloat.div y (f_of_Z a))) /\
  v_div (VInt a) (VFloat (FExact y)) = VFloat (FExact (PrimFloat.div (f_of_Z a) y)) /\
  v_min (VInt a) (VFloat (FExact y)) = VFloat (FExact (f_min (f_of_Z a) y)) /\
  v_max (VFloat (FExact y)) (VInt a) = VFloat (FExact (f_max y (f_of_Z a))).
Proof. exact promotion. Qed.

(* equality and ordering compare numbers across int and float and are false for mismatched kinds, none and errors *)
Theorem C16_cross_kind_compare : forall a y x b,
  v_cmp (VInt a) (VFloat (FExact y)) = f_cmp (FExact (f_of_Z a)) (FExact y) /\
  v_cmp (VFloat (FExact y)) (VInt a) = f_cmp (FExact y) (FExact (f_of_Z a)) /\
  v_eq (VBool x) (VInt b) = Some false /\ v_eq (VInt b) (VBool x) = Some false /\
  v_eq VNone VNone = Some false /\ v_eq VErr VErr = Some false /\ v_eq (VInt b) VNone = Some false /\
  v_cmp (VBool x) (VInt b) = CNone /\ v_cmp VNone (VInt b) = CNone /\ v_cmp VErr VErr = CNone.
Proof. intros. destruct (compare_int_float a y) as [H1 H2]. destruct (compare_mismatched_kinds x b) as (A & B & C0 & D0 & E & F & G & H). repeat split; assumption. Qed.

(* arithmetic, bitwise, power, vector and unary operators turn an error operand into an error result *)
Theorem C16_error_propagates : forall f x, In f propagating -> f VErr x = VErr /\ f x VErr = VErr.
Proof. exact error_propagates. Qed.
Theorem C16_error_propagates_unary : forall f, In f propagating_un -> f VErr = VErr.
Proof. exact error_propagates_unary. Qed.

(* `a if c else b` yields a when c is true and b otherwise *)
Theorem C16_if_else : forall a b, a <> VNone ->
  v_else (v_if a (VBool true)) b = a /\ v_else (v_if a (VBool false)) b = b.
Proof. exact if_else. Qed.

(* "Expressions over these operators obey the same precedence semantics as any other table": constant folding regroups the
   literal operands of an operator that the table flags commutative, which is invisible only for an associative operator.
   The flagged operators of the value table AS REGENERATED FROM THE IMPLEMENTATION ON THIS RUN are exactly + dot * | & XOR
   (defect F11: && and || carried the flag; they are not associative across value kinds -- second theorem); on integers
   | & XOR are associative, and so are + and * wherever no intermediate sum or product leaves the range (an overflow is
   an error value, which regrouping can move: `x + 1 + -1` at x = MAX). *)
Theorem C16_flagged_operators_of_the_value_table :
  map repr (filter (fun o => match obin o with Some b => comm b | None => false end) val_table)
  = [ [43]%N; [100;111;116]%N; [42]%N; [124]%N; [38]%N; [88;79;82]%N ].
Proof. vm_compute. reflexivity. Qed.

Theorem C16_logical_operators_are_not_associative :
  (exists a b c, v_and (v_and a b) c <> v_and a (v_and b c)) /\ (exists a b c, v_or (v_or a b) c <> v_or a (v_or b c)).
Proof.
  split.
  - exists (VBool false), (VInt 1), (VBool true). vm_compute. discriminate.
  - exists (VBool true), (VInt 1), (VBool false). vm_compute. discriminate.
Qed.

Theorem C16_flagged_integer_operators_are_associative : forall a b c : Z,
  v_bor (v_bor (VInt a) (VInt b)) (VInt c) = v_bor (VInt a) (v_bor (VInt b) (VInt c)) /\
  v_band (v_band (VInt a) (VInt b)) (VInt c) = v_band (VInt a) (v_band (VInt b) (VInt c)) /\
  v_bxor (v_bxor (VInt a) (VInt b)) (VInt c) = v_bxor (VInt a) (v_bxor (VInt b) (VInt c)) /\
  (in_range (a + b) = true -> in_range (b + c) = true ->
     v_add (v_add (VInt a) (VInt b)) (VInt c) = v_add (VInt a) (v_add (VInt b) (VInt c))) /\
  (in_range (a * b) = true -> in_range (b * c) = true ->
     v_mul (v_mul (VInt a) (VInt b)) (VInt c) = v_mul (VInt a) (v_mul (VInt b) (VInt c))).
Proof.
  intros a b c. repeat split.
  - cbn. rewrite Z.lor_assoc. reflexivity.
  - cbn. rewrite Z.land_assoc. reflexivity.
  - cbn. rewrite Z.lxor_assoc. reflexivity.
  - intros H1 H2. unfold v_add. cbn [base_arith]. unfold checked. rewrite H1, H2. cbn [base_arith]. unfold checked. rewrite Z.add_assoc. reflexivity.
  - intros H1 H2. unfold v_mul. cbn [base_arith]. unfold checked. rewrite H1, H2. cbn [base_arith]. unfold checked. rewrite Z.mul_assoc. reflexivity.
Qed.

Print Assumptions C16_int_results_in_range.
Print Assumptions C16_promotion.
Print Assumptions C16_error_propagates.
Print Assumptions C16_flagged_operators_of_the_value_table.
Print Assumptions C16_logical_operators_are_not_associative.
Print Assumptions C16_flagged_integer_operators_are_associative.
