(* Proofs/ValFacts.v — typing and error rules of the value-type operators (C16, C17), on the model ValOps. *)
From Coq Require Import List ZArith Bool Lia Floats.
Import ListNotations.
From Exmex.Model Require Import Base ValOps.
Open Scope Z_scope.

Lemma in_range_spec z : in_range z = true <-> I_MIN <= z <= I_MAX.
Proof. unfold in_range. rewrite andb_true_iff, !Z.leb_le. tauto. Qed.
Lemma checked_spec z : checked z = if in_range z then VInt z else VErr.
Proof. reflexivity. Qed.

(* integer (op) integer: the mathematical result if it fits, an error value otherwise -- never a wrapped value *)
Theorem add_int a b : v_add (VInt a) (VInt b) = if in_range (a + b) then VInt (a + b) else VErr.
Proof. reflexivity. Qed.
Theorem sub_int a b : v_sub (VInt a) (VInt b) = if in_range (a - b) then VInt (a - b) else VErr.
Proof. reflexivity. Qed.
Theorem mul_int a b : v_mul (VInt a) (VInt b) = if in_range (a * b) then VInt (a * b) else VErr.
Proof. reflexivity. Qed.
Theorem div_int a b : v_div (VInt a) (VInt b) = if b =? 0 then VErr else if in_range (Z.quot a b) then VInt (Z.quot a b) else VErr.
Proof. unfold v_div, v_div_raw, base_arith. destruct b; reflexivity. Qed.
Theorem rem_int a b : v_rem (VInt a) (VInt b) = if b =? 0 then VErr else if (a =? I_MIN) && (b =? -1) then VErr else VInt (Z.rem a b).
Proof. reflexivity. Qed.
Theorem shift_int a b : v_shl (VInt a) (VInt b) = (if (0 <=? b) && (b <? 32) then VInt (wrap (Z.shiftl a b)) else VErr)
                     /\ v_shr (VInt a) (VInt b) = (if (0 <=? b) && (b <? 32) then VInt (Z.shiftr a b) else VErr).
Proof. split; reflexivity. Qed.
Theorem pow_int_negative a b : b < 0 -> v_pow (VInt a) (VInt b) = VErr.
Proof. intros H. unfold v_pow. destruct (Z.ltb_spec b 0); [reflexivity|lia]. Qed.

Lemma wrap_in_range z : in_range (wrap z) = true.
Proof.
  apply in_range_spec. unfold wrap, I_MIN, I_MAX.
  pose proof (Z.mod_pos_bound (z + 2 ^ 31) (2 ^ 32) ltac:(lia)). lia.
Qed.

(* results of the arithmetic operators on in-range integers are in range *)
Theorem arith_results_in_range a b z :
  in_range a = true -> in_range b = true ->
  In (VInt z) [v_add (VInt a) (VInt b); v_sub (VInt a) (VInt b); v_mul (VInt a) (VInt b); v_div (VInt a) (VInt b);
               v_rem (VInt a) (VInt b); v_min (VInt a) (VInt b); v_max (VInt a) (VInt b); v_shl (VInt a) (VInt b);
               v_minus (VInt a); v_abs (VInt a)] ->
  in_range z = true.
Proof.
  intros Ha Hb Hin. apply in_range_spec in Ha. apply in_range_spec in Hb.
  cbn [In] in Hin. rewrite add_int, sub_int, mul_int, div_int, rem_int in Hin.
  destruct Hin as [H|[H|[H|[H|[H|[H|[H|[H|[H|[H|[]]]]]]]]]]].
  - destruct (in_range (a + b)) eqn:E; inversion H; subst; exact E.
  - destruct (in_range (a - b)) eqn:E; inversion H; subst; exact E.
  - destruct (in_range (a * b)) eqn:E; inversion H; subst; exact E.
  - destruct (b =? 0); [discriminate|]. destruct (in_range (Z.quot a b)) eqn:E; inversion H; subst; exact E.
  - destruct (b =? 0) eqn:Eb; [discriminate|]. destruct ((a =? I_MIN) && (b =? -1)); [discriminate|].
    inversion H; subst. apply in_range_spec. apply Z.eqb_neq in Eb.
    pose proof (Z.rem_bound_abs a b Eb). unfold I_MIN, I_MAX in *.
    assert (Z.abs (Z.rem a b) < Z.abs b) by exact H0. lia.
  - unfold v_min, base_arith in H. inversion H; subst. apply in_range_spec. lia.
  - unfold v_max, base_arith in H. inversion H; subst. apply in_range_spec. lia.
  - unfold v_shl, int_only in H. destruct ((0 <=? b) && (b <? I_BITS)); [|discriminate]. inversion H; subst. apply wrap_in_range.
  - unfold v_minus, checked in H. destruct (in_range (- a)) eqn:E; inversion H; subst; exact E.
  - unfold v_abs in H. destruct (in_range (- a)) eqn:E; [|discriminate]. inversion H; subst.
    apply in_range_spec in E. apply in_range_spec. unfold I_MIN, I_MAX in *. lia.
Qed.

(* an integer meeting a float is promoted to float in + - * / min max *)
Theorem promotion a y :
  v_add (VInt a) (VFloat (FExact y)) = VFloat (FExact (PrimFloat.add (f_of_Z a) y)) /\
  v_add (VFloat (FExact y)) (VInt a) = VFloat (FExact (PrimFloat.add y (f_of_Z a))) /\
  v_sub (VInt a) (VFloat (FExact y)) = VFloat (FExact (PrimFloat.sub (f_of_Z a) y)) /\
  v_mul (VFloat (FExact y)) (VInt a) = VFloat (FExact (PrimFloat.mul y (f_of_Z a))) /\
  v_div (VFloat (FExact y)) (VInt a) = VFloat (FExact (PrimFloat.div y (f_of_Z a))) /\
  v_div (VInt a) (VFloat (FExact y)) = VFloat (FExact (PrimFloat.div (f_of_Z a) y)) /\
  v_min (VInt a) (VFloat (FExact y)) = VFloat (FExact (f_min (f_of_Z a) y)) /\
  v_max (VFloat (FExact y)) (VInt a) = VFloat (FExact (f_max y (f_of_Z a))).
Proof. repeat split; reflexivity. Qed.

(* an error operand makes an error result: arithmetic, bitwise, power, vector operators *)
Definition propagating : list (val -> val -> val) :=
  [v_add; v_sub; v_mul; v_div; v_min; v_max; v_rem; v_bor; v_band; v_bxor; v_shr; v_shl; v_pow; v_dot; v_cross; v_component; v_atan2].
Ltac prop_case x :=
  split; try reflexivity; destruct x as [l|z|f|b| | |]; try reflexivity;
  try (destruct l as [|? [|? [|? [|? ?]]]]; reflexivity); try (destruct z; reflexivity); try (destruct f; reflexivity).
Theorem error_propagates f x : In f propagating -> f VErr x = VErr /\ f x VErr = VErr.
Proof.
  unfold propagating. intros Hin.
  repeat (destruct Hin as [Hf|Hin]; [subst f; prop_case x|]). destruct Hin.
Qed.
Definition propagating_un : list (val -> val) := [v_minus; v_abs; v_signum; libm; v_fact; v_to_int; v_to_float; v_length; float_only (fv1 PrimFloat.sqrt); int_unary swap32].
Theorem error_propagates_unary f : In f propagating_un -> f VErr = VErr.
Proof. unfold propagating_un. intros Hin. repeat (destruct Hin as [Hf|Hin]; [subst f; reflexivity|]). destruct Hin. Qed.

(* comparisons across kinds *)
Theorem compare_mismatched_kinds :
  forall x y, v_eq (VBool x) (VInt y) = Some false /\ v_eq (VInt y) (VBool x) = Some false /\
              v_eq VNone VNone = Some false /\ v_eq VErr VErr = Some false /\ v_eq (VInt y) VNone = Some false /\
              v_cmp (VBool x) (VInt y) = CNone /\ v_cmp VNone (VInt y) = CNone /\ v_cmp VErr VErr = CNone.
Proof. intros; repeat split; reflexivity. Qed.
Theorem compare_int_float a y :
  v_cmp (VInt a) (VFloat (FExact y)) = f_cmp (FExact (f_of_Z a)) (FExact y) /\
  v_cmp (VFloat (FExact y)) (VInt a) = f_cmp (FExact y) (FExact (f_of_Z a)).
Proof. split; reflexivity. Qed.

(* a if c else b *)
Theorem if_else a b : a <> VNone ->
  v_else (v_if a (VBool true)) b = a /\ v_else (v_if a (VBool false)) b = b.
Proof. intros Ha. split; [|reflexivity]. cbn. destruct a; try reflexivity. congruence. Qed.

(* the dangerous points of C17: all are error values in the model *)
Theorem c17_points :
  v_minus (VInt I_MIN) = VErr /\ v_abs (VInt I_MIN) = VErr /\ v_rem (VInt I_MIN) (VInt (-1)) = VErr /\
  v_div (VInt I_MIN) (VInt (-1)) = VErr /\ v_div (VInt 1) (VInt 0) = VErr /\ v_rem (VInt 1) (VInt 0) = VErr /\
  v_to_int (VFloat (FExact nan)) = VErr /\ v_to_int (VFloat (FExact infinity)) = VErr /\ v_to_int (VFloat (FExact neg_infinity)) = VErr /\
  v_to_int (VFloat (FExact 1e10%float)) = VErr /\ v_to_int (VFloat (FExact (-2147483649)%float)) = VErr /\
  v_to_int (VFloat (FExact (-2147483648.5)%float)) = VInt I_MIN /\ v_to_int (VFloat (FExact 2147483647.5%float)) = VInt I_MAX /\
  v_shl (VInt 1) (VInt 32) = VErr /\ v_shr (VInt 1) (VInt (-1)) = VErr /\ v_pow (VInt 2) (VInt 31) = VErr /\ v_pow (VInt 2) (VInt 30) = VInt 1073741824 /\
  v_fact (VInt 13) = VErr /\ v_fact (VInt 12) = VInt 479001600 /\ v_fact (VInt (-1)) = VErr.
Proof. vm_compute. repeat split; reflexivity. Qed.

(* every operator name of the table is total on the model: an application always yields a value *)
Theorem vbin_total name f a b : In (name, f) vbin_table -> exists r, vbin name a b = Some r.
Proof.
  intros Hin. unfold vbin.
  destruct (find (fun p => str_eqb (fst p) name) vbin_table) as [p|] eqn:E; [eauto|].
  exfalso. pose proof (find_none _ _ E _ Hin) as H. cbn in H.
  assert (str_eqb name name = true). { clear. induction name as [|x n IH]; cbn; [reflexivity|]. rewrite N.eqb_refl. exact IH. }
  congruence.
Qed.
