(* C18 — derivatives of value-typed and piecewise expressions.  Property theorems only. *)
From Coq Require Import List Arith Bool.
Import ListNotations.
From Exmex.Model Require Import Base EvalBinary Lexer Flat Deep Convert Calc Partial.
From Exmex.Gen Require Import Tables.
Open Scope nat_scope.

(* `_partial` (structural half).  The comparison operators keep their value as "derivative" (conditions are left
   untouched), `else` is differentiated per operand (branch-wise) and `if` differentiates its left operand under the VALUE
   of its condition (after the repair of F14; before it the condition was replaced by its own "derivative", which for a
   condition that is a constant -- a variable-free comparison folded by the parser -- or a boolean variable is zero, so the
   derivative always took the else-branch); all of these names are operators of the value table as regenerated on this run.  The analytic half (the derivative evaluates to the derivative of the
   selected branch away from branch boundaries) is covered by the correspondence on the term algebra and the numeric
   branch-wise oracle. *)
Theorem C18_condition_and_branch_rules_partial :
  map find_rule [n_gt; n_lt; n_ge; n_le; n_eq; n_ne] = repeat (Some (Some BDerIsVal, None)) 6 /\
  map find_rule [n_if; n_else] = [Some (Some BCond, None); Some (Some BPerOperand, None)] /\
  forallb (fun name => existsb (fun o => str_eqb (repr o) name) val_table) [n_gt; n_lt; n_ge; n_le; n_eq; n_ne; n_if; n_else] = true.
Proof. vm_compute. repeat split; reflexivity. Qed.

(* what the two kinds of rule build *)
Theorem C18_rule_semantics_partial :
  forall (D : Type) (C : carrier D) (DC : dcarrier D) (tb : optable) (name : str) (f g : valder (D:=D)),
  apply_brule C DC tb BDerIsVal name f g =
    (do v <- operate_bin C tb (vd_val f) (vd_val g) name; do d <- operate_bin C tb (vd_val f) (vd_val g) name; Ok {| vd_val := v; vd_der := d |}) /\
  apply_brule C DC tb BPerOperand name f g =
    (do v <- operate_bin C tb (vd_val f) (vd_val g) name; do d <- operate_bin C tb (vd_der f) (vd_der g) name; Ok {| vd_val := v; vd_der := d |}) /\
  apply_brule C DC tb BCond name f g =
    (do v <- operate_bin C tb (vd_val f) (vd_val g) name; do d <- operate_bin C tb (vd_der f) (vd_val g) name; Ok {| vd_val := v; vd_der := d |}).
Proof. intros; repeat split; reflexivity. Qed.

(* the condition of the derivative is the condition of the value: whatever the condition is (a comparison, a constant,
   a boolean variable), the `if` of the derivative is applied to the same right operand as the `if` of the value *)
Theorem C18_derivative_keeps_the_condition :
  forall (D : Type) (C : carrier D) (DC : dcarrier D) (tb : optable) (f g r : valder (D:=D)),
  apply_brule C DC tb BCond n_if f g = Ok r ->
  operate_bin C tb (vd_val f) (vd_val g) n_if = Ok (vd_val r) /\ operate_bin C tb (vd_der f) (vd_val g) n_if = Ok (vd_der r).
Proof.
  intros D C DC tb f g r H. cbn [apply_brule] in H.
  destruct (operate_bin C tb (vd_val f) (vd_val g) n_if) as [v| |]; cbn [bind] in H; try discriminate.
  destruct (operate_bin C tb (vd_der f) (vd_val g) n_if) as [d| |]; cbn [bind] in H; try discriminate.
  inversion H; subst. split; reflexivity.
Qed.

Print Assumptions C18_condition_and_branch_rules_partial.
Print Assumptions C18_derivative_keeps_the_condition.
