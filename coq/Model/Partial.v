(* Model/Partial.v — expression/partial.rs: the table of derivative rules, partial_derivative_inner,
   partial_derivative_outer, partial_deepex, Differentiate::partial_iter_relaxed. *)
From Exmex.Model Require Import Base EvalBinary Lexer Flat Deep Convert Calc.

Inductive missing_mode := MPerOperand | MNone | MError.

(* names as code points *)
Definition nm (l : list N) : str := l.
Definition n_sqrt := nm [115;113;114;116]%N.   Definition n_ln := nm [108;110]%N.       Definition n_log := nm [108;111;103]%N.
Definition n_log10 := nm [108;111;103;49;48]%N. Definition n_log2 := nm [108;111;103;50]%N. Definition n_exp := nm [101;120;112]%N.
Definition n_sin := nm [115;105;110]%N.        Definition n_cos := nm [99;111;115]%N.    Definition n_tan := nm [116;97;110]%N.
Definition n_asin := nm [97;115;105;110]%N.    Definition n_acos := nm [97;99;111;115]%N. Definition n_atan := nm [97;116;97;110]%N.
Definition n_sinh := nm [115;105;110;104]%N.   Definition n_cosh := nm [99;111;115;104]%N. Definition n_tanh := nm [116;97;110;104]%N.
Definition n_asinh := nm [97;115;105;110;104]%N. Definition n_acosh := nm [97;99;111;115;104]%N. Definition n_atanh := nm [97;116;97;110;104]%N.
Definition n_gt := nm [62]%N. Definition n_lt := nm [60]%N. Definition n_ne := nm [33;61]%N. Definition n_eq := nm [61;61]%N.
Definition n_le := nm [60;61]%N. Definition n_ge := nm [62;61]%N. Definition n_if := nm [105;102]%N. Definition n_else := nm [101;108;115;101]%N.

(* the rule table as data: which names have a binary rule / a unary (outer) rule; the order is the one of
   make_partial_derivative_ops *)
Inductive brule := BPow | BAdd | BSub | BMul | BDiv | BDerIsVal | BPerOperand | BCond.
Inductive urule := UOne | UNegOne | USqrt | ULn | ULog10 | ULog2 | UExp | USin | UCos | UTan | UAsin | UAcos | UAtan
                 | USinh | UCosh | UTanh | UAsinh | UAcosh | UAtanh.
Definition rule_table : list (str * option brule * option urule) :=
  [ (s_pow, Some BPow, None); (s_plus, Some BAdd, Some UOne); (s_minus, Some BSub, Some UNegOne); (s_mul, Some BMul, None);
    (n_gt, Some BDerIsVal, None); (n_lt, Some BDerIsVal, None); (n_ne, Some BDerIsVal, None); (n_eq, Some BDerIsVal, None);
    (n_le, Some BDerIsVal, None); (n_ge, Some BDerIsVal, None); (n_if, Some BCond, None); (n_else, Some BPerOperand, None);
    (s_div, Some BDiv, None);
    (n_sqrt, None, Some USqrt); (n_ln, None, Some ULn); (n_log, None, Some ULn); (n_log10, None, Some ULog10); (n_log2, None, Some ULog2);
    (n_exp, None, Some UExp); (n_sin, None, Some USin); (n_cos, None, Some UCos); (n_tan, None, Some UTan);
    (n_asin, None, Some UAsin); (n_acos, None, Some UAcos); (n_atan, None, Some UAtan);
    (n_sinh, None, Some USinh); (n_cosh, None, Some UCosh); (n_tanh, None, Some UTanh);
    (n_asinh, None, Some UAsinh); (n_acosh, None, Some UAcosh); (n_atanh, None, Some UAtanh) ].
Definition find_rule (name : str) : option (option brule * option urule) :=
  match find (fun r => str_eqb (fst (fst r)) name) rule_table with
  | Some r => Some (snd (fst r), snd r)
  | None => None
  end.

Section Partial.
Context {D : Type}.
Variable C : carrier D.
Variable DC : dcarrier D.
Variable tb : optable.
Local Notation add := (d_add C DC tb). Local Notation sub := (d_sub C tb). Local Notation mul := (d_mul C DC tb).
Local Notation div := (d_div C DC tb). Local Notation pow := (d_pow C DC tb). Local Notation neg := (d_neg C tb).
Local Notation one := (d_one C DC). Local Notation zero := (d_zero C DC).
Definition un (name : str) (e : deepex D) : res (deepex D) := operate_unary C tb e name.

(* deep.rs:769 without_latest_unary; Panic = remove(0) on an empty vector *)
Definition wlu (e : deepex D) : res (deepex D) :=
  match e with DE n b (_ :: u) v => Ok (DE n b u v) | DE _ _ [] _ => Panic 508 end.

Record valder := { vd_val : deepex D; vd_der : deepex D }.

Definition apply_brule (r : brule) (name : str) (f g : valder) : res valder :=
  match r with
  | BPow =>
      do o <- one;
      do val <- pow (vd_val f) (vd_val g);
      do g_minus_1 <- sub (vd_val g) o;
      do p <- pow (vd_val f) g_minus_1; do pg <- mul p (vd_val g); do der_1 <- mul pg (vd_der f);
      do lnf <- un n_ln (vd_val f); do vl <- mul val lnf; do der_2 <- mul vl (vd_der g);
      do der <- add der_1 der_2;
      Ok {| vd_val := val; vd_der := der |}
  | BAdd => do v <- add (vd_val f) (vd_val g); do d <- add (vd_der f) (vd_der g); Ok {| vd_val := v; vd_der := d |}
  | BSub => do v <- sub (vd_val f) (vd_val g); do d <- sub (vd_der f) (vd_der g); Ok {| vd_val := v; vd_der := d |}
  | BMul =>
      do val <- mul (vd_val f) (vd_val g);
      do der_1 <- mul (vd_val g) (vd_der f); do der_2 <- mul (vd_der g) (vd_val f);
      do der <- add der_1 der_2;
      Ok {| vd_val := val; vd_der := der |}
  | BDiv =>
      do val <- div (vd_val f) (vd_val g);
      do a <- mul (vd_der f) (vd_val g); do b <- mul (vd_der g) (vd_val f); do numerator <- sub a b;
      do denominator <- mul (vd_val g) (vd_val g);
      do der <- div numerator denominator;
      Ok {| vd_val := val; vd_der := der |}
  | BDerIsVal =>
      do v <- operate_bin C tb (vd_val f) (vd_val g) name; do d <- operate_bin C tb (vd_val f) (vd_val g) name;
      Ok {| vd_val := v; vd_der := d |}
  | BPerOperand =>
      do v <- operate_bin C tb (vd_val f) (vd_val g) name; do d <- operate_bin C tb (vd_der f) (vd_der g) name;
      Ok {| vd_val := v; vd_der := d |}
  | BCond =>   (* `if`: the condition g selects the branch of the derivative as it selects the branch of the value *)
      do v <- operate_bin C tb (vd_val f) (vd_val g) name; do d <- operate_bin C tb (vd_der f) (vd_val g) name;
      Ok {| vd_val := v; vd_der := d |}
  end.

Definition sq (e : deepex D) : res (deepex D) := do two <- from_num C (dc_two DC); pow e two.
Definition apply_urule (r : urule) (f : deepex D) : res (deepex D) :=
  match r with
  | UOne => one
  | UNegOne => do o <- one; neg o
  | USqrt => do o <- one; do two <- from_num C (dc_two DC); do d <- mul two f; div o d
  | ULn => do x <- wlu f; do o <- one; div o x
  | ULog10 => do ten <- from_num C (dc_ten DC); do l <- un n_ln ten; do x <- wlu f; do d <- mul x l; do o <- one; div o d
  | ULog2 => do two <- from_num C (dc_two DC); do l <- un n_ln two; do x <- wlu f; do d <- mul x l; do o <- one; div o d
  | UExp => Ok f
  | USin => do x <- wlu f; un n_cos x
  | UCos => do x <- wlu f; do s <- un n_sin x; neg s
  | UTan => do x <- wlu f; do c <- un n_cos x; do c2 <- sq c; do o <- one; div o c2
  | UAsin => do o <- one; do x <- wlu f; do x2 <- sq x; do d <- sub o x2; do s <- un n_sqrt d; div o s
  | UAcos => do o <- one; do x <- wlu f; do x2 <- sq x; do d <- sub o x2; do s <- un n_sqrt d; do q <- div o s; neg q
  | UAtan => do o <- one; do x <- wlu f; do x2 <- sq x; do d <- add o x2; div o d
  | USinh => do x <- wlu f; un n_cosh x
  | UCosh => do x <- wlu f; un n_sinh x
  | UTanh => do o <- one; do x <- wlu f; do t <- un n_tanh x; do t2 <- sq t; sub o t2
  | UAsinh => do o <- one; do x <- wlu f; do x2 <- sq x; do d <- add o x2; do s <- un n_sqrt d; div o s
  | UAcosh => do o <- one; do x1 <- wlu f; do a <- sub x1 o; do sa <- un n_sqrt a;
              do x2 <- wlu f; do b <- add x2 o; do sb <- un n_sqrt b; do d <- mul sa sb; div o d
  | UAtanh => do o <- one; do x <- wlu f; do x2 <- sq x; do d <- sub o x2; div o d
  end.

(* partial.rs:221 partial_derivative_outer *)
Fixpoint outer_factors (e : deepex D) (fuel : nat) : res (list (deepex D)) :=
  match fuel with O => Ok [] | S fuel' =>
    match duop e with
    | [] => Ok []
    | k :: _ =>
        match find_rule (repr_of tb k) with
        | Some (_, Some ur) =>
            do fac <- apply_urule ur e;
            do e' <- wlu e;
            do rest <- outer_factors e' fuel';
            Ok (fac :: rest)
        | _ => Err E_NORULE
        end
    end
  end.
(* the Rust looks up ALL rules lazily inside try_fold: an error at position j surfaces after the products of
   the factors before it have been formed; products cannot fail before, so the outcome kind is the same *)
Definition derivative_outer (e : deepex D) : res (deepex D) :=
  do facs <- outer_factors e (length (duop e));
  do o <- one;
  fold_left (fun acc fac => do a <- acc; mul fac a) facs (Ok o).

(* the reduction loop of partial_derivative_inner (partial.rs:325-356) *)
Fixpoint inner_loop (sigma : list nat) (i : nat) (num_inds : list nat) (nodes : list valder) (bops : list dbop) (mode : missing_mode)
  : res (list valder) :=
  match sigma with
  | [] => Ok nodes
  | bin_op_idx :: stl =>
      match nth_error num_inds i with
      | None => Panic 326
      | Some num_idx =>
          match nth_error nodes num_idx, nth_error nodes (S num_idx), nth_error bops bin_op_idx with
          | Some n1, Some n2, Some o =>
              let name := repr_of tb (bidx o) in
              do pd <- match find_rule name with
                       | Some (Some br, _) => apply_brule br name n1 n2
                       | Some (None, _) => Err E_NORULE
                       | None => match mode with
                                 | MPerOperand => apply_brule BPerOperand name n1 n2
                                 | MNone => apply_brule BDerIsVal name n1 n2
                                 | MError => Err E_NORULE
                                 end
                       end;
              let nodes' := remove_nth (S num_idx) (set_nth num_idx pd nodes) in
              let num_inds' := map (fun j => if Nat.ltb num_idx j then pred j else j) num_inds in
              inner_loop stl (S i) num_inds' nodes' bops mode
          | _, _, _ => Panic 327
          end
      end
  end.

(* partial.rs:373 partial_deepex with partial.rs:263 partial_derivative_inner; fuel bounds the nesting depth *)
Fixpoint partial_deepex (fuel : nat) (var_idx : nat) (e : deepex D) (mode : missing_mode) : res (deepex D) :=
  match fuel with O => Err E_FUEL | S fuel' =>
  do inner <-
    match dnodes e with
    | [n] =>
        do r <- match n with
                | DNum _ => zero
                | DVar j _ => if Nat.eqb j var_idx then one else zero
                | DExpr e' => partial_deepex fuel' var_idx e' mode
                end;
        do ' (r', _) <- var_names_union r e; Ok r'
    | nodes =>
        let sigma := prioritized_indices (dbops e) nodes in
        do vds <- mapM (fun n =>
                    do v <- match n with DExpr e' => Ok e' | _ => new_deepex C [n] [] [] end;
                    do d <- partial_deepex fuel' var_idx v mode;
                    Ok {| vd_val := v; vd_der := d |}) nodes;
        do final <- inner_loop sigma 0 sigma vds (dbops e) mode;
        match final with
        | vd :: _ => do ' (r', _) <- var_names_union (vd_der vd) e; Ok r'
        | [] => Panic 363
        end
    end;
  do outer <- derivative_outer e;
  mul inner outer
  end.

Fixpoint ddepth (e : deepex D) : nat :=
  match e with
  | DE nodes _ _ _ =>
      S ((fix go (l : list (dnode D)) : nat :=
            match l with
            | [] => 0%nat
            | DExpr e' :: tl => Nat.max (ddepth e') (go tl)
            | _ :: tl => go tl
            end) nodes)
  end.

(* partial.rs:68 Differentiate::partial_iter_relaxed on a deep expression *)
Definition partial_iter_deep (e : deepex D) (idxs : list nat) (mode : missing_mode) : res (deepex D) :=
  if negb (forallb (fun i => Nat.ltb i (length (dvars e))) idxs) then Err E_INDEX else
  do r <- fold_left (fun acc i => do a <- acc; partial_deepex (S (S (ddepth a))) i a mode) idxs (Ok e);
  dcompile C r.
End Partial.
