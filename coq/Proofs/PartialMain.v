(* Proofs/PartialMain.v — DeepEx::partial evaluates to the mathematical partial derivative: the statement in terms of
   evaluation.  For an expression over the default operator table in compile normal form, index-consistent with its
   sorted variable list: if partial succeeds for the variable with index vi, the result has the same variable list, and
   at every assignment at which every operator application of the expression lies in the interior of its domain the
   expression, evaluated as a function of the vi-th value, is differentiable there and the result evaluates to its
   derivative. *)
From Coq Require Import Reals Lra List NArith ZArith Lia Bool Sorted.
From Coquelicot Require Import Coquelicot.
Import ListNotations.
From Exmex.Model Require Import Base EvalBinary Lexer Flat Deep Convert Calc Partial.
From Exmex.Gen Require Import Tables.
From Exmex.Spec Require Import RefSem.
From Exmex.Proofs Require Import Vars DeepVars DeepSem DeepSubs C11Main DeepOps NormalForm Hereditary RuleAnalysis RealCarrier CalcSem Dual PartialCorrect.
Open Scope nat_scope.

Local Notation tb := float_table.
Local Notation tfl := (tflagged tb).

Lemma var_link_of (all : list str) (vi : nat) : NoDup all -> vi < length all ->
  forall j x, index_of x all 0 = Some j -> Nat.eqb j vi = str_eqb x (nth vi all []).
Proof.
  intros ND Hvi j x Hj. destruct (index_of_spec x all 0 j Hj) as [_ Hn]. rewrite Nat.sub_0_r in Hn.
  destruct (Nat.eqb_spec j vi) as [->|Hne].
  - symmetry. apply str_eqb_eq. symmetry. apply nth_error_nth. exact Hn.
  - symmetry. destruct (str_eqb x (nth vi all [])) eqn:E; [|reflexivity]. exfalso. apply str_eqb_eq in E.
    apply Hne. apply (proj1 (NoDup_nth_error all) ND j vi); [apply nth_error_Some; congruence|].
    rewrite Hn, E. symmetry. apply nth_error_nth'. exact Hvi.
Qed.

(* the dual-number condition of an expression at an assignment, for the variable with index vi: every operator
   application inside its open domain (denominators non-zero, arguments of ln/sqrt/... positive, the base of a power
   positive or its exponent a natural-number constant, ...) *)
Definition in_domain (e : deepex R) (vi : nat) (rho : str -> R) : Prop := dk (ddual rho (nth vi (dvars e) []) e).

(* an expression as the constructors build it: variable nodes indexed in the variable list of the outermost level,
   every level's list sorted, within that list and containing the names and lists below it *)
Definition built (e : deepex R) : Prop := Ix (dvars e) e /\ hc e /\ nf e.

Lemma consistent_built (e : deepex R) : StronglySorted str_lt (dvars e) -> dconsistent tfl (dvars e) e -> nf e -> built e.
Proof.
  intros HS Hc Hnf. split; [|split; [|exact Hnf]].
  - revert Hc. apply dwf_weaken; [intros i x H; exact H|intros v ->; split; [exact HS|apply incl_refl]].
  - assert (G : forall e0 : deepex R, dconsistent tfl (dvars e) e0 -> hc e0).
    { induction e0 as [nodes bops uop vars IH] using deep_ind. intros H0. unfold dconsistent in H0. rewrite dwf_unfold in H0.
      destruct H0 as (_ & Hv & _ & Hn). unfold is_list in Hv. subst vars. rewrite hc_unfold. apply Forall_forall. intros n Hin.
      rewrite Forall_forall in Hn. specialize (Hn n Hin). destruct n as [c|d0|i x]; cbn [nwf nhc] in *.
      - split; [rewrite (dconsistent_vars _ _ _ Hn); apply incl_refl|exact (IH c Hin Hn)].
      - exact I.
      - exact (index_of_In _ _ _ _ Hn). }
    exact (G e Hc).
Qed.

Theorem partial_is_derivative (e d : deepex R) (vi fuel : nat) :
  built e -> vi < length (dvars e) ->
  partial_deepex Rc RDC tb fuel vi e MError = Ok d ->
  dvars d = dvars e /\ dconsistent tfl (dvars e) d /\ nf d /\
  forall rho, in_domain e vi rho ->
    is_derive (fun t => ddenR (line rho (nth vi (dvars e) []) t) e) (rho (nth vi (dvars e) [])) (ddenR rho d).
Proof.
  intros (Hc & Hh & Hnf) Hvi H. set (all := dvars e) in *. set (xi := nth vi all []).
  assert (HS : StronglySorted str_lt all).
  { destruct e as [n b u v]. unfold Ix in Hc. rewrite dwf_unfold in Hc. exact (proj1 (proj1 (proj2 Hc))). }
  assert (ND : NoDup all) by (apply sorted_lt_NoDup; exact HS).
  assert (Hpart : forall rho, goal_of rho xi e d).
  { intros rho. exact (partial_ok all rho xi vi (var_link_of all vi ND Hvi) fuel e d Hc Hh Hnf H). }
  destruct (Hpart (fun _ => 0%R)) as ([Wd Cd] & Vd & _). split; [exact Vd|]. split; [exact Cd|]. split; [exact (proj2 (proj1 Wd))|].
  intros rho Hk. destruct (Hpart rho) as (_ & _ & Dd). unfold in_domain in Hk. fold all xi in Hk.
  rewrite (Dd Hk). apply (is_derive_ext (dv (ddual rho xi e))); [intros t; apply ddual_dv|].
  exact (ddual_sound rho xi e Hk).
Qed.
(* the result can be differentiated again *)
Corollary partial_built (e d : deepex R) (vi fuel : nat) :
  built e -> vi < length (dvars e) -> partial_deepex Rc RDC tb fuel vi e MError = Ok d -> built d.
Proof.
  intros Hb Hvi H. destruct (partial_is_derivative e d vi fuel Hb Hvi H) as (Vd & Cd & Nd & _).
  assert (HS : StronglySorted str_lt (dvars e)).
  { destruct Hb as (Hc & _). destruct e as [n b u v]. unfold Ix in Hc. rewrite dwf_unfold in Hc. exact (proj1 (proj1 (proj2 Hc))). }
  apply consistent_built; rewrite ?Vd; assumption.
Qed.

(* ---- in terms of evaluation ---- *)
Lemma eval_is_den (all : list str) (vals : list R) (e : deepex R) : dindexed tfl all e -> length vals = length all ->
  eval_deep Rc e vals = Ok (ddenR (env_of Rc all vals) e).
Proof.
  intros Hc Hl.
  destruct (eval_consistent Rc eq (@eq_refl R) (@eq_sym R) (@eq_trans R) eqR_bin eqR_un tfl
              (DeepOps.flagged_assoc Rc tb eq Rc_assoc) all vals e Hc Hl) as (v & Ev & ->).
  exact Ev.
Qed.
Lemma built_indexed (e : deepex R) : built e -> dindexed tfl (dvars e) e.
Proof.
  intros (Hc & _ & _). split; [|reflexivity]. revert Hc. apply dwf_weaken; [intros i x H; exact H|].
  intros v [HS Hi]. unfold short_list. apply NoDup_incl_length; [apply sorted_lt_NoDup; exact HS|exact Hi].
Qed.
Lemma set_nth_length' {A} (x : A) : forall l n, length (set_nth n x l) = length l.
Proof. induction l as [|a l IH]; intros n; [destruct n; reflexivity|]. destruct n; cbn; [reflexivity|]. rewrite IH. reflexivity. Qed.
Lemma nth_set_nth' {A} (d x : A) : forall l i j, i < length l -> nth j (set_nth i x l) d = if Nat.eqb j i then x else nth j l d.
Proof.
  induction l as [|a l IH]; intros i j Hi; [cbn in Hi; lia|]. destruct i, j; cbn [set_nth nth Nat.eqb]; try reflexivity.
  apply IH. cbn in Hi. lia.
Qed.
Lemma line_env (all : list str) (vals : list R) (vi : nat) (t : R) : NoDup all -> vi < length all -> length vals = length all ->
  forall x, line (env_of Rc all vals) (nth vi all []) t x = env_of Rc all (set_nth vi t vals) x.
Proof.
  intros ND Hvi Hl x. unfold line, env_of. destruct (index_of x all 0) as [j|] eqn:Ej.
  - rewrite <- (var_link_of all vi ND Hvi j x Ej). rewrite nth_set_nth' by lia. reflexivity.
  - destruct (str_eqb x (nth vi all [])) eqn:E; [|reflexivity]. exfalso. apply str_eqb_eq in E. subst x.
    destruct (index_of_complete (nth vi all []) all 0 (nth_In all [] Hvi)) as [j Hj]. congruence.
Qed.

Theorem partial_evaluates_to_the_derivative (e d : deepex R) (vi fuel : nat) (vals : list R) :
  built e -> vi < length (dvars e) ->
  partial_deepex Rc RDC tb fuel vi e MError = Ok d -> length vals = length (dvars e) ->
  in_domain e vi (env_of Rc (dvars e) vals) ->
  exists v, eval_deep Rc d vals = Ok v /\
    is_derive (fun t => match eval_deep Rc e (set_nth vi t vals) with Ok y => y | _ => 0%R end) (nth vi vals 0%R) v.
Proof.
  intros Hb Hvi H Hl Hk. pose proof (built_indexed e Hb) as Hie. set (all := dvars e) in *.
  destruct (partial_is_derivative e d vi fuel Hb Hvi H) as (Vd & Cd & _ & Hder). fold all in Vd, Cd, Hder.
  assert (HS : StronglySorted str_lt all).
  { destruct Hb as (Hc & _). unfold all. destruct e as [n b u v]. unfold Ix in Hc. rewrite dwf_unfold in Hc. exact (proj1 (proj1 (proj2 Hc))). }
  assert (ND : NoDup all) by (apply sorted_lt_NoDup; exact HS).
  exists (ddenR (env_of Rc all vals) d). split; [apply eval_is_den; [apply dconsistent_indexed; exact Cd|exact Hl]|].
  specialize (Hder (env_of Rc all vals) Hk).
  assert (Ex : env_of Rc all vals (nth vi all []) = nth vi vals 0%R).
  { unfold env_of. destruct (index_of_complete (nth vi all []) all 0 (nth_In all [] Hvi)) as [j Hj]. rewrite Hj.
    pose proof (var_link_of all vi ND Hvi j _ Hj) as E. rewrite str_eqb_refl in E. apply Nat.eqb_eq in E. subst j. reflexivity. }
  rewrite Ex in Hder. refine (is_derive_ext _ _ _ _ _ Hder). intros t.
  rewrite (eval_is_den all (set_nth vi t vals) e Hie) by (rewrite set_nth_length'; exact Hl).
  apply (ddenN_ext_all Rc). intros x. apply line_env; assumption.
Qed.

(* ---- parsed expressions qualify ---- *)
From Exmex.Proofs Require Import DeepCompile DeepParse C03Main Accept ParseBuilt.
Theorem parsed_built (c : chain (D:=R)) : wf_chain tb c = true ->
  exists e, parse_deep_tokens Rc tb (flatten c) = Ok e /\ dvars e = find_parsed_vars (flatten c) /\ built e.
Proof.
  intros Hwf. set (vars := find_parsed_vars (flatten c)).
  destruct (deep_parse_is_reference_wf Rc tb eq (@eq_refl R) (@eq_sym R) (@eq_trans R) eqR_bin eqR_un Rc_assoc c (map (fun _ => 0%R) vars) Hwf ltac:(apply map_length))
    as (e & v & Hp & Hv & _ & _ & Hw). fold vars in Hp, Hv, Hw.
  exists e. split.
  - unfold parse_deep_tokens. rewrite (rendering_accepted tb c Hwf). cbn [bind]. fold vars. rewrite Hp. reflexivity.
  - split; [exact Hv|].
    destruct (dparse_good Rc tb vars _ _ _ _ _ _ e [] (Forall_nil _) Hp) as (Hh & Hn & Hl).
    split; [|split; assumption]. rewrite Hv. exact (dwf_okl vars _ _ _ e Hw Hl).
Qed.

(* ---- Differentiate::partial_iter: index check, the derivatives one after the other, a final compile ---- *)
Lemma compile_consistent (all : list str) (d r : deepex R) : StronglySorted str_lt all -> dconsistent tfl all d -> nf d ->
  dcompile Rc d = Ok r -> dconsistent tfl all r /\ nf r /\ forall rho, ddenR rho r = ddenR rho d.
Proof.
  intros HS Hc Hn H. split; [|split].
  - destruct (dcompile_ok Rc eq (@eq_refl R) (@eq_sym R) (@eq_trans R) eqR_bin eqR_un tfl (DeepOps.flagged_assoc Rc tb eq Rc_assoc)
                (nlook (fun _ => 0%R)) (indexed all) (is_list all) d Hc) as (r' & Hr & Hw & _).
    rewrite H in Hr. inversion Hr; subst r'. exact Hw.
  - exact (dcompile_nf Rc d r (nf_nfc d Hn) H).
  - intros rho.
    destruct (dcompile_ok Rc eq (@eq_refl R) (@eq_sym R) (@eq_trans R) eqR_bin eqR_un tfl (DeepOps.flagged_assoc Rc tb eq Rc_assoc)
                (nlook rho) (indexed all) (is_list all) d Hc) as (r' & Hr & _ & Hd).
    rewrite H in Hr. inversion Hr; subst r'. exact Hd.
Qed.

(* r is reached from e by differentiating with respect to the listed variables, one after the other: every step is
   built, keeps the variable list, and denotes the derivative of the previous step wherever that step is in its domain *)
Fixpoint deriv_chain (e : deepex R) (idxs : list nat) (r : deepex R) : Prop :=
  match idxs with
  | [] => forall rho, ddenR rho r = ddenR rho e
  | i :: tl =>
      exists d, built d /\ dvars d = dvars e /\
        (forall rho, in_domain e i rho ->
           is_derive (fun t => ddenR (line rho (nth i (dvars e) []) t) e) (rho (nth i (dvars e) [])) (ddenR rho d)) /\
        deriv_chain d tl r
  end.

Lemma fold_partial_err (idxs : list nat) (x : res (deepex R)) : (forall o, x <> Ok o) ->
  forall o, fold_left (fun acc i => do a <- acc; partial_deepex Rc RDC tb (S (S (ddepth a))) i a MError) idxs x <> Ok o.
Proof.
  revert x. induction idxs as [|i tl IH]; intros x Hx o; [apply Hx|]. cbn [fold_left]. apply IH.
  intros o'. destruct x as [a| |]; cbn [bind]; [exfalso; exact (Hx a eq_refl)|discriminate|discriminate].
Qed.
Lemma fold_partial_chain : forall (idxs : list nat) (e last : deepex R), built e ->
  Forall (fun i => i < length (dvars e)) idxs ->
  fold_left (fun acc i => do a <- acc; partial_deepex Rc RDC tb (S (S (ddepth a))) i a MError) idxs (Ok e) = Ok last ->
  built last /\ dvars last = dvars e /\
  (idxs <> [] -> dconsistent tfl (dvars e) last) /\
  forall r, (forall rho, ddenR rho r = ddenR rho last) -> deriv_chain e idxs r.
Proof.
  induction idxs as [|i tl IH]; intros e last Hb Hidx H.
  - cbn in H. inversion H; subst last. split; [exact Hb|]. split; [reflexivity|]. split; [congruence|]. intros r Hr. exact Hr.
  - cbn [fold_left bind] in H. inversion Hidx as [|? ? Hi Htl]; subst.
    destruct (partial_deepex Rc RDC tb (S (S (ddepth e))) i e MError) as [d| |] eqn:Ed.
    2,3: exfalso; refine (fold_partial_err tl _ _ last H); intros o' Ho'; discriminate.
    destruct (partial_is_derivative e d i _ Hb Hi Ed) as (Vd & Cd & Nd & Hder).
    pose proof (partial_built e d i _ Hb Hi Ed) as Hbd.
    destruct (IH d last Hbd ltac:(rewrite Vd; exact Htl) H) as (Hbl & Vl & Cl & Hch).
    split; [exact Hbl|]. split; [congruence|]. split.
    + intros _. destruct tl as [|j tl']; [cbn in H; inversion H; subst last; exact Cd|]. rewrite <- Vd. apply Cl. discriminate.
    + intros r Hr. cbn [deriv_chain]. exists d. split; [exact Hbd|]. split; [exact Vd|]. split; [exact Hder|exact (Hch r Hr)].
Qed.

Theorem partial_iter_chain (e r : deepex R) (i : nat) (tl : list nat) : built e ->
  partial_iter_deep Rc RDC tb e (i :: tl) MError = Ok r ->
  dvars r = dvars e /\ built r /\ deriv_chain e (i :: tl) r.
Proof.
  intros Hb H. unfold partial_iter_deep in H.
  destruct (forallb (fun j => Nat.ltb j (length (dvars e))) (i :: tl)) eqn:Ef; cbn [negb] in H; [|discriminate].
  assert (Hidx : Forall (fun j => j < length (dvars e)) (i :: tl)).
  { apply Forall_forall. intros j Hj. rewrite forallb_forall in Ef. apply Nat.ltb_lt. exact (Ef j Hj). }
  destruct (fold_left _ (i :: tl) (Ok e)) as [last| |] eqn:Efold; cbn [bind] in H; try discriminate.
  destruct (fold_partial_chain (i :: tl) e last Hb Hidx Efold) as (Hbl & Vl & Cl & Hch).
  specialize (Cl ltac:(discriminate)).
  assert (HS : StronglySorted str_lt (dvars e)).
  { destruct Hb as (Hc & _). destruct e as [n b u v]. unfold Ix in Hc. rewrite dwf_unfold in Hc. exact (proj1 (proj1 (proj2 Hc))). }
  destruct (compile_consistent (dvars e) last r HS Cl (proj2 (proj2 Hbl)) H) as (Cr & Nr & Dr).
  pose proof (dconsistent_vars _ _ _ Cr) as Vr.
  split; [exact Vr|]. split; [apply consistent_built; rewrite ?Vr; assumption|exact (Hch r Dr)].
Qed.
