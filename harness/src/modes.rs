//! Case generators per property.
use crate::cases::*;
use crate::gen::*;
use crate::prog::*;
use crate::term::*;

pub struct Args { pub seed: u64, pub n: usize, pub out: String, pub shard: usize, pub thorough: bool }

fn expect_value(tb: &[OpSpec], want: &Term, want_vars: &[String], obs: &[Obs], queries: &[Query]) -> (Option<bool>, String) {
    // oracle: every Eval(n) with n = |vars| must be the reference term modulo associativity of flagged
    // operators, every Vars answer must be the sorted distinct names
    let mut ok = true; let mut note = String::new();
    for (q, o) in queries.iter().zip(obs) {
        match (q, o) {
            (Query::Eval(n), Obs::T(t)) | (Query::Relaxed(n), Obs::T(t)) if *n == want_vars.len() => {
                if anf(t, tb) != anf(want, tb) { ok = false; note = format!("{q:?}: got {} want {}", anf(t, tb).pretty(), anf(want, tb).pretty()); }
            }
            (Query::EvalVec(n), Obs::TC(t, _)) if *n == want_vars.len() => {
                if anf(t, tb) != anf(want, tb) { ok = false; note = format!("{q:?}: got {} want {}", anf(t, tb).pretty(), anf(want, tb).pretty()); }
            }
            (Query::Eval(n), other) | (Query::EvalVec(n), other) if *n == want_vars.len() => { ok = false; note = format!("{q:?}: got {} want {}", pretty_obs(other), want.pretty()); }
            (Query::Vars, Obs::S(v)) => if v != want_vars { ok = false; note = format!("vars {v:?} want {want_vars:?}"); },
            (Query::Vars, other) => { ok = false; note = format!("vars: {}", pretty_obs(other)); }
            _ => (),
        }
    }
    (Some(ok), note)
}

fn pick_table(r: &mut Rng, a: &Args) -> Vec<OpSpec> {
    let std = std_tables();
    if r.chance(2, 3) { std[r.below(std.len())].clone() } else { let _ = a; random_table(r) }
}

/// C01: well-formed trees x renderings x tables; flat parse (folded and unfolded) evaluated symbolically
pub fn c01(a: &Args) -> CaseSet {
    let mut cs = CaseSet::default();
    let mut r = Rng::new(a.seed);
    // corpus of regression inputs first (defects F1 of the pinned tree)
    let t0 = std_tables()[0].clone();
    for text in ["sin(x+3+2)", "sin(y+x*2+3)", "x-3+2", "-(x+1+2)*3", "sin cos x ^ 2", "2^3^2", "1-2-3", "x/2/4", "2*3+x*4*5", "-x^2", "--x", "sin(1+2)+x"] {
        let qs = vec![Query::Vars, Query::Eval(1)];
        cs.add(&t0, Prog::Flat(text.to_string()), qs, format!("corpus: {text}"), "corpus", 3, |_| (None, String::new()));
    }
    for i in 0..a.n {
        let tb = pick_table(&mut r, a);
        let cfg = GenCfg::default_for(&tb);
        let big = a.thorough && i % 10 == 0;
        let mut size = if big { 20 + r.below(120) as i32 } else { 1 + r.below(14) as i32 };
        let ch = gen_chain(&mut r, &tb, &cfg, 0, &mut size);
        let rc = RenderCfg { spaces: r.chance(1, 2), braces: r.chance(1, 2), redundant_parens: r.chance(1, 3), call_space: false };
        let text = render(&ch, &tb, &mut r, &rc);
        let vars = sorted_vars(&ch);
        let want = ref_chain(&ch, &tb, &vars);
        let nv = vars.len();
        let qs = vec![Query::Vars, Query::Eval(nv)];
        let prog = if i % 3 == 0 { Prog::FlatWo(text.clone()) } else { Prog::Flat(text.clone()) };
        let (tb2, want2, vars2, qs2) = (tb.clone(), want.clone(), vars.clone(), qs.clone());
        cs.add(&tb, prog, qs, text, "random-tree", n_operands(&ch), move |obs| expect_value(&tb2, &want2, &vars2, obs, &qs2));
    }
    cs
}

fn perms(n: usize) -> Vec<Vec<usize>> {
    fn go(cur: &mut Vec<usize>, used: &mut Vec<bool>, n: usize, out: &mut Vec<Vec<usize>>) {
        if cur.len() == n { out.push(cur.clone()); return }
        for i in 0..n { if !used[i] { used[i] = true; cur.push(i); go(cur, used, n, out); cur.pop(); used[i] = false; } }
    }
    let mut out = vec![]; go(&mut vec![], &mut vec![false; n], n, &mut out); out
}
/// reference for a chain v0 o0 v1 o1 ...: split at the operator applied last (lowest priority, rightmost among equals)
fn chain_ref(prios: &[i64], ops: &[usize], lo: usize, hi: usize) -> Term {
    if lo == hi { return Term::Var(lo) }
    let mut r = lo; for i in lo..hi { if prios[i] <= prios[r] { r = i } }
    Term::Bin(ops[r], Box::new(chain_ref(prios, ops, lo, r)), Box::new(chain_ref(prios, ops, r + 1, hi)))
}
/// C14: chains `v0 o1 v1 o2 v2 ...` whose operator priorities realise a given application order
pub fn c14(a: &Args) -> CaseSet {
    let mut cs = CaseSet::default();
    let mut r = Rng::new(a.seed);
    let names: Vec<String> = (0..MAX_OPS).map(|k| format!("o{}", (b'a' + (k / 26) as u8) as char) + &((b'a' + (k % 26) as u8) as char).to_string()).collect();
    // table: operator k has priority k (distinct priorities: any permutation of <= 32 operators is realisable)
    let tb: Vec<OpSpec> = (0..MAX_OPS).map(|k| OpSpec::bin(&names[k], k as i64, false)).collect();
    let var = |i: usize| format!("v{:03}", i);
    let mut add_chain = |cs: &mut CaseSet, ops: Vec<usize>, family: &'static str, which: usize| {
        let n = ops.len() + 1;
        let mut text = var(0);
        for (i, o) in ops.iter().enumerate() { text.push(' '); text.push_str(&names[*o]); text.push(' '); text.push_str(&var(i + 1)); }
        let prios: Vec<i64> = ops.iter().map(|o| *o as i64).collect();
        let want = chain_ref(&prios, &ops, 0, n - 1);
        let vars: Vec<String> = (0..n).map(var).collect();
        let prog = match which % 4 { 0 => Prog::FlatWo(text.clone()), 1 => Prog::Deep(text.clone()), 2 => Prog::ToDeep(Box::new(Prog::FlatWo(text.clone()))), _ => Prog::ToFlat(Box::new(Prog::Deep(text.clone()))) };
        let qs = if which % 4 == 0 { vec![Query::Eval(n), Query::EvalVec(n)] } else { vec![Query::Eval(n)] };
        let (tb2, qs2) = (tb.clone(), qs.clone());
        cs.add(&tb, prog, qs, format!("chain n={n} order={:?}", &ops[..ops.len().min(12)]), family, n, move |obs| expect_value(&tb2, &want, &vars, obs, &qs2));
    };
    // exhaustive: all application orders of up to 6 (quick) / 7 (thorough) operators; operator at position i gets
    // priority = rank so that the sorted order is exactly the permutation
    let maxk = if a.thorough { 7 } else { 6 };
    let mut count = 0;
    for k in 1..=maxk {
        for p in perms(k) {
            // p[j] = position applied j-th  => priority of position p[j] is k-1-j (descending)
            let mut ops = vec![0usize; k];
            for (j, pos) in p.iter().enumerate() { ops[*pos] = k - 1 - j; }
            add_chain(&mut cs, ops, "exhaustive-permutations", count); count += 1;
        }
    }
    // structured and random orders around the word boundaries
    let lens: Vec<usize> = if a.thorough { vec![9, 17, 31, 32, 33, 34, 63, 64, 65, 66, 67, 127, 128, 129, 130, 191, 192, 193, 194, 257, 513] } else { vec![31, 33, 63, 64, 65, 66, 128, 129, 193] };
    let reps = a.n.max(1);
    for &n in &lens {
        for rep in 0..reps {
            let m = n - 1;
            let ops: Vec<usize> = (0..m).map(|i| match rep % 6 {
                0 => i % 32,                                   // ascending priorities: right to left within blocks
                1 => 31 - (i % 32),                            // descending: left to right
                2 => (i / ((m / 32).max(1))).min(31),          // long equal-priority runs, ascending
                3 => if i % 2 == 0 { (i / 2) % 32 } else { 31 - (i / 2) % 32 },   // alternating
                4 => { let mid = m / 2; let d = if i > mid { i - mid } else { mid - i }; 31 - (d % 32) } // inside-out
                _ => r.below(32),
            }).collect();
            add_chain(&mut cs, ops, "boundary-lengths", rep + 4 * (n % 2));
        }
    }
    cs
}
