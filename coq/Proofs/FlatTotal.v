(* Proofs/FlatTotal.v — the flat pipeline never panics (C06): for EVERY text, table, data type and literal matcher
   FlatEx::parse / parse_wo_compile return an expression or an error value; every expression they return evaluates to a
   value on every slice of the right length (no index out of bounds in the tracker loop, no missing variable), and
   compiles again without panic. *)
From Coq Require Import List Arith Lia Bool ZArith.
Import ListNotations.
From Exmex.Model Require Import Base EvalBinary Lexer Flat.
From Exmex.Proofs Require Import SortDesc EvalBinaryCorrect FlatPev CompileCorrect Vars Totality WalkOps.
Open Scope nat_scope.

Section FlatTotal.
Context {D : Type}.
Variable C : carrier D.
Variable tb : optable.

Lemma isb_no_panic k left site : @is_operator_binary D tb k left <> Panic site.
Proof. unfold is_operator_binary. destruct (has_bin tb k && negb (has_un tb k)); [destruct left as [[]|]; discriminate|]. destruct (has_bin tb k && has_un tb k); discriminate. Qed.
Lemma subsequent_unaries_no_panic : forall (rp : list (token D)) acc site, subsequent_unaries tb rp acc <> Panic site.
Proof.
  induction rp as [|t rest IH]; intros acc site; cbn [subsequent_unaries]; [discriminate|].
  unfold unpack_unary. destruct t; cbn [bind]; try discriminate.
  pose proof (isb_no_panic k (hd_error rest)) as Hb. destruct (is_operator_binary tb k (hd_error rest)) as [b|e|s]; cbn [bind]; [|discriminate|destruct (Hb s eq_refl)].
  destruct b; [discriminate|]. destruct (has_un tb k); cbn [bind]; [apply IH|discriminate].
Qed.
Lemma create_node_no_panic (rp : list (token D)) kind site : create_node tb rp kind <> Panic site.
Proof.
  unfold create_node. destruct rp as [|t rest]; [discriminate|]. destruct t; try discriminate.
  pose proof (isb_no_panic k (hd_error rest)) as Hb. destruct (is_operator_binary tb k (hd_error rest)) as [b|e|s]; cbn [bind]; [|discriminate|destruct (Hb s eq_refl)].
  destruct b; [discriminate|].
  pose proof (subsequent_unaries_no_panic (TOp k :: rest) []) as Hs. destruct (subsequent_unaries tb (TOp k :: rest) []) as [us|e|s]; cbn [bind]; [discriminate|discriminate|destruct (Hs s eq_refl)].
Qed.

(* the walker: the text does not end in an operator, every variable token has an index *)
Definition no_trailing_op (rest : list (token D)) : Prop := rest = [] \/ forall k, last rest TOpen <> TOp k.
Lemma no_trailing_tl (t : token D) rest : rest <> [] -> no_trailing_op (t :: rest) -> no_trailing_op rest.
Proof. intros Hne [H|H]; [discriminate|]. right. destruct rest as [|t' r]; [congruence|]. exact H. Qed.

Lemma walk_no_panic : forall fuel rp rest vars (rnodes : list (fnode D)) rops depth ustack site,
  (forall x, In (TVar x) rest -> exists i, index_of x vars 0 = Some i) -> no_trailing_op rest ->
  walk tb fuel rp rest vars rnodes rops depth ustack <> Panic site.
Proof.
  induction fuel as [|fuel IH]; intros rp rest vars rnodes rops depth ustack site Hv Hl; [discriminate|].
  cbn [walk]. destruct rest as [|t rest']; [discriminate|].
  assert (Hv' : forall x, In (TVar x) rest' -> exists i, index_of x vars 0 = Some i) by (intros x Hx; apply Hv; right; exact Hx).
  assert (Hl' : rest' <> [] -> no_trailing_op rest') by (intros Hne; exact (no_trailing_tl t rest' Hne Hl)).
  assert (Hrec : forall rp2 rn ro d us, walk tb fuel rp2 rest' vars rn ro d us <> Panic site).
  { intros. destruct rest' as [|t2 r2]; [destruct fuel; discriminate|]. apply IH; [exact Hv'|apply Hl'; discriminate]. }
  destruct t as [d| | |k|x].
  - pose proof (create_node_no_panic rp (FNum d)) as Hc. destruct (create_node tb rp (FNum d)) as [n|e|s]; cbn [bind]; [apply Hrec|discriminate|destruct (Hc s eq_refl)].
  - apply Hrec.
  - destruct (lowest_trailing rops depth 0 None) as [pos|].
    + destruct (match ustack with (urp, d) :: tl => if (d =? depth - 1)%Z then Some (urp, tl) else None | [] => None end) as [[urp tl]|]; [|apply Hrec].
      pose proof (subsequent_unaries_no_panic urp []) as Hs. destruct (subsequent_unaries tb urp []) as [us|e|s]; cbn [bind]; [apply Hrec|discriminate|destruct (Hs s eq_refl)].
    + destruct rnodes as [|n ntl]; [discriminate|].
      destruct (match ustack with (urp, d) :: tl => if (d =? depth - 1)%Z then Some (urp, tl) else None | [] => None end) as [[urp tl]|]; [|apply Hrec].
      pose proof (subsequent_unaries_no_panic urp []) as Hs. destruct (subsequent_unaries tb urp []) as [us|e|s]; cbn [bind]; [apply Hrec|discriminate|destruct (Hs s eq_refl)].
  - pose proof (isb_no_panic k (hd_error rp)) as Hb. destruct (is_operator_binary tb k (hd_error rp)) as [b|e|s]; cbn [bind]; [|discriminate|destruct (Hb s eq_refl)].
    destruct b.
    + destruct (obin (op_of tb k)); [apply Hrec|discriminate].
    + destruct rest' as [|t2 r2].
      * (* an operator at the very end: excluded *) destruct Hl as [Hl|Hl]; [discriminate|]. exfalso. exact (Hl k eq_refl).
      * destruct t2; try discriminate; apply Hrec.
  - destruct (Hv x (or_introl eq_refl)) as [i Hi]. unfold var_index. rewrite Hi. cbn [bind].
    pose proof (create_node_no_panic rp (FVar i)) as Hc. destruct (create_node tb rp (FVar i)) as [n|e|s]; cbn [bind]; [apply Hrec|discriminate|destruct (Hc s eq_refl)].
Qed.

Lemma preconditions_last (ts : list (token D)) : check_preconditions tb ts = Ok tt -> no_trailing_op ts.
Proof.
  unfold check_preconditions, no_trailing_op. destruct ts as [|t ts']; [discriminate|].
  destruct (negb (pairs_ok tb (t :: ts'))); [discriminate|]. destruct (paren_balance (t :: ts') 0); [|discriminate].
  destruct (negb (z =? 0)%Z); [discriminate|]. intros H. right. intros k Hk. rewrite Hk in H. discriminate.
Qed.
Lemma vars_indexed (ts : list (token D)) x : In (TVar x) ts -> exists i, index_of x (find_parsed_vars ts) 0 = Some i.
Proof. intros H. apply index_of_complete. apply find_parsed_vars_spec. exact H. Qed.

Theorem parse_tokens_wo_no_panic text (ts : list (token D)) site : parse_tokens_wo tb true text ts <> Panic site.
Proof.
  unfold parse_tokens_wo. pose proof (check_preconditions_total tb ts) as Hp.
  destruct (check_preconditions tb ts) as [[]|e|s] eqn:E; cbn [bind]; [|discriminate|destruct (Hp s eq_refl)].
  unfold make_expression.
  pose proof (walk_no_panic (S (length ts)) [] ts (find_parsed_vars ts) [] [] 0%Z [] ) as Hw.
  destruct (walk tb (S (length ts)) [] ts (find_parsed_vars ts) [] [] 0 []) as [[nodes ops]|e|s] eqn:Ew; cbn [bind].
  - destruct (Nat.eqb (S (length ops)) (length nodes)); discriminate.
  - discriminate.
  - exfalso. apply (Hw s); [intros x Hx; apply vars_indexed; exact Hx|apply preconditions_last; exact E|reflexivity].
Qed.

(* compile never panics on what the parser builds (any congruence will do: take the trivial one) *)
Lemma compile_total (fx : flatex D) : flat_wf fx -> exists fx', compile C true fx = Ok fx' /\ flat_wf fx' /\ fvars fx' = fvars fx /\
  var_nodes (fnodes fx') = var_nodes (fnodes fx).
Proof.
  intros Hwf.
  destruct (compile_preserves C (fun _ _ => True) (fun _ => I) (fun _ _ _ => I) (fun _ _ _ _ _ => I) (fun _ _ _ _ _ _ _ => I) (fun _ _ _ _ => I) fx Hwf
              (fun _ _ _ _ _ _ => I)) as (fx' & H1 & H2 & H3 & _ & _ & H6 & _).
  exists fx'. auto.
Qed.

Variable is_literal : str -> option nat.
Theorem parse_wo_compile_no_panic text site : parse_wo_compile C tb true is_literal text <> Panic site.
Proof.
  unfold parse_wo_compile. pose proof (tokenize_total C tb is_literal text) as Ht.
  destruct (tokenize C tb is_literal text) as [ts|e|s]; cbn [bind]; [apply parse_tokens_wo_no_panic|discriminate|destruct (Ht s eq_refl)].
Qed.
Theorem parse_no_panic text site : parse C tb true is_literal text <> Panic site.
Proof.
  unfold parse. pose proof (parse_wo_compile_no_panic text) as Hp.
  destruct (parse_wo_compile C tb true is_literal text) as [fx|e|s] eqn:E; cbn [bind]; [|discriminate|destruct (Hp s eq_refl)].
  unfold parse_wo_compile in E. destruct (tokenize C tb is_literal text) as [ts| |]; try discriminate. cbn [bind] in E.
  unfold parse_tokens_wo in E. destruct (check_preconditions tb ts); try discriminate. cbn [bind] in E.
  destruct (make_expression_shape tb true text ts _ fx E) as (H1 & H2 & _).
  destruct (compile_total fx (conj H1 H2)) as (fx' & -> & _). discriminate.
Qed.

(* every expression the parser builds evaluates to a value on every slice of the right length *)
Lemma eval_total (fx : flatex D) vals : flat_wf fx -> in_range vals (fnodes fx) -> length vals = length (fvars fx) ->
  exists v, eval_flat C fx vals = Ok v.
Proof.
  destruct fx as [nodes ops prios names text]. unfold flat_wf. cbn [fnodes fops fprios fvars]. intros [Hlen Hp] Hr Hl. subst prios.
  unfold eval_flat. cbn [fvars]. rewrite Hl, Nat.eqb_refl. cbn [negb]. unfold eval_cloning. cbn [fnodes fops fprios].
  rewrite (mapM_node_val_range C vals _ Hr). cbn [bind]. unfold eval_numbers.
  set (nums := map (FlVals.nval C vals) nodes). set (sigma := prioritized_indices_flat true ops nodes).
  destruct (sort_desc_spec (key true nodes ops) (length ops)) as (_ & NDs & Hiff). fold sigma in NDs, Hiff.
  assert (Hnl : length nums = S (length ops)) by (unfold nums; rewrite map_length; exact Hlen).
  eexists. replace (length ops) with (length nums - 1) by lia.
  apply eval_binary_is_cart; [destruct nums; discriminate|exact NDs|]. intros i. rewrite Hnl. replace (S (length ops) - 1) with (length ops) by lia. apply Hiff.
Qed.

Theorem parsed_evaluates text (fx : flatex D) vals :
  parse C tb true is_literal text = Ok fx \/ parse_wo_compile C tb true is_literal text = Ok fx ->
  length vals = length (fvars fx) -> exists v, eval_flat C fx vals = Ok v.
Proof.
  intros Hparse Hl.
  assert (Hwo : forall fx0, parse_wo_compile C tb true is_literal text = Ok fx0 ->
            flat_wf fx0 /\ (forall n, In n (fnodes fx0) -> oknode (fvars fx0) n)).
  { intros fx0 E. unfold parse_wo_compile in E. destruct (tokenize C tb is_literal text) as [ts| |]; try discriminate. cbn [bind] in E.
    unfold parse_tokens_wo in E. destruct (check_preconditions tb ts); try discriminate. cbn [bind] in E.
    destruct (make_expression_shape tb true text ts _ fx0 E) as (H1 & H2 & H3 & _ & _ & H6). rewrite H3. split; [split; assumption|exact H6]. }
  destruct Hparse as [E|E].
  - unfold parse in E. destruct (parse_wo_compile C tb true is_literal text) as [fx0| |] eqn:E0; try discriminate. cbn [bind] in E.
    destruct (Hwo fx0 eq_refl) as [Hwf Hn]. destruct (compile_total fx0 Hwf) as (fx' & Ec & Hwf' & Hv & Hvn). rewrite Ec in E. inversion E; subst fx'.
    apply eval_total; [exact Hwf'| |exact Hl].
    apply in_range_var_nodes. rewrite Hvn. apply in_range_var_nodes. intros n i Hin Hk. rewrite Hl, Hv. exact (Hn n Hin i Hk).
  - destruct (Hwo fx E) as [Hwf Hn]. apply eval_total; [exact Hwf| |exact Hl]. intros n i Hin Hk. rewrite Hl. exact (Hn n Hin i Hk).
Qed.

End FlatTotal.
