(* Proofs/ParseListings.v — operator listings of parsed expressions (C03): the unfolded flat parse of the rendering of
   a well-formed tree lists exactly the operators of the tree; constant folding only removes names. *)
From Coq Require Import List Arith ZArith Lia Bool Sorted.
Import ListNotations.
From Exmex.Model Require Import Base EvalBinary Lexer Flat Deep Convert.
From Exmex.Spec Require Import RefSem.
From Exmex.Proofs Require Import Vars DeepVars FlStruct FlSem FlVals WalkSim C01Main CompileRefine DeepCompile Listings.
Open Scope nat_scope.

Section ParseListings.
Context {D : Type}.
Variable C : carrier D.
Variable tb : optable.
Variable vars : list str.

(* the operators of a surface tree *)
Fixpoint abn (a : atom (D:=D)) : list nat :=
  match a with
  | ALeaf _ _ => []
  | AGroup _ a0 rest => abn a0 ++ (fix go (l : list (nat * atom (D:=D))) : list nat := match l with [] => [] | (o, b) :: tl => o :: abn b ++ go tl end) rest
  end.
Fixpoint rbn (l : list (nat * atom (D:=D))) : list nat := match l with [] => [] | (o, b) :: tl => o :: abn b ++ rbn tl end.
Fixpoint aun (a : atom (D:=D)) : list nat :=
  match a with
  | ALeaf us _ => us
  | AGroup us a0 rest => us ++ aun a0 ++ (fix go (l : list (nat * atom (D:=D))) : list nat := match l with [] => [] | (_, b) :: tl => aun b ++ go tl end) rest
  end.
Fixpoint run (l : list (nat * atom (D:=D))) : list nat := match l with [] => [] | (_, b) :: tl => aun b ++ run tl end.
Lemma abn_group us a0 rest : abn (AGroup us a0 rest) = abn a0 ++ rbn rest.
Proof. cbn [abn]. f_equal. all: induction rest as [|[o b] tl IH]; [reflexivity|]. all: cbn [rbn]; rewrite IH; reflexivity. Qed.
Lemma aun_group us a0 rest : aun (AGroup us a0 rest) = us ++ aun a0 ++ run rest.
Proof. cbn [aun]. do 2 f_equal. all: induction rest as [|[o b] tl IH]; [reflexivity|]. all: cbn [run]; rewrite IH; reflexivity. Qed.
Definition chain_bn (c : chain (D:=D)) : list nat := abn (fst c) ++ rbn (snd c).
Definition chain_un (c : chain (D:=D)) : list nat := aun (fst c) ++ run (snd c).

Local Notation fl_atom := (@fl_atom D tb vars).
Local Notation fl_rest := (@fl_rest D tb vars).
Local Notation fl_chain := (@fl_chain D tb vars).
Local Notation names := (@names_of D).

Lemma rmin_lt : forall (ops : list fop) pos best bestk, best < pos -> rmin ops pos best bestk < pos + length ops.
Proof.
  induction ops as [|o ops IH]; intros pos best bestk H; cbn [rmin length]; [lia|].
  destruct (Z.leb (fprio o) bestk); [specialize (IH (S pos) pos (fprio o) ltac:(lia))|specialize (IH (S pos) best bestk ltac:(lia))]; lia.
Qed.
Lemma rmin_idx_lt (ops : list fop) : ops <> [] -> rmin_idx ops < length ops.
Proof. destruct ops as [|o ops]; [congruence|]. intros _. cbn [rmin_idx length]. pose proof (rmin_lt ops 1 0 (fprio o) ltac:(lia)). lia. Qed.

Lemma attach_names us (no : list (fnode D) * list fop) : shape no ->
  (forall k, In k (fst (names (attach us no))) <-> In k (fst (names no))) /\
  (forall k, In k (snd (names (attach us no))) <-> In k us \/ In k (snd (names no))).
Proof.
  destruct no as [nodes ops]. unfold shape, names_of, attach. cbn [fst snd]. intros Hs.
  destruct ops as [|o ops'].
  - destruct nodes as [|n [|n' nt]]; cbn [length] in Hs; try lia. cbn [fst snd flat_map map nun app]. split; intros k; [tauto|].
    rewrite !app_nil_r, in_app_iff. tauto.
  - cbn [fst snd]. split; intros k.
    + rewrite update_fidx. tauto.
    + rewrite !in_app_iff. rewrite (update_fun (rmin_idx (o :: ops')) us (o :: ops') (rmin_idx_lt (o :: ops') ltac:(intros E; discriminate E)) k). tauto.
Qed.

Theorem fl_names : forall n,
  (forall a d, asize a <= n ->
     (forall k, In k (fst (names (fl_atom a d))) <-> In k (abn a)) /\ (forall k, In k (snd (names (fl_atom a d))) <-> In k (aun a))) /\
  (forall l d, rsize l <= n ->
     (forall k, In k (fst (names (fl_rest l d))) <-> In k (rbn l)) /\ (forall k, In k (snd (names (fl_rest l d))) <-> In k (run l))).
Proof.
  induction n as [|n [IHa IHr]].
  - split; [intros a d H; pose proof (asize_pos a); lia|].
    intros l d H. destruct l as [|[o b] tl]; [split; intros k; cbn; tauto|]. cbn in H. pose proof (asize_pos b). lia.
  - assert (Hatom : forall a d, asize a <= S n ->
       (forall k, In k (fst (names (fl_atom a d))) <-> In k (abn a)) /\ (forall k, In k (snd (names (fl_atom a d))) <-> In k (aun a))).
    { intros a d Hs. destruct a as [us k0|us a0 rest].
      - destruct k0 as [v|x]; cbn [FlStruct.fl_atom names_of fst snd map flat_map nun abn aun]; split; intros k; rewrite ?app_nil_r; cbn [app In]; tauto.
      - rewrite asize_group in Hs. rewrite fl_atom_group, abn_group, aun_group.
        destruct (IHa a0 (d + 1)%Z ltac:(lia)) as [A1 A2]. destruct (IHr rest (d + 1)%Z ltac:(lia)) as [R1 R2].
        destruct (fl_vals C tb vars [] (asize a0)) as [Hva _]. destruct (Hva a0 (d + 1)%Z (le_n _)) as [_ Hs0].
        destruct (fl_vals C tb vars [] (rsize rest)) as [_ Hvr]. destruct (Hvr rest (d + 1)%Z (le_n _)) as [_ Hlr].
        assert (Hsh : shape (fl_chain (a0, rest) (d + 1))).
        { unfold FlStruct.fl_chain, shape in *. cbn [fst snd] in *. destruct (fl_atom a0 (d + 1)) as [n0 o0]. destruct (fl_rest rest (d + 1)) as [nr or].
          cbn [fst snd] in *. rewrite !app_length. lia. }
        destruct (attach_names us _ Hsh) as [T1 T2].
        assert (Hc : (forall k, In k (fst (names (fl_chain (a0, rest) (d + 1)))) <-> In k (abn a0 ++ rbn rest)) /\
                     (forall k, In k (snd (names (fl_chain (a0, rest) (d + 1)))) <-> In k (aun a0 ++ run rest))).
        { unfold FlStruct.fl_chain. cbn [fst snd]. destruct (fl_atom a0 (d + 1)) as [n0 o0]. destruct (fl_rest rest (d + 1)) as [nr or].
          unfold names_of in *. cbn [fst snd] in *. split; intros k.
          - rewrite map_app, !in_app_iff, A1, R1. tauto.
          - specialize (A2 k). specialize (R2 k). rewrite !flat_map_app, !in_app_iff in *. tauto. }
        destruct Hc as [C1 C2]. split; intros k; [rewrite T1; apply C1|]. rewrite T2, C2, !in_app_iff. tauto. }
    split; [exact Hatom|].
    intros l d Hs. destruct l as [|[o b] tl]; [split; intros k; cbn; tauto|]. cbn [rsize] in Hs. cbn [FlStruct.fl_rest rbn run].
    pose proof (asize_pos b).
    destruct (Hatom b d ltac:(lia)) as [B1 B2]. destruct (IHr tl d ltac:(lia)) as [T1 T2].
    destruct (fl_atom b d) as [nb ob]. destruct (fl_rest tl d) as [nt ot]. unfold names_of in *. cbn [fst snd] in *.
    split; intros k.
    + cbn [map fidx mk_op In]. rewrite map_app, !in_app_iff, B1, T1. unfold mk_op. cbn [fidx]. tauto.
    + specialize (B2 k). specialize (T2 k). cbn [flat_map]. unfold mk_op at 1. cbn [fun_ app]. rewrite !flat_map_app, !in_app_iff in *. tauto.
Qed.

Local Notation rp := (repr_of tb).

(* 1. the unfolded flat parse lists exactly the operators of the tree *)
Theorem unfolded_parse_listings (Hwf_tb : wf_table tb = true) (c : chain (D:=D)) (text : str) :
  wf_chain tb c = true -> vars_in_atom vars (fst c) -> vars_in_rest vars (snd c) ->
  exists fx, make_expression tb true text (flatten c) vars = Ok fx /\
    f_binary_reprs tb fx = sort_strs (map rp (chain_bn c)) /\
    f_unary_reprs tb fx = sort_strs (map rp (chain_un c)) /\
    f_operator_reprs tb fx = sort_strs (map rp (chain_bn c ++ chain_un c)).
Proof.
  intros Hwf Hv0 Hvr. eexists. split; [exact (flat_parse_structure C tb Hwf_tb vars (map (fun _ => dflt C) vars) (map_length _ _) c text Hwf Hv0 Hvr)|].
  match goal with |- f_binary_reprs tb ?fx = _ /\ _ => destruct (flat_listings tb fx) as (B & U & O) end.
  rewrite B, U, O. unfold fbnames, funames. cbn [fnodes fops].
  destruct c as [a0 rest]. unfold chain_bn, chain_un. cbn [fst snd].
  destruct (fl_names (asize a0)) as [Ha _]. destruct (Ha a0 0%Z (le_n _)) as [A1 A2].
  destruct (fl_names (rsize rest)) as [_ Hr]. destruct (Hr rest 0%Z (le_n _)) as [R1 R2].
  assert (N : (forall k, In k (map fidx (snd (fl_chain (a0, rest) 0))) <-> In k (abn a0 ++ rbn rest)) /\
              (forall k, In k (flat_map fun_ (snd (fl_chain (a0, rest) 0)) ++ flat_map (@nun D) (fst (fl_chain (a0, rest) 0))) <-> In k (aun a0 ++ run rest))).
  { unfold FlStruct.fl_chain. cbn [fst snd]. destruct (fl_atom a0 0) as [n0 o0]. destruct (fl_rest rest 0) as [nr or].
    unfold names_of in *. cbn [fst snd] in *. split; intros k.
    - rewrite map_app, !in_app_iff, A1, R1. tauto.
    - specialize (A2 k). specialize (R2 k). rewrite !flat_map_app, !in_app_iff in *. tauto. }
  destruct N as [N1 N2].
  repeat split; apply sort_strs_ext; intros y; rewrite !in_map_iff.
  - split; intros (k & <- & Hk); exists k; (split; [reflexivity|]); apply N1; exact Hk.
  - split; intros (k & <- & Hk); exists k; (split; [reflexivity|]); apply N2; exact Hk.
  - split; intros (k & <- & Hk); exists k; (split; [reflexivity|]); rewrite in_app_iff in *; rewrite <- (N1 k), <- (N2 k) in *; exact Hk.
Qed.

(* 2. folding only removes names *)
Definition plain_or_sub (NS : list nat) (n : fnode D) : Prop := incl (nun n) NS.
Lemma compile_loop_nodes (NS : list nat) : forall sigma i num_inds (nodes : list (fnode D)) ops declined used nodes' used',
  Forall (plain_or_sub NS) nodes -> compile_loop C sigma i num_inds nodes ops declined used = Ok (nodes', used') -> Forall (plain_or_sub NS) nodes'.
Proof.
  induction sigma as [|b stl IH]; intros i num_inds nodes ops declined used nodes' used' HF H; cbn [compile_loop] in H.
  - injection H as <- _. exact HF.
  - destruct (nth_error num_inds i) as [num_idx|]; [|discriminate].
    destruct (nth_error nodes num_idx) as [n1|]; [|discriminate]. destruct (nth_error nodes (S num_idx)) as [n2|]; [|discriminate].
    destruct (nkind n1) as [a|?]; [|exact (IH _ _ _ _ _ _ _ _ HF H)].
    destruct (nkind n2) as [b'|?]; [|exact (IH _ _ _ _ _ _ _ _ HF H)].
    destruct (negb _); [|exact (IH _ _ _ _ _ _ _ _ HF H)].
    destruct (nth_error ops b) as [o|]; [|discriminate].
    refine (IH _ _ _ _ _ _ _ _ _ H). rewrite Forall_forall in *. intros x Hx.
    apply In_remove_nth in Hx. apply In_set_nth in Hx. destruct Hx as [->|Hx]; [intros k []|exact (HF x Hx)].
Qed.

Theorem compile_listings (fb : bool) (fx fx' : flatex D) : compile C fb fx = Ok fx' ->
  incl (f_binary_reprs tb fx') (f_binary_reprs tb fx) /\ incl (f_unary_reprs tb fx') (f_unary_reprs tb fx) /\
  incl (f_operator_reprs tb fx') (f_operator_reprs tb fx).
Proof.
  intros H. unfold compile in H.
  set (nodes0 := map (fun n : fnode D => match nkind n with FNum d => {| nkind := FNum (apply_un C (nun n) d); nun := [] |} | FVar _ => n end) (fnodes fx)) in H.
  destruct (compile_loop C (fprios fx) 0 (fprios fx) nodes0 (fops fx) (repeat false (length nodes0)) []) as [[nodes used]| |] eqn:El; cbn [bind] in H; try discriminate.
  injection H as <-.
  set (NS := flat_map (@nun D) (fnodes fx)).
  assert (H0 : Forall (plain_or_sub NS) nodes0).
  { unfold nodes0. rewrite Forall_forall. intros x Hx. apply in_map_iff in Hx. destruct Hx as (n & <- & Hn).
    destruct (nkind n); [intros k []|]. intros k Hk. unfold NS. apply in_flat_map. exists n. split; assumption. }
  pose proof (compile_loop_nodes NS _ _ _ _ _ _ _ _ _ H0 El) as Hn.
  set (ops' := map snd (filter (fun p : nat * fop => negb (existsb (Nat.eqb (fst p)) used)) (combine (seq 0 (length (fops fx))) (fops fx)))).
  assert (Hops : incl ops' (fops fx)).
  { intros o Ho. unfold ops' in Ho. apply in_map_iff in Ho. destruct Ho as ([j o'] & <- & Hf). apply filter_In in Hf. destruct Hf as [Hf _].
    apply in_combine_r in Hf. exact Hf. }
  destruct (flat_listings tb fx) as (B & U & O).
  match goal with |- incl (f_binary_reprs tb ?fx2) _ /\ _ => destruct (flat_listings tb fx2) as (B' & U' & O') end.
  rewrite B, U, O, B', U', O'. unfold fbnames, funames. cbn [fnodes fops]. fold ops'.
  assert (I1 : forall k, In k (map fidx ops') -> In k (map fidx (fops fx))).
  { intros k Hk. apply in_map_iff in Hk. destruct Hk as (o & <- & Ho). apply in_map. apply Hops. exact Ho. }
  assert (I2 : forall k, In k (flat_map fun_ ops' ++ flat_map (@nun D) nodes) -> In k (flat_map fun_ (fops fx) ++ flat_map (@nun D) (fnodes fx))).
  { intros k Hk. rewrite in_app_iff in *. destruct Hk as [Hk|Hk].
    - left. apply in_flat_map in Hk. destruct Hk as (o & Ho & Hk). apply in_flat_map. exists o. split; [apply Hops; exact Ho|exact Hk].
    - right. apply in_flat_map in Hk. destruct Hk as (n & Hn' & Hk). rewrite Forall_forall in Hn. exact (Hn n Hn' k Hk). }
  repeat split; intros y Hy; rewrite In_sort in *; rewrite in_map_iff in *; destruct Hy as (k & <- & Hk); exists k; (split; [reflexivity|]).
  - apply I1. exact Hk.
  - apply I2. exact Hk.
  - rewrite in_app_iff in *. destruct Hk as [Hk|Hk]; [left; apply I1; exact Hk|right; apply I2; exact Hk].
Qed.
End ParseListings.
