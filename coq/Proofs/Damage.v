(* Proofs/Damage.v — single-point damages (C07): a parenthesis inserted into or deleted from a balanced token list leaves
   it unbalanced; an extra operand directly beside an operand changes the operand count but not the binary-operator
   count, so whatever the flat parser accepted before it rejects afterwards; and outside prefix notation the deep parser
   rejects every token list with two adjacent operands (an accepted list is the rendering of a tree, which has none). *)
From Coq Require Import List Arith Lia Bool ZArith.
Import ListNotations.
From Exmex.Model Require Import Base EvalBinary Lexer Flat Deep.
From Exmex.Spec Require Import RefSem.
From Exmex.Proofs Require Import Vars Consuming FlSem WalkSim DeepParse Accept DeepTotal ParseConsume ParseAny ParseComplete.
Open Scope nat_scope.

Section Damage.
Context {D : Type}.
Variable tb : optable.

(* ---- parentheses ---- *)
Fixpoint pdiff (ts : list (token D)) : Z :=
  match ts with [] => 0 | TOpen :: tl => 1 + pdiff tl | TClose :: tl => pdiff tl - 1 | _ :: tl => pdiff tl end%Z.
Lemma pdiff_app a b : pdiff (a ++ b) = (pdiff a + pdiff b)%Z.
Proof. induction a as [|t a IH]; [reflexivity|]. destruct t; cbn [app pdiff]; rewrite ?IH; lia. Qed.
Lemma pb_diff : forall (ts : list (token D)) c r, paren_balance ts c = Some r -> r = (c + pdiff ts)%Z.
Proof.
  induction ts as [|t tl IH]; intros c r H; [cbn in *; inversion H; lia|].
  destruct t; cbn [paren_balance pdiff] in *; try (rewrite (IH _ _ H); lia).
  destruct (c - 1 <? 0)%Z; [discriminate|]. rewrite (IH _ _ H). lia.
Qed.
Definition is_paren (t : token D) : bool := match t with TOpen | TClose => true | _ => false end.
Theorem paren_inserted (a b : list (token D)) p : is_paren p = true -> paren_balance (a ++ b) 0 = Some 0%Z -> paren_balance (a ++ p :: b) 0 <> Some 0%Z.
Proof.
  intros Hp H0 H1. apply pb_diff in H0. apply pb_diff in H1. rewrite pdiff_app in *. destruct p; try discriminate; cbn [pdiff] in H1; lia.
Qed.
Theorem paren_deleted (a b : list (token D)) p : is_paren p = true -> paren_balance (a ++ p :: b) 0 = Some 0%Z -> paren_balance (a ++ b) 0 <> Some 0%Z.
Proof.
  intros Hp H0 H1. apply pb_diff in H0. apply pb_diff in H1. rewrite pdiff_app in *. destruct p; try discriminate; cbn [pdiff] in H0; lia.
Qed.

(* ---- operand and operator counts of the flat walker ---- *)
Definition leaf (t : token D) : bool := match t with TNum _ | TVar _ => true | _ => false end.
Fixpoint leaves (ts : list (token D)) : nat := match ts with [] => 0 | t :: tl => (if leaf t then 1 else 0) + leaves tl end.
Definition isbin (left : option (token D)) (t : token D) : nat :=
  match t with TOp k => match is_operator_binary tb k left with Ok true => 1 | _ => 0 end | _ => 0 end.
Fixpoint binops (left : option (token D)) (ts : list (token D)) : nat :=
  match ts with [] => 0 | t :: tl => isbin left t + binops (Some t) tl end.

Lemma walk_counts : forall fuel rp rest vars rnodes rops depth ustack nodes ops,
  walk tb fuel rp rest vars rnodes rops depth ustack = Ok (nodes, ops) ->
  length nodes = length rnodes + leaves rest /\ length ops = length rops + binops (hd_error rp) rest.
Proof.
  induction fuel as [|fuel IH]; intros rp rest vars rnodes rops depth ustack nodes ops H; [discriminate|].
  cbn [walk] in H. destruct rest as [|t rest'].
  - inversion H; subst. rewrite !rev_length. cbn. lia.
  - destruct t as [d| | |k|x]; cbn [leaves leaf binops isbin].
    + destruct (create_node tb rp (FNum d)) as [n| |]; cbn [bind] in H; try discriminate.
      destruct (IH _ _ _ _ _ _ _ _ _ H) as [H1 H2]. cbn [length hd_error] in *. lia.
    + destruct (IH _ _ _ _ _ _ _ _ _ H) as [H1 H2]. cbn [length hd_error] in *. lia.
    + destruct (lowest_trailing rops depth 0 None) as [pos|].
      * destruct (match ustack with (urp, d) :: tl => if (d =? depth - 1)%Z then Some (urp, tl) else None | [] => None end) as [[urp tl]|].
        -- destruct (subsequent_unaries tb urp []) as [us| |]; cbn [bind] in H; try discriminate.
           destruct (IH _ _ _ _ _ _ _ _ _ H) as [H1 H2]. rewrite update_nth_length in H2. cbn [length hd_error] in *. lia.
        -- destruct (IH _ _ _ _ _ _ _ _ _ H) as [H1 H2]. cbn [length hd_error] in *. lia.
      * destruct rnodes as [|n ntl]; [discriminate|].
        destruct (match ustack with (urp, d) :: tl => if (d =? depth - 1)%Z then Some (urp, tl) else None | [] => None end) as [[urp tl]|].
        -- destruct (subsequent_unaries tb urp []) as [us| |]; cbn [bind] in H; try discriminate.
           destruct (IH _ _ _ _ _ _ _ _ _ H) as [H1 H2]. cbn [length hd_error] in *. lia.
        -- destruct (IH _ _ _ _ _ _ _ _ _ H) as [H1 H2]. cbn [length hd_error] in *. lia.
    + destruct (is_operator_binary tb k (hd_error rp)) as [b| |] eqn:Eb; cbn [bind] in H; try discriminate.
      destruct b.
      * destruct (obin (op_of tb k)) as [bs|]; [|discriminate].
        destruct (IH _ _ _ _ _ _ _ _ _ H) as [H1 H2]. cbn [length hd_error] in *. lia.
      * destruct rest' as [|t2 r2]; [discriminate|].
        destruct t2; try discriminate; destruct (IH _ _ _ _ _ _ _ _ _ H) as [H1 H2]; cbn [length hd_error] in *; lia.
    + destruct (var_index vars x) as [i| |]; cbn [bind] in H; try discriminate.
      destruct (create_node tb rp (FVar i)) as [n| |]; cbn [bind] in H; try discriminate.
      destruct (IH _ _ _ _ _ _ _ _ _ H) as [H1 H2]. cbn [length hd_error] in *. lia.
Qed.

Lemma accepted_counts fb text (ts : list (token D)) vars (fx : flatex D) : make_expression tb fb text ts vars = Ok fx -> leaves ts = S (binops None ts).
Proof.
  unfold make_expression. intros H.
  destruct (walk tb (S (length ts)) [] ts vars [] [] 0 []) as [[nodes ops]| |] eqn:Ew; cbn [bind] in H; try discriminate.
  destruct (Nat.eqb_spec (S (length ops)) (length nodes)) as [E|]; [|discriminate].
  destruct (walk_counts _ _ _ _ _ _ _ _ _ _ Ew) as [H1 H2]. cbn [length hd_error] in *. lia.
Qed.

(* the classification of an operator does not distinguish the operand on its left *)
Lemma isb_leaf_same k (p q : token D) : leaf p = true -> leaf q = true -> is_operator_binary tb k (Some p) = is_operator_binary tb k (Some q).
Proof. intros Hp Hq. unfold is_operator_binary. destruct p; try discriminate; destruct q; try discriminate; reflexivity. Qed.
Lemma binops_left_leaf (p q : token D) ts : leaf p = true -> leaf q = true -> binops (Some p) ts = binops (Some q) ts.
Proof. intros Hp Hq. destruct ts as [|t tl]; [reflexivity|]. cbn [binops]. f_equal. destruct t; cbn [isbin]; try reflexivity. rewrite (isb_leaf_same k p q Hp Hq). reflexivity. Qed.
Lemma binops_left_any left left' (h : token D) tl : leaf h = true -> binops left (h :: tl) = binops left' (h :: tl).
Proof. intros Hh. cbn [binops]. destruct h; try discriminate; reflexivity. Qed.

(* the token in front of position |a| *)
Definition last_tok (left : option (token D)) (a : list (token D)) : option (token D) := match a with [] => left | _ => Some (last a TClose) end.
Lemma leaves_insert a L b : leaf L = true -> leaves (a ++ L :: b) = S (leaves (a ++ b)).
Proof. intros HL. induction a as [|t a IH]; cbn [app leaves]; [rewrite HL; reflexivity|]. rewrite IH. lia. Qed.
Lemma binops_insert : forall a left L b, leaf L = true ->
  ((exists p, last_tok left a = Some p /\ leaf p = true) \/ (exists h t, b = h :: t /\ leaf h = true)) ->
  binops left (a ++ L :: b) = binops left (a ++ b).
Proof.
  induction a as [|x a IH]; intros left L b HL Hc.
  - cbn [app binops last_tok] in *. replace (isbin left L) with 0 by (destruct L; try discriminate; reflexivity). cbn [Nat.add].
    destruct Hc as [(p & -> & Hp)|(h & t & -> & Hh)]; [exact (binops_left_leaf L p b HL Hp)|exact (binops_left_any _ _ h t Hh)].
  - cbn [app binops]. f_equal. apply IH; [exact HL|]. destruct Hc as [(p & Hp & Hl)|Hb]; [left|right; exact Hb].
    exists p. split; [|exact Hl]. cbn [last_tok] in *. destruct a as [|y a']; [cbn in Hp; exact Hp|]. exact Hp.
Qed.

Theorem flat_extra_operand fb text text' (a b : list (token D)) L vars vars' (fx : flatex D) :
  make_expression tb fb text (a ++ b) vars = Ok fx -> leaf L = true ->
  ((exists p, last_tok None a = Some p /\ leaf p = true) \/ (exists h t, b = h :: t /\ leaf h = true)) ->
  forall fx', make_expression tb fb text' (a ++ L :: b) vars' <> Ok fx'.
Proof.
  intros H HL Hc fx' H'. apply accepted_counts in H. apply accepted_counts in H'.
  rewrite (leaves_insert a L b HL), (binops_insert a None L b HL Hc) in H'. lia.
Qed.

(* ---- adjacent operands and the deep parser ---- *)
Fixpoint noll (ts : list (token D)) : bool :=
  match ts with x :: ((y :: _) as tl) => negb (leaf x && leaf y) && noll tl | _ => true end.
Lemma noll_cons x y tl : noll (x :: y :: tl) = negb (leaf x && leaf y) && noll (y :: tl).
Proof. reflexivity. Qed.
Lemma noll_join : forall (a : list (token D)) x b, leaf x = false -> noll (a ++ x :: b) = noll (a ++ [x]) && noll (x :: b).
Proof.
  induction a as [|y a IH]; intros x b Hx; [cbn [app]; destruct b; cbn; rewrite ?Hx; cbn; reflexivity|].
  destruct a as [|z a'].
  - cbn [app]. rewrite !noll_cons, Hx, andb_false_r. cbn [negb andb]. destruct b as [|w b']; [reflexivity|]. rewrite noll_cons, Hx. reflexivity.
  - change ((y :: z :: a') ++ x :: b) with (y :: (z :: a') ++ x :: b). change ((y :: z :: a') ++ [x]) with (y :: (z :: a') ++ [x]).
    cbn [app]. rewrite !noll_cons. rewrite <- andb_assoc. f_equal. exact (IH x b Hx).
Qed.
Lemma noll_snoc : forall (a : list (token D)) x, leaf x = false -> noll (a ++ [x]) = noll a.
Proof.
  induction a as [|y a IH]; intros x Hx; [reflexivity|]. destruct a as [|z a'].
  - cbn [app]. rewrite noll_cons, Hx, andb_false_r. reflexivity.
  - change ((y :: z :: a') ++ [x]) with (y :: (z :: a') ++ [x]). cbn [app]. rewrite !noll_cons. f_equal. exact (IH x Hx).
Qed.
Lemma noll_ops us (b : list (token D)) : noll (map TOp us ++ b) = noll b.
Proof.
  induction us as [|u us IH]; [reflexivity|]. cbn [map app]. destruct (map TOp us ++ b) as [|y tl] eqn:E.
  - destruct us; [cbn in E; subst b; reflexivity|discriminate].
  - rewrite noll_cons. cbn [leaf andb negb]. exact IH.
Qed.
Lemma noll_found : forall (pre : list (token D)) x y post, leaf x = true -> leaf y = true -> noll (pre ++ x :: y :: post) = false.
Proof.
  induction pre as [|p pre IH]; intros x y post Hx Hy; [cbn [app]; rewrite noll_cons, Hx, Hy; reflexivity|].
  cbn [app]. destruct (pre ++ x :: y :: post) as [|q tl] eqn:E; [destruct pre; discriminate|]. rewrite noll_cons, <- E, (IH x y post Hx Hy). apply andb_false_r.
Qed.

Theorem tree_no_adjacent_operands : forall n,
  (forall a : atom (D:=D), asize a <= n -> noll (flatten_atom a) = true) /\
  (forall l : list (nat * atom (D:=D)), rsize l <= n -> noll (flatten_rest l) = true).
Proof.
  induction n as [|n [IHa IHr]].
  - split; [intros a H; pose proof (asize_pos a); lia|]. intros l H. destruct l as [|[o b] tl]; [reflexivity|]. cbn in H. pose proof (asize_pos b). lia.
  - assert (Ha' : forall a : atom (D:=D), asize a <= S n -> noll (flatten_atom a) = true).
    { intros a Hs. destruct a as [us k|us a0 rest].
      * assert (E : flatten_atom (ALeaf us k) = map TOp us ++ [match k with LNum v => TNum v | LVar x => TVar x end]) by (destruct k; reflexivity).
        rewrite E, noll_ops. reflexivity.
      * rewrite asize_group in Hs. rewrite flatten_atom_group, noll_ops.
        assert (Hin : noll (flatten_atom a0 ++ flatten_rest rest) = true).
        { destruct rest as [|[o b] tl]; [rewrite app_nil_r; apply IHa; cbn [rsize] in Hs; lia|].
          cbn [flatten_rest]. rewrite noll_join by reflexivity. rewrite noll_snoc by reflexivity. rewrite (IHa a0 ltac:(lia)). cbn [andb].
          change (TOp o :: flatten_atom b ++ flatten_rest tl) with (flatten_rest ((o, b) :: tl)). apply IHr. pose proof (asize_pos a0). lia. }
        replace (TOpen :: flatten_atom a0 ++ flatten_rest rest ++ [TClose]) with (TOpen :: (flatten_atom a0 ++ flatten_rest rest) ++ [TClose]) by (rewrite <- app_assoc; reflexivity).
        destruct (flatten_atom a0 ++ flatten_rest rest) as [|y tl] eqn:E; [reflexivity|].
        change (TOpen :: (y :: tl) ++ [TClose]) with (TOpen :: y :: (tl ++ [TClose])). rewrite noll_cons. cbn [leaf andb negb].
        change (y :: tl ++ [TClose]) with ((y :: tl) ++ [TClose]). rewrite noll_snoc by reflexivity. exact Hin. }
    split; [exact Ha'|].
    intros l Hs. destruct l as [|[o b] tl]; [reflexivity|]. cbn [rsize] in Hs. pose proof (asize_pos b). cbn [flatten_rest].
    destruct tl as [|[o2 b2] tl2].
    + cbn [flatten_rest]. rewrite app_nil_r. destruct (flatten_atom b) as [|y t] eqn:E; [reflexivity|]. rewrite noll_cons. cbn [leaf andb negb]. rewrite <- E. apply Ha'. cbn [rsize] in Hs. lia.
    + cbn [flatten_rest].
      replace (TOp o :: flatten_atom b ++ TOp o2 :: flatten_atom b2 ++ flatten_rest tl2) with ((TOp o :: flatten_atom b) ++ TOp o2 :: flatten_atom b2 ++ flatten_rest tl2) by reflexivity.
      rewrite noll_join by reflexivity. rewrite noll_snoc by reflexivity.
      change (TOp o2 :: flatten_atom b2 ++ flatten_rest tl2) with (flatten_rest ((o2, b2) :: tl2)).
      rewrite (IHr ((o2, b2) :: tl2)) by lia. rewrite andb_true_r.
      destruct (flatten_atom b) as [|y t] eqn:E; [reflexivity|]. rewrite noll_cons. cbn [leaf andb negb]. rewrite <- E. apply Ha'. lia.
Qed.
Lemma chain_no_adjacent_operands (c : chain (D:=D)) : noll (flatten c) = true.
Proof.
  destruct c as [a0 rest]. unfold flatten. cbn [fst snd].
  destruct (tree_no_adjacent_operands (asize a0 + rsize rest)) as [Ha Hr].
  destruct rest as [|[o b] tl]; [rewrite app_nil_r; apply Ha; lia|].
  cbn [flatten_rest]. rewrite noll_join by reflexivity. rewrite noll_snoc by reflexivity. rewrite (Ha a0 ltac:(lia)). cbn [andb].
  change (TOp o :: flatten_atom b ++ flatten_rest tl) with (flatten_rest ((o, b) :: tl)). apply Hr. lia.
Qed.

Variable C : carrier D.
Theorem deep_rejects_adjacent_operands (pre post : list (token D)) x y : leaf x = true -> leaf y = true ->
  noprefix tb (pre ++ x :: y :: post) = true -> forall e, parse_deep_tokens C tb (pre ++ x :: y :: post) <> Ok e.
Proof.
  intros Hx Hy Hnp e He. destruct (accepted_is_tree C tb _ e Hnp He) as (c & _ & Ec).
  pose proof (chain_no_adjacent_operands c) as Hn. rewrite Ec, (noll_found pre x y post Hx Hy) in Hn. discriminate.
Qed.

(* a tree rendering is free of prefix notation, and stays so when an operand is inserted *)
Lemma nopre_weaken : forall (ts : list (token D)) st, nopre tb st ts = true -> nopre tb false ts = true.
Proof. intros ts st H. destruct ts as [|t tl]; [reflexivity|]. cbn [nopre] in *. apply andb_prop in H. destruct H as [_ H]. exact H. Qed.
Lemma nopre_insert : forall (a : list (token D)) st L b, leaf L = true -> nopre tb st (a ++ b) = true -> nopre tb st (a ++ L :: b) = true.
Proof.
  induction a as [|t a IH]; intros st L b HL H.
  - cbn [app nopre]. replace (prefix_op tb L) with false by (destruct L; try discriminate; reflexivity). rewrite andb_false_r. cbn [negb andb].
    replace (is_open L) with false by (destruct L; try discriminate; reflexivity). exact (nopre_weaken b st H).
  - cbn [app nopre] in *. apply andb_prop in H. destruct H as [H1 H2]. rewrite H1. cbn [andb]. exact (IH _ L b HL H2).
Qed.

(* a tree rendering has no prefix notation *)
Lemma nopre_ops : forall (us : list nat) st (tl : list (token D)), forallb (is_un tb) us = true -> us <> [] -> nopre tb st (map TOp us ++ tl) = nopre tb false tl.
Proof.
  induction us as [|u us IH]; intros st tl Hu Hne; [congruence|]. cbn [forallb] in Hu. apply andb_prop in Hu. destruct Hu as [Hu Hus].
  cbn [map app nopre prefix_op is_open]. change (has_un tb u) with (is_un tb u). rewrite Hu. cbn [negb]. rewrite !andb_false_r. cbn [negb andb].
  destruct us as [|u2 us2]; [reflexivity|]. apply IH; [exact Hus|discriminate].
Qed.
Theorem tree_nopre : forall n,
  (forall a : atom (D:=D), asize a <= n -> wf_atom tb a = true -> forall st tl, nopre tb st (flatten_atom a ++ tl) = nopre tb false tl) /\
  (forall l : list (nat * atom (D:=D)), rsize l <= n -> wf_rest tb l = true -> forall tl, nopre tb false (flatten_rest l ++ tl) = nopre tb false tl).
Proof.
  induction n as [|n [IHa IHr]].
  - split; [intros a H; pose proof (asize_pos a); lia|]. intros l H _ tl. destruct l as [|[o b] t]; [reflexivity|]. cbn in H. pose proof (asize_pos b). lia.
  - assert (Ha' : forall a : atom (D:=D), asize a <= S n -> wf_atom tb a = true -> forall st tl, nopre tb st (flatten_atom a ++ tl) = nopre tb false tl).
    { intros a Hs Hwf st tl. destruct a as [us k|us a0 rest].
      - cbn [wf_atom] in Hwf.
        assert (E : flatten_atom (ALeaf us k) = map TOp us ++ [match k with LNum v => TNum v | LVar x => TVar x end]) by (destruct k; reflexivity).
        rewrite E, <- app_assoc. destruct us as [|u us'].
        + cbn [map app nopre]. destruct k; cbn [prefix_op is_open]; rewrite andb_false_r; reflexivity.
        + rewrite (nopre_ops (u :: us') st _ Hwf ltac:(discriminate)). cbn [app nopre]. destruct k; cbn [prefix_op is_open andb negb]; reflexivity.
      - rewrite asize_group in Hs. rewrite (wf_group tb) in Hwf. apply andb_prop in Hwf. destruct Hwf as [Hwf Hwr]. apply andb_prop in Hwf. destruct Hwf as [Hus Hw0].
        rewrite flatten_group_tail.
        assert (Hbody : forall st', nopre tb st' (TOpen :: flatten_atom a0 ++ flatten_rest rest ++ TClose :: tl) = nopre tb false tl).
        { intros st'. cbn [nopre prefix_op is_open]. rewrite andb_false_r. cbn [negb andb].
          rewrite (IHa a0 ltac:(lia) Hw0 true _). rewrite (IHr rest ltac:(pose proof (asize_pos a0); lia) Hwr _). cbn [nopre prefix_op is_open]. reflexivity. }
        destruct us as [|u us']; [exact (Hbody st)|]. rewrite (nopre_ops (u :: us') st _ Hus ltac:(discriminate)). exact (Hbody false). }
    split; [exact Ha'|].
    intros l Hs Hwf tl. destruct l as [|[o b] t]; [reflexivity|]. cbn [rsize] in Hs. cbn [wf_rest] in Hwf. apply andb_prop in Hwf. destruct Hwf as [Hwf Hwt]. apply andb_prop in Hwf. destruct Hwf as [Ho Hwb].
    pose proof (asize_pos b). cbn [flatten_rest app]. rewrite <- app_assoc. cbn [nopre]. cbn [andb negb is_open].
    rewrite (Ha' b ltac:(lia) Hwb false _). apply IHr; [lia|exact Hwt].
Qed.
Lemma chain_noprefix (c : chain (D:=D)) : wf_chain tb c = true -> noprefix tb (flatten c) = true.
Proof.
  destruct c as [a0 rest]. unfold wf_chain, flatten, noprefix. cbn [fst snd]. intros H. apply andb_prop in H. destruct H as [Hw0 Hwr].
  destruct (tree_nopre (asize a0 + rsize rest)) as [Ha Hr].
  rewrite (Ha a0 ltac:(lia) Hw0 true _). rewrite <- (app_nil_r (flatten_rest rest)). rewrite (Hr rest ltac:(lia) Hwr []). reflexivity.
Qed.

(* an operand inserted beside an operand: two adjacent operands *)
Lemma beside_adjacent (a b : list (token D)) L : leaf L = true ->
  ((exists p, last_tok None a = Some p /\ leaf p = true) \/ (exists h t, b = h :: t /\ leaf h = true)) ->
  exists pre x y post, a ++ L :: b = pre ++ x :: y :: post /\ leaf x = true /\ leaf y = true.
Proof.
  intros HL [(p & Hp & Hlp)|(h & t & -> & Hh)].
  - destruct a as [|a1 a']; [discriminate|]. unfold last_tok in Hp.
    assert (Hp' : last (a1 :: a') TClose = p) by congruence.
    exists (removelast (a1 :: a')), p, L, b. split; [|split; assumption].
    assert (Ea : a1 :: a' = removelast (a1 :: a') ++ [p]) by (rewrite <- Hp'; apply app_removelast_last; discriminate).
    rewrite Ea at 1. rewrite <- app_assoc. reflexivity.
  - exists a, L, h, t. repeat split; assumption.
Qed.
Theorem deep_extra_operand (a b : list (token D)) L : noprefix tb (a ++ b) = true -> leaf L = true ->
  ((exists p, last_tok None a = Some p /\ leaf p = true) \/ (exists h t, b = h :: t /\ leaf h = true)) ->
  forall e, parse_deep_tokens C tb (a ++ L :: b) <> Ok e.
Proof.
  intros Hnp HL Hc e. destruct (beside_adjacent a b L HL Hc) as (pre & x & y & post & E & Hx & Hy).
  pose proof (nopre_insert a true L b HL Hnp) as Hnp'. fold (noprefix tb (a ++ L :: b)) in Hnp'. rewrite E in *.
  exact (deep_rejects_adjacent_operands pre post x y Hx Hy Hnp' e).
Qed.
End Damage.
