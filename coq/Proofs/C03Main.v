(* Proofs/C03Main.v — the deep parser on the token rendering of a well-formed surface tree: accepted, the variable
   list is that of the flat parser, and evaluation yields the reference semantics modulo R. *)
From Coq Require Import List Arith Lia Bool ZArith Sorting.Sorted.
Import ListNotations.
From Exmex.Model Require Import Base EvalBinary Lexer Flat Deep.
From Exmex.Spec Require Import RefSem.
From Exmex.Proofs Require Import FlSem WalkSim Vars C01Vars DeepSem DeepCompile DeepVars DeepParse.
Open Scope nat_scope.

Section TokNames.
Context {D : Type}.
Definition tok_names (ts : list (token D)) : list str :=
  fold_right (fun t acc => match t with TVar x => x :: acc | _ => acc end) [] ts.
Lemma tok_names_app a b : tok_names (a ++ b) = tok_names a ++ tok_names b.
Proof. induction a as [|t a IH]; [reflexivity|]. cbn [app]. unfold tok_names in *. cbn [fold_right]. destruct t; rewrite IH; reflexivity. Qed.
Lemma tok_names_ops us : tok_names (map (@TOp D) us) = [].
Proof. induction us as [|u us IH]; [reflexivity|exact IH]. Qed.
Lemma tok_names_tree : forall n,
  (forall a : atom (D:=D), asize a <= n -> tok_names (flatten_atom a) = atom_vars a) /\
  (forall l : list (nat * atom (D:=D)), rsize l <= n -> tok_names (flatten_rest l) = rest_vars l).
Proof.
  induction n as [|n [IHa IHr]].
  - split; [intros a H; pose proof (asize_pos a); lia|]. intros l H. destruct l as [|[o b] tl]; [reflexivity|]. cbn in H. pose proof (asize_pos b). lia.
  - assert (Ha : forall a : atom (D:=D), asize a <= S n -> tok_names (flatten_atom a) = atom_vars a).
    { intros a Hs. destruct a as [us k|us a0 rest].
      - destruct k; cbn [flatten_atom atom_vars]; rewrite tok_names_app, tok_names_ops; reflexivity.
      - rewrite asize_group in Hs. rewrite flatten_atom_group, atom_vars_group.
        rewrite tok_names_app, tok_names_ops. cbn [app tok_names fold_right]. fold (tok_names (flatten_atom a0 ++ flatten_rest rest ++ [TClose])).
        rewrite !tok_names_app. rewrite (IHa a0) by lia. rewrite (IHr rest) by lia. cbn. rewrite app_nil_r. reflexivity. }
    split; [exact Ha|]. intros l Hs. destruct l as [|[o b] tl]; [reflexivity|]. cbn [rsize] in Hs. pose proof (asize_pos b).
    cbn [flatten_rest rest_vars]. cbn [tok_names fold_right]. fold (tok_names (flatten_atom b ++ flatten_rest tl)).
    rewrite tok_names_app, (Ha b) by lia. rewrite (IHr tl) by lia. reflexivity.
Qed.
Lemma find_parsed_vars_chain (c : chain (D:=D)) :
  find_parsed_vars (flatten c) = sort_strs (atom_vars (fst c) ++ rest_vars (snd c)).
Proof.
  unfold find_parsed_vars, flatten. fold (tok_names (flatten_atom (fst c) ++ flatten_rest (snd c))). rewrite tok_names_app.
  rewrite (proj1 (tok_names_tree (asize (fst c))) (fst c) (le_n _)), (proj2 (tok_names_tree (rsize (snd c))) (snd c) (le_n _)). reflexivity.
Qed.
End TokNames.

Lemma index_bound {D} (vars : list str) (vals : list D) : length vals = length vars ->
  forall x i, index_of x vars 0 = Some i -> i < length vals.
Proof.
  intros Hlen x i H. destruct (index_of_spec x vars 0 i H) as [_ Hn]. rewrite Nat.sub_0_r in Hn. rewrite Hlen. apply nth_error_Some. congruence.
Qed.

Section C03Main.
Context {D : Type}.
Variable C : carrier D.
Variable tb : optable.
Variable R : D -> D -> Prop.
Hypothesis R_refl : forall a, R a a.
Hypothesis R_sym : forall a b, R a b -> R b a.
Hypothesis R_trans : forall a b c, R a b -> R b c -> R a c.
Hypothesis R_bin : forall k a a' b b', R a a' -> R b b' -> R (binf C k a b) (binf C k a' b').
Hypothesis R_un : forall k a a', R a a' -> R (unf C k a) (unf C k a').
Hypothesis flagged_assoc : forall o, comm_of tb o = true ->
  forall a b c, R (binf C o (binf C o a b) c) (binf C o a (binf C o b c)).

Theorem deep_parse_is_reference_wf (c : chain (D:=D)) (vals : list D) :
  wf_chain tb c = true -> length vals = length (find_parsed_vars (flatten c)) ->
  exists e v,
    dparse C tb (S (length (flatten c))) None (flatten c) (find_parsed_vars (flatten c)) [] [] [] = Ok (e, []) /\
    dvars e = find_parsed_vars (flatten c) /\
    eval_deep C e vals = Ok v /\
    R v (ref_chain C tb (find_parsed_vars (flatten c)) vals c) /\
    dwf (flagged tb) (okvar (find_parsed_vars (flatten c))) (okvars (find_parsed_vars (flatten c)) vals) e.
Proof.
  intros Hwf Hlen. set (vars := find_parsed_vars (flatten c)) in *.
  destruct (vars_in_chain c) as [Hv0 Hvr]. fold vars in Hv0, Hvr.
  destruct c as [a0 rest]. unfold wf_chain in Hwf. cbn [fst snd] in *. apply andb_prop in Hwf. destruct Hwf as [Hw0 Hwr].
  destruct (dparse_sim C tb R R_refl R_sym R_trans R_bin R_un flagged_assoc vars vals Hlen (asize a0 + rsize rest)) as (_ & _ & Hc).
  destruct (Hc a0 rest (le_n _) Hw0 Hwr Hv0 Hvr [] [] [] (S (length (flatten (a0, rest)))) eq_refl (or_introl (conj eq_refl eq_refl)))
    as (e & He & Hwe & Hr & Hdv).
  { unfold flatten. cbn [fst snd]. rewrite app_nil_r. lia. }
  rewrite app_nil_r in He.
  assert (Hvars : dvars e = vars).
  { rewrite Hdv. unfold vars. rewrite (find_parsed_vars_chain (a0, rest)). reflexivity. }
  destruct (eval_deep_is_dden C R R_refl R_sym R_trans R_bin R_un (flagged tb) (flagged_op_assoc C tb R flagged_assoc) (vlook C vals) (okvar vars) (okvars vars vals) vals (okvars_len vars vals) (fun i x H => conj (index_bound vars vals Hlen x i H) eq_refl) e Hwe)
    as (v & Ev & Rv).
  exists e, v. split; [exact He|]. split; [exact Hvars|]. split.
  - unfold eval_deep. rewrite Hvars, Hlen, Nat.eqb_refl. exact Ev.
  - split; [eapply R_trans; [exact Rv|exact Hr]|exact Hwe].
Qed.

Theorem deep_parse_is_reference (c : chain (D:=D)) (vals : list D) :
  wf_chain tb c = true -> length vals = length (find_parsed_vars (flatten c)) ->
  exists e v,
    dparse C tb (S (length (flatten c))) None (flatten c) (find_parsed_vars (flatten c)) [] [] [] = Ok (e, []) /\
    dvars e = find_parsed_vars (flatten c) /\
    eval_deep C e vals = Ok v /\
    R v (ref_chain C tb (find_parsed_vars (flatten c)) vals c).
Proof.
  intros Hwf Hlen. destruct (deep_parse_is_reference_wf c vals Hwf Hlen) as (e & v & H1 & H2 & H3 & H4 & _).
  exists e, v. repeat split; assumption.
Qed.

End C03Main.
