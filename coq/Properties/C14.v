(* C14 — operands are tracked correctly for every application order and size.
   This file contains only the property theorems, pinned statements, non-vacuity examples and
   Print Assumptions; the proofs are in Proofs/. *)
From Coq Require Import List Arith.
Import ListNotations.
From Exmex.Model Require Import Base EvalBinary Tracker.
From Exmex.Proofs Require Import EvalBinaryCorrect Runs WordBits SliceTracker.

(* For every data type D, every number array of length n >= 1 and every duplicate-free schedule sigma
   that contains exactly the operators 0 .. n-2 (i.e. every permutation; n is not bounded), the loop of
   expression::eval_binary returns the value of the Cartesian tree of the schedule: the operator applied
   last is the root and its operands are the results of the sub-schedules on its left and right, i.e.
   each operator is applied to the results standing immediately to its left and right at that moment.
   No Rust panic (index out of bounds, usize underflow, unwrap) is reachable. *)
Theorem C14_any_schedule :
  forall (D : Type) (dflt : D) (opf : nat -> D -> D -> D) (nums : list D) (sigma : list nat),
  nums <> [] -> NoDup sigma -> (forall i, In i sigma <-> i < length nums - 1) ->
  eval_binary dflt opf nums (length nums - 1) sigma
    = Ok (eval_tree D opf (vals_of D dflt nums) (cart (length sigma) sigma 0)).
Proof. exact eval_binary_is_cart. Qed.

(* every operand is consumed exactly once and in text order: the leaves of that tree are 0, 1, .., n-1 *)
Theorem C14_each_operand_once :
  forall (D : Type) (nums : list D) (sigma : list nat),
  nums <> [] -> NoDup sigma -> (forall i, In i sigma <-> i < length nums - 1) ->
  leaves (cart (length sigma) sigma 0) = seq 0 (length nums).
Proof. exact eval_binary_leaves. Qed.

(* The same with the MACHINE-WORD bookkeeping of number_tracker.rs (Model/Tracker.v: rotate_right, leading_ones,
   trailing_ones on 64-bit words; runs that cross word boundaries; all-ones words), chosen as FlatEx::eval_numbers
   chooses it — one word for up to 64 numbers, a slice of 1 + n/64 words above — for every length and every valid
   schedule: the value of the Cartesian tree, no panic. *)
Theorem C14_machine_word_trackers_flat :
  forall (D : Type) (dflt : D) (opf : nat -> D -> D -> D) (nums : list D) (sigma : list nat),
  nums <> [] -> NoDup sigma -> (forall i, In i sigma <-> i < length nums - 1) ->
  eval_binary_flat_machine dflt opf nums sigma
    = Some (eval_tree D opf (vals_of D dflt nums) (cart (length sigma) sigma 0)).
Proof.
  intros D dflt opf nums sigma Hne ND Hiff.
  apply (machine_flat dflt opf nums (length nums - 1) sigma _ Hne). apply eval_binary_is_cart; assumption.
Qed.
(* ... and as DeepEx::eval_relaxed chooses it: always a slice of 1 + n/64 words *)
Theorem C14_machine_word_trackers_deep :
  forall (D : Type) (dflt : D) (opf : nat -> D -> D -> D) (nums : list D) (sigma : list nat),
  nums <> [] -> NoDup sigma -> (forall i, In i sigma <-> i < length nums - 1) ->
  eval_binary_deep_machine dflt opf nums sigma
    = Some (eval_tree D opf (vals_of D dflt nums) (cart (length sigma) sigma 0)).
Proof.
  intros D dflt opf nums sigma Hne ND Hiff.
  apply (machine_deep dflt opf nums (length nums - 1) sigma _). apply eval_binary_is_cart; assumption.
Qed.

(* The slice tracker IS a vector of booleans (B ws j = bit j mod 64 of word j / 64), for any number of words and any
   content: get_previous counts the consecutive ignored positions idx, idx-1, ... (down to position 0), get_next is one
   plus the consecutive ignored positions idx+1, ... (up to the end of the slice), ignore sets exactly one bit. *)
Theorem C14_slice_tracker_is_the_boolean_vector :
  forall (ws : list N) (idx : nat), sclean ws -> idx / 64 < length ws ->
  s_get_previous ws idx = Some (down_run (B ws) (S idx)) /\
  s_get_next ws idx = Some (S (up_run (B ws) (S idx) (64 * length ws - S idx))) /\
  exists ws', s_ignore ws idx = Some ws' /\ sclean ws' /\ length ws' = length ws /\
              forall j, B ws' j = B ws j || Nat.eqb j idx.
Proof.
  intros ws idx Hc Hs. split; [apply slice_prev; assumption|]. split; [apply slice_next; assumption|apply slice_ignore; assumption].
Qed.

(* non-vacuity: a concrete inside-out schedule on five operands in the free term algebra *)
Example C14_example :
  eval_binary Dflt Bin [V 0; V 1; V 2; V 3; V 4] 4 [2; 0; 3; 1]
  = Ok (Bin 1 (Bin 0 (V 0) (V 1)) (Bin 3 (Bin 2 (V 2) (V 3)) (V 4))).
Proof. vm_compute. reflexivity. Qed.
Example C14_example_hyps : NoDup [2; 0; 3; 1] /\ (forall i, In i [2; 0; 3; 1] <-> i < 5 - 1).
Proof.
  split; [repeat constructor; cbn; intuition discriminate|].
  intros i; cbn; split; [intuition (subst; auto with arith)|].
  intros H. do 4 (destruct i as [|i]; [tauto|]). exfalso. do 4 apply Nat.succ_lt_mono in H. inversion H.
Qed.

Print Assumptions C14_any_schedule.
Print Assumptions C14_each_operand_once.
Print Assumptions C14_machine_word_trackers_flat.
Print Assumptions C14_machine_word_trackers_deep.
Print Assumptions C14_slice_tracker_is_the_boolean_vector.
