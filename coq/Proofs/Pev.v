(* Proofs/Pev.v — precedence evaluation on LISTS of (operator record, value): split at the rightmost operator of
   minimal priority.  Index-free counterpart of SortedRef.ref_val; the two agree on increasing id lists. *)
From Coq Require Import List Arith Lia Bool ZArith.
Import ListNotations.
From Exmex.Model Require Import Base EvalBinary Lexer Flat.
From Exmex.Proofs Require Import ChainMachine SortedRef.
Open Scope nat_scope.

Arguments ids {D} l. Arguments inc {D} lo l.

Section Pev.
Context {D : Type}.
Variable C : carrier D.

(* position of the rightmost operator of minimal priority *)
Fixpoint rm_pos (l : list (fop * D)) (pos best : nat) (bestk : Z) : nat :=
  match l with
  | [] => best
  | (o, _) :: tl => if (fprio o <=? bestk)%Z then rm_pos tl (S pos) pos (fprio o) else rm_pos tl (S pos) best bestk
  end.
Definition root_idx (l : list (fop * D)) : nat :=
  match l with [] => 0 | (o, _) :: tl => rm_pos tl 1 0 (fprio o) end.

Fixpoint pev (fuel : nat) (x : D) (l : list (fop * D)) : D :=
  match fuel with
  | O => x
  | S f =>
      match l with
      | [] => x
      | _ =>
          match nth_error l (root_idx l) with
          | Some (o, y) => apply_op C o (pev f x (firstn (root_idx l) l)) (pev f y (skipn (S (root_idx l)) l))
          | None => x
          end
      end
  end.

(* ---- characterisation of the root position ---- *)
Lemma rm_pos_spec : forall l pos best bestk,
  best < pos ->
  let r := rm_pos l pos best bestk in
  (r = best /\ (forall j o y, nth_error l j = Some (o, y) -> (bestk < fprio o)%Z)) \/
  (exists j o y, r = pos + j /\ nth_error l j = Some (o, y) /\ (fprio o <= bestk)%Z /\
     (forall i o' y', i < j -> nth_error l i = Some (o', y') -> (fprio o <= fprio o')%Z) /\
     (forall i o' y', j < i -> nth_error l i = Some (o', y') -> (fprio o < fprio o')%Z)).
Proof.
  induction l as [|[o y] tl IH]; intros pos best bestk Hb; cbn [rm_pos].
  - left. split; [reflexivity|]. intros j o y H. destruct j; discriminate.
  - destruct (Z.leb_spec (fprio o) bestk) as [Hle|Hgt].
    + destruct (IH (S pos) pos (fprio o) (Nat.lt_succ_diag_r pos)) as [[Hr Hall]|(j & o' & y' & Hr & Hn & Hle' & Hbef & Haft)].
      * right. exists 0, o, y. split; [lia|]. split; [reflexivity|]. split; [exact Hle|]. split.
        -- intros i o' y' Hi. lia.
        -- intros i o' y' Hi Hn. destruct i; [lia|]. cbn in Hn. exact (Hall _ _ _ Hn).
      * right. exists (S j), o', y'. split; [lia|]. split; [exact Hn|]. split; [lia|]. split.
        -- intros i o'' y'' Hi Hn'. destruct i; [cbn in Hn'; inversion Hn'; subst; exact Hle'|]. cbn in Hn'. apply (Hbef i o'' y''); [lia|exact Hn'].
        -- intros i o'' y'' Hi Hn'. destruct i; [lia|]. cbn in Hn'. apply (Haft i o'' y''); [lia|exact Hn'].
    + destruct (IH (S pos) best bestk ltac:(lia)) as [[Hr Hall]|(j & o' & y' & Hr & Hn & Hle' & Hbef & Haft)].
      * left. split; [exact Hr|]. intros j o' y' Hn. destruct j; [cbn in Hn; inversion Hn; subst; exact Hgt|]. cbn in Hn. exact (Hall _ _ _ Hn).
      * right. exists (S j), o', y'. split; [lia|]. split; [exact Hn|]. split; [exact Hle'|]. split.
        -- intros i o'' y'' Hi Hn'. destruct i; [cbn in Hn'; inversion Hn'; subst; lia|]. cbn in Hn'. apply (Hbef i o'' y''); [lia|exact Hn'].
        -- intros i o'' y'' Hi Hn'. destruct i; [lia|]. cbn in Hn'. apply (Haft i o'' y''); [lia|exact Hn'].
Qed.

(* the root: an element such that everything left of it has priority >= and everything right of it > *)
Definition is_root (l : list (fop * D)) (r : nat) : Prop :=
  exists o y, nth_error l r = Some (o, y) /\
    (forall i o' y', i < r -> nth_error l i = Some (o', y') -> (fprio o <= fprio o')%Z) /\
    (forall i o' y', r < i -> nth_error l i = Some (o', y') -> (fprio o < fprio o')%Z).

Lemma root_idx_is_root l : l <> [] -> is_root l (root_idx l).
Proof.
  destruct l as [|[o y] tl]; [congruence|]. intros _. unfold root_idx.
  destruct (rm_pos_spec tl 1 0 (fprio o) ltac:(lia)) as [[Hr Hall]|(j & o' & y' & Hr & Hn & Hle & Hbef & Haft)].
  - rewrite Hr. exists o, y. split; [reflexivity|]. split; [intros; lia|].
    intros i o' y' Hi Hn. destruct i; [lia|]. cbn in Hn. exact (Hall _ _ _ Hn).
  - rewrite Hr. exists o', y'. split; [exact Hn|]. split.
    + intros i o'' y'' Hi Hn'. destruct i; [cbn in Hn'; inversion Hn'; subst; exact Hle|]. cbn in Hn'. apply (Hbef i o'' y''); [lia|exact Hn'].
    + intros i o'' y'' Hi Hn'. destruct i; [lia|]. cbn in Hn'. apply (Haft i o'' y''); [lia|exact Hn'].
Qed.

Lemma is_root_unique l r r' : is_root l r -> is_root l r' -> r = r'.
Proof.
  intros (o & y & Hn & Hb & Ha) (o' & y' & Hn' & Hb' & Ha').
  destruct (Nat.lt_trichotomy r r') as [H|[H|H]]; [|exact H|].
  - pose proof (Ha _ _ _ H Hn'). pose proof (Hb' _ _ _ H Hn). lia.
  - pose proof (Ha' _ _ _ H Hn). pose proof (Hb _ _ _ H Hn'). lia.
Qed.

Lemma pev_S fuel x l : l <> [] ->
  pev (S fuel) x l = match nth_error l (root_idx l) with
                     | Some (o, y) => apply_op C o (pev fuel x (firstn (root_idx l) l)) (pev fuel y (skipn (S (root_idx l)) l))
                     | None => x
                     end.
Proof. destruct l; [congruence|reflexivity]. Qed.

(* the unfolding equation at any position that satisfies the root condition *)
Lemma pev_at_root fuel x l1 o y l2 :
  (forall o' y', In (o', y') l1 -> (fprio o <= fprio o')%Z) ->
  (forall o' y', In (o', y') l2 -> (fprio o < fprio o')%Z) ->
  pev (S fuel) x (l1 ++ (o, y) :: l2) = apply_op C o (pev fuel x l1) (pev fuel y l2).
Proof.
  intros H1 H2.
  assert (Hroot : is_root (l1 ++ (o, y) :: l2) (length l1)).
  { exists o, y. split; [rewrite nth_error_app2 by lia; rewrite Nat.sub_diag; reflexivity|]. split.
    - intros i o' y' Hi Hn. rewrite nth_error_app1 in Hn by exact Hi. apply (H1 o' y'). eapply nth_error_In; exact Hn.
    - intros i o' y' Hi Hn. rewrite nth_error_app2 in Hn by lia. destruct (i - length l1) eqn:E; [lia|]. cbn in Hn.
      apply (H2 o' y'). eapply nth_error_In; exact Hn. }
  assert (Hne : l1 ++ (o, y) :: l2 <> []) by (destruct l1; discriminate).
  pose proof (is_root_unique _ _ _ (root_idx_is_root _ Hne) Hroot) as Hr.
  rewrite (pev_S fuel x _ Hne), Hr.
  rewrite nth_error_app2 by lia. rewrite Nat.sub_diag. cbn [nth_error].
  rewrite firstn_app, Nat.sub_diag, firstn_all, app_nil_r. cbn [firstn].
  replace (skipn (S (length l1)) (l1 ++ (o, y) :: l2)) with l2; [reflexivity|].
  clear. induction l1 as [|a l1 IH]; [reflexivity|exact IH].
Qed.

Lemma pev_nil fuel x : pev fuel x [] = x.
Proof. destruct fuel; reflexivity. Qed.

(* more fuel than elements changes nothing *)
Lemma pev_fuel : forall n m x l, length l <= n -> length l <= m -> pev n x l = pev m x l.
Proof.
  induction n as [|n IH]; intros m x l Hn Hm.
  - destruct l; [|cbn in Hn; lia]. rewrite !pev_nil. reflexivity.
  - destruct m as [|m]; [destruct l; [rewrite !pev_nil; reflexivity|cbn in Hm; lia]|].
    destruct l as [|p l]; [reflexivity|].
    cbn [pev]. set (r := root_idx (p :: l)).
    destruct (nth_error (p :: l) r) as [[o y]|] eqn:E; [|reflexivity].
    assert (Hr : r < length (p :: l)) by (apply nth_error_Some; congruence).
    rewrite (IH m x (firstn r (p :: l))), (IH m y (skipn (S r) (p :: l))); try reflexivity;
      rewrite ?firstn_length, ?skipn_length; cbn [length] in *; lia.
Qed.

(* ---- agreement with the indexed reference of SortedRef on increasing id lists ---- *)
Variable opsf : nat -> fop.
Let key0 (i : nat) : Z := (fprio (opsf i) * 10)%Z.
Let opf (i : nat) (a b : D) : D := apply_op C (opsf i) a b.
Definition to_recs (l : pairs D) : list (fop * D) := map (fun p => (opsf (fst p), snd p)) l.

Lemma root_of_is_root : forall (tl : pairs D) j z lo, inc lo ((j, z) :: tl) ->
  exists p y, nth_error ((j, z) :: tl) p = Some (root_of D key0 tl j, y) /\ is_root (to_recs ((j, z) :: tl)) p.
Proof.
  intros tl j z lo Hinc.
  set (l := (j, z) :: tl) in *.
  assert (ND : NoDup (ids l)) by (apply (inc_NoDup D opf lo); exact Hinc).
  set (r := root_of D key0 tl j).
  assert (Hr : In r (ids l)).
  { unfold l, r. cbn. destruct (root_of_in D key0 tl j) as [E|E]; [left; symmetry; exact E|right; exact E]. }
  apply in_map_iff in Hr. destruct Hr as ([r' y] & Hfst & Hin). cbn in Hfst. subst r'.
  destruct (In_nth_error _ _ Hin) as [p Hp]. exists p, y. split; [exact Hp|].
  exists (opsf r), y. split; [unfold to_recs; rewrite nth_error_map, Hp; reflexivity|].
  (* order facts: ids increase with the position *)
  assert (Hmono : forall a b ia ya ib yb, a < b -> nth_error l a = Some (ia, ya) -> nth_error l b = Some (ib, yb) -> ia < ib).
  { clear - Hinc. revert lo Hinc. induction l as [|[i0 y0] m IHm]; intros lo Hinc a b ia ya ib yb Hab Ha Hb; [destruct a; discriminate|].
    destruct Hinc as [Hlo Hinc]. destruct b; [lia|]. cbn in Hb.
    destruct a.
    - cbn in Ha. inversion Ha; subst. assert (In ib (ids m)) by (apply in_map_iff; exists (ib, yb); split; [reflexivity|eapply nth_error_In; exact Hb]).
      pose proof (inc_ge D (fun _ a _ => a) _ _ _ Hinc H). lia.
    - cbn in Ha. apply (IHm (S i0) Hinc a b ia ya ib yb); [lia|exact Ha|exact Hb]. }
  assert (Hmax : forall i yi q, nth_error l q = Some (i, yi) -> i <> r -> before key0 i r).
  { intros i yi q Hq Hne. apply (root_of_max D opf key0 tl j); [exact ND| |exact Hne].
    change (In i (ids l)). apply in_map_iff. exists (i, yi). split; [reflexivity|eapply nth_error_In; exact Hq]. }
  split.
  - intros q o' y' Hq Hn. unfold to_recs in Hn. rewrite nth_error_map in Hn. destruct (nth_error l q) as [[i yi]|] eqn:Eq; [|discriminate].
    cbn in Hn. inversion Hn; subst. pose proof (Hmono _ _ _ _ _ _ Hq Eq Hp) as Hlt.
    destruct (Hmax i y' q Eq ltac:(lia)) as [Hk|[Hk Hi]]; unfold key0 in *; lia.
  - intros q o' y' Hq Hn. unfold to_recs in Hn. rewrite nth_error_map in Hn. destruct (nth_error l q) as [[i yi]|] eqn:Eq; [|discriminate].
    cbn in Hn. inversion Hn; subst. pose proof (Hmono _ _ _ _ _ _ Hq Hp Eq) as Hlt.
    destruct (Hmax i y' q Eq ltac:(lia)) as [Hk|[Hk Hi]]; unfold key0 in *; lia.
Qed.

Lemma split_at_nth : forall (l : pairs D) p r y, NoDup (ids l) -> nth_error l p = Some (r, y) ->
  split_at D r l = Some (firstn p l, y, skipn (S p) l).
Proof.
  induction l as [|[j z] tl IH]; intros p r y ND Hn; [destruct p; discriminate|].
  inversion ND as [|? ? Hnin ND']; subst.
  destruct p.
  - cbn in Hn. inversion Hn; subst. cbn. rewrite Nat.eqb_refl. reflexivity.
  - cbn in Hn. cbn [split_at]. destruct (Nat.eqb_spec r j) as [->|Hne].
    + exfalso. apply Hnin. apply in_map_iff. exists (j, y). split; [reflexivity|eapply nth_error_In; exact Hn].
    + rewrite (IH p r y ND' Hn). reflexivity.
Qed.

Lemma inc_firstn_skipn : forall (l : pairs D) lo p r y, inc lo l -> nth_error l p = Some (r, y) ->
  inc lo (firstn p l) /\ inc (S r) (skipn (S p) l).
Proof.
  intros l lo p r y Hinc Hn.
  assert (El : l = firstn p l ++ (r, y) :: skipn (S p) l).
  { clear - Hn. revert p Hn. induction l as [|a l IH]; intros p Hn; [destruct p; discriminate|].
    destruct p; [cbn in Hn; inversion Hn; reflexivity|]. cbn in Hn. cbn. f_equal. apply IH. exact Hn. }
  rewrite El in Hinc. destruct (inc_split D opf _ _ _ _ _ Hinc) as (I1 & _ & I2). split; assumption.
Qed.

Theorem ref_val_is_pev : forall n x (l : pairs D) lo, inc lo l ->
  ref_val D opf key0 n x l = pev n x (to_recs l).
Proof.
  induction n as [|n IH]; intros x l lo Hinc; [reflexivity|].
  destruct l as [|[j z] tl]; [reflexivity|].
  cbn [ref_val].
  destruct (root_of_is_root tl j z lo Hinc) as (p & y & Hp & Hroot).
  assert (ND : NoDup (ids ((j, z) :: tl))) by (apply (inc_NoDup D opf lo); exact Hinc).
  rewrite (split_at_nth _ p _ y ND Hp).
  assert (Hne : to_recs ((j, z) :: tl) <> []) by discriminate.
  rewrite (pev_S n x _ Hne).
  rewrite (is_root_unique _ _ _ (root_idx_is_root _ Hne) Hroot).
  unfold to_recs at 1. rewrite nth_error_map, Hp. cbn [option_map fst snd].
  destruct (inc_firstn_skipn _ lo p _ y Hinc Hp) as [I1 I2].
  rewrite (IH x _ lo I1), (IH y _ _ I2).
  unfold to_recs. rewrite firstn_map, skipn_map. reflexivity.
Qed.
End Pev.
