mod cases;
mod gen;
mod modes;
mod prog;
mod term;
mod valmode;
mod trackmode;
mod witness;

fn arg<T: std::str::FromStr>(args: &[String], name: &str, default: T) -> T {
    args.iter().position(|a| a == name).and_then(|i| args.get(i + 1)).and_then(|v| v.parse().ok()).unwrap_or(default)
}
fn main() {
    std::panic::set_hook(Box::new(|_| {}));
    let args: Vec<String> = std::env::args().collect();
    let a = modes::Args {
        seed: arg(&args, "--seed", 1u64), n: arg(&args, "--n", 500usize), out: arg(&args, "--out", "/tmp/exmex_cases".to_string()),
        shard: arg(&args, "--shard", 250usize), thorough: args.iter().any(|x| x == "--thorough"),
    };
    let mode = args.get(1).map(|s| s.as_str()).unwrap_or("");
    let cs = match mode {
        "witness" => { witness::run(); return }
        "val" => { valmode::run(&a); return }
        "c19" => { valmode::run_c19(&a); return }
        "c18v" => { valmode::run_c18v(&a); return }
        "c07e" => { valmode::run_c07e(&a); return }
        "c09w" => { valmode::run_c09w(&a); return }
        "c06t" => { valmode::run_c06t(&a); return }
        "c15s" => { valmode::run_c15s(&a); return }
        "c14t" => { trackmode::run(&a); return }
        "c20" => { valmode::run_c20(&a); return }
        "c20cold" => { valmode::run_c20cold(args.get(2).and_then(|s| s.parse().ok()).unwrap_or(8)); return }
        "tables" => { valmode::dump_tables(&a.out); return }
        "c06nest" => { let d: usize = args[2].parse().unwrap(); let k: usize = args[3].parse().unwrap(); modes::c06_nest(d, k, &args[4]); return }
        "c01" => modes::c01(&a),
        "c14" => modes::c14(&a),
        "c02" => modes::c02(&a),
        "c03" => modes::c03(&a),
        "c04" => modes::c04(&a),
        "c07" => modes::c07(&a),
        "c08" => modes::c08(&a),
        "c10" => modes::c10(&a),
        "c11" => modes::c11(&a),
        "c12" => modes::c12(&a),
        "c12d" => modes::c12d(&a),
        "c13" => modes::c13(&a),
        "c15" => modes::c15(&a),
        "c05" => modes::c05(&a),
        "c09" => modes::c09(&a),
        "c10s" => modes::c10s(&a),
        "c18" => modes::c18(&a),
        "c06" => modes::c06(&a),
        _ => { eprintln!("usage: harness <mode> [--seed S] [--n N] [--out DIR] [--shard K] [--thorough]"); std::process::exit(2) }
    };
    cs.write(&a.out, a.shard).expect("write cases");
    let bad = cs.cases.iter().filter(|c| c.oracle_ok == Some(false)).count();
    let extra = modes::EXTRA.with(|e| e.borrow().clone());
    println!("mode={mode} cases={} tables={} oracle_failures={bad} {extra}", cs.cases.len(), cs.tables.len());
}
