(* C03 — flat and deep expression forms are interchangeable.  Property theorems only; proofs are in Proofs/. *)
From Coq Require Import List Arith ZArith.
Import ListNotations.
From Exmex.Model Require Import Base EvalBinary Lexer Flat Deep Convert.
From Exmex.Spec Require Import RefSem.
From Coq Require Import Sorted.
From Exmex.Proofs Require Import CompileCorrect FlatPev DeepSem DeepCompile DeepParse C03Main C01Main C01Vars C11Main ConvertMain ToDeep ConvertCompose Accept WalkSim Vars Listings ParseListings LexSpaced LexFlex ParseAny ParseComplete LexLocal.
Open Scope nat_scope.

(* 1. The deep parser (recursive descent, one folded sub-expression per parenthesis group and per variable under unary
   operators) on the token rendering of EVERY well-formed surface tree, for every data type, every table with
   priorities 0..99 and every assignment: it succeeds, reports the variable list the flat parser reports, and evaluates
   to the reference semantics modulo R. *)
Theorem C03_deep_parse_is_reference :
  forall (D : Type) (C : carrier D) (tb : optable) (R : D -> D -> Prop),
  (forall a, R a a) -> (forall a b, R a b -> R b a) -> (forall a b c, R a b -> R b c -> R a c) ->
  (forall k a a' b b', R a a' -> R b b' -> R (binf C k a b) (binf C k a' b')) ->
  (forall k a a', R a a' -> R (unf C k a) (unf C k a')) ->
  (forall o, comm_of tb o = true -> forall a b c, R (binf C o (binf C o a b) c) (binf C o a (binf C o b c))) ->
  forall (c : chain (D:=D)) (vals : list D),
  wf_chain tb c = true -> length vals = length (find_parsed_vars (flatten c)) ->
  exists e v,
    dparse C tb (S (length (flatten c))) None (flatten c) (find_parsed_vars (flatten c)) [] [] [] = Ok (e, []) /\
    dvars e = find_parsed_vars (flatten c) /\
    eval_deep C e vals = Ok v /\
    R v (ref_chain C tb (find_parsed_vars (flatten c)) vals c).
Proof.
  intros D C tb R Hr Hs Ht Hb Hu Ha c vals Hwf Hlen.
  exact (deep_parse_is_reference C tb R Hr Hs Ht Hb Hu Ha c vals Hwf Hlen).
Qed.

(* ... through the entry point on token lists (the precondition check accepts every rendering of a well-formed tree) *)
Theorem C03_deep_token_entry_point :
  forall (D : Type) (C : carrier D) (tb : optable) (R : D -> D -> Prop),
  (forall a, R a a) -> (forall a b, R a b -> R b a) -> (forall a b c, R a b -> R b c -> R a c) ->
  (forall k a a' b b', R a a' -> R b b' -> R (binf C k a b) (binf C k a' b')) ->
  (forall k a a', R a a' -> R (unf C k a) (unf C k a')) ->
  (forall o, comm_of tb o = true -> forall a b c, R (binf C o (binf C o a b) c) (binf C o a (binf C o b c))) ->
  forall (c : chain (D:=D)) (vals : list D),
  wf_chain tb c = true -> length vals = length (find_parsed_vars (flatten c)) ->
  exists e v,
    parse_deep_tokens C tb (flatten c) = Ok e /\
    dvars e = find_parsed_vars (flatten c) /\
    eval_deep C e vals = Ok v /\
    R v (ref_chain C tb (find_parsed_vars (flatten c)) vals c).
Proof.
  intros D C tb R Hr Hs Ht Hb Hu Ha c vals Hwf Hlen.
  destruct (deep_parse_is_reference C tb R Hr Hs Ht Hb Hu Ha c vals Hwf Hlen) as (e & v & H1 & H2 & H3 & H4).
  exists e, v. unfold parse_deep_tokens. rewrite (rendering_accepted tb c Hwf). cbn [bind]. rewrite H1. cbn [bind]. repeat split; assumption.
Qed.

(* ... and through the text entry point DeepEx::parse on the canonical text rendering of the tree (LexSpaced.stext: every
   token followed by a space), when every token is readable in front of a space (lexable) *)
Theorem C03_deep_text_entry_point :
  forall (D : Type) (C : carrier D) (tb : optable) (is_literal : str -> option nat) (R : D -> D -> Prop),
  (forall a, R a a) -> (forall a b, R a b -> R b a) -> (forall a b c, R a b -> R b c -> R a c) ->
  (forall k a a' b b', R a a' -> R b b' -> R (binf C k a b) (binf C k a' b')) ->
  (forall k a a', R a a' -> R (unf C k a) (unf C k a')) ->
  (forall o, comm_of tb o = true -> forall a b c, R (binf C o (binf C o a b) c) (binf C o a (binf C o b c))) ->
  forall (c : chain (D:=D)) (vals : list D),
  wf_chain tb c = true -> Forall (lexable C tb is_literal) (flatten c) -> length vals = length (find_parsed_vars (flatten c)) ->
  exists e v,
    parse_deep C tb is_literal (stext C tb (flatten c)) = Ok e /\
    dvars e = find_parsed_vars (flatten c) /\
    eval_deep C e vals = Ok v /\
    R v (ref_chain C tb (find_parsed_vars (flatten c)) vals c).
Proof.
  intros D C tb is_literal R Hr Hs Ht Hb Hu Ha c vals Hwf Hlex Hlen.
  destruct (C03_deep_token_entry_point D C tb R Hr Hs Ht Hb Hu Ha c vals Hwf Hlen) as (e & v & H1 & H2 & H3 & H4).
  exists e, v. unfold parse_deep. rewrite (tokenize_spaced C tb is_literal (flatten c) Hlex). cbn [bind]. repeat split; assumption.
Qed.

(* ... and with free spacing (Proofs/LexFlex.v: any number of spaces behind every token, none where a terminator follows) *)
Theorem C03_deep_text_entry_point_free_spacing :
  forall (D : Type) (C : carrier D) (tb : optable) (is_literal : str -> option nat) (R : D -> D -> Prop),
  (forall a, R a a) -> (forall a b, R a b -> R b a) -> (forall a b c, R a b -> R b c -> R a c) ->
  (forall k a a' b b', R a a' -> R b b' -> R (binf C k a b) (binf C k a' b')) ->
  (forall k a a', R a a' -> R (unf C k a) (unf C k a')) ->
  (forall o, comm_of tb o = true -> forall a b c, R (binf C o (binf C o a b) c) (binf C o a (binf C o b c))) ->
  forall (c : chain (D:=D)) (gaps : list nat) (vals : list D),
  wf_chain tb c = true -> length gaps = length (flatten c) ->
  Forall (flexable C tb is_literal) (flatten c) -> gaps_ok C tb (combine (flatten c) gaps) ->
  length vals = length (find_parsed_vars (flatten c)) ->
  exists e v,
    parse_deep C tb is_literal (ftext C tb (combine (flatten c) gaps)) = Ok e /\
    dvars e = find_parsed_vars (flatten c) /\
    eval_deep C e vals = Ok v /\
    R v (ref_chain C tb (find_parsed_vars (flatten c)) vals c).
Proof.
  intros D C tb is_literal R Hr Hs Ht Hb Hu Ha c gaps vals Hwf Hgl Hlex Hg Hlen.
  assert (Em : forall (l : list (token D)) (gs : list nat), length gs = length l -> map fst (combine l gs) = l).
  { clear. induction l as [|t l IH]; intros gs Hgl; [reflexivity|]. destruct gs as [|g gs]; [discriminate|]. cbn [combine map fst]. f_equal. apply IH. cbn in Hgl. congruence. }
  specialize (Em (flatten c) gaps Hgl).
  pose proof (tokenize_flex C tb is_literal (combine (flatten c) gaps) ltac:(rewrite Em; exact Hlex) Hg) as Htok. rewrite Em in Htok.
  destruct (C03_deep_token_entry_point D C tb R Hr Hs Ht Hb Hu Ha c vals Hwf Hlen) as (e & v & H1 & H2 & H3 & H4).
  exists e, v. unfold parse_deep. rewrite Htok. cbn [bind]. repeat split; assumption.
Qed.

(* ... and on ANY locally readable text (Proofs/LexLocal.v: bare variables, constants, no terminator asked for) *)
Theorem C03_deep_text_entry_point_locally_readable :
  forall (D : Type) (C : carrier D) (tb : optable) (is_literal : str -> option nat) (R : D -> D -> Prop),
  (forall a, R a a) -> (forall a b, R a b -> R b a) -> (forall a b c, R a b -> R b c -> R a c) ->
  (forall k a a' b b', R a a' -> R b b' -> R (binf C k a b) (binf C k a' b')) ->
  (forall k a a', R a a' -> R (unf C k a) (unf C k a')) ->
  (forall o, comm_of tb o = true -> forall a b c, R (binf C o (binf C o a b) c) (binf C o a (binf C o b c))) ->
  forall (c : chain (D:=D)) (items : list (piece (D:=D) * nat)) (vals : list D),
  wf_chain tb c = true -> map (ptok C) (map fst items) = flatten c ->
  all_readable C tb is_literal items [] ->
  length vals = length (find_parsed_vars (flatten c)) ->
  exists e v,
    parse_deep C tb is_literal (ptexts C tb items) = Ok e /\
    dvars e = find_parsed_vars (flatten c) /\
    eval_deep C e vals = Ok v /\
    R v (ref_chain C tb (find_parsed_vars (flatten c)) vals c).
Proof.
  intros D C tb is_literal R Hr Hs Ht Hb Hu Ha c items vals Hwf Htoks Hread Hlen.
  pose proof (tokenize_local C tb is_literal items Hread) as Htok. rewrite Htoks in Htok.
  destruct (C03_deep_token_entry_point D C tb R Hr Hs Ht Hb Hu Ha c vals Hwf Hlen) as (e & v & H1 & H2 & H3 & H4).
  exists e, v. unfold parse_deep. rewrite Htok. cbn [bind]. repeat split; assumption.
Qed.


(* 2. Hence the two forms agree: same variables, values equal modulo R, for every well-formed tree and assignment. *)
Theorem C03_flat_and_deep_agree :
  forall (D : Type) (C : carrier D) (tb : optable) (R : D -> D -> Prop),
  wf_table tb = true ->
  (forall a, R a a) -> (forall a b, R a b -> R b a) -> (forall a b c, R a b -> R b c -> R a c) ->
  (forall k a a' b b', R a a' -> R b b' -> R (binf C k a b) (binf C k a' b')) ->
  (forall k a a', R a a' -> R (unf C k a) (unf C k a')) ->
  (forall o, comm_of tb o = true -> forall a b c, R (binf C o (binf C o a b) c) (binf C o a (binf C o b c))) ->
  forall (c : chain (D:=D)) (text : str) (vals : list D),
  wf_chain tb c = true -> length vals = length (find_parsed_vars (flatten c)) ->
  exists fx e vf vd,
    make_expression tb true text (flatten c) (find_parsed_vars (flatten c)) = Ok fx /\
    dparse C tb (S (length (flatten c))) None (flatten c) (find_parsed_vars (flatten c)) [] [] [] = Ok (e, []) /\
    fvars fx = dvars e /\
    eval_flat C fx vals = Ok vf /\ eval_deep C e vals = Ok vd /\ R vf vd.
Proof.
  intros D C tb R Hwt Hr Hs Ht Hb Hu Ha c text vals Hwf Hlen.
  destruct (vars_in_chain c) as [Hv0 Hvr].
  destruct (flat_parse_is_reference C tb Hwt R Hr Hs Ht Hb Hu Ha (find_parsed_vars (flatten c)) vals Hlen c text Hwf Hv0 Hvr)
    as (fx & vf & F1 & F2 & F3 & F4).
  destruct (deep_parse_is_reference C tb R Hr Hs Ht Hb Hu Ha c vals Hwf Hlen) as (e & vd & D1 & D2 & D3 & D4).
  exists fx, e, vf, vd. repeat split; try assumption; [congruence|]. eapply Ht; [exact F4|apply Hs; exact D4].
Qed.

(* 3. Evaluation of ANY well-formed deep expression (operand counts, variable indices and arities at every level) is
   its denotation: at every level the precedence evaluation of the operators over the denotations of the nodes, then
   the unary operators of the level. *)
Theorem C03_deep_eval_is_denotation :
  forall (D : Type) (C : carrier D) (R : D -> D -> Prop),
  (forall a, R a a) -> (forall a b, R a b -> R b a) -> (forall a b c, R a b -> R b c -> R a c) ->
  (forall k a a' b b', R a a' -> R b b' -> R (binf C k a b) (binf C k a' b')) ->
  (forall k a a', R a a' -> R (unf C k a) (unf C k a')) ->
  forall (okop : dbop -> Prop),
  (forall o, okop o -> bcomm o = true ->
     forall a b c, R (binf C (bidx o) (binf C (bidx o) a b) c) (binf C (bidx o) a (binf C (bidx o) b c))) ->
  forall (look : nat -> str -> D) (okvar : nat -> str -> Prop) (okvars : list str -> Prop) (vals : list D),
  (forall v, okvars v -> length v <= length vals) ->
  (forall i x, okvar i x -> i < length vals /\ look i x = nth i vals (dflt C)) ->
  forall e : deepex D, dwf okop okvar okvars e ->
  exists v, eval_deep_relaxed C e vals = Ok v /\ R v (dden C look e).
Proof. exact @eval_deep_is_dden. Qed.

(* 4. The conversions.  flat_ok: scheduled by prioritized_indices_flat, duplicate-free variable list, variable indices in
   range, operators from the table; deep_ok: index-consistent with its duplicate-free variable list, operators from the
   table (priorities 0..99).  Over every such table and every congruence R in which its flagged operators are
   associative:
   to_deepex (replaying the flat application order on deep nodes, then wrapper, reset_vars, compile) maps a flat_ok
   expression to a deep_ok one, from_deepex (flattening with +100 per nesting level, unary operators re-attached) maps
   a deep_ok expression to a flat_ok one; both keep the variable list and, at every assignment, the value. *)
Theorem C03_flat_to_deep :
  forall (D : Type) (C : carrier D) (tb : optable) (R : D -> D -> Prop),
  (forall a, R a a) -> (forall a b, R a b -> R b a) -> (forall a b c, R a b -> R b c -> R a c) ->
  (forall k a a' b b', R a a' -> R b b' -> R (binf C k a b) (binf C k a' b')) ->
  (forall k a a', R a a' -> R (unf C k a) (unf C k a')) ->
  (forall k, comm_of tb k = true -> forall a b c, R (binf C k (binf C k a b) c) (binf C k a (binf C k b c))) ->
  forall fx : flatex D, flat_ok C tb fx ->
  exists e, to_deepex C tb true fx = Ok e /\ deep_ok tb e /\ dvars e = fvars fx /\
    forall vals, length vals = length (fvars fx) ->
    exists v w, eval_flat C fx vals = Ok v /\ eval_deep C e vals = Ok w /\ R w v.
Proof. exact @flat_to_deep. Qed.

Theorem C03_deep_to_flat :
  forall (D : Type) (C : carrier D) (tb : optable), wf_table tb = true ->
  forall (R : D -> D -> Prop),
  (forall a, R a a) -> (forall a b, R a b -> R b a) -> (forall a b c, R a b -> R b c -> R a c) ->
  (forall k a a' b b', R a a' -> R b b' -> R (binf C k a b) (binf C k a' b')) ->
  (forall k a a', R a a' -> R (unf C k a) (unf C k a')) ->
  (forall k, comm_of tb k = true -> forall a b c, R (binf C k (binf C k a b) c) (binf C k a (binf C k b c))) ->
  forall e : deepex D, deep_ok tb e ->
  exists fx, from_deepex C tb true e = Ok fx /\ flat_ok C tb fx /\ fvars fx = dvars e /\
    forall vals, length vals = length (dvars e) ->
    exists v w, eval_flat C fx vals = Ok v /\ eval_deep C e vals = Ok w /\ R v w.
Proof. exact @deep_to_flat. Qed.

(* 5. ... any number of times *)
Theorem C03_any_number_of_round_trips :
  forall (D : Type) (C : carrier D) (tb : optable), wf_table tb = true ->
  forall (R : D -> D -> Prop),
  (forall a, R a a) -> (forall a b, R a b -> R b a) -> (forall a b c, R a b -> R b c -> R a c) ->
  (forall k a a' b b', R a a' -> R b b' -> R (binf C k a b) (binf C k a' b')) ->
  (forall k a a', R a a' -> R (unf C k a) (unf C k a')) ->
  (forall k, comm_of tb k = true -> forall a b c, R (binf C k (binf C k a b) c) (binf C k a (binf C k b c))) ->
  forall (n : nat) (fx : flatex D), flat_ok C tb fx ->
  exists fx', round_trips C tb n fx = Ok fx' /\ flat_ok C tb fx' /\ fvars fx' = fvars fx /\
    forall vals, length vals = length (fvars fx) ->
    exists v v', eval_flat C fx vals = Ok v /\ eval_flat C fx' vals = Ok v' /\ R v' v.
Proof. exact @round_trips_ok. Qed.

(* 6. what the flat parser builds from ANY token list it accepts (also sloppy input) is flat_ok, so 4 and 5 apply to
   it: the deep form obtained by conversion has the same variables and values as the flat form *)
Theorem C03_every_parsed_flat_expression_converts :
  forall (D : Type) (C : carrier D) (tb : optable) (text : str) (ts : list (token D)) (fx : flatex D),
  make_expression tb true text ts (find_parsed_vars ts) = Ok fx -> flat_ok C tb fx.
Proof. exact @parsed_flat_ok. Qed.

(* 6b. ... and what the DEEP parser builds from ANY token list it accepts is deep_ok and lists exactly the variables of
   the tokens, so 4 and 5 apply to it too: its flat form has the same variables and values *)
Theorem C03_every_parsed_deep_expression_converts :
  forall (D : Type) (C : carrier D) (tb : optable) (ts : list (token D)) (e : deepex D),
  parse_deep_tokens C tb ts = Ok e -> dvars e = find_parsed_vars ts /\ deep_ok tb e.
Proof. intros D C tb ts e H. split; [exact (proj1 (parsed_any C tb ts e H))|exact (parsed_any_deep_ok C tb ts e H)]. Qed.

(* 7. Operator listings.  (a) On EVERY expression of either form all three listings are strictly increasing in the
   order of the names, hence sorted and duplicate free. *)
Theorem C03_listings_sorted_duplicate_free :
  forall (D : Type) (tb : optable) (e : deepex D) (fx : flatex D),
  (StronglySorted str_lt (d_binary_reprs tb e) /\ StronglySorted str_lt (d_unary_reprs tb e) /\ StronglySorted str_lt (d_operator_reprs tb e) /\ StronglySorted str_lt (f_binary_reprs tb fx) /\ StronglySorted str_lt (f_unary_reprs tb fx) /\ StronglySorted str_lt (f_operator_reprs tb fx)) /\ (NoDup (d_binary_reprs tb e) /\ NoDup (d_unary_reprs tb e) /\ NoDup (d_operator_reprs tb e) /\ NoDup (f_binary_reprs tb fx) /\ NoDup (f_unary_reprs tb fx) /\ NoDup (f_operator_reprs tb fx)).
Proof. intros D tb e fx. split; [exact (listings_sorted tb e fx)|exact (listings_nodup tb e fx)]. Qed.

(* (b) They contain exactly the names of the operators occurring in the expression, at every nesting level. *)
Theorem C03_listings_are_the_operators_of_the_expression :
  forall (D : Type) (tb : optable) (e : deepex D) (fx : flatex D),
  (d_binary_reprs tb e = sort_strs (map (repr_of tb) (bnames e)) /\ d_unary_reprs tb e = sort_strs (map (repr_of tb) (unames e)) /\ d_operator_reprs tb e = sort_strs (map (repr_of tb) (bnames e ++ unames e))) /\ (f_binary_reprs tb fx = sort_strs (map (repr_of tb) (fbnames fx)) /\ f_unary_reprs tb fx = sort_strs (map (repr_of tb) (funames fx)) /\ f_operator_reprs tb fx = sort_strs (map (repr_of tb) (fbnames fx ++ funames fx))).
Proof. intros D tb e fx. split; [exact (deep_listings tb e)|exact (flat_listings tb fx)]. Qed.

(* (c) Converting a deep expression into the flat form (any structurally well-formed expression: operand counts at
   every level) keeps all three listings. *)
Theorem C03_deep_to_flat_keeps_the_listings :
  forall (D : Type) (C : carrier D) (tb : optable) (okop : dbop -> Prop) (okvar : nat -> str -> Prop) (okvars : list str -> Prop)
         (fixed_bump : bool) (e : deepex D) (fx : flatex D),
  dwf okop okvar okvars e -> from_deepex C tb fixed_bump e = Ok fx ->
  f_binary_reprs tb fx = d_binary_reprs tb e /\ f_unary_reprs tb fx = d_unary_reprs tb e /\ f_operator_reprs tb fx = d_operator_reprs tb e.
Proof. exact @from_deepex_listings. Qed.

(* (d) The unfolded flat parse of the rendering of every well-formed tree lists exactly the operators of the tree
   (everything in the text and nothing else) ... *)
Theorem C03_unfolded_parse_lists_the_operators_of_the_text :
  forall (D : Type) (C : carrier D) (tb : optable) (vars : list str), wf_table tb = true ->
  forall (c : chain (D:=D)) (text : str),
  wf_chain tb c = true -> vars_in_atom vars (fst c) -> vars_in_rest vars (snd c) ->
  exists fx, make_expression tb true text (flatten c) vars = Ok fx /\  f_binary_reprs tb fx = sort_strs (map (repr_of tb) (chain_bn c)) /\  f_unary_reprs tb fx = sort_strs (map (repr_of tb) (chain_un c)) /\  f_operator_reprs tb fx = sort_strs (map (repr_of tb) (chain_bn c ++ chain_un c)).
Proof. exact @unfolded_parse_listings. Qed.

(* (e) ... and constant folding (FlatEx::compile, on any flat expression) only ever removes names: nothing absent
   from the text is reported.  Partial: that every operator applied to a variable-dependent operand stays listed is
   left to the correspondence. *)
Theorem C03_folding_only_removes_names_partial :
  forall (D : Type) (C : carrier D) (tb : optable) (fixed_bump : bool) (fx fx' : flatex D), compile C fixed_bump fx = Ok fx' ->
  incl (f_binary_reprs tb fx') (f_binary_reprs tb fx) /\ incl (f_unary_reprs tb fx') (f_unary_reprs tb fx) /\ incl (f_operator_reprs tb fx') (f_operator_reprs tb fx).
Proof. intros D C tb fb fx fx'. exact (compile_listings C tb fb fx fx'). Qed.

(* non-vacuity: -(a+b)*sin cos c ^ 2 + 3 + 4, deep *)
Definition ex_tb : optable :=
  [ {| repr := [43]%N; obin := Some {| prio := 0; comm := true |}; ounary := true; oconst := false |};
    {| repr := [45]%N; obin := Some {| prio := 1; comm := false |}; ounary := true; oconst := false |};
    {| repr := [42]%N; obin := Some {| prio := 2; comm := true |}; ounary := false; oconst := false |};
    {| repr := [94]%N; obin := Some {| prio := 4; comm := false |}; ounary := false; oconst := false |};
    {| repr := [115;105;110]%N; obin := None; ounary := true; oconst := false |};
    {| repr := [99;111;115]%N; obin := None; ounary := true; oconst := false |} ].
Definition ex_chain : chain (D:=term) :=
  (AGroup [1] (ALeaf [] (LVar [97%N])) [(0, ALeaf [] (LVar [98%N]))],
   [(2, ALeaf [4; 5] (LVar [99%N])); (3, ALeaf [] (LNum (Lit [50%N]))); (0, ALeaf [] (LNum (Lit [51%N]))); (0, ALeaf [] (LNum (Lit [52%N])))]).
(* 6c. Arbitrary (also sloppy) token lists that the parsers accept.  Outside PREFIX NOTATION (a parenthesis level that
   starts with a binary-only operator, `op a b`, which both parsers accept: known finding F12) every token list the deep
   parser accepts is the token rendering of a well-formed tree -- the operand/operator count of a level balances only
   when operands and binary operators alternate --, so by 1 and 2 the flat parser accepts it too and both forms have the
   same variables and R-equal values at every assignment. *)
Theorem C03_accepted_token_lists_outside_prefix_notation_are_trees :
  forall (D : Type) (C : carrier D) (tb : optable) (ts : list (token D)) (e : deepex D),
  noprefix tb ts = true -> parse_deep_tokens C tb ts = Ok e ->
  exists c : chain (D:=D), wf_chain tb c = true /\ flatten c = ts.
Proof. exact @accepted_is_tree. Qed.

Theorem C03_both_parsers_agree_on_accepted_token_lists_outside_prefix_notation :
  forall (D : Type) (C : carrier D) (tb : optable) (R : D -> D -> Prop),
  wf_table tb = true ->
  (forall a, R a a) -> (forall a b, R a b -> R b a) -> (forall a b c, R a b -> R b c -> R a c) ->
  (forall k a a' b b', R a a' -> R b b' -> R (binf C k a b) (binf C k a' b')) ->
  (forall k a a', R a a' -> R (unf C k a) (unf C k a')) ->
  (forall o, comm_of tb o = true -> forall a b c, R (binf C o (binf C o a b) c) (binf C o a (binf C o b c))) ->
  forall (ts : list (token D)) (e : deepex D) (text : str) (vals : list D),
  noprefix tb ts = true -> parse_deep_tokens C tb ts = Ok e -> length vals = length (dvars e) ->
  exists fx vf vd,
    parse_tokens_wo tb true text ts = Ok fx /\ fvars fx = dvars e /\
    eval_flat C fx vals = Ok vf /\ eval_deep C e vals = Ok vd /\ R vf vd.
Proof.
  intros D C tb R Hwt Hr Hs Ht Hb Hu Ha ts e text vals Hnp He Hlen.
  destruct (accepted_is_tree C tb ts e Hnp He) as (c & Hwf & <-).
  pose proof (proj1 (parsed_any C tb _ e He)) as Hv. rewrite Hv in Hlen.
  destruct (C03_flat_and_deep_agree D C tb R Hwt Hr Hs Ht Hb Hu Ha c text vals Hwf Hlen) as (fx & e' & vf & vd & F1 & F2 & F3 & F4 & F5 & F6).
  assert (Ee : e' = e).
  { unfold parse_deep_tokens in He. rewrite (rendering_accepted tb c Hwf) in He. cbn [bind] in He. rewrite F2 in He. cbn [bind] in He. inversion He; reflexivity. }
  subst e'. exists fx, vf, vd. split; [|repeat split; assumption].
  unfold parse_tokens_wo. rewrite (rendering_accepted tb c Hwf). cbn [bind]. exact F1.
Qed.

(* ... and INSIDE prefix notation the statement is false of the code (known finding F12): `* (1+2) - 3 4` is accepted by
   both parsers; the flat form computes (1*(2+3))-4, the deep form ((1+2)*3)-4.  The witness is evaluated in the model
   on the free term algebra; the check replays it on the implementation (correspondence, family sloppy-both-accept). *)
Definition prefix_witness : list (token term) :=
  [TOp 2; TOpen; TNum (Lit [49%N]); TOp 0; TNum (Lit [50%N]); TClose; TOp 1; TNum (Lit [51%N]); TNum (Lit [52%N])].
Theorem C03_prefix_notation_refuted :
  exists (tb : optable) (ts : list (token term)) (fx : flatex term) (e : deepex term) (vf vd : term),
    parse_tokens_wo tb true [] ts = Ok fx /\ parse_deep_tokens term_carrier tb ts = Ok e /\
    eval_flat term_carrier fx [] = Ok vf /\ eval_deep term_carrier e [] = Ok vd /\ vf <> vd.
Proof.
  exists ex_tb, prefix_witness.
  destruct (parse_tokens_wo ex_tb true [] prefix_witness) as [fx| |] eqn:Ef; [|vm_compute in Ef; discriminate|vm_compute in Ef; discriminate].
  destruct (parse_deep_tokens term_carrier ex_tb prefix_witness) as [e| |] eqn:Ed; [|vm_compute in Ed; discriminate|vm_compute in Ed; discriminate].
  exists fx, e.
  exists (Bin 1 (Bin 2 (Lit [49%N]) (Bin 0 (Lit [50%N]) (Lit [51%N]))) (Lit [52%N])), (Bin 1 (Bin 2 (Bin 0 (Lit [49%N]) (Lit [50%N])) (Lit [51%N])) (Lit [52%N])).
  split; [reflexivity|]. split; [reflexivity|].
  vm_compute in Ef. inversion Ef; subst fx. vm_compute in Ed. inversion Ed; subst e.
  split; [vm_compute; reflexivity|]. split; [vm_compute; reflexivity|]. discriminate.
Qed.

Example C03_example_value :
  (do r <- dparse term_carrier ex_tb (S (length (flatten ex_chain))) None (flatten ex_chain) (find_parsed_vars (flatten ex_chain)) [] [] [];
   eval_deep term_carrier (fst r) [V 0; V 1; V 2])
  = Ok (Bin 0 (Bin 2 (Un 1 (Bin 0 (V 0) (V 1))) (Bin 3 (Un 4 (Un 5 (V 2))) (Lit [50%N]))) (Bin 0 (Lit [51%N]) (Lit [52%N]))).
Proof. vm_compute. reflexivity. Qed.

(* Outside these theorems (covered by the correspondence of this check): sloppy strings in prefix notation outside the
   class of F12 (6c covers every accepted token list without prefix notation), and the operator
   listings of folded and deep-parsed expressions beyond 7 (which names folding removes). *)
Print Assumptions C03_deep_parse_is_reference.
Print Assumptions C03_deep_token_entry_point.
Print Assumptions C03_flat_and_deep_agree.
Print Assumptions C03_deep_eval_is_denotation.
Print Assumptions C03_flat_to_deep.
Print Assumptions C03_deep_to_flat.
Print Assumptions C03_any_number_of_round_trips.
Print Assumptions C03_every_parsed_flat_expression_converts.
Print Assumptions C03_every_parsed_deep_expression_converts.
Print Assumptions C03_accepted_token_lists_outside_prefix_notation_are_trees.
Print Assumptions C03_both_parsers_agree_on_accepted_token_lists_outside_prefix_notation.
Print Assumptions C03_prefix_notation_refuted.
Print Assumptions C03_listings_sorted_duplicate_free.
Print Assumptions C03_listings_are_the_operators_of_the_expression.
Print Assumptions C03_deep_to_flat_keeps_the_listings.
Print Assumptions C03_unfolded_parse_lists_the_operators_of_the_text.
Print Assumptions C03_folding_only_removes_names_partial.
Print Assumptions C03_deep_text_entry_point.
Print Assumptions C03_deep_text_entry_point_free_spacing.
Print Assumptions C03_deep_text_entry_point_locally_readable.
