//! Case generators per property.
use crate::cases::*;
use crate::gen::*;
use crate::prog::*;
use crate::term::*;

pub struct Args { pub seed: u64, pub n: usize, pub out: String, pub shard: usize, pub thorough: bool }

fn expect_value(tb: &[OpSpec], want: &Term, want_vars: &[String], obs: &[Obs], queries: &[Query]) -> (Option<bool>, String) {
    // oracle: every Eval(n) with n = |vars| must be the reference term modulo associativity of flagged
    // operators, every Vars answer must be the sorted distinct names
    let mut ok = true; let mut note = String::new();
    for (q, o) in queries.iter().zip(obs) {
        match (q, o) {
            (Query::Eval(n), Obs::T(t)) | (Query::Relaxed(n), Obs::T(t)) if *n == want_vars.len() => {
                if anf(t, tb) != anf(want, tb) { ok = false; note = format!("{q:?}: got {} want {}", anf(t, tb).pretty(), anf(want, tb).pretty()); }
            }
            (Query::EvalVec(n), Obs::TC(t, _)) if *n == want_vars.len() => {
                if anf(t, tb) != anf(want, tb) { ok = false; note = format!("{q:?}: got {} want {}", anf(t, tb).pretty(), anf(want, tb).pretty()); }
            }
            (Query::Eval(n), other) | (Query::EvalVec(n), other) if *n == want_vars.len() => { ok = false; note = format!("{q:?}: got {} want {}", pretty_obs(other), want.pretty()); }
            (Query::Vars, Obs::S(v)) => if v != want_vars { ok = false; note = format!("vars {v:?} want {want_vars:?}"); },
            (Query::Vars, other) => { ok = false; note = format!("vars: {}", pretty_obs(other)); }
            // operator listings: strictly ascending (sorted, duplicate-free) names of the table
            (Query::BinReprs, Obs::S(v)) | (Query::UnReprs, Obs::S(v)) | (Query::OpReprs, Obs::S(v)) => {
                if !v.windows(2).all(|w| w[0] < w[1]) { ok = false; note = format!("{q:?}: listing {v:?} is not sorted and duplicate-free"); }
                else if let Some(x) = v.iter().find(|x| !tb.iter().any(|o| &o.repr == *x)) { ok = false; note = format!("{q:?}: listing {v:?} contains {x:?}, which is no operator of the table"); }
            }
            _ => (),
        }
    }
    (Some(ok), note)
}

fn pick_table(r: &mut Rng, a: &Args) -> Vec<OpSpec> {
    let std = std_tables();
    if r.chance(2, 3) { std[r.below(std.len())].clone() } else { let _ = a; random_table(r) }
}

/// C01: well-formed trees x renderings x tables; flat parse (folded and unfolded) evaluated symbolically
pub fn c01(a: &Args) -> CaseSet {
    let mut cs = CaseSet::default();
    let mut r = Rng::new(a.seed);
    // corpus of regression inputs first (defects F1 of the pinned tree)
    let t0 = std_tables()[0].clone();
    for text in ["sin(x+3+2)", "sin(y+x*2+3)", "x-3+2", "-(x+1+2)*3", "sin cos x ^ 2", "2^3^2", "1-2-3", "x/2/4", "2*3+x*4*5", "-x^2", "--x", "sin(1+2)+x"] {
        let qs = vec![Query::Vars, Query::Eval(1)];
        cs.add(&t0, Prog::Flat(text.to_string()), qs, format!("corpus: {text}"), "corpus", 3, |_| (None, String::new()));
    }
    for i in 0..a.n {
        let tb = pick_table(&mut r, a);
        let cfg = GenCfg::default_for(&tb);
        let big = a.thorough && i % 10 == 0;
        let mut size = if big { 20 + r.below(120) as i32 } else { 1 + r.below(14) as i32 };
        let ch = gen_chain(&mut r, &tb, &cfg, 0, &mut size);
        let rc = RenderCfg { spaces: r.chance(1, 2), braces: r.chance(1, 2), redundant_parens: r.chance(1, 3), call_space: false };
        let text = render(&ch, &tb, &mut r, &rc);
        let vars = sorted_vars(&ch);
        let want = ref_chain(&ch, &tb, &vars);
        let nv = vars.len();
        // every other case also through the consuming evaluation (eval_vec / eval_iter)
        let qs = if i % 2 == 0 { vec![Query::Vars, Query::Eval(nv), Query::EvalVec(nv)] } else { vec![Query::Vars, Query::Eval(nv)] };
        let prog = if i % 3 == 0 { Prog::FlatWo(text.clone()) } else { Prog::Flat(text.clone()) };
        let (tb2, want2, vars2, qs2) = (tb.clone(), want.clone(), vars.clone(), qs.clone());
        cs.add(&tb, prog, qs, text, "random-tree", n_operands(&ch), move |obs| expect_value(&tb2, &want2, &vars2, obs, &qs2));
    }
    // wide levels: 129..200 distinct variables on one level (nothing folds, so the evaluation tracks that many operands
    // in several machine words), mostly one low-priority operator, tighter operators placed at and around the 64-operand
    // boundaries and at random places
    for i in 0..(if a.thorough { 60 } else { 14 }) {
        let tb = std_tables()[if i % 3 == 2 { 1 } else { 0 }].clone();
        let sym: Vec<usize> = (0..tb.len()).filter(|k| tb[*k].bin.is_some() && !is_alpha_name(&tb[*k].repr)).collect();
        let lo = *sym.iter().min_by_key(|k| tb[**k].bin.unwrap().0).unwrap();
        let tight: Vec<usize> = sym.iter().copied().filter(|k| tb[*k].bin.unwrap().0 > tb[lo].bin.unwrap().0).collect();
        if tight.is_empty() { continue }
        let m = 129 + r.below(72);
        let mut ops: Vec<usize> = vec![lo; m - 1];
        for b in [63usize, 127, 191] { for d in 0..3 { let j = b + d; if j >= 1 && j - 1 + (i % 3) < m - 1 && r.chance(2, 3) { ops[j - 1 + (i % 3) - if j - 1 + (i % 3) > 0 && i % 2 == 0 { 1 } else { 0 }] = *r.pick(&tight); } } }
        for _ in 0..r.below(6) { let j = r.below(m - 1); ops[j] = *r.pick(&tight); }
        let rest: Vec<(usize, Atom)> = (1..m).map(|j| (ops[j - 1], Atom::Var(format!("x{j:03}")))).collect();
        let ch = Chain { first: Box::new(Atom::Var("x000".into())), rest };
        let text = render(&ch, &tb, &mut r, &RenderCfg::plain());
        let vars = sorted_vars(&ch); let want = ref_chain(&ch, &tb, &vars); let nv = vars.len();
        let qs = vec![Query::Vars, Query::Eval(nv)];
        let prog = if i % 2 == 0 { Prog::FlatWo(text.clone()) } else { Prog::Flat(text.clone()) };
        let (tb2, want2, vars2, qs2) = (tb.clone(), want.clone(), vars.clone(), qs.clone());
        cs.add(&tb, prog, qs, text, "wide-level", m, move |obs| expect_value(&tb2, &want2, &vars2, obs, &qs2));
    }
    cs
}

fn perms(n: usize) -> Vec<Vec<usize>> {
    fn go(cur: &mut Vec<usize>, used: &mut Vec<bool>, n: usize, out: &mut Vec<Vec<usize>>) {
        if cur.len() == n { out.push(cur.clone()); return }
        for i in 0..n { if !used[i] { used[i] = true; cur.push(i); go(cur, used, n, out); cur.pop(); used[i] = false; } }
    }
    let mut out = vec![]; go(&mut vec![], &mut vec![false; n], n, &mut out); out
}
/// reference for a chain v0 o0 v1 o1 ...: split at the operator applied last (lowest priority, rightmost among equals)
fn chain_ref(prios: &[i64], ops: &[usize], lo: usize, hi: usize) -> Term {
    if lo == hi { return Term::Var(lo) }
    let mut r = lo; for i in lo..hi { if prios[i] <= prios[r] { r = i } }
    Term::Bin(ops[r], Box::new(chain_ref(prios, ops, lo, r)), Box::new(chain_ref(prios, ops, r + 1, hi)))
}
/// C14: chains `v0 o1 v1 o2 v2 ...` whose operator priorities realise a given application order
pub fn c14(a: &Args) -> CaseSet {
    let mut cs = CaseSet::default();
    let mut r = Rng::new(a.seed);
    let names: Vec<String> = (0..MAX_OPS).map(|k| format!("o{}", (b'a' + (k / 26) as u8) as char) + &((b'a' + (k % 26) as u8) as char).to_string()).collect();
    // table: operator k has priority k (distinct priorities: any permutation of <= 32 operators is realisable)
    let tb: Vec<OpSpec> = (0..MAX_OPS).map(|k| OpSpec::bin(&names[k], k as i64, false)).collect();
    let var = |i: usize| format!("v{:04}", i);
    let mut add_chain = |cs: &mut CaseSet, ops: Vec<usize>, family: &'static str, which: usize| {
        let n = ops.len() + 1;
        let mut text = var(0);
        for (i, o) in ops.iter().enumerate() { text.push(' '); text.push_str(&names[*o]); text.push(' '); text.push_str(&var(i + 1)); }
        let prios: Vec<i64> = ops.iter().map(|o| *o as i64).collect();
        let want = chain_ref(&prios, &ops, 0, n - 1);
        let vars: Vec<String> = (0..n).map(var).collect();
        let prog = match which % 4 { 0 => Prog::FlatWo(text.clone()), 1 => Prog::Deep(text.clone()), 2 => Prog::ToDeep(Box::new(Prog::FlatWo(text.clone()))), _ => Prog::ToFlat(Box::new(Prog::Deep(text.clone()))) };
        let qs = if which % 4 == 0 { vec![Query::Eval(n), Query::EvalVec(n)] } else { vec![Query::Eval(n)] };
        let (tb2, qs2) = (tb.clone(), qs.clone());
        cs.add(&tb, prog, qs, format!("chain n={n} order={:?}", &ops[..ops.len().min(12)]), family, n, move |obs| expect_value(&tb2, &want, &vars, obs, &qs2));
    };
    // exhaustive: all application orders of up to 6 (quick) / 7 (thorough) operators; operator at position i gets
    // priority = rank so that the sorted order is exactly the permutation
    let maxk = if a.thorough { 7 } else { 6 };
    let mut count = 0;
    for k in 1..=maxk {
        for p in perms(k) {
            // p[j] = position applied j-th  => priority of position p[j] is k-1-j (descending)
            let mut ops = vec![0usize; k];
            for (j, pos) in p.iter().enumerate() { ops[*pos] = k - 1 - j; }
            add_chain(&mut cs, ops, "exhaustive-permutations", count); count += 1;
        }
    }
    // structured and random orders around the word boundaries: every pattern x every evaluation route
    let lens: Vec<usize> = if a.thorough { vec![9, 17, 31, 32, 33, 34, 63, 64, 65, 66, 67, 127, 128, 129, 130, 131, 191, 192, 193, 194, 257, 513] } else { vec![33, 64, 65, 66, 129, 130, 193] };
    let mk_ops = |r: &mut Rng, m: usize, pattern: usize| -> Vec<usize> { (0..m).map(|i| match pattern {
        0 => i % 32,                                   // ascending priorities: right to left within blocks
        1 => 31 - (i % 32),                            // descending: left to right
        2 => (i / ((m / 32).max(1))).min(31),          // long equal-priority runs, ascending
        3 => if i % 2 == 0 { (i / 2) % 32 } else { 31 - (i / 2) % 32 },   // alternating
        4 => { let mid = m / 2; let d = if i > mid { i - mid } else { mid - i }; 31 - (d % 32) } // inside-out
        5 => if r.chance(1, 8) { 20 + r.below(12) } else { r.below(4) },   // few high-priority islands in a sea of low ones
        _ => r.below(32),
    }).collect() };
    for (li, &n) in lens.iter().enumerate() {
        for pattern in 0..7 {
            let ops = mk_ops(&mut r, n - 1, pattern);
            add_chain(&mut cs, ops, "boundary-lengths", pattern + li);
        }
    }
    // very long chains (more than 32 machine words of operands), flat route only (the deep form of such a chain from
    // to_deepex nests once per operator: known finding F10)
    for (hi, &n) in (if a.thorough { vec![2047usize, 2048, 2049, 2113, 4100] } else { vec![2049usize] }).iter().enumerate() {
        let ops = mk_ops(&mut r, n - 1, 5 + hi % 2);
        add_chain(&mut cs, ops, "very-long-chains", 4 * hi);
        let last = cs.cases.len() - 1; cs.cases[last].model = false;   // oracle only: the reference on 2000+ operands; the model is not evaluated in Coq at this size
    }
    // one variable in hundreds of operand positions (more than any small counter holds), through eval and the consuming
    // evaluation; oracle only above 200 operands
    for (wi, &n) in (if a.thorough { vec![120usize, 255, 256, 257, 300, 513, 1030] } else { vec![256usize, 257, 300] }).iter().enumerate() {
        let tb = std_tables()[0].clone();
        let sym: Vec<usize> = (0..tb.len()).filter(|k| tb[*k].bin.is_some() && !is_alpha_name(&tb[*k].repr)).collect();
        for shape in 0..3usize {
            let names: Vec<String> = (0..n).map(|j| match shape { 0 => "x".to_string(), 1 => if j % 2 == 0 { "x".into() } else { "y".into() }, _ => if j == 0 || j + 1 == n { "z".into() } else { "y".into() } }).collect();
            let ops: Vec<usize> = (0..n - 1).map(|j| sym[(j * (shape + 1) + wi) % sym.len().min(3)]).collect();
            let rest: Vec<(usize, Atom)> = (1..n).map(|j| (ops[j - 1], Atom::Var(names[j].clone()))).collect();
            let ch = Chain { first: Box::new(Atom::Var(names[0].clone())), rest };
            let text = render(&ch, &tb, &mut r, &RenderCfg::plain());
            let vars = sorted_vars(&ch); let want = ref_chain(&ch, &tb, &vars); let nv = vars.len();
            let qs = vec![Query::Vars, Query::Eval(nv), Query::EvalVec(nv)];
            let (tb2, want2, vars2, qs2) = (tb.clone(), want.clone(), vars.clone(), qs.clone());
            cs.add(&tb, Prog::Flat(text.clone()), qs, format!("{} operands over {:?}: {}...", n, vars, text.chars().take(24).collect::<String>()), "one-variable-in-hundreds-of-operands", n, move |obs| expect_value(&tb2, &want2, &vars2, obs, &qs2));
            if n > 200 { let last = cs.cases.len() - 1; cs.cases[last].model = false; }
        }
    }
    // random orders, all four routes, at lengths where one level has > 20 and > 128 operators
    for rep in 0..a.n.max(1) {
        for &n in &[24usize, 40, 70, 131, 140, 200] {
            if n > 100 && rep % 2 == 1 && !a.thorough { continue }
            let ops = mk_ops(&mut r, n - 1, 5 + rep % 2);
            add_chain(&mut cs, ops, "random-orders", rep + n);
        }
    }
    cs
}

// ------------------------------------------------------------------------------------------------
fn lit_rich_cfg(tb: &[OpSpec]) -> GenCfg { let mut c = GenCfg::default_for(tb); c.lit_bias = 8; c.max_chain = 6; c }

fn tree_setup(r: &mut Rng, tb: &[OpSpec], cfg: &GenCfg, maxsize: usize, rc: &RenderCfg) -> (Chain, String, Vec<String>, Term) {
    let mut size = 1 + r.below(maxsize) as i32;
    let ch = gen_chain(r, tb, cfg, 0, &mut size);
    let text = render(&ch, tb, r, rc);
    let vars = sorted_vars(&ch);
    let want = ref_chain(&ch, tb, &vars);
    (ch, text, vars, want)
}
fn add_expect(cs: &mut CaseSet, tb: &[OpSpec], prog: Prog, qs: Vec<Query>, note: String, family: &'static str, size: usize, want: &Term, vars: &[String]) -> usize {
    let (tb2, want2, vars2, qs2) = (tb.to_vec(), want.clone(), vars.to_vec(), qs.clone());
    cs.add(tb, prog, qs, note, family, size, move |obs| expect_value(&tb2, &want2, &vars2, obs, &qs2))
}

/// a wide single level: 129..200 operands, mostly one low-priority operator, tighter operators at and around the 64-operand
/// boundaries and at random places; `lits` puts literals on some operands (pairs of them fold)
fn wide_level(r: &mut Rng, i: usize, lits: bool) -> Option<(Vec<OpSpec>, Chain)> {
    let tb = std_tables()[if i % 3 == 2 { 1 } else { 0 }].clone();
    let sym: Vec<usize> = (0..tb.len()).filter(|k| tb[*k].bin.is_some() && !is_alpha_name(&tb[*k].repr)).collect();
    let lo = *sym.iter().min_by_key(|k| tb[**k].bin.unwrap().0).unwrap();
    let tight: Vec<usize> = sym.iter().copied().filter(|k| tb[*k].bin.unwrap().0 > tb[lo].bin.unwrap().0).collect();
    if tight.is_empty() { return None }
    let m = if i % 4 == 3 { 140 + r.below(61) } else { 129 + r.below(72) };
    let mut ops: Vec<usize> = vec![lo; m - 1];
    for b in [63usize, 127, 191] { for d in 0..3 { let j = b + d; if j >= 1 && j - 1 + (i % 3) < m - 1 && r.chance(2, 3) { ops[j - 1 + (i % 3) - if j - 1 + (i % 3) > 0 && i % 2 == 0 { 1 } else { 0 }] = *r.pick(&tight); } } }
    for _ in 0..r.below(6) { let j = r.below(m - 1); ops[j] = *r.pick(&tight); }
    // a run of tight operators that crosses a boundary
    if i % 4 == 1 { let start = [60usize, 120, 125][r.below(3)]; for j in start..(start + 3 + r.below(8)).min(m - 1) { ops[j] = *r.pick(&tight); } }
    // the top operand of the first word consumed early (a tight operator in front of operand 63), and behind the second
    // boundary a tight operator whose left operand is the result of a run of the tightest operator that reaches back into
    // the second word: looking for that operand crosses a word boundary and ends inside a partly consumed word
    if i % 4 == 3 && m >= 140 {
        let tl = *tight.iter().min_by_key(|k| tb[**k].bin.unwrap().0).unwrap(); let th = *tight.iter().max_by_key(|k| tb[**k].bin.unwrap().0).unwrap();
        ops[62] = tl;
        let start = 100 + r.below(27); let end = 128 + r.below(6);
        for j in start..end { ops[j] = th; }
        ops[end] = tl;
    }
    let atom = |r: &mut Rng, j: usize| if lits && r.chance(1, 3) { Atom::Lit(format!("{}", 1 + j % 3)) } else { Atom::Var(format!("x{:03}", j % if lits { 7 } else { 1000 })) };
    let rest: Vec<(usize, Atom)> = (1..m).map(|j| (ops[j - 1], atom(r, j))).collect();
    Some((tb, Chain { first: Box::new(Atom::Var("x000".into())), rest }))
}

/// C02: folded / unfolded / re-folded flat and deep forms of literal-rich trees
pub fn c02(a: &Args) -> CaseSet {
    let mut cs = CaseSet::default();
    let mut r = Rng::new(a.seed ^ 0x02);
    let t0 = std_tables()[0].clone();
    for text in ["x^2/4/2", "x*2-1-3", "x*8+2+3", "1.0 * 3 * 2 * x / 2 / 3", "x / 2 / 3", "x * 2 / 3", "2*3*x*4*5", "1-2-3-x", "x-1-2-3", "2^3^x", "x+1+2*3+4", "sin(2+3)*x+1+2", "-(2+3)+x+4+5", "x*0.5*2+3+4-1-2", "x/y/2/4*2*4"] {
        for prog in [Prog::Flat(text.into()), Prog::FlatWo(text.into()), Prog::Deep(text.into()), Prog::Compile(Box::new(Prog::Compile(Box::new(Prog::FlatWo(text.into()))))), Prog::ToFlat(Box::new(Prog::Deep(text.into())))] {
            let nv = if text.contains('y') { 2 } else { 1 };
            cs.add(&t0, prog, vec![Query::Vars, Query::Eval(nv), Query::Unparse], format!("corpus: {text}"), "corpus", 4, |_| (None, String::new()));
        }
    }
    for i in 0..a.n {
        let tb = pick_table(&mut r, a);
        let cfg = lit_rich_cfg(&tb);
        let (ch, text, vars, want) = tree_setup(&mut r, &tb, &cfg, if a.thorough && i % 8 == 0 { 60 } else { 12 }, &RenderCfg::plain());
        let nv = vars.len();
        let progs = [Prog::Flat(text.clone()), Prog::FlatWo(text.clone()), Prog::Deep(text.clone()),
                     Prog::Compile(Box::new(Prog::Compile(Box::new(Prog::FlatWo(text.clone()))))), Prog::Compile(Box::new(Prog::Flat(text.clone()))),
                     Prog::ToFlat(Box::new(Prog::Deep(text.clone()))), Prog::ToDeep(Box::new(Prog::FlatWo(text.clone())))];
        let pick = [i % 7, (i / 7 + 2) % 7, (i + 4) % 7];
        for k in pick {
            // the flat forms also through the consuming evaluation (eval_vec): unfolded literals still carry their unary operators
            let qs = if k == 2 || k == 6 { vec![Query::Vars, Query::Eval(nv), Query::Unparse] } else { vec![Query::Vars, Query::Eval(nv), Query::Unparse, Query::EvalVec(nv)] };
            add_expect(&mut cs, &tb, progs[k].clone(), qs, text.clone(), "literal-rich-tree", n_operands(&ch), &want, &vars);
        }
    }
    // long levels with folds: more than 64 operators before folding, literal products at the front, at the back and at
    // random places (operator indices 64 apart, one folded and one not)
    {
        let tb = std_tables()[0].clone();
        let plus = (0..tb.len()).find(|k| tb[*k].repr == "+").unwrap(); let mul = (0..tb.len()).find(|k| tb[*k].repr == "*").unwrap();
        let reps = if a.thorough { 6 } else { 2 };
        for rep in 0..reps {
            for &nvars in &[61usize, 63, 64, 66, 70, 100, 127, 130] {
                for place in 0..4 {
                    // items: variables v000.. and literal products
                    let mut items: Vec<Vec<Atom>> = (0..nvars).map(|i| vec![Atom::Var(format!("v{i:03}"))]).collect();
                    let prod = |k: usize| -> Vec<Atom> { (0..(2 + k % 2)).map(|j| Atom::Lit(format!("{}", 2 + (j + k) % 5))).collect() };
                    match place {
                        0 => items.insert(0, prod(rep)),
                        1 => items.push(prod(rep + 1)),
                        2 => { items.insert(0, prod(rep)); items.push(prod(rep + 1)) }
                        _ => { for q in 0..3 { let pos = r.below(items.len() + 1); items.insert(pos, prod(rep + q)) } }
                    }
                    let mut flat: Vec<(usize, Atom)> = vec![];
                    for (ii, it) in items.iter().enumerate() { for (jj, at) in it.iter().enumerate() { flat.push((if jj == 0 { plus } else { mul }, at.clone())); let _ = ii; } }
                    let first = flat.remove(0).1;
                    let ch = Chain { first: Box::new(first), rest: flat };
                    let text = render(&ch, &tb, &mut r, &RenderCfg::plain());
                    let vars = sorted_vars(&ch); let want = ref_chain(&ch, &tb, &vars); let nv = vars.len();
                    for p in [Prog::Flat(text.clone()), Prog::Compile(Box::new(Prog::Compile(Box::new(Prog::FlatWo(text.clone()))))), Prog::Deep(text.clone())] {
                        add_expect(&mut cs, &tb, p, vec![Query::Vars, Query::Eval(nv)], format!("{} operands, literal products placed {place}", n_operands(&ch)), "long-level-with-folds", n_operands(&ch), &want, &vars);
                    }
                }
            }
        }
        // long levels (21..70 operators) mixing equal-priority non-commutative operators with tighter ones, many literals:
        // the order among equal priorities decides which literals meet
        for i in 0..(if a.thorough { 40 } else { 10 }) {
            let tb = std_tables()[if i % 2 == 0 { 0 } else { 1 }].clone();
            let sym: Vec<usize> = (0..tb.len()).filter(|k| tb[*k].bin.is_some() && !is_alpha_name(&tb[*k].repr)).collect();
            let m = 21 + r.below(50);
            let rest: Vec<(usize, Atom)> = (0..m).map(|j| (*r.pick(&sym), if r.chance(3, 5) { Atom::Lit(format!("{}", 1 + (j * 7 + i) % 9)) } else { Atom::Var(["x", "y", "z"][r.below(3)].to_string()) })).collect();
            let ch = Chain { first: Box::new(Atom::Var("x".into())), rest };
            let text = render(&ch, &tb, &mut r, &RenderCfg::plain());
            let vars = sorted_vars(&ch); let want = ref_chain(&ch, &tb, &vars); let nv = vars.len();
            for p in [Prog::Deep(text.clone()), Prog::Flat(text.clone()), Prog::ToFlat(Box::new(Prog::Deep(text.clone())))] {
                add_expect(&mut cs, &tb, p, vec![Query::Vars, Query::Eval(nv)], text.clone(), "long-mixed-level", m + 1, &want, &vars);
            }
        }
        // a flagged operator between two literals whose nearest looser-or-equal operator on the left is a DIFFERENT operator of
        // the same priority, 30..70 tighter operators away (the search for that left neighbour must not be bounded)
        for (ti, opn) in [(0usize, "max"), (0, "atan2"), (1, "-"), (1, "&")] {
            let tb = std_tables()[ti].clone();
            let ix = |n: &str| tb.iter().position(|o| o.repr == n && o.bin.is_some()).unwrap();
            for k in (if a.thorough { vec![30usize, 31, 32, 33, 34, 48, 64, 65, 70] } else { vec![31usize, 32, 33, 40] }) {
                let mut rest: Vec<(usize, Atom)> = vec![(ix(opn), Atom::Lit("2".into()))];
                for j in 0..k { rest.push((ix("*"), if j % 7 == 3 { Atom::Var("y".into()) } else { Atom::Lit("1".into()) })); }
                rest.push((ix("+"), Atom::Lit("3".into())));
                let ch = Chain { first: Box::new(Atom::Var("x".into())), rest };
                let text = render(&ch, &tb, &mut r, &RenderCfg::plain());
                let vars = sorted_vars(&ch); let want = ref_chain(&ch, &tb, &vars); let nv = vars.len();
                for p in [Prog::Flat(text.clone()), Prog::FlatWo(text.clone()), Prog::Compile(Box::new(Prog::FlatWo(text.clone()))), Prog::Deep(text.clone())] {
                    add_expect(&mut cs, &tb, p, vec![Query::Vars, Query::Eval(nv)], format!("x {opn} 2 *..({k} factors)..* + 3"), "flagged-operator-far-from-its-left-neighbour", k + 3, &want, &vars);
                }
            }
        }
        // wide levels with literals (129..200 operands: several machine words of operands; folding shortens the folded
        // form, the unfolded one keeps every operand)
        for i in 0..(if a.thorough { 32 } else { 8 }) {
            let Some((tb, ch)) = wide_level(&mut r, i, true) else { continue };
            let text = render(&ch, &tb, &mut r, &RenderCfg::plain());
            let vars = sorted_vars(&ch); let want = ref_chain(&ch, &tb, &vars); let nv = vars.len();
            for p in [Prog::FlatWo(text.clone()), Prog::Flat(text.clone()), Prog::Compile(Box::new(Prog::FlatWo(text.clone()))), Prog::Deep(text.clone())] {
                add_expect(&mut cs, &tb, p, vec![Query::Vars, Query::Eval(nv)], format!("{} operands: {}...", n_operands(&ch), text.chars().take(30).collect::<String>()), "wide-level-with-literals", n_operands(&ch), &want, &vars);
            }
        }
    }
    cs
}

/// token soup over a table: mostly passes the pair rules
fn soup(r: &mut Rng, tb: &[OpSpec], len: usize) -> String {
    let mut toks: Vec<String> = vec![];
    for _ in 0..len {
        let c = r.below(12);
        toks.push(match c { 0 | 1 => ["1", "2", "3.5"][r.below(3)].to_string(), 2 | 3 => ["x", "y", "z"][r.below(3)].to_string(), 4 => "(".into(), 5 => ")".into(), 6 => ",".into(), _ => tb[r.below(tb.len())].repr.clone() });
    }
    toks.join(" ")
}

/// Classification of a sloppy text for known finding F12.  Light lexer (the text has been accepted by both parsers, so it
/// lexes): parentheses, operator names by longest match, numbers, names.  True iff some parenthesis level starts with a
/// binary-only operator (prefix notation `op a b`) and, between that operator and the first pair of directly adjacent
/// operands of the level, has a parenthesis group that contains an operator in binary position.
#[derive(Clone, Debug, PartialEq)]
enum LTok { Open, Close, Op(usize), Leaf }
fn light_lex(text: &str, tb: &[OpSpec]) -> Vec<LTok> {
    let cs: Vec<char> = text.chars().collect();
    let mut i = 0; let mut out = vec![];
    while i < cs.len() {
        let c = cs[i];
        if c.is_whitespace() || c == ',' { i += 1; continue }
        if c == '(' { out.push(LTok::Open); i += 1; continue }
        if c == ')' { out.push(LTok::Close); i += 1; continue }
        if c == '{' { while i < cs.len() && cs[i] != '}' { i += 1 } i += 1; out.push(LTok::Leaf); continue }
        if c.is_ascii_digit() || (c == '.' && i + 1 < cs.len() && cs[i + 1].is_ascii_digit()) {
            while i < cs.len() && (cs[i].is_ascii_digit() || cs[i] == '.') { i += 1 }
            out.push(LTok::Leaf); continue
        }
        let rest: String = cs[i..].iter().collect();
        let mut best: Option<usize> = None;
        for (k, o) in tb.iter().enumerate() {
            if !o.repr.is_empty() && rest.starts_with(&o.repr) && best.map(|b| tb[b].repr.len() < o.repr.len()).unwrap_or(true) {
                // an alphabetic name must not continue as an identifier
                let n = o.repr.chars().count();
                let cont = is_alpha_name(&o.repr) && i + n < cs.len() && (cs[i + n].is_alphanumeric() || cs[i + n] == '_');
                if !cont { best = Some(k) }
            }
        }
        if let Some(k) = best { out.push(if tb[k].constant { LTok::Leaf } else { LTok::Op(k) }); i += tb[k].repr.chars().count(); continue }
        if c.is_alphabetic() || c == '_' { while i < cs.len() && (cs[i].is_alphanumeric() || cs[i] == '_') { i += 1 } out.push(LTok::Leaf); continue }
        i += 1;
    }
    out
}
pub fn prefix_operator_over_group(text: &str, tb: &[OpSpec]) -> bool {
    let toks = light_lex(text, tb);
    // items of one level: (is_operand, is_group, group_has_binary_operator, op index)
    fn level(toks: &[LTok], pos: &mut usize, tb: &[OpSpec], bad: &mut bool) -> bool {
        // returns whether the level contains an operator in binary position (at any depth)
        let mut items: Vec<(bool, bool, bool, Option<usize>)> = vec![];
        let mut has_bin = false;
        while *pos < toks.len() {
            match &toks[*pos] {
                LTok::Close => { *pos += 1; break }
                LTok::Open => { *pos += 1; let inner = level(toks, pos, tb, bad); has_bin |= inner; items.push((true, true, inner, None)); }
                LTok::Leaf => { *pos += 1; items.push((true, false, false, None)); }
                LTok::Op(k) => {
                    *pos += 1;
                    let after_operand = items.last().map(|it| it.0).unwrap_or(false);
                    if tb[*k].bin.is_some() && after_operand { has_bin = true }
                    items.push((false, false, false, Some(*k)));
                }
            }
        }
        if let Some((false, _, _, Some(k))) = items.first() {
            if tb[*k].bin.is_some() && !tb[*k].unary {
                // the first pair of directly adjacent operands; both must be plain operands (`)(` and `) x` are other defects)
                if let Some(j) = (0..items.len().saturating_sub(1)).find(|i| items[*i].0 && items[*i + 1].0) {
                    if !items[j].1 && !items[j + 1].1 && items[..j].iter().any(|it| it.1 && it.2) { *bad = true }
                }
            }
        }
        has_bin
    }
    let mut pos = 0; let mut bad = false;
    while pos < toks.len() { level(&toks, &mut pos, tb, &mut bad); }
    bad
}
/// C03: conversion histories, operator listings, and sloppy strings accepted by both parsers
pub fn c03(a: &Args) -> CaseSet {
    let mut cs = CaseSet::default();
    let mut r = Rng::new(a.seed ^ 0x03);
    let t0 = std_tables()[0].clone();
    for text in ["* (a+b)(c+d)", "/ 1 2 * 3", "+ 1", "- - x", "(x)", "((x+1))", "sin(y+x*2+3)", "* 2 3", "x * / 2", "2 (3)", "-(-(x))", "sin sin (x) y"] {
        for prog in [Prog::Flat(text.into()), Prog::Deep(text.into()), Prog::ToFlat(Box::new(Prog::Deep(text.into()))), Prog::ToDeep(Box::new(Prog::Flat(text.into())))] {
            cs.add(&t0, prog, vec![Query::Vars, Query::Relaxed(4), Query::OpReprs], format!("corpus: {text}"), "corpus", 3, |_| (None, String::new()));
        }
    }
    for i in 0..a.n {
        let tb = pick_table(&mut r, a);
        let cfg = GenCfg::default_for(&tb);
        let rc = RenderCfg { spaces: false, braces: r.chance(1, 3), redundant_parens: r.chance(1, 3), call_space: false };
        let (ch, text, vars, want) = tree_setup(&mut r, &tb, &cfg, if a.thorough && i % 8 == 0 { 50 } else { 12 }, &rc);
        let nv = vars.len();
        // a random conversion history of length 0..6
        let mut p = match r.below(3) { 0 => Prog::Flat(text.clone()), 1 => Prog::FlatWo(text.clone()), _ => Prog::Deep(text.clone()) };
        for _ in 0..r.below(7) { p = if r.chance(1, 2) { Prog::ToDeep(Box::new(p)) } else { Prog::ToFlat(Box::new(p)) }; }
        add_expect(&mut cs, &tb, p, vec![Query::Vars, Query::Eval(nv), Query::BinReprs, Query::UnReprs, Query::OpReprs], text.clone(), "conversion-history", n_operands(&ch), &want, &vars);
    }
    // long single levels: more than 20 operators on one parenthesis level with few distinct priorities
    for i in 0..(a.n / 8).max(4) {
        let tb = std_tables()[if i % 2 == 0 { 1 } else { 3 }].clone();
        let bins: Vec<usize> = (0..tb.len()).filter(|k| tb[*k].bin.is_some() && !is_alpha_name(&tb[*k].repr)).collect();
        let m = 21 + r.below(if a.thorough { 60 } else { 25 });
        let rest: Vec<(usize, Atom)> = (0..m).map(|j| (*r.pick(&bins), if r.chance(1, 3) { Atom::Lit(format!("{}", j % 9 + 1)) } else { Atom::Var(["x", "y", "z"][r.below(3)].to_string()) })).collect();
        let ch = Chain { first: Box::new(Atom::Var("x".into())), rest };
        let text = render(&ch, &tb, &mut r, &RenderCfg::plain());
        let vars = sorted_vars(&ch); let want = ref_chain(&ch, &tb, &vars); let nv = vars.len();
        for p in [Prog::Deep(text.clone()), Prog::ToFlat(Box::new(Prog::Deep(text.clone()))), Prog::Flat(text.clone()), Prog::ToDeep(Box::new(Prog::FlatWo(text.clone())))] {
            add_expect(&mut cs, &tb, p, vec![Query::Vars, Query::Eval(nv)], text.clone(), "long-level", m + 1, &want, &vars);
        }
    }
    // wide levels (129..200 operands on one level), flat, deep and converted
    for i in 0..(if a.thorough { 32 } else { 8 }) {
        let Some((tb, ch)) = wide_level(&mut r, i, i % 2 == 0) else { continue };
        let text = render(&ch, &tb, &mut r, &RenderCfg::plain());
        let vars = sorted_vars(&ch); let want = ref_chain(&ch, &tb, &vars); let nv = vars.len();
        for p in [Prog::Deep(text.clone()), Prog::Flat(text.clone()), Prog::FlatWo(text.clone()), Prog::ToFlat(Box::new(Prog::Deep(text.clone()))), Prog::ToDeep(Box::new(Prog::FlatWo(text.clone())))] {
            add_expect(&mut cs, &tb, p, vec![Query::Vars, Query::Eval(nv)], format!("{} operands: {}...", n_operands(&ch), text.chars().take(30).collect::<String>()), "wide-level", n_operands(&ch), &want, &vars);
        }
    }
    // a unary operator over a group that ends `... o T o literal`, o flagged commutative, T ending in a literal bound by a
    // tighter operator: deep parse, then conversions (where the unary operators of a level are re-attached)
    for ti in 0..2 {
        let tb = std_tables()[if ti == 0 { 0 } else { 1 }].clone();
        let uns: Vec<usize> = (0..tb.len()).filter(|k| tb[*k].unary).take(3).collect();
        let comm: Vec<usize> = (0..tb.len()).filter(|k| tb[*k].bin.map(|b| b.1).unwrap_or(false) && !is_alpha_name(&tb[*k].repr)).collect();
        for &u in &uns { for &o in &comm {
            let po = tb[o].bin.unwrap().0;
            let tight: Vec<usize> = (0..tb.len()).filter(|k| tb[*k].bin.map(|b| b.0 > po).unwrap_or(false) && !is_alpha_name(&tb[*k].repr)).take(3).collect();
            for &h in &tight {
                let v = |n: &str| Atom::Var(n.to_string()); let l = |n: &str| Atom::Lit(n.to_string());
                let shapes: Vec<Vec<(usize, Atom)>> = vec![
                    vec![(o, v("y")), (h, l("2")), (o, l("3"))],
                    vec![(h, l("2")), (o, v("y")), (h, l("2")), (o, l("1"))],
                    vec![(o, v("y")), (h, l("2")), (o, v("z")), (h, l("3")), (o, l("4"))],
                    vec![(o, l("5")), (h, l("2")), (o, l("3"))],
                ];
                for rest in shapes {
                    let inner = Chain { first: Box::new(v("x")), rest };
                    let ch = Chain { first: Box::new(Atom::Group(vec![u], inner)), rest: vec![] };
                    let text = render(&ch, &tb, &mut r, &RenderCfg::plain());
                    let vars = sorted_vars(&ch); let want = ref_chain(&ch, &tb, &vars); let nv = vars.len();
                    for p in [Prog::ToFlat(Box::new(Prog::Deep(text.clone()))), Prog::ToDeep(Box::new(Prog::ToFlat(Box::new(Prog::Deep(text.clone()))))), Prog::Deep(text.clone()), Prog::Flat(text.clone())] {
                        add_expect(&mut cs, &tb, p, vec![Query::Vars, Query::Eval(nv)], text.clone(), "unary-over-group-ending-in-literal", n_operands(&ch), &want, &vars);
                    }
                }
            }
        } }
    }
    // sloppy strings: only the agreement of the two parsers is the oracle
    let n_prefix = (a.n / 2).max(40);
    for i in 0..a.n + n_prefix {
        let tb = if i % 2 == 0 { t0.clone() } else { pick_table(&mut r, a) };
        let text = if i >= a.n {
            // prefix-operator strings: one binary-only operator too many in front of a level, one missing between two
            // bare leaves later in the level:  o0 (A o)^k L L' (p B)^m, optionally inside a group of a larger text
            let binonly: Vec<usize> = (0..tb.len()).filter(|k| tb[*k].bin.is_some() && !tb[*k].unary && !tb[*k].constant).collect();
            let anybin: Vec<usize> = (0..tb.len()).filter(|k| tb[*k].bin.is_some()).collect();
            if binonly.is_empty() { continue }
            let cfg = GenCfg { max_depth: 2, max_chain: 2, ..GenCfg::default_for(&tb) };
            let rc = RenderCfg { spaces: true, braces: false, redundant_parens: false, call_space: false };
            let atom_text = |r: &mut Rng| { let mut sz = 3; let at = gen_atom(r, &tb, &cfg, 1, &mut sz); render(&Chain { first: Box::new(at), rest: vec![] }, &tb, r, &rc) };
            let leaf = |r: &mut Rng| if r.chance(1, 2) { ["1", "2", "3.5", "7"][r.below(4)].to_string() } else { ["x", "y", "z"][r.below(3)].to_string() };
            let mut toks: Vec<String> = vec![tb[*r.pick(&binonly)].repr.clone()];
            for _ in 0..r.below(3) { toks.push(atom_text(&mut r)); toks.push(tb[*r.pick(&anybin)].repr.clone()); }
            if r.chance(1, 5) { toks.push(atom_text(&mut r)); toks.push(atom_text(&mut r)); } else { toks.push(leaf(&mut r)); toks.push(leaf(&mut r)); }
            for _ in 0..r.below(3) { toks.push(tb[*r.pick(&anybin)].repr.clone()); toks.push(atom_text(&mut r)); }
            let level = toks.join(" ");
            match r.below(4) {
                0 => level,
                1 => format!("( {level} )"),
                2 => format!("( {level} ) {} {}", tb[*r.pick(&anybin)].repr, leaf(&mut r)),
                _ => format!("{} {} ( {level} )", leaf(&mut r), tb[*r.pick(&anybin)].repr),
            }
        } else if i % 3 == 0 {
            // damage a well formed text by deleting one token-ish character
            let cfg = GenCfg::default_for(&tb);
            let (_, t, _, _) = tree_setup(&mut r, &tb, &cfg, 8, &RenderCfg { spaces: true, braces: false, redundant_parens: true, call_space: false });
            let cs_: Vec<char> = t.chars().collect(); let k = r.below(cs_.len()); cs_.iter().enumerate().filter(|(j, _)| *j != k).map(|(_, c)| *c).collect()
        } else { let len = 1 + r.below(7); soup(&mut r, &tb, len) };
        let qs = vec![Query::Vars, Query::Relaxed(3), Query::Eval(3), Query::Eval(2), Query::Eval(1), Query::Eval(0)];
        let i1 = cs.add(&tb, Prog::Flat(text.clone()), qs.clone(), text.clone(), "sloppy-string", 2, |_| (None, String::new()));
        let i2 = cs.add(&tb, Prog::Deep(text.clone()), qs.clone(), text.clone(), "sloppy-string", 2, |_| (None, String::new()));
        let i3 = cs.add(&tb, Prog::ToFlat(Box::new(Prog::Deep(text.clone()))), qs.clone(), text.clone(), "sloppy-string", 2, |_| (None, String::new()));
        let accepted = |o: &Vec<Obs>| matches!(o[0], Obs::S(_));
        if accepted(&cs.cases[i1].obs) && accepted(&cs.cases[i2].obs) {
            let norm = |o: &Obs| match o { Obs::T(t) => Obs::T(anf(t, &tb)), x => x.clone() };
            let same = cs.cases[i1].obs.iter().zip(&cs.cases[i2].obs).all(|(x, y)| norm(x) == norm(y)) && cs.cases[i3].obs.iter().zip(&cs.cases[i2].obs).all(|(x, y)| norm(x) == norm(y));
            let note = if same { String::new() } else { format!("{}flat {:?} vs deep {:?} vs deep->flat {:?}", if prefix_operator_over_group(&text, &tb) { "prefix-operator-over-group: " } else { "" }, cs.cases[i1].obs.iter().map(pretty_obs).collect::<Vec<_>>(), cs.cases[i2].obs.iter().map(pretty_obs).collect::<Vec<_>>(), cs.cases[i3].obs.iter().map(pretty_obs).collect::<Vec<_>>()) };
            for k in [i1, i2, i3] { cs.cases[k].oracle_ok = Some(same); cs.cases[k].oracle_note = note.clone(); cs.cases[k].family = "sloppy-both-accept"; }
        }
    }
    cs
}

/// C04: variable names, order, binding, arity
pub fn c04(a: &Args) -> CaseSet {
    let mut cs = CaseSet::default();
    let mut r = Rng::new(a.seed ^ 0x04);
    let tb = std_tables()[0].clone();
    let bare = ["x","X","y","Y","_","_a","a_","a1","A1","alpha","α","β","Ω","ω","xα","αx","zz","Z","sinx","cosy","e1","PI2","x_1","x_10","x_2","ς","Αα","b","c","d","f","g","h","k","m","n","p","q"];
    let braced = [" x","x ","1","1x","+","a+b","sin","(","{","👍","x y","","  ","E","π","a,b","9.5","-","é","日本"];
    for _ in 0..a.n {
        let k = 1 + r.below(if a.thorough { 40 } else { 22 });
        let mut names: Vec<(String, String)> = vec![];
        for _ in 0..k {
            if r.chance(1, 3) { let b = braced[r.below(braced.len())]; names.push((b.to_string(), format!("{{{b}}}"))); }
            else { let b = bare[r.below(bare.len())]; names.push((b.to_string(), if r.chance(1, 3) { format!("{{{b}}}") } else { b.to_string() })); }
        }
        let m = 1 + r.below(30);
        let mut text = String::new(); let mut occ: Vec<String> = vec![];
        for i in 0..m { let (nm, rend) = &names[r.below(names.len())]; if i > 0 { text.push_str([" + ", " * ", " - ", "/"][r.below(4)]); } text.push_str(rend); occ.push(nm.clone()); }
        let mut want_vars = occ.clone(); want_vars.sort(); want_vars.dedup();
        let n = want_vars.len();
        // reference value through the tree of the same text
        let ops_in: Vec<usize> = { let mut v = vec![]; let mut rest = text.as_str(); while let Some(p) = rest.find(|c| "+*-/".contains(c)) { let c = rest[p..].chars().next().unwrap();
            // operators inside braces do not count
            let before = &rest[..p]; let open = before.matches('{').count() > before.matches('}').count();
            if !open { v.push("+-*/".find(c).unwrap()); }
            rest = &rest[p + c.len_utf8()..]; } v };
        let _ = ops_in;
        let prog = match r.below(3) { 0 => Prog::Flat(text.clone()), 1 => Prog::Deep(text.clone()), _ => Prog::ToDeep(Box::new(Prog::FlatWo(text.clone()))) };
        let mut qs = vec![Query::Vars];
        for len in 0..n + 3 { qs.push(Query::Eval(len)); qs.push(Query::Relaxed(len)); qs.push(Query::EvalVec(len)); }
        let (wv, occ2) = (want_vars.clone(), occ.clone());
        let qs2 = qs.clone();
        cs.add(&tb, prog, qs, text.clone(), "names-and-arity", m, move |obs| {
            // oracle: names sorted+distinct; arity pattern; the variable leaves of the value, in text order, are the indices of the names
            fn leaves(t: &Term, out: &mut Vec<usize>) { match t { Term::Var(i) => out.push(*i), Term::Un(_, a) => leaves(a, out), Term::Bin(_, a, b) => { leaves(a, out); leaves(b, out) } _ => () } }
            let want_leaves: Vec<usize> = occ2.iter().map(|o| wv.iter().position(|v| v == o).unwrap()).collect();
            for (q, o) in qs2.iter().zip(obs) {
                let bad = match (q, o) {
                    (Query::Vars, Obs::S(v)) => *v != wv,
                    (Query::Vars, _) => true,
                    (Query::Eval(l), Obs::T(t)) | (Query::Relaxed(l), Obs::T(t)) => { let mut lv = vec![]; leaves(t, &mut lv); lv != want_leaves || (matches!(q, Query::Eval(_)) && *l != wv.len()) || *l < wv.len() }
                    (Query::EvalVec(l), Obs::TC(t, _)) => { let mut lv = vec![]; leaves(t, &mut lv); lv != want_leaves || *l != wv.len() }
                    (Query::Eval(l), Obs::E) | (Query::EvalVec(l), Obs::E) => *l == wv.len(),
                    (Query::Relaxed(l), Obs::E) => *l >= wv.len(),
                    (_, Obs::Skip) => false,
                    _ => true,
                };
                if bad { return (Some(false), format!("{q:?} -> {}", pretty_obs(o))) }
            }
            (Some(true), String::new())
        });
    }
    // derived expressions: neutral elements that still carry names (C10's family; here for the variable lists and arities)
    { let ftb = float_table(); add_named_neutral(&mut cs, &ftb); }
    // derived expressions: substitutions that leave the variable list as it was (a variable inside a group or a call
    // replaced by an expression over names already present): the n-th value is still bound to the n-th name everywhere
    for i in 0..(if a.thorough { 120 } else { 40 }) {
        let tb = std_tables()[0].clone();
        let mut cfg = GenCfg::default_for(&tb); cfg.lit_bias = 2; cfg.vars = ["a", "d", "x", "y", "ω"].iter().map(|s| s.to_string()).collect();
        let (e, te, vs, _) = tree_setup(&mut r, &tb, &cfg, 8, &RenderCfg::plain());
        if vs.len() < 2 { continue }
        let v = vs[r.below(vs.len())].clone(); let w = vs[r.below(vs.len())].clone();
        let star = (0..tb.len()).find(|k| tb[*k].repr == "*").unwrap(); let plus = (0..tb.len()).find(|k| tb[*k].repr == "+").unwrap();
        let rep = match i % 4 {
            0 => Chain { first: Box::new(Atom::Lit("3".into())), rest: vec![(star, Atom::Var(v.clone()))] },
            1 => Chain { first: Box::new(Atom::Var(v.clone())), rest: vec![(star, Atom::Var(v.clone()))] },
            2 => Chain { first: Box::new(Atom::Var(v.clone())), rest: vec![(plus, Atom::Var(w.clone()))] },
            _ => Chain { first: Box::new(Atom::Var(w.clone())), rest: vec![(star, Atom::Var(v.clone())), (plus, Atom::Lit("1".into()))] },
        };
        let rt = render(&rep, &tb, &mut r, &RenderCfg::plain());
        let mk = |t: String, k: usize| match k % 3 { 0 => Prog::Deep(t), 1 => Prog::Flat(t), _ => Prog::FlatWo(t) };
        let map = vec![(v.clone(), rep.clone())];
        let want_chain = subs_chain(&e, &map);
        let wv = sorted_vars(&want_chain); let want = ref_chain(&want_chain, &tb, &wv); let nv = wv.len();
        let prog = Prog::Subs(Box::new(mk(te.clone(), i)), vec![(v.clone(), mk(rt.clone(), i / 3))]);
        add_expect(&mut cs, &tb, prog, vec![Query::Vars, Query::Eval(nv)], format!("{te} with {v}->{rt}"), "subs-keeps-the-names", n_operands(&want_chain), &want, &wv);
    }
    // a derivative that collapses to one variable (or one function of it) keeps the names of its antiderivative, and so does
    // everything derived from it
    {
        let ftb = float_table();
        let ix = |n: &str| ftb.iter().position(|o| o.repr == n).unwrap();
        let ixu = |n: &str| ftb.iter().position(|o| o.repr == n && o.unary).unwrap();
        let xy = vec!["x".to_string(), "y".to_string()];
        let d = Prog::Partial(vec![0], 0, Box::new(Prog::Flat("x*y".into())));          // = y, lists [x, y]
        let ds = Prog::Partial(vec![0], 0, Box::new(Prog::Flat("x*sin(y)".into())));    // = sin(y), lists [x, y]
        add_expect(&mut cs, &ftb, Prog::Un("-".into(), Box::new(d.clone())), vec![Query::Vars, Query::Eval(2)], "-(d/dx x*y)".into(), "collapsed-derivative-keeps-its-names", 3, &tun(ixu("-"), Term::Var(1)), &xy);
        add_expect(&mut cs, &ftb, Prog::Un("cos".into(), Box::new(ds.clone())), vec![Query::Vars, Query::Eval(2)], "cos(d/dx x*sin(y))".into(), "collapsed-derivative-keeps-its-names", 3, &tun(ixu("cos"), tun(ixu("sin"), Term::Var(1))), &xy);
        add_expect(&mut cs, &ftb, Prog::Bin("+".into(), Box::new(d.clone()), Box::new(Prog::Flat("z".into()))), vec![Query::Vars, Query::Eval(3)], "(d/dx x*y) + z".into(), "collapsed-derivative-keeps-its-names", 3, &tbin(ix("+"), Term::Var(1), Term::Var(2)), &vec!["x".to_string(), "y".to_string(), "z".to_string()]);
        add_expect(&mut cs, &ftb, Prog::ToFlat(Box::new(Prog::ToDeep(Box::new(d.clone())))), vec![Query::Vars, Query::Eval(2), Query::EvalVec(2)], "d/dx x*y converted to deep and back".into(), "collapsed-derivative-keeps-its-names", 3, &Term::Var(1), &xy);
        add_expect(&mut cs, &ftb, Prog::Subs(Box::new(ds.clone()), vec![("y".to_string(), Prog::Flat("x+y".into()))]), vec![Query::Vars, Query::Eval(2)], "d/dx x*sin(y) with y -> x+y".into(), "collapsed-derivative-keeps-its-names", 3, &tun(ixu("sin"), tbin(ix("+"), Term::Var(0), Term::Var(1))), &xy);
    }
    // derived expressions over MANY names: two operands with interleaved variable lists whose union exceeds every inline
    // buffer (16), combined by name and by the overloaded operators, then used: the sorted union, the n-th value for the n-th name
    for (na, nb, shape) in [(9usize, 9usize, 0usize), (15, 2, 1), (2, 15, 2), (10, 10, 3), (17, 3, 1), (8, 9, 0), (12, 12, 2)] {
        let name = |k: usize| format!("v{k:02}");
        // interleave: shape 0 alternates, 1 puts the second operand's names at both ends, 2 the first operand's, 3 blocks of two
        let (mut an, mut bn): (Vec<String>, Vec<String>) = (vec![], vec![]);
        let total = na + nb; let mut k = 0;
        while an.len() < na || bn.len() < nb { let to_a = match shape { 0 => k % 2 == 0, 1 => !(k == 0 || k + 1 >= total), 2 => k == 0 || k + 1 >= total || bn.len() >= nb, _ => (k / 2) % 2 == 0 };
            if (to_a && an.len() < na) || bn.len() >= nb { an.push(name(k)); } else { bn.push(name(k)); } k += 1; }
        let ta = an.join("+"); let tbt = bn.join("*");
        let ix = |n: &str| tb.iter().position(|o| o.repr == n).unwrap();
        let mut vars: Vec<String> = an.iter().chain(bn.iter()).cloned().collect(); vars.sort(); vars.dedup();
        let pos = |n: &String| Term::Var(vars.iter().position(|w| w == n).unwrap());
        let term_a = an.iter().skip(1).fold(pos(&an[0]), |acc, n| tbin(ix("+"), acc, pos(n)));
        let term_b = bn.iter().skip(1).fold(pos(&bn[0]), |acc, n| tbin(ix("*"), acc, pos(n)));
        for (oi, opn) in ["-", "/", "max"].iter().enumerate() {
            let want = tbin(ix(opn), term_a.clone(), term_b.clone());
            let progs = vec![Prog::Bin(opn.to_string(), Box::new(Prog::Flat(ta.clone())), Box::new(Prog::Deep(tbt.clone()))), Prog::Bin(opn.to_string(), Box::new(Prog::Deep(ta.clone())), Box::new(Prog::Flat(tbt.clone()))),
                             Prog::ToFlat(Box::new(Prog::Bin(opn.to_string(), Box::new(Prog::Deep(ta.clone())), Box::new(Prog::Deep(tbt.clone())))))];
            for (pi, prog) in progs.into_iter().enumerate() {
                if (oi + pi) % 2 == 1 && !a.thorough { continue }
                let qs = if pi == 2 { vec![Query::Vars, Query::Eval(vars.len()), Query::EvalVec(vars.len())] } else { vec![Query::Vars, Query::Eval(vars.len())] };   // the consuming evaluation exists for flat expressions only
                add_expect(&mut cs, &tb, prog, qs, format!("({na} names) {opn} ({nb} names), interleaved"), "union-of-many-names", na + nb, &want, &vars);
            }
            if oi < 2 { let k = if oi == 0 { 1 } else { 3 };
                let prog = Prog::Arith(k, Box::new(Prog::Deep(ta.clone())), Box::new(Prog::Flat(tbt.clone())));
                add_expect(&mut cs, &tb, prog, vec![Query::Vars, Query::Eval(vars.len())], format!("({na} names) {opn} ({nb} names) by the overloaded operator"), "union-of-many-names", na + nb, &want, &vars); }
        }
    }
    cs
}

/// C07: single-point damages of well-formed texts must be rejected by every parser
pub fn c07(a: &Args) -> CaseSet {
    let mut cs = CaseSet::default();
    let mut r = Rng::new(a.seed ^ 0x07);
    let t0 = std_tables()[0].clone();
    for text in ["max(1, min(2,3)))", "max(1, min(2,3)", "", "   ", "1+", "(1+2", "1+2)", "1 2", "x y", "1+$", "2 (3)", "()", "sin", "1 + * 2", "a12 (1)", "fi.g", "3.4.", "1..2", ")(", "(1)(2)", "1 + (2))(", "1 2 *", "x y /", "2 3 ^", "(1+2) x *", "x 2 atan2", "{a} {b} *"] {
        for prog in [Prog::Flat(text.into()), Prog::FlatWo(text.into()), Prog::Deep(text.into())] {
            cs.add(&t0, prog, vec![Query::Vars], format!("corpus: {text:?}"), "corpus", 2, |obs| (Some(obs[0] == Obs::E), format!("accepted or crashed: {}", pretty_obs(&obs[0]))));
        }
    }
    // a closing parenthesis too many, made up for later, with a comma behind: the call rewrite must not reach back across
    // the place where the parenthesis depth of the text went negative
    for tb in std_tables().iter().take(4) {
        let callable: Vec<String> = tb.iter().filter(|o| o.bin.is_some()).map(|o| o.repr.clone()).take(6).collect();
        let between: Vec<String> = tb.iter().filter(|o| o.bin.is_some() && !is_alpha_name(&o.repr)).map(|o| o.repr.clone()).take(3).collect();
        for f in &callable { for o in &between {
            for t in [format!("{f}(1)){o}((2,3)"), format!("{f}(x)){o}((y,3)"), format!("{f}(1)){o}(((2),3)"), format!("2{o}{f}(1)){o}((2,3)"), format!("({f}(1)){o}((2,3))"), format!("{f}(1)){o}(2){o}((2,3)"), format!("{f}(1))){o}(((2,3)")] {
                for prog in [Prog::Flat(t.clone()), Prog::FlatWo(t.clone()), Prog::Deep(t.clone())] {
                    cs.add(tb, prog, vec![Query::Vars], format!("[paren-depth-negative-before-comma] {t:?}"), "paren-depth-negative-before-comma", 2, |obs| (Some(obs[0] == Obs::E), format!("accepted or crashed: {}", pretty_obs(&obs[0]))));
                }
            }
        } }
    }
    // an operator without an operand in front of a closing parenthesis (a unary-only one, a sign, a binary one), in
    // surroundings where what follows the parenthesis could be taken for the missing operand
    for tb in std_tables().iter().take(4) {
        let unonly: Vec<String> = tb.iter().filter(|o| o.unary && o.bin.is_none()).map(|o| o.repr.clone()).take(4).collect();
        let signs: Vec<String> = tb.iter().filter(|o| o.unary && o.bin.is_some()).map(|o| o.repr.clone()).take(2).collect();
        let binonly: Vec<String> = tb.iter().filter(|o| !o.unary && o.bin.is_some() && !o.constant).map(|o| o.repr.clone()).take(2).collect();
        let follow: Vec<String> = signs.iter().chain(binonly.iter()).cloned().collect();
        for u in unonly.iter().chain(signs.iter()).chain(binonly.iter()) { for f in &follow {
            for t in [format!("({u}){f}2"), format!("1{f}({u}){f}2"), format!("2{f}({u}){f}1"), format!("(({u}){f}y){f}2"), format!("x{f}({u}){f}(4)"), format!("(1{f}({u}){f}2)"), format!("3{f}({f}{u}){f}x"), format!("({u})"), format!("1{f}({u})")] {
                for prog in [Prog::Flat(t.clone()), Prog::FlatWo(t.clone()), Prog::Deep(t.clone())] {
                    cs.add(tb, prog, vec![Query::Vars], format!("[operator-before-closing-paren] {t:?}"), "operator-before-closing-paren", 2, |obs| (Some(obs[0] == Obs::E), format!("accepted or crashed: {}", pretty_obs(&obs[0]))));
                }
            }
        } }
    }
    // an extra operand inside the parentheses of a function applied to a literal, a constant, a variable
    {
        let t0 = std_tables()[0].clone();
        for text in ["sin(2 3)", "sin(2 5+x)", "1+cos(3 y)*4", "-(2 7)", "sin(2 PI*y)^x", "sin(PI 2)", "cos(x 3)", "sin cos(2 3)", "-sin(1 2)+x", "ln(2 x)", "sin((2 3))", "sin(2 (3))", "max(2 3, 1)", "max(1, 2 3)"] {
            for prog in [Prog::Flat(text.into()), Prog::FlatWo(text.into()), Prog::Deep(text.into())] {
                cs.add(&t0, prog, vec![Query::Vars], format!("[extra-operand-in-function-argument] {text:?}"), "extra-operand-in-function-argument", 3, |obs| (Some(obs[0] == Obs::E), format!("accepted or crashed: {}", pretty_obs(&obs[0]))));
            }
        }
    }
    // nested call notation with ONE parenthesis deleted, at every position, and one inserted at every position
    {
        let t0 = std_tables()[0].clone();
        for text in ["max(3, atan2(1,2))", "atan2(max(1,2), max(3,4))", "max(1, max(2, max(3, x)))", "max(max(max(1,2),3),x)", "sin(max(x, atan2(y, 2)))*2", "max(x,(atan2(1,y)))+1", "max((1),atan2((2),(3)))"] {
            let chars: Vec<char> = text.chars().collect();
            for i in 0..chars.len() { if chars[i] == '(' || chars[i] == ')' {
                let t: String = chars[..i].iter().chain(chars[i + 1..].iter()).collect();
                let prog = match i % 3 { 0 => Prog::Flat(t.clone()), 1 => Prog::FlatWo(t.clone()), _ => Prog::Deep(t.clone()) };
                cs.add(&t0, prog, vec![Query::Vars], format!("[delete-paren-in-nested-calls] {t:?} (from {text:?})"), "delete-paren-in-nested-calls", 3, |obs| (Some(obs[0] == Obs::E), format!("accepted or crashed: {}", pretty_obs(&obs[0]))));
            } }
            for i in 0..=chars.len() { for ins in ['(', ')'] {
                let t: String = chars[..i].iter().chain(std::iter::once(&ins)).chain(chars[i..].iter()).collect();
                let prog = match (i + ins as usize) % 3 { 0 => Prog::Flat(t.clone()), 1 => Prog::FlatWo(t.clone()), _ => Prog::Deep(t.clone()) };
                cs.add(&t0, prog, vec![Query::Vars], format!("[insert-paren-in-nested-calls] {t:?} (from {text:?})"), "insert-paren-in-nested-calls", 3, |obs| (Some(obs[0] == Obs::E), format!("accepted or crashed: {}", pretty_obs(&obs[0]))));
            } }
        }
    }
    for _ in 0..a.n {
        let tb = pick_table(&mut r, a);
        let mut cfg = GenCfg::default_for(&tb); cfg.call_form = r.chance(1, 4);
        let rc = RenderCfg { spaces: false, braces: r.chance(1, 4), redundant_parens: r.chance(1, 3), call_space: false };
        let (_, plain, _, _) = tree_setup(&mut r, &tb, &cfg, 10, &rc);
        let chars: Vec<char> = plain.chars().collect();
        let mut damaged: Vec<(&'static str, String)> = vec![];
        let parens: Vec<usize> = chars.iter().enumerate().filter(|(_, c)| **c == '(' || **c == ')').map(|(i, _)| i).collect();
        if !parens.is_empty() { let i = *r.pick(&parens); let mut t: String = chars[..i].iter().collect(); t.extend(chars[i + 1..].iter()); damaged.push(("delete-paren", t)); }
        // insert a parenthesis at a token boundary (never inside a {braced} name)
        let boundaries: Vec<usize> = (0..=chars.len()).filter(|&p| {
            let before: String = chars[..p].iter().collect(); before.matches('{').count() == before.matches('}').count()
            && !(p > 0 && p < chars.len() && (chars[p - 1].is_alphanumeric() || chars[p - 1] == '.' || chars[p-1] == '_') && (chars[p].is_alphanumeric() || chars[p] == '.' || chars[p] == '_'))
            && !(p > 0 && p < chars.len() && !chars[p-1].is_alphanumeric() && !chars[p].is_alphanumeric() && !" (){},".contains(chars[p-1]) && !" (){},".contains(chars[p]))
        }).collect();
        let pos = *r.pick(&boundaries);
        for ins in ["(", ")"] { let mut t: String = chars[..pos].iter().collect(); t.push_str(ins); t.extend(chars[pos..].iter()); damaged.push(("insert-paren", t)); }
        for ins in ["\\", "$", "?", "\u{7}", "»", "\t", "\n", "\u{a0}", "\u{2003}", "\u{3000}", "\u{85}"] { let mut t: String = chars[..pos].iter().collect(); t.push_str(ins); t.extend(chars[pos..].iter()); damaged.push(("insert-illegal-char", t)); }
        // characters just outside the identifier and digit ranges (and letters, digits, marks of other scripts), at ANY
        // position outside braces: directly behind a name, inside a number, inside an operator name
        {
            let outside: Vec<usize> = (0..=chars.len()).filter(|&p| { let before: String = chars[..p].iter().collect(); before.matches('{').count() == before.matches('}').count() }).collect();
            let behind_name: Vec<usize> = outside.iter().copied().filter(|&p| p > 0 && (chars[p - 1].is_alphanumeric() || chars[p - 1] == '_')).collect();
            let pool: Vec<&str> = ["\u{663}", "\u{ff11}", "\u{96b}", "\u{e9}", "\u{436}", "\u{df}", "\u{ff41}", "\u{b2}", "\u{301}", "\u{200d}", "\u{200b}", "\u{feff}", "\u{2135}", "\u{b7}", "\u{b5}",
                "\u{3b0}", "\u{3ca}", "\u{390}", "\u{3aa}", "\u{3d1}", "@", "[", "`", ":", "~", "\u{7f}", "\u{0}", "\u{661}\u{662}", "\u{10d7a0}", "\u{1d7d8}"]
                .into_iter().filter(|c| !tb.iter().any(|o| o.repr.contains(*c))).collect();
            for k in 0..3 {
                let from = if k < 2 && !behind_name.is_empty() { &behind_name } else { &outside };
                let p = *r.pick(from); let ins = *r.pick(&pool);
                let mut t: String = chars[..p].iter().collect(); t.push_str(ins); t.extend(chars[p..].iter());
                damaged.push((if k < 2 { "insert-foreign-char-behind-name" } else { "insert-foreign-char-anywhere" }, t));
            }
        }
        let binops: Vec<&OpSpec> = tb.iter().filter(|o| o.bin.is_some()).collect();
        damaged.push(("append-binop", format!("{plain} {}", r.pick(&binops).repr)));
        // two damages whose effects on the operand/operator count cancel: an extra operand AND a trailing operator
        // (a text ending in an operator is rejected whatever comes before it)
        for op in [r.pick(&binops).repr.clone(), tb.iter().filter(|o| o.bin.is_some() && !o.unary).map(|o| o.repr.clone()).next().unwrap_or_else(|| r.pick(&binops).repr.clone())] {
            damaged.push(("ends-in-operator", format!("{plain} 7 {op}")));
            damaged.push(("ends-in-operator", format!("7 {plain} {op}")));
            damaged.push(("ends-in-operator", format!("({plain}) x {op}")));
            damaged.push(("ends-in-operator", format!("x 7 {op}")));
        }
        // an extra operand directly beside an operand INSIDE the text (behind or in front of a number or a variable)
        {
            let mut spots: Vec<(usize, usize)> = vec![];   // operand as char range [from, to)
            let mut i = 0; let mut depth_brace = 0;
            while i < chars.len() {
                if chars[i] == '{' { let from = i; while i < chars.len() && chars[i] != '}' { i += 1; } i = (i + 1).min(chars.len()); spots.push((from, i)); let _ = depth_brace; depth_brace = 0; continue }
                if chars[i].is_alphanumeric() || chars[i] == '_' || chars[i] == '.' { let from = i; while i < chars.len() && (chars[i].is_alphanumeric() || chars[i] == '_' || chars[i] == '.') { i += 1; }
                    let w: String = chars[from..i].iter().collect(); if !tb.iter().any(|o| o.repr == w && !o.constant) { spots.push((from, i)); } continue }
                i += 1;
            }
            for _ in 0..3.min(spots.len()) { let (from, to) = *r.pick(&spots);
                let a: String = chars[..to].iter().collect::<String>() + " 7" + &chars[to..].iter().collect::<String>();
                let b: String = chars[..from].iter().collect::<String>() + "7 " + &chars[from..].iter().collect::<String>();
                damaged.push(("extra-operand-inside", a)); damaged.push(("extra-operand-inside", b)); }
        }
        damaged.push(("extra-operand-after", format!("{plain} 7")));
        damaged.push(("extra-operand-before", format!("7 {plain}")));
        damaged.push(("blank", " ".repeat(r.below(4))));
        for ws in ["\u{a0}", "\u{2003}", "\t"] { damaged.push(("damage-after-unicode-blank", format!("{plain}{ws})"))); damaged.push(("damage-after-unicode-blank", format!("{plain}{ws}+"))); }
        for (kind, t) in damaged {
            // "7 -x" or "7 +x" is a legitimate expression when the text starts with a sign that is also binary
            if kind == "extra-operand-before" { let first = plain.trim_start().chars().next().unwrap_or(' '); if tb.iter().any(|o| o.bin.is_some() && o.repr.starts_with(first)) { continue } }
            let prog = match r.below(3) { 0 => Prog::Flat(t.clone()), 1 => Prog::FlatWo(t.clone()), _ => Prog::Deep(t.clone()) };
            cs.add(&tb, prog, vec![Query::Vars], format!("[{kind}] {t:?} (from {plain:?})"), kind, 2, |obs| (Some(obs[0] == Obs::E), format!("accepted or crashed: {}", pretty_obs(&obs[0]))));
        }
    }
    cs
}

/// C08: call form op(a, b) == ((a) op (b)) at any nesting
pub fn c08(a: &Args) -> CaseSet {
    let mut cs = CaseSet::default();
    let mut r = Rng::new(a.seed ^ 0x08);
    let t0 = std_tables()[0].clone();
    for text in ["max(1, min(2,3))", "max(min(1,2), 3)", "max(1, (2+3))", "atan2(x, max(y, atan2(1, 2)))", "sin(max(1, max(2, max(3, x))))", "max((1), ((2)))", "1+max(2,3)*4", "max(1,2)max(3,4)", "-max(-1, -atan2(x, -y))", "max(max(1,2), max(3,4))"] {
        for prog in [Prog::Flat(text.into()), Prog::Deep(text.into())] {
            cs.add(&t0, prog, vec![Query::Vars, Query::Relaxed(2)], format!("corpus: {text}"), "corpus", 3, |_| (None, String::new()));
        }
    }
    // calls nested into each other to great depth (two parenthesis levels per call), in the first and in the second argument,
    // around a product with a unary function: the reference value, flat and deep
    for &k in (if a.thorough { vec![5usize, 19, 20, 21, 22, 30, 45] } else { vec![20usize, 21, 22, 30] }).iter() {
        for second in [true, false] {
            let (ix_max, ix_mul, ix_sin) = (t0.iter().position(|o| o.repr == "max").unwrap(), t0.iter().position(|o| o.repr == "*").unwrap(), t0.iter().position(|o| o.repr == "sin").unwrap());
            let inner = tbin(ix_mul, Term::Lit("2".into()), tun(ix_sin, Term::Var(0)));
            let mut want = inner.clone(); let mut text = String::from("2*sin(x)");
            for j in 0..k { let c = format!("{}", j % 3); if second { text = format!("max({c}, {text})"); want = tbin(ix_max, Term::Lit(c), want); } else { text = format!("max({text}, {c})"); want = tbin(ix_max, want, Term::Lit(c)); } }
            let vars = vec!["x".to_string()];
            for prog in [Prog::Flat(text.clone()), Prog::FlatWo(text.clone()), Prog::Deep(text.clone())] {
                add_expect(&mut cs, &t0, prog, vec![Query::Vars, Query::Eval(1)], format!("{k} calls nested in the {} argument around 2*sin(x)", if second { "second" } else { "first" }), "deeply-nested-calls", k, &want, &vars);
            }
        }
    }
    // arguments written without blanks that contain an alphabetic binary operator between operands (`2max3`)
    {
        let ix = |n: &str| t0.iter().position(|o| o.repr == n && o.bin.is_some()).unwrap();
        let l = |s: &str| Term::Lit(s.to_string());
        let cases: Vec<(&str, Term, Vec<&str>)> = vec![
            ("max(5,2max3)", tbin(ix("max"), l("5"), tbin(ix("max"), l("2"), l("3"))), vec![]),
            ("atan2(x,1max2)", tbin(ix("atan2"), Term::Var(0), tbin(ix("max"), l("1"), l("2"))), vec!["x"]),
            ("max(x,2atan2y)", tbin(ix("max"), Term::Var(0), tbin(ix("atan2"), l("2"), Term::Var(1))), vec!["x", "y"]),
            ("max(2max3,x)+1", tbin(ix("+"), tbin(ix("max"), tbin(ix("max"), l("2"), l("3")), Term::Var(0)), l("1")), vec!["x"]),
            ("sin(max(1,2atan2x))", tun(t0.iter().position(|o| o.repr == "sin").unwrap(), tbin(ix("max"), l("1"), tbin(ix("atan2"), l("2"), Term::Var(0)))), vec!["x"]),
            ("max(1,max(2,3max4))", tbin(ix("max"), l("1"), tbin(ix("max"), l("2"), tbin(ix("max"), l("3"), l("4")))), vec![]),
        ];
        for (text, want, vars) in cases { let vars: Vec<String> = vars.iter().map(|s| s.to_string()).collect();
            for prog in [Prog::Flat(text.into()), Prog::FlatWo(text.into()), Prog::Deep(text.into())] {
                add_expect(&mut cs, &t0, prog, vec![Query::Vars, Query::Eval(vars.len())], format!("corpus: {text}"), "operator-inside-an-argument-without-blanks", 3, &want, &vars); } }
    }
    // a group nested hundreds of parentheses deep inside the second argument of a call, followed by more of that argument
    // (flat forms only: the recursive deep parser is out of its depth here, known finding F10)
    for &k in [100usize, 255, 256, 257, 300, 520].iter() {
        let (ix_max, ix_plus) = (t0.iter().position(|o| o.repr == "max").unwrap(), t0.iter().position(|o| o.repr == "+").unwrap());
        let text = format!("max(x, {}y{} + 10)", "(".repeat(k), ")".repeat(k));
        let want = tbin(ix_max, Term::Var(0), tbin(ix_plus, Term::Var(1), Term::Lit("10".into())));
        let vars = vec!["x".to_string(), "y".to_string()];
        for prog in [Prog::Flat(text.clone()), Prog::FlatWo(text.clone())] {
            let n = add_expect(&mut cs, &t0, prog, vec![Query::Vars, Query::Eval(2)], format!("max(x, ((..{k}..(y)..)) + 10)"), "deep-group-in-second-argument", k, &want, &vars);
            cs.cases[n].model = false;
        }
    }
    for i in 0..a.n {
        let tb = if r.chance(2, 3) { [std_tables()[0].clone(), std_tables()[1].clone(), std_tables()[2].clone()][r.below(3)].clone() } else { random_table(&mut r) };
        if !tb.iter().any(|o| o.bin.is_some() && is_alpha_name(&o.repr)) { continue }
        let mut cfg = GenCfg::default_for(&tb); cfg.call_form = true; cfg.max_depth = 6;
        let mut size = 2 + r.below(if a.thorough && i % 5 == 0 { 40 } else { 12 }) as i32;
        let ch = gen_chain(&mut r, &tb, &cfg, 0, &mut size);
        let rc = RenderCfg { spaces: r.chance(1, 2), braces: false, redundant_parens: r.chance(1, 3), call_space: r.chance(1, 2) };
        let text = render(&ch, &tb, &mut r, &rc);
        let vars = sorted_vars(&ch); let want = ref_chain(&ch, &tb, &vars); let nv = vars.len();
        let infix = render(&uncall_chain(&ch), &tb, &mut r, &RenderCfg::plain());
        let family = if text.contains(',') { "call-form" } else { "no-call" };
        for prog in [if i % 2 == 0 { Prog::Flat(text.clone()) } else { Prog::Deep(text.clone()) }, Prog::FlatWo(infix.clone())] {
            add_expect(&mut cs, &tb, prog, vec![Query::Vars, Query::Eval(nv)], format!("{text}   ==   {infix}"), family, n_operands(&ch), &want, &vars);
        }
    }
    cs
}

// ---- reference for histories: compose surface trees
fn group(c: &Chain) -> Atom { Atom::Group(vec![], c.clone()) }
fn subs_chain(c: &Chain, map: &[(String, Chain)]) -> Chain { Chain { first: Box::new(subs_atom(&c.first, map)), rest: c.rest.iter().map(|(o, a)| (*o, subs_atom(a, map))).collect() } }
fn subs_atom(a: &Atom, map: &[(String, Chain)]) -> Atom {
    match a {
        Atom::Var(s) => match map.iter().find(|(v, _)| v == s) { Some((_, c)) => group(c), None => a.clone() },
        Atom::Un(u, a) => Atom::Un(u.clone(), Box::new(subs_atom(a, map))),
        Atom::Group(u, c) => Atom::Group(u.clone(), subs_chain(c, map)),
        Atom::Call(o, x, y) => Atom::Call(*o, subs_chain(x, map), subs_chain(y, map)),
        x => x.clone(),
    }
}

/// C10: histories of operate_unary / operate_binary over pools of flat and deep expressions
pub fn c10(a: &Args) -> CaseSet {
    let mut cs = CaseSet::default();
    let mut r = Rng::new(a.seed ^ 0x10);
    // a unary operator by name on FLAT expressions whose last lowest-priority operator is flagged commutative and stands
    // between literals one of which belongs to a tighter operator (the schedule of the operand must not be reused)
    {
        let tb = std_tables()[0].clone();
        for text in ["x+y/2+1", "x+y*2+3", "x+2+3*y", "x+y^2+1", "x*y^2*3", "x+1+2", "2+x+3*4", "x*2*3+1", "1+x*2*3", "x+y-2+3", "x*y/2*3", "x+y max z", "x max y+z", "x atan2 y+z", "x+y atan2 z max 2"] {
            set_table(&tb);
            use exmex::Express;
            let Ok(fx) = FE::parse_wo_compile(Box::leak(text.to_string().into_boxed_str())) else { continue };
            let vars: Vec<String> = fx.var_names().to_vec(); let nv = vars.len();
            let base_term = fx.eval(&symvals(nv)).unwrap();
            for (ui, un) in ["sin", "cos", "-", "ln"].iter().enumerate() {
                let k = tb.iter().position(|o| o.repr == *un && o.unary).unwrap();
                let want = tun(k, base_term.clone());
                // the unary operator applied to the DEEP expression, the result flattened (the unary must end up on the operator applied last)
                add_expect(&mut cs, &tb, Prog::ToFlat(Box::new(Prog::Un(un.to_string(), Box::new(Prog::Deep(text.into()))))), vec![Query::Vars, Query::Eval(nv), Query::EvalVec(nv)], format!("{un} applied to the deep expression {text}, flattened"), "unary-on-flat-with-literal-tail", 3, &want, &vars);
                add_expect(&mut cs, &tb, Prog::ToFlat(Box::new(Prog::HelperUn(if *un == "-" { "cos".to_string() } else { un.to_string() }, Box::new(Prog::Deep(text.into()))))), vec![Query::Vars, Query::Eval(nv)], format!("helper {un} on the deep expression {text}, flattened"), "unary-on-flat-with-literal-tail", 3, &tun(tb.iter().position(|o| o.repr == (if *un == "-" { "cos" } else { *un }) && o.unary).unwrap(), base_term.clone()), &vars);
                for (bi, base) in [Prog::Flat(text.into()), Prog::FlatWo(text.into()), Prog::ToFlat(Box::new(Prog::Deep(text.into())))].into_iter().enumerate() {
                    if (ui + bi) % 2 == 1 && !a.thorough { continue }
                    add_expect(&mut cs, &tb, Prog::Un(un.to_string(), Box::new(base.clone())), vec![Query::Vars, Query::Eval(nv), Query::EvalVec(nv)], format!("{un} applied to the flat expression {}", pretty_prog(&base)), "unary-on-flat-with-literal-tail", 3, &want, &vars);
                    let k2 = tb.iter().position(|o| o.repr == "cos").unwrap();
                    add_expect(&mut cs, &tb, Prog::Un("cos".into(), Box::new(Prog::Un(un.to_string(), Box::new(base.clone())))), vec![Query::Vars, Query::Eval(nv)], format!("cos({un}(..)) applied to the flat expression {}", pretty_prog(&base)), "unary-on-flat-with-literal-tail", 3, &tun(k2, want.clone()), &vars);
                }
            }
        }
    }
    for i in 0..a.n {
        let tb = pick_table(&mut r, a);
        let mut cfg = GenCfg::default_for(&tb); cfg.vars = ["x","y","z","w","u","v"].iter().map(|s| s.to_string()).collect(); cfg.lit_bias = 4;
        let deep = r.chance(1, 2);
        let mut pool: Vec<(Chain, Prog)> = vec![];
        for _ in 0..3 {
            let (ch, text, _, _) = tree_setup(&mut r, &tb, &cfg, 6, &RenderCfg::plain());
            pool.push((ch, if deep { Prog::Deep(text) } else if r.chance(1, 2) { Prog::Flat(text) } else { Prog::FlatWo(text) }));
        }
        let steps = 1 + r.below(if a.thorough { 12 } else { 6 });
        let bins: Vec<usize> = (0..tb.len()).filter(|k| tb[*k].bin.is_some()).collect();
        let uns: Vec<usize> = (0..tb.len()).filter(|k| tb[*k].unary).collect();
        for _ in 0..steps {
            let (i1, i2) = (r.below(pool.len()), r.below(pool.len()));
            if r.chance(2, 3) || uns.is_empty() {
                let op = *r.pick(&bins);
                let nc = Chain { first: Box::new(group(&pool[i1].0)), rest: vec![(op, group(&pool[i2].0))] };
                let np = Prog::Bin(tb[op].repr.clone(), Box::new(pool[i1].1.clone()), Box::new(pool[i2].1.clone()));
                pool.push((nc, np));
            } else {
                let op = *r.pick(&uns);
                let nc = Chain { first: Box::new(Atom::Group(vec![op], pool[i1].0.clone())), rest: vec![] };
                pool.push((nc, Prog::Un(tb[op].repr.clone(), Box::new(pool[i1].1.clone()))));
            }
        }
        let (ch, prog) = pool.last().unwrap().clone();
        let vars = sorted_vars(&ch); let want = ref_chain(&ch, &tb, &vars); let nv = vars.len();
        add_expect(&mut cs, &tb, prog, vec![Query::Vars, Query::Eval(nv), Query::Eval(nv + 1), Query::Relaxed(nv + 1)], format!("history of {steps} applications"), "apply-history", n_operands(&ch), &want, &vars);
        if i % 10 == 0 {
            // unknown operator name is an error
            let p = Prog::Un("nosuchop".into(), Box::new(pool[0].1.clone()));
            cs.add(&tb, p, vec![Query::Vars], "unknown unary name".into(), "unknown-name", 2, |obs| (Some(obs[0] == Obs::E), pretty_obs(&obs[0])));
            let p = Prog::Bin("§§".into(), Box::new(pool[0].1.clone()), Box::new(pool[1].1.clone()));
            cs.add(&tb, p, vec![Query::Vars], "unknown binary name".into(), "unknown-name", 2, |obs| (Some(obs[0] == Obs::E), pretty_obs(&obs[0])));
        }
    }
    // the named helper methods of DeepEx (.sin(), .abs(), ... 23 of them) and the overloads & | ^ %: each is the
    // application of the operator of that name
    {
        let tb = float_table();
        let names = ["abs", "sin", "cos", "tan", "sinh", "cosh", "tanh", "asin", "acos", "atan", "signum", "log", "log2", "log10", "ln", "round", "floor", "ceil", "exp", "sqrt", "cbrt", "fract", "trunc"];
        for (ni, name) in names.iter().enumerate() {
            let Some(op) = (0..tb.len()).find(|k| tb[*k].repr == *name && tb[*k].unary) else { continue };
            for (ti, text) in ["x*y", "x", "2+x", "cos(x)+1"].iter().enumerate() {
                if !(a.thorough || (ni + ti) % 2 == 0) { continue }
                let base = if ti % 2 == 0 { Prog::Deep(text.to_string()) } else { Prog::Flat(text.to_string()) };
                set_table(&tb);
                let f = FE::parse_wo_compile(Box::leak(text.to_string().into_boxed_str())).unwrap();
                use exmex::Express;
                let vars: Vec<String> = f.var_names().to_vec(); let nv = vars.len();
                let want = tun(op, f.eval(&symvals(nv)).unwrap());
                add_expect(&mut cs, &tb, Prog::HelperUn(name.to_string(), Box::new(base.clone())), vec![Query::Vars, Query::Eval(nv)], format!("{text} .{name}()"), "named-helpers", 2, &want, &vars);
                // twice, and another helper on top
                let other = names[(ni + 7) % names.len()];
                if let Some(op2) = (0..tb.len()).find(|k| tb[*k].repr == other && tb[*k].unary) {
                    let want2 = tun(op2, want.clone());
                    add_expect(&mut cs, &tb, Prog::HelperUn(other.to_string(), Box::new(Prog::HelperUn(name.to_string(), Box::new(base)))), vec![Query::Vars, Query::Eval(nv)], format!("{text} .{name}().{other}()"), "named-helpers", 3, &want2, &vars);
                }
            }
        }
        let tb1 = std_tables()[1].clone();
        for (tbx, opname) in [(&tb, "^"), (&tb1, "&"), (&tb1, "%"), (&tb, "%"), (&tb, "|")] {
            let texts = [("x+1", "y*2"), ("x", "x"), ("2", "y")];
            for (ta, tbt) in texts {
                set_table(tbx);
                let (fa, fb) = (FE::parse_wo_compile(Box::leak(ta.to_string().into_boxed_str())), FE::parse_wo_compile(Box::leak(tbt.to_string().into_boxed_str())));
                let (Ok(fa), Ok(fb)) = (fa, fb) else { continue };
                let prog = Prog::HelperBin(opname.to_string(), Box::new(Prog::Deep(ta.to_string())), Box::new(Prog::Flat(tbt.to_string())));
                use exmex::Express;
                match (0..tbx.len()).find(|k| tbx[*k].repr == opname && tbx[*k].bin.is_some()) {
                    Some(op) => {
                        let mut vars: Vec<String> = fa.var_names().iter().chain(fb.var_names().iter()).cloned().collect(); vars.sort(); vars.dedup();
                        let remap = |f: &FE| -> Term { let own: Vec<String> = f.var_names().to_vec(); let vals: Vec<Term> = own.iter().map(|v| Term::Var(vars.iter().position(|w| w == v).unwrap())).collect(); f.eval(&vals).unwrap() };
                        let want = tbin(op, remap(&fa), remap(&fb));
                        add_expect(&mut cs, tbx, prog, vec![Query::Vars, Query::Eval(vars.len())], format!("({ta}) {opname} ({tbt})"), "named-helpers", 3, &want, &vars);
                    }
                    None => { cs.add(tbx, prog, vec![Query::Vars], format!("({ta}) {opname} ({tbt}): no such operator"), "named-helpers", 2, |obs| (Some(obs[0] == Obs::E), pretty_obs(&obs[0]))); }
                }
            }
        }
    }
    // stacks of unary applications: every sequence of three applications over three unary operators (with repetitions at
    // distance one and two) on a leaf, on a sum and on texts that already carry unary operators, deep and flat
    {
        let tb = float_table();
        let uns: Vec<usize> = ["abs", "sin", "floor"].iter().filter_map(|n| (0..tb.len()).find(|k| tb[*k].repr == *n && tb[*k].unary)).collect();
        if uns.len() == 3 {
            let u0 = tb[uns[0]].repr.clone(); let u1 = tb[uns[1]].repr.clone();
            let texts = vec!["x".to_string(), "x+y".to_string(), format!("{u0}({u1}(x))"), format!("{u1}({u0}(x+y))")];
            for text in texts {
                // the reference chain of the text: through the flat unfolded parse of the implementation-independent generator is not
                // available for a fixed text, so the chain is built by hand
                let base_chain: Chain = match text.as_str() {
                    "x" => Chain { first: Box::new(Atom::Var("x".into())), rest: vec![] },
                    "x+y" => { let plus = (0..tb.len()).find(|k| tb[*k].repr == "+").unwrap(); Chain { first: Box::new(Atom::Var("x".into())), rest: vec![(plus, Atom::Var("y".into()))] } },
                    t if t.ends_with("(x))") => Chain { first: Box::new(Atom::Group(vec![uns[0]], Chain { first: Box::new(Atom::Group(vec![uns[1]], Chain { first: Box::new(Atom::Var("x".into())), rest: vec![] })), rest: vec![] })), rest: vec![] },
                    _ => { let plus = (0..tb.len()).find(|k| tb[*k].repr == "+").unwrap();
                           Chain { first: Box::new(Atom::Group(vec![uns[1]], Chain { first: Box::new(Atom::Group(vec![uns[0]], Chain { first: Box::new(Atom::Var("x".into())), rest: vec![(plus, Atom::Var("y".into()))] })), rest: vec![] })), rest: vec![] } }
                };
                for form in 0..3 {
                    for a1 in 0..3 { for a2 in 0..3 { for a3 in 0..3 {
                        let mut ch = base_chain.clone();
                        let mut prog = match form { 0 => Prog::Deep(text.clone()), 1 => Prog::Flat(text.clone()), _ => Prog::FlatWo(text.clone()) };
                        for ai in [a1, a2, a3] {
                            let op = uns[ai];
                            ch = Chain { first: Box::new(Atom::Group(vec![op], ch)), rest: vec![] };
                            prog = Prog::Un(tb[op].repr.clone(), Box::new(prog));
                        }
                        let vars = sorted_vars(&ch); let want = ref_chain(&ch, &tb, &vars); let nv = vars.len();
                        add_expect(&mut cs, &tb, prog, vec![Query::Vars, Query::Eval(nv)], format!("three unary applications on {text}"), "unary-stack", n_operands(&ch), &want, &vars);
                    } } }
                }
            }
        }
    }
    cs
}

/// C11: simultaneous substitution
pub fn c11(a: &Args) -> CaseSet {
    let mut cs = CaseSet::default();
    let mut r = Rng::new(a.seed ^ 0x11);
    let t0 = std_tables()[0].clone();
    for (e, m) in [("x^2/y/2", vec![("y", "4")]), ("x+y", vec![("x", "y"), ("y", "x")]), ("x*2", vec![("x", "x+1")]), ("x+y*z", vec![]), ("sin(x)+1+2", vec![("x", "3")]),
                   // a variable that is the sole operand of a function, replaced by a function of one variable
                   ("ln(x)+1", vec![("x", "-y")]), ("cos(x)*z", vec![("x", "ln(y)")]), ("sin(x)", vec![("x", "cos(x)")]), ("-ln(x)", vec![("x", "sin(-z)")]), ("z+cos(sin(x))", vec![("x", "-cos(y)")]),
                   // names whose byte order differs from their case-insensitive order
                   ("R*a+b", vec![("a", "x+Y")]), ("x/Y-Z*w", vec![]), ("_b+B+b", vec![("b", "Z*_a")]), ("a-B", vec![("a", "B"), ("B", "a")]), ("Zeta+alpha*Beta", vec![("alpha", "Gamma-delta")])] {
        for deep in [false, true] {
            let mk = |t: &str| if deep { Prog::Deep(t.into()) } else { Prog::Flat(t.into()) };
            let p = Prog::Subs(Box::new(mk(e)), m.iter().map(|(v, t)| (v.to_string(), mk(t))).collect());
            cs.add(&t0, p, vec![Query::Vars, Query::Relaxed(3), Query::Unparse], format!("corpus: {e} {m:?}"), "corpus", 3, |_| (None, String::new()));
        }
    }
    for _ in 0..a.n {
        let tb = pick_table(&mut r, a);
        let mut cfg = GenCfg::default_for(&tb); cfg.lit_bias = 3;
        if r.chance(1, 3) { cfg.vars = ["x", "Y", "z", "W", "_u", "v", "R", "a", "B_1", "b_1"].iter().map(|s| s.to_string()).filter(|v| !tb.iter().any(|o| v.starts_with(o.repr.as_str()))).collect(); }
        let (e, te, vs, _) = tree_setup(&mut r, &tb, &cfg, 10, &RenderCfg::plain());
        if vs.is_empty() { continue }
        let deep = r.chance(1, 2);
        let mk = |t: String, r: &mut Rng| if deep { Prog::Deep(t) } else if r.chance(1, 2) { Prog::Flat(t) } else { Prog::FlatWo(t) };
        let mut map: Vec<(String, Chain)> = vec![]; let mut pmap: Vec<(String, Prog)> = vec![];
        for v in &vs {
            if r.chance(2, 3) {
                let rep = match r.below(5) {
                    0 => Chain { first: Box::new(Atom::Var(vs[r.below(vs.len())].clone())), rest: vec![] },
                    1 => { let b: Vec<usize> = (0..tb.len()).filter(|k| tb[*k].bin.is_some()).collect(); Chain { first: Box::new(Atom::Var(v.clone())), rest: vec![(*r.pick(&b), Atom::Lit("1".into()))] } }
                    2 => Chain { first: Box::new(Atom::Lit("7".into())), rest: vec![] },
                    _ => { let mut sz = r.below(5) as i32; gen_chain(&mut r, &tb, &cfg, 1, &mut sz) }
                };
                let t = render(&rep, &tb, &mut r, &RenderCfg::plain());
                pmap.push((v.clone(), mk(t, &mut r))); map.push((v.clone(), rep));
            }
        }
        let mut want_chain = subs_chain(&e, &map);
        let mut prog = Prog::Subs(Box::new(mk(te.clone(), &mut r)), pmap.clone());
        // repeated substitution
        if r.chance(1, 3) { want_chain = subs_chain(&want_chain, &map); prog = Prog::Subs(Box::new(prog), pmap.clone()); }
        let wv = sorted_vars(&want_chain); let want = ref_chain(&want_chain, &tb, &wv); let nv = wv.len();
        add_expect(&mut cs, &tb, prog, vec![Query::Vars, Query::Eval(nv)], format!("{te} with {:?}", pmap.iter().map(|(v, p)| format!("{v}->{}", pretty_prog(p))).collect::<Vec<_>>()), "simultaneous-subs", n_operands(&want_chain), &want, &wv);
    }
    cs
}

/// C12: printed expressions parse back (flat text identity; deep text reparses to the same function)
pub fn c12(a: &Args) -> CaseSet {
    let mut cs = CaseSet::default();
    let mut r = Rng::new(a.seed ^ 0x12);
    for i in 0..a.n {
        let tb = pick_table(&mut r, a);
        let mut cfg = GenCfg::default_for(&tb); cfg.lit_bias = 3;
        let rc = RenderCfg { spaces: r.chance(1, 2), braces: r.chance(1, 2), redundant_parens: r.chance(1, 3), call_space: false };
        let (ch, text, vars, want) = tree_setup(&mut r, &tb, &cfg, 10, &rc);
        let nv = vars.len();
        // flat expression prints its source text
        let t2 = text.clone();
        cs.add(&tb, Prog::Flat(text.clone()), vec![Query::Unparse], text.clone(), "flat-text-identity", n_operands(&ch), move |obs| (Some(obs[0] == Obs::Str(t2.clone())), pretty_obs(&obs[0])));
        if i % 2 == 0 {
            // serialising and deserialising a parsed flat expression: the same text, variables and value
            let (t3, tb3, want3, vars3) = (text.clone(), tb.clone(), want.clone(), vars.clone());
            let qs3 = vec![Query::Vars, Query::Eval(nv), Query::Unparse];
            let qs3b = qs3.clone();
            cs.add(&tb, Prog::SerdeFlat(Box::new(if i % 4 == 0 { Prog::Flat(text.clone()) } else { Prog::FlatWo(text.clone()) })), qs3, format!("serde round trip of {text}"), "serde-round-trip", n_operands(&ch), move |obs| {
                if obs[2] != Obs::Str(t3.clone()) { return (Some(false), format!("text after the round trip: {}", pretty_obs(&obs[2]))) }
                expect_value(&tb3, &want3, &vars3, obs, &qs3b) });
        }
        // derived expressions: conversions and one operator application, then print and parse again
        let mut base = match i % 3 { 0 => Prog::Deep(text.clone()), 1 => Prog::ToDeep(Box::new(Prog::Flat(text.clone()))), _ => Prog::ToFlat(Box::new(Prog::Deep(text.clone()))) };
        let (mut wchain, mut wvars, mut wterm) = (ch.clone(), vars.clone(), want.clone());
        if r.chance(1, 2) {
            let uns: Vec<usize> = (0..tb.len()).filter(|k| tb[*k].unary).collect();
            if !uns.is_empty() { let u = *r.pick(&uns); base = Prog::Un(tb[u].repr.clone(), Box::new(base)); wchain = Chain { first: Box::new(Atom::Group(vec![u], wchain)), rest: vec![] }; wvars = sorted_vars(&wchain); wterm = ref_chain(&wchain, &tb, &wvars); }
        }
        let _ = nv;
        let re = match r.below(3) { 0 => Prog::ReFlat(Box::new(base.clone())), 1 => Prog::ReDeep(Box::new(base.clone())), _ => Prog::SerdeFlat(Box::new(base.clone())) };
        // the property only speaks about expressions whose printed literals are literals: when folding produced a
        // non-literal value the printed text contains the marker and the round trip is out of scope (oracle skipped)
        let qs = vec![Query::Vars, Query::Eval(wvars.len())];
        let (tb2, qs2, wv2, wt2) = (tb.clone(), qs.clone(), wvars.clone(), wterm.clone());
        let base2 = base.clone();
        cs.add(&tb, re, qs, format!("reparse of {}", pretty_prog(&base)), "reparse", n_operands(&wchain), move |obs| {
            set_table(&tb2);
            let printed = match observe(&base2, &[Query::Unparse]).1.pop() { Some(Obs::Str(s)) => s, _ => String::new() };
            if printed.contains('§') { return (None, "printed text contains a folded non-literal value".into()) }
            expect_value(&tb2, &wt2, &wv2, obs, &qs2)
        });
    }
    // braced names with blanks at their borders are names of their own (`{ y}`, `{y }`, `{y}`), and blanks take part in the
    // order of the variables: what a deep or derived expression prints must parse back to the same variables and value
    {
        let tb = std_tables()[0].clone();
        let ix = |n: &str| tb.iter().position(|o| o.repr == n).unwrap();
        let v = |i: usize| Term::Var(i);
        let corpus: Vec<(&str, Term, Vec<&str>)> = vec![
            ("{ y}-{x}*2", tbin(ix("-"), v(0), tbin(ix("*"), v(1), Term::Lit("2".into()))), vec![" y", "x"]),
            ("{x }/{x}", tbin(ix("/"), v(1), v(0)), vec!["x", "x "]),
            ("sin({ a b })+{a b}^{ a b}", tbin(ix("+"), tun(ix("sin"), v(1)), tbin(ix("^"), v(2), v(0))), vec![" a b", " a b ", "a b"]),
            ("{z }-{ z}-{z}", tbin(ix("-"), tbin(ix("-"), v(2), v(0)), v(1)), vec![" z", "z", "z "]),
        ];
        for (text, want, vars) in corpus {
            let vars: Vec<String> = vars.iter().map(|s| s.to_string()).collect();
            for (k, base) in [Prog::Deep(text.into()), Prog::ToDeep(Box::new(Prog::Flat(text.into()))), Prog::ToFlat(Box::new(Prog::Deep(text.into()))), Prog::Un("sin".into(), Box::new(Prog::Deep(text.into())))].into_iter().enumerate() {
                let w = if k == 3 { tun(ix("sin"), want.clone()) } else { want.clone() };
                for re in [Prog::ReFlat(Box::new(base.clone())), Prog::ReDeep(Box::new(base.clone())), Prog::SerdeFlat(Box::new(base.clone()))] {
                    add_expect(&mut cs, &tb, re, vec![Query::Vars, Query::Eval(vars.len())], format!("reparse of {}", pretty_prog(&base)), "braced-names-with-border-blanks", 3, &w, &vars);
                }
            }
        }
    }
    // application by name of EVERY binary operator of a table (also those listed behind unary-only operators and constants),
    // the result converted flat -> deep again (operator indices travel with the flat form), printed, parsed again, serialised
    for (ti, tb) in std_tables().iter().enumerate() {
        for k in 0..tb.len() {
            if tb[k].bin.is_none() { continue }
            if !a.thorough && (k + ti + a.seed as usize) % 2 == 1 && k < 3 { continue }
            let name = tb[k].repr.clone();
            let (ta, tbt) = [("x", "y"), ("x", "y"), ("u", "v")][ti % 3];
            let want = tbin(k, Term::Var(0), Term::Var(1));
            let vars = vec![ta.to_string(), tbt.to_string()];
            let applied = Prog::Bin(name.clone(), Box::new(if k % 2 == 0 { Prog::Deep(ta.into()) } else { Prog::Flat(ta.into()) }), Box::new(if k % 3 == 0 { Prog::Flat(tbt.into()) } else { Prog::Deep(tbt.into()) }));
            let again = Prog::ToDeep(Box::new(Prog::ToFlat(Box::new(applied.clone()))));
            // a second application on top (the flat result is converted to deep inside operate_binary)
            let twice = Prog::Bin(name.clone(), Box::new(Prog::ToFlat(Box::new(applied.clone()))), Box::new(Prog::Flat("w".into())));
            let want_twice = tbin(k, tbin(k, Term::Var(if ta < "w" { 0 } else { 1 }), Term::Var(if ta < "w" { 1 } else { 2 })), Term::Var(if ta < "w" { 2 } else { 0 }));
            let mut vars_twice = vec![ta.to_string(), tbt.to_string(), "w".to_string()]; vars_twice.sort();
            for (prog, w, vs, what) in [(Prog::ReFlat(Box::new(again.clone())), want.clone(), vars.clone(), "converted again, printed, parsed flat"), (Prog::ReDeep(Box::new(again.clone())), want.clone(), vars.clone(), "converted again, printed, parsed deep"),
                                        (Prog::SerdeFlat(Box::new(again.clone())), want.clone(), vars.clone(), "converted again, serialised"), (again.clone(), want.clone(), vars.clone(), "converted again"),
                                        (Prog::ReFlat(Box::new(twice.clone())), want_twice.clone(), vars_twice.clone(), "applied twice, printed, parsed flat"), (Prog::ReDeep(Box::new(Prog::ToDeep(Box::new(twice.clone())))), want_twice.clone(), vars_twice.clone(), "applied twice, printed, parsed deep")] {
                let qs = vec![Query::Vars, Query::Eval(vs.len()), Query::Unparse];
                let (tb2, qs2, name2) = (tb.clone(), qs.clone(), name.clone());
                cs.add(tb, prog, qs, format!("{ta} {name} {tbt}: {what}"), "operator-by-name-converted-again", 3, move |obs| {
                    if let Obs::Str(t) = &obs[2] { if !t.contains(name2.as_str()) { return (Some(false), format!("the printed text {t:?} does not contain the applied operator {name2:?}")) } }
                    expect_value(&tb2, &w, &vs, obs, &qs2) });
            }
        }
    }
    cs
}

fn wrap_un(signs: &[usize], t: Term) -> Term { signs.iter().rev().fold(t, |acc, k| tun(*k, acc)) }
fn tun(k: usize, t: Term) -> Term { Term::Un(k, Box::new(t)) }
fn tbin(k: usize, a: Term, b: Term) -> Term { Term::Bin(k, Box::new(a), Box::new(b)) }
/// C12 (second half): derivatives and arithmetic results over the float table's names, printed and parsed again
pub fn c12d(a: &Args) -> CaseSet {
    let mut cs = CaseSet::default();
    let mut r = Rng::new(a.seed ^ 0x1212);
    let tb = float_table();
    let mut texts: Vec<String> = ["sin(cos(x))", "sin(-x)", "sin(cos(tan(x)))", "-cos(sin(x))*y", "exp(ln(sqrt(x)))", "x*y", "x", "x*x*y", "tanh(sinh(x))+y", "x^2"].iter().map(|s| s.to_string()).collect();
    for _ in 0..a.n { let ch = gen_diff(&mut r, &tb, 1, false, false); texts.push(render(&ch, &tb, &mut r, &RenderCfg::plain())); }
    for (i, text) in texts.iter().enumerate() {
        set_table(&tb);
        use exmex::Express;
        let fx = match FE::parse_wo_compile(Box::leak(text.clone().into_boxed_str())) { Ok(f) => f, Err(_) => continue };
        let vars: Vec<String> = fx.var_names().to_vec(); let nv = vars.len();
        if nv == 0 { continue }
        let idx = r.below(nv);
        let base = match i % 3 { 0 => Prog::Flat(text.clone()), 1 => Prog::Deep(text.clone()), _ => Prog::ToDeep(Box::new(Prog::Flat(text.clone()))) };
        // derived by differentiation, by substitution (also substitutions that leave every variable list as it was: the
        // replaced variable inside a group, replaced by an expression over the same names) and by operator application
        let v = vars[idx].clone(); let w = vars[(idx + 1) % nv].clone();
        let reps = [format!("{v}*{v}"), format!("{v}+{w}"), format!("sin({v})"), "2.5".to_string(), format!("({w}-{v})/2")];
        let alldev: Vec<(Prog, &'static str)> = vec![
            (Prog::Partial(vec![idx], 0, Box::new(base.clone())), "reparse-derivative"),
            (Prog::Subs(Box::new(base.clone()), vec![(v.clone(), if i % 3 == 1 { Prog::Deep(reps[i % reps.len()].clone()) } else { Prog::Flat(reps[i % reps.len()].clone()) })]), "reparse-substituted"),
            (Prog::Subs(Box::new(Prog::Un("sin".into(), Box::new(base.clone()))), vec![(v.clone(), Prog::Flat(reps[(i + 1) % reps.len()].clone()))]), "reparse-substituted"),
            (Prog::Arith(i % 5, Box::new(base.clone()), Box::new(Prog::Deep(reps[(i + 2) % reps.len()].clone()))), "reparse-operated"),
        ];
        for (k, (derived, family)) in alldev.into_iter().enumerate() {
        if k > 0 && !(a.thorough || i % 2 == 0 || i < 12) { continue }
        let re = match (i + k) % 3 { 0 => Prog::ReFlat(Box::new(derived.clone())), 1 => Prog::ReDeep(Box::new(derived.clone())), _ => Prog::SerdeFlat(Box::new(derived.clone())) };
        // oracle: the reparsed expression has the value of the printed one wherever the printed text is made of literals;
        // its variables are those of the printed one that still occur in the text (F6: the others vanish)
        let qs = vec![Query::Vars, Query::Relaxed(nv), Query::Unparse];
        let (tb2, derived2) = (tb.clone(), derived.clone());
        cs.add(&tb, re, qs, format!("reparse of {}", pretty_prog(&derived)), family, 3, move |obs| {
            set_table(&tb2);
            let (_, o) = observe(&derived2, &[Query::Vars, Query::Unparse, Query::Eval(nv)]);
            let (ovars, printed, oval) = match (&o[0], &o[1], &o[2]) { (Obs::S(v), Obs::Str(s), Obs::T(t)) => (v.clone(), s.clone(), t.clone()), _ => return (None, "the derived expression itself failed".into()) };
            if printed.contains('§') { return (None, "printed text contains a folded non-literal value".into()) }
            match (&obs[0], &obs[1]) {
                (Obs::S(rv), _) => {
                    if rv.iter().any(|v| !ovars.contains(v)) { return (Some(false), format!("reparsed variables {rv:?} not among {ovars:?}")) }
                    if *rv != ovars { return (Some(false), format!("vanished-variable: printed {printed:?} has variables {rv:?}, the expression has {ovars:?}")) }
                    match &obs[1] { Obs::T(t) => for pt in points(nv) { let (x, y) = (interp(t, &tb2, &pt), interp(&oval, &tb2, &pt)); if x.is_finite() && y.is_finite() && (x - y).abs() > 1e-9 * (1.0 + y.abs()) { return (Some(false), format!("reparsed text {printed:?} evaluates to {x}, the printed expression to {y} at {pt:?}")) } },
                        other => return (Some(false), format!("reparsed evaluation: {}", pretty_obs(other))) }
                    (Some(true), String::new())
                }
                other => (Some(false), format!("printed text {printed:?} does not parse: {}", pretty_obs(other.0))),
            }
        });
        }
    }
    cs
}

/// C13: lexical families built from the table's names
pub fn c13(a: &Args) -> CaseSet {
    let mut cs = CaseSet::default();
    let mut r = Rng::new(a.seed ^ 0x13);
    let tables = vec![
        std_tables()[0].clone(), std_tables()[3].clone(),
        vec![OpSpec::bin_un("+", 0, false), OpSpec::bin_un("-", 0, false), OpSpec::bin("*", 1, false), OpSpec::un("l"), OpSpec::un("lo"), OpSpec::un("log"), OpSpec::un("log2"), OpSpec::un("log10"),
             OpSpec::cst("PI"), OpSpec::cst("π"), OpSpec::cst("E"), OpSpec::un("exp"), OpSpec::un("sin"), OpSpec::bin("<", 0, false), OpSpec::bin("<=", 0, false), OpSpec::bin("<<", 2, false), OpSpec::un("α")],
        // names of different kinds that are prefixes of each other: the longest name wins whatever its kind
        vec![OpSpec::bin_un("+", 0, false), OpSpec::bin_un("-", 0, false), OpSpec::bin("*", 1, false), OpSpec::bin("log", 2, false), OpSpec::un("log2"), OpSpec::un("log10"), OpSpec::bin("min", 0, false), OpSpec::cst("minute"),
             OpSpec::un("si"), OpSpec::bin("sin", 2, false), OpSpec::cst("sinus"), OpSpec::bin("|", 0, false), OpSpec::un("||"), OpSpec::cst("E")],
    ];
    let lit = |s: &str| Term::Lit(s.to_string());
    type Fam = (String, Option<(Term, Vec<String>)>, &'static str);
    for round in 0..a.n.max(1) {
        for tb in &tables {
            // (text, expected value over sorted vars, expected vars) built by construction
            let mut fam: Vec<Fam> = vec![];
            let ok = |t: Term, v: Vec<String>| Some((t, v));
            for (k, o) in tb.iter().enumerate() {
                if o.bin.is_some() {
                    // binary names: another case of the same letters is not that operator
                    if is_alpha_name(&o.repr) {
                        let name = o.repr.clone();
                        let cap: String = { let mut c = name.chars(); match c.next() { Some(f) => if f.is_uppercase() { f.to_lowercase().collect::<String>() + c.as_str() } else { f.to_uppercase().collect::<String>() + c.as_str() }, None => String::new() } };
                        for w0 in [name.to_uppercase(), cap] { for suffix in ["", "well", "_1"] {
                            let w = format!("{w0}{suffix}");
                            if w0 == name || tb.iter().any(|p| w.starts_with(p.repr.as_str())) { continue }
                            fam.push((w.clone(), ok(Term::Var(0), vec![w.clone()]), "other-case-is-variable"));
                            fam.push((format!("{w}+1"), ok(tbin(0, Term::Var(0), lit("1")), vec![w]), "other-case-is-variable"));
                        } }
                    }
                    continue     // the other claims are about unary-only operators and constants
                }
                let name = o.repr.clone();
                if is_alpha_name(&name) {
                    for ext in ["4", "x", "_", "α", "Z9", "ω", "Ω", "Α", "z", "Z", "A", "a", "0", "9", "ωt", "Ωmega"] {   // both ends of every character class
                        let w = format!("{name}{ext}");
                        // skip words that some other table entry decides: a binary-capable name that is a prefix
                        // (no look-ahead for those), or a longer name that matches the word
                        if tb.iter().any(|p| p.bin.is_some() && w.starts_with(p.repr.as_str())) { continue }
                        if tb.iter().any(|p| p.repr.chars().count() > name.chars().count() && w.starts_with(p.repr.as_str())) { continue }
                        fam.push((w.clone(), ok(Term::Var(0), vec![w.clone()]), "extended-name-is-variable"));
                        fam.push((format!("1+{w}*2"), ok(tbin(0, lit("1"), tbin(2, Term::Var(0), lit("2"))), vec![w]), "extended-name-is-variable"));
                    }
                }
                if o.unary {
                    fam.push((format!("{name} 4"), ok(tun(k, lit("4")), vec![]), "exact-name-applies"));
                    fam.push((format!("{name}(4)"), ok(tun(k, lit("4")), vec![]), "exact-name-applies"));
                    fam.push((format!("{name}({{q}})"), ok(tun(k, Term::Var(0)), vec!["q".into()]), "exact-name-applies"));
                    fam.push((format!("{name} {name} 4"), ok(tun(k, tun(k, lit("4"))), vec![]), "exact-name-applies"));
                }
                if o.constant {
                    fam.push((name.clone(), ok(Term::Cst(k), vec![]), "exact-name-applies"));
                    fam.push((format!("({name})"), ok(Term::Cst(k), vec![]), "exact-name-applies"));
                    fam.push((format!("{name} + 1"), ok(tbin(0, Term::Cst(k), lit("1")), vec![]), "exact-name-applies"));
                }
                // the same letters in another case are another name: a variable (unless the table has that spelling too,
                // or a binary-capable / longer name matches a prefix of it)
                if is_alpha_name(&name) {
                    let cap: String = { let mut c = name.chars(); match c.next() { Some(f) => if f.is_uppercase() { f.to_lowercase().collect::<String>() + c.as_str() } else { f.to_uppercase().collect::<String>() + c.as_str() }, None => String::new() } };
                    for w in [name.to_uppercase(), name.to_lowercase(), cap] {
                        if w == name || tb.iter().any(|p| p.repr == w) { continue }
                        if tb.iter().any(|p| p.bin.is_some() && w.starts_with(p.repr.as_str())) { continue }
                        if tb.iter().any(|p| w.starts_with(p.repr.as_str())) { continue }
                        fam.push((w.clone(), ok(Term::Var(0), vec![w.clone()]), "other-case-is-variable"));
                        fam.push((format!("2*{w}"), ok(tbin(2, lit("2"), Term::Var(0)), vec![w.clone()]), "other-case-is-variable"));
                        fam.push((format!("1+{w}*2"), ok(tbin(0, lit("1"), tbin(2, Term::Var(0), lit("2"))), vec![w]), "other-case-is-variable"));
                    }
                }
                // truncations are variables (unless some name matches a prefix of them)
                if name.chars().count() > 1 && is_alpha_name(&name) {
                    let w: String = name.chars().take(name.chars().count() - 1).collect();
                    if !tb.iter().any(|p| w.starts_with(p.repr.as_str())) {
                        fam.push((w.clone(), ok(Term::Var(0), vec![w]), "truncated-name-is-variable"));
                    }
                }
            }
            // sign chains
            let (plus, minus) = (0usize, 1usize);
            for n in [1usize, 2, 3, 4, 5, 15, 16, 17, 18, 32, 33, 40] {
                let signs: Vec<usize> = (0..n).map(|_| if r.chance(1, 2) { plus } else { minus }).collect();
                let s: String = signs.iter().map(|k| tb[*k].repr.as_str()).collect();
                let un = |t: Term| wrap_un(&signs, t);
                let un_tail = |t: Term| wrap_un(&signs[1..], t);
                let xy = vec!["x".to_string(), "y".to_string()];
                fam.push((format!("{s}x"), ok(un(Term::Var(0)), vec!["x".into()]), "sign-chain"));
                fam.push((format!("({s}x)"), ok(un(Term::Var(0)), vec!["x".into()]), "sign-chain"));
                // after an operand or a closing parenthesis the first sign is binary, the rest unary
                fam.push((format!("y{s}x"), ok(tbin(signs[0], Term::Var(1), un_tail(Term::Var(0))), xy.clone()), "sign-chain"));
                fam.push((format!("(y){s}x"), ok(tbin(signs[0], Term::Var(1), un_tail(Term::Var(0))), xy.clone()), "sign-chain"));
                fam.push((format!("2*{s}x"), ok(tbin(2, lit("2"), un(Term::Var(0))), vec!["x".into()]), "sign-chain"));
            }
            // literal spellings
            for l in ["1", "12", "1.5", ".5", "5.", "0.0", "007", "12.375"] {
                fam.push((l.to_string(), ok(lit(l), vec![]), "literal"));
                fam.push((format!("{l}+x"), ok(tbin(0, lit(l), Term::Var(0)), vec!["x".into()]), "literal"));
            }
            for l in [".", "1.2.3", "1..2", "..", "1.2.", ".5."] { fam.push((l.to_string(), None, "bad-literal")); }
            // braces
            for b in ["x", " x ", "1", "sin", "+", "a+b", "(", "👍 é", "", "PI", "x y z"] {
                fam.push((format!("{{{b}}}"), ok(Term::Var(0), vec![b.to_string()]), "braces"));
                fam.push((format!("2*{{{b}}}"), ok(tbin(2, lit("2"), Term::Var(0)), vec![b.to_string()]), "braces"));
            }
            fam.push(("{x".into(), ok(Term::Var(0), vec!["x".into()]), "braces"));
            if round > 0 { // only a random subset in later rounds, with whitespace
                fam.retain(|_| r.chance(1, 3)); for f in fam.iter_mut() { if !f.0.contains('{') { f.0 = format!(" {} ", f.0) } }
            }
            for (text, exp, family) in fam {
                let prog = match r.below(3) { 0 => Prog::Flat(text.clone()), 1 => Prog::FlatWo(text.clone()), _ => Prog::Deep(text.clone()) };
                match exp {
                    Some((want, vars)) => { let nv = vars.len(); add_expect(&mut cs, tb, prog, vec![Query::Vars, Query::Eval(nv)], text.clone(), family, 2, &want, &vars); }
                    None => { cs.add(tb, prog, vec![Query::Vars], text.clone(), family, 2, |obs| (Some(obs[0] == Obs::E), pretty_obs(&obs[0]))); }
                }
            }
        }
    }
    // two tables of the SAME size and data type over the same names in different positions, used one after the other and
    // again (nothing about the search order of one table may survive into the next parse): the longest name wins in each
    {
        let t5 = vec![OpSpec::bin_un("-", 0, false), OpSpec::un("--"), OpSpec::bin("*", 2, false), OpSpec::bin("**", 3, false), OpSpec::bin("<", 0, false), OpSpec::bin("<=", 0, false), OpSpec::un("log"), OpSpec::un("log2")];
        let t6 = vec![OpSpec::bin("**", 3, false), OpSpec::un("log2"), OpSpec::bin("<=", 0, false), OpSpec::bin("*", 2, false), OpSpec::un("log"), OpSpec::bin_un("-", 0, false), OpSpec::bin("<", 0, false), OpSpec::un("--")];
        for (ri, tb) in [&t5, &t6, &t5, &t6].into_iter().enumerate() {
            let ix = |n: &str| tb.iter().position(|o| o.repr == n).unwrap();
            let (x, y) = (Term::Var(0), Term::Var(1));
            let lit = |s: &str| Term::Lit(s.to_string());
            let one = vec!["x".to_string()]; let two = vec!["x".to_string(), "y".to_string()];
            let cases: Vec<(&str, Term, Vec<String>)> = vec![
                ("--x", tun(ix("--"), x.clone()), one.clone()),
                ("- -x", tun(ix("-"), tun(ix("-"), x.clone())), one.clone()),
                ("x<=2", tbin(ix("<="), x.clone(), lit("2")), one.clone()),
                ("x<2", tbin(ix("<"), x.clone(), lit("2")), one.clone()),
                ("2**3*x", tbin(ix("*"), tbin(ix("**"), lit("2"), lit("3")), x.clone()), one.clone()),
                ("2*3**x", tbin(ix("*"), lit("2"), tbin(ix("**"), lit("3"), x.clone())), one.clone()),
                ("log2 x", tun(ix("log2"), x.clone()), one.clone()),
                ("log 2*x", tbin(ix("*"), tun(ix("log"), lit("2")), x.clone()), one.clone()),
                ("x - --y", tbin(ix("-"), x.clone(), tun(ix("--"), y.clone())), two.clone()),
                ("x<=y**2", tbin(ix("<="), x.clone(), tbin(ix("**"), y.clone(), lit("2"))), two.clone()),
            ];
            for (text, want, vars) in cases {
                let prog = match ri % 3 { 0 => Prog::FlatWo(text.to_string()), 1 => Prog::Deep(text.to_string()), _ => Prog::Flat(text.to_string()) };
                add_expect(&mut cs, tb, prog, vec![Query::Vars, Query::Eval(vars.len())], format!("[table {} of 2, use {}] {text}", ri % 2 + 1, ri + 1), "same-size-tables-in-turn", 3, &want, &vars);
            }
        }
    }
    cs
}

/// C15: consuming evaluation vs borrowing evaluation on repetition patterns
pub fn c15(a: &Args) -> CaseSet {
    let mut cs = CaseSet::default();
    let mut r = Rng::new(a.seed ^ 0x15);
    let tb = std_tables()[1].clone();
    let names = ["a", "b", "c", "d", "e"];
    let mut words: Vec<Vec<usize>> = vec![];
    // all words over k letters up to a length (exhaustive for small ones)
    for k in 1..=3usize { for len in 1..=(if a.thorough { 6 } else { 5 }) { let total = k.pow(len as u32); for code in 0..total { let mut c = code; let w: Vec<usize> = (0..len).map(|_| { let x = c % k; c /= k; x }).collect(); if (0..k).all(|l| w.contains(&l)) { words.push(w) } } } }
    for _ in 0..a.n { let k = 1 + r.below(5); let len = 1 + r.below(40); words.push((0..len).map(|_| r.below(k)).collect()); }
    // derived flat expressions whose variable list contains names that no longer occur (derivatives, shortcuts)
    let ftb = float_table();
    for text in ["x*x*y", "x*x*x*y", "x*y*y", "x+y*x*x", "a*a+b*b+c", "x*x+y+z*z*z", "x*y", "sin(x)*sin(x)*y"] {
        set_table(&ftb);
        use exmex::Express;
        let fx = FE::parse_wo_compile(Box::leak(text.to_string().into_boxed_str())).unwrap();
        let n = fx.var_names().len();
        for idx in 0..n {
            let progs = [Prog::Partial(vec![idx], 0, Box::new(Prog::Flat(text.into()))),
                         Prog::ToFlat(Box::new(Prog::Arith(0, Box::new(Prog::Deep(text.into())), Box::new(Prog::Arith(2, Box::new(Prog::Deep("q".into())), Box::new(Prog::Deep("0".into()))))))) ];
            for p in progs {
                let nq = if matches!(p, Prog::ToFlat(_)) { n + 1 } else { n };
                cs.add(&ftb, p.clone(), vec![Query::Eval(nq), Query::EvalVec(nq)], format!("derived: {}", pretty_prog(&p)), "derived-with-unused-variables", 3, |obs| {
                    match (&obs[0], &obs[1]) {
                        (Obs::T(t), Obs::TC(t2, _)) => if t != t2 { (Some(false), format!("eval_vec {} differs from eval {}", t2.pretty(), t.pretty())) } else if t2.has_dflt() { (Some(false), "a moved-out placeholder reached an operator".into()) } else { (Some(true), String::new()) },
                        _ => (Some(false), format!("{} / {}", pretty_obs(&obs[0]), pretty_obs(&obs[1]))) } });
            }
        }
    }
    // unary operators directly on literals, unfolded and folded, also without any variable
    for text in ["-7", "sin 2", "x*-2+y-sin(0)*x", "-3*-x", "--4+x", "sin -sin 3", "-(2+3)*x", "2*-3", "x+-1*x"] {
        for p in [Prog::FlatWo(text.into()), Prog::Flat(text.into())] {
            let n = if text.contains('y') { 2 } else if text.contains('x') { 1 } else { 0 };
            cs.add(&tb, p, vec![Query::Eval(n), Query::EvalVec(n)], format!("corpus: {text}"), "unary-on-literal", 2, |obs| {
                match (&obs[0], &obs[1]) {
                    (Obs::T(t), Obs::TC(t2, _)) => if t != t2 { (Some(false), format!("eval_vec {} differs from eval {}", t2.pretty(), t.pretty())) } else { (Some(true), String::new()) },
                    _ => (Some(false), format!("{} / {}", pretty_obs(&obs[0]), pretty_obs(&obs[1]))) } });
        }
    }
    for (wi, w) in words.iter().enumerate() {
        let ops = ["+", "*", "-", "/", "&"];
        let mut text = String::new();
        for (i, l) in w.iter().enumerate() { if i > 0 { text.push_str(ops[r.below(ops.len())]); } if r.chance(1, 6) { text.push_str("2*") } if r.chance(1, 8) { text.push_str(["-3*", "sin 2*", "--4*", "-sin -5*"][r.below(4)]) } if r.chance(1, 8) { text.push_str("sin ") } text.push_str(names[*l]); }
        let mut vars: Vec<String> = w.iter().map(|l| names[*l].to_string()).collect(); vars.sort(); vars.dedup();
        let n = vars.len();
        let occ: Vec<u64> = vars.iter().map(|v| w.iter().filter(|l| names[**l] == v).count() as u64).collect();
        let prog = if wi % 2 == 0 { Prog::Flat(text.clone()) } else { Prog::FlatWo(text.clone()) };
        let qs = vec![Query::Eval(n), Query::EvalVec(n), Query::EvalVec(n + 1), Query::EvalVec(n.saturating_sub(1))];
        cs.add(&tb, prog, qs, text.clone(), if wi < words.len() - a.n { "exhaustive-words" } else { "random-words" }, w.len(), move |obs| {
            match (&obs[0], &obs[1]) {
                (Obs::T(t), Obs::TC(t2, cl)) => {
                    let want_cl: Vec<u64> = occ.iter().map(|o| o - 1).collect();
                    if t != t2 { (Some(false), format!("eval_vec {} differs from eval {}", t2.pretty(), t.pretty())) }
                    else if t2.has_dflt() { (Some(false), "a moved-out placeholder reached an operator".into()) }
                    else if *cl != want_cl { (Some(false), format!("clone counts {cl:?}, expected {want_cl:?} (occurrences - 1)")) }
                    else if obs[2] != Obs::E || (n > 0 && obs[3] != Obs::E) { (Some(false), "arity of eval_vec".into()) }
                    else { (Some(true), String::new()) }
                }
                _ => (Some(false), format!("{} / {}", pretty_obs(&obs[0]), pretty_obs(&obs[1]))),
            }
        });
    }
    cs
}

// ------------------------------------------------------------------------------------------------
// differentiation
const DIFF_UN: [&str; 20] = ["sqrt", "ln", "log", "log10", "log2", "exp", "sin", "cos", "tan", "asin", "acos", "atan", "sinh", "cosh", "tanh", "asinh", "acosh", "atanh", "-", "+"];
const NODIFF_UN: [&str; 6] = ["abs", "signum", "floor", "ceil", "round", "cbrt"];
fn op_idx(tb: &[OpSpec], name: &str) -> usize { tb.iter().position(|o| o.repr == name).unwrap_or_else(|| panic!("no operator {name}")) }

fn gen_diff(r: &mut Rng, tb: &[OpSpec], depth: usize, allow_nodiff: bool, cond_ok: bool) -> Chain {
    let leaf = |r: &mut Rng| if r.chance(1, 2) { Atom::Var(["x", "Y", "z"][r.below(3)].to_string()) } else { Atom::Lit(["0.5", "2", "1.3", "3", "1", "0", "0.25", "1", "0"][r.below(9)].to_string()) };
    let atom = |r: &mut Rng, depth: usize| -> Atom {
        let c = r.below(12);
        if depth > 3 || c < 4 { leaf(r) }
        else if c < 7 { Atom::Group(vec![], gen_diff(r, tb, depth + 1, allow_nodiff, cond_ok)) }
        else {
            let name = if allow_nodiff && r.chance(1, 12) { NODIFF_UN[r.below(NODIFF_UN.len())] } else { DIFF_UN[r.below(DIFF_UN.len())] };
            let mut us = vec![op_idx(tb, name)];
            if r.chance(1, 4) { us.push(op_idx(tb, DIFF_UN[r.below(DIFF_UN.len())])); }
            Atom::Group(us, gen_diff(r, tb, depth + 1, allow_nodiff, cond_ok))
        }
    };
    let bins = ["+", "-", "*", "/", "^", "+", "*"];
    let n = r.below(3);
    let first = Box::new(atom(r, depth));
    let mut rest = vec![];
    for _ in 0..n {
        let name = if allow_nodiff && r.chance(1, 15) { ["min", "max", "atan2"][r.below(3)] } else { bins[r.below(bins.len())] };
        rest.push((op_idx(tb, name), atom(r, depth)));
    }
    Chain { first, rest }
}
/// central differences of the reference term; None where the function is not smooth enough to judge
fn num_partial(f: &Term, tb: &[OpSpec], pt: &[f64], i: usize) -> Option<f64> {
    let ev = |h: f64| { let mut p = pt.to_vec(); p[i] += h; interp(f, tb, &p) };
    let h = 1e-5;
    let d1 = (ev(h) - ev(-h)) / (2.0 * h);
    let d2 = (ev(2.0 * h) - ev(-2.0 * h)) / (4.0 * h);
    if !d1.is_finite() || !d2.is_finite() || (d1 - d2).abs() > 1e-4 * (1.0 + d1.abs()) || d1.abs() > 1e5 { None } else { Some(d1) }
}
fn points(nv: usize) -> Vec<Vec<f64>> { (0..4).map(|t| (0..nv).map(|k| 0.37 + 0.211 * k as f64 + 0.083 * t as f64 + 0.29 * ((k + t) % 2) as f64).collect()).collect() }

/// C05: the derivative term evaluates to the derivative (oracle: central differences of the reference term)
pub fn c05(a: &Args) -> CaseSet {
    let mut cs = CaseSet::default();
    let mut r = Rng::new(a.seed ^ 0x05);
    let tb = float_table();
    for text in ["x", "x*x", "sin(x)*y", "x^2", "2^x", "x^y", "sqrt(x)/y", "ln(x*y)", "tan(x)", "-cos(sin(x))", "x/2", "1/x", "exp(-x^2)", "atanh(x/2)", "acosh(1+x)", "log10(x)+log2(y)", "+-+x", "x+y*z-x/y^z",
                 "x^1", "x^0", "x^0*x", "sin(x)^1*y", "2*x^(3-2)+x^2", "x^(2-2)+x", "(x*y)^1", "x^1^2", "0^x+x", "1^x*x", "x*1", "x*0+y", "0/x+x", "x/1", "(x+0)*(y*1)", "sin(cos(x))", "sin(-x)", "exp(ln(sqrt(x)))", "tanh(sinh(cosh(x)))"] {
        set_table(&tb);
        use exmex::Express;
        let fx = FE::parse_wo_compile(Box::leak(text.to_string().into_boxed_str())).unwrap();
        let vars: Vec<String> = fx.var_names().to_vec(); let nv = vars.len();
        let f = fx.eval(&symvals(nv)).unwrap();
        for deep in [false, true] { for idx in 0..nv {
            let base = if deep { Prog::Deep(text.into()) } else { Prog::Flat(text.into()) };
            let (tb2, vars2, f2) = (tb.clone(), vars.clone(), f.clone());
            cs.add(&tb, Prog::Partial(vec![idx], 0, Box::new(base)), vec![Query::Vars, Query::Eval(nv), Query::Unparse], format!("corpus: d/dv{idx} {text}"), "corpus", 3, move |obs| {
                match (&obs[0], &obs[1]) {
                    (Obs::S(v), Obs::T(d)) => {
                        if *v != vars2 { return (Some(false), format!("variables {v:?} vs {vars2:?}")) }
                        for pt in points(vars2.len()) { if let Some(want) = num_partial(&f2, &tb2, &pt, idx) { let got = interp(d, &tb2, &pt); if got.is_finite() && (got - want).abs() > 1e-3 * (1.0 + want.abs()) { return (Some(false), format!("at {pt:?}: derivative expression gives {got}, central differences give {want}")) } } }
                        (Some(true), String::new())
                    }
                    _ => (Some(false), format!("{} / {}", pretty_obs(&obs[0]), pretty_obs(&obs[1]))),
                }
            });
        } }
    }
    // chains of unary operators with a sign inside (the rules of cos, acos and the unary minus negate an expression; the
    // outer derivative strips the latest unary operator): every total-domain function over a negated argument, in call and
    // juxtaposition form, first and second order, flat and deep
    {
        let us = ["sin", "cos", "tan", "exp", "sinh", "cosh", "tanh", "atan", "-", "+"];
        let mut texts: Vec<String> = vec![];
        for u1 in us { for form in 0..7 { texts.push(match form { 0 => format!("{u1}(-x)"), 1 => format!("{u1} -x"), 2 => format!("{u1}(-(x*0.7))"), 3 => format!("-{u1}(-x)*y"), 4 => format!("{u1}(+-x)"), 5 => format!("{u1}(-x*y)"), _ => format!("{u1}(-+x)+{u1} - x") }); }
            for u2 in us { texts.push(format!("{u1}({u2}(-x))")); texts.push(format!("{u1} {u2} -x")); texts.push(format!("{u1}(-{u2}(0.6*x))*x")); } }
        let take = if a.thorough { texts.len() } else { 90 };
        let mut order: Vec<usize> = (0..texts.len()).collect(); for i in (1..order.len()).rev() { let j = r.below(i + 1); order.swap(i, j); }
        for &ti in order.iter().take(take) {
            let text = &texts[ti];
            set_table(&tb);
            use exmex::Express;
            let Ok(fx) = FE::parse_wo_compile(Box::leak(text.to_string().into_boxed_str())) else { continue };
            let vars: Vec<String> = fx.var_names().to_vec(); let nv = vars.len();
            let f = fx.eval(&symvals(nv)).unwrap();
            for (deep, second) in [(false, false), (true, false), (ti % 2 == 0, true)] {
                let base = if deep { Prog::Deep(text.clone()) } else { Prog::Flat(text.clone()) };
                let (tb2, vars2, f2) = (tb.clone(), vars.clone(), f.clone());
                let idxs = if second { vec![0, 0] } else { vec![0] };
                cs.add(&tb, Prog::Partial(idxs, 0, Box::new(base)), vec![Query::Vars, Query::Eval(nv)], format!("unary chain: d{}/dx {text}", if second { "2" } else { "" }), "unary-chain-over-a-sign", 3, move |obs| {
                    match (&obs[0], &obs[1]) {
                        (Obs::S(v), Obs::T(d)) => {
                            if *v != vars2 { return (Some(false), format!("variables {v:?} vs {vars2:?}")) }
                            for pt in points(vars2.len()) {
                                let want = if second { let h = 1e-4; let ev = |k: f64| { let mut p = pt.clone(); p[0] += k; interp(&f2, &tb2, &p) };
                                        let d2 = (ev(h) - 2.0 * ev(0.0) + ev(-h)) / (h * h); let d2b = (ev(2.0 * h) - 2.0 * ev(0.0) + ev(-2.0 * h)) / (4.0 * h * h);
                                        if d2.is_finite() && d2b.is_finite() && (d2 - d2b).abs() <= 1e-3 * (1.0 + d2.abs()) && d2.abs() < 1e4 { Some(d2) } else { None } }
                                    else { num_partial(&f2, &tb2, &pt, 0) };
                                if let Some(want) = want { let got = interp(d, &tb2, &pt); if !got.is_finite() || (got - want).abs() > 2e-3 * (1.0 + want.abs()) { return (Some(false), format!("at {pt:?}: derivative expression gives {got}, differences of the reference give {want}")) } }
                            }
                            (Some(true), String::new())
                        }
                        _ => (Some(false), format!("{} / {}", pretty_obs(&obs[0]), pretty_obs(&obs[1]))),
                    }
                });
            }
        }
    }
    for text in ["abs(x)", "min(x, y)", "floor(x)+x"] {
        cs.add(&tb, Prog::Partial(vec![0], 0, Box::new(Prog::Flat(text.into()))), vec![Query::Vars], format!("corpus: d/dv0 {text}"), "missing-rule", 3, |obs| (Some(obs[0] == Obs::E), pretty_obs(&obs[0])));
    }
    // long single levels (22..30 operands) of equal-priority non-commutative operators with one or two tighter ones: the
    // order in which the value/derivative pairs of a level are combined
    {
        let mk = |n: usize, main: &str, tight: &[(usize, &str)]| -> String { let mut t = String::from("v00"); for i in 1..n { let op = tight.iter().find(|(p, _)| *p == i).map(|(_, o)| *o).unwrap_or(main); t.push_str(&format!("{op}v{i:02}")); } t };
        let texts = vec![mk(22, "-", &[(8, "*")]), mk(26, "-", &[(25, "*")]), mk(24, "/", &[(23, "^")]), mk(23, "-", &[(5, "/"), (17, "*")]), mk(30, "/", &[(9, "*"), (20, "*")])];
        for (ti, text) in texts.iter().enumerate() {
            set_table(&tb);
            use exmex::Express;
            let fx = FE::parse_wo_compile(Box::leak(text.to_string().into_boxed_str())).unwrap();
            let vars: Vec<String> = fx.var_names().to_vec(); let nv = vars.len();
            let f = fx.eval(&symvals(nv)).unwrap();
            for idx in [0usize, 3, 14, nv - 1] {
                if !(a.thorough || (ti + idx) % 2 == 0) { continue }
                let base = if (ti + idx) % 3 == 0 { Prog::Flat(text.clone()) } else { Prog::Deep(text.clone()) };
                let (tb2, vars2, f2) = (tb.clone(), vars.clone(), f.clone());
                cs.add(&tb, Prog::Partial(vec![idx], 0, Box::new(base)), vec![Query::Vars, Query::Eval(nv)], format!("long level: d/dv{idx} {text}"), "long-level", nv, move |obs| {
                    match (&obs[0], &obs[1]) {
                        (Obs::S(v), Obs::T(d)) => {
                            if *v != vars2 { return (Some(false), format!("variables {v:?} vs {vars2:?}")) }
                            let pt: Vec<f64> = (0..vars2.len()).map(|i| 0.8 + 0.07 * ((i * 7) % 11) as f64).collect();
                            if let Some(want) = num_partial(&f2, &tb2, &pt, idx) { let got = interp(d, &tb2, &pt); if !got.is_finite() || (got - want).abs() > 1e-3 * (1.0 + want.abs()) { return (Some(false), format!("at {pt:?}: derivative expression gives {got}, central differences give {want}")) } }
                            (Some(true), String::new())
                        }
                        _ => (Some(false), format!("{} / {}", pretty_obs(&obs[0]), pretty_obs(&obs[1]))),
                    }
                });
            }
        }
    }
    for i in 0..a.n {
        let allow_nodiff = i % 9 == 0;
        let ch = gen_diff(&mut r, &tb, 0, allow_nodiff, false);
        let text = render(&ch, &tb, &mut r, &RenderCfg::plain());
        let vars = sorted_vars(&ch); let nv = vars.len();
        if nv == 0 { continue }
        let f = ref_chain(&ch, &tb, &vars);
        // an operator without a rule only matters where it is applied to something that depends on a variable
        // (variable-free sub-expressions are folded to literals before differentiation)
        let has_nodiff = {
            fn dep(t: &Term) -> bool { match t { Term::Var(_) => true, Term::Un(_, a) => dep(a), Term::Bin(_, a, b) => dep(a) || dep(b), _ => false } }
            fn has(t: &Term, tb: &[OpSpec]) -> bool { match t {
                Term::Un(k, a) => (dep(a) && NODIFF_UN.contains(&tb[*k].repr.as_str())) || has(a, tb),
                Term::Bin(k, a, b) => ((dep(a) || dep(b)) && ["min", "max", "atan2"].contains(&tb[*k].repr.as_str())) || has(a, tb) || has(b, tb), _ => false } }
            has(&f, &tb) };
        let order = if r.chance(1, 4) { 2 } else { 1 };
        let idxs: Vec<usize> = (0..order).map(|_| r.below(nv)).collect();
        let base = match i % 3 { 0 => Prog::Flat(text.clone()), 1 => Prog::Deep(text.clone()), _ => Prog::ToDeep(Box::new(Prog::FlatWo(text.clone()))) };
        let prog = Prog::Partial(idxs.clone(), 0, Box::new(base));
        let qs = vec![Query::Vars, Query::Eval(nv), Query::Unparse];
        let (tb2, vars2, f2) = (tb.clone(), vars.clone(), f.clone());
        cs.add(&tb, prog, qs, format!("d/d{idxs:?} {text}"), if has_nodiff { "missing-rule" } else { "differentiable-tree" }, n_operands(&ch), move |obs| {
            if has_nodiff { return (Some(obs[0] == Obs::E), format!("an operator without a derivative rule must make differentiation fail: {}", pretty_obs(&obs[0]))) }
            match (&obs[0], &obs[1]) {
                (Obs::S(v), Obs::T(d)) => {
                    if *v != vars2 { return (Some(false), format!("variables of the derivative {v:?}, of the original {vars2:?}")) }
                    if idxs.len() > 1 { return (None, "higher order: value judged through C09".into()) }
                    for pt in points(vars2.len()) {
                        if let Some(want) = num_partial(&f2, &tb2, &pt, idxs[0]) {
                            let got = interp(d, &tb2, &pt);
                            if !got.is_finite() { continue }   // outside the interior of the derivative's domain
                            if (got - want).abs() > 1e-3 * (1.0 + want.abs()) { return (Some(false), format!("at {pt:?}: derivative expression gives {got}, central differences give {want}")) }
                        }
                    }
                    (Some(true), String::new())
                }
                (Obs::E, _) => (Some(false), "differentiation failed although every operator has a rule".into()),
                _ => (Some(false), format!("{} / {}", pretty_obs(&obs[0]), pretty_obs(&obs[1]))),
            }
        });
    }
    cs
}

/// C09: differentiation bookkeeping
pub fn c09(a: &Args) -> CaseSet {
    let mut cs = CaseSet::default();
    let mut r = Rng::new(a.seed ^ 0x09);
    let tb = float_table();
    // products of powers and sums at one level: every index sequence of length 2 and 3, iterated, against central
    // differences of the derivative one step shorter (variables vanish on the way; mixed partials in both orders)
    // ... and expressions whose derivative with respect to one variable is the expression itself (exp of a sum with slope 1),
    // where "nothing changed" must not be taken for "nothing left to do"
    // single derivatives taken one after the other on FLAT expressions (every step converts flat -> deep -> flat), also
    // where a derivative collapses to one variable or a number while the other variables stay listed
    let tbk: Vec<OpSpec> = { let mut t = vec![OpSpec::cst("K")]; t.extend(float_table()); t };   // a table whose first entry is a constant
    for (text, tb) in [("x*y+z", &tb), ("x*sin(y)", &tb), ("x*y", &tb), ("a*b+c", &tb), ("x*y^2", &tb), ("x+y+z", &tb), ("sin(x)*y+z*z", &tb), ("K*x*x*y+y", &tbk), ("x*x*y*y", &tbk), ("sin(x*y)+K", &tbk)] {
        let tb = tb.clone();
        set_table(&tb);
        use exmex::Express;
        let fx = FE::parse_wo_compile(Box::leak(text.to_string().into_boxed_str())).unwrap();
        let names: Vec<String> = fx.var_names().to_vec(); let nv = names.len();
        for i in 0..nv { for j in 0..nv { for third in [None, Some((i + j + 1) % nv)] {
            for (bi, base) in [Prog::Flat(text.to_string()), Prog::ToFlat(Box::new(Prog::Deep(text.to_string())))].into_iter().enumerate() {
                if (i + j + bi) % 2 == 1 && third.is_some() { continue }
                let mut p = Prog::Partial(vec![j], 0, Box::new(Prog::Partial(vec![i], 0, Box::new(base))));
                if let Some(k) = third { p = Prog::Partial(vec![k], 0, Box::new(p)); }
                let names2 = names.clone();
                cs.add(&tb, p, vec![Query::Vars, Query::Eval(nv)], format!("one after the other: d/d{i}, d/d{j}{} of the flat {text}", third.map(|k| format!(", d/d{k}")).unwrap_or_default()), "sequential-single-derivatives-on-flat", 3, move |obs| {
                    match &obs[0] { Obs::S(v) => (Some(*v == names2), format!("variables {v:?}, the antiderivative has {names2:?}")), other => (Some(false), format!("{}", pretty_obs(other))) } });
            }
        } } }
    }
    for text in ["x*y^2", "(a+b)*c^3", "x^2*y^3*z", "a*b*c", "x*y^2+z*x", "y^2*x-z/y", "a^2*c^3+b", "x*z^2/y",
                 "exp(x+2*y)", "exp(x+y)*z", "exp(y+x*z)", "exp(x+3*y)+exp(z+2*x)", "x+exp(y+3*z)", "exp(x)*exp(2*y)", "sinh(x)+cosh(x)+y*x", "exp(a+b*b+2*c)"] {
        set_table(&tb);
        use exmex::Express;
        let fx = FE::parse_wo_compile(Box::leak(text.to_string().into_boxed_str())).unwrap();
        let nv = fx.var_names().len();
        let mut seqs: Vec<Vec<usize>> = vec![];
        for i in 0..nv { for j in 0..nv { seqs.push(vec![i, j]); for k in 0..nv { if (i + j + k) % 2 == 0 { seqs.push(vec![i, j, k]) } } } }
        for (n, idxs) in seqs.into_iter().enumerate() {
            let mk = |w: usize| match w % 3 { 0 => Prog::Flat(text.to_string()), 1 => Prog::Deep(text.to_string()), _ => Prog::FlatWo(text.to_string()) };
            let qs = vec![Query::Vars, Query::Eval(nv)];
            let ip = cs.add(&tb, Prog::Partial(idxs[..idxs.len() - 1].to_vec(), 0, Box::new(mk(n))), qs.clone(), format!("prefix d/d{:?} {text}", &idxs[..idxs.len() - 1]), "polynomial-prefix", 3, |_| (None, String::new()));
            let dprev = cs.cases[ip].obs[1].clone();
            let (tb2, idxs2) = (tb.clone(), idxs.clone());
            cs.add(&tb, Prog::Partial(idxs.clone(), 0, Box::new(mk(n + 1))), qs.clone(), format!("d/d{idxs:?} {text}"), "polynomial-sequences", 3, move |obs| {
                match (&dprev, &obs[1]) {
                    (Obs::T(dp), Obs::T(dl)) => {
                        let j = *idxs2.last().unwrap();
                        for pt in points(nv) {
                            if let Some(want) = num_partial(dp, &tb2, &pt, j) { let got = interp(dl, &tb2, &pt);
                                if !got.is_finite() || (got - want).abs() > 2e-3 * (1.0 + want.abs()) { return (Some(false), format!("d/d{j} of the previous derivative is {want} at {pt:?} (central differences), the expression gives {got}")) } }
                        }
                        (Some(true), String::new())
                    }
                    _ => (Some(false), format!("{} / {}", pretty_obs(&obs[0]), pretty_obs(&obs[1]))),
                }
            });
        }
    }
    for i in 0..a.n {
        let ch = gen_diff(&mut r, &tb, 2, false, false);
        let text = render(&ch, &tb, &mut r, &RenderCfg::plain());
        let vars = sorted_vars(&ch); let nv = vars.len();
        let f = ref_chain(&ch, &tb, &vars);
        let mk = |r: &mut Rng| match r.below(3) { 0 => Prog::Flat(text.clone()), 1 => Prog::Deep(text.clone()), _ => Prog::FlatWo(text.clone()) };
        // index sequences of length 0..4 incl. out-of-range entries
        // order 4 only for small expressions (the size of a derivative grows quickly)
        let len = if n_operands(&ch) <= 2 { r.below(5) } else if n_operands(&ch) <= 4 { r.below(4) } else { r.below(3) };
        let bad = r.chance(1, 3);
        let mut idxs: Vec<usize> = (0..len).map(|_| if nv == 0 { 0 } else { r.below(nv) }).collect();
        if bad || nv == 0 { if idxs.is_empty() { idxs.push(nv) } else { let k = r.below(idxs.len()); idxs[k] = nv + r.below(3); } }
        let out_of_range = idxs.iter().any(|j| *j >= nv);
        let mode = if i % 5 == 0 { 1 + r.below(2) } else { 0 };
        let prog = Prog::Partial(idxs.clone(), mode, Box::new(mk(&mut r)));
        // the same derivative as a sequence of single steps
        let seq = idxs.iter().fold(mk(&mut r), |p, j| Prog::Partial(vec![*j], mode, Box::new(p)));
        let qs = vec![Query::Vars, Query::Eval(nv), Query::Relaxed(nv.saturating_sub(1)), Query::Eval(nv.saturating_sub(1))];
        let (tb2, vars2, f2, idxs2) = (tb.clone(), vars.clone(), f.clone(), idxs.clone());
        let i1 = cs.add(&tb, prog, qs.clone(), format!("d/d{idxs:?} {text}"), if out_of_range { "index-out-of-range" } else { "index-sequence" }, n_operands(&ch).max(2), move |obs| {
            if out_of_range { return (Some(obs[0] == Obs::E), format!("an index >= {} must be rejected: {}", vars2.len(), pretty_obs(&obs[0]))) }
            match (&obs[0], &obs[1]) {
                (Obs::S(v), Obs::T(d)) => {
                    if *v != vars2 { return (Some(false), format!("variables {v:?} vs {vars2:?}")) }
                    // the same value slice evaluates both: one value too few is an error for the derivative too (also relaxed), even when the variable has vanished
                    if vars2.len() > 0 && (!matches!(obs[2], Obs::E) || !matches!(obs[3], Obs::E)) { return (Some(false), format!("one value too few: eval_relaxed {}, eval {}", pretty_obs(&obs[2]), pretty_obs(&obs[3]))) }
                    if idxs2.is_empty() { // order zero is the identity
                        for pt in points(vars2.len()) { let (x, y) = (interp(d, &tb2, &pt), interp(&f2, &tb2, &pt)); if x.is_finite() && y.is_finite() && (x - y).abs() > 1e-9 * (1.0 + y.abs()) { return (Some(false), format!("order zero changed the value at {pt:?}: {x} vs {y}")) } }
                    }
                    (Some(true), String::new())
                }
                _ => (Some(false), format!("{} / {}", pretty_obs(&obs[0]), pretty_obs(&obs[1]))),
            }
        });
        if !out_of_range && !idxs.is_empty() {
            // the last step against central differences of the derivative before it (an oracle that does not use partial twice)
            let prefix = Prog::Partial(idxs[..idxs.len() - 1].to_vec(), mode, Box::new(mk(&mut r)));
            let ip = cs.add(&tb, prefix, qs.clone(), format!("prefix d/d{:?} {text}", &idxs[..idxs.len() - 1]), "prefix-of-sequence", n_operands(&ch).max(2), |_| (None, String::new()));
            if let (Obs::T(dprev), Obs::T(dlast)) = (&cs.cases[ip].obs[1].clone(), &cs.cases[i1].obs[1].clone()) {
                let j = *idxs.last().unwrap();
                let mut ok = true; let mut note = String::new();
                for pt in points(nv) {
                    if !all_finite(dprev, &tb, &pt) || on_boundary(dprev, &tb, &pt, j) { continue }
                    if let Some(want) = num_partial(dprev, &tb, &pt, j) { let got = interp(dlast, &tb, &pt);
                        if got.is_finite() && (got - want).abs() > 2e-3 * (1.0 + want.abs()) { ok = false; note = format!("d/d{j} of the previous derivative is {want} at {pt:?} (central differences), the expression gives {got}"); } }
                }
                if cs.cases[i1].oracle_ok != Some(false) && !ok { cs.cases[i1].oracle_ok = Some(false); cs.cases[i1].oracle_note = note; }
            }
            let i2 = cs.add(&tb, seq, qs.clone(), format!("sequential d/d{idxs:?} {text}"), "sequential-steps", n_operands(&ch).max(2), |_| (None, String::new()));
            // iterated == sequential (numerically, wherever both are finite); mixed partials symmetric
            let (o1, o2) = (cs.cases[i1].obs.clone(), cs.cases[i2].obs.clone());
            let mut ok = o1[0] == o2[0]; let mut note = if ok { String::new() } else { "variable lists differ".to_string() };
            if let (Obs::T(d1), Obs::T(d2)) = (&o1[1], &o2[1]) {
                for pt in points(nv) { let (x, y) = (interp(d1, &tb, &pt), interp(d2, &tb, &pt)); if x.is_finite() && y.is_finite() && (x - y).abs() > 1e-6 * (1.0 + y.abs()) { ok = false; note = format!("iterated {x} vs sequential {y} at {pt:?}"); } }
            } else { ok = false; note = "one of the two failed".into(); }
            cs.cases[i2].oracle_ok = Some(ok); cs.cases[i2].oracle_note = note;
            if idxs.len() == 2 && idxs[0] != idxs[1] {
                let swapped = Prog::Partial(vec![idxs[1], idxs[0]], mode, Box::new(mk(&mut r)));
                let i3 = cs.add(&tb, swapped, qs.clone(), format!("d/d[{},{}] {text}", idxs[1], idxs[0]), "mixed-partials", n_operands(&ch).max(2), |_| (None, String::new()));
                if let (Obs::T(d1), Obs::T(d3)) = (&o1[1], &cs.cases[i3].obs[1].clone()) {
                    let mut ok = true; let mut note = String::new();
                    for pt in points(nv) { let (x, y) = (interp(d1, &tb, &pt), interp(d3, &tb, &pt)); if x.is_finite() && y.is_finite() && x.abs() < 1e6 && (x - y).abs() > 1e-5 * (1.0 + y.abs()) { ok = false; note = format!("mixed partials {x} vs {y} at {pt:?}"); } }
                    cs.cases[i3].oracle_ok = Some(ok); cs.cases[i3].oracle_note = note;
                }
            }
        }
    }
    cs
}

/// C10 (second half): the arithmetic operators on deep expressions with their neutral-element shortcuts
/// neutral elements that carry variable names (x*0 is the literal zero over [x], z^0 the literal one over [z]) as operands of
/// every overloaded operator, on either side: the result must list the sorted union, reject wrong arities and keep the value
fn add_named_neutral(cs: &mut CaseSet, tb: &Vec<OpSpec>) {

        set_table(&tb);
        use exmex::Express;
        let leaf = |t: &str| -> (Prog, Term, Vec<String>) {
            let f = FE::parse_wo_compile(Box::leak(t.to_string().into_boxed_str())).unwrap();
            let vars: Vec<String> = f.var_names().to_vec();
            let term = f.eval(&symvals(vars.len())).unwrap();
            (Prog::Deep(t.to_string()), term, vars)
        };
        let comb = |k: usize, a: &(Prog, Term, Vec<String>), b: &(Prog, Term, Vec<String>)| -> (Prog, Term, Vec<String>) {
            let mut vars: Vec<String> = a.2.iter().chain(b.2.iter()).cloned().collect(); vars.sort(); vars.dedup();
            fn go(t: &Term, from: &[String], to: &[String]) -> Term { match t { Term::Var(i) => Term::Var(to.iter().position(|v| *v == from[*i]).unwrap()), Term::Un(k, a) => Term::Un(*k, Box::new(go(a, from, to))), Term::Bin(k, a, b) => Term::Bin(*k, Box::new(go(a, from, to)), Box::new(go(b, from, to))), x => x.clone() } }
            let name = ["+", "-", "*", "/", "^"][k];
            (Prog::Arith(k, Box::new(a.0.clone()), Box::new(b.0.clone())), tbin(op_idx(&tb, name), go(&a.1, &a.2, &vars), go(&b.1, &b.2, &vars)), vars)
        };
        let neutrals: Vec<(Prog, Term, Vec<String>)> = vec![
            comb(2, &leaf("x"), &leaf("0")), comb(2, &leaf("0"), &leaf("x*w")), comb(4, &leaf("z"), &leaf("0")), comb(3, &leaf("0"), &leaf("x+2")),
            comb(2, &leaf("1"), &comb(4, &leaf("v"), &leaf("0"))),
        ];
        let others = ["y", "2*y", "y+x", "3", "sin(y)*u"];
        for nt in &neutrals {
            for o in others {
                let ot = leaf(o);
                for k in 0..5 {
                    for (pa, pb) in [(nt, &ot), (&ot, nt)] {
                        let (prog, want, vars) = comb(k, pa, pb);
                        let nv = vars.len();
                        let qs = vec![Query::Vars, Query::Eval(nv), Query::Eval(nv.saturating_sub(1)), Query::Eval(nv + 1), Query::Relaxed(nv.saturating_sub(1)), Query::Relaxed(nv + 1)];
                        let (tb2, vars2) = (tb.clone(), vars.clone());
                        cs.add(&tb, prog, qs, "neutral element with names".to_string(), "shortcuts-named-neutral", 3, move |obs| {
                            match (&obs[0], &obs[1]) {
                                (Obs::E, _) => (None, "rejected (0^0)".into()),
                                (Obs::S(v), Obs::T(got)) => {
                                    if *v != vars2 { return (Some(false), format!("variables {v:?}, expected the sorted union {vars2:?}")) }
                                    if vars2.len() > 0 && !matches!(obs[2], Obs::E) { return (Some(false), format!("evaluation with one value too few: {}", pretty_obs(&obs[2]))) }
                                    if !matches!(obs[3], Obs::E) { return (Some(false), format!("evaluation with one value too many: {}", pretty_obs(&obs[3]))) }
                                    // the relaxed evaluation: too few values are an error although the variable that has no value may not occur any more; surplus values are ignored
                                    if vars2.len() > 0 && !matches!(obs[4], Obs::E) { return (Some(false), format!("eval_relaxed with one value too few: {}", pretty_obs(&obs[4]))) }
                                    if !matches!(obs[5], Obs::T(_)) { return (Some(false), format!("eval_relaxed with one value too many: {}", pretty_obs(&obs[5]))) }
                                    for pt in points(vars2.len()) {
                                        let w = interp(&want, &tb2, &pt);
                                        if !all_finite(&want, &tb2, &pt) { continue }
                                        let g = interp(got, &tb2, &pt);
                                        if !(g == w || (g - w).abs() <= 1e-9 * (1.0 + w.abs())) { return (Some(false), format!("value {g} vs unsimplified {w} at {pt:?}")) }
                                    }
                                    (Some(true), String::new())
                                }
                                _ => (Some(false), format!("{} / {}", pretty_obs(&obs[0]), pretty_obs(&obs[1]))),
                            }
                        });
                    }
                }
            }
        }
    
}
pub fn c10s(a: &Args) -> CaseSet {
    let mut cs = CaseSet::default();
    let mut r = Rng::new(a.seed ^ 0x1010);
    let tb = float_table();
    let seeds = ["0", "1", "x", "y", "x+1", "0*x", "1*y", "2", "x-x", "sin(0)", "cos(0)", "x*y", "(x)", "-(0)", "+1", "0.0", "1.0", "z^1", "z^0", "-1", "(0)", "((1))", "sin(1)",
        "x^2", "0.5", "3", "(x+y)^2", "y^2", "-x", "1.5", "x^3", "x*x", "2*x", "x/2", "0.25", "-2", "-y*y"];
    for _ in 0..a.n {
        let mut pool: Vec<(Prog, Term, Vec<String>)> = vec![];   // program, reference term over its own sorted variables
        for _ in 0..4 {
            let t = seeds[r.below(seeds.len())];
            // reference through the tree of the text: parse it with the implementation-independent generator? the seeds are
            // simple enough to take the unfolded flat parse as reference term (C01 decides that route separately)
            set_table(&tb);
            let f = match FE::parse_wo_compile(Box::leak(t.to_string().into_boxed_str())) { Ok(f) => f, Err(_) => continue };
            use exmex::Express;
            let vars: Vec<String> = f.var_names().to_vec();
            let term = f.eval(&symvals(vars.len())).unwrap();
            pool.push((if r.chance(1, 2) { Prog::Deep(t.to_string()) } else { Prog::Flat(t.to_string()) }, term, vars));
        }
        if pool.len() < 2 { continue }
        let steps = 1 + r.below(6);
        for _ in 0..steps {
            let (i, j) = (r.below(pool.len()), r.below(pool.len()));
            let k = r.below(9);
            let (pa, ta, va) = pool[i].clone(); let (pb, tbm, vb) = pool[j].clone();
            let mut vars: Vec<String> = va.iter().chain(vb.iter()).cloned().collect(); vars.sort(); vars.dedup();
            let remap = |t: &Term, from: &[String]| -> Term { fn go(t: &Term, from: &[String], to: &[String]) -> Term { match t { Term::Var(i) => Term::Var(to.iter().position(|v| *v == from[*i]).unwrap()), Term::Un(k, a) => Term::Un(*k, Box::new(go(a, from, to))), Term::Bin(k, a, b) => Term::Bin(*k, Box::new(go(a, from, to)), Box::new(go(b, from, to))), x => x.clone() } } go(t, from, &vars) };
            let (ra, rb) = (remap(&ta, &va), remap(&tbm, &vb));
            let (np, nt, nv) = if k < 5 {
                let name = ["+", "-", "*", "/", "^"][k];
                (Prog::Arith(k, Box::new(pa), Box::new(pb)), tbin(op_idx(&tb, name), ra, rb), vars.clone())
            } else if k == 5 { (Prog::Neg(Box::new(pa)), tun(op_idx(&tb, "-"), ta.clone()), va.clone()) }
            else {
                // a unary operator (by name, or through the named helper) on top of what the shortcuts returned
                let name = ["cos", "exp", "sin", "abs", "cosh"][r.below(5)];
                let p = if k == 6 { Prog::Un(name.into(), Box::new(pa)) } else { Prog::HelperUn(name.into(), Box::new(pa)) };
                (p, tun(op_idx(&tb, name), ta.clone()), va.clone())
            };
            pool.push((np, nt, nv));
        }
        let (prog, want, vars) = pool.last().unwrap().clone();
        let nv = vars.len();
        let qs = vec![Query::Vars, Query::Eval(nv)];
        let (tb2, vars2) = (tb.clone(), vars.clone());
        cs.add(&tb, prog, qs, format!("{steps} arithmetic steps"), "shortcuts", steps + 1, move |obs| {
            match (&obs[0], &obs[1]) {
                (Obs::E, _) => (None, "rejected (0^0)".into()),
                (Obs::S(v), Obs::T(got)) => {
                    if *v != vars2 { return (Some(false), format!("variables {v:?}, expected the sorted union {vars2:?}")) }
                    // positive points and points with negative coordinates (a power of a power is not the power of the product there)
                    let mut pts = points(vars2.len()); for (t, p) in points(vars2.len()).into_iter().enumerate() { pts.push(p.iter().enumerate().map(|(k, c)| if (k + t) % 2 == 0 { -c * 2.3 } else { *c }).collect()); pts.push(p.iter().map(|c| -c).collect()); }
                    for pt in pts {
                        let w = interp(&want, &tb2, &pt);
                        if !all_finite(&want, &tb2, &pt) { continue }   // the property speaks about assignments where the unsimplified form is finite
                        let g = interp(got, &tb2, &pt);
                        if !(g == w || (g - w).abs() <= 1e-9 * (1.0 + w.abs())) { return (Some(false), format!("value {g} vs unsimplified {w} at {pt:?}")) }
                    }
                    (Some(true), String::new())
                }
                _ => (Some(false), format!("{} / {}", pretty_obs(&obs[0]), pretty_obs(&obs[1]))),
            }
        });
    }
    // powers of powers and products of powers with literal exponents, through the pow method (Arith 4), on deep and flat
    // operands: (x^2)^0.5 is |x|, not x
    for (bi, base) in ["x^2", "(x+y)^2", "x^4", "(x*y)^2", "x^0.5", "(-x)^2", "x^3"].iter().enumerate() {
        for (ei, e) in ["0.5", "2", "1.5", "0.25", "3", "-1"].iter().enumerate() {
            set_table(&tb);
            use exmex::Express;
            let Ok(fb) = FE::parse_wo_compile(Box::leak(base.to_string().into_boxed_str())) else { continue };
            let vars: Vec<String> = fb.var_names().to_vec(); let nv = vars.len();
            let tbase = fb.eval(&symvals(nv)).unwrap();
            let te = FE::parse_wo_compile(Box::leak(e.to_string().into_boxed_str())).unwrap().eval(&[]).unwrap();
            let want = tbin(op_idx(&tb, "^"), tbase.clone(), te.clone());
            let pb = if (bi + ei) % 2 == 0 { Prog::Deep(base.to_string()) } else { Prog::Flat(base.to_string()) };
            let pe = if ei % 2 == 0 { Prog::Deep(e.to_string()) } else { Prog::Flat(e.to_string()) };
            for route in 0..2 {
                let prog = if route == 0 { Prog::Arith(4, Box::new(pb.clone()), Box::new(pe.clone())) } else { Prog::HelperBin("^".into(), Box::new(pb.clone()), Box::new(pe.clone())) };
                let (tb2, vars2, want2) = (tb.clone(), vars.clone(), want.clone());
                cs.add(&tb, prog, vec![Query::Vars, Query::Eval(nv)], format!("({base}) ^ {e} ({})", if route == 0 { "pow method" } else { "^ overload" }), "power-of-a-power", 3, move |obs| {
                    match (&obs[0], &obs[1]) {
                        (Obs::S(v), Obs::T(got)) => {
                            if *v != vars2 { return (Some(false), format!("variables {v:?}, expected {vars2:?}")) }
                            let mut pts = points(vars2.len()); for p in points(vars2.len()) { pts.push(p.iter().map(|c| -c * 1.7).collect()); pts.push(p.iter().enumerate().map(|(k, c)| if k % 2 == 0 { -c } else { *c }).collect()); }
                            for pt in pts {
                                if !all_finite(&want2, &tb2, &pt) { continue }
                                let (w, g) = (interp(&want2, &tb2, &pt), interp(got, &tb2, &pt));
                                if !(g == w || (g - w).abs() <= 1e-9 * (1.0 + w.abs())) { return (Some(false), format!("value {g} vs unsimplified {w} at {pt:?}")) }
                            }
                            (Some(true), String::new())
                        }
                        _ => (Some(false), format!("{} / {}", pretty_obs(&obs[0]), pretty_obs(&obs[1]))),
                    }
                });
            }
        }
    }
    // a neutral element that a shortcut returned (a plain number that still carries variable names), a unary operator
    // on top of it (by name or through the named helper), and the result as an operand of every overloaded operator on
    // either side: the unary operator must not be forgotten by the next shortcut test
    {
        let v = |n: &str| Prog::Deep(n.to_string());
        let tv = |i: usize| Term::Var(i);
        let tl = |n: &str| Term::Lit(n.to_string());
        let o = |n: &str| op_idx(&tb, n);
        // (program, its term over [x, y], i.e. x = Var 0, y = Var 1)
        let neutrals: Vec<(Prog, Term)> = vec![
            (Prog::Arith(2, Box::new(v("0")), Box::new(v("y"))), tbin(o("*"), tl("0"), tv(1))),
            (Prog::Arith(2, Box::new(v("y")), Box::new(v("0"))), tbin(o("*"), tv(1), tl("0"))),
            (Prog::Arith(3, Box::new(v("0")), Box::new(v("y"))), tbin(o("/"), tl("0"), tv(1))),
            (Prog::Arith(4, Box::new(v("y")), Box::new(v("0"))), tbin(o("^"), tv(1), tl("0"))),
            (Prog::Arith(4, Box::new(v("1")), Box::new(v("y"))), tbin(o("^"), tl("1"), tv(1))),
            (Prog::Arith(1, Box::new(v("y")), Box::new(v("y"))), tbin(o("-"), tv(1), tv(1))),
        ];
        let mut count = 0usize;
        for (ni, (np, nt)) in neutrals.iter().enumerate() { for (ui, un) in ["cos", "exp", "sin", "-", "abs", "ln", "cosh"].iter().enumerate() { for k in 0..5usize { for side in 0..2usize {
            count += 1;
            if !(a.thorough || (ni + ui + k + side) % 3 == 0) { continue }
            let up = match (ui + k) % 3 { 0 => Prog::Un(un.to_string(), Box::new(np.clone())), 1 => Prog::HelperUn(un.to_string(), Box::new(np.clone())), _ => if *un == "-" { Prog::Neg(Box::new(np.clone())) } else { Prog::Un(un.to_string(), Box::new(np.clone())) } };
            let ut = tun(o(un), nt.clone());
            let name = ["+", "-", "*", "/", "^"][k];
            let (prog, want) = if side == 0 { (Prog::Arith(k, Box::new(v("x")), Box::new(up)), tbin(o(name), tv(0), ut)) } else { (Prog::Arith(k, Box::new(up), Box::new(v("x"))), tbin(o(name), ut, tv(0))) };
            let vars2 = vec!["x".to_string(), "y".to_string()]; let tb2 = tb.clone();
            cs.add(&tb, prog, vec![Query::Vars, Query::Eval(2)], format!("unary {un} over neutral #{ni}, then {name} (side {side})"), "unary-over-neutral", 4, move |obs| {
                match (&obs[0], &obs[1]) {
                    (Obs::E, _) => (None, "rejected (0^0)".into()),
                    (Obs::S(vs), Obs::T(got)) => {
                        if *vs != vars2 { return (Some(false), format!("variables {vs:?}, expected {vars2:?}")) }
                        for pt in points(2) {
                            if !all_finite(&want, &tb2, &pt) { continue }
                            let (g, w) = (interp(got, &tb2, &pt), interp(&want, &tb2, &pt));
                            if !(g == w || (g - w).abs() <= 1e-9 * (1.0 + w.abs())) { return (Some(false), format!("value {g} vs unsimplified {w} at {pt:?}")) }
                        }
                        (Some(true), String::new())
                    }
                    _ => (Some(false), format!("{} / {}", pretty_obs(&obs[0]), pretty_obs(&obs[1]))),
                }
            });
        } } } }
        let _ = count;
    }
    add_named_neutral(&mut cs, &tb);
    cs
}
/// every intermediate value of the term is finite and no power has base zero with a non-positive exponent
fn all_finite(t: &Term, tb: &[OpSpec], pt: &[f64]) -> bool {
    let v = interp(t, tb, pt);
    v.is_finite() && match t {
        Term::Un(_, a) => all_finite(a, tb, pt),
        Term::Bin(k, a, b) => all_finite(a, tb, pt) && all_finite(b, tb, pt) && !(tb[*k].repr == "^" && interp(a, tb, pt) == 0.0 && interp(b, tb, pt) <= 0.0),
        _ => true }
}

/// the point lies on a branch boundary with respect to variable idx: some comparison that depends on it has equal sides
fn on_boundary(t: &Term, tb: &[OpSpec], pt: &[f64], idx: usize) -> bool {
    fn dep(t: &Term, idx: usize) -> bool { match t { Term::Var(i) => *i == idx, Term::Un(_, a) => dep(a, idx), Term::Bin(_, a, b) => dep(a, idx) || dep(b, idx), _ => false } }
    match t {
        Term::Un(_, a) => on_boundary(a, tb, pt, idx),
        Term::Bin(k, a, b) => {
            let cmp = [">", "<", ">=", "<=", "==", "!="].contains(&tb[*k].repr.as_str());
            (cmp && (dep(a, idx) || dep(b, idx)) && (interp(a, tb, pt) - interp(b, tb, pt)).abs() < 1e-3) || on_boundary(a, tb, pt, idx) || on_boundary(b, tb, pt, idx)
        }
        _ => false }
}
/// C18: piecewise expressions over the value table's names, on the term algebra
pub fn c18(a: &Args) -> CaseSet {
    let mut cs = CaseSet::default();
    let mut r = Rng::new(a.seed ^ 0x18);
    let tb = val_table();
    let conds = ["x > 0.7", "y <= 0.5", "x < y", "x >= 1", "x + y > 1.3", "x != 2", "x == y", "y != 0.5", "y == 0.453", "x + y != x + 1", "x == 0.37", "y != 0.453", "x != 0.37"];
    fn gen_pw(r: &mut Rng, tb: &[OpSpec], depth: usize, conds: &[&str]) -> String {
        if depth < 2 && r.chance(1, 2) {
            let c = conds[r.below(conds.len())];
            let (a, b) = (gen_pw(r, tb, depth + 1, conds), gen_pw(r, tb, depth + 1, conds));
            if r.chance(1, 2) { format!("({a}) if {c} else ({b})") } else { format!("2 * (({a}) if {c} else ({b})) + x") }
        } else {
            let ch = gen_diff_val(r, tb, 2);
            render(&ch, tb, r, &RenderCfg::plain())
        }
    }
    fn gen_diff_val(r: &mut Rng, tb: &[OpSpec], depth: usize) -> Chain {
        // the differentiable operators of the value table (no log: `log` exists, all the rule names exist there)
        let leaf = |r: &mut Rng| if r.chance(1, 2) { Atom::Var(["x", "y"][r.below(2)].to_string()) } else { Atom::Lit(["0.5", "2", "1.5", "3", "1"][r.below(5)].to_string()) };
        let atom = |r: &mut Rng, depth: usize| -> Atom {
            let c = r.below(10);
            if depth > 3 || c < 5 { leaf(r) } else if c < 7 { Atom::Group(vec![], gen_diff_val(r, tb, depth + 1)) }
            else { let name = ["sin", "cos", "exp", "sqrt", "ln", "tanh", "-", "atan", "log10"][r.below(9)]; Atom::Group(vec![op_idx(tb, name)], gen_diff_val(r, tb, depth + 1)) } };
        let n = r.below(3); let first = Box::new(atom(r, depth)); let mut rest = vec![];
        for _ in 0..n { rest.push((op_idx(tb, ["+", "-", "*", "/", "+", "*"][r.below(6)]), atom(r, depth))); }
        Chain { first, rest }
    }
    for text in ["x/2", "log10(y-x/3)", "(x*x) if x > 1 else (x/3)", "x if x > y else y", "2*((x*y) if x < y else (x+y))+x", "(x/3) if x != 2 else (y/3)"] {
        cs.add(&tb, Prog::Partial(vec![0], 0, Box::new(Prog::Flat(text.into()))), vec![Query::Vars, Query::Relaxed(2), Query::Unparse], format!("corpus: {text}"), "corpus", 3, |_| (None, String::new()));
    }
    for i in 0..a.n {
        let text = gen_pw(&mut r, &tb, 0, &conds);
        set_table(&tb);
        use exmex::Express;
        let f = match FE::parse_wo_compile(Box::leak(text.clone().into_boxed_str())) { Ok(f) => f, Err(_) => continue };
        let vars: Vec<String> = f.var_names().to_vec(); let nv = vars.len();
        if nv == 0 { continue }
        let fterm = f.eval(&symvals(nv)).unwrap();
        let idx = r.below(nv);
        let base = if i % 2 == 0 { Prog::Flat(text.clone()) } else { Prog::Deep(text.clone()) };
        let (tb2, vars2) = (tb.clone(), vars.clone());
        cs.add(&tb, Prog::Partial(vec![idx], 0, Box::new(base)), vec![Query::Vars, Query::Eval(nv), Query::Unparse], format!("d/dv{idx} {text}"), if text.contains(" if ") { "piecewise" } else { "arithmetic" }, 3, move |obs| {
            match (&obs[0], &obs[1]) {
                (Obs::S(v), Obs::T(d)) => {
                    if *v != vars2 { return (Some(false), format!("variables {v:?} vs {vars2:?}")) }
                    let mut pts = points(vars2.len());
                    // points where the comparisons with == / != on the other variable are decided the rare way
                    pts.push(vec![0.37, 0.453]); pts.push(vec![0.91, 0.5]); pts.push(vec![0.37, 0.5]);
                    for pt in pts.into_iter().filter(|p| p.len() >= vars2.len()).map(|p| p[..vars2.len()].to_vec()) {
                        if on_boundary(&fterm, &tb2, &pt, idx) { continue }
                        if let Some(want) = num_partial(&fterm, &tb2, &pt, idx) {
                            let got = interp(d, &tb2, &pt);
                            if !got.is_finite() { continue }
                            if (got - want).abs() > 1e-3 * (1.0 + want.abs()) { return (Some(false), format!("at {pt:?}: derivative expression gives {got}, central differences of the selected branch give {want}")) }
                        }
                    }
                    (Some(true), String::new())
                }
                _ => (Some(false), format!("{} / {}", pretty_obs(&obs[0]), pretty_obs(&obs[1]))),
            }
        });
    }
    cs
}

// ------------------------------------------------------------------------------------------------
/// follow-up calls on everything that parses, on the f64 and Val entry points (no model involved): returns the
/// name of the first call that panicked
pub fn follow_up_f64(t: &str) -> Result<(), String> {
    use exmex::prelude::*;
    use exmex::{DeepEx, Differentiate};
    macro_rules! guard { ($name:expr, $e:expr) => { if std::panic::catch_unwind(std::panic::AssertUnwindSafe(|| { let _ = $e; })).is_err() { return Err($name.to_string()) } } }
    guard!("eval_str", exmex::eval_str::<f64>(t));
    guard!("line_2_statement", exmex::statements::line_2_statement::<f64, exmex::FloatOpsFactory<f64>, exmex::NumberMatcher>(t));
    let f = match std::panic::catch_unwind(|| FlatEx::<f64>::parse(t)) { Err(_) => return Err("FlatEx::parse".into()), Ok(r) => r };
    if let Ok(f) = f {
        let n = f.var_names().len(); let vals = vec![1.5; n];
        guard!("eval", f.eval(&vals)); guard!("eval_relaxed", f.eval_relaxed(&vals)); guard!("eval_vec", f.eval_vec(vals.clone())); guard!("unparse", f.unparse().len());
        guard!("reprs", (f.binary_reprs(), f.unary_reprs(), f.operator_reprs())); guard!("var_indices_ordered", f.var_indices_ordered());
        guard!("to_deepex", f.clone().to_deepex().map(|d| { let _ = d.eval(&vals); let _ = d.unparse().len(); let _ = d.operator_reprs(); let _ = FlatEx::<f64>::from_deepex(d.clone()).map(|g| g.eval(&vals)); if n > 0 { let _ = d.partial(0).map(|p| p.eval(&vals)); } }));
        if n > 0 { guard!("partial", f.clone().partial(0).map(|p| p.eval(&vals))); guard!("partial_nth", f.clone().partial_nth(n - 1, 2)); }
        guard!("operate_unary", f.clone().operate_unary("sin").map(|g| g.eval(&vals)));
    }
    let w = match std::panic::catch_unwind(|| FlatEx::<f64>::parse_wo_compile(t)) { Err(_) => return Err("parse_wo_compile".into()), Ok(r) => r };
    if let Ok(w) = w { let n = w.var_names().len(); guard!("wo eval", w.eval(&vec![0.5; n])); guard!("compile", { let mut g = w.clone(); g.compile(); g.eval(&vec![0.5; n]) }); guard!("wo to_deepex", w.to_deepex()); }
    let d = match std::panic::catch_unwind(|| DeepEx::<f64>::parse(t)) { Err(_) => return Err("DeepEx::parse".into()), Ok(r) => r };
    if let Ok(d) = d { let n = d.var_names().len(); let vals = vec![1.5; n]; guard!("deep eval", d.eval(&vals)); guard!("deep unparse", d.unparse().len()); guard!("deep reprs", d.binary_reprs()); guard!("from_deepex", FlatEx::<f64>::from_deepex(d.clone()).map(|g| g.eval(&vals))); if n > 0 { guard!("deep partial", d.clone().partial(0)); } }
    Ok(())
}
pub fn follow_up_val(t: &str) -> Result<(), String> {
    use exmex::{parse_val, Express, Val};
    macro_rules! guard { ($name:expr, $e:expr) => { if std::panic::catch_unwind(std::panic::AssertUnwindSafe(|| { let _ = $e; })).is_err() { return Err($name.to_string()) } } }
    let f = match std::panic::catch_unwind(|| parse_val::<i32, f64>(t)) { Err(_) => return Err("parse_val".into()), Ok(r) => r };
    if let Ok(f) = f {
        let n = f.var_names().len();
        for v in [Val::Int(i32::MIN), Val::Int(-1), Val::Float(f64::NAN), Val::Bool(true), Val::None, Val::Array(smallvec::smallvec![1.0, 2.0, 3.0])] { guard!("val eval", f.eval(&vec![v.clone(); n])); }
        guard!("val to_deepex", f.clone().to_deepex().map(|d| d.unparse().to_string()));
    }
    guard!("line_2_statement_val", exmex::line_2_statement_val::<i32, f64>(t));
    Ok(())
}

/// C06: no text can crash the library.  Part 1 (with the model): strings over a token-piece alphabet through the
/// three parsers and follow-up calls on the term algebra.  Part 2 (implementation only): exhaustive short strings
/// over two 20-symbol alphabets through the f64 and Val entry points and every follow-up call.
pub fn c06(a: &Args) -> CaseSet {
    let mut cs = CaseSet::default();
    let mut r = Rng::new(a.seed ^ 0x06);
    let tb = std_tables()[0].clone();
    let pieces = ["x", "y", "1", "2.5", ".", "+", "-", "*", "/", "^", "sin", "cos", "(", ")", ",", "{", "}", " ", "é", "max", "atan2", "PI", "e", "α", "$", "\u{7}", "{a b}", "1e5", "..", "=", "[", "]", "😀", "𝑥", "€", "²", "½", "٣", "①", "１", "Ⅷ", "¹", "\u{a0}"];
    let n_model = a.n;
    for i in 0..n_model {
        let len = if i % 5 == 0 { 8 + r.below(20) } else { 1 + r.below(7) };
        let text: String = if i % 4 == 3 {
            // mutate a well-formed text: delete, duplicate or swap characters
            let cfg = GenCfg::default_for(&tb);
            let (_, t, _, _) = tree_setup(&mut r, &tb, &cfg, 10, &RenderCfg { spaces: true, braces: true, redundant_parens: true, call_space: false });
            let mut cs_: Vec<char> = t.chars().collect();
            for _ in 0..1 + r.below(3) { if cs_.is_empty() { break } let k = r.below(cs_.len()); match r.below(3) { 0 => { cs_.remove(k); } 1 => { let c = cs_[k]; cs_.insert(k, c); } _ => { let j = r.below(cs_.len()); cs_.swap(k, j); } } }
            cs_.into_iter().collect()
        } else { (0..len).map(|_| *r.pick(&pieces)).collect::<Vec<_>>().join(if r.chance(1, 3) { " " } else { "" }) };
        let base = match i % 3 { 0 => Prog::Flat(text.clone()), 1 => Prog::FlatWo(text.clone()), _ => Prog::Deep(text.clone()) };
        let progs = [base.clone(), Prog::ToDeep(Box::new(base.clone())), Prog::ToFlat(Box::new(base.clone())), Prog::Partial(vec![0], 0, Box::new(base.clone()))];
        let p = progs[(i / 3) % 4].clone();
        let qs = vec![Query::Vars, Query::Relaxed(4), Query::Eval(1), Query::EvalVec(2), Query::Unparse, Query::OpReprs];
        cs.add(&tb, p, qs, format!("{text:?}"), "token-pieces", len.max(2), |obs| { let bad = obs.iter().any(|o| *o == Obs::P); (Some(!bad), if bad { "a call panicked".into() } else { String::new() }) });
    }
    // part 2: exhaustive over short strings, implementation only (counted, not written to the Coq shards)
    let alpha_f = ["x", "1", ".", "+", "-", "*", "sin", "(", ")", ",", "{", "}", " ", "é", "min", "^", "e", "2.5", "😀", "y", "½"];
    let alpha_v = ["x", "1", "+", "-", "%", "(", ")", ",", "[", "]", " ", "if", "else", "true", "to_int", "1e10", ".", "<<", "𝑥", "abs", "٣"];
    let maxlen = if a.thorough { 4 } else { 3 };
    let (mut count, mut panics) = (0u64, 0u64);
    for (which, alphabet) in [(0, &alpha_f[..]), (1, &alpha_v[..])] {
        let k = alphabet.len();
        for len in 0..=maxlen {
            for code in 0..k.pow(len as u32) {
                let mut c = code; let mut t = String::new();
                for _ in 0..len { t.push_str(alphabet[c % k]); c /= k; }
                count += 1;
                let res = if which == 0 { follow_up_f64(&t) } else { follow_up_val(&t) };
                if let Err(call) = res {
                    panics += 1;
                    if panics <= 20 { cs.add(&tb, Prog::Flat(t.clone()), vec![Query::Vars], format!("[{}] {t:?}: {call} panicked", if which == 0 { "f64" } else { "Val" }), "exhaustive-short-strings", 2, move |_| (Some(false), format!("{call} panicked"))); }
                }
            }
        }
    }
    // value-typed texts with array literals and boundary operands (folded at parse time: a panicking operator is a
    // panicking parse), through every value-typed entry point and follow-up call
    {
        let ops2 = ["+", "-", "*", "/", "%", "^", "cross", "dot", "min", "max", "==", "<", "&&", "||", "<<", ">>", "|", "&", "if", "else", "atan2", ".", "XOR", "!=", ">=", "<=", ">"];
        let args = ["[1,2]", "[3,4]", "[1,2,3]", "[4,5,6]", "[]", "[1]", "[1.5,2]", "1", "0", "-1", "2", "3", "2.5", "0.0", "21", "33", "64", "-2147483647-1", "2147483647", "true", "(5 if false)", "(1/0)", "4", "16", "65536", "1e10"];
        let uns = ["fact", "to_int", "to_float", "abs", "-", "!", "sqrt", "ln", "floor", "signum", "sin"];
        let mut texts: Vec<String> = vec![];
        for o in ops2 { for (i, x) in args.iter().enumerate() { for (j, y) in args.iter().enumerate() { if (i + 2 * j) % 3 == 0 || a.thorough { texts.push(format!("{x} {o} {y}")); } if (i + j) % 7 == 0 && o.chars().all(|c| c.is_alphabetic()) { texts.push(format!("{o}({x}, {y})")); } } } }
        for u in uns { for x in args { texts.push(format!("{u}({x})")); } }
        for arr in ["[]", "[7]", "[1,2]", "[1.0, 2.0, 3.0]", "([1,2,3]+[1,2])", "[1,2,3,4,5]"] { for i in ["0", "1", "2", "3", "4", "5", "6", "-1", "1.0", "true", "(0-1)", "(1+1)", "(2+1)"] { texts.push(format!("{arr}.{i}")); texts.push(format!("({arr}).({i})")); texts.push(format!("1+{arr}.{i}*2")); } }
        for t in texts {
            count += 1;
            if let Err(call) = follow_up_val(&t) {
                panics += 1;
                if panics <= 40 { cs.add(&tb, Prog::Flat(t.clone()), vec![Query::Vars], format!("[Val] {t:?}: {call} panicked"), "value-typed-operands", 2, move |_| (Some(false), format!("{call} panicked"))); }
            }
        }
    }
    // long texts of multi-byte characters in every alignment: error values quote the text (or the rest of it), so
    // whatever is done to a long message is done at every byte offset of a 2-, 3- and 4-byte character
    {
        let mut texts: Vec<String> = vec![];
        for ch in ["\u{3c0}", "\u{20ac}", "\u{1d6d1}", "\u{e9}"] { for shift in 0..4usize { for reps in [30usize, 70, 128, 129, 200, 260, 520, 1100] {
            if !a.thorough && (shift + reps) % 3 == 1 { continue }
            let body = ch.repeat(reps);
            texts.push(format!("{}{body}", "#".repeat(shift)));                 // a character no token starts with, then the rest
            texts.push(format!("{}+{body}", "x".repeat(shift + 1)));            // valid (Greek names) or unknown characters behind an operator
            texts.push(format!("{}({body}", "1+".repeat(shift)));               // unbalanced parenthesis in front of a long name
            texts.push(format!("{{{body}}} {}{{{body}", "y ".repeat(shift)));   // adjacent operands with long braced names
        } } }
        for t in texts {
            count += 2;
            for (kind, res) in [("f64", follow_up_f64(&t)), ("Val", follow_up_val(&t))] {
                if let Err(call) = res {
                    panics += 1;
                    let short: String = t.chars().take(12).collect();
                    if panics <= 60 { cs.add(&tb, Prog::Flat(t.clone()), vec![Query::Vars], format!("[{kind}] {short:?}.. ({} bytes, {} chars): {call} panicked", t.len(), t.chars().count()), "long-multibyte-texts", 2, move |_| (Some(false), format!("{call} panicked"))); }
                }
            }
        }
    }
    EXTRA.with(|e| *e.borrow_mut() = format!("exhaustive_short_strings={count} (all strings of <= {maxlen} pieces over two 20-piece alphabets, f64 and Val entry points, all follow-up calls) panics={panics}"));
    cs
}
thread_local! { pub static EXTRA: std::cell::RefCell<String> = std::cell::RefCell::new(String::new()); }

/// nested / long inputs in this (child) process: announces each step on stdout so that the driver can tell where a
/// stack overflow (which aborts the process) happened
pub fn c06_nest(depth: usize, kind: usize, what: &str) {
    use exmex::prelude::*;
    use exmex::{DeepEx, Differentiate};
    let mut s = String::from("x");
    match kind {
        0 => for i in 0..depth { s = format!("({s}+{})*2", i % 7 + 1) },
        1 => for _ in 0..depth { s = format!("sin({s})") },
        2 => for i in 0..depth { s = format!("{}-({s})", i % 5 + 1) },
        3 => for _ in 0..depth { s = format!("-(y*({s}))^2") },
        _ => for _ in 0..depth { s = format!("{s}+y*x") },
    }
    let v = vec![0.5; 2];
    println!("STEP parse depth={depth} kind={kind} what={what} tokens~{}", s.len());
    match what {
        "flat" => { let f = FlatEx::<f64>::parse(&s).unwrap(); let n = f.var_names().len(); println!("STEP eval"); f.eval(&v[..n]).unwrap(); }
        "deep" => { let d = DeepEx::<f64>::parse(&s).unwrap(); let n = d.var_names().len(); println!("STEP eval"); d.eval(&v[..n]).unwrap(); println!("STEP unparse"); let _ = d.unparse().len(); }
        "conv" => { let f = FlatEx::<f64>::parse(&s).unwrap(); let n = f.var_names().len(); println!("STEP to_deepex"); let d = f.to_deepex().unwrap(); println!("STEP eval"); d.eval(&v[..n]).unwrap(); println!("STEP from_deepex"); let f2 = FlatEx::<f64>::from_deepex(d).unwrap(); f2.eval(&v[..n]).unwrap(); }
        _ => { let d = DeepEx::<f64>::parse(&s).unwrap(); let n = d.var_names().len(); println!("STEP partial"); let p = d.partial(0).unwrap(); println!("STEP eval"); p.eval(&v[..n]).unwrap(); }
    }
    println!("STEP done");
}
