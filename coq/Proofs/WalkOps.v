(* Proofs/WalkOps.v — every operator record the flat parser emits, for ANY token list it accepts, carries the index and
   the commutativity flag of one binary table entry. *)
From Coq Require Import List Arith Lia Bool ZArith.
Import ListNotations.
From Exmex.Model Require Import Base EvalBinary Lexer Flat.
From Exmex.Spec Require Import RefSem.
Open Scope nat_scope.

Section WalkOps.
Context {D : Type}.
Variable tb : optable.

Definition okop (o : fop) : Prop := fcomm o = comm_of tb (fidx o) /\ is_bin tb (fidx o) = true.

Lemma okop_update pos us : forall rops, (forall o, In o rops -> okop o) -> forall o, In o (update_nth pos (add_un us) rops) -> okop o.
Proof.
  intros rops. revert pos. induction rops as [|a rops IH]; intros pos H o Hin; [destruct pos; destruct Hin|].
  destruct pos; cbn in Hin.
  - destruct Hin as [<-|Hin]; [|apply H; right; exact Hin]. unfold okop, add_un. cbn. apply (H a). left. reflexivity.
  - destruct Hin as [<-|Hin]; [apply H; left; reflexivity|]. apply (IH pos); [|exact Hin]. intros o' Ho'. apply H. right. exact Ho'.
Qed.

Lemma walk_ops_ok : forall fuel rp rest vars (rnodes : list (fnode D)) rops depth ustack nodes ops,
  (forall o, In o rops -> okop o) ->
  walk tb fuel rp rest vars rnodes rops depth ustack = Ok (nodes, ops) ->
  forall o, In o ops -> okop o.
Proof.
  induction fuel as [|fuel IH]; intros rp rest vars rnodes rops depth ustack nodes ops Hok H; [discriminate|].
  cbn [walk] in H. destruct rest as [|t rest'].
  - inversion H; subst. intros o Ho. apply Hok. apply in_rev. exact Ho.
  - unfold bind in H.
    destruct t as [d| | |k|x].
    + destruct (create_node tb rp (FNum d)); try discriminate. exact (IH _ _ _ _ _ _ _ _ _ Hok H).
    + exact (IH _ _ _ _ _ _ _ _ _ Hok H).
    + destruct (lowest_trailing rops depth 0 None) as [pos|].
      * destruct (match ustack with (urp, d) :: tl => if (d =? depth - 1)%Z then Some (urp, tl) else None | [] => None end) as [[urp tl]|].
        -- destruct (subsequent_unaries tb urp []) as [us| |]; try discriminate.
           exact (IH _ _ _ _ _ _ _ _ _ (okop_update pos us rops Hok) H).
        -- exact (IH _ _ _ _ _ _ _ _ _ Hok H).
      * destruct rnodes as [|n ntl]; [discriminate|].
        destruct (match ustack with (urp, d) :: tl => if (d =? depth - 1)%Z then Some (urp, tl) else None | [] => None end) as [[urp tl]|].
        -- destruct (subsequent_unaries tb urp []); try discriminate. exact (IH _ _ _ _ _ _ _ _ _ Hok H).
        -- exact (IH _ _ _ _ _ _ _ _ _ Hok H).
    + destruct (is_operator_binary tb k (hd_error rp)) as [b| |]; try discriminate. destruct b.
      * destruct (obin (op_of tb k)) as [bs|] eqn:Eb; [|discriminate].
        match type of H with walk _ _ _ _ _ _ ?r _ _ = _ => assert (Hok' : forall o, In o r -> okop o) end.
        { intros o [<-|Hin]; [|apply Hok; exact Hin]. unfold okop, comm_of, is_bin. cbn [fcomm fidx]. unfold op_of in Eb. rewrite Eb. split; reflexivity. }
        exact (IH _ _ _ _ _ _ _ _ _ Hok' H).
      * destruct rest' as [|t' rest'']; [discriminate|].
        destruct t'; try discriminate; exact (IH _ _ _ _ _ _ _ _ _ Hok H).
    + destruct (var_index vars x) as [vi| |]; try discriminate. destruct (create_node tb rp (FVar vi)); try discriminate. exact (IH _ _ _ _ _ _ _ _ _ Hok H).
Qed.

(* every variable node the parser emits indexes into the variable list it was given *)
Definition oknode (vars : list str) (n : fnode D) : Prop := forall i, nkind n = FVar i -> i < length vars.
Lemma create_node_kind rp kind (n : fnode D) : create_node tb rp kind = Ok n -> nkind n = kind.
Proof.
  unfold create_node. destruct rp as [|t rp']; [intros H; inversion H; reflexivity|].
  destruct t; try (intros H; inversion H; reflexivity).
  destruct (is_operator_binary tb k (hd_error rp')) as [b| |]; try discriminate. cbn [bind]. destruct b; [intros H; inversion H; reflexivity|].
  destruct (subsequent_unaries tb (TOp k :: rp') []) as [us| |]; try discriminate. cbn [bind]. intros H; inversion H; reflexivity.
Qed.
Lemma walk_nodes_ok : forall fuel rp rest vars (rnodes : list (fnode D)) rops depth ustack nodes ops,
  (forall n, In n rnodes -> oknode vars n) ->
  walk tb fuel rp rest vars rnodes rops depth ustack = Ok (nodes, ops) ->
  forall n, In n nodes -> oknode vars n.
Proof.
  induction fuel as [|fuel IH]; intros rp rest vars rnodes rops depth ustack nodes ops Hok H; [discriminate|].
  cbn [walk] in H. destruct rest as [|t rest'].
  - inversion H; subst. intros n Hn. apply Hok. apply in_rev. exact Hn.
  - unfold bind in H.
    destruct t as [d| | |k|x].
    + destruct (create_node tb rp (FNum d)) as [m| |] eqn:Ec; try discriminate.
      match type of H with walk _ _ _ _ _ ?rn _ _ _ = _ => assert (Hok' : forall n, In n rn -> oknode vars n) end.
      { intros n [<-|Hin]; [|apply Hok; exact Hin]. intros i Hk. rewrite (create_node_kind _ _ _ Ec) in Hk. discriminate. }
      exact (IH _ _ _ _ _ _ _ _ _ Hok' H).
    + exact (IH _ _ _ _ _ _ _ _ _ Hok H).
    + destruct (lowest_trailing rops depth 0 None) as [pos|].
      * destruct (match ustack with (urp, d) :: tl => if (d =? depth - 1)%Z then Some (urp, tl) else None | [] => None end) as [[urp tl]|].
        -- destruct (subsequent_unaries tb urp []) as [us| |]; try discriminate. exact (IH _ _ _ _ _ _ _ _ _ Hok H).
        -- exact (IH _ _ _ _ _ _ _ _ _ Hok H).
      * destruct rnodes as [|n ntl]; [discriminate|].
        destruct (match ustack with (urp, d) :: tl => if (d =? depth - 1)%Z then Some (urp, tl) else None | [] => None end) as [[urp tl]|].
        -- destruct (subsequent_unaries tb urp []) as [us| |]; try discriminate.
           match type of H with walk _ _ _ _ _ ?rn _ _ _ = _ => assert (Hok' : forall m, In m rn -> oknode vars m) end.
           { intros m [<-|Hin]; [|apply Hok; right; exact Hin]. intros i Hk. cbn in Hk. exact (Hok n (or_introl eq_refl) i Hk). }
           exact (IH _ _ _ _ _ _ _ _ _ Hok' H).
        -- exact (IH _ _ _ _ _ _ _ _ _ Hok H).
    + destruct (is_operator_binary tb k (hd_error rp)) as [b| |]; try discriminate. destruct b.
      * destruct (obin (op_of tb k)) as [bs|]; [|discriminate]. exact (IH _ _ _ _ _ _ _ _ _ Hok H).
      * destruct rest' as [|t' rest'']; [discriminate|].
        destruct t'; try discriminate; exact (IH _ _ _ _ _ _ _ _ _ Hok H).
    + destruct (var_index vars x) as [vi| |] eqn:Ev; try discriminate. destruct (create_node tb rp (FVar vi)) as [m| |] eqn:Ec; try discriminate.
      match type of H with walk _ _ _ _ _ ?rn _ _ _ = _ => assert (Hok' : forall n, In n rn -> oknode vars n) end.
      { intros n [<-|Hin]; [|apply Hok; exact Hin]. intros i Hk. rewrite (create_node_kind _ _ _ Ec) in Hk. inversion Hk; subst i.
        unfold var_index in Ev. destruct (index_of x vars 0) as [j|] eqn:Ei; [|discriminate]. inversion Ev; subst vi.
        clear - Ei. assert (G : forall l k q, index_of x l k = Some q -> q < k + length l).
        { induction l as [|y l IHl]; intros k q H; [discriminate|]. cbn in H. destruct (str_eqb x y); [inversion H; subst; cbn; lia|]. specialize (IHl _ _ H). cbn. lia. }
        exact (G vars 0 j Ei). }
      exact (IH _ _ _ _ _ _ _ _ _ Hok' H).
Qed.
Lemma make_expression_shape fb text ts vars (fx : flatex D) : make_expression tb fb text ts vars = Ok fx ->
  length (fnodes fx) = S (length (fops fx)) /\ fprios fx = prioritized_indices_flat fb (fops fx) (fnodes fx) /\
  fvars fx = vars /\ ftext fx = text /\ (forall o, In o (fops fx) -> okop o) /\ (forall n, In n (fnodes fx) -> oknode vars n).
Proof.
  unfold make_expression. destruct (walk tb (S (length ts)) [] ts vars [] [] 0 []) as [[nodes ops]| |] eqn:Ew; try discriminate.
  cbn [bind]. destruct (Nat.eqb_spec (S (length ops)) (length nodes)) as [E|]; [|discriminate].
  intros H. inversion H; subst. cbn. split; [lia|]. split; [reflexivity|]. split; [reflexivity|]. split; [reflexivity|]. split.
  - apply (walk_ops_ok _ _ _ _ _ _ _ _ _ _ (fun o (Ho : In o []) => match Ho with end) Ew).
  - apply (walk_nodes_ok _ _ _ _ _ _ _ _ _ _ (fun n (Hn : In n []) => match Hn with end) Ew).
Qed.
End WalkOps.
