From Coq Require Import List Arith Lia Bool ZArith.
Import ListNotations.
From Exmex.Proofs Require Import ChainMachine SortedRef.
Arguments ids {D} l. Arguments inc {D} lo l.
Arguments ref_val {D} opf key fuel x l. Arguments root_of {D} key l best. Arguments split_at {D} r l.

Section RefFacts.
Variable D : Type.
Variable opf : nat -> D -> D -> D.
Variable key : nat -> Z.

(* uniqueness of the root: the element every other element is before *)
Lemma root_unique (tl : pairs D) j r : NoDup (j :: ids tl) -> In r (j :: ids tl) ->
  (forall i, In i (j :: ids tl) -> i <> r -> before key i r) -> root_of key tl j = r.
Proof.
  intros ND Hr Hall.
  destruct (Nat.eq_dec (root_of key tl j) r) as [|Hd]; [assumption|exfalso].
  assert (Hin : In (root_of key tl j) (j :: ids tl)).
  { destruct (root_of_in D key tl j) as [E|E]; [left; symmetry; exact E|right; exact E]. }
  pose proof (Hall _ Hin Hd) as B1.
  pose proof (root_of_max D opf key tl j ND r Hr (fun e => Hd (eq_sym e))) as B2.
  exact (before_asym key _ _ B1 B2).
Qed.

Lemma split_at_app (l1 : pairs D) r y l2 : ~ In r (ids l1) -> split_at r (l1 ++ (r, y) :: l2) = Some (l1, y, l2).
Proof.
  induction l1 as [|[j z] tl IH]; cbn; intros Hn.
  - rewrite Nat.eqb_refl. reflexivity.
  - destruct (Nat.eqb_spec r j); [subst; tauto|]. rewrite IH; [reflexivity|tauto].
Qed.

(* unfolding at a known root *)
Lemma ref_val_at_root f x (l1 : pairs D) r y l2 lo :
  inc lo (l1 ++ (r, y) :: l2) ->
  (forall i, In i (ids (l1 ++ (r, y) :: l2)) -> i <> r -> before key i r) ->
  ref_val opf key (S f) x (l1 ++ (r, y) :: l2) = opf r (ref_val opf key f x l1) (ref_val opf key f y l2).
Proof.
  intros Hinc Hall.
  assert (ND : NoDup (ids (l1 ++ (r, y) :: l2))) by (eapply (inc_NoDup D opf); eauto).
  assert (Hr : In r (ids (l1 ++ (r, y) :: l2))) by (unfold ids; rewrite map_app; apply in_or_app; right; cbn; auto).
  assert (Hn1 : ~ In r (ids l1)).
  { unfold ids in ND. rewrite map_app in ND. cbn in ND. apply NoDup_remove_2 in ND. intro. apply ND. apply in_or_app; auto. }
  destruct (l1 ++ (r, y) :: l2) as [|[j z] tl] eqn:El; [destruct l1; discriminate|].
  cbn [ref_val].
  rewrite (root_unique tl j r ND Hr Hall).
  rewrite <- El. rewrite (split_at_app _ _ _ _ Hn1). reflexivity.
Qed.

Lemma ref_val_fuel : forall n m x (l : pairs D) lo, inc lo l -> length l <= n -> length l <= m ->
  ref_val opf key n x l = ref_val opf key m x l.
Proof.
  induction n as [|n IH]; intros m x l lo Hinc Hn Hm.
  - destruct l; [|cbn in Hn; lia]. destruct m; reflexivity.
  - destruct m as [|m].
    + destruct l; [reflexivity|cbn in Hm; lia].
    + destruct l as [|[j z] tl]; [reflexivity|]. cbn [ref_val].
      destruct (split_at (root_of key tl j) ((j, z) :: tl)) as [[[l1 y] l2]|] eqn:E; [|reflexivity].
      destruct (split_at_spec D opf key _ _ _ _ _ E) as [El _].
      rewrite El in Hinc. destruct (inc_split D opf lo l1 _ y l2 Hinc) as (I1 & _ & I2).
      assert (length l1 + length l2 < S n /\ length l1 + length l2 < S m).
      { rewrite El in Hn, Hm. rewrite app_length in Hn, Hm. cbn in Hn, Hm. lia. }
      f_equal; [apply IH with (lo := lo)|apply IH with (lo := S (root_of key tl j))]; auto; lia.
Qed.
End RefFacts.

Section Bump.
Variable D : Type.
Variable opf : nat -> D -> D -> D.
Variables key0 key : nat -> Z.
Variable R : D -> D -> Prop.
Hypothesis R_refl : forall a, R a a.
Hypothesis R_sym : forall a b, R a b -> R b a.
Hypothesis R_trans : forall a b c, R a b -> R b c -> R a c.
Hypothesis R_opf : forall i a a' b b', R a a' -> R b b' -> R (opf i a b) (opf i a' b').
(* AP j i: the operators at positions j < i are one associative table entry and carry no unary *)
Variable AP : nat -> nat -> Prop.
Hypothesis AP_trans : forall i j k, AP i j -> AP j k -> AP i k.
Hypothesis R_assoc : forall j i a b c, AP j i -> R (opf i (opf j a b) c) (opf j a (opf i b c)).
Hypothesis key_cases : forall i, key i = key0 i \/ key i = (key0 i + 5)%Z.
Hypothesis key0_10 : forall i, exists q, key0 i = (10 * q)%Z.
Hypothesis BumpOK : forall i, key i = (key0 i + 5)%Z -> forall j, j < i -> (key0 j <= key0 i)%Z ->
  (forall k, j < k < i -> (key0 i < key0 k)%Z) -> (key0 j < key0 i)%Z \/ AP j i.

Lemma scan_left c r : forall n k, k + n = c -> r <= k ->
  (exists j, k <= j < c /\ (key0 j <= key0 c)%Z /\ forall q, j < q < c -> (key0 c < key0 q)%Z)
  \/ (forall q, k <= q < c -> (key0 c < key0 q)%Z).
Proof.
  induction n as [|n IH]; intros k Hk Hr.
  - right. intros; lia.
  - destruct (IH (S k) ltac:(lia) ltac:(lia)) as [(j & Hj & Hle & Hall)|Hall].
    + left. exists j. split; [lia|]. auto.
    + destruct (Z_le_gt_dec (key0 k) (key0 c)) as [Hle|Hgt].
      * left. exists k. split; [lia|]. split; [assumption|]. intros q Hq. apply Hall. lia.
      * right. intros q Hq. destruct (Nat.eq_dec q k) as [->|]; [lia|apply Hall; lia].
Qed.

Lemma nearest_left c r : r < c -> (key0 r <= key0 c)%Z ->
  exists j, r <= j < c /\ (key0 j <= key0 c)%Z /\ forall q, j < q < c -> (key0 c < key0 q)%Z.
Proof.
  intros Hlt Hle. destruct (scan_left c r (c - r) r ltac:(lia) ltac:(lia)) as [H|H]; [exact H|].
  specialize (H r ltac:(lia)). lia.
Qed.

(* all operators of raw priority p strictly between an unbumped r and c (inclusive c) being bumped,
   c is associable with r *)
Lemma chain_AP p r : (key0 r = p)%Z ->
  forall c, r < c -> (key0 c = p)%Z ->
  (forall q, r < q <= c -> (p <= key0 q)%Z) ->
  (forall q, r < q <= c -> key0 q = p -> key q = (p + 5)%Z) ->
  AP r c.
Proof.
  intros Hr. induction c as [c IH] using lt_wf_ind. intros Hlt Hc Hge Hb.
  destruct (nearest_left c r Hlt ltac:(lia)) as (j & Hj & Hle & Hall).
  assert (Hjp : key0 j = p).
  { destruct (Nat.eq_dec j r) as [->|]; [assumption|]. specialize (Hge j ltac:(lia)). lia. }
  assert (Hbc : key c = (key0 c + 5)%Z) by (rewrite Hc; apply Hb; [lia|assumption]).
  destruct (BumpOK c Hbc j ltac:(lia) ltac:(lia) Hall) as [Hlt'|Hap]; [lia|].
  destruct (Nat.eq_dec j r) as [->|Hne]; [exact Hap|].
  apply AP_trans with j; [|exact Hap].
  apply IH; [lia|lia|assumption| |].
  - intros q Hq. apply Hge. lia.
  - intros q Hq. apply Hb. lia.
Qed.

Lemma seq_app_inv : forall (a b : list nat) lo, a ++ b = seq lo (length a + length b) ->
  a = seq lo (length a) /\ b = seq (lo + length a) (length b).
Proof.
  induction a as [|x a IH]; cbn; intros b lo H.
  - rewrite Nat.add_0_r. auto.
  - inversion H as [[Hx Ht]]. destruct (IH b (S lo) Ht) as [Ea Eb].
    subst x. split; [rewrite <- Ea; reflexivity|]. replace (lo + S (length a)) with (S lo + length a) by lia. exact Eb.
Qed.

Definition contig (lo : nat) (l : pairs D) := ids l = seq lo (length l).

Lemma contig_split lo (l1 : pairs D) r y l2 : contig lo (l1 ++ (r, y) :: l2) ->
  contig lo l1 /\ r = lo + length l1 /\ contig (S r) l2.
Proof.
  unfold contig, ids. rewrite map_app, app_length. cbn. intros H.
  assert (H' : map fst l1 ++ (r :: map fst l2) = seq lo (length (map fst l1) + length (r :: map fst l2))).
  { cbn. rewrite !map_length. exact H. }
  destruct (seq_app_inv _ _ _ H') as [E1 E2]. rewrite map_length in E1.
  split; [exact E1|]. cbn in E2. rewrite !map_length in E2. injection E2 as Er Et.
  split; [exact Er|]. rewrite Er. exact Et.
Qed.

Lemma contig_inc lo (l : pairs D) : contig lo l -> inc lo l.
Proof.
  revert lo; induction l as [|[j z] tl IH]; cbn; intros lo H; [trivial|].
  unfold contig in H. cbn in H. inversion H as [[Hj Ht]]. split; [lia|]. apply IH. exact Ht.
Qed.

Lemma contig_in lo (l : pairs D) i : contig lo l -> (In i (ids l) <-> lo <= i < lo + length l).
Proof. unfold contig. intros ->. rewrite in_seq. tauto. Qed.

Theorem bump_invisible : forall n x (l : pairs D) lo, length l <= n -> contig lo l ->
  R (ref_val opf key n x l) (ref_val opf key0 n x l).
Proof.
  induction n as [|f IH]; intros x l lo Hlen Hc.
  - destruct l; [apply R_refl|cbn in Hlen; lia].
  - destruct l as [|[j z] tl]; [apply R_refl|].
    pose proof (contig_inc _ _ Hc) as Hinc.
    assert (ND : NoDup (j :: ids tl)) by (apply (inc_NoDup D opf lo ((j, z) :: tl)); exact Hinc).
    set (l := (j, z) :: tl) in *.
    set (r := root_of key tl j). set (r0 := root_of key0 tl j).
    assert (Hr : In r (ids l)).
    { cbn. destruct (root_of_in D key tl j) as [E|E]; [left; symmetry; exact E|right; exact E]. }
    assert (Hr0 : In r0 (ids l)).
    { cbn. destruct (root_of_in D key0 tl j) as [E|E]; [left; symmetry; exact E|right; exact E]. }
    assert (AllK : forall i, In i (ids l) -> i <> r -> before key i r) by (intros i Hi Hne; apply (root_of_max D opf key tl j ND i Hi Hne)).
    assert (All0 : forall i, In i (ids l) -> i <> r0 -> before key0 i r0) by (intros i Hi Hne; apply (root_of_max D opf key0 tl j ND i Hi Hne)).
    assert (Eroot : ref_val opf key (S f) x l = match split_at r l with Some (l1, y, l2) => opf r (ref_val opf key f x l1) (ref_val opf key f y l2) | None => x end) by reflexivity.
    assert (Eroot0 : ref_val opf key0 (S f) x l = match split_at r0 l with Some (l1, y, l2) => opf r0 (ref_val opf key0 f x l1) (ref_val opf key0 f y l2) | None => x end) by reflexivity.
    clearbody r r0. clearbody l.
    destruct (Nat.eq_dec r r0) as [Heq|Hne].
    + (* same root *)
      subst r0. rewrite Eroot, Eroot0.
      destruct (split_at_in D opf key r l Hr) as (l1 & y & l2 & Hsp). rewrite Hsp.
      destruct (split_at_spec D opf key _ _ _ _ _ Hsp) as [El _].
      rewrite El in Hc.
      destruct (contig_split _ _ _ _ _ Hc) as (C1 & _ & C2).
      assert (length l1 + length l2 < S f).
      { rewrite El in Hlen. rewrite app_length in Hlen. cbn in Hlen. lia. }
      apply R_opf; [apply (IH x l1 lo); [lia|exact C1]|apply (IH y l2 (S r)); [lia|exact C2]].
    + (* different roots: r0 is a bumped operator overtaking the unbumped r on its left *)
      pose proof (AllK r0 Hr0 (fun e => Hne (eq_sym e))) as B1.
      pose proof (All0 r Hr Hne) as B0.
      destruct (key0_10 r) as (q & Hq). destruct (key0_10 r0) as (q0 & Hq0).
      assert (Facts : key0 r = key0 r0 /\ r < r0 /\ key r = key0 r /\ key r0 = (key0 r0 + 5)%Z).
      { unfold before in B0, B1. destruct (key_cases r), (key_cases r0); lia. }
      destruct Facts as (Fp & Flt & Fr & Fr0).
      set (p := key0 r) in *.
      (* split at r0, then the left part at r *)
      destruct (split_at_in D opf key r0 l Hr0) as (A & y0 & L2 & Hsp0).
      destruct (split_at_spec D opf key _ _ _ _ _ Hsp0) as [El HnA].
      rewrite El in Hc, Hinc.
      destruct (contig_split _ _ _ _ _ Hc) as (CA & Er0 & CL2).
      destruct (inc_split D opf _ _ _ _ _ Hinc) as (IA & FA & IL2).
      assert (HrA : In r (ids A)).
      { rewrite El in Hr. unfold ids in Hr. rewrite map_app in Hr. apply in_app_or in Hr. cbn in Hr.
        destruct Hr as [H|[H|H]]; [exact H|lia|]. pose proof (inc_ge D opf _ _ _ IL2 H). lia. }
      destruct (split_at_in D opf key r A HrA) as (L1 & yr & M & HspA).
      destruct (split_at_spec D opf key _ _ _ _ _ HspA) as [EA HnL1].
      rewrite EA in CA, IA.
      destruct (contig_split _ _ _ _ _ CA) as (CL1 & Er & CM).
      destruct (inc_split D opf _ _ _ _ _ IA) as (IL1 & FL1 & IM).
      (* every position of l is in [lo, lo + length l) *)
      assert (Hmem : forall i, In i (ids l) <-> lo <= i < lo + length l).
      { intros i. apply contig_in. rewrite El. exact Hc. }
      assert (Hlenl : length l = length L1 + S (length M + S (length L2))).
      { rewrite El, EA. repeat (rewrite app_length; cbn [length]). lia. }
      assert (HlenA : length A = length L1 + S (length M)) by (rewrite EA, app_length; cbn [length]; lia).
      (* raw keys in (r, r0] are >= p, and the raw-p ones are bumped *)
      assert (Hge : forall i, r < i <= r0 -> (p <= key0 i)%Z).
      { intros i Hi. destruct (Nat.eq_dec i r0) as [->|Hd]; [lia|].
        assert (In i (ids l)) by (apply Hmem; lia).
        pose proof (All0 i H Hd) as B. unfold before in B. lia. }
      assert (Hbump : forall i, r < i <= r0 -> key0 i = p -> key i = (p + 5)%Z).
      { intros i Hi Hp. destruct (Nat.eq_dec i r0) as [->|Hd]; [lia|].
        assert (In i (ids l)) by (apply Hmem; lia).
        pose proof (AllK i H ltac:(lia)) as B. unfold before in B. destruct (key_cases i); lia. }
      assert (HAP : AP r r0) by (apply (chain_AP p r eq_refl r0 Flt ltac:(lia) Hge Hbump)).
      (* roots of the sub-chains under bumped keys *)
      assert (RootA : forall i, In i (ids (L1 ++ (r, yr) :: M)) -> i <> r -> before key i r).
      { intros i Hi Hd. apply AllK; [|exact Hd]. rewrite El, EA. unfold ids. rewrite map_app. apply in_or_app. left. exact Hi. }
      assert (RootR : forall i, In i (ids (M ++ (r0, y0) :: L2)) -> i <> r0 -> before key i r0).
      { intros i Hi Hd.
        assert (Hil : In i (ids l)).
        { rewrite El, EA. unfold ids in Hi |- *. rewrite <- app_assoc. rewrite map_app. apply in_or_app. right. cbn. right. exact Hi. }
        assert (Hgt : r < i).
        { unfold ids in Hi. rewrite map_app in Hi. apply in_app_or in Hi. cbn in Hi. destruct Hi as [Hi|[Hi|Hi]].
          - pose proof (inc_ge D opf _ _ _ IM Hi). lia.
          - lia.
          - pose proof (inc_ge D opf _ _ _ IL2 Hi). lia. }
        pose proof (All0 i Hil Hd) as B. unfold before in B |- *.
        destruct (key0_10 i) as (qi & Hqi).
        destruct B as [B|[B Bl]].
        - left. destruct (key_cases i); lia.
        - right. rewrite (Hbump i ltac:(lia) ltac:(lia)). split; lia. }
      (* unfold everything *)
      rewrite Eroot0, Hsp0.
      assert (HspK : split_at r l = Some (L1, yr, M ++ (r0, y0) :: L2)).
      { rewrite El, EA. rewrite <- app_assoc. cbn. apply (split_at_app D opf key). exact HnL1. }
      rewrite Eroot, HspK.
      assert (Hf : 1 <= f) by (cbn in Hlen; lia).
      destruct f as [|f1]; [lia|].
      assert (IMR : inc (S r) (M ++ (r0, y0) :: L2)).
      { pose proof Hinc as Hinc'. rewrite EA in Hinc'. rewrite <- app_assoc in Hinc'. cbn in Hinc'.
        destruct (inc_split D opf _ _ _ _ _ Hinc') as (_ & _ & H). exact H. }
      rewrite (ref_val_at_root D opf key f1 yr M r0 y0 L2 (S r) IMR RootR).
      assert (EAk : ref_val opf key (S f1) x A = opf r (ref_val opf key f1 x L1) (ref_val opf key f1 yr M)).
      { rewrite EA. apply (ref_val_at_root D opf key f1 x L1 r yr M lo IA RootA). }
      assert (IHA : R (ref_val opf key (S f1) x A) (ref_val opf key0 (S f1) x A)).
      { apply (IH x A lo); [rewrite EA, app_length; cbn; lia|rewrite EA; exact CA]. }
      assert (IHL2 : R (ref_val opf key (S f1) y0 L2) (ref_val opf key0 (S f1) y0 L2)).
      { apply (IH y0 L2 (S r0)); [lia|exact CL2]. }
      rewrite (ref_val_fuel D opf key (S f1) f1 x L1 lo IL1 ltac:(lia) ltac:(lia)).
      eapply R_trans; [|apply R_opf; [exact IHA|exact IHL2]].
      rewrite EAk.
      rewrite (ref_val_fuel D opf key (S f1) f1 y0 L2 (S r0) IL2 ltac:(lia) ltac:(lia)).
      apply R_sym. apply R_assoc. exact HAP.
Qed.
End Bump.
Print Assumptions bump_invisible.
