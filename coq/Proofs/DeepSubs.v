(* Proofs/DeepSubs.v — reset_vars and DeepEx::subs.
   Variables are valued BY NAME here (look := fun _ x => rho x): re-indexing does not change the named denotation, and
   substitution yields, modulo R, the original expression under the environment in which every replaced variable is
   bound to the named denotation of its replacement (simultaneously: replacements are not re-substituted).
   The result is index-consistent with its own variable list, which is the sorted union of the names of the untouched
   variable nodes and the variable lists of the replacements used. *)
From Coq Require Import List Arith Lia Bool ZArith Sorting.Sorted.
Import ListNotations.
From Exmex.Model Require Import Base EvalBinary Lexer Flat Deep.
From Exmex.Proofs Require Import Vars DeepSem DeepCompile DeepVars.
Open Scope nat_scope.

Section DwfFacts.
Context {D : Type}.
Variable flagged : dbop -> Prop.
Lemma dwf_weaken (okvar okvar' : nat -> str -> Prop) (okvars okvars' : list str -> Prop) :
  (forall i x, okvar i x -> okvar' i x) -> (forall v, okvars v -> okvars' v) ->
  forall e : deepex D, dwf flagged okvar okvars e -> dwf flagged okvar' okvars' e.
Proof.
  intros H1 H2. induction e as [nodes bops uop vars IH] using deep_ind. intros Hwf.
  rewrite dwf_unfold in Hwf. destruct Hwf as (Hl & Hv & Hf & Hn). rewrite dwf_unfold.
  split; [exact Hl|]. split; [apply H2; exact Hv|]. split; [exact Hf|].
  rewrite Forall_forall in *. intros n Hin. specialize (Hn n Hin). destruct n as [e'|d|i x]; cbn [nwf] in *; auto.
Qed.
End DwfFacts.

Lemma dwf_weaken_op {D} (okop okop' : dbop -> Prop) (okvar : nat -> str -> Prop) (okvars : list str -> Prop) :
  (forall o, okop o -> okop' o) -> forall e : deepex D, dwf okop okvar okvars e -> dwf okop' okvar okvars e.
Proof.
  intros H1. induction e as [nodes bops uop vars IH] using deep_ind. intros Hwf.
  rewrite dwf_unfold in Hwf. destruct Hwf as (Hl & Hv & Hf & Hn). rewrite dwf_unfold.
  split; [exact Hl|]. split; [exact Hv|]. split; [intros o Ho; apply H1; apply Hf; exact Ho|].
  rewrite Forall_forall in *. intros n Hin. specialize (Hn n Hin). destruct n as [e'|d|i x]; cbn [nwf] in *; auto.
Qed.

Section DeepSubs.
Context {D : Type}.
Variable C : carrier D.
Variable R : D -> D -> Prop.
Hypothesis R_refl : forall a, R a a.
Hypothesis R_sym : forall a b, R a b -> R b a.
Hypothesis R_trans : forall a b c, R a b -> R b c -> R a c.
Hypothesis R_bin : forall k a a' b b', R a a' -> R b b' -> R (binf C k a b) (binf C k a' b').
Hypothesis R_un : forall k a a', R a a' -> R (unf C k a) (unf C k a').
Variable flagged : dbop -> Prop.      (* the predicate on operator records (okop of DeepSem) *)
Hypothesis flagged_assoc : forall o, flagged o -> bcomm o = true ->
  forall a b c, R (binf C (bidx o) (binf C (bidx o) a b) c) (binf C (bidx o) a (binf C (bidx o) b c)).

Definition nlook (rho : str -> D) : nat -> str -> D := fun _ x => rho x.
Local Notation ddenN rho := (dden C (nlook rho)).
Local Notation ndenN rho := (nden C (nlook rho)).

(* predicates on variable nodes / variable lists *)
Definition any_var : nat -> str -> Prop := fun _ _ => True.
Definition any_vars : list str -> Prop := fun _ => True.
Definition names_in (S : list str) : nat -> str -> Prop := fun _ x => In x S.
Definition indexed (all : list str) : nat -> str -> Prop := fun i x => index_of x all 0 = Some i.
Definition is_list (all : list str) : list str -> Prop := fun v => v = all.
(* structurally well formed; all names among S; index-consistent with the list `all` at every level *)
Definition dstruct (e : deepex D) : Prop := dwf flagged any_var any_vars e.
Definition dclosed (S : list str) (e : deepex D) : Prop := dwf flagged (names_in S) any_vars e.
Definition dconsistent (all : list str) (e : deepex D) : Prop := dwf flagged (indexed all) (is_list all) e.

Lemma index_of_In x : forall l i j, index_of x l i = Some j -> In x l.
Proof.
  induction l as [|y l IH]; intros i j H; [discriminate|]. cbn in H. destruct (str_eqb x y) eqn:E.
  - left. symmetry. apply str_eqb_eq. exact E.
  - right. exact (IH _ _ H).
Qed.
Lemma dconsistent_closed all e : dconsistent all e -> dclosed all e.
Proof. apply dwf_weaken; [intros i x H; exact (index_of_In x all 0 i H)|intros; exact I]. Qed.
Lemma dclosed_struct S e : dclosed S e -> dstruct e.
Proof. apply dwf_weaken; intros; exact I. Qed.
Lemma dclosed_mono S S' e : incl S S' -> dclosed S e -> dclosed S' e.
Proof. intros H. apply dwf_weaken; [intros i x Hx; apply H; exact Hx|intros; exact I]. Qed.
Lemma dconsistent_vars all e : dconsistent all e -> dvars e = all.
Proof. destruct e as [nodes bops uop vars]. intros H. unfold dconsistent in H. rewrite dwf_unfold in H. destruct H as (_ & Hv & _). exact Hv. Qed.

(* ---- reset_vars ---- *)
Definition rv_node (all : list str) (n : dnode D) : res (dnode D) :=
  match n with
  | DNum d => Ok (DNum d)
  | DVar _ x => match index_of x all 0 with Some i => Ok (DVar i x) | None => Panic 848 end
  | DExpr e' => do e'' <- reset_vars e' all; Ok (DExpr e'')
  end.
Lemma reset_vars_unfold nodes bops uop vars all :
  reset_vars (DE nodes bops uop vars) all = do nodes' <- mapM (rv_node all) nodes; Ok (DE nodes' bops uop all).
Proof.
  cbn [reset_vars].
  match goal with |- bind (?F nodes) _ = _ =>
    replace (F nodes) with (mapM (rv_node all) nodes) by (clear; induction nodes as [|n tl IH]; [reflexivity|]; cbn [mapM]; rewrite IH; reflexivity) end.
  reflexivity.
Qed.

Lemma reset_vars_ok all : forall e, dclosed all e ->
  exists e1, reset_vars e all = Ok e1 /\ dconsistent all e1 /\ forall rho, ddenN rho e1 = ddenN rho e.
Proof.
  induction e as [nodes bops uop vars IH] using deep_ind. intros Hc.
  unfold dclosed, dstruct, dconsistent in Hc; rewrite dwf_unfold in Hc. destruct Hc as (Hl & _ & Hf & Hn).
  assert (Hnodes : exists nodes', mapM (rv_node all) nodes = Ok nodes' /\ length nodes' = length nodes /\
            Forall (nwf flagged (indexed all) (is_list all)) nodes' /\ forall rho, map (ndenN rho) nodes' = map (ndenN rho) nodes).
  { clear Hl. induction nodes as [|n tl IHn]; [exists []; repeat split; constructor|].
    inversion Hn as [|? ? Hn1 Hn2]; subst.
    destruct (IHn (fun e' H => IH e' (or_intror H)) Hn2) as (tl' & E & Hlen & Hw & Hd).
    assert (H1 : exists n', rv_node all n = Ok n' /\ nwf flagged (indexed all) (is_list all) n' /\ forall rho, ndenN rho n' = ndenN rho n).
    { destruct n as [e'|d|i x]; cbn [rv_node nwf] in *.
      - destruct (IH e' (or_introl eq_refl) Hn1) as (e1 & E1 & Hc1 & Hd1). rewrite E1. cbn [bind].
        exists (DExpr e1). split; [reflexivity|]. split; [exact Hc1|]. intros rho. cbn [nden]. apply Hd1.
      - exists (DNum d). repeat split.
      - unfold names_in in Hn1. destruct (index_of_complete x all 0 Hn1) as [j Hj]. rewrite Hj.
        exists (DVar j x). split; [reflexivity|]. split; [exact Hj|]. intros rho. reflexivity. }
    destruct H1 as (n' & En & Hwn & Hdn). exists (n' :: tl'). cbn [mapM]. rewrite En. cbn [bind]. rewrite E. cbn [bind].
    split; [reflexivity|]. split; [cbn; lia|]. split; [constructor; assumption|]. intros rho. cbn [map]. rewrite Hdn, Hd. reflexivity. }
  destruct Hnodes as (nodes' & E & Hlen & Hw & Hd).
  rewrite reset_vars_unfold, E. cbn [bind]. eexists. split; [reflexivity|]. split.
  - unfold dclosed, dstruct, dconsistent; rewrite dwf_unfold. split; [lia|]. split; [reflexivity|]. split; [exact Hf|exact Hw].
  - intros rho. rewrite !dden_unfold, Hd. reflexivity.
Qed.

(* ---- subs ---- *)
Variable sub : str -> option (deepex D).
(* every replacement is well formed and mentions only names of its own variable list *)
Hypothesis sub_closed : forall x r, sub x = Some r -> dclosed (dvars r) r.

Definition senv (rho : str -> D) : str -> D :=
  fun x => match sub x with Some r => ddenN rho r | None => rho x end.

Definition subs_node (n : dnode D) : res (dnode D * list str) :=
  match n with
  | DVar i x => match sub x with Some r => Ok (DExpr r, dvars r) | None => Ok (DVar i x, [x]) end
  | DExpr e' => do e'' <- subs C sub e'; Ok (DExpr e'', dvars e'')
  | DNum d => Ok (DNum d, [])
  end.
Lemma subs_unfold nodes bops uop vars :
  subs C sub (DE nodes bops uop vars) =
  do ps <- mapM subs_node nodes;
  do e1 <- reset_vars (DE (map fst ps) bops uop vars) (sort_strs (flat_map snd ps));
  dcompile C e1.
Proof.
  cbn [subs].
  match goal with |- bind (?F nodes) _ = _ =>
    assert (E : F nodes = do ps <- mapM subs_node nodes; Ok (map fst ps, flat_map snd ps)) end.
  { clear. induction nodes as [|n tl IH]; [reflexivity|]. cbn [mapM]. rewrite IH.
    destruct n as [e'|d|i x]; cbn [subs_node].
    - destruct (subs C sub e') as [e''| |]; cbn [bind]; try reflexivity. destruct (mapM subs_node tl); reflexivity.
    - cbn [bind]. destruct (mapM subs_node tl); reflexivity.
    - destruct (sub x); cbn [bind]; destruct (mapM subs_node tl); reflexivity. }
  rewrite E. destruct (mapM subs_node nodes) as [ps| |]; reflexivity.
Qed.

(* the names substitution leaves in an expression *)
Fixpoint snames (e : deepex D) : list str :=
  match e with
  | DE nodes _ _ _ =>
      (fix go (l : list (dnode D)) : list str :=
         match l with
         | [] => []
         | n :: tl => (match n with
                       | DNum _ => []
                       | DVar _ x => match sub x with Some r => dvars r | None => [x] end
                       | DExpr e' => snames e'
                       end) ++ go tl
         end) nodes
  end.
Definition node_snames (n : dnode D) : list str :=
  match n with
  | DNum _ => []
  | DVar _ x => match sub x with Some r => dvars r | None => [x] end
  | DExpr e' => snames e'
  end.
Lemma snames_unfold nodes bops uop vars : snames (DE nodes bops uop vars) = flat_map node_snames nodes.
Proof. cbn [snames]. induction nodes as [|n tl IH]; [reflexivity|]. cbn [flat_map]. rewrite <- IH. reflexivity. Qed.

Lemma nwf_weaken (okvar okvar' : nat -> str -> Prop) (okvars okvars' : list str -> Prop) :
  (forall i x, okvar i x -> okvar' i x) -> (forall v, okvars v -> okvars' v) ->
  forall n : dnode D, nwf flagged okvar okvars n -> nwf flagged okvar' okvars' n.
Proof. intros H1 H2 n. destruct n as [e'|d|i x]; cbn [nwf]; auto. apply dwf_weaken; assumption. Qed.

Theorem subs_ok : forall e, dstruct e ->
  exists e', subs C sub e = Ok e' /\ dconsistent (sort_strs (snames e)) e' /\
             forall rho, R (ddenN rho e') (ddenN (senv rho) e).
Proof.
  induction e as [nodes bops uop vars IH] using deep_ind. intros Hs.
  unfold dclosed, dstruct, dconsistent in Hs; rewrite dwf_unfold in Hs. destruct Hs as (Hl & _ & Hf & Hn).
  assert (Hnodes : exists ps, mapM subs_node nodes = Ok ps /\ length ps = length nodes /\
            Forall (fun p => nwf flagged (names_in (snd p)) any_vars (fst p)) ps /\
            (forall y, In y (flat_map snd ps) <-> In y (flat_map node_snames nodes)) /\
            forall rho, Forall2 R (map (ndenN rho) (map fst ps)) (map (ndenN (senv rho)) nodes)).
  { clear Hl. induction nodes as [|n tl IHn]; [exists []; repeat split; try constructor; intros H; exact H|].
    inversion Hn as [|? ? Hn1 Hn2]; subst.
    destruct (IHn (fun e' H => IH e' (or_intror H)) Hn2) as (tl' & E & Hlen & Hw & Hnm & Hd).
    assert (H1 : exists p, subs_node n = Ok p /\ nwf flagged (names_in (snd p)) any_vars (fst p) /\
               (forall y, In y (snd p) <-> In y (node_snames n)) /\ forall rho, R (ndenN rho (fst p)) (ndenN (senv rho) n)).
    { destruct n as [e'|d|i x]; cbn [subs_node node_snames] in *.
      - destruct (IH e' (or_introl eq_refl) Hn1) as (e'' & E1 & Hc1 & Hd1). rewrite E1. cbn [bind].
        exists (DExpr e'', dvars e''). cbn [fst snd]. split; [reflexivity|]. rewrite (dconsistent_vars _ _ Hc1). split; [|split].
        + cbn [nwf]. apply dconsistent_closed. exact Hc1.
        + intros y. apply sort_strs_spec.
        + intros rho. cbn [nden]. apply Hd1.
      - exists (DNum d, []). cbn [fst snd]. repeat split; try (intros H; exact H). intros rho. apply R_refl.
      - destruct (sub x) as [r|] eqn:Es.
        + exists (DExpr r, dvars r). cbn [fst snd]. split; [reflexivity|]. split; [cbn [nwf]; apply (sub_closed x r Es)|]. split; [intros y; reflexivity|].
          intros rho. cbn [nden]. unfold nlook at 2, senv. rewrite Es. apply R_refl.
        + exists (DVar i x, [x]). cbn [fst snd]. split; [reflexivity|]. split; [left; reflexivity|]. split; [intros y; reflexivity|].
          intros rho. cbn [nden]. unfold nlook, senv. rewrite Es. apply R_refl. }
    destruct H1 as (p & Ep & Hwp & Hnp & Hdp). exists (p :: tl'). cbn [mapM]. rewrite Ep. cbn [bind]. rewrite E. cbn [bind].
    split; [reflexivity|]. split; [cbn; lia|]. split; [constructor; assumption|]. split.
    - intros y. cbn [flat_map]. rewrite !in_app_iff, (Hnp y), (Hnm y). reflexivity.
    - intros rho. cbn [map]. constructor; [apply Hdp|apply Hd]. }
  destruct Hnodes as (ps & E & Hlen & Hw & Hnm & Hd).
  rewrite subs_unfold, E. cbn [bind].
  set (all := sort_strs (flat_map snd ps)).
  assert (Hall : all = sort_strs (snames (DE nodes bops uop vars))).
  { unfold all. rewrite snames_unfold. apply sort_strs_ext. exact Hnm. }
  assert (Hcl : dclosed all (DE (map fst ps) bops uop vars)).
  { unfold dclosed, dstruct, dconsistent; rewrite dwf_unfold. split; [rewrite map_length; lia|]. split; [exact I|]. split; [exact Hf|].
    apply Forall_forall. intros m Hm. apply in_map_iff in Hm. destruct Hm as (p & <- & Hp).
    rewrite Forall_forall in Hw. apply (nwf_weaken (names_in (snd p)) (names_in all) any_vars any_vars); [|intros; exact I|apply Hw; exact Hp].
    intros i x Hx. unfold names_in in *. unfold all. apply sort_strs_spec. apply in_flat_map. exists p. split; assumption. }
  destruct (reset_vars_ok all _ Hcl) as (e1 & E1 & Hc1 & Hd1). rewrite E1. cbn [bind].
  destruct (dcompile_ok C R R_refl R_sym R_trans R_bin R_un flagged flagged_assoc (nlook (fun _ => dflt C)) (indexed all) (is_list all) e1 Hc1)
    as (e' & Ec & Hc' & _).
  exists e'. split; [exact Ec|]. split; [rewrite <- Hall; exact Hc'|].
  intros rho.
  destruct (dcompile_ok C R R_refl R_sym R_trans R_bin R_un flagged flagged_assoc (nlook rho) (indexed all) (is_list all) e1 Hc1)
    as (e'' & Ec' & _ & Hr).
  rewrite Ec in Ec'. inversion Ec'; subst e''. eapply R_trans; [exact Hr|]. rewrite Hd1, !dden_unfold.
  apply (R_apply_un_ C R R_un). apply (level_val_R C R R_refl R_bin R_un). apply Hd.
Qed.
End DeepSubs.
