From Coq Require Import List Arith Lia Bool.
Import ListNotations.

Section ChainMachine.
Variable D : Type.
Variable opf : nat -> D -> D -> D.

Definition pairs := list (nat * D).
Definition ids (l : pairs) := map fst l.

Fixpoint step (i : nat) (x : D) (l : pairs) : option (D * pairs) :=
  match l with
  | [] => None
  | (j, y) :: tl =>
      if Nat.eqb i j then Some (opf i x y, tl)
      else match step i y tl with
           | Some (y', tl') => Some (x, (j, y') :: tl')
           | None => None
           end
  end.

Fixpoint run (sigma : list nat) (x : D) (l : pairs) : option (D * pairs) :=
  match sigma with
  | [] => Some (x, l)
  | i :: s => match step i x l with
              | Some (x', l') => run s x' l'
              | None => None
              end
  end.

(* ids strictly increasing and >= lo *)
Fixpoint inc (lo : nat) (l : pairs) : Prop :=
  match l with [] => True | (j, _) :: tl => lo <= j /\ inc (S j) tl end.

Lemma inc_weaken lo lo' l : lo' <= lo -> inc lo l -> inc lo' l.
Proof. destruct l as [|[j y] tl]; cbn; intros; [trivial|]. intuition lia. Qed.

Lemma inc_ge lo l i : inc lo l -> In i (ids l) -> lo <= i.
Proof.
  revert lo; induction l as [|[j y] tl IH]; cbn; intros lo H Hi; [tauto|].
  destruct H as [H1 H2]. destruct Hi as [->|Hi]; [lia|]. specialize (IH _ H2 Hi). lia.
Qed.

Lemma step_app_left i x l1 r y l2 x' l1' :
  step i x l1 = Some (x', l1') ->
  step i x (l1 ++ (r, y) :: l2) = Some (x', l1' ++ (r, y) :: l2).
Proof.
  revert x x' l1'. induction l1 as [|[j z] tl IH]; intros x x' l1' H; cbn in *.
  - discriminate.
  - destruct (Nat.eqb i j) eqn:E.
    + inversion H; subst. reflexivity.
    + destruct (step i z tl) as [[z' tl']|] eqn:S; [|discriminate].
      inversion H; subst. rewrite (IH _ _ _ S). reflexivity.
Qed.

Lemma step_app_right i x l1 r y l2 y' l2' :
  ~ In i (ids l1) -> i <> r ->
  step i y l2 = Some (y', l2') ->
  step i x (l1 ++ (r, y) :: l2) = Some (x, l1 ++ (r, y') :: l2').
Proof.
  revert x. induction l1 as [|[j z] tl IH]; intros x Hn Hr H; cbn in *.
  - destruct (Nat.eqb_spec i r); [tauto|]. rewrite H. reflexivity.
  - destruct (Nat.eqb_spec i j); [subst; tauto|].
    rewrite IH; auto.
Qed.

Lemma step_in i x l : In i (ids l) -> exists x' l', step i x l = Some (x', l').
Proof.
  revert x; induction l as [|[j z] tl IH]; intros x H; cbn in *; [tauto|].
  destruct (Nat.eqb_spec i j); [eauto|].
  destruct H as [H|H]; [congruence|].
  destruct (IH z H) as (x' & l' & E). rewrite E. eauto.
Qed.

(* effect of a step on the ids: i is removed, order and bounds are kept *)
Lemma step_ids i x l x' l' lo : step i x l = Some (x', l') -> inc lo l ->
  inc lo l' /\ (forall k, In k (ids l') <-> (In k (ids l) /\ k <> i)).
Proof.
  revert x x' l' lo; induction l as [|[j z] tl IH]; intros x x' l' lo H Hinc; cbn in *; [discriminate|].
  destruct Hinc as [Hlo Hinc].
  destruct (Nat.eqb_spec i j).
  - inversion H; subst. split; [eapply inc_weaken; [|eassumption]; lia|].
    intros k; split.
    + intros Hk. split; [auto|]. pose proof (inc_ge _ _ _ Hinc Hk). lia.
    + intros [[?|?] ?]; [congruence|assumption].
  - destruct (step i z tl) as [[z' tl']|] eqn:S; [|discriminate].
    inversion H; subst. destruct (IH _ _ _ _ S Hinc) as (Hinc' & Hk).
    split; [cbn; auto|].
    intros k; cbn. rewrite Hk. split; [intros [?|[? ?]]; [subst; split; [auto|congruence]|tauto]|intros [[?|?] ?]; tauto].
Qed.

Lemma Forall_lt_step i x l x' l' r : step i x l = Some (x', l') ->
  Forall (fun p => fst p < r) l -> Forall (fun p => fst p < r) l'.
Proof.
  revert x x' l'; induction l as [|[j z] tl IH]; intros x x' l' H HF; cbn in *; [discriminate|].
  inversion HF; subst.
  destruct (Nat.eqb i j); [inversion H; subst; assumption|].
  destruct (step i z tl) as [[z' tl']|] eqn:S; [|discriminate].
  inversion H; subst. constructor; [assumption|eauto].
Qed.

Definition lt_r (r i : nat) := Nat.ltb i r.
Definition gt_r (r i : nat) := Nat.ltb r i.

(* Root split: as long as operator r is not scheduled, the two sides evolve independently *)
Theorem run_root_split : forall sigma x l1 r y l2 lo,
  inc lo l1 -> Forall (fun p => fst p < r) l1 -> inc (S r) l2 ->
  NoDup sigma ->
  (forall i, In i sigma -> In i (ids l1) \/ In i (ids l2)) ->
  exists vl l1' vr l2',
    run (filter (lt_r r) sigma) x l1 = Some (vl, l1') /\
    run (filter (gt_r r) sigma) y l2 = Some (vr, l2') /\
    run sigma x (l1 ++ (r, y) :: l2) = Some (vl, l1' ++ (r, vr) :: l2').
Proof.
  induction sigma as [|i s IH]; intros x l1 r y l2 lo H1 HF H2 ND Hin; cbn [filter run].
  - exists x, l1, y, l2. auto.
  - inversion ND as [|? ? Hi ND']; subst.
    assert (Hs : forall j, In j s -> In j (ids l1) \/ In j (ids l2)) by (intros; apply Hin; right; assumption).
    destruct (Hin i (or_introl eq_refl)) as [HiL|HiR].
    + (* i on the left, so i < r *)
      assert (Hlt : i < r).
      { rewrite Forall_forall in HF. unfold ids in HiL. apply in_map_iff in HiL. destruct HiL as ([a b] & Ha & Hb). cbn in Ha; subst. exact (HF _ Hb). }
      assert (E1 : lt_r r i = true) by (unfold lt_r; apply Nat.ltb_lt; lia).
      assert (E2 : gt_r r i = false) by (unfold gt_r; apply Nat.ltb_ge; lia).
      rewrite E1, E2. cbn [run].
      destruct (step_in i x l1 HiL) as (x1 & l1a & S1). rewrite S1.
      rewrite (step_app_left _ _ _ r y l2 _ _ S1).
      destruct (step_ids _ _ _ _ _ _ S1 H1) as (H1a & Hk).
      apply (IH x1 l1a r y l2 lo); auto.
      * eapply Forall_lt_step; eauto.
      * intros j Hj. destruct (Hs j Hj) as [?|?]; [left|right; assumption].
        apply Hk. split; [assumption|]. intro; subst; tauto.
    + (* i on the right, so r < i *)
      assert (Hgt : r < i) by (pose proof (inc_ge _ _ _ H2 HiR); lia).
      assert (E1 : lt_r r i = false) by (unfold lt_r; apply Nat.ltb_ge; lia).
      assert (E2 : gt_r r i = true) by (unfold gt_r; apply Nat.ltb_lt; lia).
      rewrite E1, E2. cbn [run].
      destruct (step_in i y l2 HiR) as (y1 & l2a & S2). rewrite S2.
      assert (HnL : ~ In i (ids l1)).
      { intro HiL. rewrite Forall_forall in HF. unfold ids in HiL. apply in_map_iff in HiL. destruct HiL as ([a b] & Ha & Hb). cbn in Ha; subst. specialize (HF _ Hb). cbn in HF. lia. }
      rewrite (step_app_right i x l1 r y l2 y1 l2a HnL ltac:(lia) S2).
      destruct (step_ids _ _ _ _ _ _ S2 H2) as (H2a & Hk).
      apply (IH x l1 r y1 l2a lo); auto.
      intros j Hj. destruct (Hs j Hj) as [?|?]; [left; assumption|right].
      apply Hk. split; [assumption|]. intro; subst; tauto.
Qed.

Lemma run_app a b x l : run (a ++ b) x l =
  match run a x l with Some (x', l') => run b x' l' | None => None end.
Proof.
  revert x l; induction a as [|i s IH]; intros x l; cbn; [reflexivity|].
  destruct (step i x l) as [[x' l']|]; [apply IH|reflexivity].
Qed.

Lemma run_exhausts sigma x l lo : inc lo l -> NoDup sigma ->
  (forall i, In i sigma <-> In i (ids l)) ->
  exists v, run sigma x l = Some (v, []).
Proof.
  revert x l; induction sigma as [|i s IH]; intros x l Hinc ND Hiff; cbn.
  - destruct l as [|[j z] tl]; [eauto|]. exfalso. apply (proj2 (Hiff j)). cbn; auto.
  - inversion ND; subst.
    destruct (step_in i x l (proj1 (Hiff i) (or_introl eq_refl))) as (x' & l' & S). rewrite S.
    destruct (step_ids _ _ _ _ _ _ S Hinc) as (Hinc' & Hk).
    apply (IH x' l'); auto.
    intros k. rewrite Hk. split.
    + intros Hks. split; [apply Hiff; right; assumption|intro; subst; tauto].
    + intros [Hkl Hne]. apply Hiff in Hkl. destruct Hkl; [congruence|assumption].
Qed.

(* The Cartesian-tree equation: the operator scheduled last is the root; its operands are the
   values obtained by running the schedule restricted to either side. *)
Theorem run_last_is_root : forall sigma r x l1 y l2 lo,
  inc lo l1 -> Forall (fun p => fst p < r) l1 -> inc (S r) l2 ->
  NoDup (sigma ++ [r]) ->
  (forall i, In i sigma <-> In i (ids l1) \/ In i (ids l2)) ->
  exists vl vr,
    run (filter (lt_r r) sigma) x l1 = Some (vl, []) /\
    run (filter (gt_r r) sigma) y l2 = Some (vr, []) /\
    run (sigma ++ [r]) x (l1 ++ (r, y) :: l2) = Some (opf r vl vr, []).
Proof.
  intros sigma r x l1 y l2 lo H1 HF H2 ND Hiff.
  assert (NDs : NoDup sigma) by (apply NoDup_remove_1 in ND; rewrite app_nil_r in ND; exact ND).
  destruct (run_root_split sigma x l1 r y l2 lo H1 HF H2 NDs (fun i Hi => proj1 (Hiff i) Hi))
    as (vl & l1' & vr & l2' & RL & RR & R).
  (* both sides are exhausted *)
  assert (EL : exists v, run (filter (lt_r r) sigma) x l1 = Some (v, [])).
  { apply run_exhausts with (lo := lo); auto.
    - apply NoDup_filter; assumption.
    - intros i. rewrite filter_In. unfold lt_r. rewrite Nat.ltb_lt. split.
      + intros [Hi Hlt]. destruct (proj1 (Hiff i) Hi) as [?|HiR]; [assumption|].
        pose proof (inc_ge _ _ _ H2 HiR). lia.
      + intros HiL. split; [apply Hiff; auto|].
        rewrite Forall_forall in HF. unfold ids in HiL. apply in_map_iff in HiL. destruct HiL as ([a b] & Ha & Hb). cbn in Ha; subst. exact (HF _ Hb). }
  assert (ER : exists v, run (filter (gt_r r) sigma) y l2 = Some (v, [])).
  { apply run_exhausts with (lo := S r); auto.
    - apply NoDup_filter; assumption.
    - intros i. rewrite filter_In. unfold gt_r. rewrite Nat.ltb_lt. split.
      + intros [Hi Hlt]. destruct (proj1 (Hiff i) Hi) as [HiL|?]; [|assumption].
        rewrite Forall_forall in HF. unfold ids in HiL. apply in_map_iff in HiL. destruct HiL as ([a b] & Ha & Hb). cbn in Ha; subst. specialize (HF _ Hb). cbn in HF. lia.
      + intros HiR. split; [apply Hiff; auto|]. pose proof (inc_ge _ _ _ H2 HiR). lia. }
  destruct EL as (vl' & EL), ER as (vr' & ER).
  rewrite EL in RL. rewrite ER in RR. inversion RL; inversion RR; subst.
  exists vl, vr. split; [assumption|]. split; [assumption|].
  rewrite run_app, R. cbn. rewrite Nat.eqb_refl. reflexivity.
Qed.
End ChainMachine.
Print Assumptions run_last_is_root.
