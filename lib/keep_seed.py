#!/usr/bin/env python3
"""keep_seed.py <worktree-id> <property> <seed-name> "<needs>" "<caught-by>": copies a confirmed seeded change into /verif/seeded/<seed-name>/"""
import sys, os, shutil, json, subprocess
wid, prop, name, needs, caught = sys.argv[1:6]
out = f"/tmp/mut/{wid}.out"; dst = f"/verif/seeded/{name}"
os.makedirs(dst, exist_ok=True)
shutil.copy(f"{out}/patch.diff", f"{dst}/patch.diff")
shutil.copy(f"{out}/demo.rs", f"{dst}/demo.rs")
if os.path.exists(f"{out}/notes.md"): shutil.copy(f"{out}/notes.md", f"{dst}/notes.md")
log = open(f"/tmp/mut/{wid}.confirm.log").read() if os.path.exists(f"/tmp/mut/{wid}.confirm.log") else ""
open(f"{dst}/confirm.log", "w").write(log)
meta = {"property": prop, "breaks": open(f"{out}/notes.md").read()[:1500] if os.path.exists(f"{out}/notes.md") else "", "needs_to_manifest": needs,
        "confirmed": {"how": "lib/confirm procedure in a scratch worktree: existing suite with the change (default and all features), demo with and without the change", "log": "confirm.log",
                      "suite_green_with_change": "FAILED" not in log.split("## demo WITH")[0], "demo_fails_with_change": "FAILED" in log.split("## demo WITH")[1].split("## demo WITHOUT")[0] if "## demo WITH" in log else None,
                      "demo_passes_without_change": "FAILED" not in log.split("## demo WITHOUT")[1] if "## demo WITHOUT" in log else None},
        "caught_by": caught, "author": "independent sub-agent given only the property text and a scratch worktree"}
json.dump(meta, open(f"{dst}/meta.json", "w"), indent=1)
print(name, meta["confirmed"]["suite_green_with_change"], meta["confirmed"]["demo_fails_with_change"], meta["confirmed"]["demo_passes_without_change"])
