(* Proofs/DeepParse.v — the recursive-descent parser of deep.rs on the token rendering of a well-formed surface tree:
   it succeeds, the result is a well-formed deep expression, and its denotation is the reference semantics of the
   tree modulo R (every parenthesis group and every variable under unary operators becomes a folded sub-expression). *)
From Coq Require Import List Arith Lia Bool ZArith.
Import ListNotations.
From Exmex.Model Require Import Base EvalBinary Lexer Flat Deep.
From Exmex.Spec Require Import RefSem.
From Exmex.Proofs Require Import Pev PevFold FlStruct FlSem FlVals WalkSim Vars DeepSem DeepCompile DeepVars C01Main.
Open Scope nat_scope.

Section DeepParse.
Context {D : Type}.
Variable C : carrier D.
Variable tb : optable.
Hypothesis Hwf_tb : wf_table tb = true.
Variable R : D -> D -> Prop.
Hypothesis R_refl : forall a, R a a.
Hypothesis R_sym : forall a b, R a b -> R b a.
Hypothesis R_trans : forall a b c, R a b -> R b c -> R a c.
Hypothesis R_bin : forall k a a' b b', R a a' -> R b b' -> R (binf C k a b) (binf C k a' b').
Hypothesis R_un : forall k a a', R a a' -> R (unf C k a) (unf C k a').
Hypothesis flagged_assoc : forall k, comm_of tb k = true -> forall a b c, R (binf C k (binf C k a b) c) (binf C k a (binf C k b c)).
(* operator records of the table: flag and priority (0..99) *)
Definition flagged : dbop -> Prop := from_table tb.
Lemma from_table_entry o : flagged o -> comm_of tb (bidx o) = bcomm o /\ prio_of tb (bidx o) = bprio o /\ is_bin tb (bidx o) = true.
Proof.
  intros (spec & bs & Hn & Hb & Hc & Hp). unfold comm_of, prio_of, is_bin. rewrite (nth_error_nth _ _ _ Hn), Hb. repeat split; congruence.
Qed.
Lemma flagged_table_op o : flagged o -> table_op (comm_of tb) o.
Proof.
  intros H. destruct (from_table_entry o H) as (Hc & Hp & _). split; [intros Hb; rewrite Hc; exact Hb|]. rewrite <- Hp. exact (prio_of_range tb Hwf_tb (bidx o)).
Qed.
Lemma flagged_op_assoc : forall o, flagged o -> bcomm o = true ->
  forall a b c, R (binf C (bidx o) (binf C (bidx o) a b) c) (binf C (bidx o) a (binf C (bidx o) b c)).
Proof. intros o H Hb. apply flagged_assoc. rewrite (proj1 (from_table_entry o H)). exact Hb. Qed.

Variable vars : list str.      (* the variable list of the whole text *)
Variable vals : list D.
Hypothesis Hlen : length vals = length vars.
Hypothesis Hnodup : NoDup vars.

Definition okvars (v : list str) : Prop := length v <= length vals /\ incl v vars.
Lemma okvars_len v : okvars v -> length v <= length vals.
Proof. intros [H _]. exact H. Qed.

Definition okvar (i : nat) (x : str) : Prop := index_of x vars 0 = Some i.
Local Notation dden := (dden C (vlook C vals)).
Local Notation nden := (nden C (vlook C vals)).
Local Notation dwf := (dwf flagged okvar okvars).
Local Notation nwf := (nwf flagged okvar okvars).
Local Notation ref_atom := (ref_atom C tb vars vals).
Local Notation ref_rest := (ref_rest C tb vars vals).
Local Notation ref_chain := (ref_chain C tb vars vals).
Local Notation dparse := (dparse C tb).
Local Notation isb := (@is_operator_binary D tb).

(* ---- operators ---- *)
Definition dop (k : nat) : dbop := {| bprio := prio_of tb k; bidx := k; bcomm := comm_of tb k |}.
Lemma mk_bop_ok k : is_bin tb k = true -> mk_bop tb k = Ok (dop k).
Proof.
  unfold mk_bop, is_bin, dop, prio_of, comm_of, op_of. destruct (obin (nth k tb _)) as [bs|]; [reflexivity|discriminate].
Qed.
Lemma dop_flag k : is_bin tb k = true -> flagged (dop k).
Proof.
  unfold is_bin, flagged, from_table, dop, comm_of, prio_of. cbn [bidx bcomm bprio]. intros H.
  destruct (nth_error tb k) as [spec|] eqn:En.
  - rewrite (nth_error_nth _ _ _ En) in *. destruct (obin spec) as [bs|] eqn:Eb; [|discriminate]. exists spec, bs. repeat split; assumption.
  - rewrite (nth_overflow tb _ (proj1 (nth_error_None tb k) En)) in H. discriminate.
Qed.
Lemma wf_rest_bins : forall l : list (nat * atom (D:=D)), wf_rest tb l = true -> forall k, In k (map fst l) -> is_bin tb k = true.
Proof.
  induction l as [|[o b] tl IH]; intros Hw k Hk; [destruct Hk|]. cbn [wf_rest] in Hw. apply andb_prop in Hw. destruct Hw as [Hw Ht]. apply andb_prop in Hw. destruct Hw as [Ho _].
  destruct Hk as [<-|Hk]; [exact Ho|exact (IH Ht k Hk)].
Qed.

(* precedence evaluation over the operator records of a level = the reference evaluation of a chain of values *)
Definition recs (l : list (nat * D)) : list (fop * D) := map (fun p => (to_fop (dop (fst p)), snd p)) l.
Lemma recs_root (l : list (nat * D)) : root_idx (recs l) = root_pos tb (map fst l).
Proof.
  rewrite (root_pos_root_idx C tb). apply root_idx_ext. unfold recs. rewrite !map_map. apply map_ext. intros [o y]. cbn.
  unfold DEPTH_PRIO_STEP. lia.
Qed.
Lemma pev_is_prec : forall n x (l : list (nat * D)), pev C n x (recs l) = prec C tb n x l.
Proof.
  induction n as [|n IH]; intros x l; [reflexivity|].
  destruct l as [|p l]; [reflexivity|].
  rewrite (pev_S C n x (recs (p :: l))) by discriminate. rewrite (prec_S C tb n x (p :: l)) by discriminate.
  rewrite recs_root. set (r := root_pos tb (map fst (p :: l))).
  unfold recs at 1. rewrite nth_error_map. destruct (nth_error (p :: l) r) as [[o y]|]; [|reflexivity]. cbn [option_map fst snd].
  unfold recs. rewrite firstn_map, skipn_map. fold (recs (firstn r (p :: l))). fold (recs (skipn (S r) (p :: l))). rewrite !IH.
  reflexivity.
Qed.
Lemma level_val_prec (x : D) (l : list (nat * D)) :
  level_val C (x :: map snd l) (map dop (map fst l)) = prec C tb (length l) x l.
Proof.
  unfold level_val, pv. rewrite <- pev_is_prec.
  assert (E : combine (map to_fop (map dop (map fst l))) (map snd l) = recs l).
  { unfold recs. induction l as [|[o y] l IH]; [reflexivity|]. cbn. f_equal. exact IH. }
  rewrite E. unfold recs. rewrite map_length. reflexivity.
Qed.

(* ---- nodes the parser builds ---- *)
Definition nodeok (n : dnode D) : Prop := nwf n /\ incl (node_var_names n) vars.

Lemma new_deepex_ok nodes bops uop :
  length nodes = S (length bops) -> Forall nodeok nodes -> (forall o, In o bops -> flagged o) ->
  exists e, new_deepex C nodes bops uop = Ok e /\ dwf e /\ R (dden e) (apply_un C uop (level_val C (map nden nodes) bops)) /\
            dvars e = match nodes, uop with [DExpr e1], [] => dvars e1 | _, _ => sort_strs (flat_map node_var_names nodes) end.
Proof.
  intros Hl Hn Hf.
  assert (Hwf : dwf (DE nodes bops uop (sort_strs (flat_map node_var_names nodes)))).
  { apply dwf_unfold. split; [exact Hl|]. split; [|split; [exact Hf|]].
    - destruct (sort_strs_spec (flat_map node_var_names nodes)) as (_ & ND & Hin).
      assert (Hincl : incl (sort_strs (flat_map node_var_names nodes)) vars).
      { intros x Hx. apply Hin in Hx. apply in_flat_map in Hx. destruct Hx as (n & Hn' & Hx). rewrite Forall_forall in Hn. exact (proj2 (Hn n Hn') x Hx). }
      split; [|exact Hincl]. rewrite Hlen. apply NoDup_incl_length; assumption.
    - apply Forall_forall. intros n Hn'. rewrite Forall_forall in Hn. exact (proj1 (Hn n Hn')). }
  destruct (dcompile_ok C R R_refl R_sym R_trans R_bin R_un flagged flagged_op_assoc (vlook C vals) okvar okvars _ Hwf) as (e & He & Hwe & Hr).
  exists e. split; [|split; [exact Hwe|split]].
  - unfold new_deepex. destruct nodes as [|n nt]; [discriminate|]. rewrite Hl, Nat.eqb_refl. exact He.
  - rewrite dden_unfold in Hr. exact Hr.
  - rewrite (dcompile_vars C _ _ He). apply lift_nodes_vars.
Qed.

(* names of a node against the variables of the atom it stands for *)
Definition nodenames (node : dnode D) (a : atom (D:=D)) : Prop :=
  (forall y, In y (node_var_names node) <-> In y (atom_vars a)) /\
  (forall e1, node = DExpr e1 -> dvars e1 = sort_strs (atom_vars a)).
Lemma atom_vars_group us (a0 : atom (D:=D)) rest : atom_vars (AGroup us a0 rest) = atom_vars a0 ++ rest_vars rest.
Proof. reflexivity. Qed.
Lemma nodenames_expr e (a : atom (D:=D)) : dvars e = sort_strs (atom_vars a) -> nodenames (DExpr e) a.
Proof.
  intros H. split; [|intros e1 E; inversion E; subst; exact H]. intros y. cbn [node_var_names]. rewrite H.
  apply sort_strs_spec.
Qed.

(* ---- left contexts ---- *)
Definition lctx_o (left : option (token D)) : Prop := left = None \/ exists k, left = Some (TOp k).
Lemma isb_unary_o left u : lctx_o left -> is_un tb u = true -> isb u left = Ok false.
Proof.
  intros Hc Hu. unfold is_operator_binary. change (has_un tb u) with (is_un tb u). rewrite Hu.
  destruct (has_bin tb u); cbn; [|reflexivity]. destruct Hc as [->|[k ->]]; reflexivity.
Qed.
Lemma more_unaries_spec us (t : token D) tail : forallb (is_un tb) us = true ->
  match t with TOp _ => False | _ => True end ->
  more_unaries tb (map TOp us ++ t :: tail) = us.
Proof.
  intros Hu Ht. induction us as [|u us IH]; cbn [map app more_unaries].
  - destruct t; try reflexivity. destruct Ht.
  - cbn [forallb] in Hu. apply andb_prop in Hu. destruct Hu as [Hu Hus]. change (has_un tb u) with (is_un tb u). rewrite Hu, (IH Hus). reflexivity.
Qed.
Lemma skipn_map_app {A} (f : nat -> A) us (tl : list A) : skipn (length us) (map f us ++ tl) = tl.
Proof. induction us as [|u us IH]; [reflexivity|exact IH]. Qed.

Lemma var_facts x i : index_of x vars 0 = Some i -> i < length vals /\ In x vars /\ var_pos vars x = i.
Proof.
  intros Hi. destruct (index_of_spec x vars 0 i Hi) as [_ Hn].
  rewrite Nat.sub_0_r in Hn. assert (Hlt : i < length vars) by (apply nth_error_Some; congruence).
  split; [lia|]. split; [eapply nth_error_In; exact Hn|]. unfold var_pos. rewrite Hi. reflexivity.
Qed.

Lemma flatten_group_tail us (a0 : atom (D:=D)) rest (tail : list (token D)) :
  flatten_atom (AGroup us a0 rest) ++ tail = map TOp us ++ TOpen :: flatten_atom a0 ++ flatten_rest rest ++ TClose :: tail.
Proof. rewrite flatten_atom_group. rewrite <- !app_assoc. cbn [app]. rewrite <- !app_assoc. reflexivity. Qed.

Lemma flatten_rest_cons_tail o (b : atom (D:=D)) tl (tail : list (token D)) :
  flatten_rest ((o, b) :: tl) ++ tail = TOp o :: flatten_atom b ++ flatten_rest tl ++ tail.
Proof. cbn [flatten_rest app]. rewrite <- app_assoc. reflexivity. Qed.

(* how a chain ends: at the end of the text, or at the closing parenthesis of its group *)
Definition ending (endtoks remaining : list (token D)) : Prop :=
  (endtoks = [] /\ remaining = []) \/ endtoks = TClose :: remaining.

Theorem dparse_sim : forall n,
  (* atoms *)
  (forall a, asize a <= n -> wf_atom tb a = true -> vars_in_atom vars a ->
     forall left tail rnodes rbops uop fuel, lctx_o left -> length (flatten_atom a ++ tail) < fuel ->
     exists node t fuel2, atom_end t = true /\ length tail < fuel2 /\ nodeok node /\ nodenames node a /\ R (nden node) (ref_atom a) /\
       dparse fuel left (flatten_atom a ++ tail) vars rnodes rbops uop =
       dparse fuel2 (Some t) tail vars (node :: rnodes) rbops uop) /\
  (* operator-atom sequences *)
  (forall l, rsize l <= n -> wf_rest tb l = true -> vars_in_rest vars l ->
     forall t tail rnodes rbops uop fuel, atom_end t = true -> length (flatten_rest l ++ tail) < fuel ->
     exists ns t' fuel2, atom_end t' = true /\ length tail < fuel2 /\
       Forall2 (fun node ob => nodeok node /\ nodenames node (snd ob) /\ R (nden node) (ref_atom (snd ob))) ns l /\
       dparse fuel (Some t) (flatten_rest l ++ tail) vars rnodes rbops uop =
       dparse fuel2 (Some t') tail vars (rev ns ++ rnodes) (rev (map dop (map fst l)) ++ rbops) uop) /\
  (* whole chains up to their end *)
  (forall a0 rest, asize a0 + rsize rest <= n -> wf_atom tb a0 = true -> wf_rest tb rest = true ->
     vars_in_atom vars a0 -> vars_in_rest vars rest ->
     forall us endtoks remaining fuel, forallb (is_un tb) us = true -> ending endtoks remaining ->
     length (flatten_atom a0 ++ flatten_rest rest ++ endtoks) < fuel ->
     exists e, dparse fuel None (flatten_atom a0 ++ flatten_rest rest ++ endtoks) vars [] [] us = Ok (e, remaining) /\
               dwf e /\ R (dden e) (apply_un C us (ref_chain (a0, rest))) /\
               dvars e = sort_strs (atom_vars a0 ++ rest_vars rest)).
Proof.
  induction n as [|n (IHa & IHr & IHc)].
  - split; [intros a H; pose proof (asize_pos a); lia|]. split.
    + intros l H _ _ t tail rnodes rbops uop fuel Ht Hf. destruct l as [|[o b] tl]; [|cbn in H; pose proof (asize_pos b); lia].
      exists [], t, fuel. cbn. repeat split; try assumption. constructor.
    + intros a0 rest H. pose proof (asize_pos a0). lia.
  - (* chains of size <= n first: they are what groups of size <= S n contain *)
    assert (Hatom : forall a, asize a <= S n -> wf_atom tb a = true -> vars_in_atom vars a ->
       forall left tail rnodes rbops uop fuel, lctx_o left -> length (flatten_atom a ++ tail) < fuel ->
       exists node t fuel2, atom_end t = true /\ length tail < fuel2 /\ nodeok node /\ nodenames node a /\ R (nden node) (ref_atom a) /\
         dparse fuel left (flatten_atom a ++ tail) vars rnodes rbops uop =
         dparse fuel2 (Some t) tail vars (node :: rnodes) rbops uop).
    { intros a Hs Hwf Hv left tail rnodes rbops uop fuel Hc Hfuel.
      destruct fuel as [|f]; [lia|].
      destruct a as [us k|us a0 rest].
      - (* leaves *)
        cbn [wf_atom] in Hwf.
        destruct us as [|u us].
        + destruct k as [d|x]; cbn [flatten_atom map app] in *.
          * exists (DNum d), (TNum d), f. cbn [Deep.dparse]. repeat split; try reflexivity; try (cbn in Hfuel; lia); try apply R_refl;
              try (intros e1 E; discriminate); try (intros y []); try (intros Hy; exact Hy).
          * cbn [vars_in_atom] in Hv. destruct Hv as [i Hi]. destruct (var_facts x i Hi) as (Hil & Hin & Hpos).
            exists (DVar i x), (TVar x), f. cbn [Deep.dparse]. unfold var_index. rewrite Hi. cbn [bind].
            split; [reflexivity|]. split; [cbn in Hfuel; lia|]. split; [split; [exact Hi|intros y [<-|[]]; exact Hin]|].
            split; [split; [reflexivity|intros e1 E; discriminate]|]. split; [|reflexivity].
            cbn [nden RefSem.ref_atom apply_unary fold_right leaf_val]. rewrite Hpos. apply R_refl.
        + cbn [forallb] in Hwf. apply andb_prop in Hwf. destruct Hwf as [Hu Hus].
          set (tk := match k with LNum v => TNum v | LVar x => TVar x end).
          assert (Ek : flatten_atom (ALeaf (u :: us) k) = TOp u :: map TOp us ++ [tk]) by (destruct k; reflexivity).
          rewrite Ek in *. cbn [app] in *. rewrite <- app_assoc in *. cbn [app] in *.
          cbn [Deep.dparse]. rewrite (isb_unary_o left u Hc Hu). cbn [bind]. change (has_un tb u) with (is_un tb u). rewrite Hu. cbn [negb].
          rewrite (more_unaries_spec us tk tail Hus) by (destruct k; exact I).
          replace (length (u :: us) - 1) with (length us) by (cbn [length]; lia). rewrite skipn_map_app.
          assert (Hft : length tail < f) by (cbn [length] in Hfuel; rewrite app_length in Hfuel; cbn [length] in Hfuel; lia).
          destruct k as [d|x]; cbn [tk].
          * exists (DNum (apply_un C (u :: us) d)), (TNum d), f. repeat split; try reflexivity; try exact Hft; try apply R_refl;
              try (intros e1 E; discriminate); try (intros y []); try (intros Hy; exact Hy).
          * cbn [vars_in_atom] in Hv. destruct Hv as [i Hi]. destruct (var_facts x i Hi) as (Hil & Hin & Hpos).
            unfold var_index. rewrite Hi. cbn [bind].
            destruct (new_deepex_ok [DVar i x] [] (u :: us) eq_refl) as (e & He & Hwe & Hr & Hdv).
            { constructor; [|constructor]. split; [exact Hi|]. intros y [<-|[]]. exact Hin. }
            { intros ? []. }
            rewrite He. cbn [bind].
            exists (DExpr e), (TVar x), f. split; [reflexivity|]. split; [exact Hft|]. split; [split|split; [|split; [|reflexivity]]].
            -- exact Hwe.
            -- cbn [node_var_names]. destruct e as [ns bs us' vs]. apply dwf_unfold in Hwe. destruct Hwe as (_ & [_ Hincl] & _). exact Hincl.
            -- apply nodenames_expr. rewrite Hdv. reflexivity.
            -- cbn [nden]. eapply R_trans; [exact Hr|]. cbn [map nden level_val combine]. rewrite pv_nil.
               cbn [RefSem.ref_atom leaf_val]. rewrite Hpos. apply R_refl.
      - (* parenthesis groups *)
        rewrite asize_group in Hs. rewrite (wf_group tb) in Hwf. apply andb_prop in Hwf. destruct Hwf as [Hwf Hwr]. apply andb_prop in Hwf. destruct Hwf as [Hus Hw0].
        destruct (proj1 (vars_in_group vars us a0 rest) Hv) as [Hv0 Hvr].
        rewrite flatten_group_tail in *.
        assert (Hinner : forall us' f', forallb (is_un tb) us' = true ->
                  length (flatten_atom a0 ++ flatten_rest rest ++ TClose :: tail) < f' ->
                  exists e, dparse f' None (flatten_atom a0 ++ flatten_rest rest ++ TClose :: tail) vars [] [] us' = Ok (e, tail) /\
                            dwf e /\ R (dden e) (apply_un C us' (ref_chain (a0, rest))) /\
                            dvars e = sort_strs (atom_vars a0 ++ rest_vars rest)).
        { intros us' f' Hus' Hf'. apply (IHc a0 rest ltac:(lia) Hw0 Hwr Hv0 Hvr us' (TClose :: tail) tail f' Hus'); [right; reflexivity|exact Hf']. }
        assert (Hgroup : forall e us', dwf e -> R (dden e) (apply_un C us' (ref_chain (a0, rest))) ->
                  dvars e = sort_strs (atom_vars a0 ++ rest_vars rest) ->
                  nodeok (DExpr e) /\ nodenames (DExpr e) (AGroup us' a0 rest) /\ R (nden (DExpr e)) (RefSem.ref_atom C tb vars vals (AGroup us' a0 rest))).
        { intros e us' Hwe Hr Hdv. split; [split; [exact Hwe|]|split].
          - cbn [node_var_names]. destruct e as [ns bs us'' vs]. apply dwf_unfold in Hwe. destruct Hwe as (_ & [_ Hincl] & _). exact Hincl.
          - apply nodenames_expr. rewrite atom_vars_group. exact Hdv.
          - cbn [nden]. rewrite (ref_atom_group C tb vars vals). exact Hr. }
        destruct us as [|u us].
        + cbn [map app] in *. cbn [Deep.dparse].
          destruct (Hinner [] f eq_refl ltac:(cbn [length] in Hfuel; lia)) as (e & He & Hwe & Hr & Hdv).
          rewrite He. cbn [bind].
          destruct (Hgroup e [] Hwe Hr Hdv) as (Hok & Hnm & Hval).
          exists (DExpr e), TClose, f. split; [reflexivity|]. split; [|split; [exact Hok|split; [exact Hnm|split; [exact Hval|reflexivity]]]].
          cbn [length] in Hfuel. rewrite !app_length in Hfuel. cbn [length] in Hfuel. lia.
        + cbn [forallb] in Hus. apply andb_prop in Hus. destruct Hus as [Hu Hus].
          cbn [map app] in *. cbn [Deep.dparse]. rewrite (isb_unary_o left u Hc Hu). cbn [bind]. change (has_un tb u) with (is_un tb u). rewrite Hu. cbn [negb].
          rewrite (more_unaries_spec us TOpen _ Hus I).
          replace (length (u :: us) - 1) with (length us) by (cbn [length]; lia). rewrite skipn_map_app.
          assert (Hlen' : length (flatten_atom a0 ++ flatten_rest rest ++ TClose :: tail) < f).
          { cbn [length] in Hfuel. rewrite app_length in Hfuel. cbn [length] in Hfuel. lia. }
          destruct (Hinner (u :: us) f ltac:(cbn [forallb]; rewrite Hu, Hus; reflexivity) Hlen') as (e & He & Hwe & Hr & Hdv).
          rewrite He. cbn [bind].
          destruct (Hgroup e (u :: us) Hwe Hr Hdv) as (Hok & Hnm & Hval).
          exists (DExpr e), TClose, f. split; [reflexivity|]. split; [|split; [exact Hok|split; [exact Hnm|split; [exact Hval|reflexivity]]]].
          rewrite !app_length in Hlen'. cbn [length] in Hlen'. lia. }
    assert (Hrest : forall l, rsize l <= S n -> wf_rest tb l = true -> vars_in_rest vars l ->
       forall t tail rnodes rbops uop fuel, atom_end t = true -> length (flatten_rest l ++ tail) < fuel ->
       exists ns t' fuel2, atom_end t' = true /\ length tail < fuel2 /\
         Forall2 (fun node ob => nodeok node /\ nodenames node (snd ob) /\ R (nden node) (ref_atom (snd ob))) ns l /\
         dparse fuel (Some t) (flatten_rest l ++ tail) vars rnodes rbops uop =
         dparse fuel2 (Some t') tail vars (rev ns ++ rnodes) (rev (map dop (map fst l)) ++ rbops) uop).
    { intros l Hs Hwf Hv t tail rnodes rbops uop fuel Ht Hfuel.
      destruct l as [|[o b] tl].
      - exists [], t, fuel. cbn. repeat split; try assumption. constructor.
      - cbn [rsize] in Hs. cbn [wf_rest] in Hwf. apply andb_prop in Hwf. destruct Hwf as [Hwf Hwt]. apply andb_prop in Hwf. destruct Hwf as [Hbo Hwb].
        cbn [vars_in_rest] in Hv. destruct Hv as [Hvb Hvt].
        pose proof (asize_pos b) as Hpos.
        rewrite flatten_rest_cons_tail in *.
        destruct fuel as [|f]; [lia|]. cbn [Deep.dparse].
        rewrite (isb_binary tb o t Hbo Ht). cbn [bind]. rewrite (mk_bop_ok o Hbo). cbn [bind].
        destruct (Hatom b ltac:(lia) Hwb Hvb (Some (TOp o)) (flatten_rest tl ++ tail) rnodes (dop o :: rbops) uop f
                    (or_intror (ex_intro _ o eq_refl)) ltac:(cbn [length] in Hfuel; lia))
          as (node & t1 & f1 & Ht1 & Hf1 & Hok & Hnm & Hval & Estep).
        rewrite Estep.
        destruct (IHr tl ltac:(lia) Hwt Hvt t1 tail (node :: rnodes) (dop o :: rbops) uop f1 Ht1 Hf1)
          as (ns & t2 & f2 & Ht2 & Hf2 & Hall & Erest).
        rewrite Erest.
        exists (node :: ns), t2, f2. split; [exact Ht2|]. split; [exact Hf2|]. split; [constructor; [split; [exact Hok|split; assumption]|exact Hall]|].
        cbn [map rev]. rewrite <- !app_assoc. reflexivity. }
    split; [exact Hatom|]. split; [exact Hrest|].
    (* chains *)
    intros a0 rest Hs Hw0 Hwr Hv0 Hvr us endtoks remaining fuel Hus Hend Hfuel.
    pose proof (asize_pos a0) as Hpos.
    destruct (Hatom a0 ltac:(lia) Hw0 Hv0 None (flatten_rest rest ++ endtoks) [] [] us fuel (or_introl eq_refl) Hfuel)
      as (node0 & t0 & f0 & Ht0 & Hf0 & Hok0 & Hnm0 & Hval0 & E0).
    rewrite E0.
    destruct (Hrest rest ltac:(lia) Hwr Hvr t0 endtoks [node0] [] us f0 Ht0 Hf0)
      as (ns & t1 & f1 & Ht1 & Hf1 & Hall & E1).
    rewrite E1. rewrite app_nil_r.
    (* the end of the chain: the level is built and folded *)
    assert (Hl : length (node0 :: ns) = S (length (map dop (map fst rest)))).
    { cbn [length]. rewrite !map_length. f_equal. clear - Hall. induction Hall; cbn; congruence. }
    assert (Hnodes : Forall nodeok (node0 :: ns)).
    { constructor; [exact Hok0|]. clear - Hall. induction Hall as [|? ? ? ? (H & _ & _) _ IH]; constructor; assumption. }
    destruct (new_deepex_ok (node0 :: ns) (map dop (map fst rest)) us Hl Hnodes) as (e & He & Hwe & Hr & Hdv).
    { intros o Ho. apply in_map_iff in Ho. destruct Ho as (k & <- & Hk). apply dop_flag. exact (wf_rest_bins rest Hwr k Hk). }
    assert (Hfin : dparse f1 (Some t1) endtoks vars (rev ns ++ [node0]) (rev (map dop (map fst rest))) us = Ok (e, remaining)).
    { destruct f1 as [|f1']; [lia|]. cbn [Deep.dparse].
      assert (Erev : rev (rev ns ++ [node0]) = node0 :: ns) by (rewrite rev_app_distr, rev_involutive; reflexivity).
      destruct Hend as [[-> ->]| ->]; rewrite Erev, rev_involutive, He; reflexivity. }
    exists e. split; [exact Hfin|]. split; [exact Hwe|]. split.
    2:{ rewrite Hdv.
        assert (Hset : forall y, In y (flat_map node_var_names (node0 :: ns)) <-> In y (atom_vars a0 ++ rest_vars rest)).
        { intros y. cbn [flat_map]. rewrite !in_app_iff. rewrite (proj1 Hnm0 y).
          assert (Hr' : In y (flat_map node_var_names ns) <-> In y (rest_vars rest)).
          { clear - Hall. induction Hall as [|nd [o b] ? ? (_ & [Hn _] & _) _ IH]; [reflexivity|].
            cbn [flat_map rest_vars snd] in *. rewrite !in_app_iff, (Hn y), IH. reflexivity. }
          rewrite Hr'. reflexivity. }
        destruct ns as [|n1 ns'].
        - inversion Hall; subst. cbn [rest_vars]. rewrite app_nil_r.
          destruct node0 as [e1|d|i x]; destruct us; try (apply sort_strs_ext; intros y; rewrite <- (proj1 Hnm0 y); cbn [flat_map]; rewrite app_nil_r; reflexivity).
          exact (proj2 Hnm0 e1 eq_refl).
        - destruct node0; apply sort_strs_ext; exact Hset. }
    eapply R_trans; [exact Hr|]. apply (R_apply_un_ C R R_un).
    assert (Hvals : Forall2 R (map nden (node0 :: ns)) (RefSem.ref_atom C tb vars vals a0 :: map snd (ref_rest rest))).
    { cbn [map]. constructor; [exact Hval0|]. clear - Hall. induction Hall as [|nd [o b] ? ? (_ & _ & H) _ IH]; cbn; constructor; assumption. }
    eapply R_trans; [exact (level_val_R C R R_refl R_bin R_un _ _ _ Hvals)|].
    replace (map dop (map fst rest)) with (map dop (map fst (ref_rest rest))) by (rewrite (ref_rest_fst C tb vars vals); reflexivity).
    rewrite level_val_prec. unfold RefSem.ref_chain. cbn [fst snd]. rewrite (ref_rest_length C tb vars vals). apply R_refl.
Qed.
End DeepParse.
