(* Model/Lexer.v — parser.rs: tokenize_and_analyze, is_numeric_text, find_op_of_comma,
   is_operator_binary, find_parsed_vars, check_parsed_token_preconditions.
   Text is a list of code points; every token the Rust cuts out starts and ends on a character
   boundary, so byte offsets and code-point offsets describe the same cuts. *)
From Exmex.Model Require Import Base.

(* character classes of RE_VAR_NAME = ^[a-zA-Zα-ωΑ-Ω_]+[a-zA-Zα-ωΑ-Ω_0-9]* *)
Definition in_range (lo hi c : N) : bool := N.leb lo c && N.leb c hi.
Definition is_digit (c : N) : bool := in_range 48 57 c.
Definition is_ident_start (c : N) : bool :=
  in_range 97 122 c || in_range 65 90 c || in_range 945 969 c || in_range 913 937 c || N.eqb c 95.
Definition is_ident_char (c : N) : bool := is_ident_start c || is_digit c.
Definition SPACE : N := 32. Definition LPAR : N := 40. Definition RPAR : N := 41.
Definition COMMA : N := 44. Definition DOT : N := 46. Definition LBRACE : N := 123. Definition RBRACE : N := 125.

Fixpoint take_while (f : N -> bool) (s : str) : str :=
  match s with [] => [] | c :: tl => if f c then c :: take_while f tl else [] end.

(* RE_VAR_NAME.find(text_rest): the matched prefix, if any *)
Definition match_var_name (s : str) : option str :=
  match s with
  | c :: tl => if is_ident_start c then Some (c :: take_while is_ident_char tl) else None
  | [] => None
  end.
(* RE_VAR_NAME_EXACT.is_match(s) *)
Definition is_exact_var_name (s : str) : bool :=
  match s with
  | c :: tl => is_ident_start c && forallb is_ident_char tl
  | [] => false
  end.

(* parser.rs:95 is_numeric_text; returns the number of matched characters *)
Definition is_numeric_text (s : str) : option nat :=
  let pre := take_while (fun c => is_digit c || N.eqb c DOT) s in
  let n := length pre in
  let dots := length (filter (N.eqb DOT) pre) in
  if (Nat.ltb 1 n && Nat.ltb dots 2) || (Nat.eqb n 1 && Nat.eqb dots 0) then Some n else None.

Section Lexer.
Context {D : Type}.
Variable C : carrier D.
Variable tb : optable.
(* MatchLiteral::is_literal: number of characters of the literal the text starts with *)
Variable is_literal : str -> option nat.

Definition op_of (k : nat) : opspec :=
  nth k tb {| repr := []; obin := None; ounary := false; oconst := false |}.
Definition has_bin (k : nat) : bool := match obin (op_of k) with Some _ => true | None => false end.
Definition has_un (k : nat) : bool := ounary (op_of k).

(* operators sorted inverse alphabetically (parser.rs:170-176); distinct names assumed *)
Fixpoint insert_op_desc (k : nat) (l : list nat) : list nat :=
  match l with
  | [] => [k]
  | j :: tl => if str_ltb (repr (op_of j)) (repr (op_of k)) then k :: l else j :: insert_op_desc k tl
  end.
Definition ops_sorted : list nat := fold_left (fun acc k => insert_op_desc k acc) (seq 0 (length tb)) [].

(* find_ops (parser.rs:187-201) *)
Definition op_matches (rest : str) (k : nat) : bool :=
  let r := repr (op_of k) in
  is_prefix r rest &&
  (has_bin k ||
   match skipn (length r) rest with
   | [] => true
   | c :: _ => negb (is_exact_var_name (r ++ [c]))
   end).
Definition find_ops (rest : str) : option nat := find (op_matches rest) ops_sorted.

(* find_op_of_comma on the reversed token list: position counted from the end *)
Fixpoint find_op_of_comma_rev (rres : list (token D)) (cnt : Z) (pos : nat) : option nat :=
  match rres with
  | [] => None
  | t :: tl =>
      let cnt' := match t with TClose => (cnt - 1)%Z | TOpen => (cnt + 1)%Z | _ => cnt end in
      (* the search stays inside the parenthesis that encloses the comma (take_while paren_cnt <= 1) *)
      if (1 <? cnt')%Z then None else
      match t with
      | TOp _ => if (cnt' =? 1)%Z then Some pos else find_op_of_comma_rev tl cnt' (S pos)
      | _ => find_op_of_comma_rev tl cnt' (S pos)
      end
  end.

(* tokenizer state: reversed result, stack of pending call depths, paren depth *)
Fixpoint tokenize_go (fuel : nat) (s : str) (rres : list (token D)) (pending : list Z) (depth : Z)
  : res (list (token D)) :=
  match fuel with O => Err E_FUEL | S fuel' =>
  match s with
  | [] => Ok (rev rres)
  | c :: tl =>
    if N.eqb c SPACE then tokenize_go fuel' tl rres pending depth
    else if N.eqb c LPAR then tokenize_go fuel' tl (TOpen :: rres) pending (depth + 1)
    else if N.eqb c RPAR then
      let depth' := (depth - 1)%Z in
      match pending with
      | d :: ptl => if (d =? depth' + 1)%Z
                    then tokenize_go fuel' tl (TClose :: TClose :: rres) ptl depth'
                    else tokenize_go fuel' tl (TClose :: rres) pending depth'
      | [] => tokenize_go fuel' tl (TClose :: rres) pending depth'
      end
    else if N.eqb c COMMA then
      match find_op_of_comma_rev rres 0 0 with
      | None => Err E_COMMA
      | Some pos =>
          match nth_error rres pos with
          | Some op_at_comma =>
              tokenize_go fuel' tl (TOpen :: op_at_comma :: TClose :: set_nth pos TOpen rres)
                          (depth :: pending) depth
          | None => Panic 233
          end
      end
    else if N.eqb c LBRACE then
      let name := take_while (fun c => negb (N.eqb c RBRACE)) tl in
      tokenize_go fuel' (skipn (S (length name)) tl) (TVar name :: rres) pending depth
    else match is_literal s with
    | Some n =>
        match lit C (firstn n s) with
        | None => Err E_LITERAL
        | Some d =>
            match n with
            | O => Ok (rev (TNum d :: rres))       (* the offset does not advance: the rest is skipped *)
            | _ => tokenize_go fuel' (skipn n s) (TNum d :: rres) pending depth
            end
        end
    | None =>
      match find_ops s with
      | Some k =>
          let t := if oconst (op_of k) then TNum (cst C k) else TOp k in
          match length (repr (op_of k)) with
          | O => Ok (rev (t :: rres))
          | n => tokenize_go fuel' (skipn n s) (t :: rres) pending depth
          end
      | None =>
        match match_var_name s with
        | Some v => tokenize_go fuel' (skipn (length v) s) (TVar v :: rres) pending depth
        | None => Err E_TOKENIZE
        end
      end
    end
  end end.

Definition tokenize (s : str) : res (list (token D)) := tokenize_go (S (length s)) s [] [] 0.

(* parser.rs:53 is_operator_binary *)
Definition is_operator_binary (k : nat) (left : option (token D)) : res bool :=
  if has_bin k && negb (has_un k) then
    match left with Some (TOp _) => Err E_BINRIGHT | _ => Ok true end
  else if has_bin k && has_un k then
    Ok (match left with
        | Some (TNum _) | Some (TVar _) => true
        | Some TClose => true | Some TOpen => false
        | Some (TOp _) => false | None => false end)
  else Ok false.

(* parser.rs:79 find_parsed_vars *)
Definition find_parsed_vars (ts : list (token D)) : list str :=
  sort_strs (fold_right (fun t acc => match t with TVar x => x :: acc | _ => acc end) [] ts).

(* parser.rs:292-378, the seven pair rules (after the repair of F7: `)(` rejected) *)
Definition pair_ok (l r : token D) : bool :=
  match l, r with
  | TClose, TNum _ | TClose, TVar _ | TNum _, TOpen | TVar _, TOpen | TClose, TOpen => false
  | TNum _, TOp k | TVar _, TOp k => has_bin k
  | TOp kl, TOp kr =>
      negb (negb (has_un kl) && negb (has_un kr)) && negb (negb (has_bin kl) && negb (has_un kr))
  | TOp _, TClose => false
  | TClose, TOp k => has_bin k
  | TOpen, TClose => false
  | _, _ => true
  end.
Fixpoint pairs_ok (ts : list (token D)) : bool :=
  match ts with
  | a :: ((b :: _) as tl) => pair_ok a b && pairs_ok tl
  | _ => true
  end.
Fixpoint paren_balance (ts : list (token D)) (cnt : Z) : option Z :=
  match ts with
  | [] => Some cnt
  | TOpen :: tl => paren_balance tl (cnt + 1)
  | TClose :: tl => if (cnt - 1 <? 0)%Z then None else paren_balance tl (cnt - 1)
  | _ :: tl => paren_balance tl cnt
  end.
Definition check_preconditions (ts : list (token D)) : res unit :=
  match ts with
  | [] => Err E_EMPTY
  | _ =>
    if negb (pairs_ok ts) then Err E_PAIR else
    match paren_balance ts 0 with
    | None => Err E_PAREN
    | Some cnt =>
        if negb (cnt =? 0)%Z then Err E_PAREN else
        match last ts TOpen with TOp _ => Err E_LASTOP | _ => Ok tt end
    end
  end.

End Lexer.
