(* Proofs/FlattenSem.v — deep -> flat (flat.rs flatten_vecs / from_deepex): every nesting level adds 100 to the
   priorities of its operators, the unary operators of a level go to the operator of the level that is applied last (or
   to its only node).  For every well-formed deep expression whose operator priorities lie in 0..99 the precedence value
   of the flattened expression is the denotation of the deep one: a nested level is a block that binds tighter than
   both neighbours (PevBlock). *)
From Coq Require Import List Arith Lia Bool ZArith.
Import ListNotations.
From Exmex.Model Require Import Base EvalBinary Lexer Flat Deep Convert.
From Exmex.Proofs Require Import Pev PevFold PevBlock FlStruct FlSem FlVals FlatPev DeepSem.
Open Scope nat_scope.

Section Forall2Facts.
Context {A B : Type}.
Variable P : A -> B -> Prop.
Lemma Forall2_nth l l' : Forall2 P l l' -> forall r,
  match nth_error l r, nth_error l' r with Some a, Some b => P a b | None, None => True | _, _ => False end.
Proof. induction 1 as [|a b l l' Hab _ IH]; intros r; [destruct r; exact I|]. destruct r; [exact Hab|apply IH]. Qed.
Lemma Forall2_firstn n : forall l l', Forall2 P l l' -> Forall2 P (firstn n l) (firstn n l').
Proof. induction n as [|n IH]; intros l l' H; [constructor|]. destruct H; [constructor|]. cbn. constructor; [assumption|apply IH; assumption]. Qed.
Lemma Forall2_skipn n : forall l l', Forall2 P l l' -> Forall2 P (skipn n l) (skipn n l').
Proof. induction n as [|n IH]; intros l l' H; [exact H|]. destruct H; [constructor|]. cbn. apply IH. assumption. Qed.
Lemma Forall2_weaken (Q : A -> B -> Prop) l l' : (forall a b, P a b -> Q a b) -> Forall2 P l l' -> Forall2 Q l l'.
Proof. intros HPQ. induction 1; constructor; auto. Qed.
End Forall2Facts.

Section FlattenSem.
Context {D : Type}.
Variable C : carrier D.
Variable vals : list D.
Variable comm : nat -> bool.
(* anything else known of every operator record (index, flag) is inherited by the flat operators *)
Variable Q : nat -> bool -> Prop.
Variable okvars : list str -> Prop.
Definition okvar_lt (i : nat) (_ : str) : Prop := i < length vals.
Definition okop_q (o : dbop) : Prop := table_op comm o /\ Q (bidx o) (bcomm o).
Local Notation okop := okop_q.
Local Notation dwf := (dwf okop okvar_lt okvars).
Local Notation nwf := (nwf okop okvar_lt okvars).
Local Notation nv := (nval C vals).
Local Notation img := (vals_of C vals).
Local Notation dd := (dden C (vlook C vals)).
Local Notation nd := (nden C (vlook C vals)).
Local Notation pv := (pv C).

(* ---- flatten_vecs, unfolded ---- *)
Definition fl_node (off : Z) (n : dnode D) : res (list (fnode D) * list fop) :=
  match n with
  | DNum d => Ok ([{| nkind := FNum d; nun := [] |}], [])
  | DVar i _ => Ok ([{| nkind := FVar i; nun := [] |}], [])
  | DExpr e' => flatten_vecs e' (off + 100)
  end.
Definition shift_op (off : Z) (o : dbop) : fop := {| fprio := bprio o + off; fidx := bidx o; fcomm := bcomm o; fun_ := [] |}.
Definition own_op (off : Z) (ops : list dbop) : list fop := match ops with o :: _ => [shift_op off o] | [] => [] end.
Fixpoint fl_level (off : Z) (l : list (dnode D)) (ops : list dbop) : res (list (fnode D) * list fop) :=
  match l with
  | [] => Ok ([], [])
  | n :: tl =>
      do ' (ns, os) <- fl_node off n;
      do ' (ns', os') <- fl_level off tl (List.tl ops);
      Ok (ns ++ ns', os ++ own_op off ops ++ os')
  end.
Lemma fl_level_cons off n tl ops :
  fl_level off (n :: tl) ops =
  do ' (ns, os) <- fl_node off n; do ' (ns', os') <- fl_level off tl (List.tl ops); Ok (ns ++ ns', os ++ own_op off ops ++ os').
Proof. reflexivity. Qed.
Definition fl_unary (uop : list nat) (r : list (fnode D) * list fop) : res (list (fnode D) * list fop) :=
  let '(fnodes, fops) := r in
  match uop with
  | [] => Ok (fnodes, fops)
  | _ =>
      match rightmost_min fops 0 None with
      | Some pos => Ok (fnodes, update_nth pos (add_un uop) fops)
      | None =>
          match fnodes with
          | n :: ntl => Ok ({| nkind := nkind n; nun := uop ++ nun n |} :: ntl, fops)
          | [] => Panic 1032
          end
      end
  end.
Lemma flatten_unfold nodes bops uop vars off :
  flatten_vecs (DE nodes bops uop vars) off = do r <- fl_level off nodes bops; fl_unary uop r.
Proof.
  cbn [flatten_vecs].
  match goal with |- bind (?F nodes bops) _ = _ =>
    assert (E : forall l ops, F l ops = fl_level off l ops) end.
  { induction l as [|n tl IH]; intros ops; [reflexivity|]. cbn [fl_level]. rewrite <- IH.
    destruct n as [e'|d|i x]; cbn [fl_node]; reflexivity. }
  rewrite E. destruct (fl_level off nodes bops) as [[fnodes fops]| |]; reflexivity.
Qed.

(* rightmost_min is the position FlStruct.rmin_idx *)
Lemma rightmost_min_rmin : forall (ops : list fop) pos best bestk,
  rightmost_min ops pos (Some (best, bestk)) = Some (rmin ops pos best bestk).
Proof.
  induction ops as [|o ops IH]; intros pos best bestk; [reflexivity|]. cbn [rightmost_min rmin].
  change (fprio o <=? bestk)%Z with (Z.leb (fprio o) bestk). destruct (Z.leb (fprio o) bestk); apply IH.
Qed.
Lemma rightmost_min_spec (ops : list fop) :
  rightmost_min ops 0 None = match ops with [] => None | _ => Some (rmin_idx ops) end.
Proof. destruct ops as [|o ops]; [reflexivity|]. cbn [rightmost_min rmin_idx]. apply rightmost_min_rmin. Qed.

Lemma fl_unary_attach uop no : shape no -> uop <> [] -> fl_unary uop no = Ok (attach uop no).
Proof.
  destruct no as [fnodes fops]. unfold shape. cbn [fst snd]. intros Hs Hne. unfold fl_unary, attach.
  destruct uop as [|u us]; [congruence|]. rewrite rightmost_min_spec.
  destruct fops as [|o fops']; [|reflexivity].
  destruct fnodes as [|n [|n' nt]]; cbn in Hs; try lia. reflexivity.
Qed.

(* ---- what is shown of a flattened expression ---- *)
Definition flags_ok (os : list fop) : Prop := forall o, In o os -> fcomm o = true -> comm (fidx o) = true.
Definition low_bound (off : Z) (os : list fop) : Prop := forall o, In o os -> (off <= fprio o)%Z.
Definition q_ok (os : list fop) : Prop := forall o, In o os -> Q (fidx o) (fcomm o).
Record flat_of (off : Z) (v : D) (no : list (fnode D) * list fop) : Prop := {
  fo_shape : shape no;
  fo_low : low_bound off (snd no);
  fo_flags : flags_ok (snd no);
  fo_q : q_ok (snd no);
  fo_range : in_range vals (fst no);
  fo_val : pv (fst (img no)) (snd (img no)) = v
}.

Lemma above_of_low (off M : Z) (os : list fop) (ys : list D) : low_bound off os -> (M < off)%Z -> above M (combine os ys).
Proof. intros H HM o y Hin. apply in_combine_l in Hin. specialize (H o Hin). lia. Qed.

(* the image of a concatenation: the pairs of the first part, then the connecting operator with the first value of
   the second part, then the pairs of the second part *)
Lemma img_app (ns ns' : list (fnode D)) (os os' : list fop) (o : fop) :
  shape (ns, os) -> shape (ns', os') ->
  img (ns ++ ns', os ++ o :: os') = (fst (img (ns, os)), snd (img (ns, os)) ++ (o, fst (img (ns', os'))) :: snd (img (ns', os'))).
Proof.
  unfold shape, vals_of. cbn [fst snd]. intros Hs Hs'.
  destruct ns as [|n0 nt]; [cbn in Hs; lia|]. destruct ns' as [|m0 mt]; [cbn in Hs'; lia|].
  cbn [app map fst snd]. f_equal. rewrite map_app. cbn [map].
  rewrite combine_app by (rewrite map_length; cbn in Hs; lia). reflexivity.
Qed.

(* precedence evaluation does not change when every priority is shifted by the same amount *)
Lemma rm_pos_shift (off : Z) : forall (l l' : list (fop * D)) pos best bestk,
  Forall2 (fun p q => fprio (fst q) = (fprio (fst p) + off)%Z) l l' ->
  rm_pos l' pos best (bestk + off) = rm_pos l pos best bestk.
Proof.
  induction l as [|[o y] l IH]; intros l' pos best bestk H; inversion H as [|? [o' y'] ? ? Hp Hl]; subst; [reflexivity|].
  cbn [rm_pos]. cbn [fst] in Hp. rewrite Hp.
  replace (fprio o + off <=? bestk + off)%Z with (fprio o <=? bestk)%Z by (destruct (Z.leb_spec (fprio o) bestk), (Z.leb_spec (fprio o + off) (bestk + off)); try reflexivity; lia).
  destruct (fprio o <=? bestk)%Z; apply IH; assumption.
Qed.
Lemma root_idx_shift (off : Z) (l l' : list (fop * D)) :
  Forall2 (fun p q => fprio (fst q) = (fprio (fst p) + off)%Z) l l' -> root_idx l' = root_idx l.
Proof.
  intros H. inversion H as [|[o y] [o' y'] ? ? Hp Hl]; subst; [reflexivity|]. cbn [root_idx]. cbn [fst] in Hp. rewrite Hp.
  apply rm_pos_shift. exact Hl.
Qed.
Definition same_app (p q : fop * D) : Prop := fidx (fst p) = fidx (fst q) /\ fun_ (fst p) = fun_ (fst q) /\ snd p = snd q.
Lemma pev_shift (off : Z) : forall n x (l l' : list (fop * D)),
  Forall2 (fun p q => fprio (fst q) = (fprio (fst p) + off)%Z /\ same_app p q) l l' -> pev C n x l' = pev C n x l.
Proof.
  induction n as [|n IH]; intros x l l' H; [reflexivity|].
  destruct H as [|p q l l' Hpq Hl]; [reflexivity|].
  assert (Hall : Forall2 (fun p q => fprio (fst q) = (fprio (fst p) + off)%Z /\ same_app p q) (p :: l) (q :: l')) by (constructor; assumption).
  rewrite (pev_S C n x (q :: l')) by discriminate. rewrite (pev_S C n x (p :: l)) by discriminate.
  assert (Hr : root_idx (q :: l') = root_idx (p :: l)).
  { apply (root_idx_shift off). exact (Forall2_weaken _ _ _ _ (fun a b H => proj1 H) Hall). }
  rewrite Hr. set (r := root_idx (p :: l)).
  pose proof (Forall2_nth _ _ _ Hall r) as Hnth.
  destruct (nth_error (p :: l) r) as [[o y]|], (nth_error (q :: l') r) as [[o' y']|]; try contradiction; [|reflexivity].
  destruct Hnth as (_ & Hi & Hf & Hy). cbn [fst snd] in *. subst y'.
  assert (Eop : forall a b, apply_op C o' a b = apply_op C o a b) by (intros; unfold apply_op; rewrite Hi, Hf; reflexivity).
  rewrite Eop. f_equal; apply IH; [apply Forall2_firstn|apply Forall2_skipn]; exact Hall.
Qed.

(* ---- one level ---- *)
Definition node_ok (off : Z) (n : dnode D) : Prop :=
  exists no, fl_node off n = Ok no /\ flat_of (off + 100) (nd n) no.

Lemma fl_level_sem (off : Z) : forall (l : list (dnode D)) (ops : list dbop) (n : dnode D),
  length ops = length l -> Forall (node_ok off) (n :: l) -> (forall o, In o ops -> okop o) ->
  exists no, fl_level off (n :: l) ops = Ok no /\ shape no /\ low_bound off (snd no) /\ flags_ok (snd no) /\ q_ok (snd no) /\ in_range vals (fst no) /\
    pv (fst (img no)) (snd (img no)) = pv (nd n) (combine (map (shift_op off) ops) (map nd l)) /\
    (forall x l1 o1, (fprio o1 <= off + 99)%Z ->
       pv x (l1 ++ (o1, fst (img no)) :: snd (img no)) = pv x (l1 ++ (o1, nd n) :: combine (map (shift_op off) ops) (map nd l))).
Proof.
  induction l as [|n' l IH]; intros ops n Hlen Hall Hops.
  - destruct ops; [|discriminate]. inversion Hall as [|? ? (no & En & Hn) _]; subst.
    destruct no as [ns os]. destruct Hn as [Hs Hl Hf Hq Hr Hv].
    rewrite fl_level_cons, En. cbn [bind fl_level own_op List.tl app]. rewrite !app_nil_r.
    exists (ns, os). split; [reflexivity|]. split; [exact Hs|]. split; [intros o Ho; specialize (Hl o Ho); lia|]. split; [exact Hf|]. split; [exact Hq|]. split; [exact Hr|].
    cbn [map combine]. split; [rewrite pv_nil; exact Hv|].
    intros x l1 o1 Ho1.
    rewrite <- (app_nil_r (snd (img (ns, os)))).
    rewrite (pv_block_mid C (length (snd (img (ns, os)))) _ (le_n _) x l1 o1 (fst (img (ns, os))) [] (off + 99)%Z); [rewrite Hv; reflexivity| |exact Ho1|exact I].
    unfold vals_of. cbn [fst snd]. destruct ns as [|n0 nt]; [intros ? ? []|]. cbn [snd]. apply (above_of_low (off + 100)); [exact Hl|lia].
  - destruct ops as [|o ops]; [discriminate|]. cbn in Hlen.
    inversion Hall as [|? ? (no & En & Hn) Hrest]; subst.
    destruct (IH ops n' ltac:(lia) Hrest (fun o' Ho' => Hops o' (or_intror Ho'))) as (no' & El & Hs' & Hl' & Hf' & Hq' & Hr' & Hv' & Hm').
    destruct no as [ns os]. destruct no' as [ns' os']. destruct Hn as [Hs Hl Hf Hq Hr Hv].
    rewrite fl_level_cons, En. cbn [bind List.tl]. rewrite El. cbn [bind own_op app].
    exists (ns ++ ns', os ++ shift_op off o :: os').
    destruct (Hops o (or_introl eq_refl)) as [[Hoc Hop] HQo].
    assert (Hown : (fprio (shift_op off o) <= off + 99)%Z) by (cbn; lia).
    split; [reflexivity|]. split; [|split; [|split; [|split; [|split]]]].
    + unfold shape in *. cbn [fst snd] in *. rewrite !app_length. cbn [length]. lia.
    + intros o2 Ho2. cbn [snd] in Ho2. apply in_app_or in Ho2. destruct Ho2 as [H|[<-|H]]; [specialize (Hl o2 H); lia|cbn; lia|exact (Hl' o2 H)].
    + intros o2 Ho2 Hc. cbn [snd] in Ho2. apply in_app_or in Ho2. destruct Ho2 as [H|[<-|H]]; [exact (Hf o2 H Hc)|cbn in *; exact (Hoc Hc)|exact (Hf' o2 H Hc)].
    + intros o2 Ho2. cbn [snd] in Ho2. apply in_app_or in Ho2. destruct Ho2 as [H|[<-|H]]; [exact (Hq o2 H)|exact HQo|exact (Hq' o2 H)].
    + cbn [fst]. intros m i Hm Hk. apply in_app_or in Hm. destruct Hm as [Hm|Hm]; [exact (Hr m i Hm Hk)|exact (Hr' m i Hm Hk)].
    + rewrite (img_app ns ns' os os' (shift_op off o) Hs Hs'). cbn [fst snd map combine].
      assert (Hab : above (off + 99) (snd (img (ns, os)))).
      { unfold vals_of. cbn [fst snd]. destruct ns as [|n0 nt]; [intros ? ? []|]. cbn [snd]. apply (above_of_low (off + 100)); [exact Hl|lia]. }
      split.
      * rewrite (pv_block_head C (length (snd (img (ns, os)))) _ (le_n _) (fst (img (ns, os))) _ (off + 99)%Z Hab); [|cbn; exact Hown].
        rewrite Hv. exact (Hm' (nd n) [] (shift_op off o) Hown).
      * intros x l1 o1 Ho1.
        rewrite (pv_block_mid C (length (snd (img (ns, os)))) _ (le_n _) x l1 o1 (fst (img (ns, os))) _ (off + 99)%Z Hab Ho1); [|cbn; exact Hown].
        rewrite Hv.
        replace (l1 ++ (o1, nd n) :: (shift_op off o, fst (img (ns', os'))) :: snd (img (ns', os')))
          with ((l1 ++ [(o1, nd n)]) ++ (shift_op off o, fst (img (ns', os'))) :: snd (img (ns', os'))) by (rewrite <- app_assoc; reflexivity).
        rewrite (Hm' x (l1 ++ [(o1, nd n)]) (shift_op off o) Hown). rewrite <- app_assoc. reflexivity.
Qed.

(* ---- the whole expression ---- *)
Theorem flatten_sem : forall e off, dwf e -> exists no, flatten_vecs e off = Ok no /\ flat_of off (dd e) no.
Proof.
  induction e as [nodes bops uop vars IH] using deep_ind. intros off Hwf.
  rewrite dwf_unfold in Hwf. destruct Hwf as (Hlen & _ & Hops & Hnodes).
  destruct nodes as [|n l]; [discriminate|]. cbn [length] in Hlen.
  assert (Hall : Forall (node_ok off) (n :: l)).
  { apply Forall_forall. intros m Hm. rewrite Forall_forall in Hnodes. specialize (Hnodes m Hm).
    destruct m as [e'|d|i x]; cbn [nwf] in Hnodes; unfold node_ok; cbn [fl_node].
    - destruct (IH e' Hm (off + 100)%Z Hnodes) as (no & E & Hf). exists no. split; [exact E|exact Hf].
    - eexists. split; [reflexivity|].
      constructor; [reflexivity|intros ? []|intros ? []|intros ? []|intros m i [<-|[]] Hk; discriminate|reflexivity].
    - eexists. split; [reflexivity|].
      constructor; [reflexivity|intros ? []|intros ? []|intros ? []|intros m j [<-|[]] Hk; cbn in Hk; inversion Hk; subst; exact Hnodes|reflexivity]. }
  destruct (fl_level_sem off l bops n ltac:(lia) Hall Hops) as (no & El & Hs & Hl & Hf & Hq & Hr & Hv & _).
  rewrite flatten_unfold, El. cbn [bind].
  assert (Hlevel : pv (nd n) (combine (map (shift_op off) bops) (map nd l)) = level_val C (map nd (n :: l)) bops).
  { unfold level_val. cbn [map]. unfold PevFold.pv. rewrite !combine_length, !map_length.
    apply (pev_shift off). clear. revert l. induction bops as [|o bops IHb]; intros l; [constructor|]. destruct l as [|m l]; [constructor|].
    cbn [map combine]. constructor; [|apply IHb]. cbn. repeat split; reflexivity. }
  destruct uop as [|u us].
  - destruct no as [ns os]. cbn [fl_unary]. exists (ns, os). split; [reflexivity|].
    constructor; try assumption. rewrite Hv, Hlevel, dden_unfold. reflexivity.
  - rewrite (fl_unary_attach (u :: us) no Hs ltac:(discriminate)). exists (attach (u :: us) no). split; [reflexivity|].
    destruct (vals_of_attach C vals (u :: us) no Hs) as [Ei Hs2]. destruct no as [ns os].
    constructor.
    + exact Hs2.
    + unfold attach. destruct os as [|o os']; [destruct ns as [|? [|? ?]]; cbn; intros ? []|].
      cbn [snd]. intros o2 Ho2. apply In_update_nth in Ho2. destruct Ho2 as [H|(o3 & H3 & ->)]; [exact (Hl o2 H)|cbn; exact (Hl o3 H3)].
    + unfold attach. destruct os as [|o os']; [destruct ns as [|? [|? ?]]; cbn; intros ? []|].
      cbn [snd]. intros o2 Ho2 Hc. apply In_update_nth in Ho2. destruct Ho2 as [H|(o3 & H3 & ->)]; [exact (Hf o2 H Hc)|cbn in *; exact (Hf o3 H3 Hc)].
    + unfold attach. destruct os as [|o os']; [destruct ns as [|? [|? ?]]; cbn; intros ? []|].
      cbn [snd]. intros o2 Ho2. apply In_update_nth in Ho2. destruct Ho2 as [H|(o3 & H3 & ->)]; [exact (Hq o2 H)|cbn in *; exact (Hq o3 H3)].
    + unfold attach. destruct os as [|o os']; [|exact Hr].
      destruct ns as [|m0 [|m1 mt]]; try exact Hr. cbn [fst]. intros m i [<-|[]] Hk. cbn in Hk. exact (Hr m0 i (or_introl eq_refl) Hk).
    + rewrite Ei. unfold PevFold.pv.
      assert (El2 : length (snd (attach_p C (u :: us) (img (ns, os)))) = length (snd (img (ns, os)))).
      { unfold attach_p. destruct (snd (img (ns, os))) eqn:E; [reflexivity|]. cbn [snd]. rewrite update_nth_length. reflexivity. }
      rewrite El2. destruct (img (ns, os)) as [x pairs] eqn:Eimg. cbn [fst snd] in *.
      rewrite (pev_attach C (u :: us) x pairs (length pairs) (le_n _)). fold (PevFold.pv C x pairs).
      rewrite Hv, Hlevel, dden_unfold. reflexivity.
Qed.
End FlattenSem.
