(* Proofs/DeepCompile.v — DeepEx::compile (lift_nodes, the folding loop, the unary operator on a single literal)
   preserves the denotation of every well-formed deep expression modulo R, and well-formedness.
   The loop is simulated by the flat folding loop on an encoding of the nodes (a non-literal node becomes a variable
   whose value is the node's denotation), for which CompileCorrect.compile_loop_preserves holds under the deep keys. *)
From Coq Require Import List Arith Lia Bool ZArith.
Import ListNotations.
From Exmex.Model Require Import Base EvalBinary Lexer Flat Deep.
From Exmex.Proofs Require Import SortDesc BumpInst Pev PevFold FlVals FlatPev CompileMachine CompileRefine CompileCorrect DeepSem.
Open Scope nat_scope.

Section ListFacts3.
Context {A B : Type}.
Variable f : A -> B.
Lemma map_set_nth : forall (l : list A) n x, map f (set_nth n x l) = set_nth n (f x) (map f l).
Proof. induction l as [|a l IH]; intros n x; [destruct n; reflexivity|]. destruct n; cbn; [reflexivity|]. rewrite IH. reflexivity. Qed.
Lemma map_remove_nth : forall (l : list A) n, map f (remove_nth n l) = remove_nth n (map f l).
Proof. induction l as [|a l IH]; intros n; [destruct n; reflexivity|]. destruct n; cbn; [reflexivity|]. rewrite IH. reflexivity. Qed.
End ListFacts3.
Lemma In_set_nth {A} : forall (l : list A) n x a, In a (set_nth n x l) -> a = x \/ In a l.
Proof.
  induction l as [|b l IH]; intros n x a H; [destruct n; destruct H|]. destruct n; cbn in H.
  - destruct H as [<-|H]; [left; reflexivity|right; right; exact H].
  - destruct H as [<-|H]; [right; left; reflexivity|]. destruct (IH _ _ _ H) as [->|H']; [left; reflexivity|right; right; exact H'].
Qed.

Section DeepCompile.
Context {D : Type}.
Variable C : carrier D.

(* ---- the encoding ---- *)
Definition enc (j : nat) (n : dnode D) : fnode D :=
  match n with DNum d => {| nkind := FNum d; nun := [] |} | _ => {| nkind := FVar j; nun := [] |} end.
Fixpoint enc_from (lo : nat) (nodes : list (dnode D)) : list (fnode D) :=
  match nodes with [] => [] | n :: tl => enc lo n :: enc_from (S lo) tl end.
Definition dec (orig : list (dnode D)) (f : fnode D) : dnode D :=
  match nkind f with FNum d => DNum d | FVar j => nth j orig (DNum (dflt C)) end.
Definition good (orig : list (dnode D)) (fn : list (fnode D)) : Prop :=
  forall f, In f fn -> nun f = [] /\ forall j, nkind f = FVar j -> j < length orig /\ is_dnum (nth j orig (DNum (dflt C))) = false.

Lemma enc_from_length : forall nodes lo, length (enc_from lo nodes) = length nodes.
Proof. induction nodes as [|n tl IH]; intros lo; [reflexivity|]. cbn. rewrite IH. reflexivity. Qed.
Lemma dec_enc_from orig : forall nodes lo, skipn lo orig = nodes -> map (dec orig) (enc_from lo nodes) = nodes.
Proof.
  induction nodes as [|n tl IH]; intros lo H; [reflexivity|]. cbn [enc_from map].
  assert (Hn : nth_error orig lo = Some n).
  { rewrite <- (firstn_skipn lo orig) at 1. rewrite H.
    assert (Hlo : length (firstn lo orig) = lo).
    { rewrite firstn_length. apply Nat.min_l. destruct (Nat.le_gt_cases lo (length orig)) as [Hle|Hgt]; [exact Hle|]. rewrite skipn_all2 in H by lia. discriminate. }
    rewrite nth_error_app2 by lia. rewrite Hlo, Nat.sub_diag. reflexivity. }
  f_equal.
  - unfold dec, enc. destruct n; cbn [nkind]; try reflexivity; apply nth_error_nth; exact Hn.
  - apply IH. rewrite <- (firstn_skipn lo orig) in H at 1. clear - H Hn.
    revert orig H Hn. induction lo as [|lo IHlo]; intros orig H Hn.
    + destruct orig; [discriminate|]. cbn in *. inversion H. reflexivity.
    + destruct orig; [discriminate|]. cbn in *. apply IHlo; assumption.
Qed.
Lemma good_enc_from orig : forall nodes lo, skipn lo orig = nodes -> good orig (enc_from lo nodes).
Proof.
  induction nodes as [|n tl IH]; intros lo H f Hf; [destruct Hf|].
  assert (Hn : nth_error orig lo = Some n).
  { rewrite <- (firstn_skipn lo orig) at 1. rewrite H.
    assert (Hlo : length (firstn lo orig) = lo).
    { rewrite firstn_length. apply Nat.min_l. destruct (Nat.le_gt_cases lo (length orig)) as [Hle|Hgt]; [exact Hle|]. rewrite skipn_all2 in H by lia. discriminate. }
    rewrite nth_error_app2 by lia. rewrite Hlo, Nat.sub_diag. reflexivity. }
  cbn [enc_from] in Hf. destruct Hf as [<-|Hf].
  - split; [destruct n; reflexivity|]. intros j Hj. destruct n; cbn in Hj; try discriminate; inversion Hj; subst j;
      (split; [apply nth_error_Some; congruence|rewrite (nth_error_nth _ _ _ Hn); reflexivity]).
  - apply (IH (S lo)); [|exact Hf]. clear - H Hn. revert orig H Hn. induction lo as [|lo IHlo]; intros orig H Hn.
    + destruct orig; [discriminate|]. cbn in *. inversion H. reflexivity.
    + destruct orig; [discriminate|]. cbn in *. apply IHlo; assumption.
Qed.

(* ---- the deep loop follows the flat loop on the encoding ---- *)
Lemma dloop_sim (orig : list (dnode D)) (bops : list dbop) : forall sigma i ni fn decl used fn' used',
  good orig fn ->
  compile_loop C sigma i ni fn (map to_fop bops) decl used = Ok (fn', used') ->
  dcompile_loop C sigma i ni (map (dec orig) fn) bops decl used = Ok (map (dec orig) fn', used') /\ good orig fn'.
Proof.
  induction sigma as [|op sigma IH]; intros i ni fn decl used fn' used' Hg H.
  - cbn in *. inversion H; subst. split; [reflexivity|exact Hg].
  - cbn [compile_loop dcompile_loop] in *.
    destruct (nth_error ni i) as [q|]; [|discriminate].
    rewrite !nth_error_map.
    destruct (nth_error fn q) as [n1|] eqn:E1; [|discriminate]. destruct (nth_error fn (S q)) as [n2|] eqn:E2; [|discriminate].
    cbn [option_map].
    destruct (Hg n1 (nth_error_In _ _ E1)) as [U1 K1]. destruct (Hg n2 (nth_error_In _ _ E2)) as [U2 K2].
    assert (Hdecl : forall (H' : compile_loop C sigma (S i) ni fn (map to_fop bops) (set_nth (S q) true (set_nth q true decl)) used = Ok (fn', used')),
              dcompile_loop C sigma (S i) ni (map (dec orig) fn) bops (set_nth (S q) true (set_nth q true decl)) used = Ok (map (dec orig) fn', used') /\ good orig fn').
    { intros H'. exact (IH _ _ _ _ _ _ _ Hg H'). }
    destruct (nkind n1) as [a|j1] eqn:Ek1.
    2:{ assert (Hd1 : is_dnum (dec orig n1) = false) by (unfold dec; rewrite Ek1; apply (K1 j1 eq_refl)).
        destruct (dec orig n1); try discriminate; destruct (dec orig n2); apply Hdecl; destruct (nkind n2); exact H. }
    assert (Ed1 : dec orig n1 = DNum a) by (unfold dec; rewrite Ek1; reflexivity). rewrite Ed1.
    destruct (nkind n2) as [b|j2] eqn:Ek2.
    2:{ assert (Hd2 : is_dnum (dec orig n2) = false) by (unfold dec; rewrite Ek2; apply (K2 j2 eq_refl)).
        destruct (dec orig n2); try discriminate; apply Hdecl; exact H. }
    assert (Ed2 : dec orig n2 = DNum b) by (unfold dec; rewrite Ek2; reflexivity). rewrite Ed2.
    destruct (negb (nth q decl false || nth (S q) decl false)); [|apply Hdecl; exact H].
    rewrite nth_error_map in H. destruct (nth_error bops op) as [o|]; [|discriminate]. cbn [option_map] in H.
    set (newf := {| nkind := FNum (apply_op C (to_fop o) a b); nun := [] |}) in *.
    assert (Hg' : good orig (remove_nth (S q) (set_nth q newf fn))).
    { intros f Hf. apply In_remove_nth in Hf. apply In_set_nth in Hf. destruct Hf as [->|Hf]; [|exact (Hg f Hf)].
      split; [reflexivity|]. intros j Hj. discriminate. }
    destruct (IH _ _ _ _ _ _ _ Hg' H) as [Hd Hg'']. split; [|exact Hg''].
    rewrite map_remove_nth, map_set_nth in Hd. exact Hd.
Qed.

(* ---- values of encoded nodes ---- *)
Section Values.
Variable R : D -> D -> Prop.
Hypothesis R_refl : forall a, R a a.
Hypothesis R_sym : forall a b, R a b -> R b a.
Hypothesis R_trans : forall a b c, R a b -> R b c -> R a c.
Hypothesis R_bin : forall k a a' b b', R a a' -> R b b' -> R (binf C k a b) (binf C k a' b').
Hypothesis R_un : forall k a a', R a a' -> R (unf C k a) (unf C k a').
Variable okop : dbop -> Prop.
Hypothesis okop_assoc : forall o, okop o -> bcomm o = true ->
  forall a b c, R (binf C (bidx o) (binf C (bidx o) a b) c) (binf C (bidx o) a (binf C (bidx o) b c)).
Variable look : nat -> str -> D.
Variable okvar : nat -> str -> Prop.
Variable okvars : list str -> Prop.
Local Notation dden := (dden C look).
Local Notation nden := (nden C look).
Local Notation dwf := (dwf okop okvar okvars).
Local Notation nwf := (nwf okop okvar okvars).

Lemma nval_dec orig f : nun f = [] -> nval C (map nden orig) f = nden (dec orig f).
Proof.
  intros Hu. unfold nval, dec. rewrite Hu. cbn [apply_un fold_right]. destruct (nkind f) as [d|j]; [reflexivity|].
  change (dflt C) with (nden (DNum (dflt C))). apply map_nth.
Qed.
Lemma level_pv_dec orig fn bops : good orig fn ->
  level_pv C (map nden orig) fn (map to_fop bops) = level_val C (map nden (map (dec orig) fn)) bops.
Proof.
  intros Hg. destruct fn as [|f0 ft]; [reflexivity|]. unfold level_pv, level_val. cbn [map].
  rewrite (nval_dec orig f0) by (apply Hg; left; reflexivity). f_equal. f_equal.
  rewrite !map_map. apply map_ext_in. intros f Hf. apply nval_dec. apply Hg. right. exact Hf.
Qed.

(* ---- lift_nodes ---- *)
Definition lift_node (n : dnode D) : dnode D :=
  match n with
  | DExpr (DE [n1] b1 [] v1) =>
      match n1 with
      | DNum d => DNum d
      | DVar i x => DVar i x
      | DExpr e_deeper =>
          let ed := lift_nodes e_deeper in
          match dnodes ed, duop ed with
          | [_], [] => DExpr ed
          | _, _ => DExpr (DE [DExpr ed] b1 [] v1)
          end
      end
  | _ => n
  end.
Lemma lift_nodes_unfold nodes bops uop vars :
  lift_nodes (DE nodes bops uop vars) =
  match nodes, uop with
  | [n], [] => match n with DExpr e1 => e1 | _ => DE nodes bops uop vars end
  | _, _ => DE (map lift_node nodes) bops uop vars
  end.
Proof. destruct nodes as [|n [|n' tl]]; destruct uop; reflexivity. Qed.

Lemma dden_single n v : dden (DE [n] [] [] v) = nden n.
Proof. rewrite dden_unfold. reflexivity. Qed.

Lemma lift_nodes_ok : forall k e, dsize e <= k -> dwf e -> dwf (lift_nodes e) /\ dden (lift_nodes e) = dden e.
Proof.
  induction k as [|k IH]; intros e Hs Hwf; [destruct e; cbn in Hs; lia|].
  destruct e as [nodes bops uop vars].
  assert (Hnode : forall n, In n nodes -> nwf n -> nwf (lift_node n) /\ nden (lift_node n) = nden n).
  { intros n Hin Hn. destruct n as [e'|d|i x]; try (split; [exact Hn|reflexivity]).
    destruct e' as [ns b1 u1 v1]. destruct ns as [|n1 [|? ?]]; try (split; [exact Hn|reflexivity]).
    destruct u1; [|split; [exact Hn|reflexivity]].
    cbn [nwf] in Hn. pose proof Hn as Hn0. apply dwf_unfold in Hn. destruct Hn as (Hl1 & Ha1 & Hf1 & Hn1).
    destruct b1; [|cbn in Hl1; lia]. inversion Hn1 as [|? ? Hn1' _]; subst.
    cbn [lift_node]. destruct n1 as [e_deeper|d|i x].
    - assert (Hsd : dsize e_deeper <= k).
      { pose proof (dsize_in nodes bops uop vars _ Hin) as H1. pose proof (dsize_in [DExpr e_deeper] [] [] v1 e_deeper (or_introl eq_refl)) as H2. lia. }
      destruct (IH e_deeper Hsd Hn1') as [Hw Hd].
      cbn zeta. destruct (dnodes (lift_nodes e_deeper)) as [|m [|? ?]]; destruct (duop (lift_nodes e_deeper));
        (split; [cbn [nwf]; try exact Hw; apply dwf_unfold; (split; [reflexivity|split; [exact Ha1|split; [intros ? []|constructor; [exact Hw|constructor]]]])
                |cbn [nden]; rewrite ?dden_single; cbn [nden]; rewrite ?dden_single; cbn [nden]; exact Hd]).
    - split; [exact I|]. cbn [nden]. rewrite dden_single. reflexivity.
    - split; [exact Hn1'|]. cbn [nden]. rewrite dden_single. reflexivity. }
  pose proof Hwf as Hwf0. apply dwf_unfold in Hwf. destruct Hwf as (Hlen & Har & Hfl & Hnodes).
  assert (Hmap : dwf (DE (map lift_node nodes) bops uop vars) /\ dden (DE (map lift_node nodes) bops uop vars) = dden (DE nodes bops uop vars)).
  { split.
    - apply dwf_unfold. split; [rewrite map_length; exact Hlen|]. split; [exact Har|]. split; [exact Hfl|].
      apply Forall_forall. intros m Hm. apply in_map_iff in Hm. destruct Hm as (n & <- & Hn).
      rewrite Forall_forall in Hnodes. apply (Hnode n Hn (Hnodes n Hn)).
    - rewrite !dden_unfold. f_equal. f_equal. rewrite map_map. apply map_ext_in. intros n Hn.
      rewrite Forall_forall in Hnodes. apply (Hnode n Hn (Hnodes n Hn)). }
  rewrite lift_nodes_unfold.
  destruct nodes as [|n [|n' tl]]; try exact Hmap.
  destruct uop; [|exact Hmap].
  destruct n as [e1|d|i x]; try (split; [exact Hwf0|reflexivity]).
  inversion Hnodes as [|? ? Hn _]; subst. cbn [nwf] in Hn. split; [exact Hn|].
  destruct bops; [|cbn in Hlen; lia]. rewrite dden_single. reflexivity.
Qed.

(* ---- remaining operators ---- *)
Lemma remaining_map used (bops : list dbop) :
  remaining used (map to_fop bops) =
  map to_fop (map snd (filter (fun p => negb (existsb (Nat.eqb (fst p)) used)) (combine (seq 0 (length bops)) bops))).
Proof.
  unfold remaining. rewrite map_length. generalize 0 as lo. induction bops as [|o bops IH]; intros lo; [reflexivity|].
  cbn [map length seq combine filter fst]. destruct (negb (existsb (Nat.eqb lo) used)); cbn [map snd]; rewrite IH; reflexivity.
Qed.

(* ---- DeepEx::compile ---- *)
Theorem dcompile_ok (e0 : deepex D) : dwf e0 ->
  exists e', dcompile C e0 = Ok e' /\ dwf e' /\ R (dden e') (dden e0).
Proof.
  intros Hwf0. destruct (lift_nodes_ok (dsize e0) e0 (le_n _) Hwf0) as [Hwf Hden]. rewrite <- Hden. clear Hden Hwf0.
  unfold dcompile. destruct (lift_nodes e0) as [nodes bops uop vars].
  pose proof Hwf as Hwf1. apply dwf_unfold in Hwf. destruct Hwf as (Hlen & Har & Hfl & Hnodes).
  set (fn := enc_from 0 nodes).
  assert (Hg : good nodes fn) by (apply good_enc_from; reflexivity).
  assert (Hdec : map (dec nodes) fn = nodes) by (apply dec_enc_from; reflexivity).
  assert (Hfnl : length fn = length nodes) by apply enc_from_length.
  destruct fn as [|f0 ft] eqn:Efn; [cbn in Hfnl; lia|].
  assert (Hl : length ft = length (map to_fop bops)) by (rewrite map_length; cbn in Hfnl; lia).
  assert (Hassoc : assoc_ok C R (map to_fop bops)).
  { intros o Ho Hc. apply in_map_iff in Ho. destruct Ho as (o' & <- & Ho'). cbn in *. exact (okop_assoc o' (Hfl o' Ho') Hc). }
  assert (Hplain : nums_plain (f0 :: ft)) by (intros f Hf v _; apply (Hg f Hf)).
  destruct (compile_loop_preserves C R R_refl R_sym R_trans R_bin R_un (map to_fop bops) (dkey nodes bops)
              (dkey_cases nodes bops) (dkey_ok nodes bops) f0 ft Hl Hassoc Hplain)
    as (fn' & used' & Hloop & Hlen' & Hsub & _ & _ & HR).
  rewrite map_length in Hloop.
  destruct (dloop_sim nodes bops _ _ _ _ _ _ _ _ Hg Hloop) as [Hd Hg'].
  rewrite Hdec in Hd. unfold prioritized_indices.
  replace (length nodes) with (length (f0 :: ft)) by exact Hfnl. rewrite Hd. cbn [bind].
  set (bops' := map snd (filter (fun p => negb (existsb (Nat.eqb (fst p)) used')) (combine (seq 0 (length bops)) bops))).
  rewrite remaining_map in Hlen', Hsub, HR. fold bops' in Hlen', Hsub, HR. rewrite map_length in Hlen'.
  specialize (HR (map nden nodes)). rewrite (level_pv_dec nodes fn' bops' Hg') in HR.
  rewrite (level_pv_dec nodes (f0 :: ft) bops Hg), Hdec in HR.
  set (nodes' := map (dec nodes) fn') in *.
  assert (Hn'l : length nodes' = S (length bops')) by (unfold nodes'; rewrite map_length; exact Hlen').
  assert (Hfl' : forall o, In o bops' -> okop o).
  { intros o Ho. apply Hfl. assert (Hin : In (to_fop o) (map to_fop bops)) by (apply Hsub; apply in_map; exact Ho).
    apply in_map_iff in Hin. destruct Hin as (o' & E & Ho'). destruct o, o'; cbn in E. inversion E; subst. exact Ho'. }
  assert (Hnwf' : Forall nwf nodes').
  { apply Forall_forall. intros m Hm. unfold nodes' in Hm. apply in_map_iff in Hm. destruct Hm as (f & <- & Hf).
    destruct (Hg' f Hf) as [_ Hk]. unfold dec. destruct (nkind f) as [d|j]; [exact I|].
    destruct (Hk j eq_refl) as [Hj _]. rewrite Forall_forall in Hnodes. apply Hnodes. apply nth_In. exact Hj. }
  assert (Hgen : dwf (DE nodes' bops' uop vars) /\ R (dden (DE nodes' bops' uop vars)) (dden (DE nodes bops uop vars))).
  { split; [apply dwf_unfold; auto|]. rewrite !dden_unfold. apply (R_apply_un_ C R R_un). exact HR. }
  destruct nodes' as [|m [|m' mt]] eqn:En'; try (eexists; split; [reflexivity|exact Hgen]).
  2:{ destruct m; eexists; (split; [reflexivity|exact Hgen]). }
  destruct m as [e1|d|i x]; try (eexists; split; [reflexivity|exact Hgen]).
  eexists. split; [reflexivity|]. destruct bops'; [|cbn in Hn'l; lia].
  split.
  - apply dwf_unfold. split; [reflexivity|]. split; [exact Har|]. split; [intros ? []|constructor; [exact I|constructor]].
  - destruct Hgen as [_ Hr]. rewrite dden_unfold in Hr |- *. exact Hr.
Qed.
End Values.
End DeepCompile.
