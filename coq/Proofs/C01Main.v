(* Proofs/C01Main.v — composition: parsing the token rendering of a well-formed surface tree with the flat parser and
   evaluating the result yields the reference semantics, up to regrouping chains of one flagged operator. *)
From Coq Require Import List Arith Lia Bool ZArith.
Import ListNotations.
From Exmex.Model Require Import Base EvalBinary Lexer Flat.
From Exmex.Spec Require Import RefSem.
From Exmex.Proofs Require Import ChainMachine SortedRef EvalBinaryCorrect FlatEval Pev FlStruct FlSem FlVals WalkSim BumpInst Vars FlatPev.
Open Scope nat_scope.

Section Main.
Context {D : Type}.
Variable C : carrier D.
Variable tb : optable.
Hypothesis Hwf_tb : wf_table tb = true.
(* an equivalence on values that all operator functions respect, modulo which the flagged operators are associative
   (equality when they really are; the associativity congruence on the free term algebra in general) *)
Variable R : D -> D -> Prop.
Hypothesis R_refl : forall a, R a a.
Hypothesis R_sym : forall a b, R a b -> R b a.
Hypothesis R_trans : forall a b c, R a b -> R b c -> R a c.
Hypothesis R_bin : forall k a a' b b', R a a' -> R b b' -> R (binf C k a b) (binf C k a' b').
Hypothesis R_un : forall k a a', R a a' -> R (unf C k a) (unf C k a').
Hypothesis flagged_assoc : forall o, comm_of tb o = true ->
  forall a b c, R (binf C o (binf C o a b) c) (binf C o a (binf C o b c)).

Variable vars : list str.
Variable vals : list D.
Hypothesis Hlen : length vals = length vars.

Local Notation fl_chain := (@fl_chain D tb vars).
Local Notation fl_atom := (@fl_atom D tb vars).
Local Notation fl_rest := (@fl_rest D tb vars).
Local Notation nval := (nval C vals).

(* ---- chain-level versions ---- *)
Lemma fl_chain_vals (c : chain (D:=D)) d :
  FlVals.vals_of C vals (fl_chain c d) = pv_chain C tb vars vals c d /\ shape (fl_chain c d).
Proof.
  destruct c as [a0 rest].
  destruct (fl_vals C tb vars vals (asize a0)) as [Ha _]. destruct (Ha a0 d (le_n _)) as [Hv0 Hs0].
  destruct (fl_vals C tb vars vals (rsize rest)) as [_ Hr]. destruct (Hr rest d (le_n _)) as [Hvr Hlr].
  unfold FlStruct.fl_chain, pv_chain. cbn [fst snd]. destruct (fl_atom a0 d) as [n0 o0]. destruct (fl_rest rest d) as [nr or].
  unfold shape in *. cbn [fst snd] in *. destruct n0 as [|h nt]; [cbn in Hs0; lia|].
  unfold FlVals.vals_of in Hv0. cbn [fst snd] in Hv0. rewrite <- Hv0. unfold FlVals.vals_of. cbn [fst snd app].
  split; [|cbn [length] in *; rewrite !app_length; lia].
  f_equal. rewrite map_app, combine_app by (rewrite map_length; cbn in Hs0; lia). rewrite Hvr. reflexivity.
Qed.

(* operators of the structural image carry the commutativity flag of their table entry; variable indices are in range *)
Definition ops_ok (ops : list fop) : Prop := forall o, In o ops -> fcomm o = comm_of tb (fidx o).
Definition nodes_ok (nodes : list (fnode D)) : Prop := forall n i, In n nodes -> nkind n = FVar i -> i < length vars.
Lemma ops_ok_app a b : ops_ok a -> ops_ok b -> ops_ok (a ++ b).
Proof. intros Ha Hb o Hin. apply in_app_or in Hin. destruct Hin; auto. Qed.
Lemma nodes_ok_app a b : nodes_ok a -> nodes_ok b -> nodes_ok (a ++ b).
Proof. intros Ha Hb n i Hin. apply in_app_or in Hin. destruct Hin; eauto. Qed.
Lemma attach_ok us no : ops_ok (snd no) -> nodes_ok (fst no) -> ops_ok (snd (attach us no)) /\ nodes_ok (fst (attach us no)).
Proof.
  destruct no as [nodes ops]. unfold attach. cbn [fst snd]. intros Ho Hn. destruct ops as [|o ops'] eqn:E.
  - split; [exact Ho|]. destruct nodes as [|n [|n' nt]]; try exact Hn. cbn [fst]. intros m i [<-|[]] Hk. cbn in Hk. apply (Hn n i (or_introl eq_refl) Hk).
  - rewrite <- E in *. cbn [fst snd]. split; [|exact Hn]. intros o' Hin. apply In_update_nth in Hin.
    destruct Hin as [Hin|(y & Hy & ->)]; [apply Ho; exact Hin|]. cbn. apply Ho. exact Hy.
Qed.
Lemma index_of_lt x : forall l i j, index_of x l i = Some j -> j < i + length l.
Proof.
  induction l as [|y l IH]; intros i j H; [discriminate|]. cbn in H. destruct (str_eqb x y); [inversion H; subst; cbn; lia|].
  specialize (IH _ _ H). cbn. lia.
Qed.
Lemma fl_ok : forall n,
  (forall a d, asize a <= n -> vars_in_atom vars a -> ops_ok (snd (fl_atom a d)) /\ nodes_ok (fst (fl_atom a d))) /\
  (forall l d, rsize l <= n -> vars_in_rest vars l -> ops_ok (snd (fl_rest l d)) /\ nodes_ok (fst (fl_rest l d))).
Proof.
  induction n as [|n [IHa IHr]].
  - split; [intros a d H; pose proof (asize_pos a); lia|].
    intros l d H _. destruct l as [|[o b] tl]; [split; [intros ? []|intros ? ? []]|]. cbn in H. pose proof (asize_pos b). lia.
  - assert (Hatom : forall a d, asize a <= S n -> vars_in_atom vars a -> ops_ok (snd (fl_atom a d)) /\ nodes_ok (fst (fl_atom a d))).
    { intros a d Hs Hv. destruct a as [us [v|x]|us a0 rest].
      - split; [intros ? []|]. intros m i [<-|[]] Hk. discriminate.
      - split; [intros ? []|]. intros m i [<-|[]] Hk. cbn in Hk. inversion Hk; subst. cbn in Hv. destruct Hv as [j Hj].
        unfold var_idx. rewrite Hj. pose proof (index_of_lt x vars 0 j Hj). lia.
      - rewrite asize_group in Hs. destruct (proj1 (vars_in_group vars us a0 rest) Hv) as [Hv0 Hvr].
        rewrite fl_atom_group. apply attach_ok; unfold FlStruct.fl_chain; cbn [fst snd];
          destruct (IHa a0 (d + 1)%Z ltac:(lia) Hv0) as [Ho0 Hn0]; destruct (IHr rest (d + 1)%Z ltac:(lia) Hvr) as [Hor Hnr];
          destruct (fl_atom a0 (d + 1)) as [n0 o0]; destruct (fl_rest rest (d + 1)) as [nr or]; cbn [fst snd] in *;
          [apply ops_ok_app|apply nodes_ok_app]; assumption. }
    split; [exact Hatom|].
    intros l d Hs Hv. destruct l as [|[o b] tl]; [split; [intros ? []|intros ? ? []]|]. cbn [rsize] in Hs. cbn [vars_in_rest] in Hv. destruct Hv as [Hvb Hvt].
    pose proof (asize_pos b). cbn [FlStruct.fl_rest].
    destruct (Hatom b d ltac:(lia) Hvb) as [Hob Hnb]. destruct (IHr tl d ltac:(lia) Hvt) as [Hot Hnt].
    destruct (fl_atom b d) as [nb ob]. destruct (fl_rest tl d) as [nt ot]. cbn [fst snd] in *.
    split; [|apply nodes_ok_app; assumption].
    intros o' [<-|Hin]; [reflexivity|]. apply (ops_ok_app ob ot Hob Hot). exact Hin.
Qed.

Lemma mapM_node_val nodes : nodes_ok nodes -> mapM (node_val C vals) nodes = Ok (map nval nodes).
Proof.
  induction nodes as [|n nodes IH]; intros Hok; [reflexivity|]. cbn [mapM map].
  assert (Hn : node_val C vals n = Ok (nval n)).
  { unfold node_val, FlVals.nval. destruct (nkind n) as [v|i] eqn:Ek; [reflexivity|].
    pose proof (Hok n i (or_introl eq_refl) Ek) as Hi. destruct (nth_error vals i) as [v|] eqn:En; [|apply nth_error_None in En; lia].
    rewrite (nth_error_nth _ _ (dflt C) En). reflexivity. }
  rewrite Hn. cbn [bind]. rewrite IH by (intros m i Hin; apply Hok; right; exact Hin). reflexivity.
Qed.

(* ---- the main theorem ---- *)
Theorem flat_parse_is_reference (c : chain (D:=D)) (text : str) :
  wf_chain tb c = true -> vars_in_atom vars (fst c) -> vars_in_rest vars (snd c) ->
  exists fx v,
    make_expression tb true text (flatten c) vars = Ok fx /\
    fvars fx = vars /\
    eval_flat C fx vals = Ok v /\
    R v (ref_chain C tb vars vals c).
Proof.
  intros Hwf Hv0 Hvr. destruct c as [a0 rest]. cbn [fst snd] in *.
  unfold wf_chain in Hwf. cbn [fst snd] in Hwf. apply andb_prop in Hwf. destruct Hwf as [Hw0 Hwr].
  (* 1. the walker produces the structural image *)
  destruct (walk_sim tb vars Hwf_tb C (asize a0)) as [Hsa _]. destruct (walk_sim tb vars Hwf_tb C (rsize rest)) as [_ Hsr].
  set (ts := flatten (a0, rest)).
  assert (Hwalk : walk tb (S (length ts)) [] ts vars [] [] 0 [] = Ok (fst (fl_chain (a0, rest) 0), snd (fl_chain (a0, rest) 0))).
  { unfold ts, flatten. cbn [fst snd]. rewrite app_length.
    replace (S (length (flatten_atom a0) + length (flatten_rest rest))) with (length (flatten_atom a0) + (length (flatten_rest rest) + 1)) by lia.
    rewrite (Hsa a0 (le_n _) Hw0 Hv0 0%Z [] _ [] [] [] _ (lctx_nil tb) I (Forall_nil _)).
    destruct (flatten_atom_end a0) as (pre & t & Epre & Hend).
    rewrite app_nil_r. rewrite Epre, rev_app_distr. cbn [rev app].
    rewrite <- (app_nil_r (flatten_rest rest)) at 2.
    rewrite (Hsr rest (le_n _) Hwr Hvr 0%Z t (rev pre) [] _ _ [] 1 Hend (Forall_nil _)).
    cbn [Flat.walk]. unfold FlStruct.fl_chain. cbn [fst snd].
    destruct (fl_atom a0 0) as [n0 o0]. destruct (fl_rest rest 0) as [nr or]. cbn [fst snd].
    rewrite !app_nil_r, !rev_app_distr, !rev_involutive. reflexivity. }
  destruct (fl_chain_vals (a0, rest) 0) as [Hvals Hshape].
  destruct (fl_chain (a0, rest) 0) as [nodes ops] eqn:Efl. cbn [fst snd] in *.
  unfold shape in Hshape. cbn [fst snd] in Hshape.
  exists {| fnodes := nodes; fops := ops; fprios := prioritized_indices_flat true ops nodes; fvars := vars; ftext := text |}.
  (* properties of nodes and operators *)
  destruct (fl_ok (asize a0)) as [Hoka _]. destruct (Hoka a0 0%Z (le_n _) Hv0) as [Ho0 Hn0].
  destruct (fl_ok (rsize rest)) as [_ Hokr]. destruct (Hokr rest 0%Z (le_n _) Hvr) as [Hor Hnr].
  assert (Hok : ops_ok ops /\ nodes_ok nodes).
  { unfold FlStruct.fl_chain in Efl. cbn [fst snd] in Efl. destruct (fl_atom a0 0) as [n0 o0]. destruct (fl_rest rest 0) as [nr or].
    inversion Efl; subst. cbn [fst snd] in *. split; [apply ops_ok_app|apply nodes_ok_app]; assumption. }
  destruct Hok as [Hops Hnodes].
  destruct nodes as [|n0 nt]; [cbn in Hshape; lia|].
  set (x := nval n0). set (restv := map nval nt).
  assert (Hlr : length restv = length ops) by (unfold restv; rewrite map_length; cbn in Hshape; lia).
  eexists. split; [|split; [reflexivity|]].
  - unfold make_expression. fold ts. rewrite Hwalk. cbn [bind].
    destruct (Nat.eqb_spec (S (length ops)) (length (n0 :: nt))) as [_|Hne]; [reflexivity|exfalso; apply Hne; cbn in *; lia].
  - (* 2. evaluation: precedence reference under bumped keys, 3. bump, 4. list form, 5. reference semantics *)
    unfold eval_flat. cbn [fvars fnodes fops fprios]. rewrite Hlen, Nat.eqb_refl. cbn [negb].
    unfold eval_cloning. cbn [fnodes fops fprios]. rewrite (mapM_node_val _ Hnodes). cbn [bind map]. fold x. fold restv.
    rewrite (eval_numbers_is_ref C true (n0 :: nt) ops x restv Hlr).
    split; [reflexivity|].
    set (l := chain_from D (EvalBinaryCorrect.vals_of D (dflt C) (x :: restv)) 0 (length ops)).
    assert (Hcontig : @Bump.contig D 0 l).
    { unfold Bump.contig, l. rewrite chain_from_ids. unfold chain_from. rewrite map_length, seq_length. reflexivity. }
    assert (Hll : length l <= length ops) by (unfold l, chain_from; rewrite map_length, seq_length; lia).
    assert (Hassoc : forall o, In o ops -> fcomm o = true -> forall a b c0, R (binf C (fidx o) (binf C (fidx o) a b) c0) (binf C (fidx o) a (binf C (fidx o) b c0))).
    { intros o Hin Hc. apply flagged_assoc. rewrite <- (Hops o Hin). exact Hc. }
    pose proof (bump_invisible_flat C R R_refl R_sym R_trans R_bin R_un (n0 :: nt) ops Hassoc (length ops) x l 0 Hll Hcontig) as Hbump.
    unfold keyb in Hbump.
    eapply R_trans; [exact Hbump|].
    (* raw keys: the list form *)
    set (dummy := {| fprio := 0; fidx := 0; fcomm := false; fun_ := [] |}).
    rewrite (ref_val_ext (op_at C ops) (fun i a b => apply_op C (nth i ops dummy) a b) (BumpInst.key0 ops) (fun i => (fprio (nth i ops dummy) * 10)%Z)).
    2:{ intros i Hi. unfold l in Hi. change (map fst (chain_from D _ 0 (length ops))) with (ids (chain_from D (EvalBinaryCorrect.vals_of D (dflt C) (x :: restv)) 0 (length ops))) in Hi.
        rewrite chain_from_ids in Hi. apply in_seq in Hi.
        destruct (nth_error ops i) as [o|] eqn:En; [|apply nth_error_None in En; lia].
        unfold BumpInst.key0, op_at. rewrite En. rewrite (nth_error_nth _ _ dummy En). split; [reflexivity|reflexivity]. }
    rewrite (ref_val_is_pev C (fun i => nth i ops dummy) (length ops) x l 0) by (unfold l; apply chain_from_inc).
    unfold l. rewrite (to_recs_chain_from C ops x restv dummy Hlr).
    (* the values of the structural image, then the reference semantics *)
    unfold FlVals.vals_of in Hvals. cbn [fst snd] in Hvals. fold x in Hvals. fold restv in Hvals.
    destruct (pv_sem C tb vars vals Hwf_tb (asize a0 + rsize rest)) as [_ Hsem].
    specialize (Hsem a0 rest 0%Z (le_n _)). rewrite <- Hvals in Hsem. unfold pev_of in Hsem. cbn [fst snd] in Hsem.
    rewrite combine_length, Hlr, Nat.min_id in Hsem.
    unfold ref_chain. cbn [fst snd]. rewrite Hsem. apply R_refl.
Qed.
(* the expression the walker builds for the rendering of a well-formed tree is the structural image of the tree *)
Lemma flat_parse_structure (c : chain (D:=D)) (text : str) :
  wf_chain tb c = true -> vars_in_atom vars (fst c) -> vars_in_rest vars (snd c) ->
  make_expression tb true text (flatten c) vars =
  Ok {| fnodes := fst (fl_chain c 0); fops := snd (fl_chain c 0);
        fprios := prioritized_indices_flat true (snd (fl_chain c 0)) (fst (fl_chain c 0)); fvars := vars; ftext := text |}.
Proof.
  intros Hwf Hv0 Hvr. destruct c as [a0 rest]. cbn [fst snd] in *.
  unfold wf_chain in Hwf. cbn [fst snd] in Hwf. apply andb_prop in Hwf. destruct Hwf as [Hw0 Hwr].
  destruct (walk_sim tb vars Hwf_tb C (asize a0)) as [Hsa _]. destruct (walk_sim tb vars Hwf_tb C (rsize rest)) as [_ Hsr].
  set (ts := flatten (a0, rest)).
  assert (Hwalk : walk tb (S (length ts)) [] ts vars [] [] 0 [] = Ok (fst (fl_chain (a0, rest) 0), snd (fl_chain (a0, rest) 0))).
  { unfold ts, flatten. cbn [fst snd]. rewrite app_length.
    replace (S (length (flatten_atom a0) + length (flatten_rest rest))) with (length (flatten_atom a0) + (length (flatten_rest rest) + 1)) by lia.
    rewrite (Hsa a0 (le_n _) Hw0 Hv0 0%Z [] _ [] [] [] _ (lctx_nil tb) I (Forall_nil _)).
    destruct (flatten_atom_end a0) as (pre & t & Epre & Hend).
    rewrite app_nil_r. rewrite Epre, rev_app_distr. cbn [rev app].
    rewrite <- (app_nil_r (flatten_rest rest)) at 2.
    rewrite (Hsr rest (le_n _) Hwr Hvr 0%Z t (rev pre) [] _ _ [] 1 Hend (Forall_nil _)).
    cbn [Flat.walk]. unfold FlStruct.fl_chain. cbn [fst snd].
    destruct (fl_atom a0 0) as [n0 o0]. destruct (fl_rest rest 0) as [nr or]. cbn [fst snd].
    rewrite !app_nil_r, !rev_app_distr, !rev_involutive. reflexivity. }
  destruct (fl_chain_vals (a0, rest) 0) as [_ Hshape]. unfold shape in Hshape.
  unfold make_expression. fold ts. rewrite Hwalk. cbn [bind].
  destruct (Nat.eqb_spec (S (length (snd (fl_chain (a0, rest) 0)))) (length (fst (fl_chain (a0, rest) 0)))) as [_|Hne]; [reflexivity|exfalso; apply Hne; lia].
Qed.
End Main.
