//! Programs = finite histories of public API calls; run on the implementation, printed as Gallina.
use crate::term::*;
use exmex::prelude::*;
use exmex::{Differentiate, ExResult, MissingOpMode};

#[derive(Clone, Debug)]
pub enum Prog {
    Flat(String), FlatWo(String), Deep(String),
    ToDeep(Box<Prog>), ToFlat(Box<Prog>), Compile(Box<Prog>),
    Bin(String, Box<Prog>, Box<Prog>), Un(String, Box<Prog>),
    Subs(Box<Prog>, Vec<(String, Prog)>),
    ReFlat(Box<Prog>), ReDeep(Box<Prog>),
    /// the flat form serialised with serde_json and deserialised again (the model reads it as unparse + parse)
    SerdeFlat(Box<Prog>),
    /// DeepEx + - * / pow (0..4)
    Arith(usize, Box<Prog>, Box<Prog>), Neg(Box<Prog>),
    /// partial_iter_relaxed(idxs, mode): mode 0 = Error, 1 = PerOperand, 2 = None
    Partial(Vec<usize>, usize, Box<Prog>),
    /// the named helper methods of DeepEx (`.sin()`, `.abs()`, ...) and the overloads `& | ^ %`; the model reads them as
    /// operate_unary / operate_binary with that name (operands are taken as deep expressions)
    HelperUn(String, Box<Prog>), HelperBin(String, Box<Prog>, Box<Prog>),
}
#[derive(Clone, Debug, PartialEq)]
pub enum Query { Vars, Eval(usize), Relaxed(usize), EvalVec(usize), Unparse, BinReprs, UnReprs, OpReprs }
#[derive(Clone, Debug, PartialEq)]
pub enum Obs { T(Term), TC(Term, Vec<u64>), S(Vec<String>), Str(String), E, P, Skip }

#[derive(Clone)]
pub enum Expr { F(FE), D(DE) }

fn leak(s: &str) -> &'static str { Box::leak(s.to_string().into_boxed_str()) }

impl Expr {
    fn to_deep(self) -> ExResult<DE> { match self { Expr::F(f) => f.to_deepex(), Expr::D(d) => Ok(d) } }
}
pub fn run(p: &Prog) -> ExResult<Expr> {
    Ok(match p {
        Prog::Flat(s) => Expr::F(FE::parse(leak(s))?),
        Prog::FlatWo(s) => Expr::F(FE::parse_wo_compile(leak(s))?),
        Prog::Deep(s) => Expr::D(DE::parse(leak(s))?),
        Prog::ToDeep(p) => Expr::D(run(p)?.to_deep()?),
        Prog::ToFlat(p) => Expr::F(FE::from_deepex(run(p)?.to_deep()?)?),
        Prog::Compile(p) => match run(p)? { Expr::F(mut f) => { f.compile(); Expr::F(f) } d => d },
        Prog::Bin(name, p, q) => {
            let a = run(p)?; let b = run(q)?;
            match a {
                Expr::F(fa) => { let fb = match b { Expr::F(f) => f, Expr::D(d) => FE::from_deepex(d)? }; Expr::F(fa.operate_binary(fb, leak(name))?) }
                Expr::D(da) => { let db = b.to_deep()?; Expr::D(da.operate_binary(db, leak(name))?) }
            }
        }
        Prog::Un(name, p) => match run(p)? { Expr::F(f) => Expr::F(f.operate_unary(leak(name))?), Expr::D(d) => Expr::D(d.operate_unary(leak(name))?) },
        Prog::Arith(op, p, q) => { let a = run(p)?.to_deep()?; let b = run(q)?.to_deep()?;
            Expr::D(match op { 0 => (a + b)?, 1 => (a - b)?, 2 => (a * b)?, 3 => (a / b)?, _ => a.pow(b)? }) }
        Prog::Neg(p) => Expr::D((-(run(p)?.to_deep()?))?),
        Prog::HelperUn(name, p) => { let d = run(p)?.to_deep()?;
            Expr::D(match name.as_str() {
                "abs" => d.abs(), "sin" => d.sin(), "cos" => d.cos(), "tan" => d.tan(), "sinh" => d.sinh(), "cosh" => d.cosh(), "tanh" => d.tanh(),
                "asin" => d.asin(), "acos" => d.acos(), "atan" => d.atan(), "signum" => d.signum(), "log" => d.log(), "log2" => d.log2(), "log10" => d.log10(),
                "ln" => d.ln(), "round" => d.round(), "floor" => d.floor(), "ceil" => d.ceil(), "exp" => d.exp(), "sqrt" => d.sqrt(), "cbrt" => d.cbrt(),
                "fract" => d.fract(), "trunc" => d.trunc(), _ => d.operate_unary(leak(name)) }?) }
        Prog::HelperBin(name, p, q) => { let a = run(p)?.to_deep()?; let b = run(q)?.to_deep()?;
            Expr::D(match name.as_str() { "&" => (a & b)?, "|" => (a | b)?, "^" => (a ^ b)?, "%" => (a % b)?, _ => a.operate_binary(b, leak(name))? }) }
        Prog::Partial(idxs, mode, p) => { let m = match mode { 0 => MissingOpMode::Error, 1 => MissingOpMode::PerOperand, _ => MissingOpMode::None };
            // a single even index goes through the wrapper partial_relaxed, everything else through partial_iter_relaxed
            if idxs.len() == 1 && idxs[0] % 2 == 0 { match run(p)? { Expr::F(f) => Expr::F(f.partial_relaxed(idxs[0], m)?), Expr::D(d) => Expr::D(d.partial_relaxed(idxs[0], m)?) } }
            else { match run(p)? { Expr::F(f) => Expr::F(f.partial_iter_relaxed(idxs.iter().copied(), m)?), Expr::D(d) => Expr::D(d.partial_iter_relaxed(idxs.iter().copied(), m)?) } } }
        Prog::ReFlat(p) => { let t = match run(p)? { Expr::F(f) => f.unparse().to_string(), Expr::D(d) => d.unparse().to_string() }; Expr::F(FE::parse(leak(&t))?) }
        Prog::ReDeep(p) => { let t = match run(p)? { Expr::F(f) => f.unparse().to_string(), Expr::D(d) => d.unparse().to_string() }; Expr::D(DE::parse(leak(&t))?) }
        Prog::SerdeFlat(p) => { let f = match run(p)? { Expr::F(f) => f, Expr::D(d) => FE::from_deepex(d)? };
            let js = serde_json::to_string(&f).map_err(|e| exmex::ExError::new(&format!("serialize: {e}")))?;
            // borrowed strings (from_str) and transient ones (from_reader) take different visitor methods
            let back: FE = if js.len() % 2 == 0 { serde_json::from_str(leak(&js)) } else { serde_json::from_reader(leak(&js).as_bytes()) }.map_err(|e| exmex::ExError::new(&format!("deserialize: {e}")))?;
            Expr::F(back) }
        Prog::Subs(p, m) => {
            let a = run(p)?;
            let mut reps: Vec<(String, Expr)> = vec![];
            for (x, q) in m { reps.push((x.clone(), run(q)?)); }
            match a {
                Expr::F(f) => {
                    let mut fm: Vec<(String, FE)> = vec![];
                    for (x, e) in reps { fm.push((x, match e { Expr::F(f) => f, Expr::D(d) => FE::from_deepex(d)? })); }
                    Expr::F(f.subs(&mut |v: &str| fm.iter().find(|(w, _)| w == v).map(|(_, e)| e.clone()))?)
                }
                Expr::D(d) => {
                    let mut dm: Vec<(String, DE)> = vec![];
                    for (x, e) in reps { dm.push((x, e.to_deep()?)); }
                    Expr::D(Calculate::subs(d, &mut |v: &str| dm.iter().find(|(w, _)| w == v).map(|(_, e)| e.clone()))?)
                }
            }
        }
    })
}
pub fn symvals(n: usize) -> Vec<Term> { (0..n).map(Term::Var).collect() }
fn of_res(r: ExResult<Term>) -> Obs { match r { Ok(t) => Obs::T(t), Err(_) => Obs::E } }
pub fn answer(e: &Expr, q: &Query) -> Obs {
    match (q, e) {
        (Query::Vars, Expr::F(f)) => Obs::S(f.var_names().to_vec()),
        (Query::Vars, Expr::D(d)) => Obs::S(d.var_names().to_vec()),
        (Query::Eval(n), Expr::F(f)) => of_res(f.eval(&symvals(*n))),
        (Query::Eval(n), Expr::D(d)) => of_res(d.eval(&symvals(*n))),
        (Query::Relaxed(n), Expr::F(f)) => of_res(f.eval_relaxed(&symvals(*n))),
        (Query::Relaxed(n), Expr::D(d)) => of_res(d.eval_relaxed(&symvals(*n))),
        (Query::EvalVec(n), Expr::F(f)) => {
            // the two consuming variants must agree (value and clone counts, or both errors); a disagreement is reported
            // as an observation no model answer equals
            let vals = symvals(*n);
            reset_clones();
            let by_iter = match f.eval_iter(symvals(*n).into_iter()) { Ok(t) => Obs::TC(t, clones(*n)), Err(_) => Obs::E };
            reset_clones();
            let by_vec = match f.eval_vec(vals) { Ok(t) => Obs::TC(t, clones(*n)), Err(_) => Obs::E };
            if by_iter != by_vec { Obs::Str(format!("eval_vec gives {} but eval_iter gives {}", pretty_obs(&by_vec), pretty_obs(&by_iter))) } else { by_vec }
        }
        (Query::EvalVec(_), Expr::D(_)) => Obs::Skip,
        (Query::Unparse, Expr::D(d)) => Obs::Str(d.unparse().to_string()),
        (Query::Unparse, Expr::F(f)) => Obs::Str(f.unparse().to_string()),
        (Query::BinReprs, Expr::F(f)) => Obs::S(f.binary_reprs().to_vec()),
        (Query::BinReprs, Expr::D(d)) => Obs::S(d.binary_reprs().to_vec()),
        (Query::UnReprs, Expr::F(f)) => Obs::S(f.unary_reprs().to_vec()),
        (Query::UnReprs, Expr::D(d)) => Obs::S(d.unary_reprs().to_vec()),
        (Query::OpReprs, Expr::F(f)) => Obs::S(f.operator_reprs().to_vec()),
        (Query::OpReprs, Expr::D(d)) => Obs::S(d.operator_reprs().to_vec()),
    }
}
/// runs the program and all queries under catch_unwind
pub fn observe(p: &Prog, qs: &[Query]) -> (Option<Expr>, Vec<Obs>) {
    let p2 = p.clone();
    let r = std::panic::catch_unwind(move || run(&p2));
    match r {
        Err(_) => (None, qs.iter().map(|_| Obs::P).collect()),
        Ok(Err(_)) => (None, qs.iter().map(|_| Obs::E).collect()),
        Ok(Ok(e)) => {
            let obs = qs.iter().map(|q| {
                let (e2, q2) = (e.clone(), q.clone());
                std::panic::catch_unwind(move || answer(&e2, &q2)).unwrap_or(Obs::P)
            }).collect();
            (Some(e), obs)
        }
    }
}

// ---- Gallina
pub fn g_prog(p: &Prog) -> String {
    match p {
        Prog::Flat(s) => format!("(PFlat {})", g_str(s)),
        Prog::FlatWo(s) => format!("(PFlatWo {})", g_str(s)),
        Prog::Deep(s) => format!("(PDeep {})", g_str(s)),
        Prog::ToDeep(p) => format!("(PToDeep {})", g_prog(p)),
        Prog::ToFlat(p) => format!("(PToFlat {})", g_prog(p)),
        Prog::Compile(p) => format!("(PCompile {})", g_prog(p)),
        Prog::Bin(n, p, q) => format!("(PBin {} {} {})", g_str(n), g_prog(p), g_prog(q)),
        Prog::Un(n, p) => format!("(PUn {} {})", g_str(n), g_prog(p)),
        Prog::Arith(op, p, q) => format!("(PArith {op} {} {})", g_prog(p), g_prog(q)),
        Prog::Neg(p) => format!("(PNeg {})", g_prog(p)),
        Prog::HelperUn(n, p) => format!("(PUn {} (PToDeep {}))", g_str(n), g_prog(p)),
        Prog::HelperBin(n, p, q) => format!("(PBin {} (PToDeep {}) (PToDeep {}))", g_str(n), g_prog(p), g_prog(q)),
        Prog::Partial(idxs, mode, p) => format!("(PPartial [{}]%nat {mode} {})", idxs.iter().map(|i| i.to_string()).collect::<Vec<_>>().join(";"), g_prog(p)),
        Prog::ReFlat(p) => format!("(PReFlat {})", g_prog(p)),
        Prog::ReDeep(p) => format!("(PReDeep {})", g_prog(p)),
        Prog::SerdeFlat(p) => format!("(PReFlat {})", g_prog(p)),
        Prog::Subs(p, m) => format!("(PSubs {} [{}])", g_prog(p), m.iter().map(|(x, q)| format!("({}, {})", g_str(x), g_prog(q))).collect::<Vec<_>>().join("; ")),
    }
}
pub fn g_query(q: &Query) -> String {
    match q {
        Query::Vars => "QVars".into(), Query::Eval(n) => format!("(QEval {n})"), Query::Relaxed(n) => format!("(QRelaxed {n})"),
        Query::EvalVec(n) => format!("(QEvalVec {n})"), Query::Unparse => "QUnparse".into(),
        Query::BinReprs => "QBinReprs".into(), Query::UnReprs => "QUnReprs".into(), Query::OpReprs => "QOpReprs".into(),
    }
}
pub fn g_obs(o: &Obs) -> String {
    match o {
        Obs::T(t) => format!("(OT {})", g_term(t)),
        Obs::TC(t, c) => format!("(OTC {} [{}]%N)", g_term(t), c.iter().map(|x| x.to_string()).collect::<Vec<_>>().join(";")),
        Obs::S(l) => format!("(OS [{}])", l.iter().map(|s| g_str(s)).collect::<Vec<_>>().join("; ")),
        Obs::Str(s) => format!("(OStr {})", g_str(s)),
        Obs::E => "OE".into(), Obs::P => "OP".into(), Obs::Skip => "OSkip".into(),
    }
}
pub fn pretty_obs(o: &Obs) -> String {
    match o { Obs::T(t) => t.pretty(), Obs::TC(t, c) => format!("{} clones={c:?}", t.pretty()), Obs::S(l) => format!("{l:?}"), Obs::Str(s) => format!("{s:?}"), Obs::E => "Err".into(), Obs::P => "PANIC".into(), Obs::Skip => "-".into() }
}
pub fn pretty_prog(p: &Prog) -> String {
    match p {
        Prog::Flat(s) => format!("FlatEx::parse({s:?})"), Prog::FlatWo(s) => format!("FlatEx::parse_wo_compile({s:?})"), Prog::Deep(s) => format!("DeepEx::parse({s:?})"),
        Prog::ToDeep(p) => format!("{}.to_deepex()", pretty_prog(p)), Prog::ToFlat(p) => format!("FlatEx::from_deepex({}.to_deepex())", pretty_prog(p)),
        Prog::Compile(p) => format!("{}.compile()", pretty_prog(p)),
        Prog::Bin(n, p, q) => format!("{}.operate_binary({}, {n:?})", pretty_prog(p), pretty_prog(q)),
        Prog::Un(n, p) => format!("{}.operate_unary({n:?})", pretty_prog(p)),
        Prog::Arith(op, p, q) => format!("({} {} {})", pretty_prog(p), ["+", "-", "*", "/", "pow"][(*op).min(4)], pretty_prog(q)),
        Prog::Neg(p) => format!("-({})", pretty_prog(p)),
        Prog::HelperUn(n, p) => format!("{}.to_deepex().{n}()", pretty_prog(p)),
        Prog::HelperBin(n, p, q) => format!("({}.to_deepex() {n} {}.to_deepex())", pretty_prog(p), pretty_prog(q)),
        Prog::Partial(idxs, mode, p) => format!("{}.partial_iter_relaxed({idxs:?}, mode {mode})", pretty_prog(p)),
        Prog::ReFlat(p) => format!("FlatEx::parse({}.unparse())", pretty_prog(p)),
        Prog::ReDeep(p) => format!("DeepEx::parse({}.unparse())", pretty_prog(p)),
        Prog::SerdeFlat(p) => format!("serde_json::from_str(serde_json::to_string({}))", pretty_prog(p)),
        Prog::Subs(p, m) => format!("{}.subs({{{}}})", pretty_prog(p), m.iter().map(|(x, q)| format!("{x} -> {}", pretty_prog(q))).collect::<Vec<_>>().join(", ")),
    }
}
