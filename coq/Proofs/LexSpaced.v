(* Proofs/LexSpaced.v — the tokenizer on a canonical TEXT rendering of a token list: every token followed by one space,
   numbers by their Debug text, variables in braces, operators by name.  Under what must be known of the literal matcher
   (it matches exactly the Debug text of a number in front of a space and reads it back, and it matches no operator name)
   and of the table (distinct, non-empty names without spaces or punctuation), tokenize returns exactly the token list.
   Hence the parse theorems about token renderings hold for these texts. *)
From Coq Require Import List Arith Lia Bool ZArith NArith.
Import ListNotations.
From Exmex.Model Require Import Base Lexer.
From Exmex.Proofs Require Import Vars CommaRewrite LongestMatch.
Open Scope nat_scope.

Section LexSpaced.
Context {D : Type}.
Variable C : carrier D.
Variable tb : optable.
Variable is_literal : str -> option nat.

Definition special (c : N) : bool := N.eqb c SPACE || N.eqb c LPAR || N.eqb c RPAR || N.eqb c COMMA || N.eqb c LBRACE.
Definition ttext (t : token D) : str :=
  match t with
  | TNum d => show C d | TVar x => LBRACE :: x ++ [RBRACE] | TOp k => repr (op_of tb k) | TOpen => [LPAR] | TClose => [RPAR]
  end.
Definition stext (ts : list (token D)) : str := flat_map (fun t => ttext t ++ [SPACE]) ts.

(* what makes a token readable in front of a space *)
Definition lexable (t : token D) : Prop :=
  match t with
  | TOpen | TClose => True
  | TVar x => forallb (fun c => negb (N.eqb c RBRACE)) x = true
  | TNum d =>
      (exists c tl, show C d = c :: tl /\ special c = false) /\
      (forall rest, is_literal (show C d ++ SPACE :: rest) = Some (length (show C d))) /\
      lit C (show C d) = Some d
  | TOp k =>
      (exists c tl, repr (op_of tb k) = c :: tl /\ special c = false) /\
      (forall rest, is_literal (repr (op_of tb k) ++ SPACE :: rest) = None) /\
      (forall rest, find_ops tb (repr (op_of tb k) ++ SPACE :: rest) = Some k) /\
      oconst (op_of tb k) = false
  end.

Lemma special_false c : special c = false ->
  N.eqb c SPACE = false /\ N.eqb c LPAR = false /\ N.eqb c RPAR = false /\ N.eqb c COMMA = false /\ N.eqb c LBRACE = false.
Proof. unfold special. intros H. repeat (apply orb_false_elim in H; destruct H as [H ?]). auto. Qed.
Lemma take_until_brace x rest : forallb (fun c => negb (N.eqb c RBRACE)) x = true ->
  take_while (fun c => negb (N.eqb c RBRACE)) (x ++ RBRACE :: rest) = x.
Proof.
  induction x as [|c x IH]; intros H; [reflexivity|].
  cbn [forallb] in H. apply andb_prop in H. destruct H as [H1 H2]. cbn [app take_while]. rewrite H1, (IH H2). reflexivity.
Qed.
Lemma skipn_app_len {A} (l m : list A) : skipn (length l) (l ++ m) = m.
Proof. induction l; [reflexivity|assumption]. Qed.
Lemma firstn_app_len {A} (l m : list A) : firstn (length l) (l ++ m) = l.
Proof. induction l as [|a l IH]; [destruct m; reflexivity|]. cbn. rewrite IH. reflexivity. Qed.

Local Notation lex := (lex C tb is_literal).
Lemma lex_cons fuel c tl : lex (S fuel) (c :: tl) =
    (if N.eqb c SPACE then lex fuel tl
    else if N.eqb c LPAR then let '(evs, fin) := lex fuel tl in (EOpen :: evs, fin)
    else if N.eqb c RPAR then let '(evs, fin) := lex fuel tl in (EClose :: evs, fin)
    else if N.eqb c COMMA then let '(evs, fin) := lex fuel tl in (EComma :: evs, fin)
    else if N.eqb c LBRACE then
      let name := take_while (fun c => negb (N.eqb c RBRACE)) tl in
      let '(evs, fin) := lex fuel (skipn (S (length name)) tl) in (ETok (TVar name) :: evs, fin)
    else match is_literal (c :: tl) with
    | Some n =>
        match lit C (firstn n (c :: tl)) with
        | None => ([], Some E_LITERAL)
        | Some d =>
            match n with
            | O => ([ETok (TNum d)], None)
            | _ => let '(evs, fin) := lex fuel (skipn n (c :: tl)) in (ETok (TNum d) :: evs, fin)
            end
        end
    | None =>
      match find_ops tb (c :: tl) with
      | Some k =>
          let t := if oconst (op_of tb k) then TNum (cst C k) else TOp k in
          match length (repr (op_of tb k)) with
          | O => ([ETok t], None)
          | n => let '(evs, fin) := lex fuel (skipn n (c :: tl)) in (ETok t :: evs, fin)
          end
      | None =>
        match match_var_name (c :: tl) with
        | Some v => let '(evs, fin) := lex fuel (skipn (length v) (c :: tl)) in (ETok (TVar v) :: evs, fin)
        | None => ([], Some E_TOKENIZE)
        end
      end
    end).
Proof. reflexivity. Qed.

(* the lexer reads the tokens of a spaced prefix and goes on with whatever follows (two units of fuel per token) *)
Lemma lex_spaced_app (s' : str) : forall (ts : list (token D)) fuel, Forall lexable ts ->
  lex (2 * length ts + fuel) (stext ts ++ s') = (let '(evs, fin) := lex fuel s' in (map event_of_token ts ++ evs, fin)).
Proof.
  induction ts as [|t ts IH]; intros fuel HF; [cbn [length Nat.mul Nat.add stext flat_map app map]; destruct (lex fuel s'); reflexivity|].
  inversion HF as [|? ? Ht Hts]; subst.
  assert (Est : stext (t :: ts) ++ s' = ttext t ++ SPACE :: (stext ts ++ s')) by (unfold stext; cbn [flat_map]; rewrite <- !app_assoc; reflexivity).
  rewrite Est. clear Est.
  replace (2 * length (t :: ts) + fuel) with (S (S (2 * length ts + fuel))) by (cbn [length]; lia).
  assert (Hsp : lex (S (2 * length ts + fuel)) (SPACE :: (stext ts ++ s')) = (let '(evs, fin) := lex fuel s' in (map event_of_token ts ++ evs, fin))).
  { rewrite lex_cons. change (N.eqb SPACE SPACE) with true. cbn match. exact (IH fuel Hts). }
  destruct (lex fuel s') as [evs fin] eqn:El.
  destruct t as [d| | |k|x]; cbn [ttext lexable map event_of_token] in *.
  - destruct Ht as ((c & tl & Es & Hc) & Hl & Hlit). destruct (special_false c Hc) as (H1 & H2 & H3 & H4 & H5).
    rewrite Es. cbn [app]. rewrite lex_cons, H1, H2, H3, H4, H5.
    change (c :: tl ++ SPACE :: stext ts ++ s') with ((c :: tl) ++ SPACE :: (stext ts ++ s')). rewrite <- Es, (Hl (stext ts ++ s')), firstn_app_len, Hlit.
    destruct (length (show C d)) as [|n] eqn:En; [rewrite Es in En; discriminate|]. rewrite <- En, skipn_app_len, Hsp. reflexivity.
  - cbn [app]. rewrite lex_cons. change (N.eqb LPAR SPACE) with false. change (N.eqb LPAR LPAR) with true. cbn match. rewrite Hsp. reflexivity.
  - cbn [app]. rewrite lex_cons. change (N.eqb RPAR SPACE) with false. change (N.eqb RPAR LPAR) with false. change (N.eqb RPAR RPAR) with true. cbn match. rewrite Hsp. reflexivity.
  - destruct Ht as ((c & tl & Es & Hc) & Hl & Hf & Hconst). destruct (special_false c Hc) as (H1 & H2 & H3 & H4 & H5).
    rewrite Es. cbn [app]. rewrite lex_cons, H1, H2, H3, H4, H5.
    change (c :: tl ++ SPACE :: stext ts ++ s') with ((c :: tl) ++ SPACE :: (stext ts ++ s')). rewrite <- Es, (Hl (stext ts ++ s')), (Hf (stext ts ++ s')), Hconst.
    destruct (length (repr (op_of tb k))) as [|n] eqn:En; [rewrite Es in En; discriminate|]. rewrite <- En, skipn_app_len, Hsp. reflexivity.
  - cbn [app]. rewrite lex_cons.
    change (N.eqb LBRACE SPACE) with false. change (N.eqb LBRACE LPAR) with false. change (N.eqb LBRACE RPAR) with false.
    change (N.eqb LBRACE COMMA) with false. change (N.eqb LBRACE LBRACE) with true. cbn match.
    rewrite <- app_assoc. cbn [app]. rewrite (take_until_brace x _ Ht).
    replace (skipn (S (length x)) (x ++ RBRACE :: SPACE :: stext ts ++ s')) with (SPACE :: (stext ts ++ s')).
    2:{ clear. induction x as [|c x IHx]; [reflexivity|exact IHx]. }
    rewrite Hsp. reflexivity.
Qed.

Lemma stext_len (ts : list (token D)) : Forall lexable ts -> 2 * length ts <= length (stext ts).
Proof.
  induction 1 as [|t ts Ht _ IH]; [cbn; lia|]. unfold stext in *. cbn [flat_map length]. rewrite !app_length. cbn [length].
  assert (1 <= length (ttext t)); [|lia].
  destruct t as [d| | |k|x]; cbn [ttext lexable length] in *; try lia.
  - destruct Ht as ((c & tl & Es & _) & _). rewrite Es. cbn. lia.
  - destruct Ht as ((c & tl & Es & _) & _). rewrite Es. cbn. lia.
Qed.
Theorem tokenize_spaced (ts : list (token D)) : Forall lexable ts -> tokenize C tb is_literal (stext ts) = Ok ts.
Proof.
  intros HF. rewrite (tokenize_factors C tb is_literal).
  pose proof (stext_len ts HF) as Hlen.
  pose proof (lex_spaced_app [] ts (S (length (stext ts)) - 2 * length ts) HF) as H. rewrite app_nil_r in H.
  replace (2 * length ts + (S (length (stext ts)) - 2 * length ts)) with (S (length (stext ts))) in H by lia.
  rewrite H. destruct (S (length (stext ts)) - 2 * length ts) as [|f] eqn:Ef; [lia|]. cbn [CommaRewrite.lex]. rewrite app_nil_r. apply apply_plain_all.
Qed.

(* a character at which no token starts, after a readable prefix: the tokenizer reports an error *)
Definition unknown_start (s : str) : Prop :=
  match s with
  | [] => False
  | c :: _ => special c = false /\ is_literal s = None /\ find_ops tb s = None /\ match_var_name s = None
  end.
Theorem tokenize_unknown_char (ts : list (token D)) (s : str) : Forall lexable ts -> unknown_start s ->
  tokenize C tb is_literal (stext ts ++ s) = Err E_TOKENIZE.
Proof.
  intros HF Hs. rewrite (tokenize_factors C tb is_literal).
  destruct s as [|c tl]; [destruct Hs|]. destruct Hs as (Hc & Hl & Hf & Hv). destruct (special_false c Hc) as (H1 & H2 & H3 & H4 & H5).
  pose proof (stext_len ts HF) as Hlen.
  pose proof (lex_spaced_app (c :: tl) ts (S (length (stext ts ++ c :: tl)) - 2 * length ts) HF) as H.
  replace (2 * length ts + (S (length (stext ts ++ c :: tl)) - 2 * length ts)) with (S (length (stext ts ++ c :: tl))) in H by (rewrite app_length; lia).
  rewrite H. destruct (S (length (stext ts ++ c :: tl)) - 2 * length ts) as [|f] eqn:Ef; [rewrite app_length in Ef; cbn [length] in Ef; lia|].
  rewrite lex_cons, H1, H2, H3, H4, H5, Hl, Hf, Hv. rewrite app_nil_r.
  destruct (apply_plain ts [] (Some E_TOKENIZE) [] 0%Z) as [d' Hp]. rewrite app_nil_r in Hp. rewrite Hp. reflexivity.
Qed.
(* a blank text has no tokens *)
Theorem tokenize_blank (s : str) : forallb (N.eqb SPACE) s = true -> tokenize C tb is_literal s = Ok [].
Proof.
  intros H. unfold tokenize.
  assert (G : forall fuel s0 (rr : list (token D)), length s0 < fuel -> forallb (N.eqb SPACE) s0 = true -> tokenize_go C tb is_literal fuel s0 rr [] 0 = Ok (rev rr)).
  { induction fuel as [|fuel IH]; intros s0 rr Hl Hb; [lia|]. destruct s0 as [|c tl]; [reflexivity|].
    cbn [forallb] in Hb. apply andb_prop in Hb. destruct Hb as [Hc Ht]. cbn [tokenize_go]. rewrite N.eqb_sym, Hc. apply IH; [cbn in Hl; lia|exact Ht]. }
  exact (G _ s [] (Nat.lt_succ_diag_r _) H).
Qed.

(* ---- the operator condition, from the table: distinct names without a space ---- *)
Lemma prefix_before_space : forall (p r rest : str), forallb (fun c => negb (N.eqb c SPACE)) p = true ->
  is_prefix p (r ++ SPACE :: rest) = true -> is_prefix p r = true.
Proof.
  induction p as [|x p IH]; intros r rest Hp H; [reflexivity|].
  cbn [forallb] in Hp. apply andb_prop in Hp. destruct Hp as [Hx Hp].
  destruct r as [|y r]; cbn [app is_prefix] in *.
  - apply andb_prop in H. destruct H as [H _]. rewrite H in Hx. discriminate.
  - apply andb_prop in H. destruct H as [H1 H2]. rewrite H1. exact (IH r rest Hp H2).
Qed.
Lemma prefix_same_length : forall p r : str, is_prefix p r = true -> length r <= length p -> p = r.
Proof.
  induction p as [|x p IH]; intros r H Hl; [destruct r; [reflexivity|cbn in Hl; lia]|].
  destruct r as [|y r]; [discriminate|]. cbn [is_prefix] in H. apply andb_prop in H. destruct H as [H1 H2].
  apply N.eqb_eq in H1. subst y. f_equal. apply IH; [exact H2|cbn in Hl; lia].
Qed.
Lemma prefix_app_self (r rest : str) : is_prefix r (r ++ rest) = true.
Proof. induction r as [|c r IH]; [reflexivity|]. cbn. rewrite N.eqb_refl. exact IH. Qed.
Lemma not_exact_with_space (r : str) : is_exact_var_name (r ++ [SPACE]) = false.
Proof.
  destruct r as [|c r]; [reflexivity|]. cbn [app is_exact_var_name]. apply andb_false_intro2.
  induction r as [|d r IH]; [reflexivity|]. cbn [app forallb]. rewrite IH. apply andb_false_r.
Qed.
Theorem find_ops_spaced (k : nat) (rest : str) :
  (forall i j, i < length tb -> j < length tb -> repr (op_of tb i) = repr (op_of tb j) -> i = j) ->
  (forall i, i < length tb -> forallb (fun c => negb (N.eqb c SPACE)) (repr (op_of tb i)) = true) ->
  k < length tb -> find_ops tb (repr (op_of tb k) ++ SPACE :: rest) = Some k.
Proof.
  intros Hdist Hnosp Hk. set (r := repr (op_of tb k)). set (text := r ++ SPACE :: rest).
  assert (Hmk : op_matches tb text k = true).
  { unfold op_matches. fold r. unfold text. rewrite prefix_app_self. cbn [andb]. rewrite skipn_app_len. rewrite not_exact_with_space. apply orb_true_r. }
  destruct (find_ops tb text) as [k0|] eqn:Ef.
  - destruct (find_ops_longest tb text k0 Ef) as [Hm0 Hlong].
    assert (Hk0 : k0 < length tb).
    { unfold find_ops in Ef. apply find_some in Ef. destruct Ef as [Hin _]. exact (proj1 (proj2 (ops_sorted_spec tb) k0) Hin). }
    pose proof (Hlong k Hk Hmk) as Hlen. unfold op_matches in Hm0. apply andb_prop in Hm0. destruct Hm0 as [Hp0 _].
    pose proof (prefix_before_space _ r rest (Hnosp k0 Hk0) Hp0) as Hp.
    f_equal. apply Hdist; [exact Hk0|exact Hk|]. exact (prefix_same_length _ _ Hp Hlen).
  - exfalso. unfold find_ops in Ef. pose proof (find_none _ _ Ef k (proj2 (proj2 (ops_sorted_spec tb) k) Hk)) as H. rewrite Hmk in H. discriminate.
Qed.
End LexSpaced.
