(* Model/Deep.v — expression/deep.rs: DeepEx, its parser (make_expression, process_unary), lift_nodes,
   prioritized_indices, compile, new, eval, unparse_raw, reset_vars, var_names_union, operate_bin,
   operate_unary, subs, the operator listings. *)
From Exmex.Model Require Import Base EvalBinary Lexer Flat.
Open Scope Z_scope.

Record dbop := { bprio : Z; bidx : nat; bcomm : bool }.     (* BinOpWithIdx: op.prio, idx, op.is_commutative *)

Inductive deepex (D : Type) :=
  DE (nodes : list (dnode D)) (bops : list dbop) (uop : list nat) (vars : list str)
with dnode (D : Type) := DExpr (e : deepex D) | DNum (d : D) | DVar (i : nat) (name : str).
Arguments DE {D}. Arguments DExpr {D}. Arguments DNum {D}. Arguments DVar {D}.

Definition dnodes {D} (e : deepex D) := match e with DE n _ _ _ => n end.
Definition dbops {D} (e : deepex D) := match e with DE _ b _ _ => b end.
Definition duop {D} (e : deepex D) := match e with DE _ _ u _ => u end.
Definition dvars {D} (e : deepex D) := match e with DE _ _ _ v => v end.
Definition with_vars {D} (e : deepex D) (v : list str) := match e with DE n b u _ => DE n b u v end.

Section Deep.
Context {D : Type}.
Variable C : carrier D.
Variable tb : optable.
Local Notation apply_un := (apply_un C).
Local Notation is_operator_binary := (@is_operator_binary D tb).

(* deep.rs:360 lift_nodes *)
Fixpoint lift_nodes (e : deepex D) : deepex D :=
  match e with
  | DE nodes bops uop vars =>
      match nodes, uop with
      | [n], [] => match n with DExpr e1 => e1 | _ => e end
      | _, _ =>
          DE ((fix go (l : list (dnode D)) : list (dnode D) :=
                 match l with
                 | [] => []
                 | n :: tl =>
                     (match n with
                      | DExpr (DE [n1] b1 [] v1) =>
                          match n1 with
                          | DNum d => DNum d
                          | DVar i x => DVar i x
                          | DExpr e_deeper =>
                              let ed := lift_nodes e_deeper in
                              match dnodes ed, duop ed with
                              | [_], [] => DExpr ed
                              | _, _ => DExpr (DE [DExpr ed] b1 [] v1)
                              end
                          end
                      | _ => n
                      end) :: go tl
                 end) nodes) bops uop vars
      end
  end.

(* deep.rs:434 prioritized_indices *)
Definition is_dnum (n : dnode D) : bool := match n with DNum _ => true | _ => false end.
Definition d_regrouping_is_invisible (bops : list dbop) (i : nat) : bool :=
  match nth_error bops i with
  | None => false
  | Some o =>
      match find (fun l => bprio l <=? bprio o) (rev (firstn i bops)) with
      | None => true
      | Some l => (bprio l <? bprio o) || Nat.eqb (bidx l) (bidx o)
      end
  end.
Definition d_left_literal_is_free (bops : list dbop) (i : nat) : bool :=
  match i with
  | O => true
  | S j => match nth_error bops j, nth_error bops i with
           | Some l, Some o => bprio l <=? bprio o
           | _, _ => false
           end
  end.
Definition dkey (nodes : list (dnode D)) (bops : list dbop) (i : nat) : Z :=
  match nth_error bops i, nth_error nodes i, nth_error nodes (S i) with
  | Some o, Some a, Some b =>
      if is_dnum a && is_dnum b && bcomm o && d_regrouping_is_invisible bops i && d_left_literal_is_free bops i
      then bprio o * 10 + 5 else bprio o * 10
  | Some o, _, _ => bprio o * 10
  | _, _, _ => 0
  end.
Definition prioritized_indices (bops : list dbop) (nodes : list (dnode D)) : list nat :=
  sort_desc (dkey nodes bops) (seq 0 (length bops)).

(* the folding loop of DeepEx::compile (deep.rs:635-668) *)
Fixpoint dcompile_loop (sigma : list nat) (i : nat) (num_inds : list nat)
         (nodes : list (dnode D)) (bops : list dbop) (declined : list bool) (used : list nat)
  : res (list (dnode D) * list nat) :=
  match sigma with
  | [] => Ok (nodes, used)
  | bin_op_idx :: stl =>
      match nth_error num_inds i with
      | None => Panic 636
      | Some num_idx =>
        match nth_error nodes num_idx, nth_error nodes (S num_idx) with
        | Some n1, Some n2 =>
            let decline := dcompile_loop stl (S i) num_inds nodes bops
                             (set_nth (S num_idx) true (set_nth num_idx true declined)) used in
            match n1, n2 with
            | DNum a, DNum b =>
                if negb (nth num_idx declined false || nth (S num_idx) declined false) then
                  match nth_error bops bin_op_idx with
                  | None => Panic 642
                  | Some o =>
                      let nodes' := remove_nth (S num_idx) (set_nth num_idx (DNum (binf C (bidx o) a b)) nodes) in
                      let declined' := remove_nth (S num_idx) declined in
                      let num_inds' := map (fun j => if Nat.ltb num_idx j then pred j else j) num_inds in
                      dcompile_loop stl (S i) num_inds' nodes' bops declined' (used ++ [bin_op_idx])
                  end
                else decline
            | _, _ => decline
            end
        | _, _ => Panic 637
        end
      end
  end.

(* deep.rs:618 DeepEx::compile *)
Definition dcompile (e0 : deepex D) : res (deepex D) :=
  match lift_nodes e0 with
  | DE nodes bops uop vars =>
      let sigma := prioritized_indices bops nodes in
      do ' (nodes', used) <- dcompile_loop sigma 0 sigma nodes bops (repeat false (length nodes)) [];
      let bops' := map snd (filter (fun p => negb (existsb (Nat.eqb (fst p)) used)) (combine (seq 0 (length bops)) bops)) in
      match nodes' with
      | [DNum d] => Ok (DE [DNum (apply_un uop d)] bops' [] vars)
      | _ => Ok (DE nodes' bops' uop vars)
      end
  end.

(* deep.rs:694 DeepEx::new *)
Definition node_var_names (n : dnode D) : list str :=
  match n with DNum _ => [] | DVar _ x => [x] | DExpr e => dvars e end.
Definition new_deepex (nodes : list (dnode D)) (bops : list dbop) (uop : list nat) : res (deepex D) :=
  match nodes, bops, uop with
  | [], [], [] => Ok (DE [] [] [] [])
  | _, _, _ =>
      if negb (Nat.eqb (length nodes) (S (length bops))) then Err E_COUNT
      else dcompile (DE nodes bops uop (sort_strs (flat_map node_var_names nodes)))
  end.

(* deep.rs:980 eval_relaxed / eval *)
Definition bop_at (bops : list dbop) (i : nat) (a b : D) : D :=
  match nth_error bops i with Some o => binf C (bidx o) a b | None => dflt C end.
Fixpoint eval_deep_relaxed (e : deepex D) (vals : list D) : res D :=
  match e with
  | DE nodes bops uop vars =>
      if Nat.ltb (length vals) (length vars) then Err E_ARITY else
      do nums <- (fix go (l : list (dnode D)) : res (list D) :=
                    match l with
                    | [] => Ok []
                    | n :: tl =>
                        do x <- match n with
                                | DNum d => Ok d
                                | DVar i _ => match nth_error vals i with Some v => Ok v | None => Panic 994 end
                                | DExpr e' => eval_deep_relaxed e' vals
                                end;
                        do xs <- go tl; Ok (x :: xs)
                    end) nodes;
      do v <- eval_binary (dflt C) (bop_at bops) nums (length bops) (prioritized_indices bops nodes);
      Ok (apply_un uop v)
  end.
Definition eval_deep (e : deepex D) (vals : list D) : res D :=
  if negb (Nat.eqb (length (dvars e)) (length vals)) then Err E_ARITY else eval_deep_relaxed e vals.

(* deep.rs:120 unparse_raw; None = the unwrap on an empty node list *)
Definition repr_of (k : nat) : str := repr (op_of tb k).
Fixpoint unparse (e : deepex D) : option str :=
  match e with
  | DE nodes bops uop _ =>
      let node_str := fun (n : dnode D) =>
        match n with
        | DNum d => Some (show C d)
        | DVar _ x => Some (LBRACE :: x ++ [RBRACE])
        | DExpr e' => match unparse e' with
                      | Some s => Some (match duop e' with [] => LPAR :: s ++ [RPAR] | _ => s end)
                      | None => None
                      end
        end in
      match nodes with
      | [] => None
      | n0 :: ntl =>
          match node_str n0 with
          | None => None
          | Some s0 =>
              match (fix go (l : list (dnode D)) (ops : list dbop) (acc : str) : option str :=
                       match l with
                       | [] => Some acc
                       | n :: tl =>
                           match ops, node_str n with
                           | o :: otl, Some s => go tl otl (acc ++ repr_of (bidx o) ++ s)
                           | _, _ => None
                           end
                       end) ntl bops s0 with
              | None => None
              | Some body =>
                  Some (match uop with
                        | [] => body
                        | _ => flat_map (fun k => repr_of k ++ [LPAR]) uop ++ body ++ repeat RPAR (length uop)
                        end)
              end
          end
      end
  end.

(* ---- the recursive-descent parser, deep.rs:177 process_unary and deep.rs:268 make_expression ---- *)
Definition mk_bop (k : nat) : res dbop :=
  match obin (op_of tb k) with
  | Some bs => Ok {| bprio := prio bs; bidx := k; bcomm := comm bs |}
  | None => Err E_NOBIN
  end.
Fixpoint more_unaries (ts : list (token D)) : list nat :=
  match ts with
  | TOp k :: tl => if has_un tb k then k :: more_unaries tl else []
  | _ => []
  end.

(* returns the expression and the tokens that remain after it.  left = the token left of the next
   one inside the current slice (None at the start of a slice) *)
Fixpoint dparse (fuel : nat) (left : option (token D)) (ts : list (token D)) (vars : list str)
         (rnodes : list (dnode D)) (rbops : list dbop) (uop : list nat)
  : res (deepex D * list (token D)) :=
  match fuel with O => Err E_FUEL | S fuel' =>
  let finish := fun (rest : list (token D)) =>
    do e <- new_deepex (rev rnodes) (rev rbops) uop; Ok (e, rest) in
  match ts with
  | [] => finish []
  | t :: tl =>
    match t with
    | TOp k =>
        do b <- is_operator_binary k left;
        if b then do o <- mk_bop k; dparse fuel' (Some t) tl vars rnodes (o :: rbops) uop
        else
          if negb (has_un tb k) then Err E_NOUNARY else
          let us := k :: more_unaries tl in
          let after := skipn (length us - 1) tl in
          match after with
          | [] => Panic 226
          | TOpen :: tl2 | TClose :: tl2 =>
              do ' (e, rest) <- dparse fuel' None tl2 vars [] [] us;
              dparse fuel' (Some TClose) rest vars (DExpr e :: rnodes) rbops uop
          | TVar x :: tl2 =>
              do i <- var_index vars x;
              do e <- new_deepex [DVar i x] [] us;
              dparse fuel' (Some (TVar x)) tl2 vars (DExpr e :: rnodes) rbops uop
          | TNum d :: tl2 =>
              dparse fuel' (Some (TNum d)) tl2 vars (DNum (apply_un us d) :: rnodes) rbops uop
          | TOp _ :: _ => Err E_TOKCFG
          end
    | TNum d => dparse fuel' (Some t) tl vars (DNum d :: rnodes) rbops uop
    | TVar x => do i <- var_index vars x; dparse fuel' (Some t) tl vars (DVar i x :: rnodes) rbops uop
    | TOpen =>
        do ' (e, rest) <- dparse fuel' None tl vars [] [] [];
        dparse fuel' (Some TClose) rest vars (DExpr e :: rnodes) rbops uop
    | TClose => finish tl
    end
  end end.

Variable is_literal : str -> option nat.
Definition parse_deep_tokens (ts : list (token D)) : res (deepex D) :=
  do _ <- check_preconditions tb ts;
  do ' (e, _) <- dparse (S (length ts)) None ts (find_parsed_vars ts) [] [] [];
  Ok e.
Definition parse_deep (text : str) : res (deepex D) :=
  do ts <- tokenize C tb is_literal text;
  parse_deep_tokens ts.

(* deep.rs:841 reset_vars; Panic = the unwrap of position() *)
Fixpoint reset_vars (e : deepex D) (all : list str) : res (deepex D) :=
  match e with
  | DE nodes bops uop _ =>
      do nodes' <- (fix go (l : list (dnode D)) : res (list (dnode D)) :=
                      match l with
                      | [] => Ok []
                      | n :: tl =>
                          do n' <- match n with
                                   | DNum d => Ok (DNum d)
                                   | DVar _ x => match index_of x all 0 with
                                                 | Some i => Ok (DVar i x)
                                                 | None => Panic 848
                                                 end
                                   | DExpr e' => do e'' <- reset_vars e' all; Ok (DExpr e'')
                                   end;
                          do tl' <- go tl; Ok (n' :: tl')
                      end) nodes;
      Ok (DE nodes' bops uop all)
  end.

(* deep.rs:807 var_names_union *)
Definition union_names (a b : list str) : list str := sort_strs (a ++ b).
Definition var_names_union (a b : deepex D) : res (deepex D * deepex D) :=
  let all := union_names (dvars a) (dvars b) in
  do a' <- reset_vars a all; do b' <- reset_vars b all; Ok (a', b').

Fixpoint find_op (name : str) (l : optable) (i : nat) : option nat :=
  match l with [] => None | o :: tl => if str_eqb (repr o) name then Some i else find_op name tl (S i) end.

(* deep.rs:64 detail::operate_bin + deep.rs:828 *)
Definition operate_bin (a b : deepex D) (name : str) : res (deepex D) :=
  match find_op name tb 0 with
  | None => Err E_UNKNOWNOP
  | Some k =>
      do o <- mk_bop k;
      do ' (a', b') <- var_names_union a b;
      do r <- new_deepex [DExpr a'; DExpr b'] [o] [];
      dcompile r
  end.
(* deep.rs:834 operate_unary *)
Definition operate_unary (a : deepex D) (name : str) : res (deepex D) :=
  match find_op name tb 0 with
  | None => Err E_UNKNOWNOP
  | Some k =>
      if negb (has_un tb k) then Err E_NOUNARY else
      match a with DE nodes bops uop vars => dcompile (DE nodes bops (k :: uop) vars) end
  end.

(* deep.rs:860 subs; sub maps a variable name to its replacement *)
Fixpoint subs (sub : str -> option (deepex D)) (e : deepex D) : res (deepex D) :=
  match e with
  | DE nodes bops uop vars =>
      do r <- (fix go (l : list (dnode D)) : res (list (dnode D) * list str) :=
                 match l with
                 | [] => Ok ([], [])
                 | n :: tl =>
                     do ' (n', names) <-
                        match n with
                        | DVar i x => match sub x with
                                      | Some r => Ok (DExpr r, dvars r)
                                      | None => Ok (DVar i x, [x])
                                      end
                        | DExpr e' => do e'' <- subs sub e'; Ok (DExpr e'', dvars e'')
                        | DNum d => Ok (DNum d, [])
                        end;
                     do ' (tl', names') <- go tl; Ok (n' :: tl', names ++ names')
                 end) nodes;
      let '(nodes', names) := r in
      do e1 <- reset_vars (DE nodes' bops uop vars) (sort_strs names);
      dcompile e1
  end.

(* operator listings, deep.rs:1048-1106: sorted, duplicate free *)
Fixpoint d_binary_reprs_raw (e : deepex D) : list str :=
  match e with
  | DE nodes bops _ _ =>
      (fix go (l : list (dnode D)) : list str :=
         match l with
         | [] => []
         | DExpr e' :: tl => sort_strs (d_binary_reprs_raw e') ++ go tl
         | _ :: tl => go tl
         end) nodes ++ map (fun o => repr_of (bidx o)) bops
  end.
Definition d_binary_reprs (e : deepex D) : list str := sort_strs (d_binary_reprs_raw e).
Fixpoint d_unary_reprs_raw (e : deepex D) : list str :=
  match e with
  | DE nodes _ uop _ =>
      (fix go (l : list (dnode D)) : list str :=
         match l with
         | [] => []
         | DExpr e' :: tl => sort_strs (d_unary_reprs_raw e') ++ go tl
         | _ :: tl => go tl
         end) nodes ++ map repr_of uop
  end.
Definition d_unary_reprs (e : deepex D) : list str := sort_strs (d_unary_reprs_raw e).
Definition d_operator_reprs (e : deepex D) : list str := sort_strs (d_binary_reprs e ++ d_unary_reprs e).

(* flat listings, flat.rs:909-952 *)
Definition f_binary_reprs (fx : flatex D) : list str := sort_strs (map (fun o => repr_of (fidx o)) (fops fx)).
Definition f_unary_reprs (fx : flatex D) : list str :=
  sort_strs (flat_map (fun o => map repr_of (fun_ o)) (fops fx) ++ flat_map (fun n => map repr_of (nun n)) (fnodes fx)).
Definition f_operator_reprs (fx : flatex D) : list str :=
  sort_strs (map (fun o => repr_of (fidx o)) (fops fx) ++
             flat_map (fun o => map repr_of (fun_ o)) (fops fx) ++ flat_map (fun n => map repr_of (nun n)) (fnodes fx)).
End Deep.
