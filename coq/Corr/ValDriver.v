(* Corr/ValDriver.v — correspondence for the operators of the value type: the harness applies the
   function pointers of ValOpsFactory::<i32, f64>::make() to operands and records the result (None = the
   call panicked); `vmismatches` evaluates the model on the same applications. *)
From Coq Require Import Floats.
From Exmex.Model Require Import Base ValOps.

Inductive vcase :=
| VB (name : str) (a b : val) (r : option val)
| VU (name : str) (a : val) (r : option val).

Definition is_minmax (name : str) : bool := str_eqb name [109;105;110]%N || str_eqb name [109;97;120]%N.
Definition vcheck (c : vcase) : bool :=
  match c with
  | VB name a b (Some r) => match vbin name a b with Some m => val_same (is_minmax name) m r | None => false end
  | VU name a (Some r) => match vun name a with Some m => val_same false m r | None => false end
  | _ => false                       (* a panic: the model has no panicking operator *)
  end.
Definition vmismatches (cs : list vcase) : list N :=
  map (fun ic => (N.of_nat (fst ic) * 1000)%N) (filter (fun ic => negb (vcheck (snd ic))) (combine (seq 0 (length cs)) cs)).
