(* Proofs/LongestMatch.v — find_ops tries the operators in inverse alphabetical order of their names, so among the
   operators that match at a position the one found has the longest name (names that match at the same position are
   prefixes of one another, and a proper prefix sorts before its extension). *)
From Coq Require Import List Arith Lia Bool NArith Sorting.Sorted.
Import ListNotations.
From Exmex.Model Require Import Base Lexer.
From Exmex.Proofs Require Import Vars.
Open Scope nat_scope.

Lemma prefix_shorter_lt : forall p q s : str, is_prefix p s = true -> is_prefix q s = true -> length p < length q -> str_ltb p q = true.
Proof.
  induction p as [|x p IH]; intros q s Hp Hq Hl.
  - destruct q; [cbn in Hl; lia|reflexivity].
  - destruct q as [|y q]; [cbn in Hl; lia|]. destruct s as [|z s]; [discriminate|].
    cbn in Hp, Hq. apply andb_prop in Hp. apply andb_prop in Hq. destruct Hp as [Exz Hp], Hq as [Eyz Hq].
    apply N.eqb_eq in Exz. apply N.eqb_eq in Eyz. subst. cbn [str_ltb]. rewrite N.ltb_irrefl, N.eqb_refl.
    apply (IH q s Hp Hq). cbn in Hl. lia.
Qed.

Section LongestMatch.
Variable tb : optable.
Local Notation name := (fun k => repr (op_of tb k)).
(* never a smaller name before a greater one *)
Definition desc (a b : nat) : Prop := str_ltb (name a) (name b) = false.

Lemma insert_desc_In k l x : In x (insert_op_desc tb k l) <-> x = k \/ In x l.
Proof.
  induction l as [|j l IH]; cbn [insert_op_desc]; [cbn; intuition|].
  destruct (str_ltb (repr (op_of tb j)) (repr (op_of tb k))); cbn [In]; [intuition|]. rewrite IH. intuition.
Qed.
Lemma insert_desc_sorted k l : StronglySorted desc l -> StronglySorted desc (insert_op_desc tb k l).
Proof.
  induction 1 as [|j l HS IH HF]; cbn [insert_op_desc]; [repeat constructor|].
  destruct (str_ltb (repr (op_of tb j)) (repr (op_of tb k))) eqn:E.
  - constructor; [constructor; assumption|]. constructor.
    + unfold desc. destruct (str_ltb (name k) (name j)) eqn:E2; [|reflexivity].
      exfalso. pose proof (str_ltb_trans _ _ _ E E2) as H. unfold str_lt in H. rewrite str_ltb_irrefl in H. discriminate.
    + rewrite Forall_forall in *. intros x Hx. specialize (HF x Hx). unfold desc in *.
      destruct (str_ltb (name k) (name x)) eqn:E2; [|reflexivity].
      pose proof (str_ltb_trans _ _ _ E E2) as H. unfold str_lt in H. congruence.
  - constructor; [exact IH|]. rewrite Forall_forall in *. intros x Hx. apply insert_desc_In in Hx. destruct Hx as [->|Hx]; [exact E|exact (HF x Hx)].
Qed.
Lemma fold_insert_sorted : forall ks acc, StronglySorted desc acc ->
  StronglySorted desc (fold_left (fun acc k => insert_op_desc tb k acc) ks acc) /\
  forall x, In x (fold_left (fun acc k => insert_op_desc tb k acc) ks acc) <-> In x acc \/ In x ks.
Proof.
  induction ks as [|k ks IH]; intros acc HS; cbn [fold_left]; [split; [exact HS|intros; cbn; intuition]|].
  destruct (IH (insert_op_desc tb k acc) (insert_desc_sorted k acc HS)) as [H1 H2]. split; [exact H1|].
  intros x. rewrite H2, insert_desc_In. cbn. intuition.
Qed.
Lemma ops_sorted_spec : StronglySorted desc (ops_sorted tb) /\ forall x, In x (ops_sorted tb) <-> x < length tb.
Proof.
  unfold ops_sorted. destruct (fold_insert_sorted (seq 0 (length tb)) [] (SSorted_nil _)) as [H1 H2]. split; [exact H1|].
  intros x. rewrite H2, in_seq. cbn. intuition lia.
Qed.

Lemma find_first {A} (f : A -> bool) : forall l x, find f l = Some x ->
  exists l1 l2, l = l1 ++ x :: l2 /\ f x = true /\ forall y, In y l1 -> f y = false.
Proof.
  induction l as [|a l IH]; intros x H; [discriminate|]. cbn in H. destruct (f a) eqn:E.
  - inversion H; subst. exists [], l. split; [reflexivity|]. split; [exact E|intros y []].
  - destruct (IH x H) as (l1 & l2 & -> & Hx & Hb). exists (a :: l1), l2. split; [reflexivity|]. split; [exact Hx|].
    intros y [<-|Hy]; [exact E|exact (Hb y Hy)].
Qed.

Theorem find_ops_longest (rest : str) (k : nat) : find_ops tb rest = Some k ->
  op_matches tb rest k = true /\
  forall k', k' < length tb -> op_matches tb rest k' = true -> length (name k') <= length (name k).
Proof.
  unfold find_ops. intros H. destruct (find_first _ _ _ H) as (l1 & l2 & E & Hk & Hbefore). split; [exact Hk|].
  intros k' Hk' Hm. destruct ops_sorted_spec as [HS Hin].
  assert (Hin' : In k' (ops_sorted tb)) by (apply Hin; exact Hk'). rewrite E in Hin', HS.
  apply in_app_or in Hin'. destruct Hin' as [Hin'|[<-|Hin']]; [rewrite (Hbefore k' Hin') in Hm; discriminate|lia|].
  (* k' comes after k: its name is not greater *)
  assert (Hd : desc k k').
  { clear - HS Hin'. induction l1 as [|a l1 IH]; cbn [app] in HS.
    - apply StronglySorted_inv in HS. destruct HS as [_ HF]. rewrite Forall_forall in HF. exact (HF k' Hin').
    - apply StronglySorted_inv in HS. exact (IH (proj1 HS)). }
  destruct (Nat.le_gt_cases (length (name k')) (length (name k))) as [Hle|Hgt]; [exact Hle|].
  unfold op_matches in Hk, Hm. apply andb_prop in Hk. apply andb_prop in Hm.
  pose proof (prefix_shorter_lt (name k) (name k') rest (proj1 Hk) (proj1 Hm) Hgt) as Hlt. unfold desc in Hd. congruence.
Qed.
(* with distinct names the longest matching operator is the one found: an operator that matches where no matching
   operator has a longer name *)
Lemma find_exists {A} (f : A -> bool) : forall l x, In x l -> f x = true -> exists y, find f l = Some y.
Proof.
  induction l as [|a l IH]; intros x Hin Hx; [destruct Hin|]. cbn [find]. destruct (f a) eqn:E; [exists a; reflexivity|].
  destruct Hin as [->|Hin]; [congruence|exact (IH x Hin Hx)].
Qed.
Lemma prefix_same_length : forall p q s : str, is_prefix p s = true -> is_prefix q s = true -> length p = length q -> p = q.
Proof.
  induction p as [|a p IH]; intros q s Hp Hq Hl; destruct q as [|b q]; try discriminate; [reflexivity|].
  destruct s as [|c s]; [discriminate|]. cbn [is_prefix] in Hp, Hq.
  apply andb_prop in Hp. apply andb_prop in Hq. destruct Hp as [Hp1 Hp2]. destruct Hq as [Hq1 Hq2].
  apply N.eqb_eq in Hp1. apply N.eqb_eq in Hq1. subst. f_equal. apply (IH q s Hp2 Hq2). cbn in Hl. congruence.
Qed.
Theorem find_ops_unique_longest (rest : str) (k : nat) :
  (forall i j, i < length tb -> j < length tb -> name i = name j -> i = j) ->
  k < length tb -> op_matches tb rest k = true ->
  (forall k', k' < length tb -> op_matches tb rest k' = true -> length (name k') <= length (name k)) ->
  find_ops tb rest = Some k.
Proof.
  intros Hdist Hk Hm Hlong. destruct ops_sorted_spec as [_ Hin].
  destruct (find_exists (op_matches tb rest) (ops_sorted tb) k (proj2 (Hin k) Hk) Hm) as [k0 Hf].
  assert (Hk0 : k0 < length tb). { apply Hin. unfold find_ops in Hf. destruct (find_first _ _ _ Hf) as (l1 & l2 & E & _). rewrite E. apply in_or_app. right. left. reflexivity. }
  destruct (find_ops_longest rest k0 Hf) as [Hm0 Hl0].
  pose proof (Hl0 k Hk Hm) as H1. pose proof (Hlong k0 Hk0 Hm0) as H2.
  unfold op_matches in Hm, Hm0. apply andb_prop in Hm. apply andb_prop in Hm0.
  assert (E : name k0 = name k) by (apply (prefix_same_length _ _ rest (proj1 Hm0) (proj1 Hm)); lia).
  unfold find_ops. rewrite Hf. f_equal. exact (Hdist k0 k Hk0 Hk E).
Qed.
End LongestMatch.
