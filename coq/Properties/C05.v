(* C05 — a partial derivative evaluates to the mathematical derivative.  Property theorems only. *)
From Coq Require Import List Arith Bool.
Import ListNotations.
From Exmex.Model Require Import Base EvalBinary Lexer Flat Deep Convert Calc Partial.
From Exmex.Gen Require Import Tables.
From Coq Require Import Reals.
From Coquelicot Require Import Coquelicot.
From Exmex.Proofs Require Import RuleAnalysis.
Import ListNotations.
Open Scope nat_scope.

(* `_partial`.  Proved: (1) the model's table of derivative rules has exactly the names, and the binary/unary kinds,
   of make_partial_derivative_ops as the implementation reports them on THIS run (Gen/Tables.v is regenerated from
   the hook); (2) the non-differentiable default operators have no rule; (3) in the default mode a binary operator
   without a rule makes the reduction step fail with an error, never with an expression.
   (4) analysis, rule by rule: the expression every rule of the table builds — computed by the model's apply_urule /
   apply_brule in the free term algebra and read over the real numbers (operators by name in the default table generated
   on this run) — IS the derivative of the operator it belongs to, at every point of the interior of its domain:
   the chain-rule factor of every differentiable unary operator, and the sum, difference, product, quotient and
   (positive base, variable exponent) power rules for arbitrary differentiable operands.  [standard axioms of the real
   numbers, see Print Assumptions]
   Missing: the composition of the rules along an expression (the reduction in application order of
   partial_derivative_inner, the product of the outer factors, the neutral-element shortcuts), i.e. the statement that
   the derivative EXPRESSION of every expression denotes the derivative; it is covered by the correspondence on the free
   term algebra (model = implementation on the derivative expression, exactly) plus the numeric oracle (central
   differences of the reference term at generic points). *)
Theorem C05_rule_names_match_code_partial :
  map (fun r => (fst (fst r), match snd (fst r) with Some _ => true | None => false end, match snd r with Some _ => true | None => false end)) rule_table
  = partial_rule_names.
Proof. vm_compute. reflexivity. Qed.

Definition nm' (l : list N) : str := l.
Theorem C05_no_rule_for_nondifferentiable_partial :
  forallb (fun name => match find_rule name with None => true | Some _ => false end)
    [nm' [97;98;115]; nm' [115;105;103;110;117;109]; nm' [102;108;111;111;114]; nm' [99;101;105;108]; nm' [114;111;117;110;100];
     nm' [116;114;117;110;99]; nm' [102;114;97;99;116]; nm' [99;98;114;116]; nm' [97;116;97;110;50]; nm' [109;105;110]; nm' [109;97;120]]%N = true.
  (* abs signum floor ceil round trunc fract cbrt atan2 min max *)
Proof. vm_compute. reflexivity. Qed.

Theorem C05_missing_binary_rule_is_error_partial :
  forall (D : Type) (C : carrier D) (DC : dcarrier D) (tb : optable) (bin_op_idx : nat) (rest : list nat) (i : nat)
         (num_inds : list nat) (nodes : list (valder (D:=D))) (bops : list dbop) (num_idx : nat) (n1 n2 : valder (D:=D)) (o : dbop),
  nth_error num_inds i = Some num_idx -> nth_error nodes num_idx = Some n1 -> nth_error nodes (S num_idx) = Some n2 ->
  nth_error bops bin_op_idx = Some o -> find_rule (repr_of tb (bidx o)) = None ->
  inner_loop C DC tb (bin_op_idx :: rest) i num_inds nodes bops MError = Err E_NORULE.
Proof. intros. cbn [inner_loop]. rewrite H, H0, H1, H2, H3. reflexivity. Qed.

Open Scope R_scope.
(* the chain-rule factor d/dx u(x) of every unary operator with a rule: T is the term the rule builds for the operand x *)
Theorem C05_unary_rules_are_derivatives_partial :
  (exists T, rule_term n_sin USin = Ok T /\ forall x, is_derive sin x (rinterp (x :: nil) T)) /\
  (exists T, rule_term n_cos UCos = Ok T /\ forall x, is_derive cos x (rinterp (x :: nil) T)) /\
  (exists T, rule_term n_tan UTan = Ok T /\ forall x, cos x <> 0 -> is_derive tan x (rinterp (x :: nil) T)) /\
  (exists T, rule_term n_asin UAsin = Ok T /\ forall x, -1 < x < 1 -> is_derive asin x (rinterp (x :: nil) T)) /\
  (exists T, rule_term n_acos UAcos = Ok T /\ forall x, -1 < x < 1 -> is_derive acos x (rinterp (x :: nil) T)) /\
  (exists T, rule_term n_atan UAtan = Ok T /\ forall x, is_derive atan x (rinterp (x :: nil) T)) /\
  (exists T, rule_term n_sinh USinh = Ok T /\ forall x, is_derive sinh x (rinterp (x :: nil) T)) /\
  (exists T, rule_term n_cosh UCosh = Ok T /\ forall x, is_derive cosh x (rinterp (x :: nil) T)) /\
  (exists T, rule_term n_tanh UTanh = Ok T /\ forall x, is_derive tanh x (rinterp (x :: nil) T)) /\
  (exists T, rule_term n_asinh UAsinh = Ok T /\ forall x, is_derive arcsinh x (rinterp (x :: nil) T)) /\
  (exists T, rule_term n_acosh UAcosh = Ok T /\ forall x, 1 < x -> is_derive acosh x (rinterp (x :: nil) T)) /\
  (exists T, rule_term n_atanh UAtanh = Ok T /\ forall x, -1 < x < 1 -> is_derive atanh x (rinterp (x :: nil) T)) /\
  (exists T, rule_term n_exp UExp = Ok T /\ forall x, is_derive exp x (rinterp (x :: nil) T)) /\
  (exists T, rule_term n_ln ULn = Ok T /\ forall x, 0 < x -> is_derive ln x (rinterp (x :: nil) T)) /\
  (exists T, rule_term n_log ULn = Ok T /\ forall x, 0 < x -> is_derive ln x (rinterp (x :: nil) T)) /\
  (exists T, rule_term n_log2 ULog2 = Ok T /\ forall x, 0 < x -> is_derive (fun x => ln x / ln 2) x (rinterp (x :: nil) T)) /\
  (exists T, rule_term n_log10 ULog10 = Ok T /\ forall x, 0 < x -> is_derive (fun x => ln x / ln 10) x (rinterp (x :: nil) T)) /\
  (exists T, rule_term n_sqrt USqrt = Ok T /\ forall x, 0 < x -> is_derive sqrt x (rinterp (x :: nil) T)) /\
  (exists T, rule_term s_minus UNegOne = Ok T /\ forall x, is_derive (fun x => - x) x (rinterp (x :: nil) T)) /\
  (exists T, rule_term s_plus UOne = Ok T /\ forall x, is_derive (fun x => x) x (rinterp (x :: nil) T)).
Proof.
  repeat split; [exact rule_sin|exact rule_cos|exact rule_tan|exact rule_asin|exact rule_acos|exact rule_atan|exact rule_sinh|exact rule_cosh|exact rule_tanh
                |exact rule_asinh|exact rule_acosh|exact rule_atanh|exact rule_exp|exact rule_ln|exact rule_log|exact rule_log2|exact rule_log10|exact rule_sqrt
                |exact rule_neg|exact rule_pos].
Qed.

(* the binary rules for operands f, g differentiable at t with derivatives f', g': T is the term the rule builds from
   (f, f') and (g, g') *)
Theorem C05_binary_rules_are_derivatives_partial :
  forall (f g : R -> R) (t f' g' : R), is_derive f t f' -> is_derive g t g' ->
  (exists T, brule_term s_plus BAdd = Ok T /\ is_derive (fun x => f x + g x) t (rinterp (f t :: f' :: g t :: g' :: nil) T)) /\
  (exists T, brule_term s_minus BSub = Ok T /\ is_derive (fun x => f x - g x) t (rinterp (f t :: f' :: g t :: g' :: nil) T)) /\
  (exists T, brule_term s_mul BMul = Ok T /\ is_derive (fun x => f x * g x) t (rinterp (f t :: f' :: g t :: g' :: nil) T)) /\
  (exists T, brule_term s_div BDiv = Ok T /\ (g t <> 0 -> is_derive (fun x => f x / g x) t (rinterp (f t :: f' :: g t :: g' :: nil) T))) /\
  (exists T, brule_term s_pow BPow = Ok T /\ (0 < f t -> is_derive (fun x => Rpower (f x) (g x)) t (rinterp (f t :: f' :: g t :: g' :: nil) T))).
Proof.
  intros f g t f' g' Hf Hg. repeat split; [exact (rule_add f g t f' g' Hf Hg)|exact (rule_sub f g t f' g' Hf Hg)|exact (rule_mul f g t f' g' Hf Hg)
                                          |exact (rule_div f g t f' g' Hf Hg)|exact (rule_pow f g t f' g' Hf Hg)].
Qed.

Print Assumptions C05_rule_names_match_code_partial.
Print Assumptions C05_missing_binary_rule_is_error_partial.
Print Assumptions C05_unary_rules_are_derivatives_partial.
Print Assumptions C05_binary_rules_are_derivatives_partial.
