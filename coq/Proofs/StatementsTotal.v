(* Proofs/StatementsTotal.v — statement lines (statements.rs) never panic: the expression part goes through FlatEx::parse,
   which returns a value or an error for every text, and a variable-free parsed expression evaluates on the empty slice. *)
From Coq Require Import List.
Import ListNotations.
From Exmex.Model Require Import Base EvalBinary Lexer Flat Statements.
From Exmex.Proofs Require Import Totality FlatTotal.

Section StatementsTotal.
Context {D : Type}.
Variable C : carrier D.
Variable tb : optable.
Variable is_literal : str -> option nat.

Theorem line_2_statement_no_panic (s : str) (site : nat) : line_2_statement C tb is_literal s <> Panic site.
Proof.
  unfold line_2_statement. pose proof (parse_no_panic C tb is_literal (expr_text s)) as Hp.
  destruct (parse C tb true is_literal (expr_text s)) as [fx|e|p] eqn:Ep; cbn [bind]; [|discriminate|exfalso; exact (Hp p eq_refl)].
  destruct (fvars fx) as [|v vs] eqn:Ev.
  - destruct (parsed_evaluates C tb is_literal (expr_text s) fx [] (or_introl Ep) ltac:(rewrite Ev; reflexivity)) as [v Hv]. rewrite Hv. cbn [bind].
    destruct (lhs_text s); [destruct (has_space_or_paren _)|]; discriminate.
  - cbn [bind]. destruct (lhs_text s); [destruct (has_space_or_paren _)|]; discriminate.
Qed.
End StatementsTotal.
