(* Proofs/CalcSem.v — the calculator operations of deep.rs (+, -, *, /, pow with their neutral-element shortcuts, unary
   application, variable-list union) over the real carrier: on expressions in compile normal form whose names lie in
   their variable lists each operation, when it succeeds, yields such an expression again, with the sorted union of the
   variable lists, denoting the real operation of the denotations at every assignment (for 0^y: unless the base is the
   literal zero). *)
From Coq Require Import Reals Lra List NArith ZArith Lia Bool Sorted.
Import ListNotations.
From Exmex.Model Require Import Base EvalBinary Lexer Flat Deep Convert Calc Partial.
From Exmex.Gen Require Import Tables.
From Exmex.Spec Require Import RefSem.
From Exmex.Proofs Require Import Vars DeepVars Pev PevFold DeepSem DeepCompile DeepSubs C11Main DeepOps NormalForm RuleAnalysis RealCarrier.
Open Scope nat_scope.

Local Notation tb := float_table.
Local Notation tfl := (tflagged tb).
Notation ddenR rho := (dden Rc (nlook rho)).

Definition W (a : deepex R) : Prop := dclosed tfl (dvars a) a /\ nf a.

Lemma eqR_bin : forall (k : nat) (a a' b b' : R), a = a' -> b = b' -> binf Rc k a b = binf Rc k a' b'.
Proof. intros; subst; reflexivity. Qed.
Lemma eqR_un : forall (k : nat) (a a' : R), a = a' -> unf Rc k a = unf Rc k a'.
Proof. intros; subst; reflexivity. Qed.

Lemma sorted_union a b : StronglySorted str_lt (sort_strs (a ++ b)).
Proof. apply sort_strs_spec. Qed.
Lemma In_sorted l y : In y (sort_strs l) <-> In y l.
Proof. apply sort_strs_spec. Qed.
Lemma incl_union_l a b : incl a (sort_strs (a ++ b)).
Proof. intros y Hy. apply In_sorted. apply in_or_app. left. exact Hy. Qed.
Lemma incl_union_r a b : incl b (sort_strs (a ++ b)).
Proof. intros y Hy. apply In_sorted. apply in_or_app. right. exact Hy. Qed.
Lemma union_incl a b all : incl a all -> incl b all -> incl (sort_strs (a ++ b)) all.
Proof. intros Ha Hb y Hy. apply (proj1 (In_sorted _ _)) in Hy. apply in_app_or in Hy. destruct Hy; auto. Qed.
Lemma union_absorb a all : StronglySorted str_lt all -> incl a all -> sort_strs (a ++ all) = all /\ sort_strs (all ++ a) = all.
Proof.
  intros HS Ha. split; (rewrite <- (sort_strs_sorted_id all HS) at 2; apply sort_strs_ext; intros y; rewrite in_app_iff; split; [intros [H|H]; auto|auto]).
Qed.

(* ---- binary and unary application ---- *)
Theorem op_bin_sem name k a b r : find_op name tb 0 = Some k -> is_bin tb k = true -> W a -> W b ->
  operate_bin Rc tb a b name = Ok r ->
  W r /\ dvars r = sort_strs (dvars a ++ dvars b) /\ forall rho, ddenR rho r = binf Rc k (ddenR rho a) (ddenR rho b).
Proof.
  intros Hf Hb [Ca Na] [Cb Nb] H.
  destruct (operate_bin_ok Rc tb eq (@eq_refl R) (@eq_sym R) (@eq_trans R) eqR_bin eqR_un Rc_assoc a b name k Hf Hb Ca Cb) as (e & He & Hc & Hd).
  rewrite H in He. inversion He; subst e. pose proof (dconsistent_vars _ _ _ Hc) as Hv.
  split; [split; [rewrite Hv; apply dconsistent_closed; exact Hc|exact (operate_bin_nf Rc tb a b r name Na Nb H)]|].
  split; [exact Hv|exact Hd].
Qed.

Lemma dvars_operate_unary (a r : deepex R) name : operate_unary Rc tb a name = Ok r -> dvars r = dvars a.
Proof.
  intros H. unfold operate_unary in H. destruct (find_op name tb 0) as [k|]; [|discriminate].
  destruct (negb (has_un tb k)); [discriminate|]. destruct a as [nodes bops uop vars].
  rewrite (dcompile_vars Rc _ _ H). destruct nodes as [|n [|n' tl]]; try destruct n; reflexivity.
Qed.
Theorem op_un_sem name k a r : find_op name tb 0 = Some k -> has_un tb k = true -> W a ->
  operate_unary Rc tb a name = Ok r ->
  W r /\ dvars r = dvars a /\ forall rho, ddenR rho r = unf Rc k (ddenR rho a).
Proof.
  intros Hf Hu [Ca Na] H. pose proof (dvars_operate_unary a r name H) as Hv.
  split; [split; [|exact (operate_unary_nf Rc tb a r name Na H)]|split; [exact Hv|]].
  - destruct (operate_unary_ok Rc tb eq (@eq_refl R) (@eq_sym R) (@eq_trans R) eqR_bin eqR_un Rc_assoc (nlook (fun _ => 0%R)) (names_in (dvars a)) any_vars a name k Hf Hu Ca) as (e & He & Hw & _).
    rewrite H in He. inversion He; subst e. rewrite Hv. exact Hw.
  - intros rho.
    destruct (operate_unary_ok Rc tb eq (@eq_refl R) (@eq_sym R) (@eq_trans R) eqR_bin eqR_un Rc_assoc (nlook rho) (names_in (dvars a)) any_vars a name k Hf Hu Ca) as (e & He & _ & Hd).
    rewrite H in He. inversion He; subst e. exact Hd.
Qed.

(* ---- union of the variable lists ---- *)
Theorem union_sem a b a' b' : W a -> W b -> var_names_union a b = Ok (a', b') ->
  let all := sort_strs (dvars a ++ dvars b) in
  W a' /\ W b' /\ dvars a' = all /\ dvars b' = all /\ (forall rho, ddenR rho a' = ddenR rho a) /\ (forall rho, ddenR rho b' = ddenR rho b).
Proof.
  intros [Ca Na] [Cb Nb] H all. unfold var_names_union, union_names in H. fold all in H.
  destruct (reset_vars_ok Rc tfl all a (dclosed_mono tfl _ _ a (incl_union_l _ _) Ca)) as (a1 & Ea & Ha1 & Da).
  destruct (reset_vars_ok Rc tfl all b (dclosed_mono tfl _ _ b (incl_union_r _ _) Cb)) as (b1 & Eb & Hb1 & Db).
  rewrite Ea in H. cbn [bind] in H. rewrite Eb in H. cbn [bind] in H. inversion H; subst a1 b1.
  pose proof (dconsistent_vars _ _ _ Ha1) as Va. pose proof (dconsistent_vars _ _ _ Hb1) as Vb.
  repeat split; try assumption.
  - rewrite Va. apply dconsistent_closed. exact Ha1.
  - exact (proj1 (reset_vars_nf all a a' Na Ea)).
  - rewrite Vb. apply dconsistent_closed. exact Hb1.
  - exact (proj1 (reset_vars_nf all b b' Nb Eb)).
Qed.

(* ---- literals ---- *)
Lemma const_W (d : R) vars : W (DE [DNum d] [] [] vars).
Proof.
  split.
  - unfold dclosed. rewrite dwf_unfold. split; [reflexivity|]. split; [exact I|]. split; [intros o []|constructor; [exact I|constructor]].
  - rewrite nf_unfold. split; [reflexivity|constructor; [exact I|constructor]].
Qed.
Lemma const_den (d : R) vars rho : ddenR rho (DE [DNum d] [] [] vars) = d.
Proof. reflexivity. Qed.
Lemma from_num_eq (d : R) : from_num Rc d = Ok (DE [DNum d] [] [] []).
Proof. reflexivity. Qed.

Theorem is_num_sem e num : W e -> is_num Rc RDC e num = true -> forall rho, ddenR rho e = num.
Proof.
  intros [Ce Ne] H rho. destruct (is_num_shape Rc RDC e num Ne H) as (d & bops & uop & vars & -> & Hd).
  cbn [dc_eqb RDC] in Hd. apply reqb_eq in Hd. rewrite dden_unfold. cbn [map nden level_val]. rewrite combine_nil. rewrite pv_nil. exact Hd.
Qed.

(* ---- the calculator operations ---- *)
Local Open Scope R_scope.
Theorem d_add_sem a b r : W a -> W b -> d_add Rc RDC tb a b = Ok r ->
  W r /\ dvars r = sort_strs (dvars a ++ dvars b) /\ forall rho, ddenR rho r = ddenR rho a + ddenR rho b.
Proof.
  intros Wa Wb H. unfold d_add in H. destruct (var_names_union a b) as [[s1 s2]| |] eqn:Eu; cbn [bind] in H; try discriminate.
  destruct (union_sem a b s1 s2 Wa Wb Eu) as (W1 & W2 & V1 & V2 & D1 & D2).
  destruct (is_zero Rc RDC s1) eqn:Z1.
  { inversion H; subst r. split; [exact W2|]. split; [exact V2|]. intros rho. rewrite D2, <- D1, (is_num_sem s1 _ W1 Z1 rho). cbn [dc_zero RDC]. ring. }
  destruct (is_zero Rc RDC s2) eqn:Z2.
  { inversion H; subst r. split; [exact W1|]. split; [exact V1|]. intros rho. rewrite D1, <- D2, (is_num_sem s2 _ W2 Z2 rho). cbn [dc_zero RDC]. ring. }
  destruct (op_bin_sem s_plus 3 s1 s2 r find_plus eq_refl W1 W2 H) as (Wr & Vr & Dr).
  split; [exact Wr|]. split; [rewrite Vr, V1, V2; apply sort_strs_double; apply sorted_union|].
  intros rho. rewrite Dr, D1, D2. reflexivity.
Qed.
Theorem d_sub_sem a b r : W a -> W b -> d_sub Rc tb a b = Ok r ->
  W r /\ dvars r = sort_strs (dvars a ++ dvars b) /\ forall rho, ddenR rho r = ddenR rho a - ddenR rho b.
Proof. intros Wa Wb H. exact (op_bin_sem s_minus 4 a b r find_minus eq_refl Wa Wb H). Qed.

Lemma zero_like s1 r : W s1 -> (do z <- d_zero Rc RDC; Ok (like_other z s1)) = Ok r ->
  W r /\ dvars r = dvars s1 /\ forall rho, ddenR rho r = 0.
Proof. intros _ H. cbn in H. inversion H; subst r. split; [apply const_W|]. split; reflexivity. Qed.

Theorem d_mul_sem a b r : W a -> W b -> d_mul Rc RDC tb a b = Ok r ->
  W r /\ dvars r = sort_strs (dvars a ++ dvars b) /\ forall rho, ddenR rho r = ddenR rho a * ddenR rho b.
Proof.
  intros Wa Wb H. unfold d_mul in H. destruct (var_names_union a b) as [[f1 f2]| |] eqn:Eu; cbn [bind] in H; try discriminate.
  destruct (union_sem a b f1 f2 Wa Wb Eu) as (W1 & W2 & V1 & V2 & D1 & D2).
  destruct (is_zero Rc RDC f1 || is_zero Rc RDC f2) eqn:Z.
  { destruct (zero_like f1 r W1 H) as (Wr & Vr & Dr). split; [exact Wr|]. split; [rewrite Vr; exact V1|].
    intros rho. rewrite Dr. apply orb_prop in Z. destruct Z as [Z|Z].
    - rewrite <- D1, (is_num_sem f1 _ W1 Z rho). cbn [dc_zero RDC]. ring.
    - rewrite <- D2, (is_num_sem f2 _ W2 Z rho). cbn [dc_zero RDC]. ring. }
  destruct (is_one Rc RDC f1) eqn:O1.
  { inversion H; subst r. split; [exact W2|]. split; [exact V2|]. intros rho. rewrite D2, <- D1, (is_num_sem f1 _ W1 O1 rho). cbn [dc_one RDC]. ring. }
  destruct (is_one Rc RDC f2) eqn:O2.
  { inversion H; subst r. split; [exact W1|]. split; [exact V1|]. intros rho. rewrite D1, <- D2, (is_num_sem f2 _ W2 O2 rho). cbn [dc_one RDC]. ring. }
  destruct (op_bin_sem s_mul 1 f1 f2 r find_mul eq_refl W1 W2 H) as (Wr & Vr & Dr).
  split; [exact Wr|]. split; [rewrite Vr, V1, V2; apply sort_strs_double; apply sorted_union|].
  intros rho. rewrite Dr, D1, D2. reflexivity.
Qed.

Theorem d_div_sem a b r : W a -> W b -> d_div Rc RDC tb a b = Ok r ->
  W r /\ dvars r = sort_strs (dvars a ++ dvars b) /\ forall rho, ddenR rho r = ddenR rho a / ddenR rho b.
Proof.
  intros Wa Wb H. unfold d_div in H. destruct (var_names_union a b) as [[n d]| |] eqn:Eu; cbn [bind] in H; try discriminate.
  destruct (union_sem a b n d Wa Wb Eu) as (W1 & W2 & V1 & V2 & D1 & D2).
  destruct (is_zero Rc RDC n && negb (is_zero Rc RDC d)) eqn:Z.
  { destruct (zero_like n r W1 H) as (Wr & Vr & Dr). split; [exact Wr|]. split; [rewrite Vr; exact V1|].
    intros rho. rewrite Dr. apply andb_prop in Z. destruct Z as [Z _].
    rewrite <- D1, (is_num_sem n _ W1 Z rho). cbn [dc_zero RDC]. unfold Rdiv. ring. }
  destruct (is_one Rc RDC d) eqn:O2.
  { inversion H; subst r. split; [exact W1|]. split; [exact V1|]. intros rho. rewrite D1, <- D2, (is_num_sem d _ W2 O2 rho). cbn [dc_one RDC]. field. }
  destruct (op_bin_sem s_div 2 n d r find_div eq_refl W1 W2 H) as (Wr & Vr & Dr).
  split; [exact Wr|]. split; [rewrite Vr, V1, V2; apply sort_strs_double; apply sorted_union|].
  intros rho. rewrite Dr, D1, D2. reflexivity.
Qed.

(* the power: exact unless the base is the literal zero *)
Theorem d_pow_sem a b r : W a -> W b -> d_pow Rc RDC tb a b = Ok r ->
  W r /\ dvars r = sort_strs (dvars a ++ dvars b) /\
  ((forall rho, ddenR rho r = powR (ddenR rho a) (ddenR rho b)) \/ ((forall rho, ddenR rho a = 0) /\ (forall rho, ddenR rho r = 0))).
Proof.
  intros Wa Wb H. unfold d_pow in H. destruct (var_names_union a b) as [[base ex]| |] eqn:Eu; cbn [bind] in H; try discriminate.
  destruct (union_sem a b base ex Wa Wb Eu) as (W1 & W2 & V1 & V2 & D1 & D2).
  destruct (is_zero Rc RDC base && is_zero Rc RDC ex); [discriminate|].
  destruct (is_zero Rc RDC base) eqn:Z1.
  { destruct (zero_like base r W1 H) as (Wr & Vr & Dr). split; [exact Wr|]. split; [rewrite Vr; exact V1|].
    right. split; [|exact Dr]. intros rho. rewrite <- D1. exact (is_num_sem base _ W1 Z1 rho). }
  destruct (is_zero Rc RDC ex) eqn:Z2.
  { cbn in H. inversion H; subst r. split; [apply const_W|]. split; [exact V1|]. left. intros rho.
    rewrite const_den, <- (D2 rho), (is_num_sem ex _ W2 Z2 rho). cbn [dc_zero RDC dc_one]. rewrite powR_0. reflexivity. }
  destruct (is_one Rc RDC ex) eqn:O2.
  { inversion H; subst r. split; [exact W1|]. split; [exact V1|]. left. intros rho.
    rewrite D1, <- (D2 rho), (is_num_sem ex _ W2 O2 rho). cbn [dc_one RDC]. rewrite powR_1. reflexivity. }
  destruct (op_bin_sem s_pow 0 base ex r find_pow eq_refl W1 W2 H) as (Wr & Vr & Dr).
  split; [exact Wr|]. split; [rewrite Vr, V1, V2; apply sort_strs_double; apply sorted_union|].
  left. intros rho. rewrite Dr, D1, D2. reflexivity.
Qed.

Theorem d_neg_sem a r : W a -> d_neg Rc tb a = Ok r -> W r /\ dvars r = dvars a /\ forall rho, ddenR rho r = - ddenR rho a.
Proof. intros Wa H. exact (op_un_sem s_minus 4 a r find_minus eq_refl Wa H). Qed.

(* without_latest_unary *)
Theorem wlu_sem (e x : deepex R) k us : W e -> duop e = k :: us -> wlu e = Ok x ->
  W x /\ dvars x = dvars e /\ duop x = us /\ forall rho, ddenR rho e = unf Rc k (ddenR rho x).
Proof.
  intros [Ce Ne] Hu H. destruct e as [n b u v]. cbn [duop] in Hu. subst u. cbn [wlu] in H. inversion H; subst x.
  split; [split; [|exact (wlu_nf _ _ Ne eq_refl)]|].
  - unfold dclosed in *. rewrite dwf_unfold in *. exact Ce.
  - split; [reflexivity|]. split; [reflexivity|]. intros rho. rewrite !dden_unfold. reflexivity.
Qed.

(* the product (the last step of a derivative) is index-consistent with its own variable list *)
Lemma union_cons a b a' b' : W a -> W b -> var_names_union a b = Ok (a', b') ->
  dconsistent tfl (dvars a') a' /\ dconsistent tfl (dvars b') b'.
Proof.
  intros [Ca Na] [Cb Nb] H. unfold var_names_union, union_names in H. set (all := sort_strs (dvars a ++ dvars b)) in *.
  destruct (reset_vars_ok Rc tfl all a (dclosed_mono tfl _ _ a (incl_union_l _ _) Ca)) as (a1 & Ea & Ha1 & Da).
  destruct (reset_vars_ok Rc tfl all b (dclosed_mono tfl _ _ b (incl_union_r _ _) Cb)) as (b1 & Eb & Hb1 & Db).
  rewrite Ea in H. cbn [bind] in H. rewrite Eb in H. cbn [bind] in H. inversion H; subst a1 b1.
  rewrite (dconsistent_vars _ _ _ Ha1), (dconsistent_vars _ _ _ Hb1). split; assumption.
Qed.
Lemma const_cons (d : R) vars : dconsistent tfl vars (DE [DNum d] [] [] vars).
Proof. unfold dconsistent. rewrite dwf_unfold. split; [reflexivity|]. split; [reflexivity|]. split; [intros o []|constructor; [exact I|constructor]]. Qed.
Theorem d_mul_cons a b r : W a -> W b -> d_mul Rc RDC tb a b = Ok r -> dconsistent tfl (dvars r) r.
Proof.
  intros Wa Wb H. unfold d_mul in H. destruct (var_names_union a b) as [[f1 f2]| |] eqn:Eu; cbn [bind] in H; try discriminate.
  destruct (union_sem a b f1 f2 Wa Wb Eu) as (W1 & W2 & _). destruct (union_cons a b f1 f2 Wa Wb Eu) as [C1 C2].
  destruct (is_zero Rc RDC f1 || is_zero Rc RDC f2).
  { cbn in H. inversion H; subst r. apply const_cons. }
  destruct (is_one Rc RDC f1); [inversion H; subst r; exact C2|].
  destruct (is_one Rc RDC f2); [inversion H; subst r; exact C1|].
  destruct W1 as [Cl1 N1]. destruct W2 as [Cl2 N2].
  destruct (operate_bin_ok Rc tb eq (@eq_refl R) (@eq_sym R) (@eq_trans R) eqR_bin eqR_un Rc_assoc f1 f2 s_mul 1%nat find_mul eq_refl Cl1 Cl2) as (e & He & Hc & _).
  rewrite H in He. inversion He; subst e. rewrite (dconsistent_vars _ _ _ Hc). exact Hc.
Qed.
