(* Proofs/DeepOps.v — operator application on deep expressions (deep.rs operate_bin / operate_unary): a homomorphism.
   By name: the result denotes the operator applied to the denotations of the operands; it is index-consistent with
   the sorted union of the operands' variable lists, so it can be an operand again. *)
From Coq Require Import List Arith Lia Bool ZArith Sorting.Sorted.
Import ListNotations.
From Exmex.Model Require Import Base EvalBinary Lexer Flat Deep.
From Exmex.Spec Require Import RefSem.
From Exmex.Proofs Require Import PevFold FlSem Vars DeepSem DeepCompile DeepVars DeepSubs C11Main DeepParse.
Open Scope nat_scope.

Section DeepOps.
Context {D : Type}.
Variable C : carrier D.
Variable tb : optable.
Variable R : D -> D -> Prop.
Hypothesis R_refl : forall a, R a a.
Hypothesis R_sym : forall a b, R a b -> R b a.
Hypothesis R_trans : forall a b c, R a b -> R b c -> R a c.
Hypothesis R_bin : forall k a a' b b', R a a' -> R b b' -> R (binf C k a b) (binf C k a' b').
Hypothesis R_un : forall k a a', R a a' -> R (unf C k a) (unf C k a').
Hypothesis table_assoc : forall k, comm_of tb k = true -> forall a b c, R (binf C k (binf C k a b) c) (binf C k a (binf C k b c)).
Definition tflagged : dbop -> Prop := from_table tb.
Lemma flagged_assoc : forall o, tflagged o -> bcomm o = true ->
  forall a b c, R (binf C (bidx o) (binf C (bidx o) a b) c) (binf C (bidx o) a (binf C (bidx o) b c)).
Proof. exact (DeepParse.flagged_op_assoc C tb R table_assoc). Qed.

Local Notation ddenN rho := (dden C (nlook rho)).

(* ---- unary ---- *)
Theorem operate_unary_ok (look : nat -> str -> D) (okvar : nat -> str -> Prop) (okvars : list str -> Prop) (a : deepex D) (name : str) (k : nat) :
  find_op name tb 0 = Some k -> has_un tb k = true -> dwf tflagged okvar okvars a ->
  exists e, operate_unary C tb a name = Ok e /\ dwf tflagged okvar okvars e /\ R (dden C look e) (unf C k (dden C look a)).
Proof.
  intros Hf Hu Hwf. unfold operate_unary. rewrite Hf, Hu. cbn [negb]. destruct a as [nodes bops uop vars].
  assert (Hwf' : dwf tflagged okvar okvars (DE nodes bops (k :: uop) vars)).
  { rewrite dwf_unfold in *. exact Hwf. }
  destruct (dcompile_ok C R R_refl R_sym R_trans R_bin R_un tflagged flagged_assoc look okvar okvars _ Hwf') as (e & He & Hwe & Hr).
  exists e. split; [exact He|]. split; [exact Hwe|]. rewrite !dden_unfold in *. exact Hr.
Qed.

(* ---- binary ---- *)
Lemma sort_strs_double all : StronglySorted str_lt all -> sort_strs (all ++ all) = all.
Proof.
  intros HS. rewrite <- (sort_strs_sorted_id all HS) at 3. apply sort_strs_ext. intros y. rewrite in_app_iff. tauto.
Qed.

Theorem operate_bin_ok (a b : deepex D) (name : str) (k : nat) :
  find_op name tb 0 = Some k -> is_bin tb k = true ->
  dclosed tflagged (dvars a) a -> dclosed tflagged (dvars b) b ->
  let all := sort_strs (dvars a ++ dvars b) in
  exists e, operate_bin C tb a b name = Ok e /\ dconsistent tflagged all e /\
            forall rho, R (ddenN rho e) (binf C k (ddenN rho a) (ddenN rho b)).
Proof.
  intros Hf Hb Ha Hbb all. unfold operate_bin. rewrite Hf.
  assert (Hmk : mk_bop tb k = Ok {| bprio := prio_of tb k; bidx := k; bcomm := comm_of tb k |}).
  { unfold mk_bop, is_bin, prio_of, comm_of, op_of in *. destruct (obin (nth k tb _)) as [bs|]; [reflexivity|discriminate]. }
  rewrite Hmk. cbn [bind]. set (o := {| bprio := prio_of tb k; bidx := k; bcomm := comm_of tb k |}).
  destruct (sort_strs_spec (dvars a ++ dvars b)) as (HS & _ & Hin). fold all in HS, Hin.
  assert (Ia : incl (dvars a) all) by (intros y Hy; apply Hin; apply in_or_app; left; exact Hy).
  assert (Ib : incl (dvars b) all) by (intros y Hy; apply Hin; apply in_or_app; right; exact Hy).
  unfold var_names_union, union_names. fold all.
  destruct (reset_vars_ok C tflagged all a (dclosed_mono tflagged _ _ a Ia Ha)) as (a' & Ea & Ca & Da). rewrite Ea. cbn [bind].
  destruct (reset_vars_ok C tflagged all b (dclosed_mono tflagged _ _ b Ib Hbb)) as (b' & Eb & Cb & Db). rewrite Eb. cbn [bind].
  (* the two-node level *)
  unfold new_deepex. cbn [length Nat.eqb negb flat_map node_var_names app].
  rewrite (dconsistent_vars tflagged all a' Ca), (dconsistent_vars tflagged all b' Cb), app_nil_r, (sort_strs_double all HS).
  assert (Hlevel : dconsistent tflagged all (DE [DExpr a'; DExpr b'] [o] [] all)).
  { unfold dconsistent. rewrite dwf_unfold. split; [reflexivity|]. split; [reflexivity|]. split.
    - intros o' [<-|[]]. exact (DeepParse.dop_flag tb k Hb).
    - constructor; [exact Ca|]. constructor; [exact Cb|constructor]. }
  destruct (dcompile_ok C R R_refl R_sym R_trans R_bin R_un tflagged flagged_assoc (nlook (fun _ => dflt C)) (indexed all) (is_list all) _ Hlevel)
    as (r & Er & Cr & _).
  rewrite Er. cbn [bind].
  destruct (dcompile_ok C R R_refl R_sym R_trans R_bin R_un tflagged flagged_assoc (nlook (fun _ => dflt C)) (indexed all) (is_list all) r Cr)
    as (e & Ee & Ce & _).
  exists e. split; [exact Ee|]. split; [exact Ce|].
  intros rho.
  destruct (dcompile_ok C R R_refl R_sym R_trans R_bin R_un tflagged flagged_assoc (nlook rho) (indexed all) (is_list all) _ Hlevel) as (r' & Er' & _ & Hr1).
  rewrite Er in Er'. inversion Er'; subst r'.
  destruct (dcompile_ok C R R_refl R_sym R_trans R_bin R_un tflagged flagged_assoc (nlook rho) (indexed all) (is_list all) r Cr) as (e' & Ee' & _ & Hr2).
  rewrite Ee in Ee'. inversion Ee'; subst e'.
  eapply R_trans; [exact Hr2|]. eapply R_trans; [exact Hr1|].
  rewrite dden_unfold. cbn [map nden apply_un fold_right level_val combine]. rewrite Da, Db.
  change [(to_fop o, ddenN rho b)] with ([] ++ (to_fop o, ddenN rho b) :: []).
  rewrite (pv_at_root C (ddenN rho a) [] (to_fop o) (ddenN rho b) []) by (intros ? ? []).
  rewrite !pv_nil. unfold apply_op. cbn [to_fop fun_ fidx o apply_un fold_right]. apply R_refl.
Qed.

(* ---- at the level of evaluation ---- *)
Theorem operate_bin_eval (a b : deepex D) (name : str) (k : nat) :
  find_op name tb 0 = Some k -> is_bin tb k = true ->
  dindexed tflagged (dvars a) a -> dindexed tflagged (dvars b) b ->
  let all := sort_strs (dvars a ++ dvars b) in
  exists e, operate_bin C tb a b name = Ok e /\ dindexed tflagged all e /\
    forall vals', length vals' = length all ->
    exists v va vb, eval_deep C e vals' = Ok v /\
                    eval_deep C a (map (env_of C all vals') (dvars a)) = Ok va /\
                    eval_deep C b (map (env_of C all vals') (dvars b)) = Ok vb /\ R v (binf C k va vb).
Proof.
  intros Hf Hb Ha Hbb all.
  destruct (operate_bin_ok a b name k Hf Hb (dindexed_closed tflagged _ _ Ha) (dindexed_closed tflagged _ _ Hbb)) as (e & He & Hc & Hd).
  fold all in Hc, Hd. exists e. split; [exact He|]. split; [apply dconsistent_indexed; exact Hc|].
  intros vals' Hlen. set (rho := env_of C all vals').
  destruct (eval_consistent C R R_refl R_sym R_trans R_bin R_un tflagged flagged_assoc all vals' e (dconsistent_indexed tflagged _ _ Hc) Hlen) as (v & Ev & Rv).
  destruct (eval_consistent C R R_refl R_sym R_trans R_bin R_un tflagged flagged_assoc (dvars a) (map rho (dvars a)) a Ha ltac:(apply map_length)) as (va & Eva & Rva).
  destruct (eval_consistent C R R_refl R_sym R_trans R_bin R_un tflagged flagged_assoc (dvars b) (map rho (dvars b)) b Hbb ltac:(apply map_length)) as (vb & Evb & Rvb).
  exists v, va, vb. split; [exact Ev|]. split; [exact Eva|]. split; [exact Evb|].
  rewrite (ddenN_ext C tflagged (dvars a) _ rho (fun x Hx => env_of_map C (dvars a) rho x Hx) a (dindexed_closed tflagged _ _ Ha)) in Rva.
  rewrite (ddenN_ext C tflagged (dvars b) _ rho (fun x Hx => env_of_map C (dvars b) rho x Hx) b (dindexed_closed tflagged _ _ Hbb)) in Rvb.
  eapply R_trans; [exact Rv|]. eapply R_trans; [apply Hd|]. apply R_bin; apply R_sym; assumption.
Qed.

Theorem operate_unary_eval (a : deepex D) (name : str) (k : nat) :
  find_op name tb 0 = Some k -> has_un tb k = true -> dindexed tflagged (dvars a) a ->
  exists e, operate_unary C tb a name = Ok e /\ dindexed tflagged (dvars a) e /\
    forall vals, length vals = length (dvars a) ->
    exists v va, eval_deep C e vals = Ok v /\ eval_deep C a vals = Ok va /\ R v (unf C k va).
Proof.
  intros Hf Hu [Hwf Hv].
  destruct (operate_unary_ok (nlook (fun _ => dflt C)) (indexed (dvars a)) (short_list (dvars a)) a name k Hf Hu Hwf) as (e & He & Hwe & _).
  assert (Hve : dvars e = dvars a).
  { unfold operate_unary in He. rewrite Hf, Hu in He. cbn [negb] in He. destruct a as [nodes bops uop vars].
    rewrite (dcompile_vars C _ _ He). destruct nodes as [|n [|n' tl]]; try destruct n; reflexivity. }
  exists e. split; [exact He|]. split; [split; [exact Hwe|exact Hve]|].
  intros vals Hlen.
  destruct (eval_consistent C R R_refl R_sym R_trans R_bin R_un tflagged flagged_assoc (dvars a) vals e ltac:(split; [exact Hwe|exact Hve]) Hlen) as (v & Ev & Rv).
  destruct (eval_consistent C R R_refl R_sym R_trans R_bin R_un tflagged flagged_assoc (dvars a) vals a ltac:(split; [exact Hwf|exact Hv]) Hlen) as (va & Eva & Rva).
  exists v, va. split; [exact Ev|]. split; [exact Eva|].
  destruct (operate_unary_ok (nlook (env_of C (dvars a) vals)) (indexed (dvars a)) (short_list (dvars a)) a name k Hf Hu Hwf) as (e' & He' & _ & Hr).
  rewrite He in He'. inversion He'; subst e'.
  eapply R_trans; [exact Rv|]. eapply R_trans; [exact Hr|]. apply R_un. apply R_sym. exact Rva.
Qed.
End DeepOps.
