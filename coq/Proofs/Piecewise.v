(* Proofs/Piecewise.v — the derivative of `a if c else b` is the derivative of the selected branch.
   The derivative rules build, for `(a if c) else b`, the pair
       value       (a.val if c.val) else b.val
       derivative  (a.der if c.val) else b.der           (rule kinds BCond for `if`, BPerOperand for `else`; F14)
   by operator application on deep expressions.  For every data type and table in which `if` and `else` are binary operators,
   the named denotation of the pair is the operators applied to the denotations of the components (DeepOps); and in every
   data type whose `if` yields its left operand under a true condition and a distinguished `none` under a false one, and whose
   `else` yields its right operand exactly for `none`, the derivative denotes the derivative of the then-branch where the
   condition holds and the derivative of the else-branch where it does not -- whatever the condition is (a comparison, a
   constant, a boolean variable). *)
From Coq Require Import List Arith Lia Bool ZArith Sorting.Sorted.
Import ListNotations.
From Exmex.Model Require Import Base EvalBinary Lexer Flat Deep Calc Partial.
From Exmex.Spec Require Import RefSem.
From Exmex.Proofs Require Import PevFold FlSem Vars DeepSem DeepCompile DeepVars DeepSubs C11Main DeepParse DeepOps.
Open Scope nat_scope.

Section Piecewise.
Context {D : Type}.
Variable C : carrier D.
Variable DC : dcarrier D.
Variable tb : optable.
Variable R : D -> D -> Prop.
Hypothesis R_refl : forall a, R a a.
Hypothesis R_sym : forall a b, R a b -> R b a.
Hypothesis R_trans : forall a b c, R a b -> R b c -> R a c.
Hypothesis R_bin : forall k a a' b b', R a a' -> R b b' -> R (binf C k a b) (binf C k a' b').
Hypothesis R_un : forall k a a', R a a' -> R (unf C k a) (unf C k a').
Hypothesis table_assoc : forall k, comm_of tb k = true -> forall a b c, R (binf C k (binf C k a b) c) (binf C k a (binf C k b c)).
Local Notation ddenN rho := (dden C (nlook rho)).
Local Notation closed e := (dclosed (tflagged tb) (dvars e) e).

Variables kif kelse : nat.
Hypothesis if_found : find_op n_if tb 0 = Some kif.
Hypothesis if_bin : is_bin tb kif = true.
Hypothesis else_found : find_op n_else tb 0 = Some kelse.
Hypothesis else_bin : is_bin tb kelse = true.

Lemma consistent_closed all (e : deepex D) : dconsistent (tflagged tb) all e -> closed e.
Proof.
  intros H. pose proof (dconsistent_indexed (tflagged tb) all e H) as Hi. pose proof (proj2 Hi) as Hv. rewrite Hv.
  exact (dindexed_closed (tflagged tb) all e Hi).
Qed.

Local Notation op_ok := (operate_bin_ok C tb R R_refl R_sym R_trans R_bin R_un table_assoc).

(* the pair built for (a if c) else b *)
Theorem piecewise_pair (f g h : valder (D:=D)) :
  closed (vd_val f) -> closed (vd_der f) -> closed (vd_val g) -> closed (vd_val h) -> closed (vd_der h) ->
  exists r1 r2,
    apply_brule C DC tb BCond n_if f g = Ok r1 /\ apply_brule C DC tb BPerOperand n_else r1 h = Ok r2 /\
    closed (vd_val r2) /\ closed (vd_der r2) /\
    forall rho,
      R (ddenN rho (vd_val r2)) (binf C kelse (binf C kif (ddenN rho (vd_val f)) (ddenN rho (vd_val g))) (ddenN rho (vd_val h))) /\
      R (ddenN rho (vd_der r2)) (binf C kelse (binf C kif (ddenN rho (vd_der f)) (ddenN rho (vd_val g))) (ddenN rho (vd_der h))).
Proof.
  intros Hfv Hfd Hgv Hhv Hhd.
  destruct (op_ok (vd_val f) (vd_val g) n_if kif if_found if_bin Hfv Hgv) as (v1 & Ev1 & Cv1 & Dv1).
  destruct (op_ok (vd_der f) (vd_val g) n_if kif if_found if_bin Hfd Hgv) as (d1 & Ed1 & Cd1 & Dd1).
  pose proof (consistent_closed _ _ Cv1) as Hv1. pose proof (consistent_closed _ _ Cd1) as Hd1.
  destruct (op_ok v1 (vd_val h) n_else kelse else_found else_bin Hv1 Hhv) as (v2 & Ev2 & Cv2 & Dv2).
  destruct (op_ok d1 (vd_der h) n_else kelse else_found else_bin Hd1 Hhd) as (d2 & Ed2 & Cd2 & Dd2).
  exists {| vd_val := v1; vd_der := d1 |}, {| vd_val := v2; vd_der := d2 |}.
  split; [cbn [apply_brule]; rewrite Ev1; cbn [bind]; rewrite Ed1; reflexivity|].
  split; [cbn [apply_brule vd_val vd_der]; rewrite Ev2; cbn [bind]; rewrite Ed2; reflexivity|].
  cbn [vd_val vd_der]. split; [exact (consistent_closed _ _ Cv2)|]. split; [exact (consistent_closed _ _ Cd2)|].
  intros rho. split.
  - eapply R_trans; [apply Dv2|]. apply R_bin; [apply Dv1|apply R_refl].
  - eapply R_trans; [apply Dd2|]. apply R_bin; [apply Dd1|apply R_refl].
Qed.

(* data types with a branching `if` / `else` *)
Variable none : D.
Variables istrue isfalse : D -> Prop.
Hypothesis if_true : forall v c, istrue c -> binf C kif v c = v.
Hypothesis if_false : forall v c, isfalse c -> binf C kif v c = none.
Hypothesis else_none : forall v, binf C kelse none v = v.
Hypothesis else_some : forall x v, x <> none -> binf C kelse x v = x.

Theorem piecewise_derivative_is_branchwise (f g h : valder (D:=D)) :
  closed (vd_val f) -> closed (vd_der f) -> closed (vd_val g) -> closed (vd_val h) -> closed (vd_der h) ->
  exists r1 r2,
    apply_brule C DC tb BCond n_if f g = Ok r1 /\ apply_brule C DC tb BPerOperand n_else r1 h = Ok r2 /\
    forall rho,
      (istrue (ddenN rho (vd_val g)) ->
         (ddenN rho (vd_val f) <> none -> R (ddenN rho (vd_val r2)) (ddenN rho (vd_val f))) /\
         (ddenN rho (vd_der f) <> none -> R (ddenN rho (vd_der r2)) (ddenN rho (vd_der f)))) /\
      (isfalse (ddenN rho (vd_val g)) ->
         R (ddenN rho (vd_val r2)) (ddenN rho (vd_val h)) /\ R (ddenN rho (vd_der r2)) (ddenN rho (vd_der h))).
Proof.
  intros Hfv Hfd Hgv Hhv Hhd.
  destruct (piecewise_pair f g h Hfv Hfd Hgv Hhv Hhd) as (r1 & r2 & E1 & E2 & _ & _ & Hden).
  exists r1, r2. split; [exact E1|]. split; [exact E2|]. intros rho. destruct (Hden rho) as [Hv Hd]. split.
  - intros Ht. rewrite (if_true _ _ Ht) in Hv. rewrite (if_true _ _ Ht) in Hd. split; intros Hn.
    + rewrite (else_some _ _ Hn) in Hv. exact Hv.
    + rewrite (else_some _ _ Hn) in Hd. exact Hd.
  - intros Hf. rewrite (if_false _ _ Hf), else_none in Hv. rewrite (if_false _ _ Hf), else_none in Hd. split; assumption.
Qed.
End Piecewise.
