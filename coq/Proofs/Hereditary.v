(* Proofs/Hereditary.v — the variable lists of a deep expression as the constructors build them: at every level the
   list contains the names of the variable nodes of the level and the lists of its nested sub-expressions.
   (The parser builds every parenthesis group with its own, shorter list; reset_vars gives all levels the same list.)
   Preserved by compile; implies that every sub-expression is closed under its own variable list. *)
From Coq Require Import List Arith Lia Bool.
Import ListNotations.
From Exmex.Model Require Import Base EvalBinary Lexer Flat Deep.
From Exmex.Proofs Require Import Vars DeepVars DeepSem DeepCompile DeepSubs CompileRefine.
Open Scope nat_scope.

Section Hereditary.
Context {D : Type}.
Variable C : carrier D.

Fixpoint hc (e : deepex D) : Prop :=
  match e with
  | DE nodes _ _ vars =>
      (fix all (l : list (dnode D)) : Prop :=
         match l with
         | [] => True
         | n :: tl => (match n with DNum _ => True | DVar _ x => In x vars | DExpr c => incl (dvars c) vars /\ hc c end) /\ all tl
         end) nodes
  end.
Definition nhc (vars : list str) (n : dnode D) : Prop :=
  match n with DNum _ => True | DVar _ x => In x vars | DExpr c => incl (dvars c) vars /\ hc c end.
Lemma hc_unfold nodes bops uop vars : hc (DE nodes bops uop vars) <-> Forall (nhc vars) nodes.
Proof.
  cbn [hc].
  induction nodes as [|n tl IH]; [split; [constructor|trivial]|]. split.
  - intros [H1 H2]. constructor; [exact H1|apply IH; exact H2].
  - intros H. inversion H; subst. split; [assumption|apply IH; assumption].
Qed.
Lemma nhc_mono vars vars' n : incl vars vars' -> nhc vars n -> nhc vars' n.
Proof. intros Hi. destruct n as [c|d|i x]; cbn [nhc]; [intros [H1 H2]; split; [exact (incl_tran H1 Hi)|exact H2]|trivial|apply Hi]. Qed.

(* every nested name lies in the list of the level, hence in any list containing it *)
Lemma hc_closed (okop : dbop -> Prop) (okvar : nat -> str -> Prop) (okvars : list str -> Prop) :
  forall e S, dwf okop okvar okvars e -> hc e -> incl (dvars e) S -> dwf okop (names_in S) any_vars e.
Proof.
  induction e as [nodes bops uop vars IH] using deep_ind. intros S Hwf Hh Hi.
  rewrite dwf_unfold in *. rewrite hc_unfold in Hh. destruct Hwf as (Hl & _ & Hf & Hn). cbn [dvars] in Hi.
  split; [exact Hl|]. split; [exact I|]. split; [exact Hf|].
  rewrite Forall_forall in *. intros n Hin. specialize (Hn n Hin). specialize (Hh n Hin).
  destruct n as [c|d|i x]; cbn [nwf nhc] in *; [|exact I|exact (Hi x Hh)].
  destruct Hh as [Hc1 Hc2]. exact (IH c Hin S Hn Hc2 (incl_tran Hc1 Hi)).
Qed.

(* ---- lift_nodes and compile ---- *)
Lemma lift_hc : forall k (e : deepex D), dsize e <= k -> hc e -> hc (lift_nodes e) /\ incl (dvars (lift_nodes e)) (dvars e).
Proof.
  induction k as [|k IH]; intros e Hs Hh; [destruct e; cbn in Hs; lia|].
  destruct e as [nodes bops uop vars]. rewrite hc_unfold in Hh.
  assert (Hnode : forall n, In n nodes -> nhc vars n -> nhc vars (lift_node n)).
  { intros n Hin Hn. destruct n as [c|d|i x]; try exact Hn.
    destruct c as [ns b1 u1 v1]. destruct ns as [|n1 [|n2 nt]]; try exact Hn. destruct u1; [|exact Hn].
    cbn [nhc dvars] in Hn. destruct Hn as [Hv1 Hc]. rewrite hc_unfold in Hc. inversion Hc as [|? ? Hn1 _]; subst.
    cbn [lift_node]. destruct n1 as [e_deeper|d|i x]; [|exact I|exact (Hv1 x Hn1)].
    destruct Hn1 as [Hd1 Hd2].
    assert (Hsd : dsize e_deeper <= k).
    { pose proof (dsize_in nodes bops uop vars _ Hin) as H2. pose proof (dsize_in [DExpr e_deeper] b1 [] v1 e_deeper (or_introl eq_refl)) as H3. lia. }
    destruct (IH e_deeper Hsd Hd2) as [L1 L2]. cbn zeta.
    assert (Hwrap : nhc vars (DExpr (DE [DExpr (lift_nodes e_deeper)] b1 [] v1))).
    { cbn [nhc dvars]. split; [exact Hv1|]. rewrite hc_unfold. constructor; [|constructor]. split; [exact (incl_tran L2 Hd1)|exact L1]. }
    destruct (dnodes (lift_nodes e_deeper)) as [|m [|? ?]]; destruct (duop (lift_nodes e_deeper)); try exact Hwrap.
    cbn [nhc]. split; [exact (incl_tran L2 (incl_tran Hd1 Hv1))|exact L1]. }
  assert (Hmap : hc (DE (map lift_node nodes) bops uop vars) /\ incl (dvars (DE (map lift_node nodes) bops uop vars)) vars).
  { split; [|apply incl_refl]. rewrite hc_unfold. apply Forall_forall. intros m Hm. apply in_map_iff in Hm. destruct Hm as (n & <- & Hn).
    rewrite Forall_forall in Hh. exact (Hnode n Hn (Hh n Hn)). }
  rewrite lift_nodes_unfold. cbn [dvars].
  destruct nodes as [|n [|n' tl]]; try exact Hmap. destruct uop; [|exact Hmap].
  destruct n as [e1|d|i x].
  - inversion Hh as [|? ? Hn _]; subst. destruct Hn as [H1 H2]. split; assumption.
  - split; [rewrite hc_unfold; exact Hh|apply incl_refl].
  - split; [rewrite hc_unfold; exact Hh|apply incl_refl].
Qed.
Lemma dcompile_loop_nhc vars : forall sigma i num_inds (nodes : list (dnode D)) bops declined used nodes' used',
  Forall (nhc vars) nodes -> dcompile_loop C sigma i num_inds nodes bops declined used = Ok (nodes', used') -> Forall (nhc vars) nodes'.
Proof.
  induction sigma as [|b stl IH]; intros i num_inds nodes bops declined used nodes' used' HF H; cbn [dcompile_loop] in H.
  - inversion H; subst. exact HF.
  - destruct (nth_error num_inds i) as [num_idx|]; [|discriminate].
    destruct (nth_error nodes num_idx) as [n1|]; [|discriminate]. destruct (nth_error nodes (S num_idx)) as [n2|]; [|discriminate].
    destruct n1 as [?|a|? ?]; try exact (IH _ _ _ _ _ _ _ _ HF H).
    destruct n2 as [?|b'|? ?]; try exact (IH _ _ _ _ _ _ _ _ HF H).
    destruct (negb _); [|exact (IH _ _ _ _ _ _ _ _ HF H)].
    destruct (nth_error bops b) as [o|]; [|discriminate].
    refine (IH _ _ _ _ _ _ _ _ _ H). rewrite Forall_forall in *. intros x Hx.
    apply In_remove_nth in Hx. apply In_set_nth in Hx. destruct Hx as [->|Hx]; [exact I|exact (HF x Hx)].
Qed.
Theorem dcompile_hc e0 e' : hc e0 -> dcompile C e0 = Ok e' -> hc e'.
Proof.
  intros Hh H. destruct (lift_hc (dsize e0) e0 (le_n _) Hh) as [Hl _]. unfold dcompile in H.
  destruct (lift_nodes e0) as [nodes bops uop vars]. rewrite hc_unfold in Hl.
  destruct (dcompile_loop C _ 0 _ nodes bops _ []) as [[nodes' used]| |] eqn:El; cbn [bind] in H; try discriminate.
  pose proof (dcompile_loop_nhc vars _ _ _ _ _ _ _ _ _ Hl El) as Hn.
  destruct nodes' as [|m [|m' mt]].
  - inversion H; subst. rewrite hc_unfold. exact Hn.
  - destruct m as [c|d|i x]; inversion H; subst; rewrite hc_unfold; try exact Hn. constructor; [exact I|constructor].
  - destruct m; inversion H; subst; rewrite hc_unfold; exact Hn.
Qed.
Lemma new_deepex_hc nodes bops uop e : Forall (fun n => match n with DExpr c => hc c | _ => True end) nodes ->
  new_deepex C nodes bops uop = Ok e -> hc e.
Proof.
  intros Hn H. unfold new_deepex in H.
  assert (H0 : hc (DE nodes bops uop (sort_strs (flat_map node_var_names nodes)))).
  { rewrite hc_unfold. apply Forall_forall. intros n Hin. rewrite Forall_forall in Hn. specialize (Hn n Hin).
    destruct n as [c|d|i x]; cbn [nhc]; [|exact I|].
    - split; [|exact Hn]. intros y Hy. apply sort_strs_spec. apply in_flat_map. exists (DExpr c). split; [exact Hin|exact Hy].
    - apply sort_strs_spec. apply in_flat_map. exists (DVar i x). split; [exact Hin|left; reflexivity]. }
  destruct nodes as [|n nt].
  - destruct bops; [destruct uop|].
    + inversion H; subst. rewrite hc_unfold. constructor.
    + cbn in H. discriminate.
    + destruct (negb _); [discriminate|]. exact (dcompile_hc _ e H0 H).
  - destruct (negb _); [discriminate|]. exact (dcompile_hc _ e H0 H).
Qed.
End Hereditary.
