//! Free term algebra as an exmex data type: the value of an expression is the whole applied tree.
use exmex::{BinOp, MakeOperators, Operator};
use std::cell::RefCell;
use std::fmt;
use std::str::FromStr;

#[derive(PartialEq, Eq, Default, Hash)]
pub enum Term {
    Lit(String),
    Cst(usize),
    Var(usize),
    Un(usize, Box<Term>),
    Bin(usize, Box<Term>, Box<Term>),
    /// what `mem::take` leaves behind; must never reach an operator
    #[default]
    Dflt,
}
thread_local! {
    /// number of clone() calls on Var(i), per i
    pub static CLONES: RefCell<Vec<u64>> = RefCell::new(vec![0; 2048]);
}
pub fn reset_clones() { CLONES.with(|c| c.borrow_mut().iter_mut().for_each(|x| *x = 0)); }
pub fn clones(n: usize) -> Vec<u64> { CLONES.with(|c| c.borrow()[..n.min(2048)].to_vec()) }
impl Clone for Term {
    fn clone(&self) -> Self {
        match self {
            Term::Lit(s) => Term::Lit(s.clone()),
            Term::Cst(k) => Term::Cst(*k),
            Term::Var(i) => { CLONES.with(|c| { let mut c = c.borrow_mut(); if *i < c.len() { c[*i] += 1; } }); Term::Var(*i) }
            Term::Un(k, a) => Term::Un(*k, a.clone()),
            Term::Bin(k, a, b) => Term::Bin(*k, a.clone(), b.clone()),
            Term::Dflt => Term::Dflt,
        }
    }
}
/// Debug is what `unparse` prints for a literal: a literal prints its text, anything else "§"
impl fmt::Debug for Term {
    fn fmt(&self, f: &mut fmt::Formatter<'_>) -> fmt::Result {
        match self { Term::Lit(s) => write!(f, "{s}"), _ => write!(f, "§") }
    }
}
impl Term {
    pub fn pretty(&self) -> String {
        match self {
            Term::Lit(s) => s.clone(),
            Term::Cst(k) => format!("c{k}"),
            Term::Var(i) => format!("v{i}"),
            Term::Un(k, a) => format!("u{k}[{}]", a.pretty()),
            Term::Bin(k, a, b) => format!("b{k}[{},{}]", a.pretty(), b.pretty()),
            Term::Dflt => "DFLT".into(),
        }
    }
    pub fn has_dflt(&self) -> bool {
        match self { Term::Dflt => true, Term::Un(_, a) => a.has_dflt(), Term::Bin(_, a, b) => a.has_dflt() || b.has_dflt(), _ => false }
    }
}
impl FromStr for Term {
    type Err = exmex::ExError;
    fn from_str(s: &str) -> Result<Self, Self::Err> { Ok(Term::Lit(s.to_string())) }
}

#[derive(Clone, Debug, PartialEq)]
pub struct OpSpec { pub repr: String, pub bin: Option<(i64, bool)>, pub unary: bool, pub constant: bool }
impl OpSpec {
    pub fn bin(repr: &str, prio: i64, comm: bool) -> Self { OpSpec { repr: repr.into(), bin: Some((prio, comm)), unary: false, constant: false } }
    pub fn bin_un(repr: &str, prio: i64, comm: bool) -> Self { OpSpec { repr: repr.into(), bin: Some((prio, comm)), unary: true, constant: false } }
    pub fn un(repr: &str) -> Self { OpSpec { repr: repr.into(), bin: None, unary: true, constant: false } }
    pub fn cst(repr: &str) -> Self { OpSpec { repr: repr.into(), bin: None, unary: false, constant: true } }
}
thread_local! { static TABLE: RefCell<&'static [OpSpec]> = RefCell::new(&[]); }
/// installs the operator table for this thread (leaked: expressions borrow the names for 'static)
pub fn set_table(tb: &[OpSpec]) -> &'static [OpSpec] {
    let leaked: &'static [OpSpec] = Box::leak(tb.to_vec().into_boxed_slice());
    TABLE.with(|t| *t.borrow_mut() = leaked);
    leaked
}
pub fn table() -> &'static [OpSpec] { TABLE.with(|t| *t.borrow()) }

macro_rules! mk { ($($k:literal),*) => {
    const BINS: [fn(Term,Term)->Term; 32] = [$(|a,b| Term::Bin($k, Box::new(a), Box::new(b))),*];
    const UNS: [fn(Term)->Term; 32] = [$(|a| Term::Un($k, Box::new(a))),*];
}}
mk!(0,1,2,3,4,5,6,7,8,9,10,11,12,13,14,15,16,17,18,19,20,21,22,23,24,25,26,27,28,29,30,31);
pub const MAX_OPS: usize = 32;

#[derive(Clone, Debug)]
pub struct TF;
impl MakeOperators<Term> for TF {
    fn make<'a>() -> Vec<Operator<'a, Term>> {
        let tb: &'static [OpSpec] = table();
        tb.iter().enumerate().map(|(k, o)| {
            let r: &'static str = o.repr.as_str();
            match (o.bin, o.unary, o.constant) {
                (_, _, true) => Operator::make_constant(r, Term::Cst(k)),
                (Some((prio, c)), false, _) => Operator::make_bin(r, BinOp { apply: BINS[k], prio, is_commutative: c }),
                (Some((prio, c)), true, _) => Operator::make_bin_unary(r, BinOp { apply: BINS[k], prio, is_commutative: c }, UNS[k]),
                (None, true, _) => Operator::make_unary(r, UNS[k]),
                (None, false, false) => unreachable!(),
            }
        }).collect()
    }
}
pub type FE = exmex::FlatEx<Term, TF>;
pub type DE = exmex::DeepEx<'static, Term, TF>;

/// associativity normal form (chains of one flagged operator re-nested to the right)
pub fn anf(t: &Term, tb: &[OpSpec]) -> Term {
    match t {
        Term::Bin(k, _, _) if tb[*k].bin.map(|b| b.1).unwrap_or(false) => {
            let mut leaves = vec![]; collect(t, *k, tb, &mut leaves);
            let mut it = leaves.into_iter().rev(); let mut acc = it.next().unwrap();
            for l in it { acc = Term::Bin(*k, Box::new(l), Box::new(acc)); }
            acc
        }
        Term::Bin(k, a, b) => Term::Bin(*k, Box::new(anf(a, tb)), Box::new(anf(b, tb))),
        Term::Un(k, a) => Term::Un(*k, Box::new(anf(a, tb))),
        x => x.clone(),
    }
}
fn collect(t: &Term, k: usize, tb: &[OpSpec], out: &mut Vec<Term>) {
    match t { Term::Bin(k2, a, b) if *k2 == k => { collect(a, k, tb, out); collect(b, k, tb, out) } x => out.push(anf(x, tb)) }
}

// ---- Gallina printers
pub fn g_str(s: &str) -> String {
    let cps: Vec<String> = s.chars().map(|c| format!("{}", c as u32)).collect();
    format!("[{}]%N", cps.join(";"))
}
pub fn g_term(t: &Term) -> String {
    match t {
        Term::Lit(s) => format!("(Lit {})", g_str(s)),
        Term::Cst(k) => format!("(Cst {k})"),
        Term::Var(i) => format!("(V {i})"),
        Term::Un(k, a) => format!("(Un {k} {})", g_term(a)),
        Term::Bin(k, a, b) => format!("(Bin {k} {} {})", g_term(a), g_term(b)),
        Term::Dflt => "Dflt".into(),
    }
}
pub fn g_table(tb: &[OpSpec]) -> String {
    let specs: Vec<String> = tb.iter().map(|o| format!(
        "{{| repr := {}; obin := {}; ounary := {}; oconst := {} |}}",
        g_str(&o.repr),
        match o.bin { Some((p, c)) => format!("Some {{| prio := ({p})%Z; comm := {c} |}}"), None => "None".into() },
        o.unary, o.constant)).collect();
    format!("[{}]", specs.join(";\n  "))
}
