(* Proofs/CompileRefine.v — FlatEx::compile (index arrays, flag array, used list) refines the tagged-chain machine of
   CompileMachine; hence compiling a flat expression preserves its value for every assignment, modulo R. *)
From Coq Require Import List Arith Lia Bool ZArith Sorted.
Import ListNotations.
From Exmex.Model Require Import Base EvalBinary Lexer Flat.
From Exmex.Proofs Require Import ChainMachine SortedRef SortDesc Bump BumpInst Pev PevFold FlVals FlatPev CompileMachine.
Open Scope nat_scope.

Section ListFacts.
Context {A : Type}.
Lemma nth_error_remove_nth_lt : forall (l : list A) p q, q < p -> nth_error (remove_nth p l) q = nth_error l q.
Proof.
  induction l as [|a l IH]; intros p q H; [destruct p, q; reflexivity|].
  destruct p; [lia|]. destruct q; [reflexivity|]. cbn. apply IH. lia.
Qed.
Lemma nth_error_remove_nth_gt : forall (l : list A) p q, p < q -> nth_error (remove_nth p l) (pred q) = nth_error l q.
Proof.
  induction l as [|a l IH]; intros p q H; [destruct p, q; try reflexivity; destruct q; reflexivity|].
  destruct q; [lia|]. destruct p; [reflexivity|]. cbn [remove_nth pred]. destruct q; [lia|].
  change (nth_error (remove_nth p l) (pred (S q)) = nth_error l (S q)). apply IH. lia.
Qed.
Lemma In_remove_nth : forall (l : list A) p a, In a (remove_nth p l) -> In a l.
Proof.
  induction l as [|b l IH]; intros p a H; [destruct p; exact H|]. destruct p; [right; exact H|].
  cbn in H. destruct H as [H|H]; [left; exact H|right; exact (IH _ _ H)].
Qed.
Lemma NoDup_remove_nth : forall (l : list A) p, NoDup l -> NoDup (remove_nth p l).
Proof.
  induction l as [|b l IH]; intros p H; [destruct p; exact H|]. inversion H as [|? ? Hn Hl]; subst.
  destruct p; [exact Hl|]. cbn. constructor; [|apply IH; exact Hl]. intros Hi. apply Hn. exact (In_remove_nth _ _ _ Hi).
Qed.
Lemma NoDup_nth_notin_firstn : forall (l : list A) p a, NoDup l -> nth_error l p = Some a -> ~ In a (firstn p l).
Proof.
  induction l as [|b l IH]; intros p a H Hn; [destruct p; discriminate|]. inversion H as [|? ? Hnb Hl]; subst.
  destruct p; [intros []|]. cbn in Hn. cbn [firstn]. intros [E|Hi].
  - subst b. apply Hnb. eapply nth_error_In; exact Hn.
  - exact (IH p a Hl Hn Hi).
Qed.
Lemma filter_true (l : list A) (f : A -> bool) : (forall a, f a = true) -> filter f l = l.
Proof. intros H. induction l as [|a l IH]; [reflexivity|]. cbn. rewrite H, IH. reflexivity. Qed.
End ListFacts.

Lemma filter_combine_seq {A} (P : nat -> bool) (d : A) : forall (l : list A) lo,
  map snd (filter (fun p => P (fst p)) (combine (seq lo (length l)) l)) = map (fun j => nth (j - lo) l d) (filter P (seq lo (length l))).
Proof.
  induction l as [|a l IH]; intros lo; [reflexivity|]. cbn [length seq combine filter fst].
  destruct (P lo); cbn [map snd]; rewrite (IH (S lo)).
  - rewrite Nat.sub_diag. cbn [nth]. f_equal. apply map_ext_in. intros j Hj. apply filter_In in Hj. destruct Hj as [Hj _]. apply in_seq in Hj.
    replace (j - lo) with (S (j - S lo)) by lia. reflexivity.
  - apply map_ext_in. intros j Hj. apply filter_In in Hj. destruct Hj as [Hj _]. apply in_seq in Hj.
    replace (j - lo) with (S (j - S lo)) by lia. reflexivity.
Qed.

Section Refine.
Context {D : Type}.
Variable C : carrier D.
Variable ops : list fop.

Local Notation cn := (@cn D).
Local Notation tagged := (@tagged D).
Local Notation cstep := (cstep C ops).
Local Notation crun := (crun C ops).
Local Notation folded := (folded C ops).

Definition cnodes (x : cn) (l : tagged) : list (fnode D) := map cnode (x :: map snd l).
Definition cflags (x : cn) (l : tagged) : list bool := map cdecl (x :: map snd l).

Lemma cstep_pos : forall (l : tagged) (x : cn) p i y, nth_error l p = Some (i, y) -> ~ In i (tids (firstn p l)) ->
  exists a, nth_error (x :: map snd l) p = Some a /\
    match foldable a y with
    | Some (va, vb) => exists x' l', cstep i x l = (x', l', true) /\
        cnodes x' l' = remove_nth (S p) (set_nth p (cnode (folded i va vb)) (cnodes x l)) /\
        cflags x' l' = remove_nth (S p) (cflags x l) /\ tids l' = remove_nth p (tids l)
    | None => exists x' l', cstep i x l = (x', l', false) /\
        cnodes x' l' = cnodes x l /\
        cflags x' l' = set_nth (S p) true (set_nth p true (cflags x l)) /\ tids l' = tids l
    end.
Proof.
  induction l as [|[j z] tl IH]; intros x p i y Hn Hnin; [destruct p; discriminate|].
  destruct p.
  - cbn in Hn. inversion Hn; subst j z. exists x. split; [reflexivity|]. rewrite cstep_head.
    destruct (foldable x y) as [[va vb]|] eqn:Ef.
    + destruct (foldable_spec _ _ _ _ Ef) as (_ & _ & Dx & _).
      exists (folded i va vb), tl. split; [reflexivity|]. unfold cnodes, cflags. cbn. rewrite Dx. auto.
    + exists (mark x), ((i, mark y) :: tl). split; [reflexivity|]. unfold cnodes, cflags. cbn. auto.
  - cbn in Hn. cbn [firstn tids map fst] in Hnin.
    assert (Hne : i <> j) by (intros E; apply Hnin; left; symmetry; exact E).
    destruct (IH z p i y Hn (fun H => Hnin (or_intror H))) as (a & Ha & Hres).
    exists a. split; [exact Ha|]. cbn [CompileMachine.cstep]. destruct (Nat.eqb_spec i j) as [E|_]; [contradiction|].
    destruct (foldable a y) as [[va vb]|].
    + destruct Hres as (x' & l' & Hs & Hn' & Hf' & Hi'). rewrite Hs. exists x, ((j, x') :: l'). split; [reflexivity|].
      unfold cnodes, cflags in *. cbn [map snd fst tids] in *. cbn [set_nth remove_nth]. rewrite Hn', Hf'. unfold tids in Hi'. rewrite Hi'. auto.
    + destruct Hres as (x' & l' & Hs & Hn' & Hf' & Hi'). rewrite Hs. exists x, ((j, x') :: l'). split; [reflexivity|].
      unfold cnodes, cflags in *. cbn [map snd fst tids] in *. cbn [set_nth remove_nth]. rewrite Hn', Hf'. unfold tids in Hi'. rewrite Hi'. auto.
Qed.

(* every operator of the remaining schedule is found at the recorded node position *)
Definition pos_ok (rest : list nat) (k : nat) (num_inds : list nat) (l : tagged) : Prop :=
  forall t j, nth_error rest t = Some j -> exists q, nth_error num_inds (k + t) = Some q /\ nth_error (tids l) q = Some j.

Theorem compile_loop_crun : forall rest k num_inds (x : cn) (l : tagged) used,
  NoDup (tids l) -> NoDup rest -> (forall j, In j (tids l) -> j < length ops) -> pos_ok rest k num_inds l ->
  compile_loop C rest k num_inds (cnodes x l) ops (cflags x l) used =
    let '(x', l', used') := crun rest x l used in Ok (cnodes x' l', used').
Proof.
  induction rest as [|i rest IH]; intros k num_inds x l used NDl NDr Hlt Hpos; [reflexivity|].
  cbn [compile_loop CompileMachine.crun].
  destruct (Hpos 0 i eq_refl) as (q & Hq & Hqi). rewrite Nat.add_0_r in Hq. rewrite Hq.
  unfold tids in Hqi. rewrite nth_error_map in Hqi. destruct (nth_error l q) as [[i' y]|] eqn:Elq; [|discriminate].
  cbn in Hqi. inversion Hqi; subst i'. clear Hqi.
  assert (Hnin : ~ In i (tids (firstn q l))).
  { unfold tids. rewrite <- firstn_map. apply NoDup_nth_notin_firstn; [exact NDl|]. rewrite nth_error_map, Elq. reflexivity. }
  destruct (cstep_pos l x q i y Elq Hnin) as (a & Ha & Hres).
  assert (Hn1 : nth_error (cnodes x l) q = Some (cnode a)) by (unfold cnodes; rewrite nth_error_map, Ha; reflexivity).
  assert (Hn2 : nth_error (cnodes x l) (S q) = Some (cnode y)).
  { unfold cnodes. cbn [map nth_error]. rewrite !nth_error_map, Elq. reflexivity. }
  rewrite Hn1, Hn2.
  assert (Hf1 : nth q (cflags x l) false = cdecl a).
  { apply nth_error_nth. unfold cflags. rewrite nth_error_map, Ha. reflexivity. }
  assert (Hf2 : nth (S q) (cflags x l) false = cdecl y).
  { apply nth_error_nth. unfold cflags. cbn [map nth_error]. rewrite !nth_error_map, Elq. reflexivity. }
  rewrite Hf1, Hf2.
  assert (Hil : i < length ops).
  { apply Hlt. unfold tids. apply in_map_iff. exists (i, y). split; [reflexivity|eapply nth_error_In; exact Elq]. }
  destruct (nth_error ops i) as [o|] eqn:Eo; [|apply nth_error_None in Eo; lia].
  assert (Eopsf : opsf ops i = o) by (unfold opsf; apply nth_error_nth; exact Eo).
  (* the remaining schedule after a step that keeps the chain *)
  assert (Hdecl : forall x' l', cstep i x l = (x', l', false) -> cnodes x' l' = cnodes x l ->
            cflags x' l' = set_nth (S q) true (set_nth q true (cflags x l)) -> tids l' = tids l ->
            compile_loop C rest (S k) num_inds (cnodes x l) ops (set_nth (S q) true (set_nth q true (cflags x l))) used =
            (let '(x'1, l'1, used') := (let '(x'0, l'0, f) := cstep i x l in crun rest x'0 l'0 (if f then used ++ [i] else used)) in
             Ok (cnodes x'1 l'1, used'))).
  { intros x' l' Hs Hn' Hf' Hi'. rewrite Hs, <- Hn', <- Hf'. apply IH.
    - rewrite Hi'. exact NDl.
    - inversion NDr; assumption.
    - rewrite Hi'. exact Hlt.
    - intros t j Ht. destruct (Hpos (S t) j Ht) as (q' & H1 & H2). exists q'. rewrite Hi'. split; [|exact H2].
      replace (S k + t) with (k + S t) by lia. exact H1. }
  unfold foldable in Hres.
  destruct (nkind (cnode a)) as [va|] eqn:Ka.
  2:{ destruct Hres as (x' & l' & Hs & Hn' & Hf' & Hi'). exact (Hdecl x' l' Hs Hn' Hf' Hi'). }
  destruct (nkind (cnode y)) as [vb|] eqn:Ky.
  2:{ destruct Hres as (x' & l' & Hs & Hn' & Hf' & Hi'). exact (Hdecl x' l' Hs Hn' Hf' Hi'). }
  destruct (negb (cdecl a || cdecl y)) eqn:Ed.
  2:{ destruct Hres as (x' & l' & Hs & Hn' & Hf' & Hi'). exact (Hdecl x' l' Hs Hn' Hf' Hi'). }
  destruct Hres as (x' & l' & Hs & Hn' & Hf' & Hi'). rewrite Hs.
  unfold CompileMachine.folded in Hn'. cbn [cnode] in Hn'. rewrite Eopsf in Hn'. rewrite <- Hn', <- Hf'.
  apply IH.
  - rewrite Hi'. apply NoDup_remove_nth. exact NDl.
  - inversion NDr; assumption.
  - intros j Hj. rewrite Hi' in Hj. apply Hlt. exact (In_remove_nth _ _ _ Hj).
  - intros t j Ht. destruct (Hpos (S t) j Ht) as (q' & H1 & H2).
    assert (Hne : j <> i).
    { intros E. subst j. inversion NDr as [|? ? Hni _]; subst. apply Hni. eapply nth_error_In; exact Ht. }
    assert (Hqq : q' <> q).
    { intros E. subst q'. unfold tids in H2. rewrite nth_error_map, Elq in H2. cbn in H2. congruence. }
    exists (if Nat.ltb q q' then pred q' else q'). split.
    + replace (S k + t) with (k + S t) by lia. rewrite nth_error_map, H1. reflexivity.
    + rewrite Hi'. destruct (Nat.ltb_spec q q') as [Hlt'|Hge].
      * rewrite nth_error_remove_nth_gt by exact Hlt'. exact H2.
      * rewrite nth_error_remove_nth_lt by lia. exact H2.
Qed.

(* the variable nodes are untouched *)
Lemma cstep_vars i : forall (l : tagged) (x : cn),
  let '(x', l', _) := cstep i x l in var_nodes (cnodes x' l') = var_nodes (cnodes x l).
Proof.
  induction l as [|[j y] tl IH]; intros x; [reflexivity|]. cbn [CompileMachine.cstep].
  destruct (Nat.eqb i j).
  - destruct (foldable x y) as [[va vb]|] eqn:Ef; [|reflexivity].
    destruct (foldable_spec _ _ _ _ Ef) as (Kx & Ky & _ & _).
    unfold cnodes, var_nodes. cbn [map snd flat_map CompileMachine.folded cnode nkind]. rewrite Kx, Ky. reflexivity.
  - specialize (IH y). destruct (cstep i y tl) as [[y' tl'] f].
    unfold cnodes, var_nodes in *. cbn [map snd flat_map] in *. rewrite IH. reflexivity.
Qed.
Lemma crun_vars : forall rest (x : cn) (l : tagged) used,
  let '(x', l', _) := crun rest x l used in var_nodes (cnodes x' l') = var_nodes (cnodes x l).
Proof.
  induction rest as [|i rest IH]; intros x l used; [reflexivity|]. cbn [CompileMachine.crun].
  pose proof (cstep_vars i l x) as H1. destruct (cstep i x l) as [[x1 l1] f].
  specialize (IH x1 l1 (if f then used ++ [i] else used)). destruct (crun rest x1 l1 _) as [[x2 l2] u2]. congruence.
Qed.
End Refine.
