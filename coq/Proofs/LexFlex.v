(* Proofs/LexFlex.v — the tokenizer on TEXT renderings with free spacing: every token followed by any number of spaces
   (also none), where a number or an operator name must be followed by a terminator -- a space, a parenthesis, an opening
   brace -- or by the end of the text.  Generalises Proofs/LexSpaced.v (exactly one space behind every token): `f(x)`-style
   calls, `({x}+{y})*2 `, several spaces, no trailing space. *)
From Coq Require Import List Arith Lia Bool ZArith NArith.
Import ListNotations.
From Exmex.Model Require Import Base Lexer.
From Exmex.Proofs Require Import Vars CommaRewrite LongestMatch LexSpaced.
Open Scope nat_scope.

Section LexFlex.
Context {D : Type}.
Variable C : carrier D.
Variable tb : optable.
Variable is_literal : str -> option nat.
Local Notation ttext := (ttext C tb).
Local Notation lex := (lex C tb is_literal).

(* what may follow a number or an operator name *)
Definition terminator (c : N) : bool := N.eqb c SPACE || N.eqb c LPAR || N.eqb c RPAR || N.eqb c LBRACE.
Definition tstart (rest : str) : Prop := rest = [] \/ exists c r, rest = c :: r /\ terminator c = true.

(* what makes a token readable in front of a terminator or the end of the text *)
Definition flexable (t : token D) : Prop :=
  match t with
  | TOpen | TClose => True
  | TVar x => forallb (fun c => negb (N.eqb c RBRACE)) x = true
  | TNum d =>
      (exists c tl, show C d = c :: tl /\ special c = false) /\
      (forall rest, tstart rest -> is_literal (show C d ++ rest) = Some (length (show C d))) /\
      lit C (show C d) = Some d
  | TOp k =>
      (exists c tl, repr (op_of tb k) = c :: tl /\ special c = false) /\
      (forall rest, tstart rest -> is_literal (repr (op_of tb k) ++ rest) = None) /\
      (forall rest, tstart rest -> find_ops tb (repr (op_of tb k) ++ rest) = Some k) /\
      oconst (op_of tb k) = false
  end.

(* the rendering: every token with the number of spaces behind it *)
Definition spaces (n : nat) : str := repeat SPACE n.
Fixpoint ftext (items : list (token D * nat)) : str :=
  match items with [] => [] | (t, n) :: tl => ttext t ++ spaces n ++ ftext tl end.
Definition needs_term (t : token D) : bool := match t with TNum _ | TOp _ => true | _ => false end.
(* behind a number or an operator name: a space, or a token that starts with a parenthesis or a brace, or the end *)
Fixpoint gaps_ok (items : list (token D * nat)) : Prop :=
  match items with
  | [] => True
  | (t, n) :: tl => (needs_term t = true -> tstart (spaces n ++ ftext tl)) /\ gaps_ok tl
  end.

Lemma lex_spaces : forall n fuel s, lex (n + fuel) (spaces n ++ s) = lex fuel s.
Proof.
  induction n as [|n IH]; intros fuel s; [reflexivity|]. cbn [spaces repeat app Nat.add]. rewrite lex_cons. change (N.eqb SPACE SPACE) with true. cbn match. exact (IH fuel s).
Qed.

Definition cost (items : list (token D * nat)) : nat := fold_right (fun p acc => S (snd p) + acc) 0 items.

Lemma lex_flex (s' : str) : forall (items : list (token D * nat)) fuel,
  Forall flexable (map fst items) -> gaps_ok items -> (items <> [] -> True) ->
  (forall t n, last items (TOpen, 0) = (t, n) -> items <> [] -> needs_term t = true -> tstart (spaces n ++ s')) ->
  lex (cost items + fuel) (ftext items ++ s') = (let '(evs, fin) := lex fuel s' in (map event_of_token (map fst items) ++ evs, fin)).
Proof.
  induction items as [|[t n] items IH]; intros fuel HF Hg _ Hlast; [cbn [cost fold_right ftext map app Nat.add]; destruct (lex fuel s'); reflexivity|].
  cbn [map fst] in HF. inversion HF as [|? ? Ht Hts]; subst. cbn [gaps_ok] in Hg. destruct Hg as [Hg1 Hg2].
  assert (Hrest : lex (n + (cost items + fuel)) (spaces n ++ (ftext items ++ s')) = (let '(evs, fin) := lex fuel s' in (map event_of_token (map fst items) ++ evs, fin))).
  { rewrite lex_spaces. apply IH; [exact Hts|exact Hg2|trivial|].
    intros t0 n0 Hl Hne. apply (Hlast t0 n0); [|discriminate]. destruct items as [|p items']; [congruence|]. exact Hl. }
  (* what follows the token is a terminator (when the token needs one) *)
  assert (Hterm : needs_term t = true -> tstart (spaces n ++ (ftext items ++ s'))).
  { intros Hn. destruct items as [|p items'].
    - cbn [ftext app]. exact (Hlast t n eq_refl ltac:(discriminate) Hn).
    - specialize (Hg1 Hn). destruct Hg1 as [E|(c & r & E & Hc)].
      + exfalso. destruct n; [|discriminate]. cbn [spaces repeat app] in E. destruct p as [t1 n1]. cbn [ftext] in E.
        apply app_eq_nil in E. destruct E as [E _]. inversion Hts as [|? ? Ht1 _]; subst.
        destruct t1; cbn [LexSpaced.ttext] in E; try discriminate.
        * cbn [flexable fst] in Ht1. destruct Ht1 as ((c0 & tl0 & Es & _) & _). rewrite Es in E. discriminate.
        * cbn [flexable fst] in Ht1. destruct Ht1 as ((c0 & tl0 & Es & _) & _). rewrite Es in E. discriminate.
      + right. exists c, (r ++ s'). split; [|exact Hc]. rewrite app_assoc, E. reflexivity. }
  cbn [cost fold_right snd ftext]. fold (cost items). rewrite <- !app_assoc.
  replace (S n + cost items + fuel) with (S (n + (cost items + fuel))) by lia.
  destruct (lex fuel s') as [evs fin] eqn:El.
  destruct t as [d| | |k|x]; cbn [LexSpaced.ttext flexable map fst event_of_token needs_term] in *.
  - destruct Ht as ((c & tl & Es & Hc) & Hl & Hlit). destruct (special_false c Hc) as (H1 & H2 & H3 & H4 & H5).
    rewrite Es. cbn [app]. rewrite lex_cons, H1, H2, H3, H4, H5.
    change (c :: tl ++ spaces n ++ ftext items ++ s') with ((c :: tl) ++ spaces n ++ ftext items ++ s'). rewrite <- Es, (Hl _ (Hterm eq_refl)), firstn_app_len, Hlit.
    destruct (length (show C d)) as [|m] eqn:En; [rewrite Es in En; discriminate|]. rewrite <- En, skipn_app_len, Hrest. reflexivity.
  - cbn [app]. rewrite lex_cons. change (N.eqb LPAR SPACE) with false. change (N.eqb LPAR LPAR) with true. cbn match. rewrite Hrest. reflexivity.
  - cbn [app]. rewrite lex_cons. change (N.eqb RPAR SPACE) with false. change (N.eqb RPAR LPAR) with false. change (N.eqb RPAR RPAR) with true. cbn match. rewrite Hrest. reflexivity.
  - destruct Ht as ((c & tl & Es & Hc) & Hl & Hf & Hconst). destruct (special_false c Hc) as (H1 & H2 & H3 & H4 & H5).
    rewrite Es. cbn [app]. rewrite lex_cons, H1, H2, H3, H4, H5.
    change (c :: tl ++ spaces n ++ ftext items ++ s') with ((c :: tl) ++ spaces n ++ ftext items ++ s'). rewrite <- Es, (Hl _ (Hterm eq_refl)), (Hf _ (Hterm eq_refl)), Hconst.
    destruct (length (repr (op_of tb k))) as [|m] eqn:En; [rewrite Es in En; discriminate|]. rewrite <- En, skipn_app_len, Hrest. reflexivity.
  - cbn [app]. rewrite lex_cons.
    change (N.eqb LBRACE SPACE) with false. change (N.eqb LBRACE LPAR) with false. change (N.eqb LBRACE RPAR) with false.
    change (N.eqb LBRACE COMMA) with false. change (N.eqb LBRACE LBRACE) with true. cbn match.
    rewrite <- app_assoc. cbn [app]. rewrite (take_until_brace x _ Ht).
    replace (skipn (S (length x)) (x ++ RBRACE :: spaces n ++ ftext items ++ s')) with (spaces n ++ ftext items ++ s').
    2:{ clear. induction x as [|c x IHx]; [reflexivity|exact IHx]. }
    rewrite Hrest. reflexivity.
Qed.

Lemma ftext_len (items : list (token D * nat)) : Forall flexable (map fst items) -> cost items <= length (ftext items).
Proof.
  induction items as [|[t n] items IH]; intros HF; [cbn; lia|]. cbn [map fst] in HF. inversion HF as [|? ? Ht Hts]; subst.
  cbn [cost fold_right snd ftext]. fold (cost items). rewrite !app_length. unfold spaces. rewrite repeat_length. specialize (IH Hts).
  assert (1 <= length (ttext t)); [|lia].
  destruct t as [d| | |k|x]; cbn [LexSpaced.ttext flexable length] in *; try lia.
  - destruct Ht as ((c & tl & Es & _) & _). rewrite Es. cbn. lia.
  - destruct Ht as ((c & tl & Es & _) & _). rewrite Es. cbn. lia.
Qed.

Theorem tokenize_flex (items : list (token D * nat)) : Forall flexable (map fst items) -> gaps_ok items ->
  tokenize C tb is_literal (ftext items) = Ok (map fst items).
Proof.
  intros HF Hg. rewrite (tokenize_factors C tb is_literal).
  pose proof (ftext_len items HF) as Hlen.
  assert (Hlast : forall t n, last items (TOpen, 0) = (t, n) -> items <> [] -> needs_term t = true -> tstart (spaces n ++ [])).
  { (* the last token is followed by spaces and the end of the text *)
    intros t n _ _ _. destruct n; [left; reflexivity|right; exists SPACE, (spaces n ++ []); split; reflexivity]. }
  pose proof (lex_flex [] items (S (length (ftext items)) - cost items) HF Hg (fun _ => I) Hlast) as H. rewrite app_nil_r in H.
  replace (cost items + (S (length (ftext items)) - cost items)) with (S (length (ftext items))) in H by lia.
  rewrite H. destruct (S (length (ftext items)) - cost items) as [|f] eqn:Ef; [lia|]. cbn [CommaRewrite.lex]. rewrite app_nil_r. apply apply_plain_all.
Qed.

(* a character at which no token starts, behind a readable prefix with free spacing (a number or operator name at the
   end of the prefix being followed by at least one space): the tokenizer reports an error *)
Theorem tokenize_unknown_char_flex (items : list (token D * nat)) (s : str) :
  Forall flexable (map fst items) -> gaps_ok items ->
  (forall t n, last items (TOpen, 0) = (t, n) -> items <> [] -> needs_term t = true -> 1 <= n) ->
  unknown_start tb is_literal s ->
  tokenize C tb is_literal (ftext items ++ s) = Err E_TOKENIZE.
Proof.
  intros HF Hg Hl Hs. rewrite (tokenize_factors C tb is_literal).
  destruct s as [|c tl]; [destruct Hs|]. destruct Hs as (Hc & Hlit & Hf & Hv). destruct (special_false c Hc) as (H1 & H2 & H3 & H4 & H5).
  pose proof (ftext_len items HF) as Hlen.
  assert (Hlast : forall t n, last items (TOpen, 0) = (t, n) -> items <> [] -> needs_term t = true -> tstart (spaces n ++ c :: tl)).
  { intros t n E Hne Hn. specialize (Hl t n E Hne Hn). destruct n as [|n]; [lia|]. right. exists SPACE, (spaces n ++ c :: tl). split; reflexivity. }
  pose proof (lex_flex (c :: tl) items (S (length (ftext items ++ c :: tl)) - cost items) HF Hg (fun _ => I) Hlast) as H.
  replace (cost items + (S (length (ftext items ++ c :: tl)) - cost items)) with (S (length (ftext items ++ c :: tl))) in H by (rewrite app_length; lia).
  rewrite H. destruct (S (length (ftext items ++ c :: tl)) - cost items) as [|f] eqn:Ef; [rewrite app_length in Ef; cbn [length] in Ef; lia|].
  rewrite lex_cons, H1, H2, H3, H4, H5, Hlit, Hf, Hv. rewrite app_nil_r.
  destruct (apply_plain (map fst items) [] (Some E_TOKENIZE) [] 0%Z) as [d' Hp]. rewrite app_nil_r in Hp. rewrite Hp. reflexivity.
Qed.

(* the spaced rendering of LexSpaced is the instance with one space everywhere *)
Lemma stext_is_ftext (ts : list (token D)) : stext C tb ts = ftext (map (fun t => (t, 1)) ts).
Proof. induction ts as [|t ts IH]; [reflexivity|]. unfold stext in *. cbn [flat_map map ftext]. rewrite IH, <- app_assoc. reflexivity. Qed.

(* ---- the operator condition, from the table: distinct names without a terminator character ---- *)
Lemma term_cases c : terminator c = true -> c = SPACE \/ c = LPAR \/ c = RPAR \/ c = LBRACE.
Proof.
  unfold terminator. intros H. repeat (apply orb_prop in H; destruct H as [H|H]); apply N.eqb_eq in H; auto.
Qed.
Lemma term_not_ident c : terminator c = true -> is_ident_char c = false /\ is_ident_start c = false.
Proof. intros H. destruct (term_cases c H) as [E|[E|[E|E]]]; subst c; split; reflexivity. Qed.
Lemma prefix_before_term : forall (p r rest : str), forallb (fun c => negb (terminator c)) p = true -> tstart rest ->
  is_prefix p (r ++ rest) = true -> is_prefix p r = true.
Proof.
  induction p as [|x p IH]; intros r rest Hp Hr H; [reflexivity|].
  cbn [forallb] in Hp. apply andb_prop in Hp. destruct Hp as [Hx Hp].
  destruct r as [|y r]; cbn [app is_prefix] in *.
  - exfalso. destruct Hr as [->|(c & r0 & -> & Hc)]; [discriminate|]. cbn [is_prefix] in H. apply andb_prop in H. destruct H as [H _].
    apply N.eqb_eq in H. subst c. rewrite Hc in Hx. discriminate.
  - apply andb_prop in H. destruct H as [H1 H2]. rewrite H1. exact (IH r rest Hp Hr H2).
Qed.
Lemma not_exact_with_term (r : str) c : terminator c = true -> is_exact_var_name (r ++ [c]) = false.
Proof.
  intros Hc. destruct (term_not_ident c Hc) as [H1 H2].
  destruct r as [|d r]; [cbn [app is_exact_var_name]; rewrite H2; reflexivity|]. cbn [app is_exact_var_name]. apply andb_false_intro2.
  induction r as [|e r IH]; [cbn [app forallb]; rewrite H1; reflexivity|]. cbn [app forallb]. rewrite IH. apply andb_false_r.
Qed.
Theorem find_ops_flex (k : nat) (rest : str) :
  (forall i j, i < length tb -> j < length tb -> repr (op_of tb i) = repr (op_of tb j) -> i = j) ->
  (forall i, i < length tb -> forallb (fun c => negb (terminator c)) (repr (op_of tb i)) = true) ->
  k < length tb -> tstart rest -> find_ops tb (repr (op_of tb k) ++ rest) = Some k.
Proof.
  intros Hdist Hnot Hk Hr. set (r := repr (op_of tb k)). set (text := r ++ rest).
  assert (Hmk : op_matches tb text k = true).
  { unfold op_matches. fold r. unfold text. rewrite prefix_app_self. cbn [andb]. rewrite skipn_app_len.
    destruct Hr as [->|(c & r0 & -> & Hc)]; [apply orb_true_r|]. rewrite (not_exact_with_term r c Hc). apply orb_true_r. }
  destruct (find_ops tb text) as [k0|] eqn:Ef.
  - destruct (find_ops_longest tb text k0 Ef) as [Hm0 Hlong].
    assert (Hk0 : k0 < length tb).
    { unfold find_ops in Ef. apply find_some in Ef. destruct Ef as [Hin _]. exact (proj1 (proj2 (ops_sorted_spec tb) k0) Hin). }
    pose proof (Hlong k Hk Hmk) as Hlen. unfold op_matches in Hm0. apply andb_prop in Hm0. destruct Hm0 as [Hp0 _].
    pose proof (prefix_before_term _ r rest (Hnot k0 Hk0) Hr Hp0) as Hp.
    f_equal. apply Hdist; [exact Hk0|exact Hk|]. exact (prefix_same_length _ _ Hp Hlen).
  - exfalso. unfold find_ops in Ef. pose proof (find_none _ _ Ef k (proj2 (proj2 (ops_sorted_spec tb) k) Hk)) as H. rewrite Hmk in H. discriminate.
Qed.
End LexFlex.
