(* Proofs/LexerFacts.v — facts about the tokenizer for EVERY operator table (C13). *)
From Coq Require Import List Arith Lia Bool NArith ZArith.
Import ListNotations.
From Exmex.Model Require Import Base Lexer.
From Exmex.Proofs Require Import Vars.
Open Scope nat_scope.

Lemma is_prefix_app p s : is_prefix p (p ++ s) = true.
Proof. induction p as [|x p IH]; cbn; [reflexivity|]. rewrite N.eqb_refl. exact IH. Qed.
Lemma is_prefix_spec p s : is_prefix p s = true <-> exists r, s = p ++ r.
Proof.
  revert s; induction p as [|x p IH]; intros s; cbn.
  - split; [intros _; exists s; reflexivity|reflexivity].
  - destruct s as [|y s]; [split; [discriminate|intros [r Hr]; discriminate]|].
    rewrite andb_true_iff, N.eqb_eq, IH. split.
    + intros [-> [r ->]]. exists r. reflexivity.
    + intros [r Hr]. inversion Hr; subst. split; [reflexivity|exists r; reflexivity].
Qed.

Lemma take_while_app_stop (f : N -> bool) (w : str) (c : N) (rest : str) :
  forallb f w = true -> f c = false -> take_while f (w ++ c :: rest) = w.
Proof.
  induction w as [|x w IH]; cbn; intros Hw Hc; [rewrite Hc; reflexivity|].
  apply andb_prop in Hw. destruct Hw as [Hx Hw]. rewrite Hx, IH by assumption. reflexivity.
Qed.
Lemma take_while_all (f : N -> bool) (w : str) : forallb f w = true -> take_while f w = w.
Proof. induction w as [|x w IH]; cbn; intros Hw; [reflexivity|]. apply andb_prop in Hw. destruct Hw as [Hx Hw]. rewrite Hx, IH by assumption. reflexivity. Qed.

(* ---- number literals: digits with at most one dot; a lone dot is not a number ---- *)
Definition num_char (c : N) : bool := is_digit c || N.eqb c DOT.
Definition count_dots (s : str) : nat := length (filter (N.eqb DOT) s).
Theorem is_numeric_text_spec (lit : str) (rest : str) :
  lit <> [] -> forallb num_char lit = true -> (match rest with [] => True | c :: _ => num_char c = false end) ->
  is_numeric_text (lit ++ rest) =
    if (Nat.ltb 1 (length lit) && Nat.ltb (count_dots lit) 2) || (Nat.eqb (length lit) 1 && Nat.eqb (count_dots lit) 0)
    then Some (length lit) else None.
Proof.
  intros Hne Hall Hrest. unfold is_numeric_text.
  assert (Htw : take_while (fun c => is_digit c || N.eqb c DOT) (lit ++ rest) = lit).
  { destruct rest as [|c rest]; [rewrite app_nil_r; apply take_while_all; exact Hall|apply take_while_app_stop; assumption]. }
  rewrite Htw. reflexivity.
Qed.
(* consequences spelled out *)
Corollary single_dot_is_not_a_number rest : (match rest with [] => True | c :: _ => num_char c = false end) ->
  is_numeric_text (DOT :: rest) = None.
Proof. intros H. apply (is_numeric_text_spec [DOT] rest); [discriminate|reflexivity|exact H]. Qed.

Section Lexer.
Context {D : Type}.
Variable C : carrier D.
Variable tb : optable.
Variable is_literal : str -> option nat.

(* ---- anything in curly braces is one variable, whatever the characters ---- *)
Theorem brace_is_one_var (name rest : str) (fuel : nat) rres pending depth :
  forallb (fun c => negb (N.eqb c RBRACE)) name = true ->
  tokenize_go C tb is_literal (S fuel) (LBRACE :: name ++ RBRACE :: rest) rres pending depth
  = tokenize_go C tb is_literal fuel rest (TVar name :: rres) pending depth.
Proof.
  intros Hn. cbn [tokenize_go].
  change (N.eqb LBRACE SPACE) with false. change (N.eqb LBRACE LPAR) with false. change (N.eqb LBRACE RPAR) with false.
  change (N.eqb LBRACE COMMA) with false. change (N.eqb LBRACE LBRACE) with true. cbn iota.
  rewrite (take_while_app_stop (fun c => negb (N.eqb c RBRACE)) name RBRACE rest Hn) by (rewrite N.eqb_refl; reflexivity).
  replace (skipn (S (length name)) (name ++ RBRACE :: rest)) with rest; [reflexivity|].
  clear. induction name as [|x name IH]; [reflexivity|exact IH].
Qed.
(* an unclosed brace takes the rest of the text *)
Theorem unclosed_brace (name : str) (fuel : nat) rres pending depth :
  forallb (fun c => negb (N.eqb c RBRACE)) name = true ->
  tokenize_go C tb is_literal (S (S fuel)) (LBRACE :: name) rres pending depth = Ok (rev (TVar name :: rres)).
Proof.
  intros Hn. cbn [tokenize_go].
  change (N.eqb LBRACE SPACE) with false. change (N.eqb LBRACE LPAR) with false. change (N.eqb LBRACE RPAR) with false.
  change (N.eqb LBRACE COMMA) with false. change (N.eqb LBRACE LBRACE) with true. cbn iota.
  rewrite (take_while_all _ name Hn).
  replace (skipn (S (length name)) name) with (@nil N); [reflexivity|].
  clear. induction name as [|x name IH]; [reflexivity|exact IH].
Qed.

(* ---- a sign (an operator that is binary and unary) is unary exactly at the start, after an operator
        or after an opening parenthesis ---- *)
Theorem sign_unary_iff (k : nat) (left : option (token D)) :
  has_bin tb k = true -> has_un tb k = true ->
  is_operator_binary tb k left =
    Ok (match left with
        | None | Some (TOp _) | Some TOpen => false
        | Some (TNum _) | Some (TVar _) | Some TClose => true
        end).
Proof.
  intros Hb Hu. unfold is_operator_binary. rewrite Hb, Hu. cbn.
  destruct left as [[d| | |j|x]|]; reflexivity.
Qed.
Theorem unary_only_is_never_binary (k : nat) (left : option (token D)) :
  has_bin tb k = false -> is_operator_binary tb k left = Ok false.
Proof. intros Hb. unfold is_operator_binary. rewrite Hb. reflexivity. Qed.

(* ---- identifiers that merely start with (or are a truncation of) a unary-operator or constant name ---- *)
Definition ident (w : str) : Prop := match w with c :: tl => is_ident_start c = true /\ forallb is_ident_char tl = true | [] => False end.

Lemma find_none {A} (f : A -> bool) l : (forall x, f x = false) -> find f l = None.
Proof. intros H. induction l as [|x l IH]; cbn; [reflexivity|]. rewrite H. exact IH. Qed.

(* no operator matches at the start of  w c rest  when: no binary-capable name is a prefix of the text, and every
   other name that is a prefix of the text is a PROPER prefix of the identifier w (so the look-ahead sees an
   identifier character) *)
Theorem no_op_matches_identifier (w : str) (rest : str) :
  ident w ->
  (forall k, has_bin tb k = true -> is_prefix (repr (op_of tb k)) (w ++ rest) = false) ->
  (forall k, has_bin tb k = false -> is_prefix (repr (op_of tb k)) (w ++ rest) = true ->
             exists x y, w = repr (op_of tb k) ++ x :: y /\ repr (op_of tb k) <> []) ->
  find_ops tb (w ++ rest) = None.
Proof.
  intros Hid Hbin Hun. unfold find_ops. apply find_none. intros k. unfold op_matches.
  destruct (is_prefix (repr (op_of tb k)) (w ++ rest)) eqn:Ep; [|reflexivity]. cbn [andb].
  destruct (has_bin tb k) eqn:Eb; [rewrite (Hbin k Eb) in Ep; discriminate|]. cbn [orb].
  destruct (Hun k Eb Ep) as (x & y & Hw & Hne).
  rewrite Hw, <- app_assoc. cbn [app].
  replace (skipn (length (repr (op_of tb k))) (repr (op_of tb k) ++ x :: y ++ rest)) with (x :: y ++ rest).
  2:{ clear. induction (repr (op_of tb k)) as [|a r IH]; [reflexivity|exact IH]. }
  (* r ++ [x] is an identifier: r is a non-empty prefix of the identifier w *)
  destruct (repr (op_of tb k)) as [|a r] eqn:Er; [congruence|].
  unfold ident in Hid. rewrite Hw in Hid. cbn [app] in Hid. destruct Hid as [Ha Htl].
  cbn [is_exact_var_name app]. rewrite Ha. cbn [andb].
  rewrite forallb_app in Htl. apply andb_prop in Htl. destruct Htl as [Hr Hxy].
  cbn [forallb] in Hxy. apply andb_prop in Hxy. destruct Hxy as [Hx _].
  rewrite forallb_app, Hr. cbn. rewrite Hx. reflexivity.
Qed.

(* hence the identifier is read as ONE variable (sin4, PI5, Erwin, expx, ...) *)
Theorem extended_name_is_variable (w : str) (c : N) (rest : str) (fuel : nat) rres pending depth :
  ident w -> is_ident_char c = false ->
  is_literal (w ++ c :: rest) = None ->
  (forall k, has_bin tb k = true -> is_prefix (repr (op_of tb k)) (w ++ c :: rest) = false) ->
  (forall k, has_bin tb k = false -> is_prefix (repr (op_of tb k)) (w ++ c :: rest) = true ->
             exists x y, w = repr (op_of tb k) ++ x :: y /\ repr (op_of tb k) <> []) ->
  tokenize_go C tb is_literal (S fuel) (w ++ c :: rest) rres pending depth
  = tokenize_go C tb is_literal fuel (c :: rest) (TVar w :: rres) pending depth.
Proof.
  intros Hid Hc Hlit Hbin Hun.
  pose proof (no_op_matches_identifier w (c :: rest) Hid Hbin Hun) as Hfind.
  destruct w as [|a w]; [destruct Hid|]. destruct Hid as [Ha Hw].
  cbn [tokenize_go app].
  assert (Hna : forall z, is_ident_start z = true -> N.eqb z SPACE = false /\ N.eqb z LPAR = false /\ N.eqb z RPAR = false /\ N.eqb z COMMA = false /\ N.eqb z LBRACE = false).
  { intros z Hz. unfold is_ident_start, in_range, SPACE, LPAR, RPAR, COMMA, LBRACE in *.
    repeat split; apply N.eqb_neq; intro; subst; vm_compute in Hz; discriminate. }
  destruct (Hna a Ha) as (H1 & H2 & H3 & H4 & H5). rewrite H1, H2, H3, H4, H5.
  change (a :: w ++ c :: rest) with ((a :: w) ++ c :: rest). rewrite Hlit, Hfind.
  cbn [match_var_name app]. rewrite Ha.
  rewrite (take_while_app_stop is_ident_char w c rest Hw Hc).
  replace (skipn (length (a :: w)) (a :: w ++ c :: rest)) with (c :: rest); [reflexivity|].
  clear. cbn [length skipn]. induction w as [|x w IH]; [reflexivity|exact IH].
Qed.
End Lexer.
