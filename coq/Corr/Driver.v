(* Corr/Driver.v — the Coq side of the correspondence check.  The harness runs *programs* (finite
   histories of public API calls) on the implementation and writes, per case, the program and what
   the implementation answered to each query; `mismatches` evaluates the model on the same program
   and returns the (case, query) positions where the answers differ. *)
From Exmex.Model Require Import Base EvalBinary Lexer Flat Deep Convert Calc Partial.
Open Scope nat_scope.

Inductive prog :=
| PFlat (text : str)                     (* FlatEx::parse *)
| PFlatWo (text : str)                   (* FlatEx::parse_wo_compile *)
| PDeep (text : str)                     (* DeepEx::parse *)
| PToDeep (p : prog)                     (* Express::to_deepex *)
| PToFlat (p : prog)                     (* FlatEx::from_deepex(p.to_deepex()?) *)
| PCompile (p : prog)                    (* FlatEx::compile *)
| PBin (name : str) (p q : prog)         (* Calculate::operate_binary *)
| PUn (name : str) (p : prog)            (* Calculate::operate_unary *)
| PSubs (p : prog) (m : list (str * prog))    (* Calculate::subs *)
| PReFlat (p : prog)                     (* FlatEx::parse(p.unparse()) *)
| PReDeep (p : prog)                     (* DeepEx::parse(p.unparse()) *)
| PArith (op : nat) (p q : prog)         (* DeepEx + - * / pow (0..4) on the deep forms *)
| PNeg (p : prog)                        (* -DeepEx *)
| PPartial (idxs : list nat) (mode : nat) (p : prog).   (* Differentiate::partial_iter_relaxed; mode 0 = Error, 1 = PerOperand, 2 = None *)

Inductive query :=
| QVars                                   (* var_names() *)
| QEval (n : nat)                         (* eval(&[v0..v(n-1)]) with symbolic values *)
| QRelaxed (n : nat)                      (* eval_relaxed *)
| QEvalVec (n : nat)                      (* eval_vec: value and clone count per variable *)
| QUnparse                                (* unparse() *)
| QBinReprs | QUnReprs | QOpReprs.

Inductive obs :=
| OT (t : term) | OTC (t : term) (clones : list N) | OS (l : list str) | OStr (s : str)
| OE | OP | OSkip.                        (* OSkip: not applicable / not compared *)

Inductive expr := EF (fx : flatex term) | ED (dx : deepex term).

Section Driver.
Variable tb : optable.
Let C := term_carrier.
Let islit := is_numeric_text.
Let DCt := term_dcarrier.

Definition as_deep (e : expr) : res (deepex term) :=
  match e with ED d => Ok d | EF f => to_deepex C tb true f end.
Definition as_flat (e : expr) : res (flatex term) :=
  match e with EF f => Ok f | ED d => from_deepex C tb true d end.
Definition like (e : expr) (d : deepex term) : res expr :=
  match e with EF _ => do f <- from_deepex C tb true d; Ok (EF f) | ED _ => Ok (ED d) end.

Definition text_of (e : expr) : res str :=
  match e with EF f => Ok (ftext f) | ED d => match unparse C tb d with Some s => Ok s | None => Panic 144 end end.

Fixpoint run (p : prog) : res expr :=
  match p with
  | PFlat s => do f <- parse C tb true islit s; Ok (EF f)
  | PFlatWo s => do f <- parse_wo_compile C tb true islit s; Ok (EF f)
  | PDeep s => do d <- parse_deep C tb islit s; Ok (ED d)
  | PToDeep p => do e <- run p; do d <- as_deep e; Ok (ED d)
  | PToFlat p => do e <- run p; do d <- as_deep e; do f <- from_deepex C tb true d; Ok (EF f)
  | PCompile p => do e <- run p; match e with EF f => do f' <- compile C true f; Ok (EF f') | ED d => Ok (ED d) end
  | PBin name p q =>
      do a <- run p; do b <- run q;
      match a with
      | EF fa =>
          do fb <- as_flat b;
          do da <- to_deepex C tb true fa; do db <- to_deepex C tb true fb;
          do r <- operate_bin C tb da db name; like a r
      | ED da => do db <- as_deep b; do r <- operate_bin C tb da db name; like a r
      end
  | PUn name p =>
      do a <- run p; do da <- as_deep a; do r <- operate_unary C tb da name; like a r
  | PSubs p m =>
      do a <- run p;
      do m' <- (fix go (l : list (str * prog)) : res (list (str * option (deepex term))) :=
                  match l with
                  | [] => Ok []
                  | (x, q) :: tl =>
                      do e <- run q;
                      do od <- match a with
                               | EF _ => do f <- as_flat e;      (* Calculate::subs: e.to_deepex().ok() *)
                                         match to_deepex C tb true f with
                                         | Ok d => Ok (Some d) | Err _ => Ok None | Panic s => Panic s end
                               | ED _ => do d <- as_deep e; Ok (Some d)
                               end;
                      do tl' <- go tl; Ok ((x, od) :: tl')
                  end) m;
      do da <- as_deep a;
      let sub := fun x => match find (fun xd => str_eqb (fst xd) x) m' with Some xd => snd xd | None => None end in
      do r <- subs C sub da; like a r
  | PArith op p q =>
      do a <- run p; do b <- run q; do da <- as_deep a; do db <- as_deep b;
      do r <- match op with
              | 0 => d_add C DCt tb da db | 1 => d_sub C tb da db | 2 => d_mul C DCt tb da db
              | 3 => d_div C DCt tb da db | _ => d_pow C DCt tb da db end;
      Ok (ED r)
  | PNeg p => do a <- run p; do da <- as_deep a; do r <- d_neg C tb da; Ok (ED r)
  | PPartial idxs mode p =>
      do a <- run p; do da <- as_deep a;
      do r <- partial_iter_deep C DCt tb da idxs (match mode with 0 => MError | 1 => MPerOperand | _ => MNone end);
      like a r
  | PReFlat p => do e <- run p; do t <- text_of e; do f <- parse C tb true islit t; Ok (EF f)
  | PReDeep p => do e <- run p; do t <- text_of e; do d <- parse_deep C tb islit t; Ok (ED d)
  end.

Definition symvals (n : nat) : list term := map V (seq 0 n).
Definition of_res {A} (f : A -> obs) (r : res A) : obs :=
  match r with Ok a => f a | Err _ => OE | Panic _ => OP end.

Definition answer (e : expr) (q : query) : obs :=
  match q, e with
  | QVars, EF f => OS (fvars f)
  | QVars, ED d => OS (dvars d)
  | QEval n, EF f => of_res OT (eval_flat C f (symvals n))
  | QEval n, ED d => of_res OT (eval_deep C d (symvals n))
  | QRelaxed n, EF f => of_res OT (eval_flat_relaxed C f (symvals n))
  | QRelaxed n, ED d => of_res OT (eval_deep_relaxed C d (symvals n))
  | QEvalVec n, EF f => of_res (fun vc => OTC (fst vc) (map N.of_nat (snd vc))) (eval_consuming C f (symvals n))
  | QEvalVec n, ED d => OSkip
  | QUnparse, ED d => match unparse C tb d with Some s => OStr s | None => OP end
  | QUnparse, EF f => OStr (ftext f)
  | QBinReprs, EF f => OS (f_binary_reprs tb f)
  | QBinReprs, ED d => OS (d_binary_reprs tb d)
  | QUnReprs, EF f => OS (f_unary_reprs tb f)
  | QUnReprs, ED d => OS (d_unary_reprs tb d)
  | QOpReprs, EF f => OS (f_operator_reprs tb f)
  | QOpReprs, ED d => OS (d_operator_reprs tb d)
  end.

(* associativity normal form: every chain of one flagged operator re-nested to the right *)
Definition flagged (k : nat) : bool :=
  match obin (op_of tb k) with Some b => comm b | None => false end.
Fixpoint nest (k : nat) (l : list term) : term :=
  match l with
  | [] => Dflt
  | [x] => x
  | x :: tl => Bin k x (nest k tl)
  end.
Fixpoint anf (t : term) {struct t} : term :=
  match t with
  | Un k a => Un k (anf a)
  | Bin k a b => if flagged k then nest k (chain k a ++ chain k b) else Bin k (anf a) (anf b)
  | _ => t
  end
with chain (k : nat) (t : term) {struct t} : list term :=
  match t with
  | Bin k' a b =>
      if Nat.eqb k' k then chain k a ++ chain k b
      else [if flagged k' then nest k' (chain k' a ++ chain k' b) else Bin k' (anf a) (anf b)]
  | Un k' a => [Un k' (anf a)]
  | _ => [t]
  end.

Fixpoint strs_eqb (a b : list str) : bool :=
  match a, b with
  | [], [] => true
  | x :: a', y :: b' => str_eqb x y && strs_eqb a' b'
  | _, _ => false
  end.
Fixpoint ns_eqb (a b : list N) : bool :=
  match a, b with
  | [], [] => true
  | x :: a', y :: b' => N.eqb x y && ns_eqb a' b'
  | _, _ => false
  end.
(* terms are compared modulo associativity of the flagged operators (the tie the theorems need) *)
Definition obs_eqb (a b : obs) : bool :=
  match a, b with
  | OSkip, _ | _, OSkip => true
  | OT x, OT y => term_eqb (anf x) (anf y)
  | OTC x cx, OTC y cy => term_eqb (anf x) (anf y) && ns_eqb cx cy
  | OS x, OS y => strs_eqb x y
  | OStr x, OStr y => str_eqb x y
  | OE, OE => true
  | OP, OP => true
  | _, _ => false
  end.

Definition check_case (p : prog) (qs : list (query * obs)) : list N :=
  let r := run p in
  map (fun iq => N.of_nat (fst iq))
      (filter (fun iq => let '(q, o) := snd iq in
                         negb (obs_eqb (match r with Ok e => answer e q | Err _ => OE | Panic _ => OP end) o))
              (combine (seq 0 (length qs)) qs)).
End Driver.

Definition case := (nat * prog * list (query * obs))%type.
(* positions of disagreement, encoded as case_index * 1000 + query_index *)
Definition mismatches (tbs : list optable) (cs : list case) : list N :=
  flat_map (fun ic => let '(i, (t, p, qs)) := ic in
                      map (fun q => (N.of_nat i * 1000 + q)%N) (check_case (nth t tbs []) p qs))
           (combine (seq 0 (length cs)) cs).
(* the model's own answers (for the printer self-test and for replay files) *)
Definition model_answers (tbs : list optable) (c : case) : list obs :=
  let '(t, p, qs) := c in
  let r := run (nth t tbs []) p in
  map (fun qo => match r with Ok e => answer (nth t tbs []) e (fst qo) | Err _ => OE | Panic _ => OP end) qs.
