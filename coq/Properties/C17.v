(* C17 — value-typed operators are total: problems surface as error values.  Property theorems only. *)
From Coq Require Import List ZArith Floats.
Import ListNotations.
From Exmex.Model Require Import Base ValOps.
From Exmex.Proofs Require Import ValFacts.
Open Scope Z_scope.

(* Every operator of the model's table yields a value for all operands: the model has no panicking outcome at all
   (there is no `Panic` constructor in `val`); that the implementation behaves like the model -- in particular at
   the points where the Rust could panic or wrap: checked negation/abs, remainder, the casts, shifts, factorial,
   array indexing -- is what the exhaustive operator x catalogue correspondence of this check establishes, in the
   debug and the release profile. *)
Theorem C17_binary_total : forall name f a b, In (name, f) vbin_table -> exists r, vbin name a b = Some r.
Proof. exact vbin_total. Qed.

(* the points the property names, in the model: all error values, none wrapped *)
Theorem C17_dangerous_points :
  v_minus (VInt I_MIN) = VErr /\ v_abs (VInt I_MIN) = VErr /\ v_rem (VInt I_MIN) (VInt (-1)) = VErr /\
  v_div (VInt I_MIN) (VInt (-1)) = VErr /\ v_div (VInt 1) (VInt 0) = VErr /\ v_rem (VInt 1) (VInt 0) = VErr /\
  v_to_int (VFloat (FExact nan)) = VErr /\ v_to_int (VFloat (FExact infinity)) = VErr /\ v_to_int (VFloat (FExact neg_infinity)) = VErr /\
  v_to_int (VFloat (FExact 1e10%float)) = VErr /\ v_to_int (VFloat (FExact (-2147483649)%float)) = VErr /\
  v_to_int (VFloat (FExact (-2147483648.5)%float)) = VInt I_MIN /\ v_to_int (VFloat (FExact 2147483647.5%float)) = VInt I_MAX /\
  v_shl (VInt 1) (VInt 32) = VErr /\ v_shr (VInt 1) (VInt (-1)) = VErr /\ v_pow (VInt 2) (VInt 31) = VErr /\ v_pow (VInt 2) (VInt 30) = VInt 1073741824 /\
  v_fact (VInt 13) = VErr /\ v_fact (VInt 12) = VInt 479001600 /\ v_fact (VInt (-1)) = VErr.
Proof. exact c17_points. Qed.

(* negation and abs of ANY i32: the mathematical result or an error, never a wrapped value *)
Theorem C17_neg_abs : forall a, in_range a = true ->
  v_minus (VInt a) = (if in_range (- a) then VInt (- a) else VErr) /\
  v_abs (VInt a) = (if in_range (- a) then VInt (Z.abs a) else VErr).
Proof. intros; split; reflexivity. Qed.

Print Assumptions C17_binary_total.
Print Assumptions C17_dangerous_points.
