(* Model/Convert.v — flat.rs: flatten_vecs / from_deepex (deep -> flat) and flatex_to_deepex (flat -> deep) *)
From Exmex.Model Require Import Base EvalBinary Lexer Flat Deep.
Open Scope Z_scope.

Section Convert.
Context {D : Type}.
Variable C : carrier D.
Variable tb : optable.
Variable fixed_bump : bool.

(* index (from the left) of the rightmost operator of minimal priority: iter_mut().rev().min_by_key(prio) *)
Fixpoint rightmost_min (ops : list fop) (pos : nat) (best : option (nat * Z)) : option nat :=
  match ops with
  | [] => option_map fst best
  | o :: tl =>
      let best' := match best with
                   | None => Some (pos, fprio o)
                   | Some (_, p) => if fprio o <=? p then Some (pos, fprio o) else best
                   end in
      rightmost_min tl (S pos) best'
  end.

(* flat.rs:972 flatten_vecs *)
Fixpoint flatten_vecs (e : deepex D) (prio_offset : Z) : res (list (fnode D) * list fop) :=
  match e with
  | DE nodes bops uop _ =>
      do r <- (fix go (l : list (dnode D)) (ops : list dbop) : res (list (fnode D) * list fop) :=
                 match l with
                 | [] => Ok ([], [])
                 | n :: tl =>
                     do ' (ns, os) <- match n with
                                      | DNum d => Ok ([{| nkind := FNum d; nun := [] |}], [])
                                      | DVar i _ => Ok ([{| nkind := FVar i; nun := [] |}], [])
                                      | DExpr e' => flatten_vecs e' (prio_offset + 100)
                                      end;
                     let own := match ops with
                                | o :: _ => [{| fprio := bprio o + prio_offset; fidx := bidx o; fcomm := bcomm o; fun_ := [] |}]
                                | [] => []
                                end in
                     do ' (ns', os') <- go tl (List.tl ops);
                     Ok (ns ++ ns', os ++ own ++ os')
                 end) nodes bops;
      let '(fnodes, fops) := r in
      match uop with
      | [] => Ok (fnodes, fops)
      | _ =>
          match rightmost_min fops 0 None with
          | Some pos => Ok (fnodes, update_nth pos (add_un uop) fops)
          | None =>
              match fnodes with
              | n :: ntl => Ok ({| nkind := nkind n; nun := uop ++ nun n |} :: ntl, fops)
              | [] => Panic 1032
              end
          end
      end
  end.

(* flat.rs:879 from_deepex *)
Definition from_deepex (e : deepex D) : res (flatex D) :=
  do ' (nodes, ops) <- flatten_vecs e 0;
  match unparse C tb e with
  | None => Panic 144
  | Some text =>
      Ok {| fnodes := nodes; fops := ops; fprios := prioritized_indices_flat fixed_bump ops nodes; fvars := dvars e; ftext := text |}
  end.

(* flat.rs:171 convert_node *)
Definition convert_node (names : list str) (n : fnode D) : res (dnode D) :=
  do base <- match nkind n with
             | FNum d => Ok (DNum d)
             | FVar i => match nth_error names i with Some x => Ok (DVar i x) | None => Panic 184 end
             end;
  match nun n with
  | [] => Ok base
  | us => do e <- new_deepex C [base] [] us; Ok (DExpr e)
  end.

(* flat.rs:204 flatex_to_deepex *)
Definition dummy_node : dnode D := DVar 0 [].      (* DeepNode::Var((usize::MAX, "")); never observable *)
Definition to_deepex (fx : flatex D) : res (deepex D) :=
  let ops := fops fx in
  do orig_prios <- mapM (fun o => match nth_error tb (fidx o) with
                                   | None => Err E_UNKNOWNOP
                                   | Some spec => match obin spec with Some bs => Ok (prio bs) | None => Err E_NOBIN end
                                   end) ops;
  let prio_inds := prioritized_indices_flat fixed_bump ops (fnodes fx) in
  do deep_nodes <- mapM (convert_node (fvars fx)) (fnodes fx);
  let opm := fun (idx : nat) (a b : dnode D) =>
    match nth_error ops idx, nth_error orig_prios idx with
    | Some o, Some p =>
        do e <- new_deepex C [a; b] [{| bprio := p; bidx := fidx o; bcomm := fcomm o |}] (fun_ o);
        Ok (DExpr e)
    | _, _ => Panic 243
    end in
  do ' (nodes', _) <- arun_m dummy_node opm prio_inds (deep_nodes, repeat false (length deep_nodes));
  match nodes' with
  | [] => Err E_NONODE
  | final :: _ =>
      do e <- new_deepex C [final] [] [];
      do e' <- reset_vars e (fvars fx);
      dcompile C e'
  end.
End Convert.
