(* Proofs/SortDesc.v — the model's stable descending insertion sort (Base.sort_desc), which stands for
   Rust's stable `sort_by` in prioritized_indices*, yields the schedule order of SortedRef:
   a duplicate-free list of exactly the given indices, strongly sorted by (key descending, index ascending).
   Any stable sort by descending key produces this same list, so the model does not depend on the
   sorting algorithm. *)
From Coq Require Import List Arith Lia Bool ZArith Sorting.Sorted.
Import ListNotations.
From Exmex.Model Require Import Base.
From Exmex.Proofs Require Import ChainMachine SortedRef.

Section SortDesc.
Variable key : nat -> Z.

Definition beforeP (a b : Z * nat) : Prop := (fst a > fst b)%Z \/ (fst a = fst b /\ snd a < snd b).
Definition wfP (a : Z * nat) : Prop := fst a = key (snd a).

Lemma insert_by_In kx l y : In y (insert_by kx l) <-> y = kx \/ In y l.
Proof.
  induction l as [|z tl IH]; cbn; [intuition|].
  destruct (fst z <? fst kx)%Z; cbn; [intuition|]. rewrite IH. intuition.
Qed.

Lemma insert_by_sorted kx l :
  StronglySorted beforeP l -> Forall (fun y => snd y < snd kx) l ->
  StronglySorted beforeP (insert_by kx l).
Proof.
  induction 1 as [|z tl HS IH HF]; intros Hlt; cbn; [repeat constructor|].
  inversion Hlt as [|? ? Hz Htl]; subst.
  destruct (fst z <? fst kx)%Z eqn:E.
  - apply Z.ltb_lt in E. constructor; [constructor; assumption|].
    constructor; [left; lia|].
    rewrite Forall_forall in *. intros y Hy. specialize (HF y Hy). unfold beforeP in *. left. destruct HF as [?|[? ?]]; lia.
  - apply Z.ltb_ge in E. constructor; [apply IH; assumption|].
    rewrite Forall_forall in *. intros y Hy. apply insert_by_In in Hy. destruct Hy as [->|Hy]; [|apply HF; assumption].
    unfold beforeP. destruct (Z.eq_dec (fst z) (fst kx)); [right; split; [assumption|exact Hz]|left; lia].
Qed.

Lemma fold_insert_spec : forall (l : list nat) (acc : list (Z * nat)) (lo : nat),
  StronglySorted beforeP acc -> Forall wfP acc -> Forall (fun y => snd y < lo) acc ->
  StronglySorted (fun i j => i < j) l -> Forall (fun i => lo <= i) l ->
  let r := fold_left (fun acc i => insert_by (key i, i) acc) l acc in
  StronglySorted beforeP r /\ Forall wfP r /\ (forall y, In y r <-> In y acc \/ (In (snd y) l /\ wfP y)).
Proof.
  induction l as [|i tl IH]; intros acc lo HS HW HL HSl HLo; cbn.
  - split; [assumption|]. split; [assumption|]. intros y. tauto.
  - inversion HSl as [|? ? HStl HFi]; subst. inversion HLo as [|? ? Hi Htl]; subst.
    destruct (IH (insert_by (key i, i) acc) (S i)) as (R1 & R2 & R3).
    + apply insert_by_sorted; [assumption|]. cbn. rewrite Forall_forall in *. intros y Hy. specialize (HL y Hy). cbn in HL. lia.
    + rewrite Forall_forall in *. intros y Hy. apply insert_by_In in Hy. destruct Hy as [->|Hy]; [reflexivity|auto].
    + rewrite Forall_forall in *. intros y Hy. apply insert_by_In in Hy. destruct Hy as [->|Hy]; [cbn; lia|]. specialize (HL y Hy). cbn in HL. lia.
    + assumption.
    + rewrite Forall_forall in *. intros j Hj. specialize (HFi j Hj). lia.
    + split; [exact R1|]. split; [exact R2|].
      intros y. rewrite R3, insert_by_In. split.
      * intros [[->|H]|[H W]]; [right; split; [left; reflexivity|reflexivity]|left; assumption|right; split; [right; assumption|assumption]].
      * intros [H|[[E|H] W]]; [left; right; assumption| |right; split; assumption].
        left; left. destruct y as [k j]; cbn in *. subst. unfold wfP in W. cbn in W. subst. reflexivity.
Qed.

Lemma seq_sorted lo n : StronglySorted (fun i j => i < j) (seq lo n).
Proof.
  revert lo; induction n as [|n IH]; intros lo; cbn; [constructor|].
  constructor; [apply IH|]. apply Forall_forall. intros j Hj. apply in_seq in Hj. lia.
Qed.

Lemma map_snd_sorted (r : list (Z * nat)) :
  StronglySorted beforeP r -> Forall wfP r -> StronglySorted (before key) (map snd r).
Proof.
  induction 1 as [|a tl HS IH HF]; intros HW; cbn; [constructor|].
  inversion HW as [|? ? Wa Wtl]; subst.
  constructor; [apply IH; assumption|].
  rewrite Forall_forall in *. intros j Hj. apply in_map_iff in Hj. destruct Hj as (y & <- & Hy).
  specialize (HF y Hy). specialize (Wtl y Hy). unfold beforeP, before, wfP in *. rewrite <- Wa, <- Wtl. exact HF.
Qed.

(* the schedule produced for n operators *)
Theorem sort_desc_spec n :
  sched_sorted key (sort_desc key (seq 0 n)) /\
  NoDup (sort_desc key (seq 0 n)) /\
  (forall i, In i (sort_desc key (seq 0 n)) <-> i < n).
Proof.
  unfold sort_desc.
  assert (Hlo : Forall (fun i => 0 <= i) (seq 0 n)) by (apply Forall_forall; intros; lia).
  destruct (fold_insert_spec (seq 0 n) [] 0 (SSorted_nil _) (Forall_nil _) (Forall_nil _) (seq_sorted 0 n) Hlo) as (R1 & R2 & R3).
  assert (HS : sched_sorted key (map snd (fold_left (fun acc i => insert_by (key i, i) acc) (seq 0 n) []))).
  { apply map_snd_sorted; assumption. }
  split; [exact HS|]. split; [apply (sorted_NoDup key); exact HS|].
  intros i. rewrite in_map_iff. split.
  - intros (y & <- & Hy). apply R3 in Hy. destruct Hy as [[]|[Hy _]]. apply in_seq in Hy. lia.
  - intros Hi. exists (key i, i). split; [reflexivity|]. apply R3. right. split; [apply in_seq; cbn; lia|reflexivity].
Qed.
End SortDesc.
