(* Proofs/CommaRewrite.v — the call-form rewrite of the tokenizer.
   1. tokenize_go factors into a character-level lexer that emits EVENTS (open, close, comma, token) and a machine that
      consumes events (the result list, the stack of pending call depths, the paren depth) — proved equal.
   2. On the events of any nesting of groups and calls  op( a , b )  the machine emits exactly the tokens of
      (( a ) op ( b )), at every depth, inside either argument of other calls, under any pending stack. *)
From Coq Require Import List Arith Lia Bool ZArith NArith.
Import ListNotations.
From Exmex.Model Require Import Base Lexer.
Open Scope nat_scope.

Section CommaRewrite.
Context {D : Type}.
Variable C : carrier D.
Variable tb : optable.
Variable is_literal : str -> option nat.

Inductive event := EOpen | EClose | EComma | ETok (t : token D).

(* ---- 1. the lexer: which characters form which event; ends with an error code or normally ---- *)
Fixpoint lex (fuel : nat) (s : str) : list event * option nat :=
  match fuel with O => ([], Some E_FUEL) | S fuel' =>
  match s with
  | [] => ([], None)
  | c :: tl =>
    if N.eqb c SPACE then lex fuel' tl
    else if N.eqb c LPAR then let '(evs, fin) := lex fuel' tl in (EOpen :: evs, fin)
    else if N.eqb c RPAR then let '(evs, fin) := lex fuel' tl in (EClose :: evs, fin)
    else if N.eqb c COMMA then let '(evs, fin) := lex fuel' tl in (EComma :: evs, fin)
    else if N.eqb c LBRACE then
      let name := take_while (fun c => negb (N.eqb c RBRACE)) tl in
      let '(evs, fin) := lex fuel' (skipn (S (length name)) tl) in (ETok (TVar name) :: evs, fin)
    else match is_literal s with
    | Some n =>
        match lit C (firstn n s) with
        | None => ([], Some E_LITERAL)
        | Some d =>
            match n with
            | O => ([ETok (TNum d)], None)
            | _ => let '(evs, fin) := lex fuel' (skipn n s) in (ETok (TNum d) :: evs, fin)
            end
        end
    | None =>
      match find_ops tb s with
      | Some k =>
          let t := if oconst (op_of tb k) then TNum (cst C k) else TOp k in
          match length (repr (op_of tb k)) with
          | O => ([ETok t], None)
          | n => let '(evs, fin) := lex fuel' (skipn n s) in (ETok t :: evs, fin)
          end
      | None =>
        match match_var_name s with
        | Some v => let '(evs, fin) := lex fuel' (skipn (length v) s) in (ETok (TVar v) :: evs, fin)
        | None => ([], Some E_TOKENIZE)
        end
      end
    end
  end end.

(* the event machine *)
Fixpoint apply_events (evs : list event) (fin : option nat) (rres : list (token D)) (pending : list Z) (depth : Z)
  : res (list (token D)) :=
  match evs with
  | [] => match fin with None => Ok (rev rres) | Some e => Err e end
  | EOpen :: tl => apply_events tl fin (TOpen :: rres) pending (depth + 1)
  | EClose :: tl =>
      let depth' := (depth - 1)%Z in
      match pending with
      | d :: ptl => if (d =? depth' + 1)%Z
                    then apply_events tl fin (TClose :: TClose :: rres) ptl depth'
                    else apply_events tl fin (TClose :: rres) pending depth'
      | [] => apply_events tl fin (TClose :: rres) pending depth'
      end
  | EComma :: tl =>
      match find_op_of_comma_rev rres 0 0 with
      | None => Err E_COMMA
      | Some pos =>
          match nth_error rres pos with
          | Some op_at_comma =>
              apply_events tl fin (TOpen :: op_at_comma :: TClose :: set_nth pos TOpen rres) (depth :: pending) depth
          | None => Panic 233
          end
      end
  | ETok t :: tl => apply_events tl fin (t :: rres) pending depth
  end.

Theorem tokenize_go_factors : forall fuel s rres pending depth,
  tokenize_go C tb is_literal fuel s rres pending depth =
  let '(evs, fin) := lex fuel s in apply_events evs fin rres pending depth.
Proof.
  induction fuel as [|fuel IH]; intros s rres pending depth; [reflexivity|].
  cbn [tokenize_go lex]. destruct s as [|c tl]; [reflexivity|].
  destruct (N.eqb c SPACE); [apply IH|].
  destruct (N.eqb c LPAR).
  { rewrite IH. destruct (lex fuel tl) as [evs fin]. reflexivity. }
  destruct (N.eqb c RPAR).
  { destruct (lex fuel tl) as [evs fin] eqn:E. cbn [apply_events].
    destruct pending as [|d ptl]; [rewrite IH, E; reflexivity|].
    destruct (d =? depth - 1 + 1)%Z; rewrite IH, E; reflexivity. }
  destruct (N.eqb c COMMA).
  { destruct (lex fuel tl) as [evs fin] eqn:E. cbn [apply_events].
    destruct (find_op_of_comma_rev rres 0 0) as [pos|]; [|reflexivity].
    destruct (nth_error rres pos) as [t|]; [|reflexivity]. rewrite IH, E. reflexivity. }
  destruct (N.eqb c LBRACE).
  { rewrite IH. destruct (lex fuel _) as [evs fin]. reflexivity. }
  destruct (is_literal (c :: tl)) as [n|].
  { destruct (lit C (firstn n (c :: tl))) as [d|]; [|reflexivity].
    destruct n; [reflexivity|]. rewrite IH. destruct (lex fuel _) as [evs fin]. reflexivity. }
  destruct (find_ops tb (c :: tl)) as [k|].
  { destruct (length (repr (op_of tb k))); [reflexivity|]. rewrite IH. destruct (lex fuel _) as [evs fin]. reflexivity. }
  destruct (match_var_name (c :: tl)) as [v|]; [|reflexivity].
  rewrite IH. destruct (lex fuel _) as [evs fin]. reflexivity.
Qed.

Corollary tokenize_factors s :
  tokenize C tb is_literal s = let '(evs, fin) := lex (S (length s)) s in apply_events evs fin [] [] 0.
Proof. apply tokenize_go_factors. Qed.

(* ---- 2. groups and calls, nested without bound ---- *)
Inductive item :=
| ITok (t : token D)                         (* a number, a variable or an operator *)
| IGroup (l : list item)                     (* ( ... ) *)
| ICall (k : nat) (a b : list item).         (* op( a , b ) *)

Fixpoint isize (i : item) : nat :=
  match i with
  | ITok _ => 1
  | IGroup l => S ((fix go (l : list item) : nat := match l with [] => 0 | x :: tl => isize x + go tl end) l)
  | ICall _ a b => S ((fix go (l : list item) : nat := match l with [] => 0 | x :: tl => isize x + go tl end) a +
                      (fix go (l : list item) : nat := match l with [] => 0 | x :: tl => isize x + go tl end) b)
  end.
Fixpoint lsize (l : list item) : nat := match l with [] => 0 | x :: tl => isize x + lsize tl end.
Lemma lsize_fix l : (fix go (l : list item) : nat := match l with [] => 0 | x :: tl => isize x + go tl end) l = lsize l.
Proof. induction l as [|x tl IH]; [reflexivity|]. cbn [lsize]. rewrite <- IH. reflexivity. Qed.
Lemma isize_group l : isize (IGroup l) = S (lsize l).
Proof. cbn [isize]. rewrite lsize_fix. reflexivity. Qed.
Lemma isize_call k a b : isize (ICall k a b) = S (lsize a + lsize b).
Proof. cbn [isize]. rewrite !lsize_fix. reflexivity. Qed.

(* tokens that are not parentheses *)
Definition plain (t : token D) : bool := match t with TOpen | TClose => false | _ => true end.
Fixpoint iplain (i : item) : bool :=
  match i with
  | ITok t => plain t
  | IGroup l => (fix go (l : list item) : bool := match l with [] => true | x :: tl => iplain x && go tl end) l
  | ICall _ a b => (fix go (l : list item) : bool := match l with [] => true | x :: tl => iplain x && go tl end) a &&
                   (fix go (l : list item) : bool := match l with [] => true | x :: tl => iplain x && go tl end) b
  end.
Fixpoint lplain (l : list item) : bool := match l with [] => true | x :: tl => iplain x && lplain tl end.
Lemma lplain_fix l : (fix go (l : list item) : bool := match l with [] => true | x :: tl => iplain x && go tl end) l = lplain l.
Proof. induction l as [|x tl IH]; [reflexivity|]. cbn [lplain]. rewrite <- IH. reflexivity. Qed.
Lemma iplain_group l : iplain (IGroup l) = lplain l.
Proof. cbn [iplain]. rewrite lplain_fix. reflexivity. Qed.
Lemma iplain_call k a b : iplain (ICall k a b) = lplain a && lplain b.
Proof. cbn [iplain]. rewrite !lplain_fix. reflexivity. Qed.

(* what the text says: the events of the call notation *)
Fixpoint events_of (i : item) : list event :=
  match i with
  | ITok t => [ETok t]
  | IGroup l => EOpen :: (fix go (l : list item) : list event := match l with [] => [] | x :: tl => events_of x ++ go tl end) l ++ [EClose]
  | ICall k a b =>
      ETok (TOp k) :: EOpen ::
      (fix go (l : list item) : list event := match l with [] => [] | x :: tl => events_of x ++ go tl end) a ++ EComma ::
      (fix go (l : list item) : list event := match l with [] => [] | x :: tl => events_of x ++ go tl end) b ++ [EClose]
  end.
Fixpoint events_of_list (l : list item) : list event := match l with [] => [] | x :: tl => events_of x ++ events_of_list tl end.
Lemma events_fix l : (fix go (l : list item) : list event := match l with [] => [] | x :: tl => events_of x ++ go tl end) l = events_of_list l.
Proof. induction l as [|x tl IH]; [reflexivity|]. cbn [events_of_list]. rewrite <- IH. reflexivity. Qed.
Lemma events_group l : events_of (IGroup l) = EOpen :: events_of_list l ++ [EClose].
Proof. cbn [events_of]. rewrite events_fix. reflexivity. Qed.
Lemma events_call k a b : events_of (ICall k a b) = ETok (TOp k) :: EOpen :: events_of_list a ++ EComma :: events_of_list b ++ [EClose].
Proof. cbn [events_of]. rewrite !events_fix. reflexivity. Qed.

(* what it means: the tokens of the infix notation ((a) op (b)) *)
Fixpoint infix_of (i : item) : list (token D) :=
  match i with
  | ITok t => [t]
  | IGroup l => TOpen :: (fix go (l : list item) : list (token D) := match l with [] => [] | x :: tl => infix_of x ++ go tl end) l ++ [TClose]
  | ICall k a b =>
      TOpen :: TOpen ::
      (fix go (l : list item) : list (token D) := match l with [] => [] | x :: tl => infix_of x ++ go tl end) a ++ TClose :: TOp k :: TOpen ::
      (fix go (l : list item) : list (token D) := match l with [] => [] | x :: tl => infix_of x ++ go tl end) b ++ [TClose; TClose]
  end.
Fixpoint infix_of_list (l : list item) : list (token D) := match l with [] => [] | x :: tl => infix_of x ++ infix_of_list tl end.
Lemma infix_fix l : (fix go (l : list item) : list (token D) := match l with [] => [] | x :: tl => infix_of x ++ go tl end) l = infix_of_list l.
Proof. induction l as [|x tl IH]; [reflexivity|]. cbn [infix_of_list]. rewrite <- IH. reflexivity. Qed.
Lemma infix_group l : infix_of (IGroup l) = TOpen :: infix_of_list l ++ [TClose].
Proof. cbn [infix_of]. rewrite infix_fix. reflexivity. Qed.
Lemma infix_call k a b : infix_of (ICall k a b) =
  TOpen :: TOpen :: infix_of_list a ++ TClose :: TOp k :: TOpen :: infix_of_list b ++ [TClose; TClose].
Proof. cbn [infix_of]. rewrite !infix_fix. reflexivity. Qed.

Ltac revs := repeat (progress (cbn [rev]; rewrite ?rev_app_distr)); cbn [rev app]; rewrite <- ?app_assoc; cbn [app].

(* the search for the operator owning a comma skips balanced material *)
Ltac nogt := repeat match goal with |- context[(1 <? ?c)%Z] => replace (1 <? c)%Z with false by (symmetry; apply Z.ltb_ge; lia) end.
Lemma scan_balanced : forall n (l : list item), lsize l <= n -> lplain l = true ->
  forall tl cnt pos, (cnt <= 0)%Z ->
  find_op_of_comma_rev (rev (infix_of_list l) ++ tl) cnt pos = find_op_of_comma_rev tl cnt (pos + length (infix_of_list l)).
Proof.
  induction n as [|n IH]; intros l Hs Hp tl cnt pos Hc.
  - destruct l as [|x l]; [cbn; rewrite Nat.add_0_r; reflexivity|]. cbn [lsize] in Hs. destruct x; cbn [isize] in Hs; lia.
  - destruct l as [|x l]; [cbn; rewrite Nat.add_0_r; reflexivity|].
    cbn [lsize lplain infix_of_list] in *. apply andb_prop in Hp. destruct Hp as [Hpx Hpl].
    rewrite rev_app_distr, <- app_assoc, app_length.
    assert (Hx : isize x >= 1) by (destruct x; cbn [isize]; lia).
    rewrite (IH l ltac:(lia) Hpl _ cnt pos Hc).
    destruct x as [t|g|k a b].
    + cbn [infix_of rev app length]. cbn [iplain] in Hpx. cbn [find_op_of_comma_rev]. nogt.
      destruct t; try discriminate; cbn [plain] in Hpx; nogt;
        try (replace (pos + (1 + length (infix_of_list l))) with (S (pos + length (infix_of_list l))) by lia; reflexivity).
      destruct (cnt =? 1)%Z eqn:E; [apply Z.eqb_eq in E; lia|].
      replace (pos + (1 + length (infix_of_list l))) with (S (pos + length (infix_of_list l))) by lia. reflexivity.
    + rewrite infix_group. rewrite isize_group in Hs. rewrite iplain_group in Hpx.
      cbn [rev]. rewrite rev_app_distr. cbn [rev app]. cbn [find_op_of_comma_rev]. nogt.
      rewrite <- app_assoc. rewrite (IH g ltac:(lia) Hpx _ (cnt - 1)%Z _ ltac:(lia)).
      cbn [app find_op_of_comma_rev]. nogt. replace (cnt - 1 + 1)%Z with cnt by lia.
      f_equal. cbn [length]. rewrite app_length. cbn [length]. lia.
    + rewrite infix_call. rewrite isize_call in Hs. rewrite iplain_call in Hpx. apply andb_prop in Hpx. destruct Hpx as [Hpa Hpb].
      revs. cbn [find_op_of_comma_rev]. nogt.
      rewrite (IH b ltac:(lia) Hpb _ (cnt - 1 - 1)%Z _ ltac:(lia)).
      cbn [find_op_of_comma_rev]. nogt. replace (cnt - 1 - 1 + 1)%Z with (cnt - 1)%Z by lia.
      destruct (cnt - 1 =? 1)%Z eqn:E; [apply Z.eqb_eq in E; lia|].
      rewrite (IH a ltac:(lia) Hpa _ (cnt - 1 - 1)%Z _ ltac:(lia)).
      cbn [find_op_of_comma_rev]. nogt. replace (cnt - 1 - 1 + 1 + 1)%Z with cnt by lia.
      f_equal. cbn [length]. rewrite !app_length. cbn [length]. rewrite !app_length. cbn [length]. lia.
Qed.

Lemma set_nth_app_r {A} (l1 : list A) x y l2 : set_nth (length l1) y (l1 ++ x :: l2) = l1 ++ y :: l2.
Proof. induction l1 as [|a l1 IH]; [reflexivity|]. cbn. f_equal. exact IH. Qed.
Lemma nth_error_app_r {A} (l1 : list A) x l2 : nth_error (l1 ++ x :: l2) (length l1) = Some x.
Proof. rewrite nth_error_app2 by lia. rewrite Nat.sub_diag. reflexivity. Qed.

(* the main lemma: the machine turns the events of any item list into its infix tokens and restores its state *)
Theorem rewrite_items : forall n (l : list item), lsize l <= n -> lplain l = true ->
  forall rest fin rres pending depth, (forall d, In d pending -> (d <= depth)%Z) ->
  apply_events (events_of_list l ++ rest) fin rres pending depth =
  apply_events rest fin (rev (infix_of_list l) ++ rres) pending depth.
Proof.
  induction n as [|n IH]; intros l Hs Hp rest fin rres pending depth Hpend.
  - destruct l as [|x l]; [reflexivity|]. cbn [lsize] in Hs. destruct x; cbn [isize] in Hs; lia.
  - destruct l as [|x l]; [reflexivity|].
    cbn [lsize lplain events_of_list infix_of_list] in *. apply andb_prop in Hp. destruct Hp as [Hpx Hpl].
    assert (Hx : isize x >= 1) by (destruct x; cbn [isize]; lia).
    rewrite <- app_assoc, rev_app_distr, <- app_assoc.
    destruct x as [t|g|k a b].
    + cbn [events_of infix_of app rev apply_events]. apply (IH l ltac:(lia) Hpl). exact Hpend.
    + rewrite events_group, infix_group. rewrite isize_group in Hs. rewrite iplain_group in Hpx.
      cbn [app apply_events]. rewrite <- app_assoc.
      rewrite (IH g ltac:(lia) Hpx).
      2:{ intros d Hd. specialize (Hpend d Hd). lia. }
      cbn [app apply_events].
      assert (Hnopop : match pending with
                       | d :: ptl => (d =? depth + 1 - 1 + 1)%Z = false
                       | [] => True end).
      { destruct pending as [|d ptl]; [exact I|]. apply Z.eqb_neq. specialize (Hpend d (or_introl eq_refl)). lia. }
      replace (depth + 1 - 1)%Z with depth in * by lia.
      destruct pending as [|d ptl].
      * rewrite (IH l ltac:(lia) Hpl) by exact Hpend. f_equal.
        cbn [rev]. rewrite rev_app_distr. cbn [rev app]. rewrite <- !app_assoc. reflexivity.
      * rewrite Hnopop. rewrite (IH l ltac:(lia) Hpl) by exact Hpend. f_equal.
        cbn [rev]. rewrite rev_app_distr. cbn [rev app]. rewrite <- !app_assoc. reflexivity.
    + rewrite events_call, infix_call. rewrite isize_call in Hs. rewrite iplain_call in Hpx. apply andb_prop in Hpx. destruct Hpx as [Hpa Hpb].
      cbn [app apply_events]. rewrite <- app_assoc.
      rewrite (IH a ltac:(lia) Hpa).
      2:{ intros d Hd. specialize (Hpend d Hd). lia. }
      cbn [app apply_events].
      (* the comma: the operator is found behind the first argument and its own parenthesis *)
      rewrite (scan_balanced (lsize a) a (le_n _) Hpa _ 0%Z 0 ltac:(lia)).
      cbn [find_op_of_comma_rev]. cbn [Z.add Z.eqb Pos.eqb Z.ltb Z.compare Pos.compare Pos.compare_cont].
      replace (rev (infix_of_list a) ++ TOpen :: TOp k :: rres) with ((rev (infix_of_list a) ++ [TOpen]) ++ TOp k :: rres)
        by (rewrite <- app_assoc; reflexivity).
      replace (S (0 + length (infix_of_list a))) with (length (rev (infix_of_list a) ++ [TOpen]))
        by (rewrite app_length, rev_length; cbn; lia).
      rewrite nth_error_app_r, set_nth_app_r.
      rewrite <- app_assoc.
      rewrite (IH b ltac:(lia) Hpb).
      2:{ intros d [<-|Hd]; [lia|]. specialize (Hpend d Hd). lia. }
      cbn [app apply_events].
      replace (depth + 1 - 1)%Z with depth by lia. rewrite Z.eqb_refl.
      rewrite (IH l ltac:(lia) Hpl) by exact Hpend. f_equal.
      cbn [rev]. rewrite !rev_app_distr. cbn [rev app]. rewrite !rev_app_distr. cbn [rev app]. rewrite <- !app_assoc. cbn [app]. reflexivity.
Qed.

Corollary rewrite_call_form (l : list item) : lplain l = true ->
  apply_events (events_of_list l) None [] [] 0 = Ok (infix_of_list l).
Proof.
  intros Hp. rewrite <- (app_nil_r (events_of_list l)).
  rewrite (rewrite_items (lsize l) l (le_n _) Hp [] None [] [] 0%Z (fun d (H : In d []) => match H with end)).
  cbn [apply_events]. rewrite app_nil_r, rev_involutive. reflexivity.
Qed.
End CommaRewrite.

(* without commas the machine copies its input (parentheses adjust the depth only) *)
Section Plain.
Context {D : Type}.
Definition event_of_token (t : token D) : event := match t with TOpen => EOpen | TClose => EClose | _ => ETok t end.
Lemma apply_plain : forall (ts : list (token D)) rest fin rres depth,
  exists depth', apply_events (map event_of_token ts ++ rest) fin rres [] depth = apply_events rest fin (rev ts ++ rres) [] depth'.
Proof.
  induction ts as [|t ts IH]; intros rest fin rres depth; [exists depth; reflexivity|].
  cbn [map app rev]. rewrite <- app_assoc. cbn [app].
  destruct t; cbn [event_of_token apply_events]; apply IH.
Qed.
Corollary apply_plain_all (ts : list (token D)) : apply_events (map event_of_token ts) None [] [] 0 = Ok ts.
Proof.
  destruct (apply_plain ts [] None [] 0%Z) as [d' H]. rewrite app_nil_r in H. rewrite H. cbn [apply_events].
  rewrite app_nil_r, rev_involutive. reflexivity.
Qed.
End Plain.
