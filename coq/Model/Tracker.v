(* Model/Tracker.v — expression/number_tracker.rs: the consumed-operand bookkeeping on machine words.
   A word is an N below 2^64.  `impl NumberTracker for usize` (one word, at most 64 numbers) and
   `impl NumberTracker for [usize]` (a slice of words), and eval_binary run with either of them, choosing as
   FlatEx::eval_numbers does (one word up to 64 numbers, otherwise 1 + n/64 words) or as DeepEx::eval_relaxed does
   (always 1 + n/64 words).  None = a Rust panic (index out of bounds, usize underflow, shift overflow in debug). *)
From Coq Require Import NArith List Arith.
Import ListNotations.
From Exmex.Model Require Import Base.

Definition W : N := 64%N.
Definition MAXW : N := N.ones 64.
(* x.rotate_right(k): k is taken modulo 64 *)
Definition rotr (x k : N) : N :=
  let k := (k mod W)%N in
  N.lor (N.shiftr x k) (N.land (N.shiftl x (W - k)) (N.ones W)).
(* x.leading_ones(): from bit 63 downwards *)
Fixpoint lead_from (x : N) (n : nat) : nat :=
  match n with O => O | S m => if N.testbit x (N.of_nat m) then S (lead_from x m) else O end.
Definition leading_ones (x : N) : nat := lead_from x 64.
(* x.trailing_ones(): from bit 0 upwards *)
Fixpoint trail_from (x : N) (pos : nat) (fuel : nat) : nat :=
  match fuel with O => O | S f => if N.testbit x (N.of_nat pos) then S (trail_from x (S pos) f) else O end.
Definition trailing_ones (x : N) : nat := trail_from x 0 64.

(* impl NumberTracker for usize *)
Definition w_get_previous (x : N) (idx : nat) : nat := leading_ones (rotr x (N.of_nat idx + 1)).
Definition w_get_next (x : N) (idx : nat) : nat := S (trailing_ones (rotr x (N.of_nat idx + 1))).
Definition w_ignore (x : N) (idx : nat) : option N :=
  if Nat.ltb idx 64 then Some (N.lor x (N.shiftl 1 (N.of_nat idx))) else None.    (* 1 << idx overflows from 64 on *)

(* impl NumberTracker for [usize] *)
Fixpoint scan_down (l : list N) : nat :=     (* self[..segment].iter().rev() *)
  match l with [] => 0 | w :: tl => if N.eqb w MAXW then 64 + scan_down tl else leading_ones w end.
Fixpoint scan_up (l : list N) : nat :=       (* self[segment..].iter().skip(1) *)
  match l with [] => 0 | w :: tl => if N.eqb w MAXW then 64 + scan_up tl else trailing_ones w end.
Definition s_get_previous (ws : list N) (idx : nat) : option nat :=
  let seg := idx / 64 in let bit := idx mod 64 in
  match nth_error ws seg with
  | None => None
  | Some w =>
      let ones := Nat.min (w_get_previous w bit) (S bit) in
      Some (if Nat.eqb ones (S bit) then ones + scan_down (rev (firstn seg ws)) else ones)
  end.
Definition s_get_next (ws : list N) (idx : nat) : option nat :=
  let seg := idx / 64 in let bit := idx mod 64 in
  match nth_error ws seg with
  | None => None
  | Some w =>
      let ones := Nat.min (w_get_next w bit) (64 - bit) in
      Some (if Nat.eqb ones (64 - bit) then ones + scan_up (skipn (S seg) ws) else ones)
  end.
Definition s_ignore (ws : list N) (idx : nat) : option (list N) :=
  let seg := idx / 64 in let bit := idx mod 64 in
  match nth_error ws seg with
  | None => None
  | Some w => Some (set_nth seg (N.lor w (N.shiftl 1 (N.of_nat bit))) ws)
  end.

(* the three operations of a tracker *)
Record tracker (T : Type) := {
  t_prev : T -> nat -> option nat;
  t_next : T -> nat -> option nat;
  t_ign : T -> nat -> option T
}.
Arguments t_prev {T}. Arguments t_next {T}. Arguments t_ign {T}.
Definition word_tracker : tracker N :=
  {| t_prev := fun x i => Some (w_get_previous x i); t_next := fun x i => Some (w_get_next x i); t_ign := w_ignore |}.
Definition slice_tracker : tracker (list N) :=
  {| t_prev := s_get_previous; t_next := s_get_next; t_ign := s_ignore |}.

Section MachineEval.
Context {D T : Type}.
Variable dflt : D.
Variable opf : nat -> D -> D -> D.
Variable tr : tracker T.
(* one iteration of eval_binary: get_previous, consume_next (= get_next, ignore), the two index computations *)
Definition mstep (idx : nat) (st : list D * T) : option (list D * T) :=
  let '(nums, t) := st in
  match t_prev tr t idx, t_next tr t idx with
  | Some sl, Some sr =>
      match t_ign tr t (idx + sr) with
      | None => None
      | Some t' =>
          if Nat.ltb idx sl then None else
          match nth_error nums (idx - sl), nth_error nums (idx + sr) with
          | Some a, Some b => Some (set_nth (idx - sl) (opf idx a b) (set_nth (idx + sr) dflt nums), t')
          | _, _ => None
          end
      end
  | _, _ => None
  end.
Fixpoint mrun (sigma : list nat) (st : list D * T) : option (list D * T) :=
  match sigma with [] => Some st | i :: s => match mstep i st with Some st' => mrun s st' | None => None end end.
End MachineEval.

(* eval_binary as FlatEx::eval_numbers calls it, and as DeepEx::eval_relaxed calls it *)
Definition eval_binary_flat_machine {D} (dflt : D) (opf : nat -> D -> D -> D) (nums : list D) (sigma : list nat) : option D :=
  if Nat.leb (length nums) 64
  then match mrun dflt opf word_tracker sigma (nums, 0%N) with Some (x :: _, _) => Some x | _ => None end
  else match mrun dflt opf slice_tracker sigma (nums, repeat 0%N (1 + length nums / 64)) with Some (x :: _, _) => Some x | _ => None end.
Definition eval_binary_deep_machine {D} (dflt : D) (opf : nat -> D -> D -> D) (nums : list D) (sigma : list nat) : option D :=
  match mrun dflt opf slice_tracker sigma (nums, repeat 0%N (1 + length nums / 64)) with Some (x :: _, _) => Some x | _ => None end.
