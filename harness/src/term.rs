//! Free term algebra as an exmex data type: the value of an expression is the whole applied tree.
use exmex::{BinOp, MakeOperators, Operator};
use std::cell::RefCell;
use std::fmt;
use std::str::FromStr;

#[derive(PartialEq, Eq, Default, Hash)]
pub enum Term {
    Lit(String),
    Cst(usize),
    Var(usize),
    Un(usize, Box<Term>),
    Bin(usize, Box<Term>, Box<Term>),
    /// what `mem::take` leaves behind; must never reach an operator
    #[default]
    Dflt,
}
thread_local! {
    /// number of clone() calls on Var(i), per i
    pub static CLONES: RefCell<Vec<u64>> = RefCell::new(vec![0; 8192]);
}
pub fn reset_clones() { CLONES.with(|c| c.borrow_mut().iter_mut().for_each(|x| *x = 0)); }
pub fn clones(n: usize) -> Vec<u64> { CLONES.with(|c| c.borrow()[..n.min(8192)].to_vec()) }
impl Clone for Term {
    fn clone(&self) -> Self {
        match self {
            Term::Lit(s) => Term::Lit(s.clone()),
            Term::Cst(k) => Term::Cst(*k),
            Term::Var(i) => { CLONES.with(|c| { let mut c = c.borrow_mut(); if *i < c.len() { c[*i] += 1; } }); Term::Var(*i) }
            Term::Un(k, a) => Term::Un(*k, a.clone()),
            Term::Bin(k, a, b) => Term::Bin(*k, a.clone(), b.clone()),
            Term::Dflt => Term::Dflt,
        }
    }
}
/// Debug is what `unparse` prints for a literal: a literal prints its text, anything else "§"
impl fmt::Debug for Term {
    fn fmt(&self, f: &mut fmt::Formatter<'_>) -> fmt::Result {
        match self { Term::Lit(s) => write!(f, "{s}"), _ => write!(f, "§") }
    }
}
impl Term {
    pub fn pretty(&self) -> String {
        match self {
            Term::Lit(s) => s.clone(),
            Term::Cst(k) => format!("c{k}"),
            Term::Var(i) => format!("v{i}"),
            Term::Un(k, a) => format!("u{k}[{}]", a.pretty()),
            Term::Bin(k, a, b) => format!("b{k}[{},{}]", a.pretty(), b.pretty()),
            Term::Dflt => "DFLT".into(),
        }
    }
    pub fn has_dflt(&self) -> bool {
        match self { Term::Dflt => true, Term::Un(_, a) => a.has_dflt(), Term::Bin(_, a, b) => a.has_dflt() || b.has_dflt(), _ => false }
    }
}
impl FromStr for Term {
    type Err = exmex::ExError;
    fn from_str(s: &str) -> Result<Self, Self::Err> { Ok(Term::Lit(s.to_string())) }
}

#[derive(Clone, Debug, PartialEq)]
pub struct OpSpec { pub repr: String, pub bin: Option<(i64, bool)>, pub unary: bool, pub constant: bool }
impl OpSpec {
    pub fn bin(repr: &str, prio: i64, comm: bool) -> Self { OpSpec { repr: repr.into(), bin: Some((prio, comm)), unary: false, constant: false } }
    pub fn bin_un(repr: &str, prio: i64, comm: bool) -> Self { OpSpec { repr: repr.into(), bin: Some((prio, comm)), unary: true, constant: false } }
    pub fn un(repr: &str) -> Self { OpSpec { repr: repr.into(), bin: None, unary: true, constant: false } }
    pub fn cst(repr: &str) -> Self { OpSpec { repr: repr.into(), bin: None, unary: false, constant: true } }
}
thread_local! { static TABLE: RefCell<&'static [OpSpec]> = RefCell::new(&[]); }
/// installs the operator table for this thread (leaked: expressions borrow the names for 'static)
pub fn set_table(tb: &[OpSpec]) -> &'static [OpSpec] {
    let leaked: &'static [OpSpec] = Box::leak(tb.to_vec().into_boxed_slice());
    TABLE.with(|t| *t.borrow_mut() = leaked);
    leaked
}
pub fn table() -> &'static [OpSpec] { TABLE.with(|t| *t.borrow()) }

macro_rules! mk { ($($k:literal),*) => {
    const BINS: [fn(Term,Term)->Term; 72] = [$(|a,b| Term::Bin($k, Box::new(a), Box::new(b))),*];
    const UNS: [fn(Term)->Term; 72] = [$(|a| Term::Un($k, Box::new(a))),*];
}}
mk!(0,1,2,3,4,5,6,7,8,9,10,11,12,13,14,15,16,17,18,19,20,21,22,23,24,25,26,27,28,29,30,31,32,33,34,35,36,37,38,39,40,41,42,43,44,45,46,47,48,49,50,51,52,53,54,55,56,57,58,59,60,61,62,63,64,65,66,67,68,69,70,71);
pub const MAX_OPS: usize = 32;
pub const MAX_TABLE: usize = 72;

#[derive(Clone, Debug)]
pub struct TF;
impl MakeOperators<Term> for TF {
    fn make<'a>() -> Vec<Operator<'a, Term>> {
        let tb: &'static [OpSpec] = table();
        tb.iter().enumerate().map(|(k, o)| {
            let r: &'static str = o.repr.as_str();
            match (o.bin, o.unary, o.constant) {
                (_, _, true) => Operator::make_constant(r, Term::Cst(k)),
                (Some((prio, c)), false, _) => Operator::make_bin(r, BinOp { apply: BINS[k], prio, is_commutative: c }),
                (Some((prio, c)), true, _) => Operator::make_bin_unary(r, BinOp { apply: BINS[k], prio, is_commutative: c }, UNS[k]),
                (None, true, _) => Operator::make_unary(r, UNS[k]),
                (None, false, false) => unreachable!(),
            }
        }).collect()
    }
}
pub type FE = exmex::FlatEx<Term, TF>;
pub type DE = exmex::DeepEx<'static, Term, TF>;

/// associativity normal form (chains of one flagged operator re-nested to the right)
pub fn anf(t: &Term, tb: &[OpSpec]) -> Term {
    match t {
        Term::Bin(k, _, _) if tb[*k].bin.map(|b| b.1).unwrap_or(false) => {
            let mut leaves = vec![]; collect(t, *k, tb, &mut leaves);
            let mut it = leaves.into_iter().rev(); let mut acc = it.next().unwrap();
            for l in it { acc = Term::Bin(*k, Box::new(l), Box::new(acc)); }
            acc
        }
        Term::Bin(k, a, b) => Term::Bin(*k, Box::new(anf(a, tb)), Box::new(anf(b, tb))),
        Term::Un(k, a) => Term::Un(*k, Box::new(anf(a, tb))),
        x => x.clone(),
    }
}
fn collect(t: &Term, k: usize, tb: &[OpSpec], out: &mut Vec<Term>) {
    match t { Term::Bin(k2, a, b) if *k2 == k => { collect(a, k, tb, out); collect(b, k, tb, out) } x => out.push(anf(x, tb)) }
}

// ---- Gallina printers
pub fn g_str(s: &str) -> String {
    let cps: Vec<String> = s.chars().map(|c| format!("{}", c as u32)).collect();
    format!("[{}]%N", cps.join(";"))
}
pub fn g_term(t: &Term) -> String {
    match t {
        Term::Lit(s) => format!("(Lit {})", g_str(s)),
        Term::Cst(k) => format!("(Cst {k})"),
        Term::Var(i) => format!("(V {i})"),
        Term::Un(k, a) => format!("(Un {k} {})", g_term(a)),
        Term::Bin(k, a, b) => format!("(Bin {k} {} {})", g_term(a), g_term(b)),
        Term::Dflt => "Dflt".into(),
    }
}
pub fn g_table(tb: &[OpSpec]) -> String {
    let specs: Vec<String> = tb.iter().map(|o| format!(
        "{{| repr := {}; obin := {}; ounary := {}; oconst := {} |}}",
        g_str(&o.repr),
        match o.bin { Some((p, c)) => format!("Some {{| prio := ({p})%Z; comm := {c} |}}"), None => "None".into() },
        o.unary, o.constant)).collect();
    format!("[{}]", specs.join(";\n  "))
}

// ---- what DiffDataType needs: neutral elements and the constants of the derivative rules, as literals
impl From<u8> for Term { fn from(v: u8) -> Self { Term::Lit(format!("{v}")) } }
impl From<f32> for Term { fn from(v: f32) -> Self { Term::Lit(format!("{v}")) } }

/// the operator table of FloatOpsFactory::<f64> (names, priorities, flags, roles) as a term table:
/// regenerated from the implementation on every run
pub fn float_table() -> Vec<OpSpec> {
    use exmex::{FloatOpsFactory, MakeOperators};
    FloatOpsFactory::<f64>::make().iter().map(|o| OpSpec {
        repr: o.repr().to_string(), bin: o.bin().ok().map(|b| (b.prio, b.is_commutative)), unary: o.has_unary(), constant: o.constant().is_some() }).collect()
}
/// the operator table of ValOpsFactory::<i32, f64> as a term table
pub fn val_table() -> Vec<OpSpec> {
    use exmex::{ValOpsFactory, MakeOperators};
    ValOpsFactory::<i32, f64>::make().iter().map(|o| OpSpec {
        repr: o.repr().to_string(), bin: o.bin().ok().map(|b| (b.prio, b.is_commutative)), unary: o.has_unary(), constant: o.constant().is_some() }).collect()
}
/// `Val::None` in the numeric reading: a NaN with a payload no arithmetic produces
pub const NONE_BITS: u64 = 0x7ff8_dead_beef_0001;
/// numeric reading of a term over a table with the float operator names (oracle only)
pub fn interp(t: &Term, tb: &[OpSpec], vars: &[f64]) -> f64 {
    match t {
        Term::Lit(s) => s.parse::<f64>().unwrap_or(f64::NAN),
        Term::Cst(k) => match tb[*k].repr.as_str() { "PI" | "π" => std::f64::consts::PI, "E" | "e" => std::f64::consts::E, "TAU" | "τ" => std::f64::consts::TAU, _ => f64::NAN },
        Term::Var(i) => vars.get(*i).copied().unwrap_or(f64::NAN),
        Term::Dflt => f64::NAN,
        Term::Un(k, a) => { let x = interp(a, tb, vars); match tb[*k].repr.as_str() {
            "+" => x, "-" => -x, "abs" => x.abs(), "signum" => x.signum(), "sin" => x.sin(), "cos" => x.cos(), "tan" => x.tan(), "asin" => x.asin(), "acos" => x.acos(), "atan" => x.atan(),
            "sinh" => x.sinh(), "cosh" => x.cosh(), "tanh" => x.tanh(), "asinh" => x.asinh(), "acosh" => x.acosh(), "atanh" => x.atanh(), "floor" => x.floor(), "round" => x.round(), "ceil" => x.ceil(),
            "trunc" => x.trunc(), "fract" => x.fract(), "exp" => x.exp(), "sqrt" => x.sqrt(), "cbrt" => x.cbrt(), "ln" | "log" => x.ln(), "log2" => x.log2(), "log10" => x.log10(), _ => f64::NAN } }
        Term::Bin(k, a, b) => { let (x, y) = (interp(a, tb, vars), interp(b, tb, vars)); match tb[*k].repr.as_str() {
            "+" => x + y, "-" => x - y, "*" => x * y, "/" => x / y, "^" => x.powf(y), "atan2" => x.atan2(y), "min" => x.min(y), "max" => x.max(y),
            ">" => (x > y) as i32 as f64, "<" => (x < y) as i32 as f64, ">=" => (x >= y) as i32 as f64, "<=" => (x <= y) as i32 as f64, "==" => (x == y) as i32 as f64, "!=" => (x != y) as i32 as f64,
            // `a if c` yields a when c is true and "none" (NaN here) otherwise; `n else b` yields b when n is none
            "if" => if y != 0.0 { x } else { f64::from_bits(NONE_BITS) }, "else" => if x.to_bits() == NONE_BITS { y } else { x },
            _ => f64::NAN } }
    }
}
