(* Proofs/FlatEval.v — evaluation of ANY flat expression (not only parsed ones) is the precedence
   reference of its keys: split at the rightmost operator of minimal key, recursively. *)
From Coq Require Import List Arith Lia Bool ZArith.
Import ListNotations.
From Exmex.Model Require Import Base EvalBinary Lexer Flat.
From Exmex.Proofs Require Import ChainMachine SortedRef SortDesc EvalBinaryCorrect.

Section FlatEval.
Context {D : Type}.
Variable C : carrier D.
Variable fixed_bump : bool.

Theorem eval_numbers_is_ref : forall (nodes : list (fnode D)) (ops : list fop) (x : D) (rest : list D),
  length rest = length ops ->
  eval_numbers C (x :: rest) ops (prioritized_indices_flat fixed_bump ops nodes)
  = Ok (ref_val D (op_at C ops) (key fixed_bump nodes ops) (length ops) x
          (chain_from D (vals_of D (dflt C) (x :: rest)) 0 (length ops))).
Proof.
  intros nodes ops x rest Hlen.
  unfold eval_numbers, prioritized_indices_flat.
  destruct (sort_desc_spec (key fixed_bump nodes ops) (length ops)) as (HS & ND & Hiff).
  rewrite <- Hlen at 1.
  apply eval_binary_run.
  - exact ND.
  - intros i. rewrite Hlen. apply Hiff.
  - rewrite Hlen.
    apply (run_sorted_is_ref D (op_at C ops) (key fixed_bump nodes ops) (length ops) x _ 0).
    + unfold chain_from. rewrite map_length, seq_length. lia.
    + apply chain_from_inc.
    + exact HS.
    + intros i. rewrite Hiff, chain_from_ids, in_seq. lia.
Qed.
End FlatEval.
