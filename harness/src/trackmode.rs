//! C14, machine level: random operation histories on the two NumberTracker implementations of number_tracker.rs
//! (reached through the verification hook) against (a) a Vec<bool> oracle on histories that respect the invariants of
//! eval_binary (position 0 and the last position are never ignored) and (b) the word-level model Model/Tracker.v
//! evaluated in Coq, on those and on unconstrained histories.
use crate::gen::Rng;
use crate::modes::Args;
use exmex::verif_hooks::NumberTracker;
use std::io::Write;

#[derive(Clone, Debug)]
enum Op { Ign(usize), Prev(usize, Option<usize>), Next(usize, Option<usize>) }

fn json_str(s: &str) -> String { format!("{:?}", s) }

fn run_history(nwords: usize, plan: &[(u8, usize)]) -> Vec<Op> {
    // returns the operations with the implementation's answers; None = the call panicked
    let mut out = vec![];
    if nwords == 0 {
        let mut t: usize = 0;
        for &(k, i) in plan {
            match k {
                0 => { let mut t2 = t; if std::panic::catch_unwind(move || { NumberTracker::ignore(&mut t2, i); t2 }).map(|v| t = v).is_ok() { out.push(Op::Ign(i)) } }
                1 => { let t2 = t; out.push(Op::Prev(i, std::panic::catch_unwind(move || NumberTracker::get_previous(&t2, i)).ok())) }
                _ => { let t2 = t; out.push(Op::Next(i, std::panic::catch_unwind(move || NumberTracker::get_next(&t2, i)).ok())) }
            }
        }
    } else {
        let mut t: Vec<usize> = vec![0; nwords];
        for &(k, i) in plan {
            match k {
                0 => { let mut t2 = t.clone(); if std::panic::catch_unwind(move || { NumberTracker::ignore(&mut t2[..], i); t2 }).map(|v| t = v).is_ok() { out.push(Op::Ign(i)) } }
                1 => { let t2 = t.clone(); out.push(Op::Prev(i, std::panic::catch_unwind(move || NumberTracker::get_previous(&t2[..], i)).ok())) }
                _ => { let t2 = t.clone(); out.push(Op::Next(i, std::panic::catch_unwind(move || NumberTracker::get_next(&t2[..], i)).ok())) }
            }
        }
    }
    out
}

fn oracle(cap: usize, ops: &[Op]) -> (bool, String) {
    let mut ign = vec![false; cap];
    for op in ops {
        match op {
            Op::Ign(j) => ign[*j] = true,
            Op::Prev(i, r) => { let mut c = 0; let mut p = *i as isize; while p >= 0 && ign[p as usize] { c += 1; p -= 1 }
                if *r != Some(c) { return (false, format!("get_previous({i}) = {r:?}, the vector of booleans gives {c}")) } }
            Op::Next(i, r) => { let mut c = 1; let mut p = *i + 1; while p < cap && ign[p] { c += 1; p += 1 }
                if *r != Some(c) { return (false, format!("get_next({i}) = {r:?}, the vector of booleans gives {c}")) } }
        }
    }
    (true, String::new())
}

pub fn run(a: &Args) {
    let mut r = Rng::new(a.seed ^ 0x14_7);
    struct C { g: String, note: String, family: &'static str, ok: Option<bool>, onote: String, size: usize }
    let mut cases: Vec<C> = vec![];
    let reps = a.n.max(1);
    for rep in 0..reps {
        for &nwords in &[0usize, 1, 2, 3, 5] {
            let cap = if nwords == 0 { 64 } else { 64 * nwords };
            for constrained in [true, false] {
                let mut plan: Vec<(u8, usize)> = vec![];
                let len = 30 + r.below(50);
                // runs of ignored positions that cross word boundaries and fill whole words
                let style = r.below(4);
                for _ in 0..len {
                    let k = r.below(10);
                    if k < 5 {
                        let j = match style { 0 => r.below(cap), 1 => { let b = 64 * r.below(nwords.max(1)); (b + 56 + r.below(16)).min(cap - 1) }, _ => r.below(cap) };
                        if constrained && (j == 0 || j == cap - 1) { continue }
                        if style >= 2 && r.chance(1, 3) {
                            // a long run
                            let lo = j; let hi = (j + 1 + r.below(140)).min(cap - if constrained { 1 } else { 0 });
                            for q in lo..hi { if !(constrained && q == 0) { plan.push((0, q)) } }
                        } else { plan.push((0, j)) }
                    } else if k < 8 { plan.push((1, r.below(cap))) } else { plan.push((2, r.below(cap))) }
                }
                if !constrained && r.chance(1, 4) { plan.push((0, cap + r.below(3))); plan.push((1, cap + r.below(70))); plan.push((2, cap + r.below(70))) }
                // queries at the boundaries at the end
                for w in 0..nwords.max(1) { for d in [0usize, 1, 62, 63] { let i = 64 * w + d; if i < cap { plan.push((1, i)); plan.push((2, i)) } } }
                let ops = run_history(nwords, &plan);
                let (ok, onote) = if constrained { let (o, n) = oracle(cap, &ops); (Some(o), n) } else { (None, String::new()) };
                let g_ops: Vec<String> = ops.iter().map(|o| match o {
                    Op::Ign(j) => format!("TIgn {j}"),
                    Op::Prev(i, r) => format!("TPrev {i} {}", match r { Some(v) => format!("(Some {v})"), None => "None".into() }),
                    Op::Next(i, r) => format!("TNext {i} {}", match r { Some(v) => format!("(Some {v})"), None => "None".into() }) }).collect();
                cases.push(C { g: format!("TCase {nwords} [{}]", g_ops.join("; ")), note: format!("tracker words={nwords} constrained={constrained} ops={} rep={rep}", ops.len()),
                    family: if constrained { "invariant-respecting-history" } else { "unconstrained-history" }, ok, onote, size: ops.len() });
            }
        }
    }
    // two separately merged groups around every word boundary: [a0,b0) and [c0,d0) ignored, every position queried
    for &nwords in &[2usize, 3, 4] {
        let cap = 64 * nwords;
        for k in 1..nwords {
            let w = 64 * k;
            for a0 in [w - 5, w - 2, w - 1] { for b0 in [w - 1, w] { for c0 in [w, w + 1, w + 2] { for d0 in [w + 31, w + 62, w + 63, w + 64, w + 65, w + 70] {
                if !(a0 < b0 && b0 <= c0 && c0 < d0 && d0 < cap - 1) { continue }
                let mut plan: Vec<(u8, usize)> = vec![];
                // right group first or left group first
                let order = (a0 + b0 + c0 + d0) % 2 == 0;
                let left: Vec<usize> = (a0..b0).collect(); let right: Vec<usize> = (c0..d0).collect();
                let (first, second) = if order { (&left, &right) } else { (&right, &left) };
                for &q in first.iter() { plan.push((0, q)) }
                for i in a0.saturating_sub(2)..(d0 + 3).min(cap) { plan.push((1, i)); plan.push((2, i)) }
                for &q in second.iter() { plan.push((0, q)) }
                for i in a0.saturating_sub(2)..(d0 + 3).min(cap) { plan.push((1, i)); plan.push((2, i)) }
                let ops = run_history(nwords, &plan);
                let (o, onote) = oracle(cap, &ops);
                let g_ops: Vec<String> = ops.iter().map(|o| match o {
                    Op::Ign(j) => format!("TIgn {j}"),
                    Op::Prev(i, r) => format!("TPrev {i} {}", match r { Some(v) => format!("(Some {v})"), None => "None".into() }),
                    Op::Next(i, r) => format!("TNext {i} {}", match r { Some(v) => format!("(Some {v})"), None => "None".into() }) }).collect();
                cases.push(C { g: format!("TCase {nwords} [{}]", g_ops.join("; ")), note: format!("tracker words={nwords} groups [{a0},{b0}) [{c0},{d0})"),
                    family: "two-groups-at-a-word-boundary", ok: Some(o), onote, size: ops.len() });
            } } } }
        }
    }
    std::fs::create_dir_all(&a.out).unwrap();
    let shard = a.shard.max(1);
    let n_shards = (cases.len() + shard - 1) / shard;
    for k in 0..n_shards {
        let mut s = String::from("From Coq Require Import List NArith.\nImport ListNotations.\nFrom Exmex.Corr Require Import TrackerDriver.\nDefinition cases : list tcase := [\n");
        let items: Vec<&str> = cases.iter().enumerate().filter(|(i, _)| i % n_shards == k).map(|(_, c)| c.g.as_str()).collect();
        s.push_str(&items.join(";\n"));
        s.push_str("].\nEval vm_compute in (tmismatches cases).\n");
        std::fs::write(format!("{}/cases_{k}.v", a.out), s).unwrap();
    }
    let mut f = std::io::BufWriter::new(std::fs::File::create(format!("{}/meta.json", a.out)).unwrap());
    writeln!(f, "{{\"shard_size\": {shard}, \"n_shards\": {n_shards}, \"tables\": [[]], \"cases\": [").unwrap();
    for (i, c) in cases.iter().enumerate() {
        writeln!(f, "{{\"tb\": 0, \"family\": {}, \"note\": {}, \"prog\": {}, \"size\": {}, \"nontrivial\": true, \"oracle_ok\": {}, \"oracle_note\": {}, \"answers\": [[\"history\", {}]]}}{}",
            json_str(c.family), json_str(&c.note), json_str(&c.note), c.size, match c.ok { Some(b) => b.to_string(), None => "null".into() }, json_str(&c.onote), json_str(&c.g.chars().take(300).collect::<String>()), if i + 1 < cases.len() { "," } else { "" }).unwrap();
    }
    writeln!(f, "]}}").unwrap();
    let bad = cases.iter().filter(|c| c.ok == Some(false)).count();
    println!("mode=c14t histories={} oracle_failures={bad}", cases.len());
}
