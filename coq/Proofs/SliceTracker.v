(* Proofs/SliceTracker.v — the machine-word trackers of number_tracker.rs implement the vector of booleans of
   Model/EvalBinary.v: `impl NumberTracker for usize` for up to 64 numbers, `impl NumberTracker for [usize]` for any
   number of words (runs that cross word boundaries, all-ones words, the spare zero bit behind the last number), and
   eval_binary run with either of them returns what the abstract loop returns whenever that one succeeds — in
   particular for every valid schedule of every length (C14_any_schedule). *)
From Coq Require Import ZArith NArith List Lia Bool Arith.
Import ListNotations.
From Exmex.Model Require Import Base EvalBinary Tracker.
From Exmex.Proofs Require Import Runs WordBits.

(* ---- shifting runs ---- *)
Lemma up_run_shift b p : forall f pos, up_run b (p + pos) f = up_run (fun j => b (p + j)) pos f.
Proof. induction f as [|f IH]; intros pos; [reflexivity|]. cbn [up_run]. replace (S (p + pos)) with (p + S pos) by lia. rewrite IH. reflexivity. Qed.

Lemma nth_set_nth {A} (d : A) : forall (l : list A) i j x, i < length l -> nth j (set_nth i x l) d = if Nat.eqb j i then x else nth j l d.
Proof.
  induction l as [|a l IH]; intros i j x Hi; [cbn in Hi; lia|].
  destruct i, j; cbn; try reflexivity. apply IH. cbn in Hi. lia.
Qed.
Lemma length_set_nth {A} : forall (l : list A) i x, length (set_nth i x l) = length l.
Proof. induction l as [|a l IH]; intros i x; [destruct i; reflexivity|]. destruct i; cbn; [reflexivity|]. rewrite IH. reflexivity. Qed.

(* ---- slices of words as one bit function ---- *)
Definition sclean (ws : list N) : Prop := Forall clean ws.
Definition B (ws : list N) (j : nat) : bool := wb (nth (j / 64) ws 0%N) (j mod 64).

Lemma B_block ws s j : j < 64 -> B ws (64 * s + j) = wb (nth s ws 0%N) j.
Proof.
  intros Hj. unfold B. replace (64 * s + j) with (j + s * 64) by lia.
  rewrite Nat.div_add, Nat.mod_add by lia. rewrite Nat.div_small, Nat.mod_small by lia. reflexivity.
Qed.
Lemma sclean_nth ws s : sclean ws -> clean (nth s ws 0%N).
Proof.
  intros H. destruct (Nat.lt_ge_cases s (length ws)) as [Hlt|Hge].
  - unfold sclean in H. rewrite Forall_forall in H. apply H. apply nth_In. exact Hlt.
  - rewrite nth_overflow by exact Hge. apply clean_0.
Qed.
Lemma B_beyond ws j : sclean ws -> 64 * length ws <= j -> B ws j = false.
Proof.
  intros _ Hj. unfold B. rewrite nth_overflow.
  - unfold wb. apply N.bits_0.
  - apply Nat.div_le_lower_bound; lia.
Qed.

Lemma firstn_S_nth_d {A} (d : A) : forall (l : list A) s, s < length l -> firstn (S s) l = firstn s l ++ [nth s l d].
Proof.
  induction l as [|a l IH]; intros s H; [cbn in H; lia|]. destruct s; [reflexivity|].
  change (firstn (S (S s)) (a :: l)) with (a :: firstn (S s) l). rewrite (IH s) by (cbn in H; lia). reflexivity.
Qed.
Lemma skipn_nth_d {A} (d : A) : forall (l : list A) s, s < length l -> skipn s l = nth s l d :: skipn (S s) l.
Proof.
  induction l as [|a l IH]; intros s H; [cbn in H; lia|]. destruct s; [reflexivity|]. cbn [skipn nth]. apply IH. cbn in H. lia.
Qed.

(* whole words below a boundary *)
Lemma scan_down_run ws : sclean ws -> forall s, s <= length ws -> down_run (B ws) (64 * s) = scan_down (rev (firstn s ws)).
Proof.
  intros Hc. induction s as [|s IH]; intros Hs; [reflexivity|].
  replace (64 * S s) with (64 * s + 64) by lia. rewrite down_run_split.
  rewrite (down_run_ext (fun j => B ws (64 * s + j)) (wb (nth s ws 0%N)) 64) by (intros j Hj; apply B_block; exact Hj).
  rewrite (firstn_S_nth_d 0%N ws s) by lia. rewrite rev_app_distr. cbn [rev app scan_down].
  destruct (scan_word_down (nth s ws 0%N) (sclean_nth ws s Hc)) as [E1 E2].
  rewrite <- IH by lia.
  destruct (N.eqb (nth s ws 0%N) MAXW) eqn:Em.
  - rewrite (proj1 E2 eq_refl). rewrite Nat.eqb_refl. reflexivity.
  - destruct (Nat.eqb_spec (down_run (wb (nth s ws 0%N)) 64) 64) as [E|_]; [apply (proj2 E2) in E; discriminate|]. symmetry. exact E1.
Qed.
(* whole words above a boundary, to the end of the slice *)
Lemma scan_up_run ws : sclean ws -> forall n s, s + n = length ws -> up_run (B ws) (64 * s) (64 * n) = scan_up (skipn s ws).
Proof.
  intros Hc. induction n as [|n IH]; intros s Hs.
  - rewrite skipn_all2 by lia. reflexivity.
  - replace (64 * S n) with (64 + 64 * n) by lia. rewrite up_run_split.
    assert (E0 : up_run (B ws) (64 * s) 64 = up_run (wb (nth s ws 0%N)) 0 64).
    { replace (64 * s) with (64 * s + 0) by lia. rewrite (up_run_shift (B ws) (64 * s) 64 0).
      apply up_run_ext. intros j Hj. apply B_block. lia. }
    rewrite E0.
    rewrite (skipn_nth_d 0%N ws s) by lia. cbn [scan_up].
    destruct (scan_word_up (nth s ws 0%N) (sclean_nth ws s Hc)) as [E1 E2].
    replace (64 * s + 64) with (64 * S s) by lia. rewrite (IH (S s)) by lia.
    destruct (N.eqb (nth s ws 0%N) MAXW) eqn:Em.
    + rewrite (proj1 E2 eq_refl). rewrite Nat.eqb_refl. reflexivity.
    + destruct (Nat.eqb_spec (up_run (wb (nth s ws 0%N)) 0 64) 64) as [E|_]; [apply (proj2 E2) in E; discriminate|]. symmetry. exact E1.
Qed.

Lemma div_mod_64 idx : idx = 64 * (idx / 64) + idx mod 64 /\ idx mod 64 < 64.
Proof. split; [apply Nat.div_mod; lia|apply Nat.mod_upper_bound; lia]. Qed.

Theorem slice_prev ws idx : sclean ws -> idx / 64 < length ws ->
  s_get_previous ws idx = Some (down_run (B ws) (S idx)).
Proof.
  intros Hc Hseg. unfold s_get_previous. destruct (div_mod_64 idx) as [Eidx Hbit].
  set (seg := idx / 64) in *. set (bit := idx mod 64) in *.
  rewrite (nth_error_nth' ws 0%N Hseg). f_equal.
  pose proof (sclean_nth ws seg Hc) as Hw.
  rewrite (word_prev_capped _ bit Hw Hbit).
  replace (S idx) with (64 * seg + S bit) by lia. rewrite down_run_split.
  rewrite (down_run_ext (fun j => B ws (64 * seg + j)) (wb (nth seg ws 0%N)) (S bit)) by (intros j Hj; apply B_block; lia).
  rewrite (scan_down_run ws Hc seg) by lia.
  destruct (Nat.eqb_spec (down_run (wb (nth seg ws 0%N)) (S bit)) (S bit)) as [E|]; [rewrite E|]; reflexivity.
Qed.

Theorem slice_next ws idx : sclean ws -> idx / 64 < length ws ->
  s_get_next ws idx = Some (S (up_run (B ws) (S idx) (64 * length ws - S idx))).
Proof.
  intros Hc Hseg. unfold s_get_next. destruct (div_mod_64 idx) as [Eidx Hbit].
  set (seg := idx / 64) in *. set (bit := idx mod 64) in *.
  rewrite (nth_error_nth' ws 0%N Hseg). f_equal.
  pose proof (sclean_nth ws seg Hc) as Hw.
  rewrite (word_next_capped _ bit Hw Hbit).
  replace (64 * length ws - S idx) with ((63 - bit) + 64 * (length ws - S seg)) by lia.
  rewrite up_run_split.
  assert (E1 : up_run (B ws) (S idx) (63 - bit) = up_run (wb (nth seg ws 0%N)) (S bit) (63 - bit)).
  { replace (S idx) with (64 * seg + S bit) by lia. rewrite up_run_shift.
    apply up_run_ext. intros j Hj. apply B_block. lia. }
  rewrite E1. set (c := up_run (wb (nth seg ws 0%N)) (S bit) (63 - bit)).
  replace (S idx + (63 - bit)) with (64 * S seg) by lia.
  rewrite (scan_up_run ws Hc (length ws - S seg) (S seg)) by lia.
  destruct (Nat.eqb_spec c (63 - bit)) as [E|Hne].
  - destruct (Nat.eqb_spec (S c) (64 - bit)); [lia|lia].
  - destruct (Nat.eqb_spec (S c) (64 - bit)); [lia|reflexivity].
Qed.

Theorem slice_ignore ws idx : sclean ws -> idx / 64 < length ws ->
  exists ws', s_ignore ws idx = Some ws' /\ sclean ws' /\ length ws' = length ws /\
              forall j, B ws' j = B ws j || Nat.eqb j idx.
Proof.
  intros Hc Hseg. unfold s_ignore. destruct (div_mod_64 idx) as [Eidx Hbit].
  set (seg := idx / 64) in *. set (bit := idx mod 64) in *.
  rewrite (nth_error_nth' ws 0%N Hseg).
  pose proof (sclean_nth ws seg Hc) as Hw. destruct (set_bit _ bit Hw Hbit) as [Hc' Hb'].
  eexists. split; [reflexivity|]. split; [|split; [apply length_set_nth|]].
  - unfold sclean. apply Forall_forall. intros w Hin. destruct (In_nth _ _ 0%N Hin) as (k & Hk & <-).
    rewrite length_set_nth in Hk. rewrite nth_set_nth by exact Hseg.
    destruct (Nat.eqb k seg); [exact Hc'|apply sclean_nth; exact Hc].
  - intros j. unfold B. rewrite nth_set_nth by exact Hseg. destruct (div_mod_64 j) as [Ej Hjb].
    destruct (Nat.eqb_spec (j / 64) seg) as [E|Hne].
    + rewrite Hb'. rewrite E. f_equal. destruct (Nat.eqb_spec (j mod 64) bit) as [E'|Hne']; destruct (Nat.eqb_spec j idx); try reflexivity; lia.
    + destruct (Nat.eqb_spec j idx) as [->|_]; [contradiction|]. rewrite orb_false_r. reflexivity.
Qed.

(* ---- a tracker implements the vector of booleans ---- *)
Section Refinement.
Context {D T : Type}.
Variable dflt : D.
Variable opf : nat -> D -> D -> D.
Variable tr : tracker T.
Variable bits : T -> nat -> bool.
Variable tok : T -> Prop.
Variable cap : T -> nat.
Hypothesis bits_beyond : forall t j, tok t -> cap t <= j -> bits t j = false.
Hypothesis prev_ok : forall t idx, tok t -> idx < cap t -> bits t 0 = false -> t_prev tr t idx = Some (down_run (bits t) (S idx)).
Hypothesis next_ok : forall t idx, tok t -> idx < cap t -> bits t 0 = false ->
  t_next tr t idx = Some (S (up_run (bits t) (S idx) (cap t - S idx))).
Hypothesis ign_ok : forall t j, tok t -> j < cap t ->
  exists t', t_ign tr t j = Some t' /\ tok t' /\ cap t' = cap t /\ forall i, bits t' i = bits t i || Nat.eqb i j.

Definition rel (ign : list bool) (nums : list D) (t : T) : Prop :=
  tok t /\ length ign = length nums /\ length ign <= cap t /\ (forall j, bits t j = nth j ign false) /\ nth 0 ign false = false.

Lemma mstep_refines idx nums ign t nums' ign' : rel ign nums t ->
  astep dflt opf idx (nums, ign) = Some (nums', ign') ->
  exists t', mstep dflt opf tr idx (nums, t) = Some (nums', t') /\ rel ign' nums' t'.
Proof.
  intros (Htok & Hlen & Hcap & Hbits & H0) Hstep. unfold astep in Hstep.
  set (sl := get_previous ign idx) in *. set (sr := get_next_from ign (S idx) (length ign)) in *.
  destruct (Nat.ltb_spec idx sl) as [|Hsl]; [discriminate|].
  destruct (nth_error nums (idx - sl)) as [a|] eqn:Ea; [|discriminate].
  destruct (nth_error nums (idx + sr)) as [b|] eqn:Eb; [|discriminate].
  inversion Hstep; subst nums' ign'. clear Hstep.
  assert (Hi2 : idx + sr < length nums) by (apply nth_error_Some; congruence).
  assert (Hsr1 : 1 <= sr) by (unfold sr; rewrite get_next_from_run; lia).
  assert (Hidx : idx < cap t) by lia.
  assert (Hb0 : bits t 0 = false) by (rewrite Hbits; exact H0).
  assert (Esl : t_prev tr t idx = Some sl).
  { rewrite (prev_ok t idx Htok Hidx Hb0). f_equal. unfold sl. rewrite get_previous_run. apply down_run_ext. intros j _. apply Hbits. }
  assert (Esr : t_next tr t idx = Some sr).
  { rewrite (next_ok t idx Htok Hidx Hb0). f_equal. unfold sr. rewrite get_next_from_run. f_equal.
    rewrite (up_run_ext (bits t) (fun j => nth j ign false)) by (intros j _; apply Hbits).
    assert (Hfalse : forall j, length ign <= j -> nth j ign false = false) by (intros j Hj; apply nth_overflow; exact Hj).
    rewrite (up_run_fuel _ (length ign) Hfalse (cap t - S idx) (S idx)) by lia.
    rewrite (up_run_fuel _ (length ign) Hfalse (length ign) (S idx)) by lia. reflexivity. }
  destruct (ign_ok t (idx + sr) Htok ltac:(lia)) as (t' & Eign & Htok' & Hcap' & Hbits').
  exists t'. split.
  - unfold mstep. rewrite Esl, Esr, Eign. destruct (Nat.ltb_spec idx sl) as [|_]; [lia|]. rewrite Ea, Eb. reflexivity.
  - split; [exact Htok'|]. split; [rewrite !length_set_nth; exact Hlen|]. split; [rewrite length_set_nth, Hcap'; exact Hcap|]. split.
    + intros j. rewrite Hbits', Hbits. rewrite nth_set_nth by lia.
      destruct (Nat.eqb j (idx + sr)); [apply orb_true_r|apply orb_false_r].
    + rewrite nth_set_nth by lia. destruct (Nat.eqb_spec 0 (idx + sr)); [lia|exact H0].
Qed.

Theorem mrun_refines : forall sigma nums ign t nums' ign', rel ign nums t ->
  arun dflt opf sigma (nums, ign) = Some (nums', ign') ->
  exists t', mrun dflt opf tr sigma (nums, t) = Some (nums', t').
Proof.
  induction sigma as [|i sigma IH]; intros nums ign t nums' ign' Hrel Hrun.
  - cbn in *. inversion Hrun; subst. exists t. reflexivity.
  - cbn [arun mrun] in *. destruct (astep dflt opf i (nums, ign)) as [[nums1 ign1]|] eqn:Es; [|discriminate].
    destruct (mstep_refines i nums ign t nums1 ign1 Hrel Es) as (t1 & Em & Hrel1). rewrite Em.
    exact (IH nums1 ign1 t1 nums' ign' Hrel1 Hrun).
Qed.
End Refinement.

(* ---- the two trackers ---- *)
Lemma repeat_false_nth n j : nth j (repeat false n) false = false.
Proof. revert j. induction n as [|n IH]; intros j; destruct j; cbn; auto. Qed.

Section Machines.
Context {D : Type}.
Variable dflt : D.
Variable opf : nat -> D -> D -> D.

Lemma word_refines sigma nums nums' ign' : length nums <= 64 -> nums <> [] ->
  arun dflt opf sigma (nums, repeat false (length nums)) = Some (nums', ign') ->
  exists t', mrun dflt opf word_tracker sigma (nums, 0%N) = Some (nums', t').
Proof.
  intros Hlen Hne Hrun.
  apply (mrun_refines dflt opf word_tracker wb clean (fun _ => 64)) with (ign := repeat false (length nums)) (ign' := ign'); try exact Hrun.
  - intros t j Ht Hj. unfold wb. apply Ht. lia.
  - intros t idx Ht Hidx H0. cbn [word_tracker t_prev]. f_equal. apply word_prev_exact; assumption.
  - intros t idx Ht Hidx H0. cbn [word_tracker t_next]. f_equal. rewrite (word_next_exact t idx Ht Hidx H0).
    replace (64 - S idx) with (63 - idx) by lia. reflexivity.
  - intros t j Ht Hj. cbn [word_tracker t_ign]. unfold w_ignore. destruct (Nat.ltb_spec j 64) as [_|]; [|lia].
    destruct (set_bit t j Ht Hj) as [Hc Hb]. eexists. split; [reflexivity|]. split; [exact Hc|]. split; [reflexivity|exact Hb].
  - split; [apply clean_0|]. split; [apply repeat_length|]. split; [rewrite repeat_length; exact Hlen|]. split.
    + intros j. rewrite repeat_false_nth. unfold wb. apply N.bits_0.
    + apply repeat_false_nth.
Qed.

Lemma repeat0_clean n : sclean (repeat 0%N n).
Proof. unfold sclean. apply Forall_forall. intros w Hw. apply repeat_spec in Hw. subst. apply clean_0. Qed.
Lemma repeat0_bits n j : B (repeat 0%N n) j = false.
Proof.
  unfold B. assert (E : nth (j / 64) (repeat 0%N n) 0%N = 0%N).
  { generalize (j / 64). induction n as [|n IH]; intros k; destruct k; cbn; auto. }
  rewrite E. unfold wb. apply N.bits_0.
Qed.

Lemma slice_refines sigma nums nums' ign' :
  arun dflt opf sigma (nums, repeat false (length nums)) = Some (nums', ign') ->
  exists t', mrun dflt opf slice_tracker sigma (nums, repeat 0%N (1 + length nums / 64)) = Some (nums', t').
Proof.
  intros Hrun.
  apply (mrun_refines dflt opf slice_tracker B sclean (fun ws => 64 * length ws)) with (ign := repeat false (length nums)) (ign' := ign'); try exact Hrun.
  - intros t j Ht Hj. apply B_beyond; assumption.
  - intros t idx Ht Hidx _. cbn [slice_tracker t_prev]. apply slice_prev; [exact Ht|]. apply Nat.div_lt_upper_bound; lia.
  - intros t idx Ht Hidx _. cbn [slice_tracker t_next]. apply slice_next; [exact Ht|]. apply Nat.div_lt_upper_bound; lia.
  - intros t j Ht Hj. cbn [slice_tracker t_ign].
    destruct (slice_ignore t j Ht ltac:(apply Nat.div_lt_upper_bound; lia)) as (ws' & E & Hc & Hl & Hb).
    exists ws'. split; [exact E|]. split; [exact Hc|]. split; [rewrite Hl; reflexivity|exact Hb].
  - split; [apply repeat0_clean|]. split; [apply repeat_length|]. split.
    + rewrite !repeat_length. pose proof (Nat.div_mod (length nums) 64 ltac:(lia)). pose proof (Nat.mod_upper_bound (length nums) 64 ltac:(lia)). lia.
    + split; [intros j; rewrite repeat_false_nth; apply repeat0_bits|apply repeat_false_nth].
Qed.

(* eval_binary with the machine trackers, as the flat and the deep evaluation call it *)
Theorem machine_flat nums n_ops sigma v : nums <> [] ->
  eval_binary dflt opf nums n_ops sigma = Ok v -> eval_binary_flat_machine dflt opf nums sigma = Some v.
Proof.
  intros Hne H. unfold eval_binary in H. destruct (negb (forallb (fun i => i <? n_ops) sigma)); [discriminate|].
  destruct (arun dflt opf sigma (nums, repeat false (length nums))) as [[[|x nums'] ign']|] eqn:Er; try discriminate.
  inversion H; subst x. unfold eval_binary_flat_machine. destruct (Nat.leb_spec (length nums) 64) as [Hle|Hgt].
  - destruct (word_refines sigma nums _ _ Hle Hne Er) as (t' & ->). reflexivity.
  - destruct (slice_refines sigma nums _ _ Er) as (t' & ->). reflexivity.
Qed.
Theorem machine_deep nums n_ops sigma v :
  eval_binary dflt opf nums n_ops sigma = Ok v -> eval_binary_deep_machine dflt opf nums sigma = Some v.
Proof.
  intros H. unfold eval_binary in H. destruct (negb (forallb (fun i => i <? n_ops) sigma)); [discriminate|].
  destruct (arun dflt opf sigma (nums, repeat false (length nums))) as [[[|x nums'] ign']|] eqn:Er; try discriminate.
  inversion H; subst x. unfold eval_binary_deep_machine.
  destruct (slice_refines sigma nums _ _ Er) as (t' & ->). reflexivity.
Qed.
End Machines.
