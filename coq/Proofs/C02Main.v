(* Proofs/C02Main.v — constant folding of flat expressions, packaged: compile keeps the variable list and, for every
   assignment, the outcome of evaluation (values modulo R, errors exactly); any number of times; for every token list
   and every text the flat parser accepts. *)
From Coq Require Import List Arith Lia Bool ZArith.
Import ListNotations.
From Exmex.Model Require Import Base EvalBinary Lexer Flat.
From Exmex.Spec Require Import RefSem.
From Exmex.Proofs Require Import FlVals FlatPev CompileMachine CompileRefine CompileCorrect WalkOps.
Open Scope nat_scope.

Definition res_rel {D} (R : D -> D -> Prop) (a b : res D) : Prop :=
  match a, b with
  | Ok v, Ok w => R v w
  | Err e, Err e' => e = e'
  | Panic e, Panic e' => e = e'
  | _, _ => False
  end.

Section C02Main.
Context {D : Type}.
Variable C : carrier D.
Variable R : D -> D -> Prop.
Hypothesis R_refl : forall a, R a a.
Hypothesis R_sym : forall a b, R a b -> R b a.
Hypothesis R_trans : forall a b c, R a b -> R b c -> R a c.
Hypothesis R_bin : forall k a a' b b', R a a' -> R b b' -> R (binf C k a b) (binf C k a' b').
Hypothesis R_un : forall k a a', R a a' -> R (unf C k a) (unf C k a').

(* fx' denotes the same function of the variables as fx *)
Definition same_function (fx' fx : flatex D) : Prop :=
  fvars fx' = fvars fx /\ forall vals, res_rel R (eval_flat C fx' vals) (eval_flat C fx vals).

Lemma res_rel_refl a : res_rel R a a.
Proof. destruct a; cbn; auto. Qed.
Lemma res_rel_trans a b c : res_rel R a b -> res_rel R b c -> res_rel R a c.
Proof. destruct a, b, c; cbn; try tauto; try congruence. apply R_trans. Qed.
Lemma same_function_refl fx : same_function fx fx.
Proof. split; [reflexivity|intros; apply res_rel_refl]. Qed.
Lemma same_function_trans a b c : same_function a b -> same_function b c -> same_function a c.
Proof. intros [E1 H1] [E2 H2]. split; [congruence|]. intros vals. eapply res_rel_trans; [apply H1|apply H2]. Qed.

Lemma in_range_dec vals (nodes : list (fnode D)) : in_range vals nodes \/ ~ in_range vals nodes.
Proof.
  destruct (forallb (fun i => i <? length vals) (var_nodes nodes)) eqn:E.
  - left. apply in_range_var_nodes. intros i Hi. rewrite forallb_forall in E. apply Nat.ltb_lt. apply E. exact Hi.
  - right. intros H. rewrite in_range_var_nodes in H.
    assert (forallb (fun i => i <? length vals) (var_nodes nodes) = true) by (apply forallb_forall; intros i Hi; apply Nat.ltb_lt; apply H; exact Hi).
    congruence.
Qed.

Theorem compile_same_function (fx : flatex D) : flat_wf fx -> assoc_ok C R (fops fx) ->
  exists fx', compile C true fx = Ok fx' /\ flat_wf fx' /\ assoc_ok C R (fops fx') /\ ftext fx' = ftext fx /\ same_function fx' fx.
Proof.
  intros Hwf Ha.
  destruct (compile_preserves C R R_refl R_sym R_trans R_bin R_un fx Hwf Ha) as (fx' & Hc & Hwf' & Hv & Ht & Hsub & _ & Hev).
  exists fx'. split; [exact Hc|]. split; [exact Hwf'|]. split; [intros o Ho; apply Ha; apply Hsub; exact Ho|]. split; [exact Ht|].
  split; [exact Hv|]. intros vals. unfold eval_flat. rewrite Hv.
  destruct (negb (length (fvars fx) =? length vals)); [reflexivity|].
  destruct (Hev vals) as [H1 H2]. destruct (in_range_dec vals (fnodes fx)) as [Hr|Hr].
  - destruct (H1 Hr) as (v & v' & E & E' & HR). rewrite E, E'. exact HR.
  - destruct (H2 Hr) as [E E']. rewrite E, E'. reflexivity.
Qed.

(* folding again, any number of times *)
Fixpoint compile_n (n : nat) (fx : flatex D) : res (flatex D) :=
  match n with O => Ok fx | S m => do fx' <- compile C true fx; compile_n m fx' end.
Theorem compile_n_same_function : forall n fx, flat_wf fx -> assoc_ok C R (fops fx) ->
  exists fx', compile_n n fx = Ok fx' /\ flat_wf fx' /\ same_function fx' fx.
Proof.
  induction n as [|n IH]; intros fx Hwf Ha.
  - exists fx. split; [reflexivity|]. split; [exact Hwf|apply same_function_refl].
  - destruct (compile_same_function fx Hwf Ha) as (fx1 & Hc & Hwf1 & Ha1 & _ & Hs1).
    destruct (IH fx1 Hwf1 Ha1) as (fx2 & Hc2 & Hwf2 & Hs2).
    exists fx2. cbn [compile_n]. rewrite Hc. cbn [bind]. split; [exact Hc2|]. split; [exact Hwf2|].
    eapply same_function_trans; [exact Hs2|exact Hs1].
Qed.

(* whatever the flat parser builds from a token list it accepts *)
Variable tb : optable.
Hypothesis flagged_assoc : forall o, comm_of tb o = true ->
  forall a b c, R (binf C o (binf C o a b) c) (binf C o a (binf C o b c)).

Lemma parsed_wf text ts vars (fx : flatex D) : make_expression tb true text ts vars = Ok fx ->
  flat_wf fx /\ assoc_ok C R (fops fx).
Proof.
  intros H. destruct (make_expression_shape tb true text ts vars fx H) as (H1 & H2 & _ & _ & H5 & _).
  split; [split; assumption|]. intros o Ho Hc. apply flagged_assoc. rewrite <- (proj1 (H5 o Ho)). exact Hc.
Qed.

Theorem compile_parsed text ts vars (fx : flatex D) : make_expression tb true text ts vars = Ok fx ->
  forall n, exists fx', compile_n n fx = Ok fx' /\ same_function fx' fx.
Proof.
  intros H n. destruct (parsed_wf _ _ _ _ H) as [Hwf Ha].
  destruct (compile_n_same_function n fx Hwf Ha) as (fx' & Hc & _ & Hs). exists fx'. auto.
Qed.

(* the two parse entry points on ANY text *)
Theorem parse_vs_parse_wo_compile (is_literal : str -> option nat) (text : str) :
  match parse_wo_compile C tb true is_literal text with
  | Ok fx => exists fx', parse C tb true is_literal text = Ok fx' /\ same_function fx' fx
  | Err e => parse C tb true is_literal text = Err e
  | Panic e => parse C tb true is_literal text = Panic e
  end.
Proof.
  unfold parse. destruct (parse_wo_compile C tb true is_literal text) as [fx|e|e] eqn:E; cbn [bind]; try reflexivity.
  unfold parse_wo_compile in E. destruct (tokenize C tb is_literal text) as [ts| |]; try discriminate. cbn [bind] in E.
  unfold parse_tokens_wo in E. destruct (check_preconditions tb ts); try discriminate. cbn [bind] in E.
  destruct (compile_parsed _ _ _ _ E 1) as (fx' & Hc & Hs). cbn [compile_n] in Hc.
  destruct (compile C true fx) as [fx1| |]; try discriminate. cbn [bind] in Hc. inversion Hc; subst. exists fx'. auto.
Qed.
End C02Main.
