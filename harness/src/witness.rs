//! Witnesses of the defects F1..F9 (DESIGN.md section 9): prints, for each, what the
//! implementation in /repo does now.  Used once on the pinned tree and once after the fix commits.
use exmex::prelude::*;
use exmex::{parse_val, DeepEx, Differentiate, Val};

fn show<T: std::fmt::Debug>(name: &str, r: Result<T, String>) {
    match r { Ok(v) => println!("{name}: {v:?}"), Err(e) => println!("{name}: ERR {e}") }
}
fn guard<T>(f: impl FnOnce() -> Result<T, String> + std::panic::UnwindSafe) -> Result<T, String> {
    match std::panic::catch_unwind(f) { Ok(r) => r, Err(_) => Err("PANIC".into()) }
}
pub fn run() {
    let e = |x: exmex::ExError| x.msg().to_string();
    // F1
    show("F1 sin(x+3+2) at x=1 [want sin(6)=-0.2794]", guard(|| FlatEx::<f64>::parse("sin(x+3+2)").map_err(e)?.eval(&[1.0]).map_err(e)));
    show("F1 val 10-2+3 [want 11]", guard(|| parse_val::<i32, f64>("10-2+3").map_err(e)?.eval(&[]).map_err(e)));
    // F2
    show("F2 deep x^2/4/2 unparse [want x^2/4/2 semantics]", guard(|| Ok(DeepEx::<f64>::parse("x^2/4/2").map_err(e)?.unparse().to_string())));
    show("F2 deep x*2-1-3 at x=1 [want -2]", guard(|| DeepEx::<f64>::parse("x*2-1-3").map_err(e)?.eval(&[1.0]).map_err(e)));
    // F3
    show("F3 max(1, min(2,3)) [want 2]", guard(|| exmex::eval_str::<f64>("max(1, min(2,3))").map_err(e)));
    show("F3 max(1, min(2,3))) [want ERR]", guard(|| exmex::eval_str::<f64>("max(1, min(2,3)))").map_err(e)));
    // F4
    show("F4 -x at MIN [want Error value]", guard(|| parse_val::<i32, f64>("-x").map_err(e)?.eval(&[Val::Int(i32::MIN)]).map_err(e)));
    show("F4 x%y at MIN,-1 [want Error value]", guard(|| parse_val::<i32, f64>("x%y").map_err(e)?.eval(&[Val::Int(i32::MIN), Val::Int(-1)]).map_err(e)));
    show("F4 to_int(10000000000.0) [want Error value]", guard(|| parse_val::<i32, f64>("to_int(10000000000.0)").map_err(e)?.eval(&[]).map_err(e)));
    // F5
    show("F5 x == 2 == false at x=3 [want true]", guard(|| parse_val::<i32, f64>("x == 2 == false").map_err(e)?.eval(&[Val::Int(3)]).map_err(e)));
    // F7
    show("F7 flat * (a+b)(c+d) at 1..4", guard(|| FlatEx::<f64>::parse("* (a+b)(c+d)").map_err(e)?.eval(&[1.0, 2.0, 3.0, 4.0]).map_err(e)));
    show("F7 deep * (a+b)(c+d) at 1..4 [want same as flat or ERR]", guard(|| DeepEx::<f64>::parse("* (a+b)(c+d)").map_err(e)?.eval(&[1.0, 2.0, 3.0, 4.0]).map_err(e)));
    // F8
    show("F8 d/dx x/2 at 0.54 [want 0.5]", guard(|| parse_val::<i32, f64>("x/2").map_err(e)?.partial(0).map_err(e)?.eval(&[Val::Float(0.54)]).map_err(e)));
    // F9
    show("F9 1.0/0 [want inf]", guard(|| parse_val::<i32, f64>("x/y").map_err(e)?.eval(&[Val::Float(1.0), Val::Int(0)]).map_err(e)));
    // F11: && and || flagged commutative but not associative across value kinds
    show("F11 x || false || 1 at x=5 [left to right: (5||false)||1 = 1]", guard(|| parse_val::<i32, f64>("x || false || 1").map_err(e)?.eval(&[Val::Int(5)]).map_err(e)));
    show("F11 x && true && 0 at x=-3 [left to right: 0]", guard(|| parse_val::<i32, f64>("x && true && 0").map_err(e)?.eval(&[Val::Int(-3)]).map_err(e)));
    show("F11 reference (x || false) || 1 at x=5", guard(|| parse_val::<i32, f64>("(x || false) || 1").map_err(e)?.eval(&[Val::Int(5)]).map_err(e)));
    // F6 (known finding)
    show("F6 d/dx x: vars, text, reparsed vars", guard(|| { let d = FlatEx::<f64>::parse("x").map_err(e)?.partial(0).map_err(e)?; let t = d.unparse().to_string(); let r = FlatEx::<f64>::parse(&t).map_err(e)?; Ok((d.var_names().to_vec(), t, r.var_names().to_vec())) }));
}
