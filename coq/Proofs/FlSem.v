(* Proofs/FlSem.v — precedence evaluation of the flat expression of a surface tree is the reference semantics:
   depth-scaled priorities realise "parentheses first", the unary operators of a group sit on its root. *)
From Coq Require Import List Arith Lia Bool ZArith.
Import ListNotations.
From Exmex.Model Require Import Base EvalBinary Lexer Flat.
From Exmex.Spec Require Import RefSem.
From Exmex.Proofs Require Import Pev FlStruct.
Open Scope nat_scope.

Section FlSem.
Context {D : Type}.
Variable C : carrier D.
Variable tb : optable.
Variable vars : list str.
Variable vals : list D.
Hypothesis Hwf_tb : wf_table tb = true.

Local Notation mk_op := (mk_op tb).
Local Notation pev := (pev C).
Local Notation ref_atom := (ref_atom C tb vars vals).
Local Notation ref_rest := (ref_rest C tb vars vals).
Local Notation prec := (prec C tb).

(* value-level image of fl_atom / fl_rest: first value and the list of (operator record, value right of it) *)
Definition attach_p (us : list nat) (xl : D * list (fop * D)) : D * list (fop * D) :=
  match snd xl with
  | [] => (apply_un C us (fst xl), [])
  | _ => (fst xl, update_nth (root_idx (snd xl)) (fun oy => (add_un us (fst oy), snd oy)) (snd xl))
  end.
Fixpoint pv_atom (a : atom (D:=D)) (depth : Z) : D * list (fop * D) :=
  match a with
  | ALeaf us k => (apply_un C us (leaf_val C vars vals k), [])
  | AGroup us a0 rest =>
      attach_p us
        (let '(x0, l0) := pv_atom a0 (depth + 1) in
         (x0, l0 ++ (fix go (l : list (nat * atom (D:=D))) : list (fop * D) :=
                       match l with
                       | [] => []
                       | (o, b) :: tl => let '(xb, lb) := pv_atom b (depth + 1) in (mk_op o (depth + 1), xb) :: lb ++ go tl
                       end) rest))
  end.
Fixpoint pv_rest (l : list (nat * atom (D:=D))) (depth : Z) : list (fop * D) :=
  match l with
  | [] => []
  | (o, b) :: tl => let '(xb, lb) := pv_atom b depth in (mk_op o depth, xb) :: lb ++ pv_rest tl depth
  end.
Definition pv_chain (c : chain (D:=D)) (depth : Z) : D * list (fop * D) :=
  let '(x0, l0) := pv_atom (fst c) depth in (x0, l0 ++ pv_rest (snd c) depth).

Lemma pv_atom_group us a0 rest depth : pv_atom (AGroup us a0 rest) depth = attach_p us (pv_chain (a0, rest) (depth + 1)).
Proof.
  cbn [pv_atom]. unfold pv_chain. cbn [fst snd]. f_equal. destruct (pv_atom a0 (depth + 1)) as [x0 l0]. f_equal. f_equal.
  induction rest as [|[o b] tl IH]; [reflexivity|]. cbn [pv_rest]. rewrite IH. reflexivity.
Qed.
Lemma pv_rest_app l1 o b l2 depth :
  pv_rest (l1 ++ (o, b) :: l2) depth = pv_rest l1 depth ++ (mk_op o depth, fst (pv_atom b depth)) :: snd (pv_atom b depth) ++ pv_rest l2 depth.
Proof.
  induction l1 as [|[o1 b1] l1 IH]; cbn [app pv_rest].
  - destruct (pv_atom b depth); reflexivity.
  - destruct (pv_atom b1 depth) as [x1 lb1]. rewrite IH. cbn [app]. rewrite app_assoc. reflexivity.
Qed.

(* sizes, for the induction *)
Fixpoint asize (a : atom (D:=D)) : nat :=
  match a with
  | ALeaf _ _ => 1
  | AGroup _ a0 rest => S (asize a0 + (fix go (l : list (nat * atom (D:=D))) : nat := match l with [] => 0 | (_, b) :: tl => asize b + go tl end) rest)
  end.
Fixpoint rsize (l : list (nat * atom (D:=D))) : nat := match l with [] => 0 | (_, b) :: tl => asize b + rsize tl end.
Lemma asize_group us a0 rest : asize (AGroup us a0 rest) = S (asize a0 + rsize rest).
Proof.
  cbn [asize].
  replace ((fix go (l : list (nat * atom (D:=D))) : nat := match l with [] => 0 | (_, b) :: tl => asize b + go tl end) rest) with (rsize rest); [reflexivity|].
  induction rest as [|[o b] tl IH]; [reflexivity|]. cbn [rsize]. rewrite IH. reflexivity.
Qed.
Lemma asize_pos a : 1 <= asize a.
Proof. destruct a; cbn; lia. Qed.
Lemma rsize_app l1 l2 : rsize (l1 ++ l2) = rsize l1 + rsize l2.
Proof. induction l1 as [|[o b] l1 IH]; cbn; [reflexivity|]. rewrite IH. lia. Qed.

(* ---- priorities ---- *)
Lemma prio_of_range o : (0 <= prio_of tb o <= 99)%Z.
Proof.
  unfold prio_of. destruct (nth_in_or_default o tb {| repr := []; obin := None; ounary := false; oconst := false |}) as [Hin | Heq]; [|rewrite Heq; cbn; lia].
  unfold wf_table in Hwf_tb. rewrite forallb_forall in Hwf_tb. specialize (Hwf_tb _ Hin).
  destruct (obin (nth o tb _)) as [b|]; [|lia]. apply andb_prop in Hwf_tb. destruct Hwf_tb as [H1 H2].
  apply Z.leb_le in H1. apply Z.leb_le in H2. lia.
Qed.
Lemma step_1000 : DEPTH_PRIO_STEP = 1000%Z. Proof. reflexivity. Qed.

(* all operators inside an atom at depth d have priority >= (d+1)*1000; attach does not change priorities *)
Definition ge_all (bound : Z) (l : list (fop * D)) : Prop := forall o y, In (o, y) l -> (bound <= fprio o)%Z.
Lemma ge_all_app b l1 l2 : ge_all b l1 -> ge_all b l2 -> ge_all b (l1 ++ l2).
Proof. intros H1 H2 o y Hin. apply in_app_or in Hin. destruct Hin; [eapply H1|eapply H2]; eassumption. Qed.
Lemma ge_all_weaken b b' l : (b' <= b)%Z -> ge_all b l -> ge_all b' l.
Proof. intros Hb H o y Hin. specialize (H o y Hin). lia. Qed.
Lemma In_update_nth {A} (f : A -> A) : forall l n x, In x (update_nth n f l) -> In x l \/ exists y, In y l /\ x = f y.
Proof.
  induction l as [|a l IH]; intros n x Hin; [destruct Hin|].
  destruct n; cbn in Hin.
  - destruct Hin as [<-|Hin]; [right; exists a; split; [left; reflexivity|reflexivity]|left; right; exact Hin].
  - destruct Hin as [<-|Hin]; [left; left; reflexivity|]. destruct (IH _ _ Hin) as [H|(y & Hy & ->)]; [left; right; exact H|right; exists y; split; [right; exact Hy|reflexivity]].
Qed.
Lemma ge_all_attach b us xl : ge_all b (snd xl) -> ge_all b (snd (attach_p us xl)).
Proof.
  intros H. unfold attach_p. destruct (snd xl) as [|p l] eqn:E; [intros o y []|]. cbn [snd].
  intros o y Hin. apply In_update_nth in Hin. destruct Hin as [Hin|([o' y'] & Hin & Heq)]; [exact (H o y Hin)|].
  cbn in Heq. inversion Heq; subst. cbn. exact (H o' y' Hin).
Qed.

Lemma pv_bounds : forall n,
  (forall a d, asize a <= n -> ge_all ((d + 1) * 1000)%Z (snd (pv_atom a d))) /\
  (forall l d, rsize l <= n -> ge_all (d * 1000)%Z (pv_rest l d)).
Proof.
  induction n as [|n [IHa IHr]].
  - split; [intros a d H; pose proof (asize_pos a); lia|].
    intros l d H. destruct l as [|[o b] tl]; [intros ? ? []|]. cbn in H. pose proof (asize_pos b). lia.
  - split.
    + intros a d Hs. destruct a as [us k|us a0 rest]; [intros ? ? []|].
      rewrite asize_group in Hs. rewrite pv_atom_group. apply ge_all_attach. unfold pv_chain. cbn [fst snd].
      destruct (pv_atom a0 (d + 1)) as [x0 l0] eqn:E0. cbn [snd]. apply ge_all_app.
      * apply (ge_all_weaken ((d + 1 + 1) * 1000)%Z); [lia|]. replace l0 with (snd (pv_atom a0 (d + 1))) by (rewrite E0; reflexivity). apply IHa. lia.
      * apply IHr. lia.
    + intros l d Hs. destruct l as [|[o b] tl]; [intros ? ? []|]. cbn [rsize] in Hs. cbn [pv_rest].
      destruct (pv_atom b d) as [xb lb] eqn:Eb.
      intros o' y' Hin. destruct Hin as [Heq|Hin].
      * inversion Heq; subst. cbn. rewrite step_1000. pose proof (prio_of_range o). lia.
      * apply in_app_or in Hin. destruct Hin as [Hin|Hin].
        -- assert (Hb : ge_all ((d + 1) * 1000)%Z lb).
           { replace lb with (snd (pv_atom b d)) by (rewrite Eb; reflexivity).
             destruct (Nat.le_gt_cases (asize b) n) as [Hle|Hgt]; [apply IHa; exact Hle|].
             (* asize b = S n: then tl is empty; use the atom clause of the step being proved *)
             assert (rsize tl = 0) by lia.
             destruct b as [us k|us a0 rest]; [cbn; intros ? ? []|].
             rewrite asize_group in *. rewrite pv_atom_group. apply ge_all_attach. unfold pv_chain. cbn [fst snd].
             destruct (pv_atom a0 (d + 1)) as [x0 l0] eqn:E0. cbn [snd]. apply ge_all_app.
             - apply (ge_all_weaken ((d + 1 + 1) * 1000)%Z); [lia|]. replace l0 with (snd (pv_atom a0 (d + 1))) by (rewrite E0; reflexivity). apply IHa. lia.
             - apply IHr. lia. }
           specialize (Hb o' y' Hin). lia.
        -- pose proof (asize_pos b). exact (IHr tl d ltac:(lia) o' y' Hin).
Qed.

(* ---- the unary operators of a group: attaching them to the root applies them to the value of the group ---- *)
Lemma apply_un_app us vs x : apply_un C (us ++ vs) x = apply_un C us (apply_un C vs x).
Proof. unfold apply_un. rewrite fold_right_app. reflexivity. Qed.
Lemma apply_op_add_un us o a b : apply_op C (add_un us o) a b = apply_un C us (apply_op C o a b).
Proof. unfold apply_op, add_un. cbn. apply apply_un_app. Qed.

Lemma rm_pos_ext : forall (l l' : list (fop * D)) pos best bestk,
  map (fun oy => fprio (fst oy)) l = map (fun oy => fprio (fst oy)) l' -> rm_pos l pos best bestk = rm_pos l' pos best bestk.
Proof.
  induction l as [|[o y] l IH]; intros [|[o' y'] l'] pos best bestk H; cbn in H; try discriminate; [reflexivity|].
  inversion H as [[H1 H2]]. cbn [rm_pos]. rewrite H1. destruct (fprio o' <=? bestk)%Z; apply IH; exact H2.
Qed.
Lemma root_idx_ext (l l' : list (fop * D)) :
  map (fun oy => fprio (fst oy)) l = map (fun oy => fprio (fst oy)) l' -> root_idx l = root_idx l'.
Proof.
  destruct l as [|[o y] l], l' as [|[o' y'] l']; cbn; intros H; try discriminate; [reflexivity|].
  inversion H as [[H1 H2]]. rewrite H1. apply rm_pos_ext. exact H2.
Qed.
Lemma update_nth_prios us : forall (l : list (fop * D)) r,
  map (fun oy => fprio (fst oy)) (update_nth r (fun oy => (add_un us (fst oy), snd oy)) l) = map (fun oy => fprio (fst oy)) l.
Proof. induction l as [|[o y] l IH]; intros r; [reflexivity|]. destruct r; cbn; [reflexivity|]. rewrite IH. reflexivity. Qed.
Lemma update_nth_length {A} (f : A -> A) : forall l n, length (update_nth n f l) = length l.
Proof. induction l as [|a l IH]; intros n; [reflexivity|]. destruct n; cbn; [reflexivity|]. rewrite IH. reflexivity. Qed.
Lemma nth_error_update_nth {A} (f : A -> A) : forall l n, nth_error (update_nth n f l) n = option_map f (nth_error l n).
Proof. induction l as [|a l IH]; intros n; [destruct n; reflexivity|]. destruct n; cbn; [reflexivity|apply IH]. Qed.
Lemma firstn_update_nth {A} (f : A -> A) : forall l n, firstn n (update_nth n f l) = firstn n l.
Proof. induction l as [|a l IH]; intros n; [destruct n; reflexivity|]. destruct n; cbn; [reflexivity|]. rewrite IH. reflexivity. Qed.
Lemma skipn_update_nth {A} (f : A -> A) : forall l n, skipn (S n) (update_nth n f l) = skipn (S n) l.
Proof. induction l as [|a l IH]; intros n; [destruct n; reflexivity|]. destruct n; cbn; [reflexivity|]. apply IH. Qed.

Lemma pev_attach us x l n : length l <= n ->
  pev n (fst (attach_p us (x, l))) (snd (attach_p us (x, l))) = apply_un C us (pev n x l).
Proof.
  intros Hn. unfold attach_p. cbn [fst snd]. destruct l as [|p l'] eqn:El; [cbn [fst snd]; rewrite !pev_nil; reflexivity|].
  cbn [fst snd]. rewrite <- El in *. assert (Hne : l <> []) by (subst; discriminate).
  destruct n as [|n]; [subst; cbn in Hn; lia|].
  set (r := root_idx l).
  set (l2 := update_nth r (fun oy => (add_un us (fst oy), snd oy)) l).
  assert (Hne2 : l2 <> []). { unfold l2. intro H. apply (f_equal (@length _)) in H. rewrite update_nth_length in H. destruct l; [congruence|discriminate]. }
  rewrite (pev_S C n x l2 Hne2), (pev_S C n x l Hne).
  assert (Er : root_idx l2 = r) by (apply root_idx_ext; apply update_nth_prios).
  rewrite Er. unfold l2. rewrite nth_error_update_nth, firstn_update_nth, skipn_update_nth. fold r.
  destruct (nth_error l r) as [[o y]|] eqn:En; cbn [option_map fst snd].
  - apply apply_op_add_un.
  - destruct (root_idx_is_root l Hne) as (o & y & Hn' & _). unfold r in En. congruence.
Qed.

(* ---- the operator applied last, spec side ---- *)
Definition F0 (o : nat) : fop * D := (mk_op o 0, dflt C).
Lemma fprio_mk_op o d : fprio (mk_op o d) = (prio_of tb o + d * 1000)%Z.
Proof. reflexivity. Qed.
Lemma last_applied_rm_pos : forall l pos best bestp,
  last_applied tb l pos best bestp = rm_pos (map F0 l) pos best bestp.
Proof.
  induction l as [|o l IH]; intros pos best bestp; [reflexivity|]. cbn [last_applied map rm_pos F0].
  rewrite fprio_mk_op. replace (prio_of tb o + 0 * 1000)%Z with (prio_of tb o) by lia.
  destruct (prio_of tb o <=? bestp)%Z; apply IH.
Qed.
Lemma root_pos_root_idx ops : root_pos tb ops = root_idx (map F0 ops).
Proof.
  destruct ops as [|o l]; [reflexivity|]. cbn [root_pos map root_idx F0]. rewrite fprio_mk_op.
  replace (prio_of tb o + 0 * 1000)%Z with (prio_of tb o) by lia. apply last_applied_rm_pos.
Qed.
Lemma root_pos_spec ops : ops <> [] ->
  exists o, nth_error ops (root_pos tb ops) = Some o /\
    (forall i o', i < root_pos tb ops -> nth_error ops i = Some o' -> (prio_of tb o <= prio_of tb o')%Z) /\
    (forall i o', root_pos tb ops < i -> nth_error ops i = Some o' -> (prio_of tb o < prio_of tb o')%Z).
Proof.
  intros Hne. rewrite root_pos_root_idx.
  assert (Hne' : map F0 ops <> []) by (destruct ops; [congruence|discriminate]).
  destruct (root_idx_is_root (map F0 ops) Hne') as (o' & y & Hn & Hb & Ha).
  set (k := root_idx (map F0 ops)) in *.
  rewrite nth_error_map in Hn. destruct (nth_error ops k) as [o|] eqn:Ek; [|discriminate]. cbn in Hn. inversion Hn; subst o' y.
  exists o. split; [reflexivity|]. split.
  - intros i o' Hi Hn'. specialize (Hb i (mk_op o' 0) (dflt C) Hi). rewrite nth_error_map, Hn' in Hb. specialize (Hb eq_refl).
    rewrite !fprio_mk_op in Hb. lia.
  - intros i o' Hi Hn'. specialize (Ha i (mk_op o' 0) (dflt C) Hi). rewrite nth_error_map, Hn' in Ha. specialize (Ha eq_refl).
    rewrite !fprio_mk_op in Ha. lia.
Qed.

Lemma prec_nil f x : prec f x [] = x.
Proof. destruct f; reflexivity. Qed.
Lemma prec_S f x l : l <> [] ->
  prec (S f) x l = match nth_error l (root_pos tb (map fst l)) with
                   | Some (o, y) => binf C o (prec f x (firstn (root_pos tb (map fst l)) l)) (prec f y (skipn (S (root_pos tb (map fst l))) l))
                   | None => x
                   end.
Proof. destruct l; [congruence|reflexivity]. Qed.
Lemma prec_fuel : forall n m x l, length l <= n -> length l <= m -> prec n x l = prec m x l.
Proof.
  induction n as [|n IH]; intros m x l Hn Hm.
  - destruct l; [|cbn in Hn; lia]. rewrite !prec_nil. reflexivity.
  - destruct m as [|m]; [destruct l; [rewrite !prec_nil; reflexivity|cbn in Hm; lia]|].
    destruct l as [|p l]; [reflexivity|].
    rewrite !prec_S by discriminate. set (r := root_pos tb (map fst (p :: l))).
    destruct (nth_error (p :: l) r) as [[o y]|] eqn:E; [|reflexivity].
    assert (Hr : r < length (p :: l)) by (apply nth_error_Some; congruence).
    rewrite (IH m x (firstn r (p :: l))), (IH m y (skipn (S r) (p :: l))); try reflexivity;
      rewrite ?firstn_length, ?skipn_length; cbn [length] in *; lia.
Qed.

Lemma ref_atom_group us a0 rest :
  ref_atom (AGroup us a0 rest) = apply_un C us (prec (length rest) (ref_atom a0) (ref_rest rest)).
Proof.
  cbn [RefSem.ref_atom]. unfold apply_unary, apply_un.
  replace ((fix go (l : list (nat * atom (D:=D))) : list (nat * D) :=
              match l with [] => [] | (o, b) :: tl => (o, ref_atom b) :: go tl end) rest) with (ref_rest rest); [reflexivity|].
  induction rest as [|[o b] tl IH]; [reflexivity|]. cbn [RefSem.ref_rest]. rewrite IH. reflexivity.
Qed.
Lemma ref_rest_length l : length (ref_rest l) = length l.
Proof. induction l as [|[o b] l IH]; cbn; [reflexivity|]. rewrite IH. reflexivity. Qed.
Lemma ref_rest_fst l : map fst (ref_rest l) = map fst l.
Proof. induction l as [|[o b] l IH]; cbn; [reflexivity|]. rewrite IH. reflexivity. Qed.
Lemma ref_rest_app l1 l2 : ref_rest (l1 ++ l2) = ref_rest l1 ++ ref_rest l2.
Proof. induction l1 as [|[o b] l1 IH]; cbn; [reflexivity|]. rewrite IH. reflexivity. Qed.

(* elements of the list of a rest: a top-level operator of the rest, or an operator from inside an atom *)
Lemma pv_rest_elems : forall r d o' y', In (o', y') (pv_rest r d) ->
  (exists i oi bi, nth_error r i = Some (oi, bi) /\ o' = mk_op oi d) \/ ((d + 1) * 1000 <= fprio o')%Z.
Proof.
  induction r as [|[o b] r IH]; intros d o' y' Hin; [destruct Hin|].
  cbn [pv_rest] in Hin. destruct (pv_atom b d) as [xb lb] eqn:Eb. destruct Hin as [Heq|Hin].
  - inversion Heq; subst. left. exists 0, o, b. split; reflexivity.
  - apply in_app_or in Hin. destruct Hin as [Hin|Hin].
    + right. destruct (pv_bounds (asize b)) as [Ha _]. specialize (Ha b d (le_n _)). rewrite Eb in Ha. exact (Ha o' y' Hin).
    + destruct (IH d o' y' Hin) as [(i & oi & bi & Hn & ->)|H]; [left; exists (S i), oi, bi; split; [exact Hn|reflexivity]|right; exact H].
Qed.

Lemma split_nth {A} (l : list A) k x : nth_error l k = Some x -> l = firstn k l ++ x :: skipn (S k) l.
Proof.
  revert k; induction l as [|a l IH]; intros k H; [destruct k; discriminate|].
  destruct k; [cbn in H; inversion H; reflexivity|]. cbn in H. cbn. f_equal. apply IH. exact H.
Qed.

(* ---- main theorem: precedence evaluation of the flat image = reference semantics ---- *)
Definition pev_of (xl : D * list (fop * D)) : D := pev (length (snd xl)) (fst xl) (snd xl).

Theorem pv_sem : forall n,
  (forall a d, asize a <= n -> pev_of (pv_atom a d) = ref_atom a) /\
  (forall a0 rest d, asize a0 + rsize rest <= n ->
     pev_of (pv_chain (a0, rest) d) = prec (length rest) (ref_atom a0) (ref_rest rest)).
Proof.
  induction n as [|n [IHa IHc]].
  - split; [intros a d H; pose proof (asize_pos a); lia|intros a0 rest d H; pose proof (asize_pos a0); lia].
  - assert (Hatom : forall a d, asize a <= S n -> pev_of (pv_atom a d) = ref_atom a).
    { intros a d Hs. destruct a as [us k|us a0 rest]; [reflexivity|].
      rewrite asize_group in Hs. rewrite pv_atom_group, ref_atom_group.
      destruct (pv_chain (a0, rest) (d + 1)) as [x l] eqn:Ec.
      unfold pev_of.
      assert (Hlen : length (snd (attach_p us (x, l))) = length l).
      { unfold attach_p. cbn [snd]. destruct l; [reflexivity|]. cbn [snd]. apply update_nth_length. }
      rewrite Hlen, (pev_attach us x l (length l) (le_n _)).
      f_equal. specialize (IHc a0 rest (d + 1)%Z ltac:(lia)). rewrite Ec in IHc. exact IHc. }
    split; [exact Hatom|].
    intros a0 rest d Hs.
    destruct rest as [|p rest'] eqn:Erest.
    + (* a single atom *)
      unfold pv_chain. cbn [fst snd pv_rest]. destruct (pv_atom a0 d) as [x0 l0] eqn:E0. rewrite app_nil_r.
      cbn [length]. rewrite prec_nil. specialize (Hatom a0 d ltac:(cbn [rsize] in Hs; lia)). rewrite E0 in Hatom. exact Hatom.
    + rewrite <- Erest in *. assert (Hne : rest <> []) by (subst; discriminate).
      assert (Hne' : map fst rest <> []) by (subst; discriminate).
      destruct (root_pos_spec (map fst rest) Hne') as (ok & Hnk & Hbef & Haft).
      set (k := root_pos tb (map fst rest)) in *.
      rewrite nth_error_map in Hnk. destruct (nth_error rest k) as [[ok' bk]|] eqn:Ek; [|discriminate].
      cbn in Hnk. inversion Hnk; subst ok'. clear Hnk.
      pose proof (split_nth rest k _ Ek) as Esplit.
      set (r1 := firstn k rest) in *. set (r2 := skipn (S k) rest) in *.
      (* sizes of the two sub-chains *)
      assert (Hsz : rsize rest = rsize r1 + asize bk + rsize r2) by (rewrite Esplit, rsize_app; cbn [rsize]; lia).
      pose proof (asize_pos a0). pose proof (asize_pos bk).
      (* left side *)
      unfold pv_chain. cbn [fst snd]. destruct (pv_atom a0 d) as [x0 l0] eqn:E0.
      rewrite Esplit, pv_rest_app. destruct (pv_atom bk d) as [xb lb] eqn:Eb. cbn [fst snd].
      unfold pev_of. cbn [fst snd].
      rewrite (app_assoc l0).
      set (L1 := l0 ++ pv_rest r1 d). set (L2 := lb ++ pv_rest r2 d).
      replace (length (L1 ++ (mk_op ok d, xb) :: L2)) with (S (length L1 + length L2)) by (rewrite app_length; cbn [length]; lia).
      rewrite pev_at_root.
      * (* both sides unfold at the root *)
        rewrite <- Esplit.
        assert (Hlr : length rest = S (length r1 + length r2)).
        { rewrite Esplit at 1. rewrite app_length. cbn [length]. lia. }
        assert (Hrne : ref_rest rest <> []).
        { intro Hnil. apply (f_equal (@length _)) in Hnil. rewrite ref_rest_length in Hnil. rewrite Hlr in Hnil. discriminate. }
        rewrite Hlr. rewrite (prec_S _ _ _ Hrne).
        rewrite ref_rest_fst. fold k.
        assert (Hnr : nth_error (ref_rest rest) k = Some (ok, ref_atom bk)).
        { rewrite Esplit, ref_rest_app. rewrite nth_error_app2 by (rewrite ref_rest_length; unfold r1; rewrite firstn_length; apply Nat.min_case_strong; intros; [lia|]; assert (k < length rest) by (apply nth_error_Some; congruence); lia).
          rewrite ref_rest_length. unfold r1 at 1. rewrite firstn_length_le by (assert (k < length rest) by (apply nth_error_Some; congruence); lia).
          rewrite Nat.sub_diag. reflexivity. }
        rewrite Hnr.
        assert (Hk : k < length rest) by (apply nth_error_Some; congruence).
        assert (Hf : firstn k (ref_rest rest) = ref_rest r1).
        { rewrite Esplit at 1. rewrite ref_rest_app, firstn_app, ref_rest_length. unfold r1 at 2. rewrite firstn_length_le by lia.
          rewrite Nat.sub_diag. cbn [firstn]. rewrite app_nil_r. apply firstn_all2. rewrite ref_rest_length. unfold r1. rewrite firstn_length. lia. }
        assert (Hsk : skipn (S k) (ref_rest rest) = ref_rest r2).
        { rewrite Esplit at 1. rewrite ref_rest_app. cbn [RefSem.ref_rest].
          replace (S k) with (length (ref_rest r1) + 1) by (rewrite ref_rest_length; unfold r1; rewrite firstn_length_le; lia).
          rewrite skipn_app, skipn_all2 by lia. cbn [app]. replace (length (ref_rest r1) + 1 - length (ref_rest r1)) with 1 by lia. reflexivity. }
        rewrite Hf, Hsk.
        unfold apply_op. cbn [fun_ mk_op fidx apply_un fold_right FlStruct.mk_op].
        f_equal.
        -- (* left operand: the chain (a0, r1) *)
           specialize (IHc a0 r1 d ltac:(lia)). unfold pv_chain, pev_of in IHc. cbn [fst snd] in IHc. rewrite E0 in IHc. cbn [fst snd] in IHc.
           fold L1 in IHc.
           rewrite (pev_fuel C _ (length L1)) by lia. rewrite IHc.
           apply prec_fuel; rewrite ref_rest_length; unfold r1; rewrite firstn_length; lia.
        -- (* right operand: the chain (bk, r2) *)
           specialize (IHc bk r2 d ltac:(lia)). unfold pv_chain, pev_of in IHc. cbn [fst snd] in IHc. rewrite Eb in IHc. cbn [fst snd] in IHc.
           fold L2 in IHc.
           rewrite (pev_fuel C _ (length L2)) by lia. rewrite IHc.
           apply prec_fuel; rewrite ref_rest_length; lia.
      * (* everything left of the root has priority >= *)
        intros o' y' Hin. rewrite fprio_mk_op. pose proof (prio_of_range ok).
        unfold L1 in Hin. apply in_app_or in Hin. destruct Hin as [Hin|Hin].
        -- destruct (pv_bounds (asize a0)) as [Hb _]. specialize (Hb a0 d (le_n _)). rewrite E0 in Hb. specialize (Hb o' y' Hin). lia.
        -- destruct (pv_rest_elems r1 d o' y' Hin) as [(i & oi & bi & Hn & ->)|Hge]; [|lia].
           rewrite fprio_mk_op. assert (Hi : i < k).
           { assert (i < length r1) by (apply nth_error_Some; congruence). unfold r1 in H2. rewrite firstn_length in H2. lia. }
           assert (Hn' : nth_error (map fst rest) i = Some oi).
           { rewrite nth_error_map. rewrite Esplit. rewrite nth_error_app1 by (apply nth_error_Some; congruence). rewrite Hn. reflexivity. }
           specialize (Hbef i oi Hi Hn'). lia.
      * (* everything right of the root has priority > *)
        intros o' y' Hin. rewrite fprio_mk_op. pose proof (prio_of_range ok).
        unfold L2 in Hin. apply in_app_or in Hin. destruct Hin as [Hin|Hin].
        -- destruct (pv_bounds (asize bk)) as [Hb _]. specialize (Hb bk d (le_n _)). rewrite Eb in Hb. specialize (Hb o' y' Hin). lia.
        -- destruct (pv_rest_elems r2 d o' y' Hin) as [(i & oi & bi & Hn & ->)|Hge]; [|lia].
           rewrite fprio_mk_op.
           assert (Hk : k < length rest) by (apply nth_error_Some; congruence).
           assert (Hn' : nth_error (map fst rest) (S k + i) = Some oi).
           { rewrite nth_error_map. rewrite Esplit. rewrite nth_error_app2 by (unfold r1; rewrite firstn_length; lia).
             unfold r1 at 1. rewrite firstn_length_le by lia. replace (S k + i - k) with (S i) by lia. cbn [nth_error]. rewrite Hn. reflexivity. }
           specialize (Haft (S k + i) oi ltac:(lia) Hn'). lia.
Qed.
End FlSem.
