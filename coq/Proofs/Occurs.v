(* Proofs/Occurs.v — the listed variables of an expression the deep parser builds are exactly the names that occur in it,
   at every level: compile folds numbers only, so no variable node disappears.  Hence the printed tokens of such an
   expression contain every listed variable, and printing and parsing again returns the same variable list (C12). *)
From Coq Require Import List Arith Lia Bool ZArith Sorted.
Import ListNotations.
From Exmex.Model Require Import Base EvalBinary Lexer Flat Deep.
From Exmex.Proofs Require Import Vars DeepVars DeepSem DeepCompile CompileRefine Unparse ParseConsume.
Open Scope nat_scope.

Section Occurs.
Context {D : Type}.
Variable C : carrier D.
Variable tb : optable.

(* the names of the variable nodes, left to right, through all levels *)
Fixpoint occs (e : deepex D) : list str :=
  match e with
  | DE nodes _ _ _ =>
      (fix go (l : list (dnode D)) : list str :=
         match l with [] => [] | n :: tl => (match n with DNum _ => [] | DVar _ x => [x] | DExpr c => occs c end) ++ go tl end) nodes
  end.
Definition nocc (n : dnode D) : list str := match n with DNum _ => [] | DVar _ x => [x] | DExpr c => occs c end.
Lemma occs_unfold nodes bops uop vars : occs (DE nodes bops uop vars) = flat_map nocc nodes.
Proof. cbn [occs]. induction nodes as [|n tl IH]; [reflexivity|]. cbn [flat_map]. rewrite <- IH. destruct n; reflexivity. Qed.

(* at every level: listed = occurring *)
Definition same_names (a b : list str) : Prop := forall x, In x a <-> In x b.
Fixpoint hocc (e : deepex D) : Prop :=
  match e with
  | DE nodes _ _ vars =>
      same_names vars (occs e) /\
      (fix all (l : list (dnode D)) : Prop := match l with [] => True | n :: tl => (match n with DExpr c => hocc c | _ => True end) /\ all tl end) nodes
  end.
Definition nhocc (n : dnode D) : Prop := match n with DExpr c => hocc c | _ => True end.
Lemma hocc_unfold nodes bops uop vars : hocc (DE nodes bops uop vars) <-> same_names vars (flat_map nocc nodes) /\ Forall nhocc nodes.
Proof.
  cbn [hocc]. rewrite <- (occs_unfold nodes bops uop vars). cbn [occs].
  assert (H : (fix all (l : list (dnode D)) : Prop := match l with [] => True | n :: tl => (match n with DExpr c => hocc c | _ => True end) /\ all tl end) nodes <-> Forall nhocc nodes).
  { induction nodes as [|n tl IH]; [split; [constructor|trivial]|]. split.
    - intros [H1 H2]. constructor; [exact H1|apply IH; exact H2].
    - intros H. inversion H; subst. split; [assumption|apply IH; assumption]. }
  rewrite H. reflexivity.
Qed.
Lemma hocc_top e : hocc e -> same_names (dvars e) (occs e).
Proof. destruct e as [nodes bops uop vars]. rewrite hocc_unfold, occs_unfold. cbn [dvars]. tauto. Qed.
Lemma nhocc_names n : nhocc n -> same_names (node_var_names n) (nocc n).
Proof. destruct n as [c|d|i x]; cbn [nhocc node_var_names nocc]; [apply hocc_top|intros _ y; tauto|intros _ y; tauto]. Qed.
Lemma flat_map_same {A} (f g : A -> list str) (l : list A) : (forall a, In a l -> same_names (f a) (g a)) -> same_names (flat_map f l) (flat_map g l).
Proof.
  intros H x. rewrite !in_flat_map. split; intros (a & Ha & Hx); exists a; (split; [exact Ha|]); [apply (H a Ha)|apply (H a Ha)]; exact Hx.
Qed.

(* lift_nodes keeps the occurring names (as a list) and the invariant *)
Lemma lift_occ : forall k (e : deepex D), dsize e <= k -> hocc e -> hocc (lift_nodes e) /\ occs (lift_nodes e) = occs e.
Proof.
  induction k as [|k IH]; intros e Hs Hv; [destruct e; cbn in Hs; lia|].
  destruct e as [nodes bops uop vars]. pose proof Hv as Hv0. rewrite hocc_unfold in Hv. destruct Hv as [Hok Hn].
  assert (Hnode : forall n, In n nodes -> nhocc n -> nhocc (lift_node n) /\ nocc (lift_node n) = nocc n).
  { intros n Hin Hnn. destruct n as [c|d|i x]; try (split; [exact I|reflexivity]).
    destruct c as [ns b1 u1 v1]. destruct ns as [|n1 [|n2 nt]]; try (split; [exact Hnn|reflexivity]). destruct u1; [|split; [exact Hnn|reflexivity]].
    cbn [nhocc] in Hnn. rewrite hocc_unfold in Hnn. destruct Hnn as [Hv1 Hc]. inversion Hc as [|? ? Hn1 _]; subst.
    cbn [lift_node]. destruct n1 as [e_deeper|d|i x]; try (split; [exact I|cbn [nocc]; rewrite occs_unfold; cbn [flat_map nocc]; rewrite ?app_nil_r; reflexivity]).
    cbn [nhocc] in Hn1.
    assert (Hsd : dsize e_deeper <= k).
    { pose proof (dsize_in nodes bops uop vars _ Hin) as H2. pose proof (dsize_in [DExpr e_deeper] b1 [] v1 e_deeper (or_introl eq_refl)) as H3. lia. }
    destruct (IH e_deeper Hsd Hn1) as [L1 L2]. cbn zeta.
    assert (Eo : nocc (DExpr (DE [DExpr e_deeper] b1 [] v1)) = occs e_deeper).
    { cbn [nocc]. rewrite occs_unfold. cbn [flat_map nocc]. apply app_nil_r. }
    assert (Hwrap : nhocc (DExpr (DE [DExpr (lift_nodes e_deeper)] b1 [] v1)) /\ nocc (DExpr (DE [DExpr (lift_nodes e_deeper)] b1 [] v1)) = nocc (DExpr (DE [DExpr e_deeper] b1 [] v1))).
    { split.
      - cbn [nhocc]. rewrite hocc_unfold. split; [|constructor; [exact L1|constructor]].
        cbn [flat_map nocc] in *. rewrite L2. exact Hv1.
      - rewrite Eo. cbn [nocc]. rewrite occs_unfold. cbn [flat_map nocc]. rewrite app_nil_r. exact L2. }
    destruct (dnodes (lift_nodes e_deeper)) as [|m [|? ?]]; destruct (duop (lift_nodes e_deeper)); try exact Hwrap.
    split; [exact L1|]. rewrite Eo. cbn [nocc]. exact L2. }
  assert (Emap : flat_map nocc (map lift_node nodes) = flat_map nocc nodes).
  { clear Hok Hv0 Hs. induction nodes as [|n tl IHn]; [reflexivity|]. inversion Hn as [|? ? Hn1 Hn2]; subst. cbn [map flat_map].
    rewrite (proj2 (Hnode n (or_introl eq_refl) Hn1)). f_equal. apply IHn; [exact Hn2|]. intros m Hm. apply Hnode. right. exact Hm. }
  assert (Hmap : hocc (DE (map lift_node nodes) bops uop vars) /\ occs (DE (map lift_node nodes) bops uop vars) = occs (DE nodes bops uop vars)).
  { split; [|rewrite !occs_unfold; exact Emap]. rewrite hocc_unfold, Emap. split; [exact Hok|]. apply Forall_forall. intros m Hm. apply in_map_iff in Hm. destruct Hm as (n & <- & Hin).
    rewrite Forall_forall in Hn. exact (proj1 (Hnode n Hin (Hn n Hin))). }
  rewrite lift_nodes_unfold.
  destruct nodes as [|n [|n' tl]]; try exact Hmap. destruct uop; [|exact Hmap].
  destruct n as [e1|d|i x].
  - inversion Hn as [|? ? H1 _]; subst. split; [exact H1|]. rewrite occs_unfold. cbn [flat_map nocc]. rewrite app_nil_r. reflexivity.
  - split; [exact Hv0|reflexivity].
  - split; [exact Hv0|reflexivity].
Qed.

(* the folding loop replaces two adjacent numbers by one *)
Lemma nocc_set_num : forall (l : list (dnode D)) i a d, nth_error l i = Some (DNum a) -> flat_map nocc (set_nth i (DNum d) l) = flat_map nocc l.
Proof.
  induction l as [|n l IH]; intros i a d H; [destruct i; discriminate|]. destruct i; cbn [set_nth flat_map].
  - cbn in H. inversion H; subst. reflexivity.
  - cbn in H. rewrite (IH i a d H). reflexivity.
Qed.
Lemma nocc_remove_num : forall (l : list (dnode D)) i b, nth_error l i = Some (DNum b) -> flat_map nocc (remove_nth i l) = flat_map nocc l.
Proof.
  induction l as [|n l IH]; intros i b H; [destruct i; discriminate|]. destruct i; cbn [remove_nth flat_map].
  - cbn in H. inversion H; subst. reflexivity.
  - cbn in H. rewrite (IH i b H). reflexivity.
Qed.
Lemma nth_error_set_other {A} : forall (l : list A) i j x, i <> j -> nth_error (set_nth i x l) j = nth_error l j.
Proof.
  induction l as [|a l IH]; intros i j x Hne; [destruct i; reflexivity|]. destruct i, j; cbn [set_nth nth_error]; try reflexivity; [congruence|].
  apply IH. congruence.
Qed.
Lemma dcompile_loop_occ : forall sigma i num_inds (nodes : list (dnode D)) bops declined used nodes' used',
  Forall nhocc nodes -> dcompile_loop C sigma i num_inds nodes bops declined used = Ok (nodes', used') ->
  Forall nhocc nodes' /\ flat_map nocc nodes' = flat_map nocc nodes.
Proof.
  induction sigma as [|b stl IH]; intros i num_inds nodes bops declined used nodes' used' HF H; cbn [dcompile_loop] in H.
  - inversion H; subst. split; [exact HF|reflexivity].
  - destruct (nth_error num_inds i) as [num_idx|]; [|discriminate].
    destruct (nth_error nodes num_idx) as [n1|] eqn:E1; [|discriminate]. destruct (nth_error nodes (S num_idx)) as [n2|] eqn:E2; [|discriminate].
    destruct n1 as [?|a|? ?]; try exact (IH _ _ _ _ _ _ _ _ HF H).
    destruct n2 as [?|b'|? ?]; try exact (IH _ _ _ _ _ _ _ _ HF H).
    destruct (negb _); [|exact (IH _ _ _ _ _ _ _ _ HF H)].
    destruct (nth_error bops b) as [o|]; [|discriminate].
    assert (HF' : Forall nhocc (remove_nth (S num_idx) (set_nth num_idx (DNum (binf C (bidx o) a b')) nodes))).
    { rewrite Forall_forall in *. intros x Hx. apply In_remove_nth in Hx. apply In_set_nth in Hx. destruct Hx as [->|Hx]; [exact I|exact (HF x Hx)]. }
    destruct (IH _ _ _ _ _ _ _ _ HF' H) as [G1 G2]. split; [exact G1|]. rewrite G2.
    rewrite (nocc_remove_num _ (S num_idx) b'); [exact (nocc_set_num nodes num_idx a _ E1)|].
    rewrite nth_error_set_other; [exact E2|lia].
Qed.

Theorem dcompile_hocc e0 e' : hocc e0 -> dcompile C e0 = Ok e' -> hocc e'.
Proof.
  intros Hv H. destruct (lift_occ (dsize e0) e0 (le_n _) Hv) as [Hl _]. unfold dcompile in H.
  destruct (lift_nodes e0) as [nodes bops uop vars]. rewrite hocc_unfold in Hl. destruct Hl as [Hok Hn0].
  destruct (dcompile_loop C _ 0 _ nodes bops _ []) as [[nodes' used]| |] eqn:El; cbn [bind] in H; try discriminate.
  destruct (dcompile_loop_occ _ _ _ _ _ _ _ _ _ Hn0 El) as [Hn Ho]. rewrite <- Ho in Hok.
  destruct nodes' as [|m [|m' mt]].
  - inversion H; subst. rewrite hocc_unfold. split; assumption.
  - destruct m as [c|d|i x]; inversion H; subst; rewrite hocc_unfold; try (split; assumption). split; [exact Hok|constructor; [exact I|constructor]].
  - destruct m; inversion H; subst; rewrite hocc_unfold; split; assumption.
Qed.
Lemma new_deepex_hocc nodes bops uop e : Forall nhocc nodes -> new_deepex C nodes bops uop = Ok e -> hocc e.
Proof.
  intros Hn H. unfold new_deepex in H.
  assert (H0 : hocc (DE nodes bops uop (sort_strs (flat_map node_var_names nodes)))).
  { rewrite hocc_unfold. split; [|exact Hn]. intros x. rewrite (proj2 (proj2 (sort_strs_spec _)) x).
    apply flat_map_same. intros a Ha. apply nhocc_names. rewrite Forall_forall in Hn. exact (Hn a Ha). }
  destruct nodes as [|n nt].
  - destruct bops as [|b bt].
    + destruct uop as [|u ut]; [|cbn in H; discriminate]. inversion H; subst. rewrite hocc_unfold. split; [intros x; cbn; tauto|constructor].
    + destruct (negb _); [discriminate|]. exact (dcompile_hocc _ e H0 H).
  - destruct (negb _); [discriminate|]. exact (dcompile_hocc _ e H0 H).
Qed.

Theorem dparse_hocc : forall fuel left ts vars rnodes rbops uop e rest,
  Forall nhocc rnodes -> dparse C tb fuel left ts vars rnodes rbops uop = Ok (e, rest) -> hocc e.
Proof.
  induction fuel as [|fuel IH]; intros left ts vars rnodes rbops uop e rest Hg H; [discriminate|].
  cbn [dparse] in H.
  assert (Hfin : forall r, (do e0 <- new_deepex C (rev rnodes) (rev rbops) uop; Ok (e0, r)) = Ok (e, rest) -> hocc e).
  { intros r Hr. destruct (new_deepex C (rev rnodes) (rev rbops) uop) as [e0| |] eqn:En; cbn [bind] in Hr; try discriminate. inversion Hr; subst.
    apply (new_deepex_hocc (rev rnodes) (rev rbops) uop e); [|exact En]. apply Forall_rev. exact Hg. }
  destruct ts as [|t tl]; [exact (Hfin _ H)|].
  destruct t as [d| | |k|x].
  - refine (IH _ _ _ _ _ _ _ _ _ H); constructor; [exact I|exact Hg].
  - destruct (dparse C tb fuel None tl vars [] [] []) as [[e1 rest1]| |] eqn:E1; cbn [bind] in H; try discriminate.
    assert (G1 : hocc e1) by (refine (IH _ _ _ _ _ _ _ _ _ E1); constructor).
    refine (IH _ _ _ _ _ _ _ _ _ H); constructor; [exact G1|exact Hg].
  - exact (Hfin _ H).
  - destruct (is_operator_binary tb k left) as [b| |]; cbn [bind] in H; try discriminate.
    destruct b.
    + destruct (mk_bop tb k) as [o| |]; cbn [bind] in H; try discriminate. exact (IH _ _ _ _ _ _ _ _ Hg H).
    + destruct (negb (has_un tb k)); [discriminate|].
      destruct (skipn (length (k :: more_unaries tb tl) - 1) tl) as [|a tl2]; [discriminate|].
      destruct a as [d| | |k'|x]; try discriminate.
      * refine (IH _ _ _ _ _ _ _ _ _ H); constructor; [exact I|exact Hg].
      * destruct (dparse C tb fuel None tl2 vars [] [] (k :: more_unaries tb tl)) as [[e1 rest1]| |] eqn:E1; cbn [bind] in H; try discriminate.
        assert (G1 : hocc e1) by (refine (IH _ _ _ _ _ _ _ _ _ E1); constructor).
        refine (IH _ _ _ _ _ _ _ _ _ H); constructor; [exact G1|exact Hg].
      * destruct (dparse C tb fuel None tl2 vars [] [] (k :: more_unaries tb tl)) as [[e1 rest1]| |] eqn:E1; cbn [bind] in H; try discriminate.
        assert (G1 : hocc e1) by (refine (IH _ _ _ _ _ _ _ _ _ E1); constructor).
        refine (IH _ _ _ _ _ _ _ _ _ H); constructor; [exact G1|exact Hg].
      * destruct (var_index vars x) as [i| |] eqn:Ei; cbn [bind] in H; try discriminate.
        destruct (new_deepex C [DVar i x] [] (k :: more_unaries tb tl)) as [e1| |] eqn:E1; cbn [bind] in H; try discriminate.
        assert (G1 : hocc e1) by (refine (new_deepex_hocc [DVar i x] [] _ e1 _ E1); constructor; [exact I|constructor]).
        refine (IH _ _ _ _ _ _ _ _ _ H); constructor; [exact G1|exact Hg].
  - destruct (var_index vars x) as [i| |] eqn:Ei; cbn [bind] in H; try discriminate.
    refine (IH _ _ _ _ _ _ _ _ _ H); constructor; [exact I|exact Hg].
Qed.

(* the variable tokens of the printed token list are the occurring names (operand counts as dwf states them) *)
Fixpoint counts (e : deepex D) : Prop :=
  match e with
  | DE nodes bops _ _ =>
      length nodes = S (length bops) /\
      (fix all (l : list (dnode D)) : Prop := match l with [] => True | n :: tl => (match n with DExpr c => counts c | _ => True end) /\ all tl end) nodes
  end.
Definition ncounts (n : dnode D) : Prop := match n with DExpr c => counts c | _ => True end.
Lemma counts_unfold nodes bops uop vars : counts (DE nodes bops uop vars) <-> length nodes = S (length bops) /\ Forall ncounts nodes.
Proof.
  cbn [counts].
  assert (H : (fix all (l : list (dnode D)) : Prop := match l with [] => True | n :: tl => (match n with DExpr c => counts c | _ => True end) /\ all tl end) nodes <-> Forall ncounts nodes).
  { induction nodes as [|n tl IH]; [split; [constructor|trivial]|]. split.
    - intros [H1 H2]. constructor; [exact H1|apply IH; exact H2].
    - intros H. inversion H; subst. split; [assumption|apply IH; assumption]. }
  rewrite H. reflexivity.
Qed.
Lemma dwf_counts (okop : dbop -> Prop) (okvar : nat -> str -> Prop) (okvars : list str -> Prop) : forall e : deepex D, dwf okop okvar okvars e -> counts e.
Proof.
  induction e as [nodes bops uop vars IH] using deep_ind. intros Hw. rewrite dwf_unfold in Hw. destruct Hw as (Hl & _ & _ & Hn).
  rewrite counts_unfold. split; [exact Hl|]. rewrite Forall_forall in *. intros n Hin. specialize (Hn n Hin). destruct n as [c|d|i x]; cbn [ncounts nwf] in *; auto.
Qed.

Lemma vars_of_wrap us (body : list (token D)) : vars_of (flat_map (fun k => [TOp k; TOpen]) us ++ body ++ repeat TClose (length us)) = vars_of body.
Proof.
  rewrite !vars_of_app. replace (vars_of (flat_map (fun k => [@TOp D k; TOpen]) us)) with (@nil str) by (induction us; [reflexivity|assumption]).
  replace (vars_of (repeat (@TClose D) (length us))) with (@nil str) by (induction us; [reflexivity|assumption]). cbn [app]. apply app_nil_r.
Qed.
Theorem utoks_vars : forall e : deepex D, counts e -> vars_of (utoks e) = occs e.
Proof.
  induction e as [nodes bops uop vars IH] using deep_ind. intros Hc. rewrite counts_unfold in Hc. destruct Hc as [Hl Hn].
  rewrite utoks_unfold, vars_of_wrap, occs_unfold.
  assert (Hnt : forall n, In n nodes -> vars_of (ntoks n) = nocc n).
  { intros n Hin. rewrite Forall_forall in Hn. specialize (Hn n Hin). destruct n as [c|d|i x]; try reflexivity.
    cbn [ntoks nocc ncounts] in *. specialize (IH c Hin Hn). destruct (duop c); [|exact IH].
    change (TOpen :: utoks c ++ [TClose]) with ([TOpen] ++ utoks c ++ [@TClose D]). rewrite !vars_of_app, IH. cbn [vars_of fold_right app]. apply app_nil_r. }
  destruct nodes as [|n0 ntl]; [reflexivity|]. cbn [body_toks flat_map]. rewrite vars_of_app, (Hnt n0 (or_introl eq_refl)). f_equal.
  cbn [length] in Hl. injection Hl as Hl.
  assert (Hnt' : forall n, In n ntl -> vars_of (ntoks n) = nocc n) by (intros n Hin; apply Hnt; right; exact Hin).
  clear - Hl Hnt'. revert bops Hl. induction ntl as [|n tl IHl]; intros bops Hl; [destruct bops; reflexivity|].
  destruct bops as [|o otl]; [discriminate|]. cbn [rtoks flat_map].
  change (TOp (bidx o) :: ntoks n ++ rtoks tl otl) with ([TOp (bidx o)] ++ ntoks n ++ rtoks tl otl). rewrite !vars_of_app. cbn [vars_of fold_right app].
  rewrite (Hnt' n (or_introl eq_refl)). f_equal. apply IHl; [intros m Hm; apply Hnt'; right; exact Hm|]. cbn [length] in Hl. lia.
Qed.
End Occurs.
