"""Per-property configuration of ./check: which theorems pin the property, which axioms they may use,
which harness modes provide the correspondence cases."""

REAL_AXIOMS = ["ClassicalDedekindReals.sig_forall_dec", "ClassicalDedekindReals.sig_not_dec",
               "FunctionalExtensionality.functional_extensionality_dep", "Classical_Prop.classic"]

PROPS = {
    "C14": {
        "theorems": ["C14_any_schedule", "C14_each_operand_once"],
        "axioms": [],
        "modes": [{"name": "c14", "quick_n": 3, "thorough_n": 12, "shard": 60}],
        "rule": "chains v0 o v1 o ... over a 32-operator table with pairwise distinct priorities: all application orders of up to 6 (quick) / 7 (thorough) operators exhaustively, structured (ascending, descending, runs, alternating, inside-out) and random orders at lengths around 32/64/128/192(/257/513); evaluated through FlatEx (single-word tracker <= 64 operands, slice tracker above), DeepEx (always slice tracker), flat->deep (tracker inside flatex_to_deepex) and deep->flat; non-trivial = at least 2 operands; distinct = distinct (program text)",
        "assumptions": ["the machine-word trackers of number_tracker.rs are covered by the correspondence (the proof is about the boolean-vector tracker they implement)"],
    },
}
