(* C07 — malformed expressions are reported as errors, never evaluated.  Property theorems only. *)
From Coq Require Import List ZArith.
Import ListNotations.
From Exmex.Model Require Import Base EvalBinary Lexer Flat Deep.
From Exmex.Spec Require Import RefSem.
From Exmex.Proofs Require Import Precond CommaRewrite LexSpaced LexFlex LexLocal ParseComplete Damage.

(* All statements are for EVERY operator table, data type and token list (not for a catalogue of damages).
   A token list is what the tokenizer hands to both parsers; the text-level statements for blank texts and
   unknown characters are C07_blank_text and C07_unknown_char below. *)

(* unbalanced parentheses (balance negative somewhere, or not zero at the end) *)
Theorem C07_unbalanced_rejected : forall (D : Type) (C : carrier D) (tb : optable) (text : str) (ts : list (token D)),
  paren_balance ts 0 <> Some 0%Z ->
  (forall fb, is_err (parse_tokens_wo tb fb text ts)) /\ is_err (parse_deep_tokens C tb ts).
Proof. intros. split; [intro; apply flat_rejects|apply deep_rejects]; apply unbalanced_rejected; assumption. Qed.

(* the empty token list (empty or blank text) *)
Theorem C07_empty_rejected : forall (D : Type) (C : carrier D) (tb : optable) (text : str),
  (forall fb, is_err (parse_tokens_wo tb fb text (@nil (token D)))) /\ is_err (parse_deep_tokens C tb (@nil (token D))).
Proof. intros. split; [intro; apply flat_rejects|apply deep_rejects]; exists E_EMPTY; apply check_empty. Qed.

(* a text ending in an operator *)
Theorem C07_trailing_operator_rejected : forall (D : Type) (C : carrier D) (tb : optable) (text : str) (ts : list (token D)) (k : nat),
  (forall fb, is_err (parse_tokens_wo tb fb text (ts ++ [TOp k]))) /\ is_err (parse_deep_tokens C tb (ts ++ [TOp k])).
Proof. intros. split; [intro; apply flat_rejects|apply deep_rejects]; apply trailing_op_rejected. Qed.

(* a forbidden adjacent pair anywhere in the text: `()`, `2 (`, `) 2`, `) (`, `x sin`, `sin )`, two binary-only operators, ... *)
Theorem C07_bad_pair_rejected : forall (D : Type) (C : carrier D) (tb : optable) (text : str) (a b : list (token D)) (x y : token D),
  pair_ok tb x y = false ->
  (forall fb, is_err (parse_tokens_wo tb fb text (a ++ x :: y :: b))) /\ is_err (parse_deep_tokens C tb (a ++ x :: y :: b)).
Proof. intros. split; [intro; apply flat_rejects|apply deep_rejects]; apply bad_pair_rejected; assumption. Qed.

(* the operand count: whatever the flat parser accepts has exactly one more operand than binary operators *)
Theorem C07_operand_count : forall (D : Type) (C : carrier D) (tb : optable) (fb : bool) (text : str) (ts : list (token D)) (vars : list str) (fx : flatex D),
  make_expression tb fb text ts vars = Ok fx -> length (fnodes fx) = S (length (fops fx)).
Proof. intros D C. exact (@flat_count D). Qed.

(* SINGLE-POINT DAMAGES.  (a) A parenthesis inserted anywhere into, or deleted anywhere from, a balanced token list
   (every accepted token list is balanced) leaves it unbalanced: rejected by every parser. *)
Theorem C07_parenthesis_inserted_rejected : forall (D : Type) (C : carrier D) (tb : optable) (text : str) (a b : list (token D)) (p : token D),
  is_paren p = true -> paren_balance (a ++ b) 0 = Some 0%Z ->
  (forall fb, is_err (parse_tokens_wo tb fb text (a ++ p :: b))) /\ is_err (parse_deep_tokens C tb (a ++ p :: b)).
Proof. intros D C tb text a b p Hp Hb. apply C07_unbalanced_rejected. exact (paren_inserted a b p Hp Hb). Qed.
Theorem C07_parenthesis_deleted_rejected : forall (D : Type) (C : carrier D) (tb : optable) (text : str) (a b : list (token D)) (p : token D),
  is_paren p = true -> paren_balance (a ++ p :: b) 0 = Some 0%Z ->
  (forall fb, is_err (parse_tokens_wo tb fb text (a ++ b))) /\ is_err (parse_deep_tokens C tb (a ++ b)).
Proof. intros D C tb text a b p Hp Hb. apply C07_unbalanced_rejected. exact (paren_deleted a b p Hp Hb). Qed.

(* (b) An extra operand placed directly beside an existing operand (behind one: `last_tok`, or in front of one).  The
   flat parser: whatever token list it accepted before, it does not accept afterwards -- the walker creates one node per
   operand token and one operator record per operator token it classifies as binary, the classification does not depend
   on which operand stands on the left, so the counts differ by two.  The deep parser: outside prefix notation (in
   particular for every rendering of a well-formed tree, C07_tree_renderings_have_no_prefix_notation) it accepts no
   token list with two adjacent operands at all. *)
Theorem C07_extra_operand_rejected_flat : forall (D : Type) (tb : optable) (fb : bool) (text text' : str) (a b : list (token D)) (L : token D) (fx : flatex D),
  parse_tokens_wo tb fb text (a ++ b) = Ok fx -> leaf L = true ->
  ((exists p, last_tok None a = Some p /\ leaf p = true) \/ (exists h t, b = h :: t /\ leaf h = true)) ->
  forall fx', parse_tokens_wo tb fb text' (a ++ L :: b) <> Ok fx'.
Proof.
  intros D tb fb text text' a b L fx H HL Hc fx' H'. unfold parse_tokens_wo in *.
  destruct (check_preconditions tb (a ++ b)) as [[]| |]; cbn [bind] in H; try discriminate.
  destruct (check_preconditions tb (a ++ L :: b)) as [[]| |]; cbn [bind] in H'; try discriminate.
  exact (flat_extra_operand tb fb text text' a b L _ _ fx H HL Hc fx' H').
Qed.
Theorem C07_extra_operand_rejected_deep : forall (D : Type) (C : carrier D) (tb : optable) (a b : list (token D)) (L : token D),
  noprefix tb (a ++ b) = true -> leaf L = true ->
  ((exists p, last_tok None a = Some p /\ leaf p = true) \/ (exists h t, b = h :: t /\ leaf h = true)) ->
  forall e, parse_deep_tokens C tb (a ++ L :: b) <> Ok e.
Proof. intros D C tb. exact (deep_extra_operand tb C). Qed.
Theorem C07_tree_renderings_have_no_prefix_notation : forall (D : Type) (tb : optable) (c : chain (D:=D)),
  wf_chain tb c = true -> noprefix tb (flatten c) = true.
Proof. intros D tb. exact (chain_noprefix tb). Qed.

(* TEXT level.  A blank text (spaces only) has no tokens, so every parser rejects it. *)
Theorem C07_blank_text : forall (D : Type) (C : carrier D) (tb : optable) (is_literal : str -> option nat) (s : str),
  forallb (N.eqb SPACE) s = true ->
  tokenize C tb is_literal s = Ok [] /\
  (forall fb, is_err (parse_wo_compile C tb fb is_literal s)) /\ (forall fb, is_err (parse C tb fb is_literal s)) /\ is_err (parse_deep C tb is_literal s).
Proof.
  intros D C tb is_literal s H. pose proof (tokenize_blank C tb is_literal s H) as Ht. split; [exact Ht|].
  destruct (C07_empty_rejected D C tb s) as [Hf Hd].
  split; [intros fb; unfold parse_wo_compile; rewrite Ht; cbn [bind]; exact (Hf fb)|].
  split; [|unfold parse_deep; rewrite Ht; cbn [bind]; exact Hd].
  intros fb. unfold parse, parse_wo_compile. rewrite Ht. cbn [bind]. destruct (Hf fb) as [e He]. rewrite He. exists e. reflexivity.
Qed.

(* A character at which no token starts (not a space, parenthesis, comma or opening brace; no literal, no operator name,
   no identifier begins there), after any prefix of readable tokens in the canonical spaced rendering: the tokenizer
   reports an error, so every parser rejects the text. *)
Theorem C07_unknown_char : forall (D : Type) (C : carrier D) (tb : optable) (is_literal : str -> option nat) (ts : list (token D)) (s : str),
  Forall (lexable C tb is_literal) ts -> unknown_start tb is_literal s ->
  tokenize C tb is_literal (stext C tb ts ++ s) = Err E_TOKENIZE /\
  (forall fb, is_err (parse_wo_compile C tb fb is_literal (stext C tb ts ++ s))) /\
  (forall fb, is_err (parse C tb fb is_literal (stext C tb ts ++ s))) /\ is_err (parse_deep C tb is_literal (stext C tb ts ++ s)).
Proof.
  intros D C tb is_literal ts s HF Hs. pose proof (tokenize_unknown_char C tb is_literal ts s HF Hs) as Ht. split; [exact Ht|].
  split; [intros fb; unfold parse_wo_compile; rewrite Ht; exists E_TOKENIZE; reflexivity|].
  split; [intros fb; unfold parse, parse_wo_compile; rewrite Ht; exists E_TOKENIZE; reflexivity|unfold parse_deep; rewrite Ht; exists E_TOKENIZE; reflexivity].
Qed.

(* ... the same behind a prefix with free spacing (Proofs/LexFlex.v), a number or operator name at the end of the prefix
   being followed by at least one space: `sin({x})+$`, `( {x}+12 #` *)
Theorem C07_unknown_char_free_spacing : forall (D : Type) (C : carrier D) (tb : optable) (is_literal : str -> option nat) (items : list (token D * nat)) (s : str),
  Forall (flexable C tb is_literal) (map fst items) -> gaps_ok C tb items ->
  (forall t n, last items (TOpen, 0) = (t, n) -> items <> [] -> needs_term t = true -> 1 <= n) ->
  unknown_start tb is_literal s ->
  tokenize C tb is_literal (ftext C tb items ++ s) = Err E_TOKENIZE /\
  (forall fb, is_err (parse_wo_compile C tb fb is_literal (ftext C tb items ++ s))) /\
  (forall fb, is_err (parse C tb fb is_literal (ftext C tb items ++ s))) /\ is_err (parse_deep C tb is_literal (ftext C tb items ++ s)).
Proof.
  intros D C tb is_literal items s HF Hg Hl Hs. pose proof (tokenize_unknown_char_flex C tb is_literal items s HF Hg Hl Hs) as Ht. split; [exact Ht|].
  split; [intros fb; unfold parse_wo_compile; rewrite Ht; exists E_TOKENIZE; reflexivity|].
  split; [intros fb; unfold parse, parse_wo_compile; rewrite Ht; exists E_TOKENIZE; reflexivity|unfold parse_deep; rewrite Ht; exists E_TOKENIZE; reflexivity].
Qed.


(* non-vacuity: two adjacent operands pass the pair rules and are rejected by the count *)
Example C07_adjacent_operands :
  exists e, parse_tokens_wo (D:=term) [] true [] [TNum (Lit [49%N]); TNum (Lit [50%N])] = Err e.
Proof. vm_compute. eexists; reflexivity. Qed.

(* ... and behind ANY locally readable prefix (Proofs/LexLocal.v: no terminator asked for, bare variable names, constants):
   `2*x-sin(y)$`, `a+b#c` *)
Theorem C07_unknown_char_behind_locally_readable_text : forall (D : Type) (C : carrier D) (tb : optable) (is_literal : str -> option nat)
    (items : list (piece (D:=D) * nat)) (s : str),
  all_readable C tb is_literal items s -> unknown_start tb is_literal s ->
  tokenize C tb is_literal (ptexts C tb items ++ s) = Err E_TOKENIZE /\
  (forall fb, is_err (parse_wo_compile C tb fb is_literal (ptexts C tb items ++ s))) /\
  (forall fb, is_err (parse C tb fb is_literal (ptexts C tb items ++ s))) /\ is_err (parse_deep C tb is_literal (ptexts C tb items ++ s)).
Proof.
  intros D C tb is_literal items s HR Hs. pose proof (tokenize_local_unknown_char C tb is_literal items s HR Hs) as Ht. split; [exact Ht|].
  split; [intros fb; unfold parse_wo_compile; rewrite Ht; exists E_TOKENIZE; reflexivity|].
  split; [intros fb; unfold parse, parse_wo_compile; rewrite Ht; exists E_TOKENIZE; reflexivity|unfold parse_deep; rewrite Ht; exists E_TOKENIZE; reflexivity].
Qed.

Print Assumptions C07_unbalanced_rejected.
Print Assumptions C07_trailing_operator_rejected.
Print Assumptions C07_bad_pair_rejected.
Print Assumptions C07_operand_count.
Print Assumptions C07_parenthesis_inserted_rejected.
Print Assumptions C07_parenthesis_deleted_rejected.
Print Assumptions C07_extra_operand_rejected_flat.
Print Assumptions C07_extra_operand_rejected_deep.
Print Assumptions C07_tree_renderings_have_no_prefix_notation.
Print Assumptions C07_blank_text.
Print Assumptions C07_unknown_char.
Print Assumptions C07_unknown_char_free_spacing.
Print Assumptions C07_unknown_char_behind_locally_readable_text.
