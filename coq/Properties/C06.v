(* C06 — no input text can crash the library.  Property theorems only. *)
From Coq Require Import List.
From Exmex.Model Require Import Base Lexer Flat Deep Convert Statements.
From Exmex.Spec Require Import RefSem.
From Exmex.Proofs Require Import Totality FlatTotal DeepTotal CompileCorrect ConvertCompose ParseAny Unparse StatementsTotal.

(* In the model every panic site of the Rust code (index out of bounds, unwrap on None, usize underflow) is an explicit
   `Panic site` outcome.  The theorems say that no text reaches one. *)

(* 1. tokenizer and precondition check: every text, operator table, data type and literal matcher *)
Theorem C06_tokenizer_total_partial :
  forall (D : Type) (C : carrier D) (tb : optable) (is_literal : str -> option nat) (text : str) (site : nat),
  tokenize C tb is_literal text <> Panic site.
Proof. exact @tokenize_total. Qed.
Theorem C06_preconditions_total_partial :
  forall (D : Type) (tb : optable) (ts : list (token D)) (site : nat), check_preconditions tb ts <> Panic site.
Proof. exact @check_preconditions_total. Qed.

(* 2. the flat parsing entry points, with and without constant folding *)
Theorem C06_flat_parse_never_panics :
  forall (D : Type) (C : carrier D) (tb : optable) (is_literal : str -> option nat) (text : str) (site : nat),
  parse C tb true is_literal text <> Panic site /\ parse_wo_compile C tb true is_literal text <> Panic site.
Proof. intros. split; [apply parse_no_panic|apply parse_wo_compile_no_panic]. Qed.

(* 3. every flat expression obtained this way evaluates to a value on every slice of the right length: no index out of
   bounds in the tracker loop for any application order, no missing variable *)
Theorem C06_parsed_flat_expressions_evaluate :
  forall (D : Type) (C : carrier D) (tb : optable) (is_literal : str -> option nat) (text : str) (fx : flatex D) (vals : list D),
  parse C tb true is_literal text = Ok fx \/ parse_wo_compile C tb true is_literal text = Ok fx ->
  length vals = length (fvars fx) -> exists v, eval_flat C fx vals = Ok v.
Proof. exact @parsed_evaluates. Qed.

(* 4. the deep parsing entry point *)
Theorem C06_deep_parse_never_panics :
  forall (D : Type) (C : carrier D) (tb : optable) (is_literal : str -> option nat) (text : str) (site : nat),
  parse_deep C tb is_literal text <> Panic site.
Proof. exact @parse_deep_no_panic. Qed.

(* 5. what the deep parser returns for ANY text it accepts (also sloppy input): the parser consumed every token, the
   expression lists exactly the variables of the text, is index-consistent with that list at every level (deep_ok), and
   therefore evaluates to a value on every slice of the right length, converts to the flat form and prints -- none of
   the index operations and unwraps of these follow-up operations can panic on it *)
Theorem C06_parsed_deep_expressions_are_consistent :
  forall (D : Type) (C : carrier D) (tb : optable) (ts : list (token D)) (e : deepex D),
  parse_deep_tokens C tb ts = Ok e -> dvars e = find_parsed_vars ts /\ deep_ok tb e.
Proof. intros D C tb ts e H. split; [exact (proj1 (parsed_any C tb ts e H))|exact (parsed_any_deep_ok C tb ts e H)]. Qed.
Theorem C06_parsed_deep_expressions_evaluate_convert_and_print :
  forall (D : Type) (C : carrier D) (tb : optable), wf_table tb = true ->
  forall (is_literal : str -> option nat) (text : str) (e : deepex D),
  parse_deep C tb is_literal text = Ok e ->
  (forall vals : list D, length vals = length (dvars e) -> exists v, eval_deep C e vals = Ok v) /\
  (exists fx, from_deepex C tb true e = Ok fx /\ fvars fx = dvars e) /\
  (exists s, unparse C tb e = Some s).
Proof.
  intros D C tb Hwf is_literal text e H. unfold parse_deep in H.
  destruct (tokenize C tb is_literal text) as [ts| |]; cbn [bind] in H; try discriminate.
  set (T := fun _ _ : D => True).
  split; [|split].
  - intros vals Hl.
    destruct (parsed_any_evaluates C tb T (fun _ => I) (fun _ _ _ => I) (fun _ _ _ _ _ => I) (fun _ _ _ _ _ _ _ => I) (fun _ _ _ _ => I) (fun _ _ _ _ _ => I) ts e vals H Hl) as (v & Hv & _).
    exists v. exact Hv.
  - destruct (deep_to_flat C tb Hwf T (fun _ => I) (fun _ _ _ => I) (fun _ _ _ _ _ => I) (fun _ _ _ _ _ _ _ => I) (fun _ _ _ _ => I) (fun _ _ _ _ _ => I) e (parsed_any_deep_ok C tb ts e H))
      as (fx & Hf & _ & Hv & _). exists fx. split; assumption.
  - destruct (parsed_any C tb ts e H) as (_ & Hw & _). exists (render C tb (utoks e)). exact (unparse_is_render C tb _ _ _ e Hw).
Qed.

(* 6. statement lines (statements.rs, Model/Statements.v): the line is split at `=`, the expression part goes through
   FlatEx::parse and, when it has no variables, is evaluated on the empty slice; the left-hand side is only classified *)
Theorem C06_statement_lines_never_panic :
  forall (D : Type) (C : carrier D) (tb : optable) (is_literal : str -> option nat) (line : str) (site : nat),
  line_2_statement C tb is_literal line <> Panic site.
Proof. exact @line_2_statement_no_panic. Qed.

(* `_partial` in the names above and outside these theorems: operator listings and partial of
   SLOPPY parsed expressions (for well-formed trees and for every flat expression the parser accepts the conversions
   are in C03's theorems), the value-typed and statement entry points, and stack depth, which is a runtime fact
   (child processes with an 8 MiB stack, DESIGN.md C06, known finding F10).  All of them are exercised by the
   correspondence under catch_unwind, exhaustively for short strings over the piece alphabets. *)
Print Assumptions C06_tokenizer_total_partial.
Print Assumptions C06_preconditions_total_partial.
Print Assumptions C06_flat_parse_never_panics.
Print Assumptions C06_parsed_flat_expressions_evaluate.
Print Assumptions C06_deep_parse_never_panics.
Print Assumptions C06_parsed_deep_expressions_are_consistent.
Print Assumptions C06_parsed_deep_expressions_evaluate_convert_and_print.
Print Assumptions C06_statement_lines_never_panic.
