(* Proofs/CompileCorrect.v — FlatEx::compile preserves the value of ANY flat expression whose schedule is the one
   prioritized_indices_flat computes, for every assignment of the variables, modulo R; the variable nodes, the variable
   names and the text are unchanged, and the result is again such an expression. *)
From Coq Require Import List Arith Lia Bool ZArith Sorted.
Import ListNotations.
From Exmex.Model Require Import Base EvalBinary Lexer Flat.
From Exmex.Proofs Require Import ChainMachine SortedRef SortDesc Bump BumpInst Pev PevFold FlVals FlatPev CompileMachine CompileRefine.
Open Scope nat_scope.

Section ListFacts2.
Lemma map_snd_combine {A B} : forall (a : list A) (b : list B), length a = length b -> map snd (combine a b) = b.
Proof. induction a as [|x a IH]; intros [|y b] H; try discriminate; [reflexivity|]. cbn. f_equal. apply IH. cbn in H. lia. Qed.
Lemma map_fst_combine {A B} : forall (a : list A) (b : list B), length a = length b -> map fst (combine a b) = a.
Proof. induction a as [|x a IH]; intros [|y b] H; try discriminate; [reflexivity|]. cbn. f_equal. apply IH. cbn in H. lia. Qed.
Lemma map_nth_seq {A} (d : A) : forall (l : list A) lo, map (fun j => nth (j - lo) l d) (seq lo (length l)) = l.
Proof.
  induction l as [|a l IH]; intros lo; [reflexivity|]. cbn [length seq map]. rewrite Nat.sub_diag. cbn [nth]. f_equal.
  rewrite <- (IH (S lo)) at 2. apply map_ext_in. intros j Hj. apply in_seq in Hj. replace (j - lo) with (S (j - S lo)) by lia. reflexivity.
Qed.
Lemma nth_error_seq lo n j : j < n -> nth_error (seq lo n) j = Some (lo + j).
Proof.
  revert lo j. induction n as [|n IH]; intros lo j H; [lia|]. destruct j; cbn; [f_equal; lia|]. rewrite IH by lia. f_equal. lia.
Qed.
End ListFacts2.

Section CompileCorrect.
Context {D : Type}.
Variable C : carrier D.
Variable R : D -> D -> Prop.
Hypothesis R_refl : forall a, R a a.
Hypothesis R_sym : forall a b, R a b -> R b a.
Hypothesis R_trans : forall a b c, R a b -> R b c -> R a c.
Hypothesis R_bin : forall k a a' b b', R a a' -> R b b' -> R (binf C k a b) (binf C k a' b').
Hypothesis R_un : forall k a a', R a a' -> R (unf C k a) (unf C k a').

(* a flat expression as the parser and compile build them: one more node than operators, scheduled by priority *)
Definition flat_wf (fx : flatex D) : Prop :=
  length (fnodes fx) = S (length (fops fx)) /\ fprios fx = prioritized_indices_flat true (fops fx) (fnodes fx).
Definition assoc_ok (ops : list fop) : Prop := forall o, In o ops -> fcomm o = true ->
  forall a b c, R (binf C (fidx o) (binf C (fidx o) a b) c) (binf C (fidx o) a (binf C (fidx o) b c)).

Definition pre_apply (n : fnode D) : fnode D :=
  match nkind n with
  | FNum d => {| nkind := FNum (apply_un C (nun n) d); nun := [] |}
  | FVar _ => n
  end.
Definition mk (n : fnode D) : @cn D := {| cnode := n; cdecl := false |}.

Lemma nval_pre_apply vals n : nval C vals (pre_apply n) = nval C vals n.
Proof. unfold pre_apply, nval. destruct (nkind n) eqn:E; [reflexivity|rewrite E; reflexivity]. Qed.
Lemma var_nodes_pre_apply nodes : var_nodes (map pre_apply nodes) = var_nodes nodes.
Proof.
  unfold var_nodes. induction nodes as [|n nodes IH]; [reflexivity|]. cbn [map flat_map]. rewrite IH. f_equal.
  unfold pre_apply. destruct (nkind n) eqn:E; [reflexivity|rewrite E; reflexivity].
Qed.
Lemma numok_pre_apply n : numok (mk (pre_apply n)).
Proof. unfold numok, mk, pre_apply. cbn [cnode]. destruct (nkind n) eqn:E; intros v H; [reflexivity|rewrite E in H; discriminate]. Qed.

Lemma inc_combine_seq : forall (m : list (@cn D)) lo, @inc (@cn D) lo (combine (seq lo (length m)) m).
Proof. induction m as [|a m IH]; intros lo; [exact I|]. cbn. split; [lia|apply IH]. Qed.
Lemma adj_ok_all rest : forall (l : @tagged D) x, (forall j, In j (tids l) -> In j rest) -> adj_ok rest x l.
Proof.
  induction l as [|[j y] tl IH]; intros x H; [exact I|]. cbn [adj_ok]. split; [left; apply H; left; reflexivity|].
  apply IH. intros k Hk. apply H. right. exact Hk.
Qed.
Lemma all_numok_all : forall (l : @tagged D) x, numok x -> (forall p, In p l -> numok (snd p)) -> all_numok x l.
Proof.
  induction l as [|[j y] tl IH]; intros x Hx H; [exact Hx|]. cbn [all_numok]. split; [exact Hx|].
  apply IH; [apply (H (j, y)); left; reflexivity|]. intros p Hp. apply H. right. exact Hp.
Qed.
Lemma sem_combine ops vals : forall (l : @tagged D),
  sem C ops vals l = combine (map (opsf ops) (tids l)) (map (nval C vals) (map cnode (map snd l))).
Proof. induction l as [|[j y] tl IH]; [reflexivity|]. cbn. f_equal. exact IH. Qed.

Lemma all_numok_forall : forall (l : @tagged D) x, all_numok x l -> forall a, In a (x :: map snd l) -> numok a.
Proof.
  induction l as [|[j y] tl IH]; intros x H a Ha.
  - destruct Ha as [<-|[]]. exact H.
  - cbn [all_numok] in H. destruct H as [Hx Hy]. destruct Ha as [<-|Ha]; [exact Hx|]. exact (IH y Hy a Ha).
Qed.

Definition level_pv (vals : list D) (nodes : list (fnode D)) (ops : list fop) : D :=
  match nodes with [] => dflt C | x :: r => pv C (nval C vals x) (combine ops (map (nval C vals) r)) end.
Definition nums_plain (nodes : list (fnode D)) : Prop := forall n, In n nodes -> forall v, nkind n = FNum v -> nun n = [].
Definition remaining (used : list nat) (ops : list fop) : list fop :=
  map snd (filter (fun p => negb (existsb (Nat.eqb (fst p)) used)) (combine (seq 0 (length ops)) ops)).

(* the folding loop under ANY admissible key function *)
Theorem compile_loop_preserves (ops : list fop) (keyb : nat -> Z)
  (kb_cases : forall i, keyb i = BumpInst.key0 ops i \/ keyb i = (BumpInst.key0 ops i + 5)%Z)
  (kb_ok : forall i, keyb i = (BumpInst.key0 ops i + 5)%Z -> forall j, j < i -> (BumpInst.key0 ops j <= BumpInst.key0 ops i)%Z ->
     (forall k, j < k < i -> (BumpInst.key0 ops i < BumpInst.key0 ops k)%Z) -> (BumpInst.key0 ops j < BumpInst.key0 ops i)%Z \/ BumpInst.AP ops j i)
  (n0 : fnode D) (nt : list (fnode D)) :
  length nt = length ops -> assoc_ok ops -> nums_plain (n0 :: nt) ->
  let sigma := sort_desc keyb (seq 0 (length ops)) in
  exists nodes' used',
    compile_loop C sigma 0 sigma (n0 :: nt) ops (repeat false (length (n0 :: nt))) [] = Ok (nodes', used') /\
    length nodes' = S (length (remaining used' ops)) /\
    (forall o, In o (remaining used' ops) -> In o ops) /\
    var_nodes nodes' = var_nodes (n0 :: nt) /\
    nums_plain nodes' /\
    forall vals, R (level_pv vals nodes' (remaining used' ops)) (level_pv vals (n0 :: nt) ops).
Proof.
  intros Hl Hassoc Hplain sigma.
  set (n := length ops) in *.
  destruct (sort_desc_spec keyb n) as (HS & ND & Hiff). fold sigma in HS, ND, Hiff.
  set (x0 := mk n0). set (l0 := combine (seq 0 n) (map mk nt)).
  assert (Hlm : length (seq 0 n) = length (map mk nt)) by (rewrite seq_length, map_length; lia).
  assert (F1 : cnodes x0 l0 = n0 :: nt).
  { unfold cnodes, l0, x0. rewrite (map_snd_combine _ _ Hlm). cbn [map mk cnode]. f_equal. rewrite map_map. cbn [mk cnode]. apply map_id. }
  assert (F2 : cflags x0 l0 = repeat false (length (n0 :: nt))).
  { unfold cflags, l0, x0. rewrite (map_snd_combine _ _ Hlm). cbn [map mk cdecl length repeat]. f_equal. rewrite map_map. cbn [mk cdecl].
    clear. induction nt as [|a l IH]; [reflexivity|]. cbn. f_equal. exact IH. }
  assert (F3 : tids l0 = seq 0 n) by (unfold tids, l0; apply (map_fst_combine _ _ Hlm)).
  assert (HI : Inv ops sigma [] x0 l0).
  { constructor.
    - unfold l0. replace n with (length (map mk nt)) by (rewrite map_length; exact Hl). apply inc_combine_seq.
    - rewrite F3. symmetry. apply filter_true. reflexivity.
    - intros j Hj. rewrite F3. apply in_seq. apply Hiff in Hj. lia.
    - apply adj_ok_all. intros j Hj. rewrite F3 in Hj. apply in_seq in Hj. apply Hiff. lia.
    - apply all_numok_all; [intros v Hv; apply (Hplain n0 (or_introl eq_refl) v Hv)|]. intros [j y] Hp. unfold l0 in Hp. apply in_combine_r in Hp.
      apply in_map_iff in Hp. destruct Hp as (m & <- & Hm). intros v Hv. apply (Hplain m (or_intror Hm) v Hv). }
  assert (Hpos : pos_ok sigma 0 sigma l0).
  { intros t j Ht. exists j. split; [exact Ht|]. rewrite F3. assert (j < n) by (apply Hiff; eapply nth_error_In; exact Ht).
    rewrite nth_error_seq by lia. reflexivity. }
  assert (NDl : NoDup (tids l0)) by (rewrite F3; apply seq_NoDup).
  assert (Hlt0 : forall j, In j (tids l0) -> j < length ops) by (intros j Hj; rewrite F3 in Hj; apply in_seq in Hj; fold n; lia).
  pose proof (compile_loop_crun C ops sigma 0 sigma x0 l0 [] NDl ND Hlt0 Hpos) as Hloop.
  pose proof (crun_vars C ops sigma x0 l0 []) as Hvars.
  assert (Hall : forall q, q < length ops <-> In q ([] ++ sigma)) by (intros q; cbn [app]; fold n; symmetry; apply Hiff).
  pose proof (fun vals => crun_inv C R R_refl R_sym R_trans R_bin R_un ops Hassoc keyb kb_cases kb_ok vals sigma [] [] x0 l0 HS ND Hall HI) as Hrun.
  destruct (crun C ops sigma x0 l0 []) as [[x' l'] used'] eqn:Ecr.
  assert (HI' : Inv ops [] used' x' l') by exact (proj1 (Hrun [])).
  destruct HI' as [Hinc' Hids' _ _ Hnum'].
  set (ops' := map (opsf ops) (tids l')).
  assert (Eops' : remaining used' ops = ops').
  { unfold remaining. change (fun p : nat * fop => negb (existsb (Nat.eqb (fst p)) used')) with (fun p : nat * fop => notin used' (fst p)).
    rewrite (filter_combine_seq (notin used') dummy_op ops 0). unfold ops'. rewrite Hids'. apply map_ext. intros j. rewrite Nat.sub_0_r. reflexivity. }
  exists (cnodes x' l'), used'. rewrite Eops'.
  assert (Hlen' : length (map cnode (map snd l')) = length ops') by (unfold ops', tids; rewrite !map_length; reflexivity).
  split; [rewrite <- F2, <- F1; exact Hloop|].
  split; [unfold cnodes; cbn [map length]; rewrite Hlen'; reflexivity|].
  split.
  { intros o Ho. unfold ops' in Ho. apply in_map_iff in Ho. destruct Ho as (j & <- & Hj). rewrite Hids' in Hj. apply filter_In in Hj.
    destruct Hj as [Hj _]. apply in_seq in Hj. unfold opsf. apply nth_In. lia. }
  split; [rewrite Hvars, F1; reflexivity|].
  split.
  { intros m Hm v Hv. unfold cnodes in Hm. apply in_map_iff in Hm. destruct Hm as (a & <- & Ha). exact (all_numok_forall l' x' Hnum' a Ha v Hv). }
  intros vals. pose proof (proj2 (Hrun vals)) as HR. unfold pvs in HR. rewrite !sem_combine in HR.
  fold ops' in HR. rewrite F3 in HR. unfold l0 in HR at 1. rewrite (map_snd_combine _ _ Hlm) in HR.
  replace (map (opsf ops) (seq 0 n)) with ops in HR.
  2:{ unfold opsf, n. rewrite <- (map_nth_seq dummy_op ops 0) at 1. apply map_ext. intros j. rewrite Nat.sub_0_r. reflexivity. }
  unfold cval, x0 in HR. cbn [mk cnode] in HR.
  replace (map cnode (map mk nt)) with nt in HR by (rewrite map_map; cbn [mk cnode]; symmetry; apply map_id).
  exact HR.
Qed.

Theorem compile_preserves (fx : flatex D) : flat_wf fx -> assoc_ok (fops fx) ->
  exists fx', compile C true fx = Ok fx' /\ flat_wf fx' /\ fvars fx' = fvars fx /\ ftext fx' = ftext fx /\
    (forall o, In o (fops fx') -> In o (fops fx)) /\
    var_nodes (fnodes fx') = var_nodes (fnodes fx) /\
    forall vals,
      (in_range vals (fnodes fx) ->
         exists v v', eval_cloning C fx vals = Ok v /\ eval_cloning C fx' vals = Ok v' /\ R v' v) /\
      (~ in_range vals (fnodes fx) -> eval_cloning C fx vals = Panic 319 /\ eval_cloning C fx' vals = Panic 319).
Proof.
  destruct fx as [nodes ops prios vars text]. unfold flat_wf, assoc_ok. cbn [fnodes fops fprios fvars ftext].
  intros [Hlen Hprios] Hassoc. subst prios.
  destruct nodes as [|n0 nt]; [discriminate|]. cbn [length] in Hlen. assert (Hl : length nt = length ops) by lia. clear Hlen.
  assert (Hplain : nums_plain (pre_apply n0 :: map pre_apply nt)).
  { intros m Hm v Hv. change (pre_apply n0 :: map pre_apply nt) with (map pre_apply (n0 :: nt)) in Hm. apply in_map_iff in Hm.
    destruct Hm as (m0 & <- & _). exact (numok_pre_apply m0 v Hv). }
  destruct (compile_loop_preserves ops (BumpInst.keyb (n0 :: nt) ops) (BumpInst.key_cases (n0 :: nt) ops) (BumpInst.BumpOK (n0 :: nt) ops)
              (pre_apply n0) (map pre_apply nt) ltac:(rewrite map_length; exact Hl) Hassoc Hplain)
    as (nodes' & used' & Hloop & Hlen' & Hsub & Hv' & _ & HR).
  set (ops' := remaining used' ops) in *.
  exists {| fnodes := nodes'; fops := ops'; fprios := prioritized_indices_flat true ops' nodes'; fvars := vars; ftext := text |}.
  change (pre_apply n0 :: map pre_apply nt) with (map pre_apply (n0 :: nt)) in *.
  rewrite var_nodes_pre_apply in Hv'.
  split; [|split; [|split; [reflexivity|split; [reflexivity|split; [exact Hsub|split; [exact Hv'|]]]]]].
  - unfold compile. cbn [fnodes fops fprios fvars ftext].
    change (map (fun n1 : fnode D => match nkind n1 with
                                     | FNum d => {| nkind := FNum (apply_un C (nun n1) d); nun := [] |}
                                     | FVar _ => n1 end) (n0 :: nt)) with (map pre_apply (n0 :: nt)).
    unfold prioritized_indices_flat at 1 2. unfold BumpInst.keyb in Hloop.
    change (fun i : nat => key true (n0 :: nt) ops i) with (key true (n0 :: nt) ops) in Hloop. rewrite Hloop. cbn [bind]. reflexivity.
  - unfold flat_wf. cbn [fnodes fops fprios]. split; [exact Hlen'|reflexivity].
  - intros vals. cbn [fnodes fops fprios].
    assert (Hrange : in_range vals nodes' <-> in_range vals (n0 :: nt)).
    { rewrite !in_range_var_nodes, Hv'. reflexivity. }
    destruct nodes' as [|m0 mt]; [discriminate|]. cbn [length] in Hlen'.
    split.
    + intros Hr.
      destruct (eval_numbers_is_pev C R R_refl R_sym R_trans R_bin R_un vals n0 nt ops Hl Hassoc) as (v & Ev & Rv).
      destruct (eval_numbers_is_pev C R R_refl R_sym R_trans R_bin R_un vals m0 mt ops' ltac:(lia)
                  (fun o Ho => Hassoc o (Hsub o Ho))) as (v' & Ev' & Rv').
      exists v, v'. split; [|split].
      * unfold eval_cloning. cbn [fnodes fops fprios]. rewrite (mapM_node_val_range C vals _ Hr). cbn [bind]. exact Ev.
      * unfold eval_cloning. cbn [fnodes fops fprios]. rewrite (mapM_node_val_range C vals _ (proj2 Hrange Hr)). cbn [bind]. exact Ev'.
      * eapply R_trans; [exact Rv'|]. eapply R_trans; [|apply R_sym; exact Rv].
        specialize (HR vals). unfold level_pv in HR. cbn [map] in HR. rewrite nval_pre_apply in HR.
        replace (map (nval C vals) (map pre_apply nt)) with (map (nval C vals) nt) in HR.
        2:{ rewrite map_map. apply map_ext. intros m. symmetry. apply nval_pre_apply. }
        exact HR.
    + intros Hr. unfold eval_cloning. cbn [fnodes fops fprios].
      rewrite (mapM_node_val_fail C vals _ Hr). rewrite (mapM_node_val_fail C vals (m0 :: mt) (fun H => Hr (proj1 Hrange H))). split; reflexivity.
Qed.
End CompileCorrect.
