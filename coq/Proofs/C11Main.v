(* Proofs/C11Main.v — substitution at the level of evaluation: the substituted expression evaluated at an assignment of
   its (new) variable list equals, modulo R, the original evaluated at the assignment that binds every replaced
   variable to the value of its replacement and every other variable to its own value. *)
From Coq Require Import List Arith Lia Bool ZArith.
Import ListNotations.
From Exmex.Model Require Import Base EvalBinary Lexer Flat Deep.
From Exmex.Proofs Require Import Vars DeepSem DeepCompile DeepVars DeepSubs.
Open Scope nat_scope.

Section C11Main.
Context {D : Type}.
Variable C : carrier D.
Variable R : D -> D -> Prop.
Hypothesis R_refl : forall a, R a a.
Hypothesis R_sym : forall a b, R a b -> R b a.
Hypothesis R_trans : forall a b c, R a b -> R b c -> R a c.
Hypothesis R_bin : forall k a a' b b', R a a' -> R b b' -> R (binf C k a b) (binf C k a' b').
Hypothesis R_un : forall k a a', R a a' -> R (unf C k a) (unf C k a').
Variable flagged : dbop -> Prop.
Hypothesis flagged_assoc : forall o, flagged o -> bcomm o = true ->
  forall a b c, R (binf C (bidx o) (binf C (bidx o) a b) c) (binf C (bidx o) a (binf C (bidx o) b c)).

Local Notation ddenN rho := (dden C (nlook rho)).
Local Notation ndenN rho := (nden C (nlook rho)).

(* the value of a name under an assignment of a variable list *)
Definition env_of (all : list str) (vals : list D) : str -> D :=
  fun x => match index_of x all 0 with Some i => nth i vals (dflt C) | None => dflt C end.

Lemma index_of_bound x l i : index_of x l 0 = Some i -> i < length l.
Proof. intros H. destruct (index_of_spec x l 0 i H) as [_ Hn]. rewrite Nat.sub_0_r in Hn. apply nth_error_Some. congruence. Qed.

(* index-consistent with the list `all` (its own variable list at the top; nested levels may carry shorter lists, as
   the parser builds them, or the same list, as reset_vars leaves them) *)
Definition short_list (all : list str) : list str -> Prop := fun v => length v <= length all.
Definition dindexed (all : list str) (e : deepex D) : Prop := dwf flagged (indexed all) (short_list all) e /\ dvars e = all.
Lemma dconsistent_indexed all e : dconsistent flagged all e -> dindexed all e.
Proof.
  intros H. split; [|exact (dconsistent_vars flagged all e H)].
  revert H. apply dwf_weaken; [intros i x Hx; exact Hx|intros v ->; unfold short_list; lia].
Qed.
Lemma dindexed_closed all e : dindexed all e -> dclosed flagged all e.
Proof. intros [H _]. revert H. apply dwf_weaken; [intros i x Hx; exact (index_of_In x all 0 i Hx)|intros; exact I]. Qed.

(* evaluation of an index-consistent expression is its named denotation under the environment of the assignment *)
Theorem eval_consistent (all : list str) (vals : list D) (e : deepex D) :
  dindexed all e -> length vals = length all ->
  exists v, eval_deep C e vals = Ok v /\ R v (ddenN (env_of all vals) e).
Proof.
  intros [Hc Hv] Hlen.
  destruct (eval_deep_is_dden C R R_refl R_sym R_trans R_bin R_un flagged flagged_assoc (nlook (env_of all vals)) (indexed all) (short_list all) vals) with (e := e)
    as (v & Ev & Rv).
  - intros v Hvl. unfold short_list in Hvl. lia.
  - intros i x Hi. unfold indexed in Hi. split; [rewrite Hlen; exact (index_of_bound x all i Hi)|]. unfold nlook, env_of. rewrite Hi. reflexivity.
  - exact Hc.
  - exists v. split; [|exact Rv]. unfold eval_deep. rewrite Hv, Hlen, Nat.eqb_refl. exact Ev.
Qed.

Lemma ddenN_ext_all (rho rho' : str -> D) : (forall x, rho x = rho' x) -> forall e, ddenN rho e = ddenN rho' e.
Proof.
  intros Hext. induction e as [nodes bops uop vars IH] using deep_ind.
  rewrite !dden_unfold. f_equal. f_equal. apply map_ext_in. intros n Hin.
  destruct n as [e'|d|i x]; cbn [nden]; [apply IH; assumption|reflexivity|]. unfold nlook. apply Hext.
Qed.

(* the named denotation only looks at the names that occur *)
Lemma ddenN_ext (S : list str) (rho rho' : str -> D) : (forall x, In x S -> rho x = rho' x) ->
  forall e, dclosed flagged S e -> ddenN rho e = ddenN rho' e.
Proof.
  intros Hext. induction e as [nodes bops uop vars IH] using deep_ind. intros Hc.
  unfold dclosed in Hc. rewrite dwf_unfold in Hc. destruct Hc as (_ & _ & _ & Hn).
  rewrite !dden_unfold. f_equal. f_equal. apply map_ext_in. intros n Hin. rewrite Forall_forall in Hn. specialize (Hn n Hin).
  destruct n as [e'|d|i x]; cbn [nden nwf] in *; [apply IH; assumption|reflexivity|]. unfold nlook. apply Hext. exact Hn.
Qed.

(* named and positional denotations agree on index-consistent expressions *)
Lemma named_is_positional (all : list str) (vals : list D) (okvars : list str -> Prop) : forall e, dwf flagged (indexed all) okvars e ->
  ddenN (env_of all vals) e = dden C (vlook C vals) e.
Proof.
  induction e as [nodes bops uop vars IH] using deep_ind. intros Hc.
  rewrite dwf_unfold in Hc. destruct Hc as (_ & _ & _ & Hn).
  rewrite !dden_unfold. f_equal. f_equal. apply map_ext_in. intros n Hin. rewrite Forall_forall in Hn. specialize (Hn n Hin).
  destruct n as [e'|d|i x]; cbn [nden nwf] in *; [apply IH; assumption|reflexivity|].
  unfold nlook, env_of, vlook. unfold indexed in Hn. rewrite Hn. reflexivity.
Qed.

Lemma env_of_map (all : list str) (f : str -> D) x : In x all -> env_of all (map f all) x = f x.
Proof.
  intros Hin. unfold env_of. destruct (index_of_complete x all 0 Hin) as [i Hi]. rewrite Hi.
  destruct (index_of_spec x all 0 i Hi) as [_ Hn]. rewrite Nat.sub_0_r in Hn.
  rewrite (nth_indep _ (dflt C) (f x)) by (rewrite map_length; apply nth_error_Some; congruence).
  rewrite map_nth. f_equal. apply nth_error_nth. exact Hn.
Qed.

Variable sub : str -> option (deepex D).
Hypothesis sub_closed : forall x r, sub x = Some r -> dclosed flagged (dvars r) r.

(* the substituted expression: accepted, variable list, evaluation *)
Theorem subs_eval (e : deepex D) : dstruct flagged e ->
  exists e', subs C sub e = Ok e' /\ dvars e' = sort_strs (snames sub e) /\
    forall vals', length vals' = length (dvars e') ->
    exists v, eval_deep C e' vals' = Ok v /\ R v (ddenN (senv C sub (env_of (dvars e') vals')) e).
Proof.
  intros Hs. destruct (subs_ok C R R_refl R_sym R_trans R_bin R_un flagged flagged_assoc sub sub_closed e Hs) as (e' & E & Hc & Hd).
  exists e'. split; [exact E|]. pose proof (dconsistent_vars flagged _ _ Hc) as Hv. split; [exact Hv|].
  intros vals' Hlen. rewrite Hv in *.
  destruct (eval_consistent _ vals' e' (dconsistent_indexed _ _ Hc) Hlen) as (v & Ev & Rv). exists v. split; [exact Ev|].
  eapply R_trans; [exact Rv|apply Hd].
Qed.

(* ... and when the original is index-consistent with its own variable list: the ORIGINAL evaluated at the assignment
   that binds each of its variables x to  senv x  (the replacement's denotation, or x's own value) *)
Theorem subs_eval_original (e : deepex D) : dindexed (dvars e) e ->
  exists e', subs C sub e = Ok e' /\ dvars e' = sort_strs (snames sub e) /\
    forall vals', length vals' = length (dvars e') ->
    exists v w, eval_deep C e' vals' = Ok v /\
                eval_deep C e (map (senv C sub (env_of (dvars e') vals')) (dvars e)) = Ok w /\ R v w.
Proof.
  intros Hc. pose proof (dclosed_struct flagged _ _ (dindexed_closed _ _ Hc)) as Hs.
  destruct (subs_eval e Hs) as (e' & E & Hv & Hev). exists e'. split; [exact E|]. split; [exact Hv|].
  intros vals' Hlen. destruct (Hev vals' Hlen) as (v & Ev & Rv).
  set (rho'' := senv C sub (env_of (dvars e') vals')) in *.
  destruct (eval_consistent (dvars e) (map rho'' (dvars e)) e Hc ltac:(apply map_length)) as (w & Ew & Rw).
  exists v, w. split; [exact Ev|]. split; [exact Ew|].
  eapply R_trans; [exact Rv|]. apply R_sym. eapply R_trans; [exact Rw|].
  rewrite (ddenN_ext (dvars e) (env_of (dvars e) (map rho'' (dvars e))) rho'' (fun x Hx => env_of_map (dvars e) rho'' x Hx) e (dindexed_closed _ _ Hc)).
  apply R_refl.
Qed.

(* the value a replaced variable is bound to: the replacement evaluated at the current values of ITS variables *)
Theorem replacement_value (x : str) (r : deepex D) (all : list str) (vals' : list D) :
  sub x = Some r -> dindexed (dvars r) r -> incl (dvars r) all ->
  exists w, eval_deep C r (map (env_of all vals') (dvars r)) = Ok w /\ R w (senv C sub (env_of all vals') x).
Proof.
  intros Hs Hr Hincl. destruct (eval_consistent (dvars r) (map (env_of all vals') (dvars r)) r Hr ltac:(apply map_length)) as (w & Ew & Rw).
  exists w. split; [exact Ew|]. unfold senv. rewrite Hs. eapply R_trans; [exact Rw|].
  rewrite (ddenN_ext (dvars r) _ (env_of all vals') (fun y Hy => env_of_map (dvars r) (env_of all vals') y Hy) r (dindexed_closed _ _ Hr)).
  apply R_refl.
Qed.
End C11Main.

(* nothing replaced: the same function of the named variables *)
Section Nothing.
Context {D : Type}.
Variable C : carrier D.
Lemma senv_none (rho : str -> D) x : senv C (fun _ => None) rho x = rho x.
Proof. reflexivity. Qed.
End Nothing.

