From Coq Require Import List Arith Lia Bool ZArith Sorting.Sorted Permutation.
Import ListNotations.
From Exmex.Proofs Require Import ChainMachine.
Arguments ids {D} l. Arguments inc {D} lo l. Arguments step {D} opf i x l. Arguments run {D} opf sigma x l.

Section Precedence.
Variable D : Type.
Variable opf : nat -> D -> D -> D.
Variable key : nat -> Z.

(* schedule order of prioritized_indices: descending key, ascending position among equal keys *)
Definition before (i j : nat) : Prop := (key i > key j)%Z \/ (key i = key j /\ i < j).
Definition sched_sorted (sigma : list nat) := StronglySorted before sigma.

Lemma before_trans i j k : before i j -> before j k -> before i k.
Proof. unfold before; intros [?|[? ?]] [?|[? ?]]; [left; lia|left; lia|left; lia|right; split; lia]. Qed.

Lemma sorted_filter f sigma : sched_sorted sigma -> sched_sorted (filter f sigma).
Proof.
  induction 1 as [|a l HS IH HF]; cbn; [constructor|].
  destruct (f a); [|assumption].
  constructor; [assumption|].
  rewrite Forall_forall in *. intros x Hx. apply filter_In in Hx. apply HF. tauto.
Qed.

(* the last element of a sorted schedule comes after every other element *)
Lemma sorted_last sigma r : sched_sorted (sigma ++ [r]) -> forall i, In i sigma -> before i r.
Proof.
  induction sigma as [|a l IH]; cbn; intros HS i Hi; [tauto|].
  inversion HS as [|? ? HS' HF]; subst.
  destruct Hi as [->|Hi].
  - rewrite Forall_forall in HF. apply HF. apply in_or_app. right. cbn; auto.
  - apply IH; assumption.
Qed.

(* reference: split at the operator that "comes last": minimal key, rightmost among equals *)
Definition later (i j : nat) : bool := (* true if j comes after i in the schedule order *)
  (key j <? key i)%Z || ((key j =? key i)%Z && (i <? j)).
Fixpoint root_of (l : pairs D) (best : nat) : nat :=
  match l with [] => best | (j, _) :: tl => root_of tl (if later best j then j else best) end.

Fixpoint split_at (r : nat) (l : pairs D) : option (pairs D * D * pairs D) :=
  match l with
  | [] => None
  | (j, y) :: tl => if Nat.eqb r j then Some ([], y, tl)
                    else match split_at r tl with
                         | Some (l1, y', l2) => Some ((j, y) :: l1, y', l2)
                         | None => None end
  end.

Fixpoint ref_val (fuel : nat) (x : D) (l : pairs D) : D :=
  match fuel with O => x | S f =>
    match l with
    | [] => x
    | (j, _) :: tl =>
        match split_at (root_of tl j) l with
        | Some (l1, y, l2) => opf (root_of tl j) (ref_val f x l1) (ref_val f y l2)
        | None => x
        end
    end
  end.

Lemma split_at_spec r l l1 y l2 : split_at r l = Some (l1, y, l2) -> l = l1 ++ (r, y) :: l2 /\ ~ In r (ids l1).
Proof.
  revert l1 y l2; induction l as [|[j z] tl IH]; cbn; intros l1 y l2 H; [discriminate|].
  destruct (Nat.eqb_spec r j).
  - inversion H; subst. cbn. tauto.
  - destruct (split_at r tl) as [[[a b] c]|] eqn:E; [|discriminate].
    inversion H; subst. destruct (IH _ _ _ eq_refl) as [-> Hn]. split; [reflexivity|].
    cbn. intros [?|?]; [congruence|tauto].
Qed.

Lemma split_at_in r l : In r (ids l) -> exists l1 y l2, split_at r l = Some (l1, y, l2).
Proof.
  induction l as [|[j z] tl IH]; cbn; intros H; [tauto|].
  destruct (Nat.eqb_spec r j); [eauto|].
  destruct H as [?|H]; [congruence|]. destruct (IH H) as (a & b & c & E). rewrite E. eauto.
Qed.

(* root_of returns an element that every other element is "before" *)
Lemma root_of_in l best : root_of l best = best \/ In (root_of l best) (ids l).
Proof.
  revert best; induction l as [|[j z] tl IH]; cbn; intros best; [auto|].
  destruct (later best j).
  - destruct (IH j) as [->|?]; auto.
  - destruct (IH best) as [->|?]; auto.
Qed.

Lemma later_before i j : i <> j -> later i j = true <-> before i j.
Proof.
  intros Hne. unfold later, before. rewrite orb_true_iff, andb_true_iff, Z.ltb_lt, Z.eqb_eq, Nat.ltb_lt. intuition lia.
Qed.

Lemma before_total i j : i <> j -> before i j \/ before j i.
Proof. unfold before. intros. destruct (Z.lt_trichotomy (key i) (key j)) as [?|[?|?]]; [right; left; lia| |left; left; lia]. destruct (Nat.lt_trichotomy i j) as [?|[?|?]]; [left; right; lia|congruence|right; right; lia]. Qed.

Lemma root_of_max l best : NoDup (best :: ids l) ->
  (forall i, In i (best :: ids l) -> i <> root_of l best -> before i (root_of l best)).
Proof.
  revert best; induction l as [|[j z] tl IH]; cbn [root_of ids map fst]; intros best ND i Hi Hne.
  - cbn in Hi. destruct Hi as [->|[]]. congruence.
  - apply NoDup_cons_iff in ND. destruct ND as [Hb ND']. cbn in Hb.
    assert (Hbj : best <> j) by (intro; subst; apply Hb; cbn; auto).
    destruct (later best j) eqn:L.
    + (* j replaces best *)
      assert (NDj : NoDup (j :: ids tl)) by exact ND'.
      destruct Hi as [<-|[<-|Hi]].
      * (* i = best *) apply (later_before _ _ Hbj) in L.
        destruct (Nat.eq_dec (root_of tl j) j) as [E|E]; [rewrite E; exact L|].
        eapply before_trans; [exact L|]. apply IH; [exact NDj|cbn; auto|congruence].
      * apply IH; [exact NDj|cbn; auto|assumption].
      * apply IH; [exact NDj|cbn; auto|assumption].
    + assert (NDb : NoDup (best :: ids tl)).
      { constructor; [intro; apply Hb; cbn; auto|]. apply NoDup_cons_iff in ND'. tauto. }
      destruct Hi as [<-|[<-|Hi]].
      * apply IH; [exact NDb|cbn; auto|assumption].
      * (* i = j, and best is not before j... so j before best *)
        assert (Hjb : before j best).
        { destruct (before_total best j Hbj) as [H|H]; [|exact H]. apply (later_before _ _ Hbj) in H. congruence. }
        destruct (Nat.eq_dec (root_of tl best) best) as [E|E]; [rewrite E; exact Hjb|].
        eapply before_trans; [exact Hjb|]. apply IH; [exact NDb|cbn; auto|congruence].
      * apply IH; [exact NDb|cbn; auto|assumption].
Qed.

Lemma before_irrefl i : ~ before i i.
Proof. unfold before. lia. Qed.
Lemma before_asym i j : before i j -> before j i -> False.
Proof. unfold before. lia. Qed.

Lemma sorted_NoDup sigma : sched_sorted sigma -> NoDup sigma.
Proof.
  induction 1 as [|a l HS IH HF]; constructor; [|assumption].
  intro Hin. rewrite Forall_forall in HF. exact (before_irrefl _ (HF _ Hin)).
Qed.

Lemma inc_split lo (l1 : pairs D) r y l2 : inc lo (l1 ++ (r, y) :: l2) ->
  inc lo l1 /\ Forall (fun p => fst p < r) l1 /\ inc (S r) l2.
Proof.
  revert lo; induction l1 as [|[j z] tl IH]; cbn; intros lo H.
  - destruct H. auto.
  - destruct H as [H1 H2]. destruct (IH _ H2) as (A & B & C).
    split; [auto|]. split; [|assumption]. constructor; [|assumption]. cbn.
    assert (In r (ids (tl ++ (r, y) :: l2))) by (unfold ids; rewrite map_app; apply in_or_app; right; cbn; auto).
    pose proof (inc_ge _ opf _ _ _ H2 H). lia.
Qed.

Lemma inc_NoDup lo (l : pairs D) : inc lo l -> NoDup (ids l).
Proof.
  revert lo; induction l as [|[j z] tl IH]; cbn; intros lo H; [constructor|].
  destruct H as [H1 H2]. constructor; [|eauto].
  intro Hin. pose proof (inc_ge _ opf _ _ _ H2 Hin). lia.
Qed.

Theorem run_sorted_is_ref : forall n x (l : pairs D) lo sigma,
  length l <= n -> inc lo l -> sched_sorted sigma ->
  (forall i, In i sigma <-> In i (ids l)) ->
  run opf sigma x l = Some (ref_val n x l, []).
Proof.
  induction n as [|f IH]; intros x l lo sigma Hlen Hinc HS Hiff.
  - destruct l; [|cbn in Hlen; lia]. destruct sigma as [|a s]; [reflexivity|].
    exfalso. apply (proj1 (Hiff a)). cbn; auto.
  - destruct l as [|[j z] tl].
    + destruct sigma as [|a s]; [reflexivity|]. exfalso. apply (proj1 (Hiff a)). cbn; auto.
    + cbn [ref_val].
      set (r := root_of tl j).
      assert (ND : NoDup (j :: ids tl)) by (apply (inc_NoDup lo ((j, z) :: tl)); exact Hinc).
      assert (Hr : In r (ids ((j, z) :: tl))).
      { cbn. destruct (root_of_in tl j) as [E|E]; [left; symmetry; exact E|right; exact E]. }
      destruct (split_at_in r _ Hr) as (l1 & y & l2 & Hsp). rewrite Hsp.
      destruct (split_at_spec _ _ _ _ _ Hsp) as [El Hnl1].
      (* last element of sigma is r *)
      assert (Hne : sigma <> []) by (intro; subst; apply (proj2 (Hiff j)); cbn; auto).
      destruct (exists_last Hne) as (s' & r' & ->).
      assert (Er : r' = r).
      { destruct (Nat.eq_dec r' r) as [|Hd]; [assumption|exfalso].
        assert (B1 : before r r').
        { apply (sorted_last s' r' HS). assert (In r (s' ++ [r'])) by (apply Hiff; exact Hr).
          apply in_app_or in H. destruct H as [?|[?|[]]]; [assumption|congruence]. }
        assert (B2 : before r' r).
        { apply root_of_max; [exact ND| |exact Hd]. change (In r' (ids ((j, z) :: tl))). apply Hiff. apply in_or_app. right. cbn; auto. }
        exact (before_asym _ _ B1 B2). }
      subst r'.
      rewrite El in Hinc. destruct (inc_split _ _ _ _ _ Hinc) as (I1 & F1 & I2).
      assert (NDs : NoDup (s' ++ [r])) by (apply sorted_NoDup; exact HS).
      assert (Hs' : forall i, In i s' <-> In i (ids l1) \/ In i (ids l2)).
      { intros i. split.
        - intros Hi. assert (Hir : i <> r). { intro; subst. apply NoDup_remove_2 in NDs. rewrite app_nil_r in NDs. tauto. }
          assert (In i (ids ((j, z) :: tl))) by (apply Hiff; apply in_or_app; auto).
          rewrite El in H. unfold ids in H. rewrite map_app in H. apply in_app_or in H. cbn in H. destruct H as [?|[?|?]]; [left; assumption|congruence|right; assumption].
        - intros Hi. assert (In i (s' ++ [r])).
          { apply Hiff. rewrite El. unfold ids. rewrite map_app. apply in_or_app. cbn. destruct Hi; [left|right; right]; assumption. }
          apply in_app_or in H. destruct H as [?|[?|[]]]; [assumption|subst i].
          exfalso. destruct Hi as [Hi|Hi]; [tauto|]. pose proof (inc_ge _ opf _ _ _ I2 Hi). lia. }
      destruct (run_last_is_root D opf s' r x l1 y l2 lo I1 F1 I2 NDs Hs') as (vl & vr & RL & RR & R).
      rewrite El. rewrite R.
      assert (HS' : sched_sorted s').
      { clear - HS. induction s' as [|a t IHt]; [constructor|]. cbn in HS. inversion HS as [|? ? HSt HFt]; subst. constructor; [apply IHt; exact HSt|].
        rewrite Forall_forall in *. intros q Hq; apply HFt. apply in_or_app; auto. }
      assert (Hlen' : length l1 + length l2 < S f).
      { rewrite El in Hlen. rewrite app_length in Hlen. cbn in Hlen. lia. }
      rewrite (IH x l1 lo (filter (lt_r r) s')) in RL; [| lia | exact I1 | apply sorted_filter; exact HS' |].
      2:{ intros i. rewrite filter_In. unfold lt_r. rewrite Nat.ltb_lt. split.
          - intros [Hi Hlt]. destruct (proj1 (Hs' i) Hi) as [?|HiR]; [assumption|]. pose proof (inc_ge _ opf _ _ _ I2 HiR). lia.
          - intros Hi. split; [apply Hs'; auto|]. rewrite Forall_forall in F1. unfold ids in Hi. apply in_map_iff in Hi. destruct Hi as ([a b] & Ha & Hb). cbn in Ha; subst. exact (F1 _ Hb). }
      rewrite (IH y l2 (S r) (filter (gt_r r) s')) in RR; [| lia | exact I2 | apply sorted_filter; exact HS' |].
      2:{ intros i. rewrite filter_In. unfold gt_r. rewrite Nat.ltb_lt. split.
          - intros [Hi Hlt]. destruct (proj1 (Hs' i) Hi) as [HiL|?]; [|assumption].
            rewrite Forall_forall in F1. unfold ids in HiL. apply in_map_iff in HiL. destruct HiL as ([a b] & Ha & Hb). cbn in Ha; subst. specialize (F1 _ Hb). cbn in F1. lia.
          - intros Hi. split; [apply Hs'; auto|]. pose proof (inc_ge _ opf _ _ _ I2 Hi). lia. }
      inversion RL; inversion RR; subst. reflexivity.
Qed.
End Precedence.
Print Assumptions run_sorted_is_ref.
