(* Proofs/Accept.v — the precondition check accepts the token rendering of every well-formed surface tree (the seven
   pair rules, the parenthesis balance, the last token), so the theorems about make_expression / dparse on renderings
   are theorems about parse_tokens_wo / parse_deep_tokens. *)
From Coq Require Import List Arith Lia Bool ZArith.
Import ListNotations.
From Exmex.Model Require Import Base EvalBinary Lexer Flat Deep.
From Exmex.Spec Require Import RefSem.
From Exmex.Proofs Require Import FlSem WalkSim Precond.
Open Scope nat_scope.

Section Accept.
Context {D : Type}.
Variable tb : optable.

(* what an atom may start with / ends with *)
Definition atom_first (t : token D) : bool :=
  match t with TNum _ | TVar _ | TOpen => true | TOp k => is_un tb k | TClose => false end.

(* pairs_ok of a concatenation *)
Lemma pairs_ok_cons (a b : token D) l : pairs_ok tb (a :: b :: l) = pair_ok tb a b && pairs_ok tb (b :: l).
Proof. reflexivity. Qed.
Lemma pairs_ok_join : forall (l1 : list (token D)) x y l2,
  pairs_ok tb (l1 ++ [x]) = true -> pair_ok tb x y = true -> pairs_ok tb (y :: l2) = true ->
  pairs_ok tb (l1 ++ x :: y :: l2) = true.
Proof.
  induction l1 as [|a l1 IH]; intros x y l2 H1 Hxy H2.
  - cbn [app]. rewrite pairs_ok_cons, Hxy, H2. reflexivity.
  - cbn [app] in *. destruct l1 as [|b l1'].
    + cbn [app] in *. rewrite pairs_ok_cons in H1. apply andb_prop in H1. rewrite pairs_ok_cons, (proj1 H1). cbn [andb].
      rewrite pairs_ok_cons, Hxy, H2. reflexivity.
    + cbn [app] in *. rewrite pairs_ok_cons in H1. apply andb_prop in H1. rewrite pairs_ok_cons, (proj1 H1). cbn [andb].
      exact (IH x y l2 (proj2 H1) Hxy H2).
Qed.

(* the shape of a well-formed rendering: first token, last token, all adjacent pairs fine *)
Definition good (l : list (token D)) : Prop :=
  exists f m e, (l = [f] /\ e = f \/ l = f :: m ++ [e]) /\ atom_first f = true /\ atom_end e = true /\ pairs_ok tb l = true.

Lemma pair_un_any u (t : token D) : is_un tb u = true -> atom_first t = true -> pair_ok tb (TOp u) t = true.
Proof.
  intros Hu Ht. destruct t as [d| | |k|x]; try reflexivity; try discriminate.
  cbn [pair_ok atom_first] in *. change (has_un tb u) with (is_un tb u). change (has_un tb k) with (is_un tb k). rewrite Hu, Ht. destruct (has_bin tb u); reflexivity.
Qed.
Lemma pair_open_first (t : token D) : atom_first t = true -> pair_ok tb TOpen t = true.
Proof. destruct t; try reflexivity; discriminate. Qed.
Lemma pair_end_close (t : token D) : atom_end t = true -> pair_ok tb t TClose = true.
Proof. destruct t; try reflexivity; discriminate. Qed.
Lemma pair_end_bin (t : token D) o : atom_end t = true -> is_bin tb o = true -> pair_ok tb t (TOp o) = true.
Proof. destruct t; try discriminate; intros _ H; exact H. Qed.
Lemma pair_bin_first o (t : token D) : is_bin tb o = true -> atom_first t = true -> pair_ok tb (TOp o) t = true.
Proof.
  intros Ho Ht. destruct t as [d| | |k|x]; try reflexivity; try discriminate.
  cbn [pair_ok atom_first] in *. change (has_un tb k) with (is_un tb k). change (has_bin tb o) with (is_bin tb o). rewrite Ht, Ho.
  destruct (has_un tb o); reflexivity.
Qed.

(* a list with known first and last token, as head/tail decompositions *)
Lemma good_hd l : good l -> exists f r, l = f :: r /\ atom_first f = true /\ pairs_ok tb (f :: r) = true.
Proof. intros (f & m & e & [[-> ->]| ->] & Hf & He & Hp); eexists _, _; split; try reflexivity; split; assumption. Qed.
Lemma good_last l : good l -> exists r e, l = r ++ [e] /\ atom_end e = true /\ pairs_ok tb (r ++ [e]) = true.
Proof.
  intros (f & m & e & [[-> ->]| ->] & Hf & He & Hp).
  - exists [], f. split; [reflexivity|]. split; assumption.
  - exists (f :: m), e. split; [reflexivity|]. split; assumption.
Qed.

(* gluing: [prefix ending in x] ++ [good list] when x may stand in front of an atom start *)
Lemma glue (l1 : list (token D)) x l2 : pairs_ok tb (l1 ++ [x]) = true -> good l2 ->
  (forall t, atom_first t = true -> pair_ok tb x t = true) -> pairs_ok tb (l1 ++ x :: l2) = true.
Proof.
  intros H1 Hg Hx. destruct (good_hd l2 Hg) as (f & r & -> & Hf & Hp). apply pairs_ok_join; [exact H1|apply Hx; exact Hf|exact Hp].
Qed.

Lemma unaries_then (us : list nat) (l : list (token D)) : forallb (is_un tb) us = true -> good l -> good (map TOp us ++ l).
Proof.
  induction us as [|u us IH]; intros Hu Hg; [exact Hg|]. cbn [forallb] in Hu. apply andb_prop in Hu. destruct Hu as [Hu Hus].
  specialize (IH Hus Hg). cbn [map app].
  destruct IH as (f & m & e & Hshape & Hf & He & Hp).
  destruct Hshape as [[E1 E2]|E1]; rewrite E1 in *.
  - subst e. exists (TOp u), [], f. split; [right; reflexivity|]. split; [exact Hu|]. split; [exact He|].
    cbn [app]. rewrite pairs_ok_cons, (pair_un_any u f Hu Hf). reflexivity.
  - exists (TOp u), (f :: m), e. split; [right; reflexivity|]. split; [exact Hu|]. split; [exact He|].
    change (TOp u :: f :: m ++ [e]) with (TOp u :: (f :: m ++ [e])). rewrite pairs_ok_cons, (pair_un_any u f Hu Hf), Hp. reflexivity.
Qed.

Lemma group_good (l : list (token D)) : good l -> good (TOpen :: l ++ [TClose]).
Proof.
  intros Hg. destruct (good_hd l Hg) as (f & r & E & Hf & Hp). destruct (good_last l Hg) as (r' & e & E' & He & Hp').
  exists TOpen, l, TClose. split; [right; reflexivity|]. split; [reflexivity|]. split; [reflexivity|].
  rewrite E' at 1. rewrite <- app_assoc. cbn [app].
  change (TOpen :: r' ++ [e; TClose]) with ([] ++ TOpen :: (r' ++ [e; TClose])).
  destruct r' as [|a r''].
  - cbn [app]. rewrite !pairs_ok_cons. rewrite E' in E. cbn in E. inversion E; subst. rewrite (pair_open_first f Hf), (pair_end_close f He). reflexivity.
  - cbn [app]. rewrite pairs_ok_cons. rewrite E' in E. cbn [app] in E. inversion E; subst a. rewrite (pair_open_first f Hf). cbn [andb].
    change (f :: r'' ++ [e; TClose]) with ((f :: r'') ++ e :: TClose :: []).
    apply pairs_ok_join; [exact Hp'|exact (pair_end_close e He)|reflexivity].
Qed.

Lemma chain_good (l1 : list (token D)) o (l2 : list (token D)) : good l1 -> is_bin tb o = true -> good l2 -> good (l1 ++ TOp o :: l2).
Proof.
  intros H1 Ho H2. destruct (good_last l1 H1) as (r & e & E & He & Hp). destruct (good_hd l2 H2) as (f & r2 & E2 & Hf & Hp2).
  assert (Hpairs : pairs_ok tb (l1 ++ TOp o :: l2) = true).
  { rewrite E. rewrite <- app_assoc. cbn [app]. rewrite E2. apply pairs_ok_join; [exact Hp|exact (pair_end_bin e o He Ho)|].
    rewrite pairs_ok_cons, (pair_bin_first o f Ho Hf), Hp2. reflexivity. }
  destruct H1 as (f1 & m1 & e1 & Hs1 & Hf1 & He1 & _). destruct H2 as (f2 & m2 & e2 & Hs2 & _ & He2 & _).
  destruct Hs1 as [[E1 _]|E1], Hs2 as [[E3 E4]|E3]; rewrite E1, E3 in *.
  - subst e2. exists f1, [TOp o], f2. repeat split; try assumption. right. reflexivity.
  - exists f1, (TOp o :: f2 :: m2), e2. repeat split; try assumption. right. reflexivity.
  - subst e2. exists f1, (m1 ++ [e1; TOp o]), f2. repeat split; try assumption. right. cbn [app]. rewrite <- !app_assoc. reflexivity.
  - exists f1, (m1 ++ e1 :: TOp o :: f2 :: m2), e2. repeat split; try assumption. right. cbn [app]. rewrite <- !app_assoc. reflexivity.
Qed.

Theorem flatten_good : forall n,
  (forall a : atom (D:=D), asize a <= n -> wf_atom tb a = true -> good (flatten_atom a)) /\
  (forall (l : list (nat * atom (D:=D))) (pre : list (token D)), rsize l <= n -> wf_rest tb l = true -> good pre -> good (pre ++ flatten_rest l)).
Proof.
  induction n as [|n [IHa IHr]].
  - split; [intros a H; pose proof (asize_pos a); lia|]. intros l pre H _ Hg. destruct l as [|[o b] tl]; [rewrite app_nil_r; exact Hg|]. cbn in H. pose proof (asize_pos b). lia.
  - assert (Ha : forall a : atom (D:=D), asize a <= S n -> wf_atom tb a = true -> good (flatten_atom a)).
    { intros a Hs Hwf. destruct a as [us k|us a0 rest].
      - cbn [wf_atom] in Hwf.
        assert (E : flatten_atom (ALeaf us k) = map TOp us ++ [match k with LNum v => TNum v | LVar x => TVar x end]) by (destruct k; reflexivity).
        rewrite E. apply unaries_then; [exact Hwf|]. eexists _, [], _. split; [left; split; reflexivity|]. destruct k; repeat split; reflexivity.
      - rewrite asize_group in Hs. rewrite (wf_group tb) in Hwf. apply andb_prop in Hwf. destruct Hwf as [Hwf Hwr]. apply andb_prop in Hwf. destruct Hwf as [Hus Hw0].
        rewrite flatten_atom_group. apply unaries_then; [exact Hus|].
        replace (TOpen :: flatten_atom a0 ++ flatten_rest rest ++ [TClose]) with (TOpen :: (flatten_atom a0 ++ flatten_rest rest) ++ [TClose]) by (rewrite <- app_assoc; reflexivity).
        apply group_good. apply (IHr rest (flatten_atom a0)); [lia|exact Hwr|]. apply IHa; [lia|exact Hw0]. }
    split; [exact Ha|].
    intros l pre Hs Hwf Hg. destruct l as [|[o b] tl]; [rewrite app_nil_r; exact Hg|].
    cbn [rsize] in Hs. cbn [wf_rest] in Hwf. apply andb_prop in Hwf. destruct Hwf as [Hwf Hwt]. apply andb_prop in Hwf. destruct Hwf as [Ho Hwb].
    pose proof (asize_pos b). cbn [flatten_rest].
    replace (pre ++ TOp o :: flatten_atom b ++ flatten_rest tl) with ((pre ++ TOp o :: flatten_atom b) ++ flatten_rest tl) by (rewrite <- app_assoc; reflexivity).
    apply IHr; [lia|exact Hwt|]. apply chain_good; [exact Hg|exact Ho|apply Ha; [lia|exact Hwb]].
Qed.

(* the parenthesis balance *)
Lemma balance_tree : forall n,
  (forall (a : atom (D:=D)) tail c, asize a <= n -> (0 <= c)%Z -> paren_balance (flatten_atom a ++ tail) c = paren_balance tail c) /\
  (forall (l : list (nat * atom (D:=D))) tail c, rsize l <= n -> (0 <= c)%Z -> paren_balance (flatten_rest l ++ tail) c = paren_balance tail c).
Proof.
  assert (Hops : forall us (tail : list (token D)) c, paren_balance (map TOp us ++ tail) c = paren_balance tail c).
  { induction us as [|u us IH]; intros tail c; [reflexivity|exact (IH tail c)]. }
  induction n as [|n [IHa IHr]].
  - split; [intros a tail c H; pose proof (asize_pos a); lia|]. intros l tail c H _. destruct l as [|[o b] tl]; [reflexivity|]. cbn in H. pose proof (asize_pos b). lia.
  - assert (Ha : forall (a : atom (D:=D)) tail c, asize a <= S n -> (0 <= c)%Z -> paren_balance (flatten_atom a ++ tail) c = paren_balance tail c).
    { intros a tail c Hs Hc. destruct a as [us k|us a0 rest].
      - assert (E : flatten_atom (ALeaf us k) = map TOp us ++ [match k with LNum v => TNum v | LVar x => TVar x end]) by (destruct k; reflexivity).
        rewrite E, <- app_assoc, Hops. destruct k; reflexivity.
      - rewrite asize_group in Hs. rewrite flatten_atom_group, <- app_assoc, Hops. cbn [app paren_balance].
        rewrite <- !app_assoc. rewrite (IHa a0) by lia. rewrite (IHr rest) by lia. cbn [app paren_balance].
        destruct (Z.ltb_spec (c + 1 - 1) 0); [lia|]. replace (c + 1 - 1)%Z with c by lia. reflexivity. }
    split; [exact Ha|]. intros l tail c Hs Hc. destruct l as [|[o b] tl]; [reflexivity|]. cbn [rsize] in Hs. pose proof (asize_pos b).
    cbn [flatten_rest app paren_balance]. rewrite <- app_assoc. rewrite (Ha b) by lia. apply IHr; lia.
Qed.

Theorem rendering_accepted (c : chain (D:=D)) : wf_chain tb c = true -> check_preconditions tb (flatten c) = Ok tt.
Proof.
  intros Hwf. destruct c as [a0 rest]. unfold wf_chain in Hwf. cbn [fst snd] in Hwf. apply andb_prop in Hwf. destruct Hwf as [Hw0 Hwr].
  assert (Hg : good (flatten (a0, rest))).
  { unfold flatten. cbn [fst snd]. apply (proj2 (flatten_good (rsize rest)) rest (flatten_atom a0) (le_n _) Hwr). apply (proj1 (flatten_good (asize a0)) a0 (le_n _) Hw0). }
  assert (Hb : paren_balance (flatten (a0, rest)) 0 = Some 0%Z).
  { unfold flatten. cbn [fst snd]. rewrite (proj1 (balance_tree (asize a0)) a0 _ 0%Z (le_n _) ltac:(lia)).
    rewrite <- (app_nil_r (flatten_rest rest)). rewrite (proj2 (balance_tree (rsize rest)) rest [] 0%Z (le_n _) ltac:(lia)). reflexivity. }
  destruct (good_last _ Hg) as (r & e & E & He & _). destruct Hg as (f & m & e' & Hs & _ & _ & Hp).
  unfold check_preconditions. destruct (flatten (a0, rest)) as [|t ts] eqn:Efl; [destruct r; discriminate|].
  rewrite Hp. cbn [negb]. rewrite Hb. cbn [Z.eqb negb].
  rewrite E, last_app_single. destruct e; try reflexivity; discriminate.
Qed.
End Accept.
