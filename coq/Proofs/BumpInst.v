(* Proofs/BumpInst.v — the literal-pair priority bump of prioritized_indices_flat (with the side condition
   regrouping_is_invisible) only regroups chains of one flagged operator: for every flat expression, the value under
   the bumped keys is R-equivalent to the value under the raw keys, for every congruence R in which the flagged
   operators are associative.  Instance of Bump.bump_invisible. *)
From Coq Require Import List Arith Lia Bool ZArith.
Import ListNotations.
From Exmex.Model Require Import Base EvalBinary Lexer Flat.
From Exmex.Proofs Require Import ChainMachine SortedRef Bump.
Open Scope nat_scope.

Section BumpInst.
Context {D : Type}.
Variable C : carrier D.
Variable R : D -> D -> Prop.
Hypothesis R_refl : forall a, R a a.
Hypothesis R_sym : forall a b, R a b -> R b a.
Hypothesis R_trans : forall a b c, R a b -> R b c -> R a c.
Hypothesis R_bin : forall k a a' b b', R a a' -> R b b' -> R (binf C k a b) (binf C k a' b').
Hypothesis R_un : forall k a a', R a a' -> R (unf C k a) (unf C k a').

Variable nodes : list (fnode D).
Variable ops : list fop.
(* the operators flagged commutative in this expression are associative modulo R *)
Hypothesis flagged_assoc : forall o, In o ops -> fcomm o = true ->
  forall a b c, R (binf C (fidx o) (binf C (fidx o) a b) c) (binf C (fidx o) a (binf C (fidx o) b c)).

Definition key0 (i : nat) : Z := match nth_error ops i with Some o => (fprio o * 10)%Z | None => 0%Z end.
Definition keyb (i : nat) : Z := key true nodes ops i.
Definition AP (j i : nat) : Prop :=
  exists oj oi, nth_error ops j = Some oj /\ nth_error ops i = Some oi /\
                fidx oj = fidx oi /\ fun_ oj = [] /\ fun_ oi = [] /\ fcomm oi = true.

Lemma R_apply_un us a a' : R a a' -> R (apply_un C us a) (apply_un C us a').
Proof. intros H. induction us as [|u us IH]; cbn; [exact H|apply R_un; exact IH]. Qed.
Lemma R_op_at i a a' b b' : R a a' -> R b b' -> R (op_at C ops i a b) (op_at C ops i a' b').
Proof.
  intros Ha Hb. unfold op_at. destruct (nth_error ops i) as [o|]; [|apply R_refl].
  unfold apply_op. apply R_apply_un. apply R_bin; assumption.
Qed.
Lemma AP_trans i j k : AP i j -> AP j k -> AP i k.
Proof.
  intros (oi & oj & Hi & Hj & Hf & Hui & Huj & Hc) (oj' & ok & Hj' & Hk & Hf' & Huj' & Huk & Hc').
  rewrite Hj in Hj'. inversion Hj'; subst oj'. exists oi, ok. repeat split; try assumption. congruence.
Qed.
Lemma AP_assoc j i a b c : AP j i -> R (op_at C ops i (op_at C ops j a b) c) (op_at C ops j a (op_at C ops i b c)).
Proof.
  intros (oj & oi & Hj & Hi & Hf & Huj & Hui & Hc). unfold op_at. rewrite Hj, Hi. unfold apply_op. rewrite Huj, Hui. cbn [apply_un fold_right].
  rewrite Hf. apply (flagged_assoc oi); [eapply nth_error_In; exact Hi|exact Hc].
Qed.
Lemma key_cases i : keyb i = key0 i \/ keyb i = (key0 i + 5)%Z.
Proof.
  unfold keyb, key, key0. destruct (nth_error ops i) as [o|]; [|left; reflexivity].
  destruct (nth_error nodes i) as [a|]; [|left; reflexivity]. destruct (nth_error nodes (S i)) as [b|]; [|left; reflexivity].
  destruct (is_num a && is_num b && fcomm o && (negb true || regrouping_is_invisible ops i)); [right|left]; reflexivity.
Qed.
Lemma key0_10 i : exists q, key0 i = (10 * q)%Z.
Proof. unfold key0. destruct (nth_error ops i) as [o|]; [exists (fprio o); lia|exists 0%Z; reflexivity]. Qed.

Lemma firstn_S_nth {A} : forall (l : list A) i x, nth_error l i = Some x -> firstn (S i) l = firstn i l ++ [x].
Proof.
  induction l as [|a l IH]; intros i x H; [destruct i; discriminate|].
  destruct i; [cbn in H; inversion H; reflexivity|]. cbn in H.
  change (firstn (S (S i)) (a :: l)) with (a :: firstn (S i) l). rewrite (IH i x H). reflexivity.
Qed.
Lemma find_rev_firstn (P : fop -> bool) : forall i j oj, j < i -> i <= length ops ->
  nth_error ops j = Some oj -> P oj = true ->
  (forall k ok, j < k < i -> nth_error ops k = Some ok -> P ok = false) ->
  find P (rev (firstn i ops)) = Some oj.
Proof.
  induction i as [|i IH]; intros j oj Hji Hi Hj HP Hbetween; [lia|].
  destruct (nth_error ops i) as [oi|] eqn:Ei; [|apply nth_error_None in Ei; lia].
  rewrite (firstn_S_nth ops i oi Ei), rev_app_distr. cbn [rev app find].
  destruct (Nat.eq_dec i j) as [->|Hne].
  - rewrite Hj in Ei. inversion Ei; subst. rewrite HP. reflexivity.
  - rewrite (Hbetween i oi ltac:(lia) Ei). apply (IH j oj ltac:(lia) ltac:(lia) Hj HP).
    intros k ok Hk. apply Hbetween. lia.
Qed.

Lemma BumpOK i : keyb i = (key0 i + 5)%Z -> forall j, j < i -> (key0 j <= key0 i)%Z ->
  (forall k, j < k < i -> (key0 i < key0 k)%Z) -> (key0 j < key0 i)%Z \/ AP j i.
Proof.
  intros Hk j Hji Hle Hbetween.
  unfold keyb, key, key0 in Hk. destruct (nth_error ops i) as [o|] eqn:Ei; [|lia].
  destruct (nth_error nodes i) as [a|]; [|lia]. destruct (nth_error nodes (S i)) as [b|]; [|lia].
  destruct (is_num a && is_num b && fcomm o && (negb true || regrouping_is_invisible ops i)) eqn:Eb; [|lia].
  cbn [negb orb] in Eb. apply andb_prop in Eb. destruct Eb as [Eb Hinv]. apply andb_prop in Eb. destruct Eb as [_ Hcomm].
  unfold regrouping_is_invisible in Hinv. rewrite Ei in Hinv.
  destruct (fun_ o) as [|u us] eqn:Eu; [|discriminate].
  assert (Hil : i < length ops) by (apply nth_error_Some; congruence).
  destruct (nth_error ops j) as [oj|] eqn:Ej; [|apply nth_error_None in Ej; lia].
  assert (Hfind : find (fun l => (fprio l <=? fprio o)%Z) (rev (firstn i ops)) = Some oj).
  { apply (find_rev_firstn _ i j oj Hji ltac:(lia) Ej).
    - unfold key0 in Hle. rewrite Ej, Ei in Hle. apply Z.leb_le. lia.
    - intros k ok Hkk Hnk. specialize (Hbetween k Hkk). unfold key0 in Hbetween. rewrite Ei, Hnk in Hbetween. apply Z.leb_gt. lia. }
  rewrite Hfind in Hinv. apply orb_prop in Hinv. destruct Hinv as [Hlt|Hsame].
  - left. unfold key0. rewrite Ej, Ei. apply Z.ltb_lt in Hlt. lia.
  - right. apply andb_prop in Hsame. destruct Hsame as [Hidx Hun]. apply Nat.eqb_eq in Hidx.
    exists oj, o. repeat split; try assumption. destruct (fun_ oj); [reflexivity|discriminate].
Qed.

Theorem bump_invisible_flat : forall n x (l : pairs D) lo, length l <= n -> @contig D lo l ->
  R (@ref_val D (op_at C ops) keyb n x l) (@ref_val D (op_at C ops) key0 n x l).
Proof.
  apply (bump_invisible D (op_at C ops) key0 keyb R R_refl R_sym R_trans R_op_at AP AP_trans AP_assoc key_cases key0_10 BumpOK).
Qed.
End BumpInst.
