(* C10 — operator application on expressions is a homomorphism.  Property theorems only. *)
From Coq Require Import List Arith.
Import ListNotations.
From Exmex.Model Require Import Base EvalBinary Lexer Flat Deep Convert Calc.
Open Scope nat_scope.

(* `_partial`: applying an unknown operator name is an error, for every table, data type and operands; applying a
   name that exists but has no unary (binary) function is an error too.
   Missing: the homomorphism itself (value of the result = operator applied to the operands' values over the sorted
   union of the variables) and the soundness of the shortcuts; both are covered by the correspondence (histories of
   applications against the reference interpreter; arithmetic histories against the unsimplified form). *)
Theorem C10_unknown_binary_name_is_error_partial :
  forall (D : Type) (C : carrier D) (tb : optable) (a b : deepex D) (name : str),
  find_op name tb 0 = None -> operate_bin C tb a b name = Err E_UNKNOWNOP.
Proof. intros D C tb a b name H. unfold operate_bin. rewrite H. reflexivity. Qed.
Theorem C10_unknown_unary_name_is_error_partial :
  forall (D : Type) (C : carrier D) (tb : optable) (a : deepex D) (name : str),
  find_op name tb 0 = None -> operate_unary C tb a name = Err E_UNKNOWNOP.
Proof. intros D C tb a name H. unfold operate_unary. rewrite H. reflexivity. Qed.
Theorem C10_not_a_unary_operator_is_error_partial :
  forall (D : Type) (C : carrier D) (tb : optable) (a : deepex D) (name : str) (k : nat),
  find_op name tb 0 = Some k -> has_un tb k = false -> operate_unary C tb a name = Err E_NOUNARY.
Proof. intros D C tb a name k H Hu. unfold operate_unary. rewrite H, Hu. reflexivity. Qed.

Print Assumptions C10_unknown_binary_name_is_error_partial.
