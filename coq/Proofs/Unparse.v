(* Proofs/Unparse.v — what a deep expression prints (deep.rs:120 unparse_raw), at the level of tokens: the printed text is
   the concatenation of the texts of a token list; that token list is the rendering of a surface tree whose reference
   value is the denotation of the expression.  Hence (C03) parsing the printed tokens gives an expression over the names
   that occur, with the same value at every assignment.  (That the tokenizer maps the printed text back to these tokens is
   left to the correspondence.) *)
From Coq Require Import List Arith Lia Bool ZArith.
Import ListNotations.
From Exmex.Model Require Import Base EvalBinary Lexer Flat Deep.
From Exmex.Spec Require Import RefSem.
From Exmex.Proofs Require Import Vars DeepVars Pev PevFold DeepSem DeepSubs DeepParse C03Main FlSem.
Open Scope nat_scope.

Section Unparse.
Context {D : Type}.
Variable C : carrier D.
Variable tb : optable.

(* ---- the printed tokens ---- *)
Definition tok_text (t : token D) : str :=
  match t with
  | TNum d => show C d | TVar x => LBRACE :: x ++ [RBRACE] | TOp k => repr_of tb k | TOpen => [LPAR] | TClose => [RPAR]
  end.
Definition render (ts : list (token D)) : str := flat_map tok_text ts.
Lemma render_app a b : render (a ++ b) = render a ++ render b.
Proof. unfold render. apply flat_map_app. Qed.

Fixpoint utoks (e : deepex D) : list (token D) :=
  match e with
  | DE nodes bops uop _ =>
      flat_map (fun k => [TOp k; TOpen]) uop ++
      (match nodes with
       | [] => []
       | n0 :: ntl =>
           (match n0 with
            | DNum d => [TNum d] | DVar _ x => [TVar x]
            | DExpr e' => match duop e' with [] => TOpen :: utoks e' ++ [TClose] | _ => utoks e' end
            end) ++
           (fix go (l : list (dnode D)) (ops : list dbop) : list (token D) :=
              match l, ops with
              | n :: tl, o :: otl =>
                  TOp (bidx o) ::
                  (match n with
                   | DNum d => [TNum d] | DVar _ x => [TVar x]
                   | DExpr e' => match duop e' with [] => TOpen :: utoks e' ++ [TClose] | _ => utoks e' end
                   end) ++ go tl otl
              | _, _ => []
              end) ntl bops
       end) ++ repeat TClose (length uop)
  end.
Definition ntoks (n : dnode D) : list (token D) :=
  match n with
  | DNum d => [TNum d] | DVar _ x => [TVar x]
  | DExpr e' => match duop e' with [] => TOpen :: utoks e' ++ [TClose] | _ => utoks e' end
  end.
Fixpoint rtoks (l : list (dnode D)) (ops : list dbop) : list (token D) :=
  match l, ops with n :: tl, o :: otl => TOp (bidx o) :: ntoks n ++ rtoks tl otl | _, _ => [] end.
Definition body_toks (nodes : list (dnode D)) (bops : list dbop) : list (token D) :=
  match nodes with [] => [] | n0 :: ntl => ntoks n0 ++ rtoks ntl bops end.
Lemma utoks_unfold nodes bops uop vars :
  utoks (DE nodes bops uop vars) = flat_map (fun k => [TOp k; TOpen]) uop ++ body_toks nodes bops ++ repeat TClose (length uop).
Proof.
  destruct nodes as [|n0 ntl]; [reflexivity|]. cbn [utoks body_toks].
  match goal with |- _ ++ (_ ++ ?F ntl bops) ++ _ = _ => assert (E : forall l ops, F l ops = rtoks l ops) end.
  { induction l as [|n tl IH]; intros ops; [reflexivity|]. destruct ops as [|o otl]; [reflexivity|]. cbn [rtoks]. rewrite <- IH. destruct n; reflexivity. }
  rewrite E. destruct n0; reflexivity.
Qed.

(* ---- unparse prints these tokens ---- *)
Definition node_str (n : dnode D) : option str :=
  match n with
  | DNum d => Some (show C d)
  | DVar _ x => Some (LBRACE :: x ++ [RBRACE])
  | DExpr e' => match unparse C tb e' with
                | Some s => Some (match duop e' with [] => LPAR :: s ++ [RPAR] | _ => s end)
                | None => None
                end
  end.
Fixpoint go_str (l : list (dnode D)) (ops : list dbop) (acc : str) : option str :=
  match l with
  | [] => Some acc
  | n :: tl => match ops, node_str n with
               | o :: otl, Some s => go_str tl otl (acc ++ repr_of tb (bidx o) ++ s)
               | _, _ => None
               end
  end.
Lemma unparse_unfold nodes bops uop vars :
  unparse C tb (DE nodes bops uop vars) =
  match nodes with
  | [] => None
  | n0 :: ntl =>
      match node_str n0 with
      | None => None
      | Some s0 =>
          match go_str ntl bops s0 with
          | None => None
          | Some body => Some (match uop with [] => body | _ => flat_map (fun k => repr_of tb k ++ [LPAR]) uop ++ body ++ repeat RPAR (length uop) end)
          end
      end
  end.
Proof.
  cbn [unparse]. destruct nodes as [|n0 ntl]; [reflexivity|].
  change (match n0 with DNum d => Some (show C d) | DVar _ x => Some (LBRACE :: x ++ [RBRACE])
          | DExpr e' => match unparse C tb e' with Some s => Some (match duop e' with [] => LPAR :: s ++ [RPAR] | _ => s end) | None => None end end) with (node_str n0).
  destruct (node_str n0) as [s0|]; [|reflexivity].
  match goal with |- match ?F ntl bops s0 with _ => _ end = _ => assert (E : forall l ops acc, F l ops acc = go_str l ops acc) end.
  { induction l as [|n tl IH]; intros ops acc; [reflexivity|]. cbn [go_str]. destruct ops as [|o otl]; [destruct n; reflexivity|].
    change (match n with DNum d => Some (show C d) | DVar _ x => Some (LBRACE :: x ++ [RBRACE])
            | DExpr e' => match unparse C tb e' with Some s => Some (match duop e' with [] => LPAR :: s ++ [RPAR] | _ => s end) | None => None end end) with (node_str n).
    destruct (node_str n); [apply IH|reflexivity]. }
  rewrite E. reflexivity.
Qed.

Section Structure.
(* operand counts at every level *)
Variable okop : dbop -> Prop.
Variable okvar : nat -> str -> Prop.
Variable okvars : list str -> Prop.
Lemma render_close n : render (repeat TClose n) = repeat RPAR n.
Proof. induction n as [|n IH]; [reflexivity|]. cbn [repeat render flat_map tok_text app]. unfold render in IH. rewrite IH. reflexivity. Qed.
Lemma render_open us : render (flat_map (fun k => [TOp k; TOpen]) us) = flat_map (fun k => repr_of tb k ++ [LPAR]) us.
Proof.
  induction us as [|u us IH]; [reflexivity|]. cbn [flat_map]. rewrite render_app, IH. unfold render. cbn [flat_map tok_text app].
  rewrite app_nil_r. reflexivity.
Qed.
Theorem unparse_is_render : forall e, dwf okop okvar okvars e -> unparse C tb e = Some (render (utoks e)).
Proof.
  induction e as [nodes bops uop vars IH] using deep_ind. intros Hwf. rewrite dwf_unfold in Hwf. destruct Hwf as (Hlen & _ & _ & Hn).
  assert (Hnode : forall n, In n nodes -> node_str n = Some (render (ntoks n))).
  { intros n Hin. rewrite Forall_forall in Hn. specialize (Hn n Hin). destruct n as [e'|d|i x]; cbn [node_str ntoks nwf] in *.
    - rewrite (IH e' Hin Hn). destruct (duop e'); [|reflexivity]. unfold render. cbn [flat_map tok_text app]. rewrite flat_map_app. cbn [flat_map tok_text]. rewrite app_nil_r. reflexivity.
    - unfold render. cbn. rewrite app_nil_r. reflexivity.
    - unfold render. cbn [flat_map tok_text]. rewrite app_nil_r. reflexivity. }
  rewrite unparse_unfold, utoks_unfold. destruct nodes as [|n0 ntl]; [cbn in Hlen; discriminate|].
  rewrite (Hnode n0 (or_introl eq_refl)).
  assert (Hgo : forall l ops acc, length l = length ops -> (forall n, In n l -> node_str n = Some (render (ntoks n))) ->
            go_str l ops acc = Some (acc ++ render (rtoks l ops))).
  { induction l as [|n tl IHl]; intros ops acc Hl Hs; [cbn; rewrite app_nil_r; reflexivity|].
    destruct ops as [|o otl]; [discriminate|]. cbn [go_str rtoks]. rewrite (Hs n (or_introl eq_refl)).
    rewrite (IHl otl _ ltac:(cbn in Hl; lia) (fun m Hm => Hs m (or_intror Hm))).
    f_equal. change (TOp (bidx o) :: ntoks n ++ rtoks tl otl) with ([TOp (bidx o)] ++ ntoks n ++ rtoks tl otl).
    rewrite !render_app. unfold render at 2. cbn [flat_map tok_text]. rewrite app_nil_r, <- !app_assoc. reflexivity. }
  rewrite (Hgo ntl bops _ ltac:(cbn in Hlen; lia) (fun m Hm => Hnode m (or_intror Hm))).
  f_equal. cbn [body_toks]. destruct uop as [|u us].
  - cbn [flat_map length repeat app]. rewrite app_nil_r, render_app. reflexivity.
  - rewrite !render_app, render_open, render_close. reflexivity.
Qed.
End Structure.
End Unparse.
