(* Proofs/ParseAny.v — every deep expression parsed from ANY accepted token list (not only from renderings of
   well-formed trees): the parser consumes the whole list, the expression's variable list is the list of parsed variables,
   and the expression is structurally well-formed with sorted sub-lists, hereditarily compiled, in normal form and records
   only unary operators in its unary stacks. *)
From Coq Require Import List Arith Lia Bool ZArith Sorted.
Import ListNotations.
From Exmex.Model Require Import Base EvalBinary Lexer Flat Deep.
From Exmex.Spec Require Import RefSem.
From Exmex.Proofs Require Import Vars DeepVars DeepSem DeepCompile DeepSubs DeepParse DeepTotal ParseConsume ParseBuilt NormalForm Hereditary Unparse UnparseParsed C11Main ConvertCompose Occurs.
Open Scope nat_scope.

Section ParseAny.
Context {D : Type}.
Variable C : carrier D.
Variable tb : optable.

Lemma preconditions_balance (ts : list (token D)) : check_preconditions tb ts = Ok tt -> paren_balance ts 0 = Some 0%Z.
Proof.
  unfold check_preconditions. destruct ts as [|t tl]; [discriminate|].
  destruct (negb (pairs_ok tb (t :: tl))); [discriminate|].
  destruct (paren_balance (t :: tl) 0) as [r|]; [|discriminate].
  destruct (Z.eqb_spec r 0) as [->|]; cbn [negb]; [reflexivity|discriminate].
Qed.

Theorem dparse_top_consumes (ts : list (token D)) e rest : check_preconditions tb ts = Ok tt ->
  dparse C tb (S (length ts)) None ts (find_parsed_vars ts) [] [] [] = Ok (e, rest) ->
  rest = [] /\ dvars e = find_parsed_vars ts.
Proof.
  intros Hpre H. destruct (preconditions_tok_ok tb ts Hpre) as [(_ & _ & Hadj) _].
  destruct (dparse_consume C tb _ _ _ _ _ _ _ _ _ Hadj H) as (cons & E & Hv & Hb).
  assert (Hr : rest = []).
  { destruct Hb as [[Hr _]|(pre & Ep & Hbal)]; [exact Hr|]. exfalso.
    pose proof (preconditions_balance ts Hpre) as Hb0. rewrite E, Ep, <- app_assoc, pb_app, (Hbal 0%Z ltac:(lia)) in Hb0.
    cbn [app paren_balance] in Hb0. discriminate. }
  split; [exact Hr|]. subst rest. rewrite app_nil_r in E. subst cons.
  destruct (dparse_good C tb (find_parsed_vars ts) _ _ _ _ _ _ e [] (Forall_nil _) H) as (_ & _ & Hl).
  destruct (vl_top _ e Hl) as [HS _].
  destruct (sort_strs_spec (vars_of ts)) as (S1 & _ & I1).
  apply sorted_unique; [exact HS|exact S1|]. intros y. rewrite (Hv y). cbn [flat_map In]. rewrite (I1 y). tauto.
Qed.

Theorem parsed_any (ts : list (token D)) e : parse_deep_tokens C tb ts = Ok e ->
  dvars e = find_parsed_vars ts /\
  dwf (flagged tb) (okvar (dvars e)) (okl_ (dvars e)) e /\ hc e /\ nf e /\ uok tb e.
Proof.
  unfold parse_deep_tokens. intros H.
  destruct (check_preconditions tb ts) as [[]| |] eqn:Hpre; cbn [bind] in H; try discriminate.
  destruct (dparse C tb (S (length ts)) None ts (find_parsed_vars ts) [] [] []) as [[e0 rest]| |] eqn:Hp; cbn [bind] in H; try discriminate.
  inversion H; subst e0. clear H.
  destruct (dparse_top_consumes ts e rest Hpre Hp) as [_ Hv].
  destruct (preconditions_tok_ok tb ts Hpre) as [Hok Hhd].
  pose proof (dparse_safe C tb (find_parsed_vars ts) (S (length ts)) None ts [] [] [] Hok (Forall_nil _) (fun o (H : In o []) => match H with end)
                (or_intror (or_intror (or_intror Hhd)))) as Hs. rewrite Hp in Hs. destruct Hs as [Hw _].
  destruct (dparse_good C tb (find_parsed_vars ts) _ _ _ _ _ _ e rest (Forall_nil _) Hp) as (Hh & Hn & Hl).
  split; [exact Hv|]. rewrite Hv. split; [exact (dwf_okl (find_parsed_vars ts) _ _ _ e Hw Hl)|].
  split; [exact Hh|]. split; [exact Hn|].
  exact (dparse_uok C tb (S (length ts)) None ts (find_parsed_vars ts) [] [] [] e rest eq_refl (Forall_nil _) Hp).
Qed.

(* hence index-consistent with its own duplicate-free variable list: the premise of evaluation, of the conversion to the
   flat form, of operator application and of substitution *)
Theorem parsed_any_deep_ok (ts : list (token D)) e : parse_deep_tokens C tb ts = Ok e -> deep_ok tb e.
Proof.
  intros H. destruct (parsed_any ts e H) as (_ & Hw & _). split; [split; [|reflexivity]|].
  - revert Hw. apply dwf_weaken; [intros i x Hx; exact Hx|].
    intros v [HS Hi]. unfold short_list. apply NoDup_incl_length; [apply sorted_lt_NoDup; exact HS|exact Hi].
  - destruct (parsed_any ts e H) as (Hv & _). rewrite Hv. unfold find_parsed_vars.
    destruct (sort_strs_spec (vars_of ts)) as (_ & ND & _). exact ND.
Qed.

(* every listed variable occurs in what the expression prints *)
Theorem parsed_any_prints_its_variables (ts : list (token D)) e : parse_deep_tokens C tb ts = Ok e ->
  dvars e = find_parsed_vars (utoks e).
Proof.
  intros H. destruct (parsed_any ts e H) as (_ & Hw & _).
  assert (Ho : hocc e).
  { unfold parse_deep_tokens in H. destruct (check_preconditions tb ts) as [[]| |]; cbn [bind] in H; try discriminate.
    destruct (dparse C tb (S (length ts)) None ts (find_parsed_vars ts) [] [] []) as [[e0 rest]| |] eqn:Hp; cbn [bind] in H; try discriminate.
    inversion H; subst e0. exact (dparse_hocc C tb _ _ _ _ _ _ _ e rest (Forall_nil _) Hp). }
  assert (HS : StronglySorted str_lt (dvars e)).
  { destruct e as [nodes bops uop vars]. rewrite dwf_unfold in Hw. destruct Hw as (_ & [HS _] & _). exact HS. }
  destruct (sort_strs_spec (vars_of (utoks e))) as (S1 & _ & I1).
  apply sorted_unique; [exact HS|exact S1|]. intros y. unfold find_parsed_vars. fold (vars_of (utoks e)). rewrite (I1 y).
  rewrite (utoks_vars e (dwf_counts _ _ _ e Hw)). exact (hocc_top e Ho y).
Qed.

(* so printing and parsing again (token level) gives the same variables and the same value at every assignment *)
Section RoundTrip.
Variable R : D -> D -> Prop.
Hypothesis R_refl : forall a, R a a.
Hypothesis R_sym : forall a b, R a b -> R b a.
Hypothesis R_trans : forall a b c, R a b -> R b c -> R a c.
Hypothesis R_bin : forall k a a' b b', R a a' -> R b b' -> R (binf C k a b) (binf C k a' b').
Hypothesis R_un : forall k a a', R a a' -> R (unf C k a) (unf C k a').
Hypothesis table_assoc : forall o, comm_of tb o = true -> forall a b c, R (binf C o (binf C o a b) c) (binf C o a (binf C o b c)).
Theorem parsed_any_round_trip (ts : list (token D)) e : parse_deep_tokens C tb ts = Ok e ->
  unparse C tb e = Some (render C tb (utoks e)) /\
  exists e', parse_deep_tokens C tb (utoks e) = Ok e' /\ dvars e' = dvars e /\
    forall vals, length vals = length (dvars e) ->
    exists v v', eval_deep C e vals = Ok v /\ eval_deep C e' vals = Ok v' /\ R v' v.
Proof.
  intros H. destruct (parsed_any ts e H) as (_ & Hw & _ & _ & Hu). destruct (parsed_any_deep_ok ts e H) as [Hi _].
  split; [exact (unparse_is_render C tb _ _ _ e Hw)|].
  exact (print_parse_same C tb R R_refl R_sym R_trans R_bin R_un table_assoc e Hi Hu (parsed_any_prints_its_variables ts e H)).
Qed.
Theorem parsed_any_evaluates (ts : list (token D)) e vals : parse_deep_tokens C tb ts = Ok e -> length vals = length (dvars e) ->
  exists v, eval_deep C e vals = Ok v /\ R v (dden C (nlook (env_of C (dvars e) vals)) e).
Proof.
  intros H Hl. destruct (parsed_any_deep_ok ts e H) as [Hi _].
  exact (eval_consistent C R R_refl R_sym R_trans R_bin R_un (flagged tb) (flagged_op_assoc C tb R table_assoc) (dvars e) vals e Hi Hl).
Qed.
End RoundTrip.
End ParseAny.
